/-
  Text form of resource sets (`Display` of `AsBlocks`, `Ipv4Blocks`, `Ipv6Blocks`, as used in the
  RFC 6492 `resource_set_*` attributes, in JSON and in logs): `src/repository/resources/asres.rs`
  (`Asn`, `AsRange`, `AsBlocks`), `ipres.rs` (`Prefix::fmt_v4/fmt_v6`, `AddressRange::fmt_v4/fmt_v6`,
  `IpBlocksForFamily`) on top of the standard library's `Ipv4Addr` / `Ipv6Addr` display, which is
  modelled here from its documentation (RFC 5952: lower-case hexadecimal without leading zeros, the
  first longest run of two or more zero groups written as `::`, IPv4-mapped addresses in mixed form).
  Addresses are 128-bit naturals; IPv4 addresses live in the upper 32 bits.
-/
import Rpki.Model.Chain
namespace Rpki.ResText
open Rpki.Chain

abbrev Bytes := List Nat

def decAux : Nat → Nat → Bytes → Bytes
  | 0, _, acc => acc
  | fuel + 1, n, acc => if n < 10 then (48 + n) :: acc else decAux fuel (n / 10) ((48 + n % 10) :: acc)
/-- decimal digits -/
def decimal (n : Nat) : Bytes := decAux (n + 1) n []

def hexDigit (v : Nat) : Nat := if v < 10 then 48 + v else 87 + v
def hexAux : Nat → Nat → Bytes → Bytes
  | 0, _, acc => acc
  | fuel + 1, n, acc => if n < 16 then hexDigit n :: acc else hexAux fuel (n / 16) (hexDigit (n % 16) :: acc)
/-- `{:x}` -/
def hexLower (n : Nat) : Bytes := hexAux (n + 1) n []

/-- `Ipv4Addr` display of a 32-bit value -/
def fmtV4 (a : Nat) : Bytes :=
  decimal (a / 2 ^ 24 % 256) ++ [46] ++ decimal (a / 2 ^ 16 % 256) ++ [46] ++ decimal (a / 2 ^ 8 % 256) ++ [46] ++ decimal (a % 256)

def groups (a : Nat) : List Nat := (List.range 8).map fun i => a / 2 ^ (16 * (7 - i)) % 65536

/-- the first longest run of zero groups: (start, length) -/
def longestZeros : List Nat → Nat → Nat → Nat → Nat → Nat → Nat × Nat
  | [], _, _, _, ls, ll => (ls, ll)
  | g :: rest, i, cs, cl, ls, ll =>
    if g = 0 then
      let cs' := if cl = 0 then i else cs
      let cl' := cl + 1
      if cl' > ll then longestZeros rest (i + 1) cs' cl' cs' cl' else longestZeros rest (i + 1) cs' cl' ls ll
    else longestZeros rest (i + 1) 0 0 ls ll

def joinColon : List Nat → Bytes
  | [] => []
  | [g] => hexLower g
  | g :: rest => hexLower g ++ [58] ++ joinColon rest

/-- `Ipv6Addr` display of a 128-bit value -/
def fmtV6 (a : Nat) : Bytes :=
  if a / 2 ^ 32 = 0xffff then [58, 58, 102, 102, 102, 102, 58] ++ fmtV4 (a % 2 ^ 32)
  else
    let gs := groups a
    let (st, len) := longestZeros gs 0 0 0 0 0
    if len > 1 then joinColon (gs.take st) ++ [58, 58] ++ joinColon (gs.drop (st + len))
    else joinColon gs

/-- a block as the chain stores it: a prefix (address, length) or a range -/
inductive TBlk where
  | pfx (addr len : Nat)
  | range (lo hi : Nat)
deriving Repr, DecidableEq

def fmtAddr (v4 : Bool) (a : Nat) : Bytes := if v4 then fmtV4 (a / 2 ^ 96) else fmtV6 a

/-- `IpBlock::fmt_v4` / `fmt_v6` -/
def fmtBlock (v4 : Bool) : TBlk → Bytes
  | .pfx a len => fmtAddr v4 a ++ (if len = (if v4 then 32 else 128) then [] else [47] ++ decimal len)
  | .range lo hi =>
    -- `min.to_v4() == max.to_v4()` compares the IPv4 parts only
    if (if v4 then lo / 2 ^ 96 = hi / 2 ^ 96 else lo = hi) then fmtAddr v4 lo else fmtAddr v4 lo ++ [45] ++ fmtAddr v4 hi

def joinComma : List Bytes → Bytes
  | [] => []
  | [b] => b
  | b :: rest => b ++ [44, 32] ++ joinComma rest

/-- `IpBlocksForFamily: Display` -/
def fmtIp (v4 : Bool) (bs : List TBlk) : Bytes := joinComma (bs.map (fmtBlock v4))

/-- the variant a canonical chain stores for a block: a prefix whenever the range is one -/
def tagged (b : Blk) : TBlk :=
  match intoPrefix 128 b.lo b.hi with
  | some len => .pfx b.lo len
  | none => .range b.lo b.hi

/-- `AsBlocks: Display`: `AS<n>` for a single number, `AS<min>-AS<max>` for a range -/
def fmtAsBlock (b : Blk) : Bytes :=
  if b.lo = b.hi then [65, 83] ++ decimal b.lo else [65, 83] ++ decimal b.lo ++ [45, 65, 83] ++ decimal b.hi

def fmtAs (bs : List Blk) : Bytes := joinComma (bs.map fmtAsBlock)

/-! ### reading the AS text form back (`AsBlocks::from_str`, `AsBlock::from_str`, `Asn::from_str`) -/

/-- `char::is_whitespace` on ASCII -/
def isWs (c : Nat) : Bool := c = 32 || (9 ≤ c && c ≤ 13)
def trim (b : Bytes) : Bytes := ((b.dropWhile isWs).reverse.dropWhile isWs).reverse

/-- split at every comma -/
def splitComma : Bytes → Bytes → List Bytes
  | [], cur => [cur.reverse]
  | c :: rest, cur => if c = 44 then cur.reverse :: splitComma rest [] else splitComma rest (c :: cur)

/-- `u32::from_str`: an optional `+`, then at least one digit, no overflow -/
def parseU32 (b : Bytes) : Option Nat :=
  let d := match b with | 43 :: r => r | _ => b
  if d = [] then none
  else if d.all (fun c => 48 ≤ c && c ≤ 57) then
    let v := d.foldl (fun acc c => acc * 10 + (c - 48)) 0
    if v < 2 ^ 32 then some v else none
  else none

/-- `strip_as`: the first two characters when they are `as` in any case (only cut at a character boundary) -/
def stripAs (b : Bytes) : Bytes :=
  match b with
  | a :: c :: rest => if (a = 65 || a = 97) && (c = 83 || c = 115) then rest else b
  | _ => b

def parseAsn (b : Bytes) : Option Nat := parseU32 (stripAs b)

/-- `AsBlock::from_str` -/
def parseAsBlock (b : Bytes) : Option Blk :=
  let pre := b.takeWhile (· ≠ 45)
  if pre.length = b.length then (parseAsn b).map fun v => ⟨v, v⟩
  else
    let post := b.drop (pre.length + 1)
    if post = [] then none
    else match parseAsn pre, parseAsn post with
      | some lo, some hi => if lo > hi then none else some ⟨lo, hi⟩
      | _, _ => none

/-- `AsBlocks::from_str`: the blocks in the order written (the builder then collects them) -/
def parseAsItems (b : Bytes) : Option (List Blk) :=
  ((splitComma b []).map trim |>.filter (· ≠ [])).mapM parseAsBlock

def parseAs (b : Bytes) : Option (List Blk) := (parseAsItems b).map (fromIter 4294967295)

/-! ### reading the IP text forms back

`Ipv4Blocks::from_str`, `Ipv6Blocks::from_str`, `IpBlock::from_v4_str/from_v6_str`, `Prefix` and
`AddressRange` `from_v?_str_sep` are repository code; the address parsers underneath are the
standard library's (`Ipv4Addr::from_str`, `Ipv6Addr::from_str`), modelled here from their
documented grammar: IPv4 is four decimal numbers 0…255 of at most three digits without a leading
zero; IPv6 is up to eight groups of one to four hexadecimal digits, `::` at most once for one or
more zero groups, and an IPv4 address allowed as the last 32 bits. -/

def isDigit (c : Nat) : Bool := 48 ≤ c && c ≤ 57
def hexVal (c : Nat) : Option Nat :=
  if 48 ≤ c ∧ c ≤ 57 then some (c - 48)
  else if 97 ≤ c ∧ c ≤ 102 then some (c - 87)
  else if 65 ≤ c ∧ c ≤ 70 then some (c - 55)
  else none

/-- split at every occurrence of `sep` -/
def splitOn (sep : Nat) : Bytes → Bytes → List Bytes
  | [], cur => [cur.reverse]
  | c :: rest, cur => if c = sep then cur.reverse :: splitOn sep rest [] else splitOn sep rest (c :: cur)

/-- one IPv4 octet: 1–3 digits, no leading zero unless it is `0`, at most 255 -/
def parseOctet (b : Bytes) : Option Nat :=
  if b = [] ∨ b.length > 3 ∨ !b.all isDigit then none
  else if b.length > 1 ∧ b.head? = some 48 then none
  else
    let v := b.foldl (fun acc c => acc * 10 + (c - 48)) 0
    if v ≤ 255 then some v else none

/-- `Ipv4Addr::from_str`: the 32-bit value -/
def parseV4 (b : Bytes) : Option Nat :=
  match (splitOn 46 b []).mapM parseOctet with
  | some [a, b', c, d] => some (a * 2 ^ 24 + b' * 2 ^ 16 + c * 2 ^ 8 + d)
  | _ => none

/-- one IPv6 group: 1–4 hexadecimal digits -/
def parseGroup (b : Bytes) : Option Nat :=
  if b = [] ∨ b.length > 4 then none
  else (b.mapM hexVal).map fun ds => ds.foldl (fun acc d => acc * 16 + d) 0

/-- a `:`-separated run of groups whose last element may be an IPv4 address (then two groups);
`[]` for the empty string -/
def parseGroups (b : Bytes) (allowV4 : Bool) : Option (List Nat) :=
  if b = [] then some [] else
  let parts := splitOn 58 b []
  let init := parts.dropLast
  match parts.getLast? with
  | none => some []
  | some last =>
    match init.mapM parseGroup with
    | none => none
    | some gs =>
      if last.contains 46 then
        (if allowV4 then (parseV4 last).map fun v => gs ++ [v / 65536, v % 65536] else none)
      else (parseGroup last).map fun g => gs ++ [g]

def groupsToNat (gs : List Nat) : Nat := gs.foldl (fun acc g => acc * 65536 + g) 0

/-- position of the first `::` -/
def findDouble : Bytes → Nat → Option Nat
  | 58 :: 58 :: _, i => some i
  | _ :: rest, i => findDouble rest (i + 1)
  | [], _ => none

/-- `Ipv6Addr::from_str`: the 128-bit value -/
def parseV6 (b : Bytes) : Option Nat :=
  match findDouble b 0 with
  | none =>
    (match parseGroups b true with
     | some gs => if gs.length = 8 then some (groupsToNat gs) else none
     | none => none)
  | some i =>
    let head := b.take i
    let tail := b.drop (i + 2)
    -- an IPv4 part can only end the address: never in the head
    match parseGroups head false, parseGroups tail true with
    | some hs, some ts =>
      if hs.length + ts.length ≤ 7 then
        some (groupsToNat (hs ++ List.replicate (8 - hs.length - ts.length) 0 ++ ts))
      else none
    | _, _ => none

/-- `u8::from_str` for a prefix length -/
def parseLen (b : Bytes) : Option Nat :=
  let d := match b with | 43 :: r => r | _ => b
  if d = [] ∨ !d.all isDigit then none
  else
    let v := d.foldl (fun acc c => acc * 10 + (c - 48)) 0
    if v ≤ 255 then some v else none

def findSep (sep : Nat) (b : Bytes) : Option Nat :=
  let pre := b.takeWhile (· ≠ sep)
  if pre.length = b.length then none else some pre.length

/-- the 128-bit address of a parsed address of the family -/
def parseAddr (v4 : Bool) (b : Bytes) : Option Nat :=
  if v4 then (parseV4 b).map (· * 2 ^ 96) else parseV6 b

def hostMask (len : Nat) : Nat := 2 ^ (128 - len) - 1

/-- `IpBlock::from_v4_str` / `from_v6_str`: the block as stored (prefix: host bits cleared by
`Prefix::new`; a single IPv4 address is the range up to the end of its low 96 bits) -/
def parseIpBlock (v4 : Bool) (b : Bytes) : Option TBlk :=
  let W := if v4 then 32 else 128
  match findSep 47 b with
  | some i =>
    (match parseAddr v4 (b.take i), parseLen (b.drop (i + 1)) with
     | some a, some len => if len > W then none else some (.pfx (a / 2 ^ (128 - len) * 2 ^ (128 - len)) len)
     | _, _ => none)
  | none =>
    match findSep 45 b with
    | some i =>
      (match parseAddr v4 (b.take i), parseAddr v4 (b.drop (i + 1)) with
       | some lo, some hi => some (.range lo (if v4 then hi + (2 ^ 96 - 1) else hi))
       | _, _ => none)
    | none => (parseAddr v4 b).map fun a => .range a (if v4 then a + (2 ^ 96 - 1) else a)

def tblkBounds : TBlk → Blk
  | .pfx a len => ⟨a, a + hostMask len⟩
  | .range lo hi => ⟨lo, hi⟩

/-- `Ipv4Blocks::from_str` / `Ipv6Blocks::from_str`: the items in the order written; `none` when an
item does not parse or smells like the other family -/
def parseIpItems (v4 : Bool) (b : Bytes) : Option (List TBlk) :=
  let items := (splitComma b []).map trim |>.filter (· ≠ [])
  if v4 then
    (if items.any (·.contains 58) then none else items.mapM (parseIpBlock true))
  else
    (if items.any (fun s => s.contains 46 && !s.contains 58) then none else items.mapM (parseIpBlock false))

end Rpki.ResText
