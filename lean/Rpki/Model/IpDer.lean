/-
  RFC 3779 IP address blocks in DER (`src/repository/resources/ipres.rs`): `Prefix::from_bit_string`,
  `Prefix::parse_content_with_family`, `AddressRange::parse_content_with_family`,
  `IpBlock::take_opt_from_with_family`, `IpBlocks::take_from_with_family` and the encoders
  (`Prefix: PrimitiveContent`, `AddressRange::encode` with `min_to_prefix` / `max_to_prefix`).
  Addresses are 128-bit naturals; IPv4 addresses live in the upper 32 bits.
-/
import Rpki.Model.Der
import Rpki.Model.Chain
import Rpki.Model.Manifest
namespace Rpki.IpDer
open Rpki.Der Rpki.Chain

def toNatBE : Bytes → Nat
  | [] => 0
  | b :: bs => b * 256 ^ bs.length + toNatBE bs

def maxAddr : Nat := 2 ^ 128 - 1

/-- `Addr::to_min(len)`: host bits cleared -/
def toMin (addr len : Nat) : Nat := addr / 2 ^ (128 - len) * 2 ^ (128 - len)
/-- `Addr::to_max(len)`: host bits set -/
def toMax (addr len : Nat) : Nat := toMin addr len + (2 ^ (128 - len) - 1)

/-- `Prefix::from_bit_string` on the BIT STRING content (unused-bits octet, then the octets), after
bcder's own BIT STRING checks; result: (address with host bits cleared, length) -/
def prefixOfContent (c : Bytes) : Option (Nat × Nat) :=
  match Manifest.bitStringTake c with
  | none => none
  | some (unused, octets) =>
    if octets.length > 16 then none
    else
      let addr := toNatBE octets * 256 ^ (16 - octets.length)
      let len := 8 * octets.length - unused
      some (toMin addr len, len)

/-- `IpBlock::take_opt_from_with_family`: BIT STRING = prefix, SEQUENCE { min, max } = range;
`W` is the family's maximal length (32 / 128) -/
def takeOptBlock (W : Nat) (b : Bytes) : Take Blk :=
  match b with
  | [] => .absent
  | t :: _ =>
    if t % 32 = 31 then .bad
    else match readTlv b with
      | none => .bad
      | some (_, c, rest) =>
        if tagNoCons t = tagBitString then
          (if isCons t then .bad else
            match prefixOfContent c with
            | some (a, len) => if len > W then .bad else .ok ⟨a, toMax a len⟩ rest
            | none => .bad)
        else if tagNoCons t = 0x10 then
          (if !isCons t then .bad else
            match takePrim tagBitString c with
            | none => .bad
            | some (c1, r1) =>
              match takePrim tagBitString r1 with
              | none => .bad
              | some (c2, r2) =>
                match prefixOfContent c1, prefixOfContent c2 with
                | some (a1, l1), some (a2, l2) =>
                  if l1 > W ∨ l2 > W then .bad
                  else if r2 ≠ [] then .bad
                  else if a1 > toMax a2 l2 then .bad
                  else .ok ⟨a1, toMax a2 l2⟩ rest
                | _, _ => .bad)
        else .bad

def blocksLoop (W : Nat) : Nat → Bytes → Option (List Blk)
  | 0, b => if b = [] then some [] else none
  | fuel + 1, b =>
    match takeOptBlock W b with
    | .absent => some []
    | .bad => none
    | .ok blk rest => (blocksLoop W fuel rest).map (blk :: ·)

/-- `IpBlocks::take_from_with_family` on a complete SEQUENCE OF value -/
def decodeBlocks (W : Nat) (b : Bytes) : Option (List Blk) :=
  match takeCons tagSeq b with
  | none => none
  | some (c, _) => (blocksLoop W c.length c).map (fromIter maxAddr)

/-- the 16 octets of an address, most significant first -/
def addrOctets (a : Nat) : Bytes := (List.range 16).map fun i => a / 256 ^ (15 - i) % 256

/-- `Prefix: PrimitiveContent::write_encoded` -/
def encodePrefixContent (addr len : Nat) : Bytes :=
  if len % 8 = 0 then 0 :: (addrOctets addr).take (len / 8)
  else (8 - len % 8) :: (addrOctets addr).take (len / 8 + 1)

/-- number of trailing zero bits of a 128-bit value (128 for zero) -/
def tz (x : Nat) : Nat := trailingZeros 128 x
/-- number of trailing one bits -/
def to1 (x : Nat) : Nat := trailingOnes 128 x

/-- `IpBlock::encode` for a block of a canonical chain: a prefix when the range is one
(`into_prefix`), else `AddressRange::encode` -/
def encodeBlock (b : Blk) : Bytes :=
  match intoPrefix 128 b.lo b.hi with
  | some len => tlv tagBitString (encodePrefixContent b.lo len)
  | none =>
    let l1 := 128 - tz b.lo
    let l2 := 128 - to1 b.hi
    tlv tagSeq (tlv tagBitString (encodePrefixContent (toMin b.lo l1) l1) ++
                tlv tagBitString (encodePrefixContent (toMin b.hi l2) l2))

/-- `IpBlocks::encode_ref` -/
def encodeBlocks (c : List Blk) : Bytes := tlv tagSeq ((c.map encodeBlock).flatten)

end Rpki.IpDer
