/-
Model of the generic block chain (src/repository/resources/chain.rs) over a
bounded item space `[0, M]`, and of the range/prefix conversions of
src/repository/resources/ipres.rs.

A block is `(lo, hi)`; a chain is a `List Blk`.  One model function per Rust
function, same case analysis; the two-pointer loops take fuel.
-/
import Rpki.Gen.Consts
namespace Rpki.Chain
open Rpki.Consts

structure Blk where
  lo : Nat
  hi : Nat
deriving DecidableEq, Repr

/-- `Block::next` / `Block::previous` (checked add/sub on the item type) -/
def next (M x : Nat) : Option Nat := if x < M then some (x + 1) else none
def previous (x : Nat) : Option Nat := if 0 < x then some (x - 1) else none

/-- `Block::intersects` -/
def intersects (a b : Blk) : Bool := a.lo ≤ b.hi && a.hi ≥ b.lo

/-- `Block::sum` -/
def sum (M : Nat) (a b : Blk) : Option Blk :=
  if intersects a b then some ⟨min a.lo b.lo, max a.hi b.hi⟩
  else if next M a.hi = some b.lo then some ⟨a.lo, b.hi⟩
  else if next M b.hi = some a.lo then some ⟨b.lo, a.hi⟩
  else none

/-- `merge_or_add_block`: merge into the first element the block can be summed with -/
def mergeOrAdd (M : Nat) : List Blk → Blk → List Blk
  | [], b => [b]
  | e :: es, b => match sum M e b with
    | some s => s :: es
    | none => e :: mergeOrAdd M es b

def insertByLo (b : Blk) : List Blk → List Blk
  | [] => [b]
  | x :: xs => if b.lo < x.lo then b :: x :: xs else x :: insertByLo b xs

/-- `sort_unstable_by_key(|b| b.min())` (modelled by a stable insertion sort) -/
def sortByLo : List Blk → List Blk
  | [] => []
  | x :: xs => insertByLo x (sortByLo xs)

/-- the tail / tail_next pass over the sorted vector. `chainPostPassMergesOverlap` (read from the
source) says whether it also merges *overlapping* neighbours or only adjacent ones. -/
def postPass (M : Nat) : Blk → List Blk → List Blk
  | tail, [] => [tail]
  | tail, b :: rest =>
    if chainPostPassMergesOverlap then
      if b.lo ≤ tail.hi ∨ next M tail.hi = some b.lo then
        postPass M (if b.hi > tail.hi then ⟨tail.lo, b.hi⟩ else tail) rest
      else tail :: postPass M b rest
    else
      if next M tail.hi = some b.lo then postPass M ⟨tail.lo, b.hi⟩ rest
      else tail :: postPass M b rest

/-- `from_iter_unsorted` -/
def fromIterUnsorted (M : Nat) (res : List Blk) (b : Blk) (rest : List Blk) : List Blk :=
  match sortByLo ((b :: rest).foldl (mergeOrAdd M) res) with
  | [] => []
  | x :: xs => postPass M x xs

/-- `OwnedChain::from_iter`: the sorted fast path; `res` is the accumulator, last element first -/
def fromIterAux (M : Nat) : List Blk → List Blk → List Blk
  | res, [] => res.reverse
  | [], b :: rest => fromIterAux M [b] rest
  | last :: res', b :: rest =>
    if b.lo < last.lo then fromIterUnsorted M (last :: res').reverse b rest
    else if b.lo ≤ last.hi then
      if b.hi > last.hi then fromIterAux M (⟨last.lo, b.hi⟩ :: res') rest
      else fromIterAux M (last :: res') rest
    else if next M last.hi = some b.lo then fromIterAux M (⟨last.lo, b.hi⟩ :: res') rest
    else fromIterAux M (b :: last :: res') rest

def fromIter (M : Nat) (bs : List Blk) : List Blk := fromIterAux M [] bs

/-- `Chain::contains_item` -/
def containsItem : List Blk → Nat → Bool
  | [], _ => false
  | b :: bs, x => if b.lo > x then false else if b.lo ≤ x ∧ x ≤ b.hi then true else containsItem bs x

/-- `Chain::is_encompassed` (self ⊆ other) -/
def isEncompassedAux : List Blk → Blk → List Blk → Bool
  | [], _, _ => true
  | b :: bs, o, os =>
    if o.hi < b.lo then
      match os with
      | o' :: os' => isEncompassedAux (b :: bs) o' os'
      | [] => false
    else if o.lo ≤ b.lo ∧ b.hi ≤ o.hi then isEncompassedAux bs o os
    else false
termination_by s _ os => s.length + os.length

def isEncompassed (s other : List Blk) : Bool :=
  match other with
  | [] => s.isEmpty
  | o :: os => isEncompassedAux s o os

/-- the loop of `Chain::trim`; `acc` holds the blocks kept so far (reversed), `changed` whether the
result already differs from `self` -/
def trimLoop (M : Nat) : Nat → Blk → List Blk → Blk → List Blk → List Blk → Bool → Except (List Blk) Unit
  | 0, _, _, _, _, acc, _ => .error acc.reverse
  | fuel + 1, o, os, s, ss, acc, changed =>
    if o.hi < s.lo then
      match os with
      | o' :: os' => trimLoop M fuel o' os' s ss acc changed
      | [] => .error acc.reverse
    else if s.lo ≥ o.lo ∧ s.hi ≤ o.hi then
      match ss with
      | s' :: ss' => trimLoop M fuel o os s' ss' (s :: acc) changed
      | [] => if changed then .error (s :: acc).reverse else .ok ()
    else if s.hi < o.lo then
      match ss with
      | s' :: ss' => trimLoop M fuel o os s' ss' acc true
      | [] => .error acc.reverse
    else if s.hi ≤ o.hi then
      match ss with
      | s' :: ss' => trimLoop M fuel o os s' ss' (⟨max s.lo o.lo, s.hi⟩ :: acc) true
      | [] => .error (⟨max s.lo o.lo, s.hi⟩ :: acc).reverse
    else
      trimLoop M fuel o os ⟨o.hi + 1, s.hi⟩ ss (⟨max s.lo o.lo, o.hi⟩ :: acc) true

/-- `Chain::trim`: `ok` = self is encompassed by other; `error r` = the intersection -/
def trim (M : Nat) (s other : List Blk) : Except (List Blk) Unit :=
  match other, s with
  | [], _ => .error []
  | _, [] => .ok ()
  | o :: os, b :: bs => trimLoop M (2 * (s.length + other.length) + 2) o os b bs [] false

/-- `Chain::difference` loop -/
def diffLoop : Nat → Blk → List Blk → Option Blk → List Blk → List Blk → List Blk
  | 0, _, _, _, _, acc => acc.reverse
  | fuel + 1, s, ss, none, _, acc =>
    match ss with
    | s' :: ss' => diffLoop fuel s' ss' none [] (s :: acc)
    | [] => (s :: acc).reverse
  | fuel + 1, s, ss, some o, os, acc =>
    -- (new accumulator, new self lower bound, take next self?, take next other?)
    let r : List Blk × Nat × Bool × Bool :=
      if s.lo < o.lo then
        if s.hi < o.lo then (s :: acc, s.lo, true, false)
        else if s.hi = o.lo then (⟨s.lo, o.lo - 1⟩ :: acc, s.lo, true, false)
        else
          let acc' := ⟨s.lo, o.lo - 1⟩ :: acc
          if s.hi < o.hi then (acc', s.lo, true, false)
          else if s.hi = o.hi then (acc', s.lo, true, true)
          else (acc', o.hi + 1, false, true)
      else if s.lo = o.lo then
        if s.hi < o.hi then (acc, s.lo, true, false)
        else if s.hi = o.hi then (acc, s.lo, true, true)
        else (acc, o.hi + 1, false, true)
      else
        if s.lo < o.hi then
          if s.hi < o.hi then (acc, s.lo, true, false)
          else if s.hi = o.hi then (acc, s.lo, true, true)
          else (acc, o.hi + 1, false, true)
        else if s.lo = o.hi then
          if s.lo = s.hi then (acc, s.lo, true, true) else (acc, o.hi + 1, false, true)
        else (acc, s.lo, false, true)
    let acc' := r.1
    let s1 : Blk := ⟨r.2.1, s.hi⟩
    let (o', os') : Option Blk × List Blk :=
      if r.2.2.2 then (match os with | x :: xs => (some x, xs) | [] => (none, [])) else (some o, os)
    if r.2.2.1 then
      match ss with
      | s' :: ss' => diffLoop fuel s' ss' o' os' acc'
      | [] => acc'.reverse
    else diffLoop fuel s1 ss o' os' acc'

/-- `Chain::difference` -/
def difference (s other : List Blk) : List Blk :=
  match s with
  | [] => []
  | b :: bs =>
    match other with
    | [] => diffLoop (2 * (s.length + other.length) + 2) b bs none [] []
    | o :: os => diffLoop (2 * (s.length + other.length) + 2) b bs (some o) os []

/-- `impl PartialEq for Chain` -/
def chainEq : List Blk → List Blk → Bool
  | [], [] => true
  | a :: as, b :: bs => a.lo == b.lo && a.hi == b.hi && chainEq as bs
  | _, _ => false

/-- union as the resource types implement it: collect both chains -/
def union (M : Nat) (a b : List Blk) : List Blk := fromIter M (a ++ b)

/-- intersection as the resource types implement it: `trim`, falling back to `self` -/
def inter (M : Nat) (a b : List Blk) : List Blk :=
  match trim M a b with
  | .ok () => a
  | .error r => r

/-- what a certificate says about one resource family (`ResourcesChoice`) -/
inductive Claim
  | missing
  | inherit
  | blocks (c : List Blk)
deriving DecidableEq, Repr

/-- `AsBlocks::verify_issued` / `IpBlocks::verify_issued` on the issuer's chain: `none` = the
overclaim error of the refuse policy -/
def verifyIssued (M : Nat) (issuer : List Blk) (claim : Claim) (trimMode : Bool) : Option (List Blk) :=
  match claim with
  | .missing => some []
  | .inherit => some issuer
  | .blocks c =>
    if trimMode then
      some (match trim M c issuer with | .ok () => c | .error r => r)
    else if isEncompassed c issuer then some c else none

/-- `IpBlocks::contains_block` / `contains_roa` -/
def containsBlock (c : List Blk) (b : Blk) : Bool := c.any (fun r => r.lo ≤ b.lo && b.hi ≤ r.hi)

/-- `IpBlocks::intersects_block` -/
def intersectsBlock (c : List Blk) (b : Blk) : Bool := c.any (fun r => intersects r b)

/-- `AsBlocks::asn_count`; `none` models the arithmetic overflow panic of the unrepaired code;
`asnCountSaturates` is read from the source -/
def asnCount (c : List Blk) : Option Nat :=
  if asnCountSaturates then
    some (c.foldl (fun acc b => min 4294967295 (acc + min 4294967295 (b.hi - b.lo + 1))) 0)
  else
    c.foldl (fun acc b => match acc with
      | none => none
      | some a => if b.hi - b.lo + 1 > 4294967295 ∨ a + (b.hi - b.lo + 1) > 4294967295 then none
                  else some (a + (b.hi - b.lo + 1))) (some 0)

/-! ### ranges and prefixes (W = address width in bits) -/

/-- number of leading zero bits of `x` seen as a `W`-bit word -/
def leadingZeros (W x : Nat) : Nat := if x = 0 then W else W - (Nat.log2 x + 1)

def trailingZerosAux : Nat → Nat → Nat
  | 0, _ => 0
  | fuel + 1, x => if x % 2 = 1 then 0 else 1 + trailingZerosAux fuel (x / 2)

/-- `trailing_zeros` of a `W`-bit word (`W` for zero) -/
def trailingZeros (W x : Nat) : Nat := if x = 0 then W else trailingZerosAux W x

def trailingOnesAux : Nat → Nat → Nat
  | 0, _ => 0
  | fuel + 1, x => if x % 2 = 0 then 0 else 1 + trailingOnesAux fuel (x / 2)

def trailingOnes (W x : Nat) : Nat := trailingOnesAux W x

/-- `AddressRange::into_prefix`: `some len` when the range is exactly a prefix of that length -/
def intoPrefix (W lo hi : Nat) : Option Nat :=
  let len := leadingZeros W (Nat.xor lo hi)
  let size := 2 ^ (W - len)
  -- Prefix::new(min, len).range() == (min, max): min with host bits cleared, and filled
  if lo / size * size = lo ∧ lo / size * size + (size - 1) = hi then some len else none

/-- `AddressRange::to_v4_prefixes` / `to_v6_prefixes`: list of `(address, length)` -/
def toPrefixes (W : Nat) : Nat → Nat → Nat → List (Nat × Nat)
  | 0, _, _ => []
  | fuel + 1, start, stop =>
    if start > stop then []
    else
      let hostBits := trailingZeros W start
      let maxAllowed0 := W - leadingZeros W (Nat.xor start stop)
      let maxAllowed := if trailingOnes W stop < maxAllowed0 then maxAllowed0 - 1 else maxAllowed0
      let same := min hostBits maxAllowed
      let pmax := start / 2 ^ same * 2 ^ same + (2 ^ same - 1)
      (start, W - same) :: (if pmax = stop then [] else toPrefixes W fuel (start + 2 ^ same) stop)

end Rpki.Chain
