/-
Model of `rpki::slurm` (src/slurm.rs): the drop decision of the validation
output filters, the payload of the locally added assertions, and the serde
mapping between a SLURM file and its JSON tree.

JSON object keys are an enumeration (`Key`), leaves that the Rust code handles
through other modules are leaf kinds of their own: `pfx` (an IP prefix string,
parsed by `Prefix::from_str`), `bytes` (a Base64 string: SKI / router key).
-/
import Rpki.Gen.Consts
import Rpki.Model.Prefix
namespace Rpki.Slurm
open Rpki.Consts Rpki.Prefix

abbrev Bytes := List Nat

/-! ## payload and filters -/

structure RouterKey where
  ski : Bytes
  asn : Nat
  info : Bytes
deriving DecidableEq, Repr

structure Aspa where
  customer : Nat
  providers : List Nat
deriving DecidableEq, Repr

inductive Payload
  | origin (o : Origin)
  | routerKey (k : RouterKey)
  | aspa (a : Aspa)
deriving DecidableEq, Repr

structure PrefixFilter where
  pfx : Option Pfx
  asn : Option Nat
  comment : Option Bytes
deriving DecidableEq, Repr

structure BgpsecFilter where
  ski : Option Bytes
  asn : Option Nat
  comment : Option Bytes
deriving DecidableEq, Repr

structure AspaFilter where
  customer : Option Nat
  comment : Option Bytes
deriving DecidableEq, Repr

structure Filters where
  pfs : List PrefixFilter
  bgpsec : List BgpsecFilter
  aspa : Option (List AspaFilter)
deriving DecidableEq, Repr

/-- the `match (a, b)` table shared by `drop_origin` and `drop_router_key` -/
def andOr : Option Bool → Option Bool → Bool
  | some a, some b => a && b
  | some a, none => a
  | none, some b => b
  | none, none => false

/-- `PrefixFilter::drop_origin` -/
def PrefixFilter.dropOrigin (f : PrefixFilter) (o : Origin) : Bool :=
  andOr (f.pfx.map fun p => covers p o.mlp.pfx) (f.asn.map fun a => a == o.asn)

/-- `BgpsecFilter::drop_router_key` -/
def BgpsecFilter.dropKey (f : BgpsecFilter) (k : RouterKey) : Bool :=
  andOr (f.ski.map fun s => s == k.ski) (f.asn.map fun a => a == k.asn)

/-- `AspaFilter::drop_aspa` -/
def AspaFilter.dropAspa (f : AspaFilter) (a : Aspa) : Bool :=
  (f.customer.map fun c => c == a.customer).getD false

def PrefixFilter.dropPayload (f : PrefixFilter) : Payload → Bool
  | .origin o => f.dropOrigin o | _ => false
def BgpsecFilter.dropPayload (f : BgpsecFilter) : Payload → Bool
  | .routerKey k => f.dropKey k | _ => false
def AspaFilter.dropPayload (f : AspaFilter) : Payload → Bool
  | .aspa a => f.dropAspa a | _ => false

/-- `ValidationOutputFilters::drop_payload` — `slurmDropAllKinds` is read from the source:
whether the function consults the BGPsec and ASPA filter lists as well. -/
def Filters.dropPayload (f : Filters) (p : Payload) : Bool :=
  if slurmDropAllKinds then
    f.pfs.any (·.dropPayload p) || f.bgpsec.any (·.dropPayload p)
      || (f.aspa.getD []).any (·.dropPayload p)
  else
    f.pfs.any (·.dropPayload p)

/-! ## assertions -/

structure PrefixAssertion where
  mlp : Mlp
  asn : Nat
  comment : Option Bytes
deriving DecidableEq, Repr

structure BgpsecAssertion where
  asn : Nat
  ski : Bytes
  key : Bytes
  comment : Option Bytes
deriving DecidableEq, Repr

structure AspaAssertion where
  customer : Nat
  providers : List Nat
  comment : Option Bytes
deriving DecidableEq, Repr

structure Assertions where
  pas : List PrefixAssertion
  bgpsec : List BgpsecAssertion
  aspa : Option (List AspaAssertion)
deriving DecidableEq, Repr

/-- `LocallyAddedAssertions::iter_payload` -/
def Assertions.payloads (a : Assertions) : List Payload :=
  a.pas.map (fun x => Payload.origin ⟨x.mlp, x.asn⟩)
    ++ a.bgpsec.map (fun x => Payload.routerKey ⟨x.ski, x.asn, x.key⟩)
    ++ (a.aspa.getD []).map (fun x => Payload.aspa ⟨x.customer, x.providers⟩)

structure SlurmFile where
  version : Nat
  filters : Filters
  assertions : Assertions
deriving DecidableEq, Repr

/-- `SlurmFile::new` -/
def SlurmFile.new (f : Filters) (a : Assertions) : SlurmFile :=
  if a.aspa.isSome || f.aspa.isSome then ⟨2, f, a⟩ else ⟨1, f, a⟩

/-! ## JSON tree -/

inductive Key
  | slurmVersion | validationOutputFilters | locallyAddedAssertions
  | prefixFilters | bgpsecFilters | aspaFilters
  | prefixAssertions | bgpsecAssertions | aspaAssertions
  | prefixK | asn | comment | ski | customerAsid | maxPrefixLength
  | routerPublicKey | customerAsn | providerAsns
  | other (n : Nat)
deriving DecidableEq, Repr

inductive Json
  | null
  | num (n : Nat)
  | str (s : Bytes)
  | pfx (p : Pfx)
  | bytes (b : Bytes)
  | bool (b : Bool)
  | arr (l : List Json)
  | obj (l : List (Key × Json))
deriving Repr

abbrev Obj := List (Key × Json)

def lookup (k : Key) : Obj → Option Json
  | [] => none
  | (k', v) :: rest => if k' = k then some v else lookup k rest

def countKey (k : Key) (l : Obj) : Nat := (l.filter (fun e => e.1 = k)).length

/-- keys are acceptable: every known key at most once; unknown keys only when not denied -/
def keysOk (allowed : List Key) (deny : Bool) (l : Obj) : Bool :=
  allowed.all (fun k => countKey k l ≤ 1) &&
  (!deny || l.all (fun e => allowed.contains e.1))

/-! ### serialisation (the derive / hand-written `Serialize` impls) -/

def optField (k : Key) (v : Option Json) : Obj := match v with | some j => [(k, j)] | none => []

def PrefixFilter.toJson (f : PrefixFilter) : Json :=
  .obj (optField .prefixK (f.pfx.map .pfx) ++ optField .asn (f.asn.map .num)
    ++ optField .comment (f.comment.map .str))

def BgpsecFilter.toJson (f : BgpsecFilter) : Json :=
  .obj (optField .ski (f.ski.map .bytes) ++ optField .asn (f.asn.map .num)
    ++ optField .comment (f.comment.map .str))

def AspaFilter.toJson (f : AspaFilter) : Json :=
  .obj (optField .customerAsid (f.customer.map .num) ++ optField .comment (f.comment.map .str))

def optArr {α} (f : α → Json) : Option (List α) → Json
  | some l => .arr (l.map f) | none => .null

def Filters.toJson (f : Filters) : Json :=
  .obj [(.prefixFilters, .arr (f.pfs.map (·.toJson))), (.bgpsecFilters, .arr (f.bgpsec.map (·.toJson))),
        (.aspaFilters, optArr (·.toJson) f.aspa)]

def PrefixAssertion.toJson (a : PrefixAssertion) : Json :=
  .obj ([(.prefixK, .pfx a.mlp.pfx), (.asn, .num a.asn)] ++ optField .maxPrefixLength (a.mlp.ml.map .num)
    ++ optField .comment (a.comment.map .str))

def BgpsecAssertion.toJson (a : BgpsecAssertion) : Json :=
  .obj ([(.asn, .num a.asn), (.ski, .bytes a.ski), (.routerPublicKey, .bytes a.key)]
    ++ optField .comment (a.comment.map .str))

def AspaAssertion.toJson (a : AspaAssertion) : Json :=
  .obj ([(.customerAsn, .num a.customer), (.providerAsns, .arr (a.providers.map .num))]
    ++ optField .comment (a.comment.map .str))

def Assertions.toJson (a : Assertions) : Json :=
  .obj [(.prefixAssertions, .arr (a.pas.map (·.toJson))), (.bgpsecAssertions, .arr (a.bgpsec.map (·.toJson))),
        (.aspaAssertions, optArr (·.toJson) a.aspa)]

def SlurmFile.toJson (f : SlurmFile) : Json :=
  .obj [(.slurmVersion, .num f.version), (.validationOutputFilters, f.filters.toJson),
        (.locallyAddedAssertions, f.assertions.toJson)]

/-! ### deserialisation -/

def U32 : Nat := 4294967296

/-- `Option<u32>` via `serde_opt_asn` + `default`: missing and `null` give `None` -/
def optU32 : Option Json → Option (Option Nat)
  | none => some none
  | some .null => some none
  | some (.num n) => if n < U32 then some (some n) else none
  | _ => none

/-- a required `u32` -/
def reqU32 : Option Json → Option Nat
  | some (.num n) => if n < U32 then some n else none
  | _ => none

/-- `Option<String>` (derive): missing and `null` give `None` -/
def optStr : Option Json → Option (Option Bytes)
  | none => some none
  | some .null => some none
  | some (.str s) => some (some s)
  | _ => none

/-- `Option<Prefix>` (derive) -/
def optPfx : Option Json → Option (Option Pfx)
  | none => some none
  | some .null => some none
  | some (.pfx p) => some (some p)
  | _ => none

/-- a key identifier: Base64 of exactly 20 octets -/
def reqSki : Option Json → Option Bytes
  | some (.bytes b) => if b.length = 20 then some b else none
  | _ => none

/-- `serde_opt_key_identifier` + `default`: missing gives `None`, `null` is an error -/
def optSki : Option Json → Option (Option Bytes)
  | none => some none
  | some j => (reqSki (some j)).map some

def PrefixFilter.fromJson : Json → Option PrefixFilter
  | .obj l =>
    if !keysOk [.prefixK, .asn, .comment] true l then none else
    match optPfx (lookup .prefixK l), optU32 (lookup .asn l), optStr (lookup .comment l) with
    | some p, some a, some c => some ⟨p, a, c⟩
    | _, _, _ => none
  -- the sequence form serde derives for a struct: its fields in declaration order, none left out
  | .arr [p, a, c] =>
    (match optPfx (some p), optU32 (some a), optStr (some c) with
     | some p, some a, some c => some ⟨p, a, c⟩
     | _, _, _ => none)
  | _ => none

def BgpsecFilter.fromJson : Json → Option BgpsecFilter
  | .obj l =>
    -- no `deny_unknown_fields` on this struct
    if !keysOk [.ski, .asn, .comment] false l then none else
    match optSki (lookup .ski l), optU32 (lookup .asn l), optStr (lookup .comment l) with
    | some s, some a, some c => some ⟨s, a, c⟩
    | _, _, _ => none
  -- the sequence form serde derives for a struct: its fields in declaration order, none left out
  | .arr [k, a, c] =>
    (match optSki (some k), optU32 (some a), optStr (some c) with
     | some s, some a, some c => some ⟨s, a, c⟩
     | _, _, _ => none)
  | _ => none

def AspaFilter.fromJson : Json → Option AspaFilter
  | .obj l =>
    if !keysOk [.customerAsid, .comment] true l then none else
    match optU32 (lookup .customerAsid l), optStr (lookup .comment l) with
    | some a, some c => some ⟨a, c⟩
    | _, _ => none
  -- the sequence form serde derives for a struct: its fields in declaration order, none left out
  | .arr [a, c] =>
    (match optU32 (some a), optStr (some c) with
     | some a, some c => some ⟨a, c⟩
     | _, _ => none)
  | _ => none

def reqArr {α} (f : Json → Option α) : Option Json → Option (List α)
  | some (.arr l) => l.mapM f
  | _ => none

def optArrFrom {α} (f : Json → Option α) : Option Json → Option (Option (List α))
  | none => some none
  | some .null => some none
  | some (.arr l) => (l.mapM f).map some
  | _ => none

def Filters.fromJson : Json → Option Filters
  | .obj l =>
    if !keysOk [.prefixFilters, .bgpsecFilters, .aspaFilters] true l then none else
    match reqArr PrefixFilter.fromJson (lookup .prefixFilters l),
          reqArr BgpsecFilter.fromJson (lookup .bgpsecFilters l),
          optArrFrom AspaFilter.fromJson (lookup .aspaFilters l) with
    | some p, some b, some a => some ⟨p, b, a⟩
    | _, _, _ => none
  -- the sequence form serde derives for a struct: its fields in declaration order, none left out
  | .arr [p, b, a] =>
    (match reqArr PrefixFilter.fromJson (some p), reqArr BgpsecFilter.fromJson (some b),
           optArrFrom AspaFilter.fromJson (some a) with
     | some p, some b, some a => some ⟨p, b, a⟩
     | _, _, _ => none)
  | _ => none

def PrefixAssertion.fromJson : Json → Option PrefixAssertion
  | .obj l =>
    if !keysOk [.prefixK, .asn, .maxPrefixLength, .comment] true l then none else
    match lookup .prefixK l, reqU32 (lookup .asn l) with
    | some (.pfx p), some a =>
      -- maxPrefixLength: u8 when present (`null` is an error); comment: String when present
      let ml : Option (Option Nat) := match lookup .maxPrefixLength l with
        | none => some none
        | some (.num n) => if n < 256 then some (some n) else none
        | _ => none
      let c : Option (Option Bytes) := match lookup .comment l with
        | none => some none
        | some (.str s) => some (some s)
        | _ => none
      match ml, c with
      | some ml, some c =>
        match mlpNew p ml with
        | .ok m => some ⟨m, a, c⟩
        | .error _ => none
      | _, _ => none
    | _, _ => none
  | _ => none

def BgpsecAssertion.fromJson : Json → Option BgpsecAssertion
  | .obj l =>
    if !keysOk [.asn, .ski, .routerPublicKey, .comment] true l then none else
    match reqU32 (lookup .asn l), reqSki (lookup .ski l), lookup .routerPublicKey l, optStr (lookup .comment l) with
    | some a, some s, some (.bytes k), some c => some ⟨a, s, k, c⟩
    | _, _, _, _ => none
  -- the sequence form serde derives for a struct: its fields in declaration order, none left out
  | .arr [a, k, key, c] =>
    (match reqU32 (some a), reqSki (some k), key, optStr (some c) with
     | some a, some s, .bytes k, some c => some ⟨a, s, k, c⟩
     | _, _, _, _ => none)
  | _ => none

def AspaAssertion.fromJson : Json → Option AspaAssertion
  | .obj l =>
    if !keysOk [.customerAsn, .providerAsns, .comment] true l then none else
    let c : Option (Option Bytes) := match lookup .comment l with
      | none => some none
      | some (.str s) => some (some s)
      | _ => none
    match reqU32 (lookup .customerAsn l), reqArr (fun j => reqU32 (some j)) (lookup .providerAsns l), c with
    | some cu, some ps, some c => if ps.length ≤ aspaMaxCount then some ⟨cu, ps, c⟩ else none
    | _, _, _ => none
  | _ => none

def Assertions.fromJson : Json → Option Assertions
  | .obj l =>
    if !keysOk [.prefixAssertions, .bgpsecAssertions, .aspaAssertions] true l then none else
    match reqArr PrefixAssertion.fromJson (lookup .prefixAssertions l),
          reqArr BgpsecAssertion.fromJson (lookup .bgpsecAssertions l),
          optArrFrom AspaAssertion.fromJson (lookup .aspaAssertions l) with
    | some p, some b, some a => some ⟨p, b, a⟩
    | _, _, _ => none
  -- the sequence form serde derives for a struct: its fields in declaration order, none left out
  | .arr [p, b, a] =>
    (match reqArr PrefixAssertion.fromJson (some p), reqArr BgpsecAssertion.fromJson (some b),
           optArrFrom AspaAssertion.fromJson (some a) with
     | some p, some b, some a => some ⟨p, b, a⟩
     | _, _, _ => none)
  | _ => none

def SlurmFile.fromJson : Json → Option SlurmFile
  | .obj l =>
    if !keysOk [.slurmVersion, .validationOutputFilters, .locallyAddedAssertions] true l then none else
    match lookup .slurmVersion l, (lookup .validationOutputFilters l).bind Filters.fromJson,
          (lookup .locallyAddedAssertions l).bind Assertions.fromJson with
    | some (.num v), some f, some a => if v = 1 ∨ v = 2 then some ⟨v, f, a⟩ else none
    | _, _, _ => none
  -- the sequence form serde derives for a struct: its fields in declaration order, none left out
  | .arr [v, f, a] =>
    (match v, Filters.fromJson f, Assertions.fromJson a with
     | .num v, some f, some a => if v = 1 ∨ v = 2 then some ⟨v, f, a⟩ else none
     | _, _, _ => none)
  | _ => none

end Rpki.Slurm
