/-
  ROA and ASPA eContent in DER (`src/repository/roa.rs`, `src/repository/aspa.rs`):
  `RouteOriginAttestation::take_from`, `RoaIpAddresses::take_from` (capture + `skip_opt_in`),
  `RoaIpAddressIter`, the encoders (`RouteOriginAttestation::encode_ref`, `RoaIpAddress::encode`,
  `RoaIpAddressesBuilder::to_addresses`), `AsProviderAttestation::take_from`,
  `ProviderAsSet::take_from`, `ProviderAsIter` and `AspaBuilder`.
  Addresses are 128-bit naturals; IPv4 addresses live in the upper 32 bits (as in `Addr`).
-/
import Rpki.Model.Der
import Rpki.Model.AsDer
import Rpki.Model.IpDer
namespace Rpki.Roa
open Rpki.Der

/-- bcder `Unsigned::u8_from_primitive` on the content octets of an INTEGER -/
def decodeU8 (c : Bytes) : Option Nat :=
  match c with
  | [a] => if a < 128 then some a else none
  | [a, b] => if a = 0 ∧ b ≥ 128 then some b else none
  | _ => none

/-- bcder `PrimitiveContent for u8` -/
def encodeU8 (v : Nat) : Bytes := if v > 127 then [0, v] else [v]

structure Addr where
  addr : Nat
  len : Nat
  maxLen : Option Nat
deriving Repr, DecidableEq

/-- the optional `maxLength` after the address, and the end of the enclosing SEQUENCE -/
def takeMaxLen (r : Bytes) : Option (Option Nat) :=
  match takeOptPrim tagInt r with
  | .absent => if r = [] then some none else none
  | .bad => none
  | .ok mc r2 =>
    match decodeU8 mc with
    | none => none
    | some m => if r2 = [] then some (some m) else none

/-- `RoaIpAddress::take_opt_from_unchecked` -/
def takeOptAddr (b : Bytes) : Take Addr :=
  match takeOptCons tagSeq b with
  | .absent => .absent
  | .bad => .bad
  | .ok c rest =>
    match takePrim tagBitString c with
    | none => .bad
    | some (pc, r1) =>
      match IpDer.prefixOfContent pc with
      | none => .bad
      | some (a, len) =>
        match takeMaxLen r1 with
        | none => .bad
        | some ml => .ok ⟨a, len, ml⟩ rest

/-- the extra acceptance check of `RoaIpAddress::skip_opt_in` for a family of width `W` -/
def addrOk (W : Nat) (a : Addr) : Bool :=
  a.len ≤ W && (match a.maxLen with | none => true | some m => m ≤ W && a.len ≤ m)

/-- `RoaIpAddresses::take_from`: the content of the SEQUENCE OF, captured after every item passed -/
def takeAddrs (W : Nat) (b : Bytes) : Option (Bytes × Bytes) :=
  match takeCons tagSeq b with
  | none => none
  | some (c, rest) =>
    match capturePass takeOptAddr (addrOk W) c.length c 0 with
    | none => none
    | some _ => some (c, rest)

/-- `AddressFamily::take_from`: 4 or 6 -/
def takeFamily (b : Bytes) : Option (Nat × Bytes) :=
  match takePrim tagOctetString b with
  | none => none
  | some (c, r) => if c = [0, 1] then some (32, r) else if c = [0, 2] then some (128, r) else none

/-- the `while let Some(()) = cons.take_opt_sequence(…)` loop over ROAIPAddressFamily values -/
def famLoop : Nat → Bytes → Option Bytes → Option Bytes → Option (Option Bytes × Option Bytes)
  | 0, b, v4, v6 => if b = [] then some (v4, v6) else none
  | fuel + 1, b, v4, v6 =>
    match takeOptCons tagSeq b with
    | .absent => if b = [] then some (v4, v6) else none
    | .bad => none
    | .ok c rest =>
      match takeFamily c with
      | none => none
      | some (W, r1) =>
        if W = 32 then
          (if v4.isSome then none else
            match takeAddrs 32 r1 with
            | none => none
            | some (cap, r2) => if r2 = [] then famLoop fuel rest (some cap) v6 else none)
        else
          (if v6.isSome then none else
            match takeAddrs 128 r1 with
            | none => none
            | some (cap, r2) => if r2 = [] then famLoop fuel rest v4 (some cap) else none)

structure Content where
  asId : Nat
  v4 : Bytes
  v6 : Bytes
deriving Repr, DecidableEq

/-- `version [0] EXPLICIT INTEGER DEFAULT 0`, optional, value `expected` -/
def takeOptVersion (expected : Nat) (c : Bytes) : Option Bytes :=
  match takeOptCons 0xA0 c with
  | .absent => some c
  | .bad => none
  | .ok vc r =>
    match takePrim tagInt vc with
    | none => none
    | some (ic, r') => if decodeU8 ic = some expected ∧ r' = [] then some r else none

/-- `RouteOriginAttestation::take_from` on the eContent octets (data after the value is ignored by
the top-level decode) -/
def decodeContent (b : Bytes) : Option Content :=
  match takeCons tagSeq b with
  | none => none
  | some (c, _) =>
    match takeOptVersion 0 c with
    | none => none
    | some c1 =>
      match takePrim tagInt c1 with
      | none => none
      | some (ac, c2) =>
        match AsDer.decodeU32 ac with
        | none => none
        | some asId =>
          match takeCons tagSeq c2 with
          | none => none
          | some (fc, c3) =>
            if c3 ≠ [] then none else
            match famLoop fc.length fc none none with
            | none => none
            | some (v4, v6) => some ⟨asId, v4.getD [], v6.getD []⟩

/-- `RoaIpAddressIter`: `none` is the `unwrap()` panic -/
def iter (cap : Bytes) : Option (List Addr) := iteratePass takeOptAddr cap.length cap

/-- `RoaIpAddress::encode` -/
def encodeAddr (a : Addr) : Bytes :=
  tlv tagSeq (tlv tagBitString (IpDer.encodePrefixContent a.addr a.len) ++
    (match a.maxLen with | none => [] | some m => tlv tagInt (encodeU8 m)))

/-- `RoaIpAddressesBuilder::to_addresses`: the captured content -/
def encodeAddrs (as : List Addr) : Bytes := (as.map encodeAddr).flatten

/-- `RoaIpAddresses::encode_ref_family` -/
def encodeFamily (fam : Bytes) (cap : Bytes) : Bytes :=
  if cap = [] then [] else tlv tagSeq (tlv tagOctetString fam ++ tlv tagSeq cap)

/-- `RouteOriginAttestation::encode_ref` -/
def encodeContent (c : Content) : Bytes :=
  tlv tagSeq (tlv tagInt (AsDer.encodeU32 c.asId) ++
    tlv tagSeq (encodeFamily [0, 1] c.v4 ++ encodeFamily [0, 2] c.v6))

/-! ### ASPA -/

/-- `Asn::take_opt_from` = `take_opt_u32` -/
def takeOptAsn (b : Bytes) : Take Nat :=
  match takeOptPrim tagInt b with
  | .absent => .absent
  | .bad => .bad
  | .ok c rest => match AsDer.decodeU32 c with | none => .bad | some v => .ok v rest

/-- the counting pass of `ProviderAsSet::take_from`: strictly increasing, customer excluded, at most
`maxLen` entries; returns the count -/
def provLoop (maxLen customer : Nat) : Nat → Bytes → Option Nat → Nat → Option Nat
  | 0, b, last, n => if b = [] ∧ last.isSome then some n else none
  | fuel + 1, b, last, n =>
    match takeOptAsn b with
    | .absent => if b = [] ∧ last.isSome then some n else none
    | .bad => none
    | .ok a rest =>
      if n ≥ maxLen then none
      else if a = customer then none
      else if (match last with | some l => decide (l < a) | none => true) then
        provLoop maxLen customer fuel rest (some a) (n + 1)
      else none

structure Aspa where
  customer : Nat
  providers : Bytes      -- captured content
  count : Nat
deriving Repr, DecidableEq

/-- `AsProviderAttestation::take_from` (the version is mandatory and must be 1) -/
def decodeAspa (maxLen : Nat) (b : Bytes) : Option Aspa :=
  match takeCons tagSeq b with
  | none => none
  | some (c, _) =>
    match takeCons 0xA0 c with
    | none => none
    | some (vc, c1) =>
      match takePrim tagInt vc with
      | none => none
      | some (ic, r') =>
        if decodeU8 ic ≠ some 1 ∨ r' ≠ [] then none else
        match takePrim tagInt c1 with
        | none => none
        | some (ac, c2) =>
          match AsDer.decodeU32 ac with
          | none => none
          | some customer =>
            match takeCons tagSeq c2 with
            | none => none
            | some (pc, c3) =>
              if c3 ≠ [] then none else
              match provLoop maxLen customer pc.length pc none 0 with
              | none => none
              | some n => some ⟨customer, pc, n⟩

/-- `ProviderAsIter` -/
def iterProviders (cap : Bytes) : Option (List Nat) := iteratePass takeOptAsn cap.length cap

def encodeProviders (ps : List Nat) : Bytes := (ps.map fun p => tlv tagInt (AsDer.encodeU32 p)).flatten

/-- `AsProviderAttestation::encode_ref` -/
def encodeAspa (customer : Nat) (cap : Bytes) : Bytes :=
  tlv tagSeq (tlv 0xA0 (tlv tagInt (encodeU8 1)) ++ tlv tagInt (AsDer.encodeU32 customer) ++ tlv tagSeq cap)

end Rpki.Roa
