/-
  CA-protocol CMS on the wire in strict (DER) mode (`src/ca/sigmsg.rs` `SignedMessage::take_from`,
  `SignedMessageCrl`, `SignedMessageTbsCrl::take_from`; `src/ca/idcert.rs` `IdCert::from_constructed`,
  `TbsIdCert::from_constructed`).
-/
import Rpki.Model.CmsDer
import Rpki.Model.CrlDer
import Rpki.Model.SigMsg
namespace Rpki.SigMsgDer
open Rpki.Der Rpki.CertDer Rpki.CmsDer Rpki.Consts

/-! ## identity certificates -/

structure IdCertD where
  serial : Bytes
  issuer : Bytes
  subject : Bytes
  validity : X509.Validity
  notBefore : X509.Civil
  notAfter : X509.Civil
  keyAlg : KeyAlg
  keyUnused : Nat
  keyBits : Bytes
  basicCa : Option Bool
  ski : Bytes
  aki : Option Bytes
  tbs : Bytes
  signature : Bytes
deriving Repr

structure IdExts where
  basicCa : Option Bool := none
  ski : Option Bytes := none
  aki : Option Bytes := none
deriving Repr

/-- bcder `Unsigned::u64_from_primitive` accepts the content octets -/
def u64Ok (c : Bytes) : Bool :=
  match c with
  | [] => false
  | b0 :: rest =>
    if b0 ≥ 128 then false
    else if b0 = 0 && (match rest with | b1 :: _ => decide (b1 < 128) | [] => false) then false
    else (if b0 = 0 then rest.length else c.length) ≤ 8

/-- the value of one extension of an identity certificate (decoded in DER mode from the octets of the
extension value); unknown extensions ignored -/
def idExtValue (e : IdExts) (id v : Bytes) : Option IdExts :=
  if id = oidBasicConstraints then
    if e.basicCa.isSome then none
    else match takeCons tagSeq v with
      | none => none
      | some (bc, _) =>
        let ca : Option (Bool × Bytes) := match takeOptBool bc with
          | .bad => none | .absent => some (false, bc) | .ok x r => some (x, r)
        match ca with
        | none => none
        | some (x, r) =>
          -- `take_opt_u64` (pathLenConstraint is tolerated), then the SEQUENCE must end
          match takeOptPrim tagInt r with
          | .bad => none
          | .absent => if r = [] then some { e with basicCa := some x } else none
          | .ok ic r' => if u64Ok ic ∧ r' = [] then some { e with basicCa := some x } else none
  else if id = oidSubjectKeyId then
    if e.ski.isSome then none
    else match takePrim tagOctetString v with
      | some (k, _) => if keyIdOk k then some { e with ski := some k } else none
      | none => none
  else if id = oidAuthorityKeyId then
    -- no duplicate check; an absent keyIdentifier resets the value; the other fields are skipped
    match takeCons tagSeq v with
    | none => none
    | some (ac, _) =>
      match takeOptPrim 0x80 ac with
      | .bad => none
      | .absent => if skipAll ac.length ac then some { e with aki := none } else none
      | .ok k r => if keyIdOk k ∧ skipAll r.length r then some { e with aki := some k } else none
  else some e

/-- one extension of an identity certificate: criticality ignored -/
def idExtension (e : IdExts) (c : Bytes) : Option IdExts :=
  match takeOid c with
  | none => none
  | some (id, r0) =>
    let r1 : Option Bytes := match takeOptBool r0 with
      | .absent => some r0 | .bad => none | .ok _ r => some r
    match r1 with
    | none => none
    | some r1 =>
      match takePrim tagOctetString r1 with
      | none => none
      | some (v, r2) => if r2 ≠ [] then none else idExtValue e id v

/-- the optional `[3]` extensions at the end of the to-be-signed SEQUENCE -/
def idExtsOf (r6 : Bytes) : Option IdExts :=
  match takeOptCons 0xA3 r6 with
  | .bad => none
  | .absent => if r6 = [] then some {} else none
  | .ok xc r7 =>
    if r7 ≠ [] then none else
    match takeCons tagSeq xc with
    | none => none
    | some (xs, xr) => if xr ≠ [] then none else foldCons tagSeq idExtension xs.length xs {}

/-- `TbsIdCert::from_constructed` on the captured TBS octets -/
def decodeTbsId (raw : Bytes) (signature : Bytes) : Option IdCertD :=
  match takeCons tagSeq raw with
  | none => none
  | some (c, _) =>
    match takeCons 0xA0 c with
    | none => none
    | some (vc, r0) =>
      match takePrim tagInt vc with
      | none => none
      | some (vi, vr) =>
        if vi ≠ [2] ∨ vr ≠ [] then none else
        match takePrim tagInt r0 with
        | none => none
        | some (sc, r1) =>
          match X509.decodeSerialContent sc with
          | none => none
          | some serial =>
            match takeSigAlg r1 with
            | none => none
            | some (_, r2) =>
              match takeName r2 with
              | none => none
              | some (issuer, r3) =>
                match takeValidityCivil r3 with
                | none => none
                | some (notBefore, notAfter, r4) =>
                  match takeName r4 with
                  | none => none
                  | some (subject, r5) =>
                    match takePublicKey r5 with
                    | none => none
                    | some (keyAlg, keyUnused, keyBits, r6) =>
                      match idExtsOf r6 with
                      | none => none
                      | some e =>
                        match e.ski with
                        | none => none
                        | some ski =>
                          some { serial, issuer, subject, validity := ⟨civilToEpoch notBefore, civilToEpoch notAfter⟩,
                                 notBefore, notAfter, keyAlg, keyUnused, keyBits, basicCa := e.basicCa, ski,
                                 aki := e.aki, tbs := raw, signature }

/-- `IdCert::from_constructed` on the content of the certificate SEQUENCE -/
def idCertBody (c : Bytes) : Option IdCertD :=
  if c = [] then none else
  match skipOne c with
  | none => none
  | some r1 =>
    let raw := c.take (c.length - r1.length)
    match takeSigAlg r1 with
    | none => none
    | some (_, r2) =>
      match takeBitString r2 with
      | none => none
      | some (_, sig, r3) => if r3 ≠ [] then none else decodeTbsId raw sig

/-- `IdCert::decode` -/
def decodeIdCert (b : Bytes) : Option IdCertD :=
  match takeCons tagSeq b with
  | none => none
  | some (c, _) => idCertBody c

/-! ## the CRL inside a signed message -/

structure MsgCrlD where
  innerParam : Bool
  outerParam : Bool
  issuer : Bytes
  thisUpdate : X509.Civil
  nextUpdate : X509.Civil
  revoked : Bytes
  aki : Option Bytes
  number : Option Bytes
  tbs : Bytes
  signature : Bytes
deriving Repr

/-- one extension; for an unknown one the code calls `skip_all` on the *unbounded* source of the
extension value, which runs into the end of the octets and fails -/
def msgCrlExtension (e : CrlDer.CrlExts) (c : Bytes) : Option CrlDer.CrlExts :=
  match takeOid c with
  | none => none
  | some (id, _) =>
    if id = oidAuthorityKeyId ∨ id = oidCrlNumber then CrlDer.crlExtension e c else none

/-- `sigmsg::CrlEntry::take_opt_from` — the module's own entry reader: after serial number and date an
optional SEQUENCE of entry extensions is skipped -/
def takeOptMsgEntry (b : Bytes) : Take Crl.Entry :=
  match takeOptCons tagSeq b with
  | .absent => .absent
  | .bad => .bad
  | .ok c rest =>
    match takePrim tagInt c with
    | none => .bad
    | some (sc, c1) =>
      match X509.decodeSerialContent sc with
      | none => .bad
      | some serial =>
        match Manifest.takeTime c1 with
        | none => .bad
        | some (date, c2) =>
          match takeOptCons tagSeq c2 with
          | .absent => if c2 = [] then .ok ⟨serial, date⟩ rest else .bad
          | .bad => .bad
          | .ok xc c3 => if skipAll xc.length xc ∧ c3 = [] then .ok ⟨serial, date⟩ rest else .bad

/-- `sigmsg::RevokedCertificates::take_from` -/
def takeMsgRevoked (b : Bytes) : Option (Bytes × Bytes) :=
  match takeOptCons tagSeq b with
  | .absent => some ([], b)
  | .bad => none
  | .ok c rest => match capturePass takeOptMsgEntry (fun _ => true) c.length c 0 with
    | some _ => some (c, rest)
    | none => none

/-- `sigmsg::RevokedCertificates::contains` collected: the serial numbers on the list; `none` = an `unwrap()` fails -/
def msgRevokedSerials (cap : Bytes) : Option (List Bytes) :=
  (iteratePass takeOptMsgEntry cap.length cap).map (·.map (·.serial))

def decodeTbsMsgCrl (raw : Bytes) : Option MsgCrlD :=
  match takeCons tagSeq raw with
  | none => none
  | some (c, _) =>
    match takePrim tagInt c with
    | none => none
    | some (vi, r0) =>
      if vi ≠ [1] then none else
      match takeSigAlg r0 with
      | none => none
      | some (innerParam, r1) =>
        match takeName r1 with
        | none => none
        | some (issuer, r2) =>
          match Manifest.takeTime r2 with
          | none => none
          | some (thisUpdate, r3) =>
            match Manifest.takeTime r3 with
            | none => none
            | some (nextUpdate, r4) =>
              match takeMsgRevoked r4 with
              | none => none
              | some (revoked, r5) =>
                match takeCons 0xA0 r5 with
                | none => none
                | some (xc, r6) =>
                  if r6 ≠ [] then none else
                  match takeCons tagSeq xc with
                  | none => none
                  | some (xs, xr) =>
                    if xr ≠ [] then none else
                    match foldCons tagSeq msgCrlExtension xs.length xs {} with
                    | none => none
                    | some e =>
                      some { innerParam, outerParam := innerParam, issuer, thisUpdate, nextUpdate, revoked, aki := e.aki,
                             number := e.number, tbs := raw, signature := [] }

/-- `SignedMessageCrl::from_constructed` on the content of the CRL SEQUENCE -/
def msgCrlBody (c : Bytes) : Option MsgCrlD :=
  if c = [] then none else
  match skipOne c with
  | none => none
  | some r1 =>
    let raw := c.take (c.length - r1.length)
    match takeSigAlg r1 with
    | none => none
    | some (outerParam, r2) =>
      match takeBitString r2 with
      | none => none
      | some (_, sig, r3) =>
        if r3 ≠ [] then none else
        (decodeTbsMsgCrl raw).map fun d => { d with outerParam, signature := sig }

/-! ## the message -/

structure SigMsgD where
  content : Bytes
  cert : IdCertD
  crl : MsgCrlD
  sid : Bytes
  attrs : Bytes
  messageDigest : Bytes
  signature : Bytes
deriving Repr

/-- SignerInfo with the relaxed attribute reader (`take_from_signed_message`) -/
def msgSignerInfo (contentType : Bytes) (c : Bytes) : Option (Bytes × Bytes × Bytes × Bytes) :=
  match skipU8 3 c with
  | none => none
  | some r0 =>
    match takePrim 0x80 r0 with
    | none => none
    | some (sid, r1) =>
      if !keyIdOk sid then none else
      match takeDigestAlg r1 with
      | none => none
      | some r2 =>
        match takeCons 0xA0 r2 with
        | none => none
        | some (attrs, r3) =>
          match SigObj.parseAttrs false attrs with
          | none => none
          | some (ct, md, _) =>
            if ct ≠ contentType then none else
            match takeCmsSigAlg r3 with
            | none => none
            | some (_, r4) =>
              match takePrim tagOctetString r4 with
              | none => none
              | some (sig, r5) => if r5 ≠ [] then none else some (sid, attrs, md, sig)

/-- encapContentInfo: content type (which must be the protocol one), content, what follows -/
def msgEncap (r1 : Bytes) : Option (Bytes × Bytes × Bytes) :=
  match takeCons tagSeq r1 with
  | none => none
  | some (ec, r2) =>
    match takeOid ec with
    | none => none
    | some (contentType, er) =>
      match takeCons 0xA0 er with
      | none => none
      | some (oc, er2) =>
        if er2 ≠ [] then none else
        match takePrim tagOctetString oc with
        | none => none
        | some (content, or2) =>
          if or2 ≠ [] then none
          else if contentType ≠ oidProtocolContentType then none
          else some (contentType, content, r2)

/-- `take_id_cert`: `[0]` with exactly one constructed value, which must be a SEQUENCE -/
def msgCertPart (r2 : Bytes) : Option (IdCertD × Bytes) :=
  match takeCons 0xA0 r2 with
  | none => none
  | some (cc, r3) =>
    match cc with
    | [] => none
    | t :: _ =>
      if t % 32 = 31 then none
      else if !isCons t then none
      else match readTlv cc with
        | none => none
        | some (_, certc, cr) =>
          if tagNoCons t ≠ 0x10 then none
          else match idCertBody certc with
            | none => none
            | some cert => if cr ≠ [] then none else some (cert, r3)

/-- `take_crl`: `[1]` with exactly one CRL -/
def msgCrlPart (r3 : Bytes) : Option (MsgCrlD × Bytes) :=
  match takeCons 0xA1 r3 with
  | none => none
  | some (lc, r4) =>
    match takeCons tagSeq lc with
    | none => none
    | some (crlc, lr) =>
      if lr ≠ [] then none else
      match msgCrlBody crlc with
      | none => none
      | some crl => some (crl, r4)

/-- signerInfos: a SET with exactly one SignerInfo, nothing after it -/
def msgSignerPart (contentType r4 : Bytes) : Option (Bytes × Bytes × Bytes × Bytes) :=
  match takeCons tagSet r4 with
  | none => none
  | some (sis, r5) =>
    if r5 ≠ [] then none else
    match takeCons tagSeq sis with
    | none => none
    | some (si, sr) => if sr ≠ [] then none else msgSignerInfo contentType si

/-- version and digestAlgorithms in front of the encapContentInfo -/
def msgHead (sd : Bytes) : Option Bytes :=
  match skipU8 3 sd with
  | none => none
  | some r0 =>
    match takeCons tagSet r0 with
    | none => none
    | some (dc, r1) =>
      match takeDigestAlg dc with
      | none => none
      | some dr => if dr ≠ [] then none else some r1

def msgSignedData (sd : Bytes) : Option SigMsgD :=
  match msgHead sd with
  | none => none
  | some r1 =>
    match msgEncap r1 with
    | none => none
    | some (contentType, content, r2) =>
      match msgCertPart r2 with
      | none => none
      | some (cert, r3) =>
        match msgCrlPart r3 with
        | none => none
        | some (crl, r4) =>
          match msgSignerPart contentType r4 with
          | none => none
          | some (sid, attrs, md, sig) =>
            some { content, cert, crl, sid, attrs, messageDigest := md, signature := sig }

/-- `SignedMessage::decode(source, strict = true)` -/
def decodeSigMsg (b : Bytes) : Option SigMsgD :=
  match takeCons tagSeq b with
  | none => none
  | some (c, _) =>
    match takePrim tagOid c with
    | none => none
    | some (o, r) =>
      if o ≠ oidSignedData then none else
      match takeCons 0xA0 r with
      | none => none
      | some (c1, r1) =>
        if r1 ≠ [] then none else
        match takeCons tagSeq c1 with
        | none => none
        | some (sd, r2) => if r2 ≠ [] then none else msgSignedData sd

/-- the record `SigMsg.validateAt` works on; the four inputs are the verdicts of the signature primitive
and the octets the message signature was made over -/
def toMsg (m : SigMsgD) (sigKeyOk : Bool) (sigInput : Bytes) (eeSigOk crlSigOk : Bool) : SigMsg.Msg :=
  { attrs := m.attrs, contentType := oidProtocolContentType, content := m.content, sid := m.sid, sigKeyOk, sigInput,
    ee := { sigOk := eeSigOk, validity := m.cert.validity, ski := m.cert.ski, keyId := Sha.sha1N m.cert.keyBits,
            aki := m.cert.aki, basicCa := m.cert.basicCa, serial := m.cert.serial },
    crl := { algMatch := m.crl.innerParam == m.crl.outerParam, sigOk := crlSigOk,
             thisUpdate := civilToEpoch m.crl.thisUpdate, nextUpdate := civilToEpoch m.crl.nextUpdate,
             aki := m.crl.aki,
             revoked := (msgRevokedSerials m.crl.revoked).getD [] } }

end Rpki.SigMsgDer
