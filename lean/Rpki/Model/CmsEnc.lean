/-
  `SignedObject::encode_ref` (`src/repository/sigobj.rs`): the CMS ContentInfo / SignedData / SignerInfo
  written around an encoded certificate.  `Proofs/CmsEncLemmas.lean` shows that `CmsDer.decodeSigObj` reads
  it back.
-/
import Rpki.Model.CmsDer
import Rpki.Model.CertEnc
namespace Rpki.CmsEnc
open Rpki.Der Rpki.CertDer Rpki.CmsDer Rpki.Consts

/-- `DigestAlgorithm::encode`: SEQUENCE { sha256 } (no parameter) -/
def digestAlgEnc : Bytes := tlv tagSeq (tlv tagOid oidSha256)

/-- `RpkiSignatureAlgorithm::cms_encode`: SEQUENCE { rsaEncryption, NULL } -/
def cmsSigAlgEnc : Bytes := tlv tagSeq (tlv tagOid oidRsaEncryption ++ tlv tagNull [])

def signerInfoEnc (sid attrs signature : Bytes) : Bytes :=
  tlv tagSeq (tlv tagInt [3] ++ tlv 0x80 sid ++ digestAlgEnc ++ tlv 0xA0 attrs ++ cmsSigAlgEnc ++
    tlv tagOctetString signature)

/-- `SignedObject::encode_ref`, around the octets of the certificate -/
def encodeSigObj (contentType content certBytes sid attrs signature : Bytes) : Bytes :=
  tlv tagSeq (tlv tagOid oidSignedData ++ tlv 0xA0 (tlv tagSeq (
    tlv tagInt [3] ++
    tlv tagSet digestAlgEnc ++
    tlv tagSeq (tlv tagOid contentType ++ tlv 0xA0 (tlv tagOctetString content)) ++
    tlv 0xA0 certBytes ++
    tlv tagSet (signerInfoEnc sid attrs signature))))

/-- the octets of a certificate as decoded (canonical certificates: the unused-bits octet of the signature
is zero, which `SignedData::encode_ref` always writes) -/
def certRaw (d : Decoded) : Bytes :=
  tlv tagSeq (d.tbs ++ tlv tagSeq (tlv tagOid oidSha256WithRsa ++ (if d.outerParam then tlv tagNull [] else [])) ++
    tlv tagBitString (0 :: d.signature))

end Rpki.CmsEnc
