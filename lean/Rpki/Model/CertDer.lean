/-
  Resource certificates on the wire (`src/repository/cert.rs`, `src/repository/x509.rs`,
  `src/crypto/keys.rs`, `src/crypto/signature.rs`): `Cert::decode` = `SignedData::from_constructed`
  (TBS captured by `capture_one`, signatureAlgorithm, signatureValue) followed by
  `TbsCert::from_constructed` on the captured octets, with every extension reader, `Name::take_from`,
  `Name::inspect_rpki` / `inspect_router` in strict mode, `PublicKey::take_from`, `Sia::take_from`,
  `take_general_names_content`, `IpResources::take_families_from`.

  Everything is a total function from octets to `Option`; `none` is "the library returns an error".
  bcder is followed in `Mode::Der` as the functions above use it (see `Model/Der.lean`); its
  recursive `skip_opt` (used by `capture_one`, `skip_one`, `skip_all`) is the stack machine
  `skipLoop`, which — as the library does — accepts nested indefinite-length constructed values even in
  DER mode.
-/
import Rpki.Model.Der
import Rpki.Model.Skip
import Rpki.Model.X509
import Rpki.Model.Manifest
import Rpki.Model.AsDer
import Rpki.Model.IpDer
import Rpki.Model.Uri
import Rpki.Model.Cert
import Rpki.Model.Sha
import Rpki.Model.SigObj
import Rpki.Gen.Consts
namespace Rpki.CertDer
open Rpki.Der Rpki.Chain Rpki.Consts

/-! ## generic loops over the values of a constructed content -/

/-- `while let Some(x) = cons.take_opt_constructed_if(tag, f)?` as the last thing read in a constructed
value: ends at the end of the content, anything else there is an error (`f` sees the content octets of one
item and the state) -/
def foldCons {σ : Type} (tag : Nat) (f : σ → Bytes → Option σ) : Nat → Bytes → σ → Option σ
  | 0, b, s => if b = [] then some s else none
  | fuel + 1, b, s =>
    match takeOptCons tag b with
    | .absent => if b = [] then some s else none
    | .bad => none
    | .ok c rest => match f s c with
      | none => none
      | some s' => foldCons tag f fuel rest s'

/-- the same for primitive values -/
def foldPrim {σ : Type} (tag : Nat) (f : σ → Bytes → Option σ) : Nat → Bytes → σ → Option σ
  | 0, b, s => if b = [] then some s else none
  | fuel + 1, b, s =>
    match takeOptPrim tag b with
    | .absent => if b = [] then some s else none
    | .bad => none
    | .ok c rest => match f s c with
      | none => none
      | some s' => foldPrim tag f fuel rest s'

def oidOk := SigObj.oidOk

/-- `Oid::take_from` -/
def takeOid (b : Bytes) : Option (Bytes × Bytes) :=
  match takePrim tagOid b with
  | some (c, r) => if oidOk c then some (c, r) else none
  | none => none

/-- `take_opt_bool` (DER): one octet, 0x00 or 0xFF -/
def takeOptBool (b : Bytes) : Take Bool :=
  match takeOptPrim tagBool b with
  | .absent => .absent
  | .bad => .bad
  | .ok c r => if c = [0] then .ok false r else if c = [255] then .ok true r else .bad

/-- `take_opt_primitive_if(Tag::NULL, |_| Ok(()))` / `take_opt_null`: present?, rest -/
def takeOptNull (b : Bytes) : Option (Bool × Bytes) :=
  match takeOptPrim tagNull b with
  | .absent => some (false, b)
  | .bad => none
  | .ok c r => if c = [] then some (true, r) else none

/-- `BitString::take_from`: unused bits, octets, rest -/
def takeBitString (b : Bytes) : Option (Nat × Bytes × Bytes) :=
  match takePrim tagBitString b with
  | none => none
  | some (c, r) => (Manifest.bitStringTake c).map fun (u, bits) => (u, bits, r)

/-! ## names -/

def tagPrintable : Nat := 0x13
def tagUtf8 : Nat := 0x0C

/-- `Name::take_from`: the closure of one AttributeTypeAndValue -/
def nameAttr (_ : Unit) (c : Bytes) : Option Unit :=
  match takePrim tagOid c with
  | none => none
  | some (o, r) =>
    if !oidOk o then none
    else if r = [] then none
    else match skipOne r with
      | some [] => some ()
      | _ => none

/-- one RelativeDistinguishedName: at least one attribute -/
def nameRdn (_ : Unit) (c : Bytes) : Option Unit :=
  if c = [] then none else foldCons tagSeq nameAttr c.length c ()

/-- `Name::take_from`: the captured octets of the name and what follows it -/
def takeName (b : Bytes) : Option (Bytes × Bytes) :=
  match takeCons tagSeq b with
  | none => none
  | some (c, rest) =>
    if c = [] then none
    else match foldCons tagSet nameRdn c.length c () with
      | none => none
      | some _ => some (b.take (b.length - rest.length), rest)

def isPrintable (x : Nat) : Bool :=
  (48 ≤ x && x ≤ 57) || (65 ≤ x && x ≤ 90) || (97 ≤ x && x ≤ 122) ||
  x = 32 || x = 39 || x = 40 || x = 41 || x = 43 || x = 44 || x = 45 || x = 46 || x = 47 || x = 58 || x = 61 || x = 63

/-- `PrintableString::take_from` as the last value of its SEQUENCE -/
def lastPrintable (r : Bytes) : Bool :=
  match takePrim tagPrintable r with
  | some (s, r2) => s.all isPrintable && r2 = []
  | none => false

/-- bcder's `Utf8CharSet::check` (its own decoder, `char::from_u32` for the code point) -/
def utf8Ok : Nat → Bytes → Bool
  | 0, b => b = []
  | fuel + 1, b =>
    let scalar (cp : Nat) : Bool := cp < 0xD800 || (0xDFFF < cp && cp ≤ 0x10FFFF)
    match b with
    | [] => true
    | a :: r =>
      if a < 0x80 then utf8Ok fuel r
      else match r with
        | [] => false
        | s :: r2 =>
          if a < 0xC0 || s < 0x80 then false
          else if a < 0xE0 then
            let cp := (a % 32) * 64 + s % 64
            if cp < 0x80 then false else if !scalar cp then false else utf8Ok fuel r2
          else match r2 with
            | [] => false
            | t :: r3 =>
              if t < 0x80 then false
              else if a < 0xF0 then
                let cp := (a % 16) * 4096 + (s % 64) * 64 + t % 64
                if cp < 0x800 then false else if !scalar cp then false else utf8Ok fuel r3
              else match r3 with
                | [] => false
                | u :: r4 =>
                  if a > 0xF7 || u < 0x80 then false
                  else
                    let cp := (a % 8) * 262144 + (s % 64) * 4096 + (t % 64) * 64 + u % 64
                    if cp < 0x10000 then false else if !scalar cp then false else utf8Ok fuel r4

/-- `Name::skip_router_string` as the last value of its SEQUENCE -/
def lastRouterString (r : Bytes) : Bool :=
  match r with
  | [] => false
  | t :: _ =>
    if t % 32 = 31 then false
    else match readTlv r with
      | none => false
      | some (_, s, r2) =>
        if r2 ≠ [] then false
        else if tagNoCons t = tagPrintable then !isCons t && s.all isPrintable
        else if tagNoCons t = tagUtf8 then !isCons t && utf8Ok s.length s
        else false

/-- the strict inspection of a name: at most one common name and one serial number, both of the
permitted string type, a common name present — and, since the closure does not read the value of any other
attribute, no other attribute at all -/
def inspectAttr (str : Bytes → Bool) (s : Bool × Bool) (c : Bytes) : Option (Bool × Bool) :=
  match takeOid c with
  | none => none
  | some (o, r) =>
    if o = oidCommonName then (if s.1 then none else if str r then some (true, s.2) else none)
    else if o = oidSerialNumber then (if s.2 then none else if str r then some (s.1, true) else none)
    else if r = [] then some s else none

def inspectName (str : Bytes → Bool) (name : Bytes) : Bool :=
  match takeCons tagSeq name with
  | none => false
  | some (c, _) =>
    match foldCons tagSet (fun s rdn => foldCons tagSeq (inspectAttr str) rdn.length rdn s) c.length c (false, false) with
    | some (cn, _) => cn
    | none => false

def inspectRpkiName := inspectName lastPrintable
def inspectRouterName := inspectName lastRouterString

/-! ## algorithm identifiers, validity, key -/

/-- `RpkiSignatureAlgorithm::x509_take_from`: has_parameter, rest -/
def takeSigAlg (b : Bytes) : Option (Bool × Bytes) :=
  match takeCons tagSeq b with
  | none => none
  | some (c, rest) =>
    match takePrim tagOid c with
    | none => none
    | some (o, r) =>
      if o ≠ oidSha256WithRsa then none
      else match takeOptNull r with
        | some (p, r2) => if r2 = [] then some (p, rest) else none
        | none => none

/-- days since 1970-01-01 of a proleptic Gregorian date (chrono's time line) -/
def daysFromCivil (y m d : Nat) : Int :=
  let y' : Int := if m ≤ 2 then (y : Int) - 1 else y
  let era : Int := (if y' ≥ 0 then y' else y' - 399) / 400
  let yoe : Int := y' - era * 400
  let mp : Int := if m > 2 then (m : Int) - 3 else (m : Int) + 9
  let doy : Int := (153 * mp + 2) / 5 + (d : Int) - 1
  let doe : Int := yoe * 365 + yoe / 4 - yoe / 100 + doy
  era * 146097 + doe - 719468

def civilToEpoch (c : X509.Civil) : Int :=
  daysFromCivil c.y c.m c.d * 86400 + (c.h : Int) * 3600 + (c.mi : Int) * 60 + c.s

/-- `Validity::take_from`: the two calendar times as written, and what follows -/
def takeValidityCivil (b : Bytes) : Option (X509.Civil × X509.Civil × Bytes) :=
  match takeCons tagSeq b with
  | none => none
  | some (c, rest) =>
    match Manifest.takeTime c with
    | none => none
    | some (t1, r1) =>
      match Manifest.takeTime r1 with
      | none => none
      | some (t2, r2) => if r2 = [] then some (t1, t2, rest) else none

/-- `Validity::take_from` as instants -/
def takeValidity (b : Bytes) : Option (X509.Validity × Bytes) :=
  (takeValidityCivil b).map fun (t1, t2, rest) => (⟨civilToEpoch t1, civilToEpoch t2⟩, rest)

inductive KeyAlg | rsa | ecP256
deriving DecidableEq, Repr

/-- `PublicKey::take_from`: algorithm, unused bits, key octets, rest -/
def takePublicKey (b : Bytes) : Option (KeyAlg × Nat × Bytes × Bytes) :=
  match takeCons tagSeq b with
  | none => none
  | some (c, rest) =>
    match takeCons tagSeq c with
    | none => none
    | some (ac, r1) =>
      match takeOid ac with
      | none => none
      | some (o, ar) =>
        let alg : Option KeyAlg :=
          if o = oidRsaEncryption then
            match takeOptNull ar with
            | some (_, r2) => if r2 = [] then some .rsa else none
            | none => none
          else if o = oidEcPublicKey then
            match takePrim tagOid ar with
            | some (p, r2) => if p = oidSecp256r1 ∧ r2 = [] then some .ecP256 else none
            | none => none
          else none
        match alg with
        | none => none
        | some alg =>
          match takeBitString r1 with
          | some (u, bits, r3) => if r3 = [] then some (alg, u, bits, rest) else none
          | none => none

/-! ## extensions -/

/-- `KeyIdentifier::from_content` on the content octets (primitive) -/
def keyIdOk (c : Bytes) : Bool := c.length = 20

/-- `take_general_names_content`: every `[6]` IA5String in turn; exactly one may satisfy `accept` -/
def generalNames (accept : Bytes → Bool) (b : Bytes) : Option Bytes :=
  let step (s : Option Bytes) (c : Bytes) : Option (Option Bytes) :=
    if !c.all (· < 128) then none
    else if accept c then (if s.isSome then none else some (some c)) else some s
  match foldPrim 0x86 step b.length b none with
  | some (some u) => some u
  | _ => none

/-- `take_general_name`: one mandatory `[6]` IA5String, `Some` when `accept` likes it; then the
enclosing AccessDescription must end -/
def generalName (accept : Bytes → Bool) (b : Bytes) : Option (Option Bytes) :=
  match takePrim 0x86 b with
  | none => none
  | some (c, r) =>
    if !c.all (· < 128) then none
    else if r ≠ [] then none
    else some (if accept c then some c else none)

def rsyncOk (u : Bytes) : Bool := match Uri.Rsync.fromBytes u with | .ok _ => true | .error _ => false
def httpsOk (u : Bytes) : Bool := match Uri.Https.fromBytes u with | .ok _ => true | .error _ => false

structure Sia where
  caRepository : Option Bytes := none
  rpkiManifest : Option Bytes := none
  signedObject : Option Bytes := none
  rpkiNotify : Option Bytes := none
deriving Repr, DecidableEq

def updateFirst (cur new : Option Bytes) : Option Bytes := match cur with | some c => some c | none => new

/-- one AccessDescription of `Sia::take_from` -/
def siaEntry (s : Sia) (c : Bytes) : Option Sia :=
  match takeOid c with
  | none => none
  | some (o, r) =>
    if o = oidAdCaRepository then (generalName rsyncOk r).map fun u => { s with caRepository := updateFirst s.caRepository u }
    else if o = oidAdRpkiManifest then (generalName rsyncOk r).map fun u => { s with rpkiManifest := updateFirst s.rpkiManifest u }
    else if o = oidAdSignedObject then (generalName rsyncOk r).map fun u => { s with signedObject := updateFirst s.signedObject u }
    else if o = oidAdRpkiNotify then (generalName httpsOk r).map fun u => { s with rpkiNotify := updateFirst s.rpkiNotify u }
    else if skipAll r.length r then some s else none

/-- `Sia::take_from`; the value of an extension is decoded from an unbounded source, so whatever
follows its first value inside the OCTET STRING is not looked at -/
def takeSia (v : Bytes) : Option Sia :=
  match takeCons tagSeq v with
  | none => none
  | some (c, _) => if c = [] then none else foldCons tagSeq siaEntry c.length c {}

inductive KeyUsage | ca | ee
deriving DecidableEq, Repr

structure Exts where
  basicCa : Option Bool := none
  ski : Option Bytes := none
  aki : Option Bytes := none
  keyUsage : Option KeyUsage := none
  /-- `Some(has_bgpsec_router)` -/
  eku : Option Bool := none
  /-- the captured content of the ExtKeyUsageSyntax SEQUENCE -/
  ekuContent : Bytes := []
  crlUri : Option Bytes := none
  caIssuer : Option Bytes := none
  sia : Option Sia := none
  /-- `Some(trim)` from the certificate policy -/
  overclaim : Option Bool := none
  ip : Option (Option Claim × Option Claim) := none
  ipTrim : Option Bool := none
  asn : Option Claim := none
  asTrim : Option Bool := none
deriving Repr

/-- one family of `IpResources::take_families_from`: NULL = inherit, SEQUENCE = blocks -/
def takeIpChoice (W : Nat) (b : Bytes) : Option Claim :=
  match b with
  | [] => none
  | t :: _ =>
    if t % 32 = 31 then none
    else match readTlv b with
      | none => none
      | some (_, v, r) =>
        if r ≠ [] then none
        else if tagNoCons t = tagNull then (if isCons t ∨ v ≠ [] then none else some .inherit)
        else if tagNoCons t = 0x10 then
          (if !isCons t then none else (IpDer.blocksLoop W v.length v).map fun bs => .blocks (fromIter IpDer.maxAddr bs))
        else none

def ipFamily (s : Option Claim × Option Claim) (c : Bytes) : Option (Option Claim × Option Claim) :=
  match takePrim tagOctetString c with
  | none => none
  | some (af, r) =>
    if af = [0, 1] then (if s.1.isSome then none else (takeIpChoice 32 r).map fun cl => (some cl, s.2))
    else if af = [0, 2] then (if s.2.isSome then none else (takeIpChoice 128 r).map fun cl => (s.1, some cl))
    else none

/-- `IpResources::take_families_from` -/
def takeIpFamilies (v : Bytes) : Option (Option Claim × Option Claim) :=
  match takeCons tagSeq v with
  | none => none
  | some (c, _) =>
    match foldCons tagSeq ipFamily c.length c (none, none) with
    | some (none, none) => none
    | r => r

/-- `take_basic_constraints_critical` -/
def xBasicConstraints (e : Exts) (critical : Bool) (v : Bytes) : Option Exts :=
  if !critical ∨ e.basicCa.isSome then none
  else match takeCons tagSeq v with
    | none => none
    | some (bc, _) =>
      match takeOptBool bc with
      | .bad => none
      | .absent => if bc = [] then some { e with basicCa := some false } else none
      | .ok x r => if r = [] then some { e with basicCa := some x } else none

/-- `take_subject_key_identifier_critical` -/
def xSubjectKeyId (e : Exts) (critical : Bool) (v : Bytes) : Option Exts :=
  if critical ∨ e.ski.isSome then none
  else match takePrim tagOctetString v with
    | some (k, _) => if keyIdOk k then some { e with ski := some k } else none
    | none => none

/-- `take_authority_key_identifier_critical` -/
def xAuthorityKeyId (e : Exts) (critical : Bool) (v : Bytes) : Option Exts :=
  if critical ∨ e.aki.isSome then none
  else match takeCons tagSeq v with
    | none => none
    | some (ac, _) =>
      match takePrim 0x80 ac with
      | some (k, r) => if keyIdOk k ∧ r = [] then some { e with aki := some k } else none
      | none => none

/-- `take_key_usage_critical` -/
def xKeyUsage (e : Exts) (critical : Bool) (v : Bytes) : Option Exts :=
  if !critical ∨ e.keyUsage.isSome then none
  else match takeBitString v with
    | none => none
    | some (u, bits, _) =>
      let bitLen := 8 * bits.length - u
      if bitLen = 7 ∧ bits.headD 0 = 6 then some { e with keyUsage := some .ca }
      else if bitLen = 1 ∧ bits.headD 0 / 128 % 2 = 1 then some { e with keyUsage := some .ee }
      else none

/-- `take_extended_key_usage_critical` -/
def xExtKeyUsage (e : Exts) (critical : Bool) (v : Bytes) : Option Exts :=
  if critical ∨ e.eku.isSome then none
  else match takeCons tagSeq v with
    | none => none
    | some (kc, _) =>
      if kc = [] then none
      else match foldPrim tagOid (fun s o => if oidOk o then some (s || o == oidKpBgpsecRouter) else none) kc.length kc false with
        | some has => some { e with eku := some has, ekuContent := kc }
        | none => none

/-- `take_crl_distribution_points` -/
def xCrlDistributionPoints (e : Exts) (critical : Bool) (v : Bytes) : Option Exts :=
  if e.crlUri.isSome ∨ critical then none
  else match takeCons tagSeq v with
    | none => none
    | some (c1, _) =>
      match takeCons tagSeq c1 with
      | none => none
      | some (c2, r) =>
        if r ≠ [] then none else
        match takeCons 0xA0 c2 with
        | none => none
        | some (c3, r) =>
          if r ≠ [] then none else
          match takeCons 0xA0 c3 with
          | none => none
          | some (c4, r) =>
            if r ≠ [] then none else
            match generalNames rsyncOk c4 with
            | some u => some { e with crlUri := some u }
            | none => none

/-- `take_authority_info_access` -/
def xAuthorityInfoAccess (e : Exts) (critical : Bool) (v : Bytes) : Option Exts :=
  if e.caIssuer.isSome ∨ critical then none
  else match takeCons tagSeq v with
    | none => none
    | some (c1, _) =>
      match takeCons tagSeq c1 with
      | none => none
      | some (c2, r) =>
        if r ≠ [] then none else
        match takePrim tagOid c2 with
        | none => none
        | some (o, r) =>
          if o ≠ oidAdCaIssuers then none
          else match generalNames rsyncOk r with
            | some u => some { e with caIssuer := some u }
            | none => none

/-- `take_subject_info_access_critical` -/
def xSubjectInfoAccess (e : Exts) (critical : Bool) (v : Bytes) : Option Exts :=
  if critical ∨ e.sia.isSome then none
  else match takeSia v with
    | some s => some { e with sia := some s }
    | none => none

/-- `take_certificate_policies` -/
def xCertificatePolicies (e : Exts) (critical : Bool) (v : Bytes) : Option Exts :=
  if e.overclaim.isSome ∨ !critical then none
  else match takeCons tagSeq v with
    | none => none
    | some (c1, _) =>
      match takeCons tagSeq c1 with
      | none => none
      | some (c2, r) =>
        if r ≠ [] then none else
        match takeOid c2 with
        | none => none
        | some (o, q) =>
          let oc : Option Bool := if o = oidCpResources then some false
            else if o = oidCpResourcesV2 then some true else none
          match oc with
          | none => none
          | some t => if skipAll q.length q then some { e with overclaim := some t } else none

/-- `take_ip_resources`, entered for either of the two identifiers -/
def xIpResources (e : Exts) (v2 : Bool) (v : Bytes) : Option Exts :=
  if e.ip.isSome then none
  else match takeIpFamilies v with
    | some f => some { e with ipTrim := some v2, ip := some f }
    | none => none

/-- `take_as_resources` -/
def xAsResources (e : Exts) (v2 : Bool) (v : Bytes) : Option Exts :=
  if e.asn.isSome then none
  else match AsDer.decodeExt v with
    | some a => some { e with asTrim := some v2, asn := some a }
    | none => none

/-- the dispatch on the extension identifier inside `TbsCert::from_constructed` -/
def extValue (e : Exts) (id : Bytes) (critical : Bool) (v : Bytes) : Option Exts :=
  if id = oidBasicConstraints then xBasicConstraints e critical v
  else if id = oidSubjectKeyId then xSubjectKeyId e critical v
  else if id = oidAuthorityKeyId then xAuthorityKeyId e critical v
  else if id = oidKeyUsage then xKeyUsage e critical v
  else if id = oidExtKeyUsage then xExtKeyUsage e critical v
  else if id = oidCrlDistributionPoints then xCrlDistributionPoints e critical v
  else if id = oidAuthorityInfoAccess then xAuthorityInfoAccess e critical v
  else if id = oidSubjectInfoAccess then xSubjectInfoAccess e critical v
  else if id = oidCertificatePolicies then xCertificatePolicies e critical v
  else if id = oidIpAddrBlock ∨ id = oidIpAddrBlockV2 then xIpResources e (id == oidIpAddrBlockV2) v
  else if id = oidAsIds ∨ id = oidAsIdsV2 then xAsResources e (id == oidAsIdsV2) v
  else if critical then none
  else some e

/-- one extension: identifier, criticality, value octets -/
def extension (e : Exts) (c : Bytes) : Option Exts :=
  match takeOid c with
  | none => none
  | some (id, r0) =>
    let crit : Option (Bool × Bytes) := match takeOptBool r0 with
      | .absent => some (false, r0) | .bad => none | .ok x r => some (x, r)
    match crit with
    | none => none
    | some (critical, r1) =>
      match takePrim tagOctetString r1 with
      | none => none
      | some (v, r2) => if r2 ≠ [] then none else extValue e id critical v

/-! ## the certificate -/

structure Decoded where
  serial : Bytes
  /-- signatureAlgorithm inside the TBS / outside: NULL parameter present? -/
  innerParam : Bool
  outerParam : Bool
  issuer : Bytes
  subject : Bytes
  validity : X509.Validity
  /-- the two times of the validity as calendar values (what `validity` was computed from) -/
  notBefore : X509.Civil
  notAfter : X509.Civil
  keyAlg : KeyAlg
  keyUnused : Nat
  keyBits : Bytes
  basicCa : Option Bool
  ski : Bytes
  aki : Option Bytes
  keyUsage : KeyUsage
  eku : Option Bool
  ekuContent : Bytes
  crlUri : Option Bytes
  caIssuer : Option Bytes
  sia : Sia
  trim : Bool
  v4 : Claim
  v6 : Claim
  asn : Claim
  /-- the captured TBS octets (what the signature covers) and the signature octets -/
  tbs : Bytes
  signature : Bytes
deriving Repr

/-- the end of `TbsCert::from_constructed`: the checks after the extension loop and the value returned -/
def finishTbs (serial : Bytes) (innerParam outerParam : Bool) (issuer subject : Bytes)
    (notBefore notAfter : X509.Civil) (keyAlg : KeyAlg) (keyUnused : Nat) (keyBits raw signature : Bytes)
    (e : Exts) : Option Decoded :=
  if e.ip.isNone ∧ e.asn.isNone then none
  else if e.ip.isSome ∧ e.ipTrim ≠ e.overclaim then none
  else if e.asn.isSome ∧ e.asTrim ≠ e.overclaim then none
  else match e.ski, e.keyUsage, e.overclaim with
    | some ski, some ku, some trim =>
      some {
        serial, innerParam, outerParam, issuer, subject,
        validity := ⟨civilToEpoch notBefore, civilToEpoch notAfter⟩, notBefore, notAfter,
        keyAlg, keyUnused, keyBits,
        basicCa := e.basicCa, ski, aki := e.aki, keyUsage := ku, eku := e.eku,
        ekuContent := e.ekuContent,
        crlUri := e.crlUri, caIssuer := e.caIssuer, sia := e.sia.getD {}, trim,
        v4 := (e.ip.getD (none, none)).1.getD .missing, v6 := (e.ip.getD (none, none)).2.getD .missing,
        asn := e.asn.getD .missing,
        tbs := raw, signature }
    | _, _, _ => none

/-- `TbsCert::from_constructed` on the captured TBS octets; the two outer fields are filled in by
`decodeCert` -/
def decodeTbs (raw : Bytes) (outerParam : Bool) (signature : Bytes) : Option Decoded :=
  match takeCons tagSeq raw with
  | none => none
  | some (c, _) =>
    match takeCons 0xA0 c with
    | none => none
    | some (vc, r0) =>
      -- `skip_u8_if(2)`: the INTEGER's content is the single octet 2
      match takePrim tagInt vc with
      | none => none
      | some (vi, vr) =>
        if vi ≠ [2] ∨ vr ≠ [] then none else
        match takePrim tagInt r0 with
        | none => none
        | some (sc, r1) =>
          match X509.decodeSerialContent sc with
          | none => none
          | some serial =>
            match takeSigAlg r1 with
            | none => none
            | some (innerParam, r2) =>
              match takeName r2 with
              | none => none
              | some (issuer, r3) =>
                match takeValidityCivil r3 with
                | none => none
                | some (notBefore, notAfter, r4) =>
                  match takeName r4 with
                  | none => none
                  | some (subject, r5) =>
                    match takePublicKey r5 with
                    | none => none
                    | some (keyAlg, keyUnused, keyBits, r6) =>
                      match takeCons 0xA3 r6 with
                      | none => none
                      | some (xc, r7) =>
                        if r7 ≠ [] then none else
                        match takeCons tagSeq xc with
                        | none => none
                        | some (xs, xr) =>
                          if xr ≠ [] then none else
                          match foldCons tagSeq extension xs.length xs {} with
                          | none => none
                          | some e =>
                            finishTbs serial innerParam outerParam issuer subject notBefore notAfter keyAlg keyUnused
                              keyBits raw signature e

/-- `Cert::from_constructed` on the content of the certificate SEQUENCE -/
def certBody (c : Bytes) : Option Decoded :=
  if c = [] then none else
  match skipOne c with
  | none => none
  | some r1 =>
    let raw := c.take (c.length - r1.length)
    match takeSigAlg r1 with
    | none => none
    | some (outerParam, r2) =>
      match takeBitString r2 with
      | none => none
      | some (_, sig, r3) => if r3 ≠ [] then none else decodeTbs raw outerParam sig

/-- `Cert::take_from`: one certificate and what follows it -/
def takeCert (b : Bytes) : Option (Decoded × Bytes) :=
  match takeCons tagSeq b with
  | none => none
  | some (c, rest) => (certBody c).map (·, rest)

/-- `Cert::decode`: the source is unbounded, what follows the certificate is not looked at -/
def decodeCert (b : Bytes) : Option Decoded := (takeCert b).map (·.1)

/-! ## from the decoded certificate to the facts validation looks at -/

/-- `PublicKey::key_identifier` -/
def keyIdentifier (d : Decoded) : Bytes := Sha.sha1N d.keyBits

/-- IPv4 blocks are kept as 128-bit ranges whose upper 32 bits carry the address (as `Addr` does); the
validation model counts IPv4 in 32 bits.  The blocks are moved down and collected again: for the aligned
blocks the IPv4 reader produces this changes nothing (the comparison with the library, whose result the
harness shifts block by block, checks it on every case), and it makes the result canonical by construction. -/
def shiftV4 : Claim → Claim
  | .blocks c => .blocks (fromIter (2 ^ 32 - 1) (c.map fun b => ⟨b.lo / 2 ^ 96, b.hi / 2 ^ 96⟩))
  | x => x

/-- the record `Cert.validate*` works on; `sigOk` is the one input that does not come from the octets.
`strict` is the flag of the `inspect_*` functions (it only governs the name inspection). -/
def toFacts (d : Decoded) (router strict sigOk : Bool) : Cert.Facts :=
  { sigOk,
    algMatch := d.innerParam == d.outerParam,
    namesOk := !strict || (inspectRpkiName d.issuer && (if router then inspectRouterName d.subject else inspectRpkiName d.subject)),
    keyAlgOk := if router then d.keyAlg == .ecP256 else d.keyAlg == .rsa,
    validity := d.validity,
    ski := d.ski,
    keyId := keyIdentifier d,
    aki := d.aki,
    basicCa := d.basicCa,
    kuCa := d.keyUsage == .ca,
    eku := d.eku.isSome,
    ekuRouter := d.eku == some true,
    crl := d.crlUri.isSome,
    aia := d.caIssuer.isSome,
    caRepo := d.sia.caRepository.isSome,
    mft := d.sia.rpkiManifest.isSome,
    signedObj := d.sia.signedObject.isSome,
    notify := d.sia.rpkiNotify.isSome,
    trim := d.trim,
    v4 := shiftV4 d.v4, v6 := d.v6, asn := d.asn }

end Rpki.CertDer
