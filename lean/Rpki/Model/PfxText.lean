/-
Text forms of `rpki::resources::addr::Prefix`, `MaxLenPrefix` and `rpki::resources::asn::Asn`
(src/resources/addr.rs `impl FromStr / Display for Prefix`, `Prefix::from_str_relaxed`,
`impl FromStr / Display for MaxLenPrefix`; src/resources/asn.rs `impl FromStr / Display for Asn`).

The address text is the standard library's (`IpAddr::from_str`, `Display`), modelled in
`Model/ResText.lean` (C03) and compared with the library on every case; the prefix length and the
max length go through `u8::from_str` (`ResText.parseLen`: an optional `+`, digits, at most 255).
-/
import Rpki.Model.Prefix
import Rpki.Model.ResText
namespace Rpki.PfxText
open Rpki.Prefix Rpki.ResText

/-- `ParsePrefixError` -/
inductive TErr
  | empty | missingLen | invalidAddr | invalidLen
  | invalidPrefix (e : PErr)
deriving DecidableEq, Repr

/-- `ParseMaxLenPrefixError` -/
inductive MTErr
  | invalidPrefix (e : TErr) | invalidMaxLenFormat | invalidMaxLenValue (e : MErr)
deriving DecidableEq, Repr

/-- `IpAddr::from_str`: an IPv4 address if the text is one, otherwise an IPv6 address.
`(true, a)` with the 32-bit value, `(false, a)` with the 128-bit value. -/
def parseIpAddr (b : Bytes) : Option (Bool × Nat) :=
  match parseV4 b with
  | some a => some (true, a)
  | none => (parseV6 b).map fun a => (false, a)

/-- `Prefix::new` / `Prefix::new_relaxed` on a parsed `IpAddr` -/
def pfxNew (relaxed : Bool) (addr : Bool × Nat) (len : Nat) : Except PErr Pfx :=
  match addr, relaxed with
  | (true, a), false => newV4 a len
  | (true, a), true => newV4Relaxed a len
  | (false, a), false => newV6 a len
  | (false, a), true => newV6Relaxed a len

/-- `Prefix::from_str` (`relaxed = false`) and `Prefix::from_str_relaxed` -/
def parsePfx (relaxed : Bool) (s : Bytes) : Except TErr Pfx :=
  if s = [] then .error .empty else
  match findSep 47 s with
  | none => .error .missingLen
  | some slash =>
    match parseIpAddr (s.take slash) with
    | none => .error .invalidAddr
    | some addr =>
      match parseLen (s.drop (slash + 1)) with
      | none => .error .invalidLen
      | some len =>
        match pfxNew relaxed addr len with
        | .ok p => .ok p
        | .error e => .error (.invalidPrefix e)

/-- `Display for Prefix`: `{addr}/{len}` -/
def fmtPfx (p : Pfx) : Bytes := fmtAddr p.isV4 p.bits ++ 47 :: decimal p.len

/-- `MaxLenPrefix::from_str` -/
def parseMlp (s : Bytes) : Except MTErr Mlp :=
  match findSep 45 s with
  | some dash =>
    (match parsePfx false (s.take dash) with
     | .error e => .error (.invalidPrefix e)
     | .ok p =>
       match parseLen (s.drop (dash + 1)) with
       | none => .error .invalidMaxLenFormat
       | some m =>
         match mlpNew p (some m) with
         | .ok r => .ok r
         | .error e => .error (.invalidMaxLenValue e))
  | none =>
    match parsePfx false s with
    | .error e => .error (.invalidPrefix e)
    | .ok p =>
      match mlpNew p none with
      | .ok r => .ok r
      | .error e => .error (.invalidMaxLenValue e)

/-- `Display for MaxLenPrefix`: the prefix, then `-{max_len}` when there is one -/
def fmtMlp (m : Mlp) : Bytes :=
  fmtPfx m.pfx ++ (match m.ml with | some k => 45 :: decimal k | none => [])

/-- `Display for Asn` -/
def fmtAsn (n : Nat) : Bytes := 65 :: 83 :: decimal n

end Rpki.PfxText
