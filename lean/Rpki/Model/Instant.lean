/-
The instant a civil time names (`x509::Time` is a `chrono::DateTime<Utc>`; the library builds it with
`Utc.with_ymd_and_hms` and compares instants): seconds since 0000-01-01T00:00:00 in the proleptic
Gregorian calendar, and the Unix timestamp (`Time::timestamp`).
-/
import Rpki.Model.X509
namespace Rpki.X509

/-- leap days before 1 January of year `y` (the years 0, 4, …, not 100, 200, 300, but 400, … below `y`) -/
def leapsBefore (y : Nat) : Nat := (y + 3) / 4 + (y + 399) / 400 - (y + 99) / 100

def daysBeforeYear (y : Nat) : Nat := 365 * y + leapsBefore y

/-- days of year `y` before the first of month `m` -/
def daysBeforeMonth (y m : Nat) : Nat :=
  (match m with
   | 1 => 0 | 2 => 31 | 3 => 59 | 4 => 90 | 5 => 120 | 6 => 151 | 7 => 181 | 8 => 212 | 9 => 243
   | 10 => 273 | 11 => 304 | _ => 334) + (if isLeap y ∧ m > 2 then 1 else 0)

/-- days since 0000-01-01 -/
def dayNumber (c : Civil) : Nat := daysBeforeYear c.y + daysBeforeMonth c.y c.m + (c.d - 1)

/-- seconds since 0000-01-01T00:00:00 -/
def secsOf (c : Civil) : Nat := dayNumber c * 86400 + c.h * 3600 + c.mi * 60 + c.s

/-- `Time::timestamp`: 1970-01-01 is day 719528 -/
def unixOf (c : Civil) : Int := (secsOf c : Int) - 62167219200

/-- calendar order: year, month, day, hour, minute, second -/
def civilLt (a b : Civil) : Prop :=
  a.y < b.y ∨ (a.y = b.y ∧ (a.m < b.m ∨ (a.m = b.m ∧ (a.d < b.d ∨ (a.d = b.d ∧
    (a.h < b.h ∨ (a.h = b.h ∧ (a.mi < b.mi ∨ (a.mi = b.mi ∧ a.s < b.s)))))))))

end Rpki.X509
