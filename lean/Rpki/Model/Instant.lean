/-
The instant a civil time names (`x509::Time` is a `chrono::DateTime<Utc>`; the library builds it with
`Utc.with_ymd_and_hms` and compares instants): seconds since 0000-01-01T00:00:00 in the proleptic
Gregorian calendar, and the Unix timestamp (`Time::timestamp`).
-/
import Rpki.Model.X509
namespace Rpki.X509

/-- leap days before 1 January of year `y` (the years 0, 4, …, not 100, 200, 300, but 400, … below `y`) -/
def leapsBefore (y : Nat) : Nat := (y + 3) / 4 + (y + 399) / 400 - (y + 99) / 100

def daysBeforeYear (y : Nat) : Nat := 365 * y + leapsBefore y

/-- days of year `y` before the first of month `m` -/
def daysBeforeMonth (y m : Nat) : Nat :=
  (match m with
   | 1 => 0 | 2 => 31 | 3 => 59 | 4 => 90 | 5 => 120 | 6 => 151 | 7 => 181 | 8 => 212 | 9 => 243
   | 10 => 273 | 11 => 304 | _ => 334) + (if isLeap y ∧ m > 2 then 1 else 0)

/-- days since 0000-01-01 -/
def dayNumber (c : Civil) : Nat := daysBeforeYear c.y + daysBeforeMonth c.y c.m + (c.d - 1)

/-- seconds since 0000-01-01T00:00:00 -/
def secsOf (c : Civil) : Nat := dayNumber c * 86400 + c.h * 3600 + c.mi * 60 + c.s

/-- `Time::timestamp`: 1970-01-01 is day 719528 -/
def unixOf (c : Civil) : Int := (secsOf c : Int) - 62167219200

/-- calendar order: year, month, day, hour, minute, second -/
def civilLt (a b : Civil) : Prop :=
  a.y < b.y ∨ (a.y = b.y ∧ (a.m < b.m ∨ (a.m = b.m ∧ (a.d < b.d ∨ (a.d = b.d ∧
    (a.h < b.h ∨ (a.h = b.h ∧ (a.mi < b.mi ∨ (a.mi = b.mi ∧ a.s < b.s)))))))))

/-- `Time::years_from_date`: the same month, day and time of day `years` years away; 29 February becomes
28 February (also when the target year is a leap year); a leap second is clipped to 59 -/
def yearsFromDate (years : Int) (c : Civil) : Civil :=
  ⟨((c.y : Int) + years).toNat, c.m, if c.d = 29 ∧ c.m = 2 then 28 else c.d, c.h, c.mi, min c.s 59⟩

/-- civil time of a Unix timestamp (days-from-civil inverted, Hinnant's algorithm); years 0–9999 -/
def civilOfUnix (ts : Int) : Option Civil :=
  let days := ts / 86400
  let days := if ts % 86400 < 0 then days - 1 else days
  let secs := (ts - days * 86400).toNat
  let z := days + 719468
  let era := (if z ≥ 0 then z else z - 146096) / 146097
  let doe := (z - era * 146097).toNat
  let yoe := (doe - doe / 1460 + doe / 36524 - doe / 146096) / 365
  let y := (yoe : Int) + era * 400
  let doy := doe - (365 * yoe + yoe / 4 - yoe / 100)
  let mp := (5 * doy + 2) / 153
  let d := doy - (153 * mp + 2) / 5 + 1
  let m := if mp < 10 then mp + 3 else mp - 9
  let y := if m ≤ 2 then y + 1 else y
  if y < 0 ∨ y > 9999 then none
  else some ⟨y.toNat, m, d, secs / 3600, secs / 60 % 60, secs % 60⟩

end Rpki.X509
