/-
`SlurmFile::to_string_pretty` (`serde_json::to_string_pretty`, `PrettyFormatter` with two spaces): an empty
array or object is `[]` / `{}`; otherwise every element or member starts on a new line indented by its
depth, members are written `"name": value`, and the closing bracket stands on its own line.
-/
import Rpki.Model.JsonText
namespace Rpki.JsonText
open Rpki.Slurm

def ind (d : Nat) : Bytes := List.replicate (2 * d) 32

mutual
/-- the value at nesting depth `d` -/
def renderP (d : Nat) : Json → Bytes
  | .arr (x :: xs) => 91 :: 10 :: (ind (d + 1) ++ elemsP (d + 1) (x :: xs))
  | .obj (x :: xs) => 123 :: 10 :: (ind (d + 1) ++ membersP (d + 1) (x :: xs))
  | .arr [] => [91, 93]
  | .obj [] => [123, 125]
  | .null => [110, 117, 108, 108]
  | .bool true => [116, 114, 117, 101]
  | .bool false => [102, 97, 108, 115, 101]
  | .num n => ResText.decimal n
  | .str s => quote s
  | .pfx p => quote (PfxText.fmtPfx p)
  | .bytes b => quote (ProvMsg.b64Url b)
/-- the elements at depth `d`, each but the first preceded by `,` and a new line, then the closing bracket -/
def elemsP (d : Nat) : List Json → Bytes
  | [] => [93]
  | [x] => renderP d x ++ 10 :: (ind (d - 1) ++ [93])
  | x :: y :: r => renderP d x ++ 44 :: 10 :: (ind d ++ elemsP d (y :: r))
def membersP (d : Nat) : List (Key × Json) → Bytes
  | [] => [125]
  | [(k, v)] => quote (keyName k) ++ 58 :: 32 :: (renderP d v ++ 10 :: (ind (d - 1) ++ [125]))
  | (k, v) :: y :: r => quote (keyName k) ++ 58 :: 32 :: (renderP d v ++ 44 :: 10 :: (ind d ++ membersP d (y :: r)))
end

/-- `SlurmFile::to_string_pretty` -/
def fileTextPretty (f : SlurmFile) : Bytes := renderP 0 f.toJson

end Rpki.JsonText
