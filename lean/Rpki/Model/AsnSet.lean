/-
Model of `SmallAsnSet` (src/resources/asn.rs): `FromIterator` and the four
peekable merge iterators, as structural recursions on two lists.
-/
namespace Rpki.AsnSet

/-- insertion into a sorted list (model of `Vec::sort`; only `Perm ∧ Sorted` is used) -/
def insertSorted (x : Nat) : List Nat → List Nat
  | [] => [x]
  | y :: ys => if x ≤ y then x :: y :: ys else y :: insertSorted x ys

def sort : List Nat → List Nat
  | [] => []
  | x :: xs => insertSorted x (sort xs)

/-- `Vec::dedup` -/
def dedup : List Nat → List Nat
  | [] => []
  | [x] => [x]
  | x :: y :: rest => if x = y then dedup (y :: rest) else x :: dedup (y :: rest)

/-- `FromIterator<Asn> for SmallAsnSet` — `dedupAfterSort` mirrors whether the code dedups. -/
def fromIter (dedupAfterSort : Bool) (xs : List Nat) : List Nat :=
  if dedupAfterSort then dedup (sort xs) else sort xs

/-- `SmallSetUnion` collected -/
def union : List Nat → List Nat → List Nat
  | [], r => r
  | a :: l, [] => a :: l
  | a :: l, b :: r =>
    if a < b then a :: union l (b :: r)
    else if a = b then b :: union l r
    else b :: union (a :: l) r
termination_by l r => l.length + r.length

/-- `SmallSetIntersection` collected -/
def inter : List Nat → List Nat → List Nat
  | [], _ => []
  | _ :: _, [] => []
  | a :: l, b :: r =>
    if a = b then b :: inter l r
    else if a < b then inter l (b :: r)
    else inter (a :: l) r
termination_by l r => l.length + r.length

/-- `SmallSetDifference` collected -/
def diff : List Nat → List Nat → List Nat
  | [], _ => []
  | a :: l, [] => a :: l
  | a :: l, b :: r =>
    if a < b then a :: diff l (b :: r)
    else if a = b then diff l r
    else diff (a :: l) r
termination_by l r => l.length + r.length

/-- `SmallSetSymmetricDifference` collected -/
def symDiff : List Nat → List Nat → List Nat
  | [], r => r
  | a :: l, [] => a :: l
  | a :: l, b :: r =>
    if a = b then symDiff l r
    else if a < b then a :: symDiff l (b :: r)
    else b :: symDiff (a :: l) r
termination_by l r => l.length + r.length

def StrictSorted (l : List Nat) : Prop := l.Pairwise (· < ·)

end Rpki.AsnSet
