/-
Model of `rpki::rtr::state::Serial` (src/rtr/state.rs).

`Serial(u32)` is modelled as a `Nat` below `2^32`.  The functions mirror the
control flow of the Rust code one-to-one:

* `pcmp`   — `impl PartialOrd for Serial { fn partial_cmp }`
* `add`    — `Serial::add` (`assert!(other <= 0x7FFF_FFFF)` + `wrapping_add`);
             `none` is the documented panic.
* `wire`/`unwire` — the byte sequence that `to_be()`/`from_be()` put on / take
             off the wire inside the `#[repr(C, packed)]` PDU structs
             (most significant byte first).
-/
import Rpki.Gen.Consts
namespace Rpki.Serial
open Rpki.Consts

def W : Nat := 4294967296   -- 2^32

/-- `partial_cmp`: `none` = incomparable. -/
def pcmp (a b : Nat) : Option Ordering :=
  if a = b then some .eq
  else if a < b then
    let sub := b - a
    if sub < serialHalfL then some .lt
    else if sub > serialHalfL then some .gt
    else none
  else
    let sub := a - b
    if sub < serialHalfG then some .gt
    else if sub > serialHalfG then some .lt
    else none

/-- `Serial::add`; `none` models the assertion failure. -/
def add (a n : Nat) : Option Nat :=
  if n ≤ serialAddMax then some ((a + n) % W) else none

/-- The four bytes on the wire (big-endian). -/
def wire (a : Nat) : List Nat :=
  [a / 16777216 % 256, a / 65536 % 256, a / 256 % 256, a % 256]

def unwire : List Nat → Option Nat
  | [b3, b2, b1, b0] =>
      if b3 < 256 ∧ b2 < 256 ∧ b1 < 256 ∧ b0 < 256 then
        some (b3 * 16777216 + b2 * 65536 + b1 * 256 + b0)
      else none
  | _ => none

/-- The RFC 1982 table as a function of the difference `(b - a) mod 2^32`. -/
def table (d : Nat) : Option Ordering :=
  if d = 0 then some .eq
  else if d < 2147483648 then some .lt
  else if d = 2147483648 then none
  else some .gt

def diff (a b : Nat) : Nat := (b + W - a) % W

end Rpki.Serial
