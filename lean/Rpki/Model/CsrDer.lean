/-
  Certification requests on the wire (`src/ca/csr.rs`): `Csr::decode` for both instantiations
  (`RpkiCaCsr` = RSA signature + CA attributes, `BgpsecCsr` = ECDSA signature + router attributes),
  `CsrContent::take_from`, `RpkiCaCsrAttributes::take_from`, `BgpsecCsrAttributes::take_from`.
-/
import Rpki.Model.CertDer
import Rpki.Model.CmsDer
namespace Rpki.CsrDer
open Rpki.Der Rpki.CertDer Rpki.Consts

structure CsrD where
  subject : Bytes
  keyAlg : KeyAlg
  keyUnused : Nat
  keyBits : Bytes
  basicCa : Option Bool
  keyUsage : Option KeyUsage
  eku : Option Bool
  ekuContent : Bytes
  sia : Option Sia
  tbs : Bytes
  signature : Bytes
deriving Repr

/-- one requested extension: identifier, optional criticality (read and ignored), value octets; the value is
decoded from an unbounded source (`Mode::Der.decode(value.into_source(), …)`), so octets after it are not
looked at; an extension other than the four is an error -/
def csrExtension (e : Exts) (c : Bytes) : Option Exts :=
  match takeOid c with
  | none => none
  | some (id, r0) =>
    let r1 : Option Bytes := match takeOptBool r0 with
      | .absent => some r0 | .bad => none | .ok _ r => some r
    match r1 with
    | none => none
    | some r1 =>
      match takePrim tagOctetString r1 with
      | none => none
      | some (v, r2) =>
        if r2 ≠ [] then none
        else if id = oidBasicConstraints then xBasicConstraints e true v
        else if id = oidKeyUsage then xKeyUsage e true v
        else if id = oidExtKeyUsage then xExtKeyUsage e false v
        else if id = oidSubjectInfoAccess then xSubjectInfoAccess e false v
        else none

/-- the `[0]` attributes: exactly one attribute, `extensionRequest`, whose SET holds exactly one SEQUENCE of
extensions -/
def takeAttrs (b : Bytes) : Option (Exts × Bytes) :=
  match takeCons 0xA0 b with
  | none => none
  | some (ac, rest) =>
    match takeCons tagSeq ac with
    | none => none
    | some (sc, ar) =>
      match takeOid sc with
      | none => none
      | some (id, r) =>
        if id ≠ oidExtensionRequest then none else
        match takeCons tagSet r with
        | none => none
        | some (setc, r') =>
          match takeCons tagSeq setc with
          | none => none
          | some (xs, r'') =>
            if r'' ≠ [] ∨ r' ≠ [] then none else
            match foldCons tagSeq csrExtension xs.length xs {} with
            | none => none
            | some e => if ar ≠ [] then none else some (e, rest)

/-- `CsrContent::take_from` on the captured octets, then the checks of the attribute type:
`router = false`: basic constraints, key usage and SIA must be there; `router = true`: an extended key usage,
when there, must name `id-kp-bgpsec-router` -/
def decodeContent (router : Bool) (raw signature : Bytes) : Option CsrD :=
  match takeCons tagSeq raw with
  | none => none
  | some (c, _) =>
    match CmsDer.skipU8 0 c with
    | none => none
    | some r0 =>
      match takeName r0 with
      | none => none
      | some (subject, r1) =>
        match takePublicKey r1 with
        | none => none
        | some (keyAlg, keyUnused, keyBits, r2) =>
          match takeAttrs r2 with
          | none => none
          | some (e, r3) =>
            if r3 ≠ [] then none
            else if router then
              (if e.eku = some false then none
               else some { subject, keyAlg, keyUnused, keyBits, basicCa := none, keyUsage := none, eku := e.eku,
                           ekuContent := e.ekuContent, sia := none, tbs := raw, signature })
            else
              match e.basicCa, e.keyUsage, e.sia with
              | some bc, some ku, some sia =>
                some { subject, keyAlg, keyUnused, keyBits, basicCa := some bc, keyUsage := some ku, eku := e.eku,
                       ekuContent := e.ekuContent, sia := some sia, tbs := raw, signature }
              | _, _, _ => none

/-- `BgpsecSignatureAlgorithm::x509_take_from`: SEQUENCE { ecdsa-with-SHA256 } and nothing else -/
def takeEcdsaAlg (b : Bytes) : Option Bytes :=
  match takeCons tagSeq b with
  | none => none
  | some (c, rest) =>
    match takePrim tagOid c with
    | none => none
    | some (o, r) => if o = oidEcdsaWithSha256 ∧ r = [] then some rest else none

/-- `Csr::decode`: SignedData (captured content, algorithm, signature), then the content -/
def decodeCsr (router : Bool) (b : Bytes) : Option CsrD :=
  match takeCons tagSeq b with
  | none => none
  | some (c, _) =>
    if c = [] then none else
    match skipOne c with
    | none => none
    | some r1 =>
      let raw := c.take (c.length - r1.length)
      let r2 : Option Bytes := if router then takeEcdsaAlg r1 else (takeSigAlg r1).map (·.2)
      match r2 with
      | none => none
      | some r2 =>
        match takeBitString r2 with
        | none => none
        | some (_, sig, r3) => if r3 ≠ [] then none else decodeContent router raw sig

end Rpki.CsrDer
