/-
  Trust anchor locators (`src/repository/tal.rs` `Tal::read_named`) and bare public keys
  (`src/crypto/keys.rs` `PublicKey::decode`).
-/
import Rpki.Model.CertDer
import Rpki.Model.Uri
import Rpki.Model.Xml
namespace Rpki.Tal
open Rpki.Der Rpki.CertDer

/-- `data.splitn(2, |ch| ch == b'\n')`: the first line and what follows the line feed; `none` when there is
no line feed (the second `next()` is `None`, reported as `UnexpectedEof`) -/
def splitLine : Bytes → Option (Bytes × Bytes)
  | [] => none
  | c :: rest => if c = 10 then some ([], rest) else (splitLine rest).map fun (l, r) => (c :: l, r)

/-- the comment lines in front -/
def skipComments : Nat → Bytes → Option Bytes
  | 0, b => some b
  | fuel + 1, b =>
    match b with
    | 35 :: _ => (splitLine b).bind fun (_, r) => skipComments fuel r
    | _ => some b

inductive TalUri
  | rsync (b : Bytes)
  | https (b : Bytes)
deriving Repr, DecidableEq

/-- `TalUri::from_bytes`: an rsync URI when it parses as one, else an HTTPS URI -/
def talUri (line : Bytes) : Option TalUri :=
  match Uri.Rsync.fromBytes line with
  | .ok _ => some (.rsync line)
  | .error _ =>
    match Uri.Https.fromBytes line with
    | .ok _ => some (.https line)
    | .error _ => none

def stripCr (line : Bytes) : Bytes := if line.getLast? = some 13 then line.dropLast else line

/-- the URI lines up to the first empty line; every line needs its line feed -/
def takeUris : Nat → Bytes → List TalUri → Option (List TalUri × Bytes)
  | 0, _, _ => none
  | fuel + 1, b, acc =>
    match splitLine b with
    | none => none
    | some (line, rest) =>
      let line := stripCr line
      if line = [] then some (acc.reverse, rest)
      else match talUri line with
        | none => none
        | some u => takeUris fuel rest (u :: acc)

/-- `PublicKey::decode`: from an unbounded source, what follows the key is not looked at -/
def decodeKey (b : Bytes) : Option (KeyAlg × Nat × Bytes) :=
  (takePublicKey b).map fun (alg, unused, bits, _) => (alg, unused, bits)

/-- `Tal::read_named` -/
def decodeTal (b : Bytes) : Option (List TalUri × KeyAlg × Nat × Bytes) :=
  match skipComments b.length b with
  | none => none
  | some b1 =>
    match takeUris (b1.length + 1) b1 [] with
    | none => none
    | some (uris, rest) =>
      match Xml.xmlB64Decode rest with
      | none => none
      | some key => (decodeKey key).map fun k => (uris, k)

/-- `Tal::prefer_https`: a stable sort that puts the HTTPS URIs first -/
def preferHttps (uris : List TalUri) : List TalUri :=
  uris.filter (fun u => match u with | .https _ => true | .rsync _ => false) ++
  uris.filter (fun u => match u with | .https _ => false | .rsync _ => true)

end Rpki.Tal
