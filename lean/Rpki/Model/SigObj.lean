/-
  RPKI signed objects (`src/repository/sigobj.rs`, `roa.rs`, `aspa.rs`): the signed-attribute
  parser, `SignedAttrs::encode_verify`, `SignedObject::validate_at` = inspect + verify +
  `validate_ee_at`, and the ROA / ASPA coverage checks.
-/
import Rpki.Model.Der
import Rpki.Model.Skip
import Rpki.Model.Cert
import Rpki.Gen.Consts
namespace Rpki.SigObj
open Rpki.Der Rpki.Chain

/-- `SignedAttrs::encode_verify`: the octets the signature is checked over; `none` = the `panic!`.
`encodeVerifyDerLength` (read from the source) tells whether the long form is written as DER
(`81 len` / `82 hi lo`) or as the original code did (`02 hi lo`). -/
def encodeVerify (attrs : Bytes) : Option Bytes :=
  let len := attrs.length
  if len < Rpki.Consts.encodeVerifyShort then some (0x31 :: len :: attrs)
  else if Rpki.Consts.encodeVerifyDerLength then
    if len < Rpki.Consts.encodeVerifyMid then some (0x31 :: 0x81 :: len % 256 :: attrs)
    else if len < Rpki.Consts.encodeVerifyMax then some (0x31 :: 0x82 :: len / 256 % 256 :: len % 256 :: attrs)
    else none
  else if len < 0x10000 then some (0x31 :: 2 :: len / 256 :: len % 256 :: attrs)
  else none

def oidContentType : Bytes := [42, 134, 72, 134, 247, 13, 1, 9, 3]
def oidMessageDigest : Bytes := [42, 134, 72, 134, 247, 13, 1, 9, 4]
def oidSigningTime : Bytes := [42, 134, 72, 134, 247, 13, 1, 9, 5]

/-- bcder `Oid::check_content` (non-empty, last octet ends a sub-identifier) -/
def oidOk (c : Bytes) : Bool := match c.getLast? with | some l => l < 128 | none => false

structure Parsed where
  ct : Option Bytes := none
  md : Option Bytes := none
  st : Option X509.Civil := none
deriving Repr, DecidableEq

/-- `cons.take_set(|cons| <one primitive with tag>)` followed by the end of the attribute -/
def takeSetOfOne (tag : Nat) (r : Bytes) : Option Bytes :=
  match takeCons tagSet r with
  | none => none
  | some (c, r') =>
    if r' ≠ [] then none
    else match takePrim tag c with
      | none => none
      | some (v, rr) => if rr = [] then some v else none

def takeSetOfTime (r : Bytes) : Option X509.Civil :=
  match takeCons tagSet r with
  | none => none
  | some (c, r') =>
    if r' ≠ [] then none
    else match takeOptPrim tagUtcTime c with
      | .ok v rr => if rr = [] then X509.decodeTime .utc v else none
      | .bad => none
      | .absent => match takeOptPrim tagGenTime c with
        | .ok v rr => if rr = [] then X509.decodeTime .generalized v else none
        | _ => none

/-- the closure run on the content of one Attribute SEQUENCE in `take_from_with_mode` -/
def parseAttr (strict : Bool) (p : Parsed) (body : Bytes) : Option Parsed :=
  match takePrim tagOid body with
  | none => none
  | some (oid, r) =>
    if !oidOk oid then none
    else if oid = oidContentType then
      if p.ct.isSome then none
      else match takeSetOfOne tagOid r with
        | some v => if oidOk v then some { p with ct := some v } else none
        | none => none
    else if oid = oidMessageDigest then
      if p.md.isSome then none
      else match takeSetOfOne tagOctetString r with
        | some v => some { p with md := some v }
        | none => none
    else if oid = oidSigningTime then
      if p.st.isSome then none
      else match takeSetOfTime r with
        | some t => some { p with st := some t }
        | none => none
    else if !strict then (if CertDer.skipAll r.length r then some p else none)     -- `skip_all`: the rest must be well-formed values
    else none

/-- the `while let Some(()) = cons.take_opt_sequence(..)` loop; the `[0]` wrapper must be used up -/
def parseLoop (strict : Bool) : Nat → Bytes → Parsed → Option Parsed
  | 0, b, p => if b = [] then some p else none
  | fuel + 1, b, p =>
    match takeOptCons tagSeq b with
    | .absent => if b = [] then some p else none
    | .bad => none
    | .ok body rest =>
      match parseAttr strict p body with
      | none => none
      | some p' => parseLoop strict fuel rest p'

/-- `SignedAttrs::take_from_with_mode` on the content octets of the `[0]` value:
content type, message digest, signing time -/
def parseAttrs (strict : Bool) (attrs : Bytes) : Option (Bytes × Bytes × X509.Civil) :=
  match parseLoop strict attrs.length attrs {} with
  | none => none
  | some p =>
    if attrs.length > 0xFFFF then none
    else match p.md, p.ct, p.st with
      | some md, some ct, some st => some (ct, md, st)
      | _, _, _ => none

structure Obj where
  /-- content octets of the signedAttrs `[0]` value as they appear in the object -/
  attrs : Bytes
  /-- eContentType (content octets of the OID) -/
  contentType : Bytes
  content : Bytes
  sid : Bytes
  /-- the signature value was produced with the private key of the embedded EE certificate over
  `sigInput` and nothing was altered afterwards -/
  sigKeyOk : Bool
  sigInput : Bytes
  ee : Cert.Facts
deriving Repr

/-- does the signature verify over `encode_verify()` -/
def sigVerifies (o : Obj) : Bool :=
  match encodeVerify o.attrs with
  | some msg => o.sigKeyOk && o.sigInput == msg
  | none => false

/-- decoding-time checks of `SignedObject::take_from` that involve the attributes -/
def decodeOk (strict : Bool) (o : Obj) : Option (Bytes × X509.Civil) :=
  match parseAttrs strict o.attrs with
  | none => none
  | some (ct, md, st) => if ct ≠ o.contentType then none else some (md, st)

/-- `SignedObject::validate_at`; `digest` is SHA-256 -/
def validateAt (digest : Bytes → Bytes) (o : Obj) (issuer : Cert.RC) (now : Int) : Option Cert.RC :=
  match decodeOk true o with
  | none => none
  | some (md, _) =>
    if o.sid ≠ o.ee.ski then none                       -- inspect
    else if digest o.content ≠ md then none             -- verify: digest
    else if !sigVerifies o then none                    -- verify: signature
    else Cert.validateEe o.ee issuer now

/-- one ROA address: family is given by the list it is in; `lo`/`hi` the covered range -/
structure RoaAddr where
  lo : Nat
  hi : Nat
deriving Repr, DecidableEq

/-- `RouteOriginAttestation::verify` -/
def roaVerify (v4 v6 : List RoaAddr) (cert : Cert.RC) : Bool :=
  (v4.isEmpty || (!cert.v4.isEmpty && v4.all fun a => containsBlock cert.v4 ⟨a.lo, a.hi⟩)) &&
  (v6.isEmpty || (!cert.v6.isEmpty && v6.all fun a => containsBlock cert.v6 ⟨a.lo, a.hi⟩))

/-- `Roa::process` -/
def roaProcess (digest : Bytes → Bytes) (o : Obj) (v4 v6 : List RoaAddr) (issuer : Cert.RC) (now : Int)
    (crlOk : Bool) : Bool :=
  match validateAt digest o issuer now with
  | none => false
  | some cert => crlOk && roaVerify v4 v6 cert

/-- `AsProviderAttestation::verify` -/
def aspaVerify (customer : Nat) (ee : Cert.Facts) (cert : Cert.RC) : Bool :=
  containsItem cert.asn customer && ee.asn != .inherit &&
  !(Cert.isPresent ee.v4 || Cert.isPresent ee.v6)

/-- `Aspa::process` -/
def aspaProcess (digest : Bytes → Bytes) (o : Obj) (customer : Nat) (issuer : Cert.RC) (now : Int)
    (crlOk : Bool) : Bool :=
  match validateAt digest o issuer now with
  | none => false
  | some cert => crlOk && aspaVerify customer o.ee cert

end Rpki.SigObj
