/-
  RFC 8183 out-of-band setup messages (`src/ca/idexchange.rs`): `ChildRequest`, `ParentResponse`,
  `PublisherRequest`, `RepositoryResponse` as values, the document `write_xml` writes for each
  (`XmlDoc.writeDoc (toTree m)`) and a reader of such trees.  Element and attribute names, the
  namespace and the version are those of RFC 8183 section 5; attributes are in the order of the
  RFC's examples, optional ones (`rrdp_notification_uri`, `tag`) last and only when present.
-/
import Rpki.Model.PubMsg
namespace Rpki.IdxMsg
open Rpki.Xml Rpki.XmlDoc
open Rpki.PubMsg (s lookup)

def ns : Bytes := s "http://www.hactrn.net/uris/rpki/rpki-setup/"
def version : Bytes := s "1"

inductive Msg where
  | childRequest (handle : Bytes) (tag : Option Bytes) (cert : Bytes)
  | parentResponse (parent child serviceUri : Bytes) (tag : Option Bytes) (cert : Bytes)
  | publisherRequest (handle : Bytes) (tag : Option Bytes) (cert : Bytes)
  | repositoryResponse (handle serviceUri siaBase : Bytes) (notify tag : Option Bytes) (cert : Bytes)
deriving Repr, DecidableEq

def optAttr (name : String) : Option Bytes → List (Bytes × Bytes)
  | none => []
  | some v => [(s name, escapeAttr v)]

def ta (name : String) (cert : Bytes) : Option Nodes :=
  some (.cons (.elem (s name) [] (some (.cons (.text (b64Encode cert)) .nil))) .nil)

def head : List (Bytes × Bytes) := [(s "xmlns", ns), (s "version", version)]

def toTree : Msg → Node
  | .childRequest h t c =>
    .elem (s "child_request") (head ++ [(s "child_handle", escapeAttr h)] ++ optAttr "tag" t) (ta "child_bpki_ta" c)
  | .parentResponse p ch u t c =>
    .elem (s "parent_response")
      (head ++ [(s "parent_handle", escapeAttr p), (s "child_handle", escapeAttr ch), (s "service_uri", escapeAttr u)] ++ optAttr "tag" t)
      (ta "parent_bpki_ta" c)
  | .publisherRequest h t c =>
    .elem (s "publisher_request") (head ++ [(s "publisher_handle", escapeAttr h)] ++ optAttr "tag" t) (ta "publisher_bpki_ta" c)
  | .repositoryResponse h u b n t c =>
    .elem (s "repository_response")
      (head ++ [(s "publisher_handle", escapeAttr h), (s "service_uri", escapeAttr u), (s "sia_base", escapeAttr b)] ++
        optAttr "rrdp_notification_uri" n ++ optAttr "tag" t)
      (ta "repository_bpki_ta" c)

def write (m : Msg) : Bytes := writeDoc (toTree m)

/-! ### reading -/

def attr (name : String) (attrs : List (Bytes × Bytes)) : Option Bytes := (lookup (s name) attrs).bind unescapeAll

def optAttrRead (name : String) (attrs : List (Bytes × Bytes)) : Option (Option Bytes) :=
  match lookup (s name) attrs with
  | none => some none
  | some v => (unescapeAll v).map some

def readTa (name : String) : Option Nodes → Option Bytes
  | some (.cons (.elem n [] (some (.cons (.text t) .nil))) .nil) => if n = s name then xmlB64Decode t else none
  | some (.cons (.elem n [] (some .nil)) .nil) => if n = s name then some [] else none
  | _ => none

def ofTree : Node → Option Msg
  | .elem name attrs body =>
    if lookup (s "xmlns") attrs ≠ some ns ∨ lookup (s "version") attrs ≠ some version then none
    else if name = s "child_request" then
      match attr "child_handle" attrs, optAttrRead "tag" attrs, readTa "child_bpki_ta" body with
      | some h, some t, some c => some (.childRequest h t c)
      | _, _, _ => none
    else if name = s "parent_response" then
      match attr "parent_handle" attrs, attr "child_handle" attrs, attr "service_uri" attrs, optAttrRead "tag" attrs,
            readTa "parent_bpki_ta" body with
      | some p, some ch, some u, some t, some c => some (.parentResponse p ch u t c)
      | _, _, _, _, _ => none
    else if name = s "publisher_request" then
      match attr "publisher_handle" attrs, optAttrRead "tag" attrs, readTa "publisher_bpki_ta" body with
      | some h, some t, some c => some (.publisherRequest h t c)
      | _, _, _ => none
    else if name = s "repository_response" then
      match attr "publisher_handle" attrs, attr "service_uri" attrs, attr "sia_base" attrs,
            optAttrRead "rrdp_notification_uri" attrs, optAttrRead "tag" attrs, readTa "repository_bpki_ta" body with
      | some h, some u, some b, some n, some t, some c => some (.repositoryResponse h u b n t c)
      | _, _, _, _, _, _ => none
    else none
  | .text _ => none

def read (doc : Bytes) : Option Msg := (parseDoc doc).bind ofTree

end Rpki.IdxMsg
