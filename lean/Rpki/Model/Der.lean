/-
  DER tag/length/value layer as the repository's decoders see it through bcder in `Mode::Der`
  (single-octet tags only: every tag the RPKI profiles use is below 31).

  `readLen` follows bcder `Length::take_from` with `mode = Der` literally, including its
  (slightly weaker than X.690) minimality rule; the indefinite form is an error everywhere in
  DER mode.  `encLen` follows `Length::write_encoded`.
-/
namespace Rpki.Der

abbrev Bytes := List Nat

def tagSeq : Nat := 0x30
def tagSet : Nat := 0x31
def tagInt : Nat := 0x02
def tagBitString : Nat := 0x03
def tagOctetString : Nat := 0x04
def tagNull : Nat := 0x05
def tagOid : Nat := 0x06
def tagIa5 : Nat := 0x16
def tagUtcTime : Nat := 0x17
def tagGenTime : Nat := 0x18
def tagBool : Nat := 0x01

/-- `Length::take_from` in DER mode -/
def readLen : Bytes → Option (Nat × Bytes)
  | [] => none
  | n :: r =>
    if n < 128 then some (n, r)
    else if n = 0x81 then
      match r with
      | a :: r' => if a > 127 then some (a, r') else none
      | _ => none
    else if n = 0x82 then
      match r with
      | a :: b :: r' => let l := a * 256 + b; if l > 255 then some (l, r') else none
      | _ => none
    else if n = 0x83 then
      match r with
      | a :: b :: c :: r' =>
        let l := a * 65536 + b * 256 + c; if l > 0xFFFF then some (l, r') else none
      | _ => none
    else if n = 0x84 then
      match r with
      | a :: b :: c :: d :: r' =>
        let l := a * 16777216 + b * 65536 + c * 256 + d
        if l > 0xFFFFFF then some (l, r') else none
      | _ => none
    else none

/-- `Length::write_encoded` (definite) -/
def encLen (n : Nat) : Bytes :=
  if n < 0x80 then [n]
  else if n < 0x100 then [0x81, n]
  else if n < 0x10000 then [0x82, n / 256, n % 256]
  else if n < 0x1000000 then [0x83, n / 65536, n / 256 % 256, n % 256]
  else [0x84, n / 16777216, n / 65536 % 256, n / 256 % 256, n % 256]

def tlv (tag : Nat) (content : Bytes) : Bytes := tag :: encLen content.length ++ content

/-- one value: the identifier octet, its content octets and what follows; `none` when the
identifier is a multi-octet tag, the length is not acceptable or the content is cut short -/
def readTlv : Bytes → Option (Nat × Bytes × Bytes)
  | [] => none
  | t :: r =>
    if t % 32 = 31 then none
    else match readLen r with
      | none => none
      | some (l, r') => if r'.length < l then none else some (t, r'.take l, r'.drop l)

/-- the tag number and class with the constructed bit masked out (bcder compares tags this way) -/
def tagNoCons (t : Nat) : Nat := if t / 32 % 2 = 1 then t - 32 else t
def isCons (t : Nat) : Bool := t / 32 % 2 = 1

inductive Take (α : Type) where
  | absent                       -- next value has another tag / nothing left
  | bad                          -- malformed
  | ok (v : α) (rest : Bytes)
deriving Repr

/-- `take_opt_constructed_if(tag, …)`: the content octets of the next value if it carries `tag`
(given with the constructed bit set); error when the tag matches but the form is primitive -/
def takeOptCons (tag : Nat) (b : Bytes) : Take Bytes :=
  match b with
  | [] => .absent
  | t :: _ =>
    if t % 32 = 31 then .bad
    else if tagNoCons t ≠ tagNoCons tag then .absent
    else if !isCons t then .bad
    else match readTlv b with
      | none => .bad
      | some (_, c, rest) => .ok c rest

/-- `take_opt_primitive_if` / `take_opt_value_if` with a content reader that rejects the
constructed form (every string and number reader does in DER mode) -/
def takeOptPrim (tag : Nat) (b : Bytes) : Take Bytes :=
  match b with
  | [] => .absent
  | t :: _ =>
    if t % 32 = 31 then .bad
    else if tagNoCons t ≠ tag then .absent
    else if isCons t then .bad
    else match readTlv b with
      | none => .bad
      | some (_, c, rest) => .ok c rest

/-- mandatory variants: absence is an error -/
def takeCons (tag : Nat) (b : Bytes) : Option (Bytes × Bytes) :=
  match takeOptCons tag b with
  | .ok c r => some (c, r)
  | _ => none

def takePrim (tag : Nat) (b : Bytes) : Option (Bytes × Bytes) :=
  match takeOptPrim tag b with
  | .ok c r => some (c, r)
  | _ => none

/-- all octets are bytes -/
def AllBytes (b : Bytes) : Prop := ∀ x ∈ b, x < 256

end Rpki.Der

namespace Rpki.Der

/-- read a captured octet string as a sequence of values until it is used up (what the iterators
over captured sub-encodings do); `none` when a value is malformed -/
def readAll : Nat → Bytes → Option (List (Nat × Bytes))
  | 0, b => if b = [] then some [] else none
  | fuel + 1, b =>
    if b = [] then some []
    else match readTlv b with
      | none => none
      | some (t, c, rest) => (readAll fuel rest).map ((t, c) :: ·)

/-- the concatenated encodings of a list of values (the *content* of a SEQUENCE OF) -/
def encodeAll (items : List (Nat × Bytes)) : Bytes := (items.map fun (t, c) => tlv t c).flatten

end Rpki.Der

namespace Rpki.Der

/-- the shape shared by the capturing decoders (`RoaIpAddresses::take_from`,
`ProviderAsSet::take_from`, `RevokedCertificates::take_from`): a counting pass that calls the item
reader `take` and applies an extra acceptance check to every item … -/
def capturePass {α : Type} (take : Bytes → Take α) (check : α → Bool) : Nat → Bytes → Nat → Option Nat
  | 0, b, n => if b = [] then some n else none
  | fuel + 1, b, n =>
    match take b with
    | .absent => if b = [] then some n else none
    | .bad => none
    | .ok a rest => if check a then capturePass take check fuel rest (n + 1) else none

/-- … and the later iteration over the captured octets with the *same* item reader, whose
failure is `unwrap()`ed (`none` = panic) -/
def iteratePass {α : Type} (take : Bytes → Take α) : Nat → Bytes → Option (List α)
  | 0, _ => some []
  | fuel + 1, b =>
    match take b with
    | .absent => some []
    | .bad => none
    | .ok a rest => (iteratePass take fuel rest).map (a :: ·)

end Rpki.Der
