/-
Model of the RTR wire format (src/rtr/pdu.rs): the packed big-endian PDU
structs, `Payload::read`, the `concrete!` readers, `Error::skip_payload`,
`Payload::new_if_supported` / `to_payload`.

A stream is a finite list of bytes followed by end-of-file: `readExact n`
(tokio `read_exact`) fails with `eof` when fewer than `n` bytes remain.
-/
import Rpki.Gen.Consts
import Rpki.Model.Prefix
namespace Rpki.Rtr
open Rpki.Consts

abbrev Bytes := List Nat

/-- big-endian rendering of `n` in `w` bytes -/
def be : Nat → Nat → Bytes
  | 0, _ => []
  | w + 1, n => (n / 256 ^ w % 256) :: be w n

def unbe : Bytes → Nat
  | [] => 0
  | b :: bs => b * 256 ^ bs.length + unbe bs

structure Hdr where
  version : Nat
  pdu : Nat
  session : Nat
  length : Nat
deriving DecidableEq, Repr

def encHdr (h : Hdr) : Bytes := [h.version, h.pdu] ++ be 2 h.session ++ be 4 h.length

def decHdr (b : Bytes) : Hdr :=
  ⟨b.getD 0 0, b.getD 1 0, unbe ((b.drop 2).take 2), unbe ((b.drop 4).take 4)⟩

inductive RErr | eof | invalid
deriving DecidableEq, Repr

/-- tokio `read_exact` on a finite stream -/
def readExact (n : Nat) (s : Bytes) : Except RErr (Bytes × Bytes) :=
  if s.length < n then .error .eof else .ok (s.take n, s.drop n)

/-- `Header::read` -/
def readHdr (s : Bytes) : Except RErr (Hdr × Bytes) :=
  match readExact sizeHeader s with
  | .error e => .error e
  | .ok (b, rest) => .ok (decHdr b, rest)

/-! ### payload PDUs -/

inductive Item
  | v4 (h : Hdr) (flags plen mlen zero pfx asn : Nat)
  | v6 (h : Hdr) (flags plen mlen zero pfx asn : Nat)
  | key (h : Hdr) (ski : Bytes) (asn : Nat) (info : Bytes)
  | aspa (h : Hdr) (customer : Nat) (providers : Bytes)
  | eod0 (h : Hdr) (serial : Nat)
  | eod1 (h : Hdr) (serial refresh retry expire : Nat)
deriving DecidableEq, Repr

def Item.hdr : Item → Hdr
  | .v4 h .. => h | .v6 h .. => h | .key h .. => h | .aspa h .. => h | .eod0 h .. => h | .eod1 h .. => h

/-- the bytes `write` puts on the wire -/
def Item.encode : Item → Bytes
  | .v4 h f pl ml z p a => encHdr h ++ [f, pl, ml, z] ++ be 4 p ++ be 4 a
  | .v6 h f pl ml z p a => encHdr h ++ [f, pl, ml, z] ++ be 16 p ++ be 4 a
  | .key h ski a info => encHdr h ++ ski ++ be 4 a ++ info
  | .aspa h c ps => encHdr h ++ be 4 c ++ ps
  | .eod0 h s => encHdr h ++ be 4 s
  | .eod1 h s r1 r2 e => encHdr h ++ be 4 s ++ be 4 r1 ++ be 4 r2 ++ be 4 e

/-- the fixed-size `read_payload` of the `concrete!` macro: length must equal the struct size -/
def readBody (h : Hdr) (size : Nat) (s : Bytes) : Except RErr (Bytes × Bytes) :=
  if h.length ≠ size then .error .invalid else readExact (size - sizeHeader) s

def readV4 (h : Hdr) (r : Bytes) : Except RErr (Item × Bytes) :=
  match readBody h sizeIpv4Prefix r with
  | .error e => .error e
  | .ok (b, rest) => .ok (.v4 h (b.getD 0 0) (b.getD 1 0) (b.getD 2 0) (b.getD 3 0)
      (unbe ((b.drop 4).take 4)) (unbe ((b.drop 8).take 4)), rest)

def readV6 (h : Hdr) (r : Bytes) : Except RErr (Item × Bytes) :=
  match readBody h sizeIpv6Prefix r with
  | .error e => .error e
  | .ok (b, rest) => .ok (.v6 h (b.getD 0 0) (b.getD 1 0) (b.getD 2 0) (b.getD 3 0)
      (unbe ((b.drop 4).take 16)) (unbe ((b.drop 20).take 4)), rest)

/-- `RouterKey::read_payload` -/
def readKey (h : Hdr) (r : Bytes) : Except RErr (Item × Bytes) :=
  if h.length < sizeRouterKeyFixed then .error .invalid else
  match readExact (sizeRouterKeyFixed - sizeHeader) r with
  | .error e => .error e
  | .ok (b, r2) =>
    match readExact (h.length - sizeRouterKeyFixed) r2 with
    | .error e => .error e
    | .ok (info, rest) => .ok (.key h (b.take 20) (unbe ((b.drop 20).take 4)) info, rest)

/-- `Aspa::read_payload` -/
def readAspa (h : Hdr) (r : Bytes) : Except RErr (Item × Bytes) :=
  if h.length < sizeAspaFixed then .error .invalid
  else if (h.length - sizeAspaFixed) % 4 ≠ 0 then .error .invalid else
  match readExact (sizeAspaFixed - sizeHeader) r with
  | .error e => .error e
  | .ok (b, r2) =>
    match readExact (h.length - sizeAspaFixed) r2 with
    | .error e => .error e
    | .ok (ps, rest) => .ok (.aspa h (unbe b) ps, rest)

/-- `EndOfData::read_payload` -/
def readEod (h : Hdr) (r : Bytes) : Except RErr (Item × Bytes) :=
  if h.version = 0 then
    match readBody h sizeEndOfDataV0 r with
    | .error e => .error e
    | .ok (b, rest) => .ok (.eod0 h (unbe b), rest)
  else if h.version = 1 ∨ h.version = 2 then
    match readBody h sizeEndOfDataV1 r with
    | .error e => .error e
    | .ok (b, rest) => .ok (.eod1 h (unbe (b.take 4)) (unbe ((b.drop 4).take 4))
        (unbe ((b.drop 8).take 4)) (unbe ((b.drop 12).take 4)), rest)
  else .error .invalid

/-- the dispatch of `Payload::read` on the PDU type -/
def readItem (h : Hdr) (r : Bytes) : Except RErr (Item × Bytes) :=
  if h.pdu = pduIpv4Prefix then readV4 h r
  else if h.pdu = pduIpv6Prefix then readV6 h r
  else if h.pdu = pduRouterKey then readKey h r
  else if h.pdu = pduAspa then readAspa h r
  else if h.pdu = pduEndOfData then readEod h r
  else .error .invalid

/-- `Payload::read`: `ok (item, rest)`; an End of Data PDU is returned as an item too -/
def readPayload (s : Bytes) : Except RErr (Item × Bytes) :=
  match readHdr s with
  | .error e => .error e
  | .ok (h, r) => readItem h r

/-! ### control PDUs (the `concrete!` macro's `read`) -/

/-- `X::read`: header, type check, length check, rest of the struct -/
def readFixed (pdu size : Nat) (s : Bytes) : Except RErr (Hdr × Bytes × Bytes) :=
  match readHdr s with
  | .error e => .error e
  | .ok (h, r) =>
    if h.pdu ≠ pdu then .error .invalid
    else if h.length ≠ size then .error .invalid
    else match readExact (size - sizeHeader) r with
      | .error e => .error e
      | .ok (b, rest) => .ok (h, b, rest)

/-- `X::try_read`: as `read`, except that the header of an Error PDU is handed back (nothing after it is read) -/
def tryReadFixed (pdu size : Nat) (s : Bytes) : Except RErr (Sum (Hdr × Bytes) Hdr × Bytes) :=
  match readHdr s with
  | .error e => .error e
  | .ok (h, r) =>
    if h.pdu = pduError then .ok (.inr h, r)
    else if h.pdu ≠ pdu then .error .invalid
    else if h.length ≠ size then .error .invalid
    else match readExact (size - sizeHeader) r with
      | .error e => .error e
      | .ok (b, rest) => .ok (.inl (h, b), rest)

/-- `Error::new` -/
def encodeError (version code : Nat) (pdu text : Bytes) : Bytes :=
  encHdr ⟨version, pduError, code, sizeHeader + 8 + pdu.length + text.length⟩
    ++ be 4 pdu.length ++ pdu ++ be 4 text.length ++ text

/-! ### `Error::skip_payload` -/

/-- one raw `read`: at most `want` bytes, at most the next chunk, `0` only at end of file -/
def rawRead (want chunk : Nat) (s : Bytes) : Nat := min want (min (max chunk 1) s.length)

/-- the loop; `none` = did not finish within `fuel` iterations.
`skipEofChecked` (read from the source) says whether a zero-length read ends the loop with an error. -/
def skipLoop : Nat → Nat → Bytes → List Nat → Option (Except RErr Bytes)
  | 0, _, _, _ => none
  | fuel + 1, remaining, s, sched =>
    if remaining = 0 then some (.ok s)
    else
      let want := min remaining skipBufSize
      let n := rawRead want (sched.headD skipBufSize) s
      if n = 0 ∧ skipEofChecked then some (.error .eof)
      else skipLoop fuel (remaining - n) (s.drop n) sched.tail

/-- `Error::skip_payload` -/
def skipPayload (fuel : Nat) (h : Hdr) (s : Bytes) (sched : List Nat) : Option (Except RErr Bytes) :=
  if h.length < sizeHeader then some (.error .invalid)
  else skipLoop fuel (h.length - sizeHeader) s sched

/-! ### payload items <-> PDUs -/

inductive Action | announce | withdraw
deriving DecidableEq, Repr

/-- `Action::from_flags` -/
def Action.fromFlags (f : Nat) : Action := if f % 2 = 1 then .announce else .withdraw

inductive PayloadItem
  | origin (isV4 : Bool) (addr plen : Nat) (ml : Option Nat) (asn : Nat)
  | routerKey (ski : Bytes) (asn : Nat) (info : Bytes)
  | aspa (customer : Nat) (providers : Bytes)
deriving DecidableEq, Repr

/-- lowest protocol version that carries the item -/
def PayloadItem.minVersion : PayloadItem → Nat
  | .origin .. => 0 | .routerKey .. => 1 | .aspa .. => 2

/-- `Payload::new` -/
def newPdu (version flags : Nat) : PayloadItem → Item
  | .origin true addr plen ml asn =>
    .v4 ⟨version, pduIpv4Prefix, 0, sizeIpv4Prefix⟩ flags plen (ml.getD plen) 0 addr asn
  | .origin false addr plen ml asn =>
    .v6 ⟨version, pduIpv6Prefix, 0, sizeIpv6Prefix⟩ flags plen (ml.getD plen) 0 addr asn
  | .routerKey ski asn info =>
    .key ⟨version, pduRouterKey, flags * 256, sizeRouterKeyFixed + info.length⟩ ski asn info
  | .aspa c ps =>
    .aspa ⟨version, pduAspa, flags * 256, sizeAspaFixed + ps.length⟩ c ps

/-- `Payload::new_if_supported` -/
def newIfSupported (version flags : Nat) (p : PayloadItem) : Option Item :=
  if p.minVersion > version then none else some (newPdu version flags p)

/-- `Payload::to_payload`: `none` = the Error PDU branch (invalid prefix / max length) -/
def toPayload : Item → Option (Action × PayloadItem)
  | .v4 _ f plen mlen _ pfx asn =>
    match Prefix.newV4Relaxed pfx plen with
    | .error _ => none
    | .ok p => match Prefix.mlpNew p (some mlen) with
      | .error _ => none
      | .ok m => some (Action.fromFlags f, .origin true (m.pfx.bits / 2 ^ 96) plen m.ml asn)
  | .v6 _ f plen mlen _ pfx asn =>
    match Prefix.newV6Relaxed pfx plen with
    | .error _ => none
    | .ok p => match Prefix.mlpNew p (some mlen) with
      | .error _ => none
      | .ok m => some (Action.fromFlags f, .origin false m.pfx.bits plen m.ml asn)
  | .key h ski asn info => some (Action.fromFlags (h.session / 256), .routerKey ski asn info)
  | .aspa h c ps =>
    let a := Action.fromFlags (h.session / 256)
    some (a, .aspa c (if a = .withdraw then [] else ps))
  | .eod0 .. => none
  | .eod1 .. => none

end Rpki.Rtr
