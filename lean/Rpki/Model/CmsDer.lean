/-
  RPKI signed objects on the wire in strict (DER) mode (`src/repository/sigobj.rs`
  `SignedObject::take_from`, `src/crypto/digest.rs`, `src/crypto/signature.rs`
  `cms_take_from`, `roa.rs` / `aspa.rs` / `manifest.rs` `decode`): ContentInfo, SignedData,
  encapContentInfo, the embedded certificate (`CertDer.takeCert`), one SignerInfo with its signed
  attributes (`SigObj.parseAttrs`).  Relaxed (BER) decoding is not modelled here.
-/
import Rpki.Model.CertDer
import Rpki.Model.SigObj
import Rpki.Model.Roa
import Rpki.Model.Manifest
namespace Rpki.CmsDer
open Rpki.Der Rpki.CertDer Rpki.Consts

/-- `DigestAlgorithm::take_from`: SEQUENCE { sha256, NULL OPTIONAL } -/
def takeDigestAlg (b : Bytes) : Option Bytes :=
  match takeCons tagSeq b with
  | none => none
  | some (c, rest) =>
    match takePrim tagOid c with
    | none => none
    | some (o, r) =>
      if o ≠ oidSha256 then none
      else match takeOptNull r with
        | some (_, r2) => if r2 = [] then some rest else none
        | none => none

/-- `RpkiSignatureAlgorithm::cms_take_from` -/
def takeCmsSigAlg (b : Bytes) : Option (Bool × Bytes) :=
  match takeCons tagSeq b with
  | none => none
  | some (c, rest) =>
    match takeOid c with
    | none => none
    | some (o, r) =>
      if o ≠ oidRsaEncryption ∧ o ≠ oidSha256WithRsa then none
      else match takeOptNull r with
        | some (p, r2) => if r2 = [] then some (p, rest) else none
        | none => none

/-- `skip_u8_if(n)`: an INTEGER whose content is the single octet `n` -/
def skipU8 (n : Nat) (b : Bytes) : Option Bytes :=
  match takePrim tagInt b with
  | some (c, r) => if c = [n] then some r else none
  | none => none

structure SigObjD where
  contentType : Bytes
  content : Bytes
  cert : Decoded
  sid : Bytes
  /-- content octets of the signedAttrs `[0]` value -/
  attrs : Bytes
  messageDigest : Bytes
  signingTime : X509.Civil
  signature : Bytes
deriving Repr

/-- the closure on the content of the SignerInfo SEQUENCE -/
def signerInfo (contentType : Bytes) (c : Bytes) : Option (Bytes × Bytes × Bytes × X509.Civil × Bytes) :=
  match skipU8 3 c with
  | none => none
  | some r0 =>
    match takePrim 0x80 r0 with
    | none => none
    | some (sid, r1) =>
      if !keyIdOk sid then none else
      match takeDigestAlg r1 with
      | none => none
      | some r2 =>
        match takeCons 0xA0 r2 with
        | none => none
        | some (attrs, r3) =>
          match SigObj.parseAttrs true attrs with
          | none => none
          | some (ct, md, st) =>
            if ct ≠ contentType then none else
            match takeCmsSigAlg r3 with
            | none => none
            | some (_, r4) =>
              match takePrim tagOctetString r4 with
              | none => none
              | some (sig, r5) => if r5 ≠ [] then none else some (sid, attrs, md, st, sig)

/-- the closure on the content of the SignedData SEQUENCE -/
def signedData (sd : Bytes) : Option SigObjD :=
  match skipU8 3 sd with
  | none => none
  | some r0 =>
    match takeCons tagSet r0 with
    | none => none
    | some (dc, r1) =>
      match takeDigestAlg dc with
      | none => none
      | some dr =>
        if dr ≠ [] then none else
        match takeCons tagSeq r1 with
        | none => none
        | some (ec, r2) =>
          match takeOid ec with
          | none => none
          | some (contentType, er) =>
            match takeCons 0xA0 er with
            | none => none
            | some (oc, er2) =>
              if er2 ≠ [] then none else
              match takePrim tagOctetString oc with
              | none => none
              | some (content, or2) =>
                if or2 ≠ [] then none else
                match takeCons 0xA0 r2 with
                | none => none
                | some (cc, r3) =>
                  match takeCert cc with
                  | none => none
                  | some (cert, cr) =>
                    if cr ≠ [] then none else
                    match takeCons tagSet r3 with
                    | none => none
                    | some (sis, r4) =>
                      if r4 ≠ [] then none else
                      match takeCons tagSeq sis with
                      | none => none
                      | some (si, sr) =>
                        if sr ≠ [] then none else
                        match signerInfo contentType si with
                        | none => none
                        | some (sid, attrs, md, st, sig) =>
                          some { contentType, content, cert, sid, attrs, messageDigest := md, signingTime := st,
                                 signature := sig }

/-- `SignedObject::decode(source, strict = true)` -/
def decodeSigObj (b : Bytes) : Option SigObjD :=
  match takeCons tagSeq b with
  | none => none
  | some (c, _) =>
    match takePrim tagOid c with
    | none => none
    | some (o, r) =>
      if o ≠ oidSignedData then none else
      match takeCons 0xA0 r with
      | none => none
      | some (c1, r1) =>
        if r1 ≠ [] then none else
        match takeCons tagSeq c1 with
        | none => none
        | some (sd, r2) => if r2 ≠ [] then none else signedData sd

/-- `Roa::decode` / `Aspa::decode` / `Manifest::decode` with `strict = true`: the typed content must
decode as well -/
def decodeTyped (ty : String) (b : Bytes) : Option SigObjD :=
  match decodeSigObj b with
  | none => none
  | some o =>
    if ty = "roa" then
      (if o.contentType = oidCtRoa ∧ (Roa.decodeContent o.content).isSome then some o else none)
    else if ty = "aspa" then
      (if o.contentType = oidCtAspa ∧ (Roa.decodeAspa aspaObjMaxLen o.content).isSome then some o else none)
    else if ty = "mft" then
      (if o.contentType = oidCtManifest ∧ (Manifest.decodeContent o.content).isSome then some o else none)
    else some o

/-- the record `SigObj.validateAt` works on: everything from the octets except the two verdicts of the
signature primitive (the object's signature, made over `sigInput` with the EE key; the EE certificate's
signature under the issuer) -/
def toObj (o : SigObjD) (sigKeyOk : Bool) (sigInput : Bytes) (eeSigOk : Bool) : SigObj.Obj :=
  { attrs := o.attrs, contentType := o.contentType, content := o.content, sid := o.sid,
    sigKeyOk, sigInput, ee := toFacts o.cert false true eeSigOk }

/-- the address ranges `RouteOriginAttestation::verify` checks, read from the eContent octets (IPv4 ranges in 32
bits, IPv6 in 128): what `Roa::process` hands to the coverage check -/
def roaRanges (content : Bytes) : Option (List SigObj.RoaAddr × List SigObj.RoaAddr) :=
  match Roa.decodeContent content with
  | none => none
  | some c =>
    match Roa.iter c.v4, Roa.iter c.v6 with
    | some l4, some l6 =>
      some (l4.map (fun a => ⟨a.addr / 2 ^ 96, IpDer.toMax a.addr a.len / 2 ^ 96⟩),
            l6.map (fun a => ⟨a.addr, IpDer.toMax a.addr a.len⟩))
    | _, _ => none

end Rpki.CmsDer
