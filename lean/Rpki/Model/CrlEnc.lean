/-
  `TbsCertList::encode_ref` (`src/repository/crl.rs`): the to-be-signed octets of a CRL written from its
  fields.  `Proofs/CrlEncLemmas.lean` shows that `CrlDer.decodeTbsCrl` reads them back.
-/
import Rpki.Model.CrlDer
import Rpki.Model.CertEnc
namespace Rpki.CrlEnc
open Rpki.Der Rpki.CertDer Rpki.CrlDer Rpki.CertEnc Rpki.Consts

def akiBody (k : Bytes) : Bytes := extBody oidAuthorityKeyId false (tlv tagSeq (tlv 0x80 k))
def numberBody (n : Bytes) : Bytes := extBody oidCrlNumber false (tlv tagInt (X509.encodeContent n))

/-- `RevokedCertificates::encode_ref`: nothing for an empty list -/
def revokedEnc (cap : Bytes) : Bytes := if cap = [] then [] else tlv tagSeq cap

/-- `TbsCertList::encode_ref` -/
def encodeTbsCrl (d : CrlD) : Bytes :=
  tlv tagSeq (
    tlv tagInt [1] ++
    sigAlgEnc ++
    d.issuer ++
    timeTlv d.thisUpdate ++
    timeTlv d.nextUpdate ++
    revokedEnc d.revoked ++
    tlv 0xA0 (tlv tagSeq (seqs [akiBody d.aki, numberBody d.number])))

/-- `SignedData::encode_ref` around the to-be-signed octets: the CRL as `Crl::to_captured` writes it -/
def encodeCrl (d : CrlD) (signature : Bytes) : Bytes :=
  tlv tagSeq (encodeTbsCrl d ++ sigAlgEnc ++ tlv tagBitString (0 :: signature))

end Rpki.CrlEnc
