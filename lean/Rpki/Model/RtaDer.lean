/-
  Resource tagged attestations on the wire (`src/repository/rta.rs`): `Rta::decode` = `MultiSignedObject::take_from`
  (any number of certificates, CRLs and signer infos) followed by `ResourceTaggedAttestation::take_from` on the
  content.  The `strict` argument of `Rta::decode` is not used by the code: both modes decode in DER mode.
-/
import Rpki.Model.CmsDer
import Rpki.Model.CrlDer
namespace Rpki.RtaDer
open Rpki.Der Rpki.CertDer Rpki.CmsDer Rpki.Chain Rpki.Consts

structure Attestation where
  keys : List Bytes
  v4 : List Blk
  v6 : List Blk
  asn : List Blk
  digest : Bytes
deriving Repr

structure Signer where
  sid : Bytes
  attrs : Bytes
  messageDigest : Bytes
  signingTime : X509.Civil
  signature : Bytes
deriving Repr

structure RtaD where
  content : Bytes
  att : Attestation
  certs : List Decoded
  crls : List CrlDer.CrlD
  signers : List Signer
deriving Repr

/-- `IpBlocks::take_from_with_family`: one SEQUENCE OF IPAddressOrRange and nothing after it -/
def rtaBlocks (W : Nat) (r : Bytes) : Option (List Blk) :=
  match takeCons tagSeq r with
  | none => none
  | some (bc, rr) => if rr ≠ [] then none else (IpDer.blocksLoop W bc.length bc).map (fromIter IpDer.maxAddr)

/-- one `SEQUENCE { addressFamily, SEQUENCE OF IPAddressOrRange }` of the attestation -/
def rtaFamily (s : Option (List Blk) × Option (List Blk)) (c : Bytes) : Option (Option (List Blk) × Option (List Blk)) :=
  match takePrim tagOctetString c with
  | none => none
  | some (af, r) =>
    if af = [0, 1] then (if s.1.isSome then none else (rtaBlocks 32 r).map fun b => (some b, s.2))
    else if af = [0, 2] then (if s.2.isSome then none else (rtaBlocks 128 r).map fun b => (s.1, some b))
    else none

/-- the optional `[0]` AS resources in front of the resources SEQUENCE's content -/
def rtaAsRes (rc : Bytes) : Option (Option (List Blk) × Bytes) :=
  match takeOptCons 0xA0 rc with
  | .bad => none
  | .absent => some (none, rc)
  | .ok ac r1 =>
    match takeCons tagSeq ac with
    | none => none
    | some (bc, ar) => if ar ≠ [] then none else (AsDer.decodeBlocks bc).map fun b => (some b, r1)

/-- the optional `[1]` address resources -/
def rtaIpRes (r1 : Bytes) : Option ((Option (List Blk) × Option (List Blk)) × Bytes) :=
  match takeOptCons 0xA1 r1 with
  | .bad => none
  | .absent => some ((none, none), r1)
  | .ok ic r2 =>
    match takeCons tagSeq ic with
    | none => none
    | some (fc, ir) => if ir ≠ [] then none else (foldCons tagSeq rtaFamily fc.length fc (none, none)).map fun f => (f, r2)

/-- `take_resources_from`: the content of the resources SEQUENCE -/
def takeResources (rc : Bytes) : Option (List Blk × List Blk × List Blk) :=
  match rtaAsRes rc with
  | none => none
  | some (asn, r1) =>
    match rtaIpRes r1 with
    | none => none
    | some (f, r2) =>
      if r2 ≠ [] then none
      else if asn.isNone ∧ f.1.isNone ∧ f.2.isNone then none
      else some (f.1.getD [], f.2.getD [], asn.getD [])

/-- the optional `[0] { INTEGER 0 }` version -/
def rtaVersion (c : Bytes) : Option Bytes :=
  match takeOptCons 0xA0 c with
  | .bad => none
  | .absent => some c
  | .ok vc r => match skipU8 0 vc with | some [] => some r | _ => none

def rtaKeys (kc : Bytes) : Option (List Bytes) :=
  foldPrim tagOctetString (fun (acc : List Bytes) k => if keyIdOk k then some (acc ++ [k]) else none) kc.length kc []

/-- `ResourceTaggedAttestation::take_from` on the content octets (unbounded source) -/
def decodeAttestation (b : Bytes) : Option Attestation :=
  match takeCons tagSeq b with
  | none => none
  | some (c, _) =>
    match rtaVersion c with
    | none => none
    | some r0 =>
      match takeCons tagSet r0 with
      | none => none
      | some (kc, r1) =>
        match rtaKeys kc with
        | none => none
        | some keys =>
          match takeCons tagSeq r1 with
          | none => none
          | some (rc, r2) =>
            match takeResources rc with
            | none => none
            | some (v4, v6, asn) =>
              match takeDigestAlg r2 with
              | none => none
              | some r3 =>
                match takePrim tagOctetString r3 with
                | none => none
                | some (digest, r4) => if r4 ≠ [] then none else some { keys, v4, v6, asn, digest }

def rtaCert (acc : List Decoded) (c : Bytes) : Option (List Decoded) := (certBody c).map fun d => acc ++ [d]
def rtaCrl (acc : List CrlDer.CrlD) (c : Bytes) : Option (List CrlDer.CrlD) := (CrlDer.crlInner c).map fun d => acc ++ [d]

/-- the optional `[1]` CRLs -/
def rtaCrls (r3 : Bytes) : Option (List CrlDer.CrlD × Bytes) :=
  match takeOptCons 0xA1 r3 with
  | .bad => none
  | .absent => some ([], r3)
  | .ok lc r4 => (foldCons tagSeq rtaCrl lc.length lc []).map fun l => (l, r4)

/-- the encapsulated content: the attestation's content type and its octets -/
def rtaEncap (r1 : Bytes) : Option (Bytes × Bytes) :=
  match takeCons tagSeq r1 with
  | none => none
  | some (ec, r2) =>
    match takePrim tagOid ec with
    | none => none
    | some (ct, er) =>
      if ct ≠ oidCtRta then none else
      match takeCons 0xA0 er with
      | none => none
      | some (oc, er2) =>
        if er2 ≠ [] then none else
        match takePrim tagOctetString oc with
        | none => none
        | some (content, or2) => if or2 ≠ [] then none else some (content, r2)

def rtaSigner (acc : List Signer) (c : Bytes) : Option (List Signer) :=
  (signerInfo oidCtRta c).map fun (sid, attrs, md, st, sig) => acc ++ [⟨sid, attrs, md, st, sig⟩]

/-- the content of the SignedData SEQUENCE -/
def rtaSignedData (sd : Bytes) : Option (Bytes × List Decoded × List CrlDer.CrlD × List Signer) :=
  match skipU8 3 sd with
  | none => none
  | some r0 =>
    match takeCons tagSet r0 with
    | none => none
    | some (dc, r1) =>
      match takeDigestAlg dc with
      | none => none
      | some dr =>
        if dr ≠ [] then none else
        match rtaEncap r1 with
        | none => none
        | some (content, r2) =>
          match takeCons 0xA0 r2 with
          | none => none
          | some (cc, r3) =>
            match foldCons tagSeq rtaCert cc.length cc [] with
            | none => none
            | some certs =>
              match rtaCrls r3 with
              | none => none
              | some (crls, r4) =>
                match takeCons tagSet r4 with
                | none => none
                | some (sis, r5) =>
                  if r5 ≠ [] then none else
                  match foldCons tagSeq rtaSigner sis.length sis [] with
                  | none => none
                  | some signers => some (content, certs, crls, signers)

/-- `Rta::decode` (either value of `strict`) -/
def decodeRta (b : Bytes) : Option RtaD :=
  match takeCons tagSeq b with
  | none => none
  | some (c, _) =>
    match takePrim tagOid c with
    | none => none
    | some (o, r) =>
      if o ≠ oidSignedData then none else
      match takeCons 0xA0 r with
      | none => none
      | some (c1, r1) =>
        if r1 ≠ [] then none else
        match takeCons tagSeq c1 with
        | none => none
        | some (sd, r2) =>
          if r2 ≠ [] then none else
          match rtaSignedData sd with
          | none => none
          | some (content, certs, crls, signers) =>
            (decodeAttestation content).map fun att => { content, att, certs, crls, signers }

end Rpki.RtaDer
