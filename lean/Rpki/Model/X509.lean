/-
Model of the time and serial-number parts of `rpki::repository::x509`
(src/repository/x509.rs): `Time::take_from` / `encode_varied`, `Validity`,
`Serial`.

chrono's `ymd_opt` / `and_hms_opt` are represented by `validCivil` (proleptic
Gregorian calendar, seconds 0–59); `u32::from_str` by `rustU32` (optional
leading `+`, then at least one ASCII digit); bcder's `Unsigned` head check by
`decodeSerialContent`.
-/
import Rpki.Gen.Consts
namespace Rpki.X509
open Rpki.Consts

abbrev Bytes := List Nat

/-! ## Time -/

structure Civil where
  y : Nat
  m : Nat
  d : Nat
  h : Nat
  mi : Nat
  s : Nat
deriving DecidableEq, Repr

def isLeap (y : Nat) : Bool := (y % 4 = 0 && y % 100 ≠ 0) || y % 400 = 0

def daysIn (y m : Nat) : Nat :=
  if m = 1 ∨ m = 3 ∨ m = 5 ∨ m = 7 ∨ m = 8 ∨ m = 10 ∨ m = 12 then 31
  else if m = 4 ∨ m = 6 ∨ m = 9 ∨ m = 11 then 30
  else if m = 2 then (if isLeap y then 29 else 28)
  else 0

/-- what `Utc.ymd_opt(y, m, d)` + `and_hms_opt(h, mi, s)` accept -/
def validCivil (c : Civil) : Bool :=
  1 ≤ c.m && c.m ≤ 12 && 1 ≤ c.d && c.d ≤ daysIn c.y c.m && c.h < 24 && c.mi < 60 && c.s < 60

inductive TimeTag | utc | generalized
deriving DecidableEq, Repr

def isDigit (b : Nat) : Bool := 48 ≤ b && b ≤ 57

def digitsVal : Bytes → Nat → Nat
  | [], acc => acc
  | b :: bs, acc => digitsVal bs (acc * 10 + (b - 48))

/-- `u32::from_str` on a short ASCII string: optional `+`, then one or more digits.
`timeDigitsOnly` (read from the source) says whether `read_two_char`/`read_four_char`
insist on ASCII digits before calling it. -/
def rustU32 (s : Bytes) : Option Nat :=
  if timeDigitsOnly then
    (if s ≠ [] ∧ s.all isDigit then some (digitsVal s 0) else none)
  else
    match s with
    | 43 :: rest => if rest ≠ [] ∧ rest.all isDigit then some (digitsVal rest 0) else none
    | _ => if s ≠ [] ∧ s.all isDigit then some (digitsVal s 0) else none

/-- `read_two_char` / `read_four_char`: take `n` bytes (error when short), parse -/
def readChars (n : Nat) (src : Bytes) : Option (Nat × Bytes) :=
  if src.length < n then none
  else match rustU32 (src.take n) with
    | some v => some (v, src.drop n)
    | none => none

/-- the body shared by both tags after the year has been read -/
def readRest (y : Nat) (src : Bytes) : Option Civil :=
  match readChars 2 src with
  | none => none
  | some (m, r1) =>
  match readChars 2 r1 with
  | none => none
  | some (d, r2) =>
  match readChars 2 r2 with
  | none => none
  | some (h, r3) =>
  match readChars 2 r3 with
  | none => none
  | some (mi, r4) =>
  match readChars 2 r4 with
  | none => none
  | some (s, r5) =>
    -- `take_u8()? != b'Z'`, then the primitive must be exhausted
    if r5 = [90] then
      let c : Civil := ⟨y, m, d, h, mi, s⟩
      if validCivil c then some c else none
    else none

/-- `Time::take_from` / `take_opt_from` on the content octets of a primitive with the given tag;
the two functions carry their own copy of the pivot constant -/
def decodeTimeWith (pivot : Nat) (tag : TimeTag) (content : Bytes) : Option Civil :=
  match tag with
  | .utc =>
    match readChars 2 content with
    | none => none
    | some (yy, r) => readRest (if yy ≥ pivot then yy + 1900 else yy + 2000) r
  | .generalized =>
    match readChars 4 content with
    | none => none
    | some (y, r) => readRest y r

def decodeTime := decodeTimeWith utcPivot
def decodeTimeOpt := decodeTimeWith utcPivotOpt

def pad2 (n : Nat) : Bytes := [48 + n / 10 % 10, 48 + n % 10]
def pad4 (n : Nat) : Bytes := [48 + n / 1000 % 10, 48 + n / 100 % 10, 48 + n / 10 % 10, 48 + n % 10]

/-- `Time::encode_varied`: tag and content octets -/
def encodeVaried (c : Civil) : TimeTag × Bytes :=
  let tail := pad2 c.m ++ pad2 c.d ++ pad2 c.h ++ pad2 c.mi ++ pad2 c.s ++ [90]
  if c.y < utcYearMin ∨ c.y > utcYearMax then (.generalized, pad4 c.y ++ tail)
  else (.utc, pad2 (c.y % 100) ++ tail)

/-! ## Validity (instants are integers: seconds on chrono's time line) -/

structure Validity where
  nb : Int
  na : Int
deriving DecidableEq, Repr

/-- `Validity::verify_at`: `none` = ok, else which bound failed -/
inductive VErr | tooNew | tooOld
deriving DecidableEq, Repr

def verifyAt (v : Validity) (now : Int) : Except VErr Unit :=
  if now < v.nb then .error .tooNew
  else if now > v.na then .error .tooOld
  else .ok ()

/-- `Validity::trim` -/
def trim (a b : Validity) : Validity := ⟨max a.nb b.nb, min a.na b.na⟩

/-! ## Serial numbers: 20 octets, big-endian, left padded -/

def toNatBE : Bytes → Nat
  | [] => 0
  | b :: bs => b * 256 ^ bs.length + toNatBE bs

def valLE : Bytes → Nat
  | [] => 0
  | b :: bs => b + 256 * valLE bs

inductive SErr | empty | long
deriving DecidableEq, Repr

/-- `Serial::from_array` -/
def fromArray (a : Bytes) : Except SErr Bytes :=
  if a.headD 0 / 128 % 2 ≠ 0 then .error .long else .ok a

/-- `Serial::from_slice` -/
def fromSlice (s : Bytes) : Except SErr Bytes :=
  if s = [] then .error .empty
  else if s.length > 20 then .error .long
  else fromArray (List.replicate (20 - s.length) 0 ++ s)

/-- index of the first non-zero octet, 19 when all are zero -/
def firstNonZero : Bytes → Nat → Nat
  | [], _ => 19
  | b :: bs, i => if b = 0 then firstNonZero bs (i + 1) else i

/-- `Serial::start` -/
def start (a : Bytes) : Nat :=
  let st := firstNonZero a 0
  if a.getD st 0 / 128 % 2 ≠ 0 then st - 1 else st

/-- content octets of the DER INTEGER (`write_encoded`) -/
def encodeContent (a : Bytes) : Bytes := a.drop (start a)

/-- one step loops of `checked_mul_u8` / `checked_add_u8`, little-endian, with carry -/
def mulLE : Bytes → Nat → Nat → Bytes × Nat
  | [], _, c => ([], c)
  | b :: bs, r, c =>
    let step := b * r + c
    let (rs, c') := mulLE bs r (step / 256)
    (step % 256 :: rs, c')

def addLE : Bytes → Nat → Bytes × Nat
  | [], c => ([], c)
  | b :: bs, c =>
    let step := b + c
    let (rs, c') := addLE bs (step / 256)
    (step % 256 :: rs, c')

/-- `Serial::checked_mul_u8` -/
def checkedMul (a : Bytes) (r : Nat) : Option Bytes :=
  let (rs, c) := mulLE a.reverse r 0
  let res := rs.reverse
  if c = 0 ∧ res.headD 0 / 128 % 2 = 0 then some res else none

/-- `Serial::checked_add_u8` -/
def checkedAdd (a : Bytes) (r : Nat) : Option Bytes :=
  let (rs, c) := addLE a.reverse r
  let res := rs.reverse
  if c = 0 ∧ res.headD 0 / 128 % 2 = 0 then some res else none

/-- `Serial::div_assign_u8`: big-endian long division, returns quotient and remainder -/
def divBE : Bytes → Nat → Nat → Bytes × Nat
  | [], _, step => ([], step)
  | b :: bs, r, step =>
    let st := step * 256 + b
    let (qs, rem) := divBE bs r (st % r)
    (st / r :: qs, rem)

def isZero (a : Bytes) : Bool := a.all (· = 0)

/-- `Serial::encode_dec` (the `while !is_zero` loop, fuel = the 49 target octets) -/
def encodeDecAux : Nat → Bytes → Bytes → Bytes
  | 0, _, acc => acc
  | fuel + 1, a, acc =>
    if isZero a then acc
    else
      let (q, rem) := divBE a 10 0
      encodeDecAux fuel q ((rem + 48) :: acc)

def encodeDec (a : Bytes) : Bytes := encodeDecAux 49 a []

/-- `impl FromStr for Serial` -/
def fromStrAux : Bytes → Bytes → Option Bytes
  | [], res => some res
  | ch :: rest, res =>
    if isDigit ch then
      match checkedMul res 10 with
      | none => none
      | some r1 =>
        match checkedAdd r1 (ch - 48) with
        | none => none
        | some r2 => fromStrAux rest r2
    else none

def zero20 : Bytes := List.replicate 20 0

def fromStr (s : Bytes) : Option Bytes := fromStrAux s zero20

/-- lexicographic comparison of arrays, as derived `Ord` on `[u8; 20]` does -/
def lexCmp : Bytes → Bytes → Ordering
  | [], [] => .eq
  | [], _ :: _ => .lt
  | _ :: _, [] => .gt
  | x :: xs, y :: ys => if x < y then .lt else if y < x then .gt else lexCmp xs ys

/-- bcder `Unsigned::from_primitive` head checks, then `Serial::from_slice` -/
def decodeSerialContent (c : Bytes) : Option Bytes :=
  match c with
  | [] => none
  | b0 :: rest =>
    if b0 ≥ 128 then none
    else match rest with
      | b1 :: _ => if b0 = 0 ∧ b1 < 128 then none else (fromSlice c).toOption
      | [] => (fromSlice c).toOption

end Rpki.X509
