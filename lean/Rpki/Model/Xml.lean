/-
  XML writing layer (`src/xml/encode.rs`) and Base64 (`src/util/base64.rs` over the standard
  alphabet with padding), plus the reference un-escaping of the five predefined entities.
-/
namespace Rpki.Xml

abbrev Bytes := List Nat

/-- `TextEscape::replace_char` for attribute values -/
def replAttr (c : Nat) : Option Bytes :=
  if c = 60 then some [38, 108, 116, 59]            -- <  &lt;
  else if c = 62 then some [38, 103, 116, 59]       -- >  &gt;
  else if c = 34 then some [38, 113, 117, 111, 116, 59]   -- "  &quot;
  else if c = 39 then some [38, 97, 112, 111, 115, 59]    -- '  &apos;
  else if c = 38 then some [38, 97, 109, 112, 59]   -- &  &amp;
  else none

/-- `TextEscape::replace_char` for character data -/
def replPcdata (c : Nat) : Option Bytes :=
  if c = 60 then some [38, 108, 116, 59]
  else if c = 38 then some [38, 97, 109, 112, 59]
  else none

/-- `TextEscape::write_escaped`: each octet is copied or replaced -/
def escapeWith (repl : Nat → Option Bytes) : Bytes → Bytes
  | [] => []
  | c :: rest => (match repl c with | some r => r | none => [c]) ++ escapeWith repl rest

def escapeAttr := escapeWith replAttr
def escapePcdata := escapeWith replPcdata

/-- reference un-escaping: the five predefined entities; any other `&` is an error -/
def unescape : Nat → Bytes → Option Bytes
  | 0, _ => none
  | _ + 1, [] => some []
  | fuel + 1, c :: rest =>
    if c = 38 then
      match rest with
      | 108 :: 116 :: 59 :: r => (unescape fuel r).map (60 :: ·)
      | 103 :: 116 :: 59 :: r => (unescape fuel r).map (62 :: ·)
      | 97 :: 109 :: 112 :: 59 :: r => (unescape fuel r).map (38 :: ·)
      | 113 :: 117 :: 111 :: 116 :: 59 :: r => (unescape fuel r).map (34 :: ·)
      | 97 :: 112 :: 111 :: 115 :: 59 :: r => (unescape fuel r).map (39 :: ·)
      | _ => none
    else if c = 60 then none
    else (unescape fuel rest).map (c :: ·)

def unescapeAll (b : Bytes) : Option Bytes := unescape (b.length + 1) b

/-! ### Base64, standard alphabet, padded -/

def b64Char (v : Nat) : Nat :=
  if v < 26 then 65 + v else if v < 52 then 97 + (v - 26) else if v < 62 then 48 + (v - 52)
  else if v = 62 then 43 else 47

def b64Val (c : Nat) : Option Nat :=
  if 65 ≤ c ∧ c ≤ 90 then some (c - 65)
  else if 97 ≤ c ∧ c ≤ 122 then some (c - 97 + 26)
  else if 48 ≤ c ∧ c ≤ 57 then some (c - 48 + 52)
  else if c = 43 then some 62
  else if c = 47 then some 63
  else none

def b64Encode : Bytes → Bytes
  | [] => []
  | [a] => [b64Char (a / 4), b64Char (a % 4 * 16), 61, 61]
  | [a, b] => [b64Char (a / 4), b64Char (a % 4 * 16 + b / 16), b64Char (b % 16 * 4), 61]
  | a :: b :: c :: rest =>
    b64Char (a / 4) :: b64Char (a % 4 * 16 + b / 16) :: b64Char (b % 16 * 4 + c / 64) :: b64Char (c % 64) ::
      b64Encode rest

/-- strict decoding of padded Base64 (canonical: unused bits zero, padding only in the last group) -/
def b64Decode : Bytes → Option Bytes
  | [] => some []
  | a :: b :: c :: d :: rest =>
    if rest = [] ∧ d = 61 then
      if c = 61 then
        match b64Val a, b64Val b with
        | some x, some y => if y % 16 = 0 then some [x * 4 + y / 16] else none
        | _, _ => none
      else
        match b64Val a, b64Val b, b64Val c with
        | some x, some y, some z => if z % 4 = 0 then some [x * 4 + y / 16, y % 16 * 16 + z / 4] else none
        | _, _, _ => none
    else
      match b64Val a, b64Val b, b64Val c, b64Val d with
      | some x, some y, some z, some w =>
        (b64Decode rest).map fun r => (x * 4 + y / 16) :: (y % 16 * 16 + z / 4) :: (z % 4 * 64 + w) :: r
      | _, _, _, _ => none
  | _ => none

/-- `str::split_ascii_whitespace` joined: space, tab, LF, FF, CR are dropped -/
def isAsciiWs (c : Nat) : Bool := c = 32 || c = 9 || c = 10 || c = 12 || c = 13
def skipWs (b : Bytes) : Bytes := b.filter (fun c => !isAsciiWs c)

/-- `base64::Xml.decode` -/
def xmlB64Decode (b : Bytes) : Option Bytes := b64Decode (skipWs b)

/-! ### the element writer -/

def indentOf (level : Nat) : Bytes := (List.replicate level [32, 32]).flatten

def attrBytes (name value : Bytes) : Bytes := [32] ++ name ++ [61, 34] ++ escapeAttr value ++ [34]

inductive Body where
  | empty                      -- `<name …/>`
  | text (raw : Bytes)         -- one text child, already in its written form (base64 / escaped / raw)
  | children (l : List Bytes)  -- already rendered child elements

/-- one element as `Element::start`, `attr`*, `content`, `end` write it; `level` is the writer's
indent level when the element starts (children are rendered at `level + 1` by the caller) -/
def element (level : Nat) (name : Bytes) (attrs : List (Bytes × Bytes)) (body : Body) : Bytes :=
  let head := [60] ++ name ++ (attrs.map fun (n, v) => attrBytes n v).flatten
  match body with
  | .empty => head ++ [47, 62]
  | .text t => head ++ [62] ++ [10] ++ indentOf (level + 1) ++ t ++ [10] ++ indentOf level ++ [60, 47] ++ name ++ [62]
  | .children l =>
    head ++ [62] ++ (l.map fun c => [10] ++ indentOf (level + 1) ++ c).flatten ++
      [10] ++ indentOf level ++ [60, 47] ++ name ++ [62]

end Rpki.Xml
