/-
The JSON *text* of a SLURM file (src/slurm.rs `SlurmFile::to_string` = `serde_json::to_string`):
the compact form serde_json writes for the tree of `Model/Slurm.lean` — no white space, members in the
order of the struct fields, numbers in decimal, strings with serde_json's escapes (`\"`, `\\`, `\b`,
`\f`, `\n`, `\r`, `\t`, `\u00xx` for the other control characters, every other octet as it is),
prefixes in their `Display` form (`Model/PfxText.lean`), key identifiers and router keys in unpadded
URL-safe Base64 — and a reference reader of exactly that language.

The writer is compared byte for byte with the library on every case (`jtext`).  The reader is *not* a
model of serde_json's reader (which accepts white space, other escapes, other number forms); it is the
inverse of the writer and is used on library-written text only.
-/
import Rpki.Model.Slurm
import Rpki.Model.PfxText
import Rpki.Model.ProvMsg
namespace Rpki.JsonText
open Rpki.Slurm

/-- the member names of RFC 8416 and of the ASPA extension -/
def keyName : Key → Bytes
  | .slurmVersion => [115, 108, 117, 114, 109, 86, 101, 114, 115, 105, 111, 110]   -- slurmVersion
  | .validationOutputFilters => [118, 97, 108, 105, 100, 97, 116, 105, 111, 110, 79, 117, 116, 112, 117, 116, 70, 105, 108, 116, 101, 114, 115]   -- validationOutputFilters
  | .locallyAddedAssertions => [108, 111, 99, 97, 108, 108, 121, 65, 100, 100, 101, 100, 65, 115, 115, 101, 114, 116, 105, 111, 110, 115]   -- locallyAddedAssertions
  | .prefixFilters => [112, 114, 101, 102, 105, 120, 70, 105, 108, 116, 101, 114, 115]   -- prefixFilters
  | .bgpsecFilters => [98, 103, 112, 115, 101, 99, 70, 105, 108, 116, 101, 114, 115]   -- bgpsecFilters
  | .aspaFilters => [97, 115, 112, 97, 70, 105, 108, 116, 101, 114, 115]   -- aspaFilters
  | .prefixAssertions => [112, 114, 101, 102, 105, 120, 65, 115, 115, 101, 114, 116, 105, 111, 110, 115]   -- prefixAssertions
  | .bgpsecAssertions => [98, 103, 112, 115, 101, 99, 65, 115, 115, 101, 114, 116, 105, 111, 110, 115]   -- bgpsecAssertions
  | .aspaAssertions => [97, 115, 112, 97, 65, 115, 115, 101, 114, 116, 105, 111, 110, 115]   -- aspaAssertions
  | .prefixK => [112, 114, 101, 102, 105, 120]   -- prefix
  | .asn => [97, 115, 110]   -- asn
  | .comment => [99, 111, 109, 109, 101, 110, 116]   -- comment
  | .ski => [83, 75, 73]   -- SKI
  | .customerAsid => [99, 117, 115, 116, 111, 109, 101, 114, 65, 115, 105, 100]   -- customerAsid
  | .maxPrefixLength => [109, 97, 120, 80, 114, 101, 102, 105, 120, 76, 101, 110, 103, 116, 104]   -- maxPrefixLength
  | .routerPublicKey => [114, 111, 117, 116, 101, 114, 80, 117, 98, 108, 105, 99, 75, 101, 121]   -- routerPublicKey
  | .customerAsn => [99, 117, 115, 116, 111, 109, 101, 114, 65, 115, 110]   -- customerAsn
  | .providerAsns => [112, 114, 111, 118, 105, 100, 101, 114, 65, 115, 110, 115]   -- providerAsns
  | .other n => 120 :: 45 :: ResText.decimal n

def knownKeys : List Key :=
  [.slurmVersion, .validationOutputFilters, .locallyAddedAssertions, .prefixFilters, .bgpsecFilters,
   .aspaFilters, .prefixAssertions, .bgpsecAssertions, .aspaAssertions, .prefixK, .asn, .comment, .ski,
   .customerAsid, .maxPrefixLength, .routerPublicKey, .customerAsn, .providerAsns]

/-- names the schema does not know are written `x-<n>` by the model (the library never writes one) -/
def keyOfName (b : Bytes) : Option Key :=
  match knownKeys.find? fun k => keyName k = b with
  | some k => some k
  | none =>
    match b with
    | 120 :: 45 :: d =>
      let n := d.foldl (fun acc x => acc * 10 + (x - 48)) 0
      if d = ResText.decimal n then some (.other n) else none
    | _ => none

/-! ### strings -/

def escByte (c : Nat) : Bytes :=
  if c = 34 then [92, 34] else if c = 92 then [92, 92] else if c = 8 then [92, 98]
  else if c = 12 then [92, 102] else if c = 10 then [92, 110] else if c = 13 then [92, 114]
  else if c = 9 then [92, 116]
  else if c < 32 then [92, 117, 48, 48, ResText.hexDigit (c / 16), ResText.hexDigit (c % 16)]
  else [c]

def escape : Bytes → Bytes
  | [] => []
  | c :: r => escByte c ++ escape r

def quote (s : Bytes) : Bytes := 34 :: (escape s ++ [34])

/-- the octets of a string after its opening quote: the string and what follows the closing quote -/
def lexStr : Bytes → Bytes → Option (Bytes × Bytes)
  | [], _ => none
  | c :: r, acc =>
    if c = 34 then some (acc.reverse, r)
    else if c = 92 then
      match r with
      | [] => none
      | e :: r2 =>
        if e = 34 then lexStr r2 (34 :: acc) else if e = 92 then lexStr r2 (92 :: acc)
        else if e = 98 then lexStr r2 (8 :: acc) else if e = 102 then lexStr r2 (12 :: acc)
        else if e = 110 then lexStr r2 (10 :: acc) else if e = 114 then lexStr r2 (13 :: acc)
        else if e = 116 then lexStr r2 (9 :: acc)
        else if e = 117 then
          match r2 with
          | 48 :: 48 :: h :: l :: r3 =>
            (match ResText.hexVal h, ResText.hexVal l with
             | some x, some y => lexStr r3 ((x * 16 + y) :: acc)
             | _, _ => none)
          | _ => none
        else none
    else if c < 32 then none
    else lexStr r (c :: acc)

/-! ### values -/

/-- erasing the leaf kinds a text does not carry: a prefix and a Base64 value are strings -/
def leafText : Json → Option Bytes
  | .str s => some s
  | .pfx p => some (PfxText.fmtPfx p)
  | .bytes b => some (ProvMsg.b64Url b)
  | _ => none

mutual
/-- `serde_json::to_string` of the tree -/
def render : Json → Bytes
  | .null => [110, 117, 108, 108]
  | .bool true => [116, 114, 117, 101]
  | .bool false => [102, 97, 108, 115, 101]
  | .num n => ResText.decimal n
  | .str s => quote s
  | .pfx p => quote (PfxText.fmtPfx p)
  | .bytes b => quote (ProvMsg.b64Url b)
  | .arr l => 91 :: renderArr l
  | .obj l => 123 :: renderObj l
/-- the elements of an array with the closing bracket -/
def renderArr : List Json → Bytes
  | [] => [93]
  | [x] => render x ++ [93]
  | x :: y :: r => render x ++ 44 :: renderArr (y :: r)
/-- the members of an object with the closing brace -/
def renderObj : List (Key × Json) → Bytes
  | [] => [125]
  | [(k, v)] => quote (keyName k) ++ 58 :: (render v ++ [125])
  | (k, v) :: y :: r => quote (keyName k) ++ 58 :: (render v ++ 44 :: renderObj (y :: r))
end

mutual
/-- what a text denotes: prefixes and Base64 values come back as the strings they were written as -/
def erase : Json → Json
  | .pfx p => .str (PfxText.fmtPfx p)
  | .bytes b => .str (ProvMsg.b64Url b)
  | .arr l => .arr (eraseArr l)
  | .obj l => .obj (eraseObj l)
  | j => j
def eraseArr : List Json → List Json
  | [] => []
  | x :: r => erase x :: eraseArr r
def eraseObj : List (Key × Json) → List (Key × Json)
  | [] => []
  | (k, v) :: r => (k, erase v) :: eraseObj r
end

def dropPrefix : Bytes → Bytes → Option Bytes
  | [], b => some b
  | _ :: _, [] => none
  | p :: ps, c :: r => if p = c then dropPrefix ps r else none

def digitsOf (b : Bytes) : Bytes := b.takeWhile ResText.isDigit

mutual
/-- reference reader: one value and what follows it; the counter bounds the nesting -/
def parseVal : Nat → Bytes → Option (Json × Bytes)
  | 0, _ => none
  | _ + 1, [] => none
  | f + 1, c :: r =>
    if c = 110 then (dropPrefix [117, 108, 108] r).map fun r' => (.null, r')
    else if c = 116 then (dropPrefix [114, 117, 101] r).map fun r' => (.bool true, r')
    else if c = 102 then (dropPrefix [97, 108, 115, 101] r).map fun r' => (.bool false, r')
    else if c = 34 then (lexStr r []).map fun (s, r') => (.str s, r')
    else if c = 91 then
      (match r with
       | 93 :: r' => some (.arr [], r')
       | _ => (parseElems f r []).map fun (l, r') => (.arr l, r'))
    else if c = 123 then
      (match r with
       | 125 :: r' => some (.obj [], r')
       | _ => (parseMembers f r []).map fun (l, r') => (.obj l, r'))
    else if ResText.isDigit c then
      let d := digitsOf (c :: r)
      some (.num (d.foldl (fun acc x => acc * 10 + (x - 48)) 0), (c :: r).drop d.length)
    else none
def parseElems : Nat → Bytes → List Json → Option (List Json × Bytes)
  | 0, _, _ => none
  | f + 1, b, acc =>
    match parseVal f b with
    | some (v, 44 :: r) => parseElems f r (v :: acc)
    | some (v, 93 :: r) => some ((v :: acc).reverse, r)
    | _ => none
def parseMembers : Nat → Bytes → List (Key × Json) → Option (List (Key × Json) × Bytes)
  | 0, _, _ => none
  | f + 1, b, acc =>
    match b with
    | 34 :: b1 =>
      (match lexStr b1 [] with
       | some (name, 58 :: b2) =>
         (match keyOfName name, parseVal f b2 with
          | some k, some (v, 44 :: r) => parseMembers f r ((k, v) :: acc)
          | some k, some (v, 125 :: r) => some (((k, v) :: acc).reverse, r)
          | _, _ => none)
       | _ => none)
    | _ => none
end

/-- a whole text: one value and nothing after it -/
def parse (b : Bytes) : Option Json :=
  match parseVal (b.length + 1) b with
  | some (j, []) => some j
  | _ => none

/-- `SlurmFile::to_string` -/
def fileText (f : SlurmFile) : Bytes := render f.toJson

/-! ### typed leaves -/

/-- `base64::Slurm.decode`: the URL-safe alphabet only (`+` and `/` are refused), padding may be left out -/
def slurmB64 (v : Bytes) : Option Bytes :=
  if v.any (fun c => c = 43 || c = 47) then none else ProvMsg.unB64Url v

/-- where a value sits: at the top, as the value of a member, or as an element of the array under a member -/
inductive Ctx
  | top
  | key (k : Key)
  | elem (k : Key)
deriving DecidableEq, Repr

mutual
/-- what the field deserialisers do with a string: under `prefix` it goes through `Prefix::from_str`,
under `SKI` (exactly 27 characters) and `routerPublicKey` through the Base64 reader.  In the *sequence
form* serde derives for every struct (its fields in declaration order in a JSON array) the position
says which field a value is. -/
def retype (ctx : Ctx) : Json → Json
  | .str s =>
    (match ctx with
     | .key .prefixK => (match PfxText.parsePfx false s with | .ok p => .pfx p | .error _ => .str s)
     -- `serde_key_identifier`: the text of a key identifier must be exactly 27 characters (20 octets, no padding)
     | .key .ski => if s.length ≠ 27 then .str s else (match slurmB64 s with | some b => .bytes b | none => .str s)
     | .key .routerPublicKey => (match slurmB64 s with | some b => .bytes b | none => .str s)
     | _ => .str s)
  | .arr l =>
    (match ctx, l with
     | .top, [v, f, a] => .arr [v, retype (.key .validationOutputFilters) f, retype (.key .locallyAddedAssertions) a]
     | .key .validationOutputFilters, [p, b, a] =>
       .arr [retype (.key .prefixFilters) p, retype (.key .bgpsecFilters) b, retype (.key .aspaFilters) a]
     | .key .locallyAddedAssertions, [p, b, a] =>
       .arr [retype (.key .prefixAssertions) p, retype (.key .bgpsecAssertions) b, retype (.key .aspaAssertions) a]
     | .elem .prefixFilters, [p, a, c] => .arr [retype (.key .prefixK) p, a, c]
     | .elem .bgpsecFilters, [k, a, c] => .arr [retype (.key .ski) k, a, c]
     | .elem .bgpsecAssertions, [a, k, key, c] => .arr [a, retype (.key .ski) k, retype (.key .routerPublicKey) key, c]
     | .key k, l => .arr (retypeArr (.elem k) l)
     | _, l => .arr l)
  | .obj l => .obj (retypeObj l)
  | j => j
def retypeArr (ctx : Ctx) : List Json → List Json
  | [] => []
  | x :: r => retype ctx x :: retypeArr ctx r
def retypeObj : List (Key × Json) → List (Key × Json)
  | [] => []
  | (k, v) :: r => (k, retype (.key k) v) :: retypeObj r
end

/-- a text to a file: reference reader, typed leaves, then the deserialisers of `Model/Slurm.lean` -/
def readFile (b : Bytes) : Option SlurmFile :=
  (parse b).bind fun j => SlurmFile.fromJson (retype .top j)

end Rpki.JsonText
