/-
Message-level model of one RTR client/server session (src/rtr/client.rs,
src/rtr/server.rs): a reference payload source with history, the server's
answers to Serial/Reset queries with version gating, the client's `step`
(serial query with fall-back to reset, version negotiation through an Error
PDU with code 4), and the effect of the updates on the client's data.

Payload items are abstract: `origin i`, `key i`, `aspa c p` (customer `c`,
provider-list variant `p`).  That the bytes the server writes are the PDUs the
client reads is C07's codec theorem.
-/
import Rpki.Gen.Consts
namespace Rpki.RtrSession
open Rpki.Consts

inductive Item
  | origin (i : Nat)
  | key (i : Nat)
  | aspa (c p : Nat)
deriving DecidableEq, Repr

/-- lowest protocol version that carries the item (`Payload::new_if_supported`) -/
def Item.minVersion : Item → Nat
  | .origin _ => 0 | .key _ => 1 | .aspa _ _ => 2

/-- ASPA records are keyed by customer -/
def Item.sameKey : Item → Item → Bool
  | .aspa c _, .aspa c' _ => c == c'
  | a, b => a == b

abbrev PSet := List Item

def restrict (v : Nat) (s : PSet) : PSet := s.filter (fun x => x.minVersion ≤ v)

inductive Action | announce | withdraw
deriving DecidableEq, Repr

abbrev Update := List (Action × Item)

/-- the reference source's diff: withdraw what is gone (ASPA: customer gone), announce what is new
or changed -/
def diffItems (old new : PSet) : Update :=
  (old.filter (fun x => !new.any (fun y => x.sameKey y))).map (fun x => (Action.withdraw, x))
  ++ (new.filter (fun y => !old.contains y)).map (fun y => (Action.announce, y))

/-- effect of one update on the client's data (`PayloadTarget` as the statement describes it) -/
def applyOne (d : PSet) : Action × Item → PSet
  | (.announce, x) => d.filter (fun y => !x.sameKey y) ++ [x]
  | (.withdraw, x) => d.filter (fun y => !x.sameKey y)

def applyAll (d : PSet) (u : Update) : PSet := u.foldl applyOne d

structure Src where
  session : Nat
  serial : Nat
  cur : PSet
  /-- retained earlier sets, by serial -/
  hist : List (Nat × PSet)
  refresh : Nat
deriving DecidableEq, Repr

def Src.lookup (s : Src) (serial : Nat) : Option PSet :=
  if serial = s.serial then some s.cur else (s.hist.find? (fun e => e.1 = serial)).map (·.2)

/-- the source publishes a new set; `keep` says whether it retains the history for diffs -/
def Src.update (s : Src) (keep : Bool) (new : PSet) : Src :=
  { s with serial := (s.serial + 1) % 4294967296, cur := new,
           hist := if keep then (s.serial, s.cur) :: s.hist else [] }

def Src.newSession (s : Src) (session : Nat) : Src := { s with session := session, hist := [] }

/-- `PayloadSource::diff` of the reference source -/
def Src.diff (s : Src) (session serial : Nat) : Option Update :=
  if session ≠ s.session then none else (s.lookup serial).map (fun old => diffItems old s.cur)

/-- what the server sends in answer to a query, after version gating -/
inductive Reply
  | data (ver session serial refresh : Nat) (upd : Update)
  | cacheReset (ver : Nat)
  | versionError (ver : Nat)
deriving DecidableEq, Repr

def gate (v : Nat) (u : Update) : Update := u.filter (fun e => e.2.minVersion ≤ v)

/-- `Connection::serial` -/
def serverSerial (s : Src) (v session serial : Nat) : Reply :=
  match s.diff session serial with
  | some u => .data v s.session s.serial s.refresh (gate v u)
  | none => .cacheReset v

/-- `Connection::reset` -/
def serverReset (s : Src) (v : Nat) : Reply :=
  .data v s.session s.serial s.refresh (gate v (s.cur.map (fun x => (Action.announce, x))))

structure Client where
  state : Option (Nat × Nat)
  version : Option Nat
  initial : Nat
  refresh : Nat
deriving DecidableEq, Repr

def Client.ver (c : Client) : Nat := c.version.getD c.initial

inductive StepResult
  | ok (c : Client) (reset : Bool) (upd : Update)
  | fail
deriving DecidableEq, Repr

/-- the version negotiation loop around the first reply: a peer that only speaks versions up to
`cap` answers a higher version with an Error PDU (code 4) carrying `cap` -/
def negotiate (c : Client) (cap : Nat) : Option Client :=
  if c.ver ≤ cap then some c
  else if c.version.isSome then none          -- "version error after successful version negotiation"
  else if cap ≥ rtrInitialVersion then none   -- "version error with larger version"
  else some { c with version := some cap }

/-- adopting an End of Data: state always, timing from version 1 on -/
def adopt (c : Client) (v session serial refresh : Nat) : Client :=
  { c with version := some v, state := some (session, serial),
           refresh := if v = 0 then c.refresh else refresh }

/-- `Client::reset` -/
def clientReset (c : Client) (cap : Nat) (s : Src) : StepResult :=
  match negotiate c cap with
  | none => .fail
  | some c1 =>
    match serverReset s c1.ver with
    | .data v session serial refresh upd => .ok (adopt c1 v session serial refresh) true upd
    | _ => .fail

/-- `Client::step` = `update` (serial query, falling back to reset) -/
def clientStep (c : Client) (cap : Nat) (s : Src) : StepResult :=
  match c.state with
  | none => clientReset c cap s
  | some (session, serial) =>
    match negotiate c cap with
    | none => .fail
    | some c1 =>
      match serverSerial s c1.ver session serial with
      | .data v sess ser refresh upd => .ok (adopt c1 v sess ser refresh) false upd
      | .cacheReset _ => clientReset { c1 with state := none } cap s
      | .versionError _ => .fail

/-- the client's data after a step -/
def dataAfter (d : PSet) (reset : Bool) (upd : Update) : PSet :=
  applyAll (if reset then [] else d) upd

end Rpki.RtrSession
