/-
  `SignedMessage::encode_ref`, `SignedMessageCrl::encode_ref`, `SignedMessageTbsCrl::encode_ref`
  (`src/ca/sigmsg.rs`).  `Proofs/SigMsgEncLemmas.lean` shows that `SigMsgDer.decodeSigMsg` reads them back.
-/
import Rpki.Model.SigMsgDer
import Rpki.Model.IdEnc
import Rpki.Model.CrlEnc
import Rpki.Model.CmsEnc
namespace Rpki.SigMsgEnc
open Rpki.Der Rpki.CertDer Rpki.SigMsgDer Rpki.CertEnc Rpki.CmsEnc Rpki.Consts

/-- the two optional extensions, in the order written -/
def msgCrlExtItems (d : MsgCrlD) : List Bytes :=
  (d.aki.map CrlEnc.akiBody).toList ++ (d.number.map CrlEnc.numberBody).toList

/-- `SignedMessageTbsCrl::encode_ref`: unlike the repository CRL the revocation list is always written, as a
SEQUENCE that may be empty -/
def encodeTbsMsgCrl (d : MsgCrlD) : Bytes :=
  tlv tagSeq (
    tlv tagInt [1] ++
    sigAlgEnc ++
    d.issuer ++
    timeTlv d.thisUpdate ++
    timeTlv d.nextUpdate ++
    tlv tagSeq d.revoked ++
    tlv 0xA0 (tlv tagSeq (seqs (msgCrlExtItems d))))

def encodeMsgCrl (d : MsgCrlD) (signature : Bytes) : Bytes :=
  tlv tagSeq (encodeTbsMsgCrl d ++ sigAlgEnc ++ tlv tagBitString (0 :: signature))

/-- `SignedMessage::encode_ref` around the octets of the EE identity certificate and of the CRL -/
def encodeSigMsg (content certBytes crlBytes sid attrs signature : Bytes) : Bytes :=
  tlv tagSeq (tlv tagOid oidSignedData ++ tlv 0xA0 (tlv tagSeq (
    tlv tagInt [3] ++
    tlv tagSet digestAlgEnc ++
    tlv tagSeq (tlv tagOid oidProtocolContentType ++ tlv 0xA0 (tlv tagOctetString content)) ++
    tlv 0xA0 certBytes ++
    tlv 0xA1 crlBytes ++
    tlv tagSet (signerInfoEnc sid attrs signature))))

end Rpki.SigMsgEnc
