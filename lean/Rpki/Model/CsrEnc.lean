/-
  `Csr::construct_rpki_ca` (`src/ca/csr.rs`): the certification request the library writes for a CA key.
  `Proofs/CsrEncLemmas.lean` shows that `CsrDer.decodeCsr false` reads it back.
-/
import Rpki.Model.CsrDer
import Rpki.Model.CertEnc
namespace Rpki.CsrEnc
open Rpki.Der Rpki.CertDer Rpki.CsrDer Rpki.CertEnc Rpki.Consts

/-- `Csr::extension`: unlike `encode_extension` of certificates the criticality is always written -/
def csrExtBody (oid : Bytes) (critical : Bool) (value : Bytes) : Bytes :=
  tlv tagOid oid ++ tlv tagBool [if critical then 255 else 0] ++ tlv tagOctetString value

def csrSia (repo mft : Bytes) (notify : Option Bytes) : Sia :=
  { caRepository := some repo, rpkiManifest := some mft, rpkiNotify := notify }

def csrExtItems (repo mft : Bytes) (notify : Option Bytes) : List Bytes :=
  [csrExtBody oidBasicConstraints true (tlv tagSeq (tlv tagBool [255])),
   csrExtBody oidKeyUsage true (kuValue .ca),
   csrExtBody oidSubjectInfoAccess false (tlv tagSeq (seqs (siaItems (csrSia repo mft notify))))]

/-- the certification request info: version 0, subject, key, the extension request -/
def encodeContent (subject : Bytes) (alg : KeyAlg) (unused : Nat) (bits repo mft : Bytes) (notify : Option Bytes) : Bytes :=
  tlv tagSeq (
    tlv tagInt [0] ++
    subject ++
    publicKeyEnc alg unused bits ++
    tlv 0xA0 (tlv tagSeq (tlv tagOid oidExtensionRequest ++
      tlv tagSet (tlv tagSeq (seqs (csrExtItems repo mft notify))))))

def encodeCsr (subject : Bytes) (alg : KeyAlg) (unused : Nat) (bits repo mft : Bytes) (notify : Option Bytes)
    (signature : Bytes) : Bytes :=
  tlv tagSeq (encodeContent subject alg unused bits repo mft notify ++ sigAlgEnc ++ tlv tagBitString (0 :: signature))

end Rpki.CsrEnc
