/-
  RFC 8181 publication protocol messages (`src/ca/publication.rs`): the message values the public
  constructors build, and the XML document `Message::write_xml` writes for them — as a tree of the
  generic document model (`Model/XmlDoc.lean`), so that the bytes are `XmlDoc.writeDoc (toTree m)`.
  Element names, attribute names and their order, the namespace and the version are those of
  RFC 8181 section 2; they are written here from the RFC, not read from the source.
-/
import Rpki.Model.XmlDoc
namespace Rpki.PubMsg
open Rpki.Xml Rpki.XmlDoc

/-- ASCII string literal as octets -/
def s (x : String) : Bytes := x.toUTF8.toList.map UInt8.toNat

def ns : Bytes := s "http://www.hactrn.net/uris/rpki/publication-spec/"
def version : Bytes := s "4"

def hexDigit (v : Nat) : Nat := if v < 10 then 48 + v else 87 + v
/-- lower-case hexadecimal (`rrdp::Hash` display) -/
def hex (b : Bytes) : Bytes := b.flatMap fun x => [hexDigit (x / 16), hexDigit (x % 16)]

inductive Pdu where
  | publish (tag : Option Bytes) (uri content : Bytes)
  | update (tag : Option Bytes) (uri content hash : Bytes)
  | withdraw (tag : Option Bytes) (uri hash : Bytes)
deriving Repr, DecidableEq

structure ListEl where
  uri : Bytes
  hash : Bytes
deriving Repr, DecidableEq

/-- the eight error codes of RFC 8181 section 2.5 with the default texts of section 2.5 -/
def codes : List (String × String) := [
  ("xml_error", "Encountered an XML problem."),
  ("permission_failure", "Client does not have permission to update this URI."),
  ("bad_cms_signature", "Encountered bad CMS signature."),
  ("object_already_present", "An object is already present at this URI, yet a \"hash\" attribute was not specified."),
  ("no_object_present", "There is no object present at this URI, yet a \"hash\" attribute was specified."),
  ("no_object_matching_hash", "The \"hash\" attribute supplied does not match the \"hash\" attribute of the object at this URI."),
  ("consistency_problem", "Server detected an update that looks like it will cause a consistency problem (e.g., an object was deleted, but the manifest was not updated)."),
  ("other_error", "Found some other issue.")]

inductive Msg where
  | listQuery
  | delta (es : List Pdu)
  | success
  | listReply (es : List ListEl)
  /-- `ReportError::with_code` for each listed code index -/
  | errors (cs : List Nat)
deriving Repr, DecidableEq

/-- the `tag` attribute: always written; an absent tag is written as the empty string -/
def tagAttr (t : Option Bytes) : Bytes × Bytes := (s "tag", escapeAttr (t.getD []))

def pduNode : Pdu → Node
  | .publish t uri c =>
    .elem (s "publish") [tagAttr t, (s "uri", escapeAttr uri)] (some (.cons (.text (b64Encode c)) .nil))
  | .update t uri c h =>
    .elem (s "publish") [tagAttr t, (s "uri", escapeAttr uri), (s "hash", hex h)] (some (.cons (.text (b64Encode c)) .nil))
  | .withdraw t uri h =>
    .elem (s "withdraw") [tagAttr t, (s "uri", escapeAttr uri), (s "hash", hex h)] none

def listNode (e : ListEl) : Node := .elem (s "list") [(s "uri", escapeAttr e.uri), (s "hash", hex e.hash)] none

def errNode (c : Nat) : Node :=
  let (code, text) := codes.getD c ("other_error", "Found some other issue.")
  .elem (s "report_error") [(s "error_code", s code)]
    (some (.cons (.elem (s "error_text") [] (some (.cons (.text (s text)) .nil))) .nil))

def body : Msg → List Node
  | .listQuery => [.elem (s "list") [] none]
  | .delta es => es.map pduNode
  | .success => [.elem (s "success") [] none]
  | .listReply es => es.map listNode
  | .errors cs => cs.map errNode

def isQuery : Msg → Bool
  | .listQuery | .delta _ => true
  | _ => false

def toTree (m : Msg) : Node :=
  .elem (s "msg")
    [(s "xmlns", ns), (s "version", version), (s "type", if isQuery m then s "query" else s "reply")]
    (some (Nodes.ofList (body m)))

/-- the document `Message::write_xml` writes -/
def write (m : Msg) : Bytes := writeDoc (toTree m)

/-! ### reading a tree back (`Message::decode` on the reference reader's tree) -/

def hexVal (c : Nat) : Option Nat :=
  if 48 ≤ c ∧ c ≤ 57 then some (c - 48)
  else if 97 ≤ c ∧ c ≤ 102 then some (c - 87)
  else if 65 ≤ c ∧ c ≤ 70 then some (c - 55)
  else none

def unhex : Bytes → Option Bytes
  | [] => some []
  | [_] => none
  | a :: b :: rest =>
    match hexVal a, hexVal b, unhex rest with
    | some x, some y, some r => some ((x * 16 + y) :: r)
    | _, _, _ => none

/-- a 32-octet hash in hexadecimal -/
def readHash (v : Bytes) : Option Bytes :=
  match unhex v with
  | some h => if h.length = 32 then some h else none
  | none => none

def lookup (name : Bytes) : List (Bytes × Bytes) → Option Bytes
  | [] => none
  | (n, v) :: rest => if n = name then some v else lookup name rest

/-- the Base64 text of a `<publish>`: one text line, or nothing for an empty object -/
def readContent : Option Nodes → Option Bytes
  | some .nil => some []
  | some (.cons (.text t) .nil) => xmlB64Decode t
  | _ => none

def readTag (attrs : List (Bytes × Bytes)) : Option (Option Bytes) :=
  match lookup (s "tag") attrs with
  | none => some none
  | some v => (unescapeAll v).map some

def attrsWithin (allowed : List Bytes) (attrs : List (Bytes × Bytes)) : Bool :=
  attrs.all fun a => allowed.contains a.1

def readPdu : Node → Option Pdu
  | .elem name attrs body =>
    if name = s "publish" then
      if !attrsWithin [s "tag", s "uri", s "hash"] attrs then none else
      match readTag attrs, (lookup (s "uri") attrs).bind unescapeAll, readContent body with
      | some t, some u, some c =>
        (match lookup (s "hash") attrs with
         | none => some (.publish t u c)
         | some hv => (readHash hv).map fun h => .update t u c h)
      | _, _, _ => none
    else if name = s "withdraw" then
      if !attrsWithin [s "tag", s "uri", s "hash"] attrs then none else
      match readTag attrs, (lookup (s "uri") attrs).bind unescapeAll, (lookup (s "hash") attrs).bind readHash, body with
      | some t, some u, some h, none => some (.withdraw t u h)
      | some t, some u, some h, some .nil => some (.withdraw t u h)
      | _, _, _, _ => none
    else none
  | .text _ => none

def readListEl : Node → Option ListEl
  | .elem name attrs _ =>
    if name ≠ s "list" then none else
    match (lookup (s "uri") attrs).bind unescapeAll, (lookup (s "hash") attrs).bind readHash with
    | some u, some h => some ⟨u, h⟩
    | _, _ => none
  | .text _ => none

def codeIndex (c : Bytes) : Option Nat :=
  let rec go : List (String × String) → Nat → Option Nat
    | [], _ => none
    | (k, _) :: rest, i => if s k = c then some i else go rest (i + 1)
  go codes 0

/-- `<report_error error_code=…>` with the default text of its code and nothing else (the only
error reports the public constructors build) -/
def readErr : Node → Option Nat
  | .elem name attrs (some (.cons (.elem tn [] (some (.cons (.text t) .nil))) .nil)) =>
    if name ≠ s "report_error" ∨ tn ≠ s "error_text" then none else
    match (lookup (s "error_code") attrs).bind codeIndex with
    | some i => if (codes.getD i ("", "")).2 = String.ofList (t.map fun c => Char.ofNat c) then some i else none
    | none => none
  | _ => none

def ofTree : Node → Option Msg
  | .elem name attrs (some kids) =>
    if name ≠ s "msg" ∨ lookup (s "xmlns") attrs ≠ some ns ∨ lookup (s "version") attrs ≠ some version then none else
    let ks := kids.toList
    match lookup (s "type") attrs with
    | some ty =>
      if ty = s "query" then
        (match ks with
         | [.elem n [] none] => if n = s "list" then some .listQuery else (ks.mapM readPdu).map .delta
         | _ => (ks.mapM readPdu).map .delta)
      else if ty = s "reply" then
        (match ks with
         | [.elem n [] none] =>
           if n = s "success" then some .success else none
         | [] => some (.listReply [])
         | k :: _ =>
           (match k with
            | .elem n _ _ => if n = s "list" then (ks.mapM readListEl).map .listReply else (ks.mapM readErr).map .errors
            | .text _ => none))
      else none
    | none => none
  | _ => none

/-- what reading gives for a written message: an absent tag has become the empty tag, and an error
reply without reports cannot be told from an empty list reply -/
def normPdu : Pdu → Pdu
  | .publish t u c => .publish (some (t.getD [])) u c
  | .update t u c h => .update (some (t.getD [])) u c h
  | .withdraw t u h => .withdraw (some (t.getD [])) u h

def norm : Msg → Msg
  | .delta es => .delta (es.map normPdu)
  | .errors [] => .listReply []
  | m => m

/-- reference reading of a document -/
def read (doc : Bytes) : Option Msg := (parseDoc doc).bind ofTree

end Rpki.PubMsg
