/-
  Document level of the XML writer (`src/xml/encode.rs`): a tree of elements and text lines, the
  writer with its indentation rules, and a reference reader for that output (tags, attributes,
  text with surrounding white space trimmed — the behaviour of the real reader's `trim_text`).
  Attribute values and text are kept in their written (escaped) form; `Xml.unescape` relates them
  to the values.
-/
import Rpki.Model.Xml
namespace Rpki.XmlDoc
open Rpki.Xml

mutual
inductive Node where
  /-- `body = none`: written as `<name …/>`; `some kids`: `<name …>` kids `</name>` -/
  | elem (name : Bytes) (attrs : List (Bytes × Bytes)) (body : Option Nodes)
  /-- a text line as written -/
  | text (t : Bytes)
inductive Nodes where
  | nil
  | cons (n : Node) (ns : Nodes)
end

def Nodes.toList : Nodes → List Node
  | .nil => []
  | .cons n ns => n :: ns.toList

def Nodes.ofList : List Node → Nodes
  | [] => .nil
  | n :: ns => .cons n (Nodes.ofList ns)

def rawAttr (name value : Bytes) : Bytes := [32] ++ name ++ [61, 34] ++ value ++ [34]

def headOf (name : Bytes) (attrs : List (Bytes × Bytes)) : Bytes :=
  [60] ++ name ++ (attrs.map fun (n, v) => rawAttr n v).flatten

mutual
/-- `Element::start … end` at indent level `level` -/
def writeNode (level : Nat) : Node → Bytes
  | .text t => t
  | .elem name attrs none => headOf name attrs ++ [47, 62]
  | .elem name attrs (some kids) =>
    headOf name attrs ++ [62] ++ writeKids (level + 1) kids ++ [10] ++ indentOf level ++ [60, 47] ++ name ++ [62]
/-- every child starts on its own line at the given level -/
def writeKids (level : Nat) : Nodes → Bytes
  | .nil => []
  | .cons n ns => [10] ++ indentOf level ++ writeNode level n ++ writeKids level ns
end

def writeDoc (n : Node) : Bytes := writeNode 0 n

/-! ### reference reader -/

inductive Tok where
  | open (name : Bytes) (attrs : List (Bytes × Bytes))
  | selfClose (name : Bytes) (attrs : List (Bytes × Bytes))
  | close (name : Bytes)
  | text (t : Bytes)
deriving Repr, DecidableEq

def isWs (c : Nat) : Bool := c = 32 || c = 9 || c = 10 || c = 13
def isNameChar (c : Nat) : Bool :=
  (65 ≤ c && c ≤ 90) || (97 ≤ c && c ≤ 122) || (48 ≤ c && c ≤ 57) || c = 95 || c = 45 || c = 58 || c = 46

def trimLeft (b : Bytes) : Bytes := b.dropWhile isWs
def trimRight (b : Bytes) : Bytes := (b.reverse.dropWhile isWs).reverse
def trim (b : Bytes) : Bytes := trimRight (trimLeft b)

/-- attributes inside a start tag: ` name="value"` repeated, then `>` or `/>`;
returns the attributes, whether the tag is self-closing, and the rest after `>` -/
def readAttrs : Nat → Bytes → List (Bytes × Bytes) → Option (List (Bytes × Bytes) × Bool × Bytes)
  | 0, _, _ => none
  | _ + 1, 62 :: rest, acc => some (acc.reverse, false, rest)
  | _ + 1, 47 :: 62 :: rest, acc => some (acc.reverse, true, rest)
  | fuel + 1, 32 :: rest, acc =>
    let name := rest.takeWhile isNameChar
    if name = [] then none else
    match rest.drop name.length with
    | 61 :: 34 :: r =>
      let value := r.takeWhile (fun c => c ≠ 34)
      if value.contains 60 then none else
      match r.drop value.length with
      | 34 :: r' => readAttrs fuel r' ((name, value) :: acc)
      | _ => none
    | _ => none
  | _ + 1, _, _ => none

/-- tokens of a document; text between tags is trimmed and dropped when empty -/
def lex : Nat → Bytes → List Tok → Option (List Tok)
  | 0, _, _ => none
  | _ + 1, [], acc => some acc.reverse
  | fuel + 1, 60 :: 47 :: rest, acc =>
    let name := rest.takeWhile isNameChar
    if name = [] then none else
    match rest.drop name.length with
    | 62 :: r => lex fuel r (.close name :: acc)
    | _ => none
  | fuel + 1, 60 :: rest, acc =>
    let name := rest.takeWhile isNameChar
    if name = [] then none else
    match readAttrs (rest.length + 1) (rest.drop name.length) [] with
    | some (attrs, sc, r) =>
      if r.length < rest.length then
        lex fuel r ((if sc then .selfClose name attrs else .open name attrs) :: acc)
      else none
    | none => none
  | fuel + 1, c :: rest, acc =>
    let run := (c :: rest).takeWhile (fun x => x ≠ 60)
    let t := trim run
    lex fuel ((c :: rest).drop run.length) (if t = [] then acc else .text t :: acc)

/-- assemble tokens into a tree; `stack` holds the open elements with their children so far (reversed) -/
def build : List Tok → List (Bytes × List (Bytes × Bytes) × List Node) → Option Node
  | [], _ => none
  | .text t :: rest, (n, a, kids) :: st => build rest ((n, a, .text t :: kids) :: st)
  | .text _ :: _, [] => none
  | .open name attrs :: rest, st => build rest ((name, attrs, []) :: st)
  | .selfClose name attrs :: rest, (n, a, kids) :: st =>
    build rest ((n, a, .elem name attrs none :: kids) :: st)
  | .selfClose name attrs :: rest, [] => if rest = [] then some (.elem name attrs none) else none
  | .close name :: rest, (n, a, kids) :: st =>
    if name ≠ n then none else
    let node := Node.elem n a (some (Nodes.ofList kids.reverse))
    match st with
    | [] => if rest = [] then some node else none
    | (n', a', kids') :: st' => build rest ((n', a', node :: kids') :: st')
  | .close _ :: _, [] => none

def parseDoc (b : Bytes) : Option Node :=
  match lex (b.length + 1) b [] with
  | none => none
  | some toks => build toks []

end Rpki.XmlDoc
