/-
  bcder's recursive skipping (`Constructed::skip_opt`, used by `capture_one`, `skip_one`, `skip_all`) as
  the explicit stack machine it is.  As the library does, it accepts nested indefinite-length constructed
  values even in DER mode (it never asks for the mode), while the length octets themselves follow the DER
  rule of `Length::take_from`.
-/
import Rpki.Model.Der
namespace Rpki.CertDer
open Rpki.Der

/-! ## bcder `Constructed::skip_opt` (DER mode, inside a value of definite length) -/

/-- up to `n` continuation octets of a multi-octet tag (`Tag::take_opt_from`) -/
def tagCont : Nat → Bytes → Option Bytes
  | 0, _ => none
  | _ + 1, [] => none
  | n + 1, x :: r => if x < 128 then some r else tagCont n r

/-- identifier octets: the first octet and what follows the whole tag -/
def takeTagAny (b : Bytes) : Option (Nat × Bytes) :=
  match b with
  | [] => none
  | t :: r => if t % 32 = 31 then (tagCont 3 r).map (t, ·) else some (t, r)

inductive Len | definite (n : Nat) | indefinite
deriving DecidableEq, Repr

/-- `Length::take_from`: the indefinite form is a value of its own; `skip_opt` does not ask for the mode -/
def readLenX (b : Bytes) : Option (Len × Bytes) :=
  match b with
  | 0x80 :: r => some (.indefinite, r)
  | _ => (readLen b).map fun (n, r) => (.definite n, r)

/-- one level of the explicit stack of `skip_opt`: what follows a definite-length value inside the
enclosing limit, or an indefinite-length value waiting for its end-of-contents -/
inductive Frame | definite (after : Bytes) | indefinite
deriving Repr

inductive Post | done (rest : Bytes) | more (cur : Bytes) (st : List Frame) | fail

/-- the inner `loop` of `skip_opt`: close every value whose limit has reached zero -/
def post : Bytes → List Frame → Post
  | cur, [] => .done cur
  | [], .definite after :: st => post after st
  | [], .indefinite :: _ => .fail
  | c :: cur, f :: st => .more (c :: cur) (f :: st)

/-- the outer `loop` of `skip_opt`; `cur` = the octets inside the current limit -/
def skipLoop : Nat → Bytes → List Frame → Option Bytes
  | 0, _, _ => none
  | fuel + 1, cur, st =>
    match takeTagAny cur with
    | none => none
    | some (t, r) =>
      match readLenX r with
      | none => none
      | some (len, r') =>
        let next (c : Bytes) (s : List Frame) : Option Bytes :=
          match post c s with
          | .done rest => some rest
          | .more c' s' => skipLoop fuel c' s'
          | .fail => none
        if !isCons t then
          if t = 0 then
            match len, st with
            | .definite 0, .indefinite :: st' => next r' st'
            | _, _ => none
          else
            match len with
            | .definite n => if r'.length < n then none else next (r'.drop n) st
            | .indefinite => none
        else
          match len with
          | .definite n => if r'.length < n then none else next (r'.take n) (.definite (r'.drop n) :: st)
          | .indefinite => skipLoop fuel r' (.indefinite :: st)

/-- `skip_one` on non-empty content: the octets after the first value -/
def skipOne (b : Bytes) : Option Bytes := skipLoop (b.length + 1) b []

/-- `skip_all` -/
def skipAll : Nat → Bytes → Bool
  | 0, b => b = []
  | fuel + 1, b => if b = [] then true else
    match skipOne b with
    | none => false
    | some rest => skipAll fuel rest


end Rpki.CertDer
