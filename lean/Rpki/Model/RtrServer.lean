/-
Model of one RTR server connection (src/rtr/server.rs): `Connection::recv`
(select between the notify channel and `Header::read`), `check_version`,
`check_length`, the `run` loop.

* `serve` is the specification: what the connection answers to a *byte string*,
  parsed front to back, ignoring an incomplete tail.
* `step` is the machine: bytes arrive in chunks, notifications arrive between
  them; after every event the connection task runs until it blocks.  The bytes
  of a partially read header live in the `Header::read` future; `cancelSafe`
  (read from the source) says whether they survive the notify branch of the
  select winning, or are dropped with the future.
-/
import Rpki.Gen.Consts
import Rpki.Model.RtrPdu
namespace Rpki.RtrServer
open Rpki.Consts Rpki.Rtr

/-- what the data source answers (fixed during a connection) -/
structure Src where
  ready : Bool
  session : Nat
  serial : Nat
  /-- serials for which the source can produce a diff -/
  known : List Nat
deriving DecidableEq, Repr

inductive Out
  /-- Cache Response … End of Data with the full set (`full = true`) or a diff -/
  | data (ver session serial : Nat) (full : Bool)
  | cacheReset (ver : Nat)
  | error (ver code : Nat) (hdr : Bytes)
  | serialNotify (ver session serial : Nat)
deriving DecidableEq, Repr

def Out.isNotify : Out → Bool | .serialNotify .. => true | _ => false

/-- `Connection::serial` -/
def answerSerial (src : Src) (ver session serial : Nat) : Out :=
  if !src.ready then .error ver 2 []
  else if session = src.session ∧ src.known.contains serial then .data ver src.session src.serial false
  else .cacheReset ver

/-- `Connection::reset` -/
def answerReset (src : Src) (ver : Nat) : Out :=
  if !src.ready then .error ver 2 [] else .data ver src.session src.serial true

/-- result of looking at the front of the unparsed bytes -/
inductive Parse
  /-- not enough bytes yet for the next decision -/
  | more
  /-- an Error PDU arrived: the connection task ends -/
  | dead
  /-- one query consumed `used` bytes, produced `out`, left the version at `ver` -/
  | one (used : Nat) (out : Out) (ver : Option Nat)

/-- one round of `recv` + dispatch on the bytes available -/
def parseOne (src : Src) (ver : Option Nat) (s : Bytes) : Parse :=
  if s.length < 8 then .more else
  let h := decHdr (s.take 8)
  -- check_version
  match ver with
  | some cur =>
    if cur ≠ h.version then .one 8 (.error cur 8 (s.take 8)) ver
    else body h (some cur) cur
  | none =>
    if h.version > rtrMaxVersion then .one 8 (.error rtrMaxVersion 4 (s.take 8)) none
    else body h (some h.version) h.version
where
  body (h : Hdr) (ver' : Option Nat) (v : Nat) : Parse :=
    if h.pdu = pduSerialQuery then
      if h.length ≠ sizeSerialQuery then .one 8 (.error h.version 3 (s.take 8)) ver'
      else if s.length < 12 then .more
      else .one 12 (answerSerial src v h.session (unbe ((s.drop 8).take 4))) ver'
    else if h.pdu = pduResetQuery then
      if h.length ≠ sizeResetQuery then .one 8 (.error h.version 3 (s.take 8)) ver'
      else .one 8 (answerReset src v) ver'
    else if h.pdu = pduError then .dead
    else .one 8 (.error h.version 3 (s.take 8)) ver'

/-- the specification: answers to a byte string (fuel = its length suffices) -/
def serveAux (src : Src) : Nat → Option Nat → Bytes → List Out
  | 0, _, _ => []
  | fuel + 1, ver, s =>
    match parseOne src ver s with
    | .more => []
    | .dead => []
    | .one used out ver' => out :: serveAux src fuel ver' (s.drop used)

def serve (src : Src) (s : Bytes) : List Out := serveAux src (s.length + 1) none s

/-! ### the machine -/

structure Conn where
  ver : Option Nat
  /-- bytes taken from the socket and not yet turned into a query -/
  buf : Bytes
  /-- a notification is waiting in the broadcast(1) channel -/
  pendingNotify : Bool
  dead : Bool
deriving DecidableEq, Repr

def Conn.init : Conn := ⟨none, [], false, false⟩

inductive Event
  | chunk (bs : Bytes)
  | notify
  | eof
deriving DecidableEq, Repr

def notifyOut (src : Src) (c : Conn) : Out := .serialNotify (c.ver.getD 0) src.session src.serial

/-- run the connection task until it blocks.  Every iteration starts at the top of `recv`, where
the select polls the notify branch first — except the first one when the task is being resumed
inside `SerialQueryPayload::read` (`inPayload`), which happens outside the select. -/
def drain (src : Src) : Nat → Bool → Conn → Conn × List Out
  | 0, _, c => (c, [])
  | fuel + 1, inPayload, c =>
    if c.dead then (c, []) else
    if c.pendingNotify ∧ !inPayload then
      let (c', outs) := drain src fuel false { c with pendingNotify := false }
      (c', notifyOut src c :: outs)
    else
      match parseOne src c.ver c.buf with
      | .more => (c, [])
      | .dead => ({ c with dead := true }, [])
      | .one used out ver' =>
        let (c', outs) := drain src fuel false { c with ver := ver', buf := c.buf.drop used }
        (c', out :: outs)

/-- is the parked task inside the payload read of a Serial Query (header complete, payload not)? -/
def Conn.inPayload (c : Conn) : Bool := 8 ≤ c.buf.length

def step (src : Src) (c : Conn) : Event → Conn × List Out
  | .chunk bs =>
    if c.dead then (c, [])
    else drain src (2 * (c.buf.length + bs.length) + 4) c.inPayload { c with buf := c.buf ++ bs }
  | .notify =>
    if c.dead then (c, [])
    else if c.inPayload then ({ c with pendingNotify := true }, [])
    else
      -- parked in the select: the notify branch wins; a partially read header is inside the
      -- `Header::read` future, which is dropped unless the read is cancel safe
      let keep : Bytes := if rtrRecvCancelSafe then c.buf else []
      ({ c with buf := keep }, [notifyOut src c])
  | .eof => ({ c with dead := true }, [])

def run (src : Src) : Conn → List Event → List Out
  | _, [] => []
  | c, e :: es => let (c', o) := step src c e; o ++ run src c' es

def chunksOf : List Event → Bytes
  | [] => []
  | .chunk bs :: es => bs ++ chunksOf es
  | .eof :: _ => []
  | _ :: es => chunksOf es

end Rpki.RtrServer
