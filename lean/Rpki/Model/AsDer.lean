/-
  RFC 3779 AS resources extension in DER (`src/repository/resources/asres.rs`,
  `src/resources/asn.rs`): `Asn::{parse_content, encode}`, `AsRange::parse_content`,
  `AsBlock::{take_opt_from, encode}`, `AsBlocks::{parse_cons_content, encode}`,
  `AsResources::{take_from, encode}`; bcder's `u32` INTEGER codec.
-/
import Rpki.Model.Der
import Rpki.Model.Chain
namespace Rpki.AsDer
open Rpki.Der Rpki.Chain

def toNatBE : Bytes → Nat
  | [] => 0
  | b :: bs => b * 256 ^ bs.length + toNatBE bs

/-- bcder `Unsigned::check_head` + `slice_to_builtin!(unsigned, …, u32)` on the content octets -/
def decodeU32 (c : Bytes) : Option Nat :=
  match c with
  | [] => none
  | b0 :: rest =>
    if b0 ≥ 128 then none
    else if b0 = 0 ∧ rest ≠ [] ∧ rest.headD 0 < 128 then none
    else
      let val := if b0 = 0 then rest else c
      if val.length > 4 then none else some (toNatBE val)

/-- big-endian octets of `n` without leading zeros (`[]` for 0), at most `fuel` octets -/
def beOctets : Nat → Nat → Bytes
  | 0, _ => []
  | fuel + 1, n => if n = 0 then [] else beOctets fuel (n / 256) ++ [n % 256]

/-- bcder `PrimitiveContent for u32`: minimal, with a leading zero when the top bit is set -/
def encodeU32 (n : Nat) : Bytes :=
  if n = 0 then [0]
  else
    let o := beOctets 4 n
    if o.headD 0 ≥ 128 then 0 :: o else o

/-- `AsBlock::take_opt_from`: an INTEGER (single id) or a SEQUENCE { min, max } -/
def takeOptBlock (b : Bytes) : Take Blk :=
  match b with
  | [] => .absent
  | t :: _ =>
    if t % 32 = 31 then .bad
    else match readTlv b with
      | none => .bad
      | some (_, c, rest) =>
        if tagNoCons t = tagInt then
          (if isCons t then .bad else match decodeU32 c with | some v => .ok ⟨v, v⟩ rest | none => .bad)
        else if tagNoCons t = 0x10 then
          (if !isCons t then .bad else
            match takePrim tagInt c with
            | none => .bad
            | some (c1, r1) =>
              match takePrim tagInt r1 with
              | none => .bad
              | some (c2, r2) =>
                match decodeU32 c1, decodeU32 c2 with
                | some lo, some hi => if r2 ≠ [] then .bad else if lo > hi then .bad else .ok ⟨lo, hi⟩ rest
                | _, _ => .bad)
        else .bad

/-- `AsBlocks::parse_cons_content`: all blocks of the SEQUENCE content, in order; then collected
into the canonical chain by `FromIterator` -/
def blocksLoop : Nat → Bytes → Option (List Blk)
  | 0, b => if b = [] then some [] else none
  | fuel + 1, b =>
    match takeOptBlock b with
    | .absent => some []
    | .bad => none
    | .ok blk rest => (blocksLoop fuel rest).map (blk :: ·)

def maxAs : Nat := 2 ^ 32 - 1

def decodeBlocks (content : Bytes) : Option (List Blk) :=
  (blocksLoop content.length content).map (fromIter maxAs)

/-- `AsResources::take_from` on the extension value: SEQUENCE { [0] { NULL | SEQUENCE OF } } -/
def decodeExt (b : Bytes) : Option Claim :=
  match takeCons tagSeq b with
  | none => none
  | some (c, _) =>
    match takeCons 0xA0 c with
    | none => none
    | some (inner, r) =>
      if r ≠ [] then none else
      match inner with
      | [] => none
      | t :: _ =>
        if t % 32 = 31 then none
        else match readTlv inner with
          | none => none
          | some (_, v, r2) =>
            if r2 ≠ [] then none
            else if tagNoCons t = tagNull then (if isCons t ∨ v ≠ [] then none else some .inherit)
            else if tagNoCons t = 0x10 then (if !isCons t then none else (decodeBlocks v).map .blocks)
            else none

/-- `AsBlock::encode` -/
def encodeBlock (b : Blk) : Bytes :=
  if b.lo = b.hi then tlv tagInt (encodeU32 b.lo)
  else tlv tagSeq (tlv tagInt (encodeU32 b.lo) ++ tlv tagInt (encodeU32 b.hi))

/-- `AsResources::encode` for inherit / blocks -/
def encodeExt : Claim → Bytes
  | .inherit => tlv tagSeq (tlv 0xA0 (tlv tagNull []))
  | .blocks c => tlv tagSeq (tlv 0xA0 (tlv tagSeq ((c.map encodeBlock).flatten)))
  | .missing => tlv tagSeq (tlv 0xA0 (tlv tagSeq []))

end Rpki.AsDer
