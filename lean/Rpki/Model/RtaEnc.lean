/-
  `ResourceTaggedAttestation::encode_ref` (`src/repository/rta.rs`): the content of a resource tagged attestation.
  `Proofs/RtaEncLemmas.lean` shows that `RtaDer.decodeAttestation` reads it back.
-/
import Rpki.Model.RtaDer
import Rpki.Model.CmsEnc
namespace Rpki.RtaEnc
open Rpki.Der Rpki.CertDer Rpki.RtaDer Rpki.Chain

/-- `encode_as_resources`: nothing for an empty set -/
def asPart (asn : List Blk) : Bytes :=
  if asn = [] then [] else tlv 0xA0 (tlv tagSeq ((asn.map AsDer.encodeBlock).flatten))

/-- `encode_ip_resources`: nothing when both families are empty, else both families — an empty one as an empty list -/
def ipPart (v4 v6 : List Blk) : Bytes :=
  if v4 = [] ∧ v6 = [] then []
  else tlv 0xA1 (tlv tagSeq (
    tlv tagSeq (tlv tagOctetString [0, 1] ++ IpDer.encodeBlocks v4) ++
    tlv tagSeq (tlv tagOctetString [0, 2] ++ IpDer.encodeBlocks v6)))

/-- `ResourceTaggedAttestation::encode_ref`: the version is left out, the keys are written in their order -/
def encodeAttestation (a : Attestation) : Bytes :=
  tlv tagSeq (
    tlv tagSet ((a.keys.map (tlv tagOctetString)).flatten) ++
    tlv tagSeq (asPart a.asn ++ ipPart a.v4 a.v6) ++
    CmsEnc.digestAlgEnc ++
    tlv tagOctetString a.digest)

end Rpki.RtaEnc

namespace Rpki.RtaEnc
open Rpki.Der Rpki.CertDer Rpki.RtaDer Rpki.Consts

/-- `MultiSignedObject::encode_ref` around the octets of the certificates, CRLs and signer infos: the `[1]` CRL set is
left out when there is none -/
def encodeRta (content : Bytes) (certs crls : List Bytes) (signers : List Signer) : Bytes :=
  tlv tagSeq (tlv tagOid oidSignedData ++ tlv 0xA0 (tlv tagSeq (
    tlv tagInt [3] ++
    tlv tagSet CmsEnc.digestAlgEnc ++
    tlv tagSeq (tlv tagOid oidCtRta ++ tlv 0xA0 (tlv tagOctetString content)) ++
    tlv 0xA0 certs.flatten ++
    (if crls = [] then [] else tlv 0xA1 crls.flatten) ++
    tlv tagSet ((signers.map fun s => CmsEnc.signerInfoEnc s.sid s.attrs s.signature).flatten))))

end Rpki.RtaEnc
