/-
Model of `rpki::resources::addr` (src/resources/addr.rs): `Bits`, `FamilyAndLen`,
`Prefix`, `MaxLenPrefix`, and of `rtr::payload::RouteOrigin`'s Eq/Ord.

A `Bits(u128)` is a `Nat` below `2^128` (IPv4 in the top 32 bits).  The bit
operations of the Rust code are rendered in arithmetic:

  x & !(MAX >> n)  and  x & (MAX << (128-n))   ↦  x / 2^(128-n) * 2^(128-n)
  x | (MAX >> n)                                ↦  x / 2^(128-n) * 2^(128-n) + (2^(128-n) - 1)
  x.trailing_zeros() >= k   (k ≤ 128)           ↦  x % 2^k = 0

That rendering is part of what the correspondence check validates.
-/
import Rpki.Gen.Consts
namespace Rpki.Prefix
open Rpki.Consts

def A : Nat := 340282366920938463463374607431768211456   -- 2^128

structure Pfx where
  fal  : Nat    -- FamilyAndLen(u8)
  bits : Nat    -- Bits(u128)
deriving DecidableEq, Repr

inductive PErr | lenOverflow | nonZeroHost
deriving DecidableEq, Repr

/-- `FamilyAndLen::new_v4` -/
def falV4 (len : Nat) : Option Nat :=
  if len > falV4Max then none else some len

/-- `FamilyAndLen::new_v6`; `len ^ 0xFF` on a `u8` is `255 - len`. -/
def falV6 (len : Nat) : Option Nat :=
  if len > falV6Max then none
  else if len = falV6Max then some falV6Full
  else some (falXor - len)

/-- `FamilyAndLen::is_v4`: `self.0 & 0xc0 == 0` -/
def falIsV4 (fal : Nat) : Bool := fal / 64 = 0

/-- `FamilyAndLen::len` -/
def falLen (fal : Nat) : Nat :=
  if fal / 64 = 0 then fal
  else if fal / 64 = 1 then falV6Max
  else falXor - fal

def Pfx.isV4 (p : Pfx) : Bool := falIsV4 p.fal
def Pfx.len (p : Pfx) : Nat := falLen p.fal

/-- number of host bits for a prefix length (`128u32.saturating_sub(len)`) -/
def hostBits (len : Nat) : Nat := 128 - len

/-- `Bits::is_host_zero` -/
def isHostZero (bits len : Nat) : Bool := bits % 2 ^ hostBits len = 0

/-- `Bits::clear_host` -/
def clearHost (bits len : Nat) : Nat :=
  if len = 0 then 0 else bits / 2 ^ hostBits len * 2 ^ hostBits len

/-- `Bits::into_max` -/
def intoMax (bits len : Nat) : Nat :=
  if len ≥ 128 then bits
  else bits / 2 ^ hostBits len * 2 ^ hostBits len + (2 ^ hostBits len - 1)

/-- `Bits::from_v4` for a 32-bit address -/
def fromV4 (a : Nat) : Nat := a * 2 ^ 96

def newV4 (a len : Nat) : Except PErr Pfx :=
  match falV4 len with
  | none => .error .lenOverflow
  | some fal =>
    let bits := fromV4 a
    if !isHostZero bits len then .error .nonZeroHost else .ok ⟨fal, bits⟩

def newV6 (a len : Nat) : Except PErr Pfx :=
  match falV6 len with
  | none => .error .lenOverflow
  | some fal =>
    if !isHostZero a len then .error .nonZeroHost else .ok ⟨fal, a⟩

def newV4Relaxed (a len : Nat) : Except PErr Pfx :=
  match falV4 len with
  | none => .error .lenOverflow
  | some fal => .ok ⟨fal, clearHost (fromV4 a) len⟩

def newV6Relaxed (a len : Nat) : Except PErr Pfx :=
  match falV6 len with
  | none => .error .lenOverflow
  | some fal => .ok ⟨fal, clearHost a len⟩

/-- `Prefix::min_addr` as raw bits -/
def Pfx.lo (p : Pfx) : Nat := p.bits
/-- `Prefix::max_addr` as raw bits (for IPv4 the Rust code then drops the low 96 bits) -/
def Pfx.hi (p : Pfx) : Nat := intoMax p.bits p.len

/-- `Prefix::covers` -/
def covers (p q : Pfx) : Bool :=
  if p.isV4 != q.isV4 then false
  else if p.len > q.len then false
  else if p.isV4 then
    if p.len = 32 ∧ q.len = 32 then p = q
    else p.bits = q.bits / 2 ^ hostBits p.len * 2 ^ hostBits p.len
  else if p.len = 128 ∧ q.len = 128 then p = q
  else p.bits = q.bits / 2 ^ hostBits p.len * 2 ^ hostBits p.len

/-- `impl Ord for Prefix` -/
def cmp (p q : Pfx) : Ordering :=
  match p.isV4, q.isV4 with
  | true, false => .lt
  | false, true => .gt
  | _, _ =>
    if p.len = q.len then compare p.bits q.bits
    else
      let minlen := min p.len q.len
      let k := hostBits minlen
      if p.bits / 2 ^ k * 2 ^ k = q.bits / 2 ^ k * 2 ^ k then compare q.len p.len
      else compare p.bits q.bits

/-! ### MaxLenPrefix -/

structure Mlp where
  pfx : Pfx
  ml  : Option Nat
deriving DecidableEq, Repr

inductive MErr | overflow | underflow
deriving DecidableEq, Repr

/-- `MaxLenPrefix::new` -/
def mlpNew (p : Pfx) (ml : Option Nat) : Except MErr Mlp :=
  match ml with
  | some m =>
    if (p.isV4 ∧ m > 32) ∨ m > 128 then .error .overflow
    else if p.len > m then .error .underflow
    else .ok ⟨p, some m⟩
  | none => .ok ⟨p, none⟩

/-- `MaxLenPrefix::saturating_new` -/
def mlpSat (p : Pfx) (ml : Option Nat) : Mlp :=
  ⟨p, ml.map fun m =>
    if p.len > m then p.len
    else if p.isV4 ∧ m > 32 then 32
    else if m > 128 then 128
    else m⟩

def Mlp.resolved (m : Mlp) : Nat := m.ml.getD m.pfx.len

/-- `impl Ord for MaxLenPrefix` -/
def mlpCmp (a b : Mlp) : Ordering :=
  match cmp a.pfx b.pfx with
  | .lt => .lt
  | .gt => .gt
  | .eq =>
    match a.ml, b.ml with
    | none, none => .eq
    | some _, none => .lt
    | none, some _ => .gt
    | some n, some m => compare m n

/-! ### RouteOrigin -/

structure Origin where
  mlp : Mlp
  asn : Nat
deriving DecidableEq, Repr

/-- `impl PartialEq for RouteOrigin` -/
def originEq (a b : Origin) : Bool :=
  a.mlp.pfx = b.mlp.pfx && a.mlp.resolved = b.mlp.resolved && a.asn = b.asn

/-- `impl Ord for RouteOrigin` -/
def originCmp (a b : Origin) : Ordering :=
  match cmp a.mlp.pfx b.mlp.pfx with
  | .eq =>
    match compare a.mlp.resolved b.mlp.resolved with
    | .eq => compare a.asn b.asn
    | o => o
  | o => o

/-- the word sequence `impl Hash for RouteOrigin` feeds to the hasher -/
def originHashKey (a : Origin) : List Nat :=
  [a.mlp.pfx.fal, a.mlp.pfx.bits, a.mlp.resolved, a.asn]

/-! ### Well-formedness: what the constructors establish -/

/-- A value the public constructors can produce. -/
def WF (p : Pfx) : Prop :=
  p.bits < A ∧
  ((p.fal ≤ 32 ∧ p.bits % 2 ^ 96 = 0) ∨ p.fal = 64 ∨ (128 ≤ p.fal ∧ p.fal ≤ 255)) ∧
  p.bits % 2 ^ hostBits p.len = 0

instance (p : Pfx) : Decidable (WF p) := by unfold WF; infer_instance

end Rpki.Prefix
