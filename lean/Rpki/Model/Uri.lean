/-
Model of `rpki::uri` (src/uri.rs): `Rsync` and `Https`.

Byte strings are `List Nat` (each element a byte value).  One model function per
Rust function, same control flow and error cases.
-/
import Rpki.Gen.Consts
namespace Rpki.Uri
open Rpki.Consts

abbrev Bytes := List Nat

inductive Err | invalidCharacters | badUri | badScheme | dotSegments | emptySegments
deriving DecidableEq, Repr

def slash : Nat := 47
def dot : Nat := 46

/-- `is_u8_uri_ascii`: the permitted byte ranges are read from the source (`uriAsciiRanges`
is the flattened list of inclusive `lo, hi` pairs of the `matches!` pattern). -/
def inRanges (c : Nat) : List Nat → Bool
  | lo :: hi :: rest => (lo ≤ c && c ≤ hi) || inRanges c rest
  | _ => false

def isUriAscii (c : Nat) : Bool := inRanges c uriAsciiRanges

/-- `check_uri_ascii` -/
def checkUriAscii (b : Bytes) : Bool := b.all isUriAscii

/-- `u8::to_ascii_lowercase` -/
def toLower (c : Nat) : Nat := if 65 ≤ c ∧ c ≤ 90 then c + 32 else c

/-- `<[u8]>::eq_ignore_ascii_case` -/
def eqIgnoreCase (a b : Bytes) : Bool := a.map toLower == b.map toLower

/-- `starts_with_ignore_case` -/
def startsWithIgnoreCase (s expected : Bytes) : Bool :=
  if s.length < expected.length then false else eqIgnoreCase (s.take expected.length) expected

def rsyncScheme : Bytes := [114, 115, 121, 110, 99, 58, 47, 47]   -- "rsync://"
def httpsScheme : Bytes := [104, 116, 116, 112, 115, 58, 47, 47]  -- "https://"

/-- `slice.split(|ch| *ch == b'/')` -/
def split : Bytes → List Bytes
  | [] => [[]]
  | c :: cs =>
    if c = slash then [] :: split cs
    else match split cs with
      | [] => [[c]]
      | h :: t => (c :: h) :: t

/-- the loop of `Rsync::check_path` over the split items -/
def checkItems : List Bytes → Except Err Unit
  | [] => .ok ()
  | item :: rest =>
    if item = [] then (if rest = [] then .ok () else .error .emptySegments)
    else if item = [dot, dot] ∨ item = [dot] then .error .dotSegments
    else checkItems rest

/-- `Rsync::check_path` -/
def checkPath (path : Bytes) : Except Err Unit := checkItems (split path)

structure Rsync where
  bytes : Bytes
  moduleStart : Nat
  pathStart : Nat
deriving DecidableEq, Repr

/-- `Rsync::from_bytes` -/
def Rsync.fromBytes (b : Bytes) : Except Err Rsync :=
  if !checkUriAscii b then .error .invalidCharacters
  else if !startsWithIgnoreCase b rsyncScheme then .error .badScheme
  else match checkPath (b.drop 8) with
    | .error e => .error e
    | .ok () =>
      match split (b.drop 8) with
      | authority :: module :: _ :: _ =>
        if authority.length = 0 then .error .badUri
        else if module.length = 0 then .error .badUri
        else
          let moduleStart := 9 + authority.length
          .ok ⟨b, moduleStart, moduleStart + module.length + 1⟩
      | [authority, _] => if authority.length = 0 then .error .badUri else .error .badUri
      | _ => .error .badUri

def slice (b : Bytes) (i j : Nat) : Bytes := (b.take j).drop i

def Rsync.authority (u : Rsync) : Bytes := slice u.bytes 8 (u.moduleStart - 1)
def Rsync.moduleName (u : Rsync) : Bytes := slice u.bytes u.moduleStart (u.pathStart - 1)
def Rsync.module (u : Rsync) : Bytes := u.bytes.take u.pathStart
def Rsync.path (u : Rsync) : Bytes := u.bytes.drop u.pathStart

def endsWithSlash (b : Bytes) : Bool := b.getLast? = some slash

/-- `str::rfind('/')`: index of the last slash (left-to-right scan remembering the last hit) -/
def rfindAux : Bytes → Nat → Option Nat → Option Nat
  | [], _, acc => acc
  | c :: cs, i, acc => rfindAux cs (i + 1) (if c = slash then some i else acc)

def rfindSlash (b : Bytes) : Option Nat := rfindAux b 0 none

/-- `Rsync::parent` -/
def Rsync.parent (u : Rsync) : Option Rsync :=
  let path := u.path
  let path := if endsWithSlash path then path.take (path.length - 1) else path
  if path = [] then none
  else
    let len := match rfindSlash path with
      | some idx => u.pathStart + idx + 1
      | none => u.pathStart
    some { u with bytes := u.bytes.take len }

/-- `Rsync::join` -/
def Rsync.join (u : Rsync) (path : Bytes) : Except Err Rsync :=
  if path = [] then .ok u
  else if !checkUriAscii path then .error .invalidCharacters
  else match checkPath path with
    | .error e => .error e
    | .ok () =>
      let base := if endsWithSlash u.bytes then u.bytes else u.bytes ++ [slash]
      .ok { u with bytes := base ++ path }

/-- `Rsync::canonical_module`: the module with the authority in lower case — only when the authority
has an upper-case letter; otherwise the module text as written -/
def Rsync.canonicalModule (u : Rsync) : Bytes :=
  if u.authority.any (fun c => 65 ≤ c ∧ c ≤ 90) then
    rsyncScheme ++ u.authority.map toLower ++ [47] ++ u.moduleName ++ [47]
  else u.bytes.take u.pathStart

/-- `Rsync::eq_module` — `rsyncModuleCaseInsensitive` is read from the source: whether the
module *name* is compared ignoring case (true in the original code) or exactly. -/
def Rsync.eqModule (u o : Rsync) : Bool :=
  if rsyncModuleCaseInsensitive then
    u.pathStart == o.pathStart && eqIgnoreCase (u.bytes.take u.pathStart) (o.bytes.take o.pathStart)
  else
    u.pathStart == o.pathStart && u.moduleStart == o.moduleStart
      && eqIgnoreCase (u.bytes.take u.moduleStart) (o.bytes.take o.moduleStart)
      && slice u.bytes u.moduleStart u.pathStart == slice o.bytes o.moduleStart o.pathStart

def startsWith (s p : Bytes) : Bool := s.take p.length == p

/-- `Rsync::relative_to` -/
def Rsync.relativeTo (u o : Rsync) : Option Bytes :=
  if !u.eqModule o then none
  else
    let selfPath := u.path
    let otherPath := o.path
    if otherPath = [] then some selfPath
    else
      let otherPath := if endsWithSlash otherPath then otherPath.take (otherPath.length - 1) else otherPath
      if !startsWith selfPath otherPath then none
      else if selfPath.length = otherPath.length then some []
      else if selfPath[otherPath.length]? ≠ some slash then none
      else some (selfPath.drop (otherPath.length + 1))

/-- `Rsync::is_parent_of` -/
def Rsync.isParentOf (u o : Rsync) : Bool :=
  match o.relativeTo u with
  | some p => p ≠ []
  | none => false

/-- `impl PartialEq for Rsync` -/
def Rsync.eq (u o : Rsync) : Bool :=
  if u.bytes.length ≠ o.bytes.length then false
  else eqIgnoreCase (u.bytes.take u.moduleStart) (o.bytes.take u.moduleStart)
    && u.bytes.drop u.moduleStart == o.bytes.drop u.moduleStart

/-- the byte sequence `impl Hash for Rsync` feeds to the hasher -/
def Rsync.hashKey (u : Rsync) : Bytes :=
  (u.bytes.take u.moduleStart).map toLower ++ (u.bytes.drop u.moduleStart).take 1

/-! ### Https -/

structure Https where
  uri : Bytes
  pathIdx : Nat
deriving DecidableEq, Repr

/-- index of the first `/` at or after `start`, else the length -/
def findSlashFrom (b : Bytes) (start : Nat) : Nat :=
  match (b.drop start).findIdx? (· = slash) with
  | some i => start + i
  | none => b.length

/-- `Https::from_bytes` -/
def Https.fromBytes (b : Bytes) : Except Err Https :=
  if !checkUriAscii b then .error .invalidCharacters
  else if startsWithIgnoreCase b httpsScheme then .ok ⟨b, findSlashFrom b 8⟩
  else .error .badScheme     -- rsync:// and everything else

def Https.authority (u : Https) : Bytes := slice u.uri 8 u.pathIdx
def Https.path (u : Https) : Bytes := u.uri.drop u.pathIdx

/-- `Https::join` — `httpsJoinSlashWhenEmpty` is read from the source: whether a `/` is also
inserted when the base has an empty path. -/
def Https.join (u : Https) (path : Bytes) : Except Err Https :=
  if !checkUriAscii path then .error .invalidCharacters
  else
    let needSlash :=
      if httpsJoinSlashWhenEmpty then !endsWithSlash u.path
      else u.path ≠ [] && !endsWithSlash u.path
    .ok { u with uri := u.uri ++ (if needSlash then [slash] else []) ++ path }

/-- `Https::parent` -/
def Https.parent (u : Https) : Option Https :=
  let path := u.path
  let path := if endsWithSlash path then path.take (path.length - 1) else path
  if path = [] then none
  else
    let len := match rfindSlash path with
      | some idx => u.pathIdx + idx + 1
      | none => u.pathIdx
    some { u with uri := u.uri.take len }

/-- `impl PartialEq for Https` -/
def Https.eq (u o : Https) : Bool :=
  u.pathIdx == o.pathIdx
    && eqIgnoreCase (u.uri.take u.pathIdx) (o.uri.take o.pathIdx)
    && u.uri.drop u.pathIdx == o.uri.drop u.pathIdx

def Https.hashKey (u : Https) : Bytes :=
  (u.uri.take u.pathIdx).map toLower ++ u.uri.drop u.pathIdx

/-- `Https::path_is_dir` -/
def Https.pathIsDir (u : Https) : Bool := u.path.isEmpty || endsWithSlash u.path

/-- `Https::path_into_dir`: a slash is appended unless the path is empty or ends in one -/
def Https.pathIntoDir (u : Https) : Https := if u.pathIsDir then u else { u with uri := u.uri ++ [slash] }

/-- `canonical_authority` (both URI types): ASCII letters in lower case -/
def Https.canonicalAuthority (u : Https) : Bytes := u.authority.map toLower
def Rsync.canonicalAuthority (u : Rsync) : Bytes := u.authority.map toLower

/-- `Rsync::ends_with` / `Https::ends_with` on the path -/
def endsWith (s x : Bytes) : Bool := x.length ≤ s.length && s.drop (s.length - x.length) == x

end Rpki.Uri
