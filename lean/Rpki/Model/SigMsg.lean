/-
  CA-protocol CMS (`src/ca/sigmsg.rs`, `src/ca/idcert.rs`): `SignedMessage::validate_at` =
  inspect + verify + `IdCert::validate_ee_at` + `SignedMessageCrl::validate` +
  `verify_not_revoked`, and `SignedMessage::create`.

  Cryptographic verdicts are inputs (`sigOk`: "verifies under the peer's identity key").
-/
import Rpki.Model.SigObj
namespace Rpki.SigMsg
open Rpki.Der Rpki.SigObj

/-- RFC 6492 / 8181 content type 1.2.840.113549.1.9.16.1.28 -/
def protocolCt : Bytes := [42, 134, 72, 134, 247, 13, 1, 9, 16, 1, 28]

structure IdFacts where
  /-- the certificate's signature verifies under the peer key -/
  sigOk : Bool
  validity : X509.Validity
  ski : Bytes
  /-- SHA-1 of the certificate's own public key bits -/
  keyId : Bytes
  aki : Option Bytes
  basicCa : Option Bool
  serial : Bytes
deriving Repr

structure CrlFacts where
  /-- inner and outer signature algorithm agree -/
  algMatch : Bool
  /-- the CRL's signature verifies under the peer key -/
  sigOk : Bool
  thisUpdate : Int
  nextUpdate : Int
  aki : Option Bytes
  /-- serial numbers listed as revoked -/
  revoked : List Bytes
deriving Repr

structure Msg where
  attrs : Bytes
  contentType : Bytes
  content : Bytes
  sid : Bytes
  /-- signature made with the private key of the embedded EE certificate over `sigInput` -/
  sigKeyOk : Bool
  sigInput : Bytes
  ee : IdFacts
  crl : CrlFacts
deriving Repr

/-- `Validity::verify_at` succeeded -/
def windowOk (v : X509.Validity) (when : Int) : Bool :=
  match X509.verifyAt v when with | .ok _ => true | .error _ => false

/-- an authority key identifier, if present, must name the peer key -/
def akiOk (aki : Option Bytes) (peerKeyId : Bytes) : Bool :=
  match aki with | some a => a == peerKeyId | none => true

/-- `IdCert::validate_ee_at` under the peer key whose identifier is `peerKeyId` -/
def eeValid (c : IdFacts) (peerKeyId : Bytes) (when : Int) : Bool :=
  c.ski == c.keyId &&                                            -- inspect_basics
  windowOk c.validity when &&
  akiOk c.aki peerKeyId &&                                       -- verify_issuer_key
  (c.basicCa != some true) &&
  c.sigOk

/-- `SignedMessageCrl::validate` -/
def crlValid (c : CrlFacts) (peerKeyId : Bytes) (when : Int) : Bool :=
  c.algMatch && c.sigOk && !(c.thisUpdate > when) && !(c.nextUpdate < when) &&
  akiOk c.aki peerKeyId

/-- decoding-time checks of `take_signed_data` on the attributes (relaxed attribute mode) -/
def decodeOk (m : Msg) : Option Bytes :=
  if m.contentType ≠ protocolCt then none
  else match parseAttrs false m.attrs with
    | none => none
    | some (ct, md, _) => if ct ≠ m.contentType then none else some md

def sigVerifies (m : Msg) : Bool :=
  match encodeVerify m.attrs with
  | some msg => m.sigKeyOk && m.sigInput == msg
  | none => false

/-- `SignedMessage::validate_at` -/
def validateAt (digest : Bytes → Bytes) (m : Msg) (peerKeyId : Bytes) (when : Int) : Bool :=
  match decodeOk m with
  | none => false
  | some md =>
    m.sid == m.ee.ski &&                                   -- inspect
    digest m.content == md && sigVerifies m &&             -- verify
    eeValid m.ee peerKeyId when &&
    crlValid m.crl peerKeyId when &&
    !(m.crl.revoked.contains m.ee.serial)

/-- what `SignedMessage::create(data, validity, key)` produces, as facts relative to a validating
key with identifier `peer`: everything is signed by key `issuer` -/
def created (digest : Bytes → Bytes) (data : Bytes) (v : X509.Validity) (issuer peer eeKey serial : Bytes)
    (attrs : Bytes) : Msg :=
  { attrs := attrs, contentType := protocolCt, content := data, sid := eeKey, sigKeyOk := true,
    sigInput := (encodeVerify attrs).getD [],
    ee := { sigOk := issuer == peer, validity := v, ski := eeKey, keyId := eeKey, aki := some issuer,
            basicCa := none, serial := serial },
    crl := { algMatch := true, sigOk := issuer == peer, thisUpdate := v.nb, nextUpdate := v.na,
             aki := some issuer, revoked := [] } }

end Rpki.SigMsg
