/-
  DER codec of the RFC 3779 IP address blocks: the BIT STRING prefix content codec, one block
  (prefix or range), the SEQUENCE OF blocks — round trip and soundness of the reader, and the
  shape of IPv4 blocks.
-/
import Rpki.Model.IpDer
import Rpki.Proofs.DerLemmas
import Rpki.Proofs.ManifestCodec
import Rpki.Proofs.ChainFromIter
import Rpki.Proofs.ChainLemmas
import Rpki.Proofs.ChainPrefix
import Rpki.Proofs.AsDerCodec
namespace Rpki.IpDer
open Rpki.Der Rpki.Chain

/-! ### big-endian octets -/

theorem pow256 (n : Nat) : (256 : Nat) ^ n = 2 ^ (8 * n) := by
  have : (256 : Nat) = 2 ^ 8 := by decide
  rw [this, ← Nat.pow_mul]

theorem toNatBE_concat (l : Bytes) (d : Nat) : toNatBE (l ++ [d]) = toNatBE l * 256 + d := by
  induction l with
  | nil => simp [toNatBE]
  | cons b bs ih =>
    simp only [List.cons_append, toNatBE, ih, List.length_append, List.length_cons, List.length_nil,
      Nat.zero_add, Nat.pow_succ]
    rw [Nat.add_mul, Nat.mul_assoc]
    omega

theorem addrOctets_length (a : Nat) : (addrOctets a).length = 16 := by
  simp [addrOctets]

theorem take_addrOctets (a k : Nat) (hk : k ≤ 16) :
    (addrOctets a).take k = (List.range k).map fun i => a / 256 ^ (15 - i) % 256 := by
  unfold addrOctets
  rw [← List.map_take, List.take_range, Nat.min_eq_left hk]

/-- the first `k` big-endian digits of a number are its quotient by the weight of the rest -/
theorem toNatBE_digits (a : Nat) : ∀ k, k ≤ 16 →
    toNatBE ((List.range k).map fun i => a / 256 ^ (15 - i) % 256) = a / 256 ^ (16 - k) % 256 ^ k := by
  intro k
  induction k with
  | zero => intro _; simp [toNatBE, Nat.mod_one]
  | succ k ih =>
    intro hk
    rw [List.range_succ, List.map_append, List.map_singleton, toNatBE_concat, ih (by omega)]
    have e1 : 16 - k = (15 - k) + 1 := by omega
    have e2 : 16 - (k + 1) = 15 - k := by omega
    have e3 : (256 : Nat) ^ (k + 1) = 256 * 256 ^ k := Nat.pow_succ'
    rw [e1, e2, Nat.pow_succ, ← Nat.div_div_eq_div_mul, e3, Nat.mod_mul]
    omega

theorem toNatBE_take (a k : Nat) (ha : a < 2 ^ 128) (hk : k ≤ 16) :
    toNatBE ((addrOctets a).take k) = a / 256 ^ (16 - k) := by
  rw [take_addrOctets a k hk, toNatBE_digits a k hk]
  apply Nat.mod_eq_of_lt
  rw [Nat.div_lt_iff_lt_mul (Nat.pow_pos (by decide)), ← Nat.pow_add]
  have e : k + (16 - k) = 16 := by omega
  rw [e, pow256]
  exact ha

theorem getLast_take_addrOctets (a k : Nat) (hk : k + 1 ≤ 16) :
    ((addrOctets a).take (k + 1)).getLast? = some (a / 256 ^ (15 - k) % 256) := by
  rw [take_addrOctets a (k + 1) hk, List.range_succ, List.map_append, List.map_singleton,
    List.getLast?_concat]

theorem toNatBE_lt : ∀ (c : Bytes), AllBytes c → toNatBE c < 256 ^ c.length := by
  intro c
  induction c with
  | nil => intro _; simp [toNatBE]
  | cons b bs ih =>
    intro hb
    have h1 : b < 256 := hb b (List.mem_cons_self ..)
    have h2 := ih (fun x hx => hb x (List.mem_cons_of_mem _ hx))
    simp only [toNatBE, List.length_cons, Nat.pow_succ]
    have h3 : b * 256 ^ bs.length ≤ 255 * 256 ^ bs.length := Nat.mul_le_mul_right _ (by omega)
    omega

/-! ### `to_min` / `to_max` -/

theorem toMin_mod (x l : Nat) : toMin x l % 2 ^ (128 - l) = 0 := by
  unfold toMin; exact Nat.mul_mod_left _ _

theorem toMin_le (x l : Nat) : toMin x l ≤ x := by
  unfold toMin; exact Nat.div_mul_le_self _ _

theorem toMin_of_mod (x l : Nat) (h : x % 2 ^ (128 - l) = 0) : toMin x l = x := by
  unfold toMin; exact Nat.div_mul_cancel (Nat.dvd_of_mod_eq_zero h)

theorem toMin_idem (x l : Nat) : toMin (toMin x l) l = toMin x l := toMin_of_mod _ _ (toMin_mod x l)

theorem dvd_of_toMin (x l : Nat) (h : toMin x l = x) : 2 ^ (128 - l) ∣ x := by
  unfold toMin at h; exact Dvd.intro_left _ h

theorem toMax_of_mod (x l : Nat) (h : x % 2 ^ (128 - l) = 0) : toMax x l = x + 2 ^ (128 - l) - 1 := by
  have hp : 0 < 2 ^ (128 - l) := Nat.pow_pos (by decide)
  unfold toMax; rw [toMin_of_mod x l h]; omega

/-- an aligned block below `2^128` ends below `2^128` -/
theorem aligned_end (x m : Nat) (hm : m ≤ 128) (hx : x < 2 ^ 128) (hal : x % 2 ^ m = 0) :
    x + 2 ^ m ≤ 2 ^ 128 :=
  add_le_of_dvd_lt (Nat.dvd_of_mod_eq_zero hal) (Nat.pow_dvd_pow 2 hm) hx

/-! ### the prefix content -/

theorem bitStringTake_ok (u : Nat) (bits : Bytes) (last : Nat) (hu : u ≤ 7)
    (hl : bits.getLast? = some last) (hz : last % 2 ^ u = 0) :
    Manifest.bitStringTake (u :: bits) = some (u, bits) := by
  have hne : bits ≠ [] := by intro e; subst e; simp at hl
  have h7 : ¬ u > 7 := by omega
  unfold Manifest.bitStringTake
  simp only [h7, if_false, hne, false_and, hl]
  by_cases h0 : u > 0
  · simp only [h0, if_true, ne_eq, hz, not_true_eq_false, if_false]
  · simp only [h0, if_false]

/-- the octets taken cover the whole address when the rest of it is zero -/
theorem take_value (a k : Nat) (ha : a < 2 ^ 128) (hk : k ≤ 16) (hd : 256 ^ (16 - k) ∣ a) :
    toNatBE ((addrOctets a).take k) * 256 ^ (16 - ((addrOctets a).take k).length) = a := by
  rw [List.length_take, addrOctets_length, Nat.min_eq_left hk, toNatBE_take a k ha hk]
  exact Nat.div_mul_cancel hd

/-- **round trip** of the BIT STRING content of a prefix -/
theorem prefixOfContent_encode (a len : Nat) (hlen : len ≤ 128) (ha : a < 2 ^ 128) (hmin : toMin a len = a) :
    prefixOfContent (encodePrefixContent a len) = some (a, len) := by
  have hdiv := dvd_of_toMin a len hmin
  unfold encodePrefixContent
  by_cases h8 : len % 8 = 0
  · rw [if_pos h8]
    have hk : len / 8 ≤ 16 := by omega
    have hd : 256 ^ (16 - len / 8) ∣ a := by
      rw [pow256]
      have e : 8 * (16 - len / 8) = 128 - len := by omega
      rw [e]; exact hdiv
    have hv := take_value a (len / 8) ha hk hd
    have hl : ((addrOctets a).take (len / 8)).length = len / 8 := by
      rw [List.length_take, addrOctets_length, Nat.min_eq_left hk]
    have hg : ¬ ((addrOctets a).take (len / 8)).length > 16 := by omega
    unfold prefixOfContent
    simp only [Manifest.bitStringTake_zero, hg, if_false, hv]
    have e : 8 * ((addrOctets a).take (len / 8)).length - 0 = len := by omega
    rw [e, hmin]
  · rw [if_neg h8]
    have hk : len / 8 + 1 ≤ 16 := by omega
    have hu : 8 - len % 8 ≤ 7 := by omega
    have hsplit : 128 - len = 8 * (15 - len / 8) + (8 - len % 8) := by omega
    have hd : 256 ^ (16 - (len / 8 + 1)) ∣ a := by
      rw [pow256]
      exact Nat.dvd_trans (Nat.pow_dvd_pow 2 (by omega)) hdiv
    have hv := take_value a (len / 8 + 1) ha hk hd
    have hl : ((addrOctets a).take (len / 8 + 1)).length = len / 8 + 1 := by
      rw [List.length_take, addrOctets_length, Nat.min_eq_left hk]
    have hg : ¬ ((addrOctets a).take (len / 8 + 1)).length > 16 := by omega
    have hz : a / 256 ^ (15 - len / 8) % 256 % 2 ^ (8 - len % 8) = 0 := by
      have h256 : (256 : Nat) = 2 ^ (8 - len % 8) * 2 ^ (len % 8) := by
        rw [← Nat.pow_add]
        have : 8 - len % 8 + len % 8 = 8 := by omega
        rw [this]
      rw [Nat.mod_mod_of_dvd _ (Dvd.intro _ h256.symm)]
      obtain ⟨q, hq⟩ := hdiv
      rw [hsplit, Nat.pow_add, ← pow256] at hq
      rw [hq, Nat.mul_assoc, Nat.mul_div_cancel_left _ (Nat.pow_pos (by decide))]
      exact Nat.mul_mod_right _ _
    have hb := bitStringTake_ok (8 - len % 8) _ _ hu (getLast_take_addrOctets a (len / 8) hk) hz
    unfold prefixOfContent
    simp only [hb, hg, if_false, hv]
    have e : 8 * ((addrOctets a).take (len / 8 + 1)).length - (8 - len % 8) = len := by omega
    rw [e, hmin]


/-! ### one block: round trip -/

theorem takePrim_tlv' (tag : Nat) (c rest : Bytes) (ht : tag % 32 ≠ 31) (hprim : isCons tag = false) :
    takePrim tag (tlv tag c ++ rest) = some (c, rest) := by
  have hr := AsDer.readTlv_tlv' tag c rest ht
  have hn : tagNoCons tag = tag := by
    simp only [isCons, decide_eq_false_iff_not] at hprim
    simp [tagNoCons, hprim]
  rw [tlv_append] at hr ⊢
  simp only [takePrim, takeOptPrim, ht, if_false, ne_eq, hn, not_true_eq_false, hprim,
    Bool.false_eq_true, hr]

/-- a BIT STRING whose content reads as a prefix is read as that prefix's block -/
theorem takeOptBlock_prefix (W a len : Nat) (c rest : Bytes) (hp : prefixOfContent c = some (a, len))
    (hl : len ≤ W) : takeOptBlock W (tlv tagBitString c ++ rest) = .ok ⟨a, toMax a len⟩ rest := by
  have hr := AsDer.readTlv_tlv' tagBitString c rest (by decide)
  rw [tlv_append] at hr ⊢
  have e1 : ¬ tagBitString % 32 = 31 := by decide
  have e2 : tagNoCons tagBitString = tagBitString := by decide
  have e3 : isCons tagBitString = false := by decide
  have e4 : ¬ len > W := by omega
  simp only [takeOptBlock, e1, if_false, hr, e2, if_true, e3, Bool.false_eq_true, hp, e4]

/-- a SEQUENCE of two BIT STRINGs reading as prefixes is read as the range from the first one's
lowest to the second one's highest address -/
theorem takeOptBlock_range (W a1 l1 a2 l2 : Nat) (c1 c2 rest : Bytes)
    (hp1 : prefixOfContent c1 = some (a1, l1)) (hp2 : prefixOfContent c2 = some (a2, l2))
    (h1 : l1 ≤ W) (h2 : l2 ≤ W) (hle : a1 ≤ toMax a2 l2) :
    takeOptBlock W (tlv tagSeq (tlv tagBitString c1 ++ tlv tagBitString c2) ++ rest)
      = .ok ⟨a1, toMax a2 l2⟩ rest := by
  have hr := AsDer.readTlv_tlv' tagSeq (tlv tagBitString c1 ++ tlv tagBitString c2) rest (by decide)
  have p1 := takePrim_tlv' tagBitString c1 (tlv tagBitString c2) (by decide) (by decide)
  have p2 := takePrim_tlv' tagBitString c2 [] (by decide) (by decide)
  rw [List.append_nil] at p2
  rw [tlv_append] at hr ⊢
  have e1 : ¬ tagSeq % 32 = 31 := by decide
  have e2 : ¬ (16 : Nat) = tagBitString := by decide
  have e3 : tagNoCons tagSeq = 0x10 := by decide
  have e4 : isCons tagSeq = true := by decide
  have e5 : ¬ (l1 > W ∨ l2 > W) := by omega
  have e6 : ¬ a1 > toMax a2 l2 := by omega
  simp only [takeOptBlock, e1, if_false, hr, e2, e3, if_true, e4, Bool.not_true, Bool.false_eq_true,
    p1, p2, hp1, hp2, e5, ne_eq, not_true_eq_false, e6]

theorem intoPrefix_le (W lo hi len : Nat) (h : intoPrefix W lo hi = some len) : len ≤ W := by
  unfold intoPrefix at h
  simp only at h
  split at h
  · injection h with h
    subst h
    unfold leadingZeros
    split
    · exact Nat.le_refl _
    · exact Nat.sub_le _ _
  · cases h

theorem trailingZerosAux_le : ∀ (f x : Nat), trailingZerosAux f x ≤ f := by
  intro f
  induction f with
  | zero => intro x; simp [trailingZerosAux]
  | succ f ih =>
    intro x
    rw [trailingZerosAux]
    split
    · omega
    · have := ih (x / 2); omega

theorem trailingOnesAux_le : ∀ (f x : Nat), trailingOnesAux f x ≤ f := by
  intro f
  induction f with
  | zero => intro x; simp [trailingOnesAux]
  | succ f ih =>
    intro x
    rw [trailingOnesAux]
    split
    · omega
    · have := ih (x / 2); omega

theorem tz_le (x : Nat) : tz x ≤ 128 := by
  unfold tz trailingZeros
  split
  · exact Nat.le_refl _
  · exact trailingZerosAux_le _ _

theorem to1_le (x : Nat) : to1 x ≤ 128 := trailingOnesAux_le _ _

/-- `min_to_prefix`: the lower bound of a range with its trailing zeros as host bits -/
theorem lo_prefix (x : Nat) (hx : x < 2 ^ 128) : toMin x (128 - tz x) = x := by
  apply toMin_of_mod
  have e : 128 - (128 - tz x) = tz x := by have := tz_le x; omega
  rw [e]
  exact trailingZeros_dvd 128 x hx

/-- `max_to_prefix`: the upper bound of a range with its trailing ones as host bits -/
theorem hi_prefix (x : Nat) : toMax (toMin x (128 - to1 x)) (128 - to1 x) = x := by
  rw [toMax_of_mod _ _ (toMin_mod _ _)]
  have e : 128 - (128 - to1 x) = to1 x := by have := to1_le x; omega
  unfold toMin
  rw [e]
  have h1 : x % 2 ^ to1 x = 2 ^ to1 x - 1 :=
    (trailingOnesAux_ge 128 (to1 x) x (to1_le x)).1 (Nat.le_refl _)
  have h2 := Nat.div_add_mod x (2 ^ to1 x)
  have hp : 0 < 2 ^ to1 x := Nat.pow_pos (by decide)
  rw [Nat.mul_comm] at h2
  omega

/-- **round trip** of one block -/
theorem takeOptBlock_encodeBlock (b : Blk) (hb : b.lo ≤ b.hi) (hhi : b.hi ≤ maxAddr) (rest : Bytes) :
    takeOptBlock 128 (encodeBlock b ++ rest) = .ok b rest := by
  have hM : maxAddr = 2 ^ 128 - 1 := rfl
  have hhi' : b.hi < 2 ^ 128 := by omega
  have hlo : b.lo < 2 ^ 128 := by omega
  unfold encodeBlock
  split
  · rename_i len hip
    obtain ⟨hal, hh⟩ := intoPrefix_sound 128 b.lo b.hi len hip
    have hlen := intoPrefix_le 128 b.lo b.hi len hip
    have hp := prefixOfContent_encode b.lo len hlen hlo (toMin_of_mod _ _ hal)
    rw [takeOptBlock_prefix 128 b.lo len _ rest hp hlen, toMax_of_mod _ _ hal, ← hh]
  · simp only
    have hp1 := prefixOfContent_encode (toMin b.lo (128 - tz b.lo)) (128 - tz b.lo) (by omega)
      (Nat.lt_of_le_of_lt (toMin_le _ _) hlo) (toMin_idem _ _)
    have hp2 := prefixOfContent_encode (toMin b.hi (128 - to1 b.hi)) (128 - to1 b.hi) (by omega)
      (Nat.lt_of_le_of_lt (toMin_le _ _) hhi') (toMin_idem _ _)
    rw [takeOptBlock_range 128 _ _ _ _ _ _ rest hp1 hp2 (by omega) (by omega)
      (by rw [lo_prefix _ hlo, hi_prefix]; exact hb), lo_prefix _ hlo, hi_prefix]

theorem takeOptBlock_nil (W : Nat) : takeOptBlock W [] = .absent := rfl

/-! ### the SEQUENCE OF blocks: round trip -/

theorem encodeBlock_length (b : Blk) : 2 ≤ (encodeBlock b).length := by
  unfold encodeBlock
  split
  · have := Manifest.tlv_length tagBitString (encodePrefixContent b.lo ‹Nat›); omega
  · simp only
    have := Manifest.tlv_length tagSeq
      (tlv tagBitString (encodePrefixContent (toMin b.lo (128 - tz b.lo)) (128 - tz b.lo)) ++
        tlv tagBitString (encodePrefixContent (toMin b.hi (128 - to1 b.hi)) (128 - to1 b.hi)))
    omega

theorem length_le_encodeBlocks (c : List Blk) : c.length ≤ ((c.map encodeBlock).flatten).length := by
  induction c with
  | nil => simp
  | cons b bs ih =>
    have := encodeBlock_length b
    simp only [List.map_cons, List.flatten_cons, List.length_append, List.length_cons]
    omega

theorem blocksLoop_encode : ∀ (c : List Blk) (fuel : Nat), c.length ≤ fuel →
    (∀ b ∈ c, b.lo ≤ b.hi ∧ b.hi ≤ maxAddr) →
    blocksLoop 128 fuel ((c.map encodeBlock).flatten) = some c := by
  intro c
  induction c with
  | nil =>
    intro fuel _ _
    cases fuel with
    | zero => simp [blocksLoop]
    | succ f => simp [blocksLoop, takeOptBlock_nil]
  | cons b bs ih =>
    intro fuel hf hv
    cases fuel with
    | zero => simp at hf
    | succ f =>
      have hbv := hv b (List.mem_cons_self ..)
      rw [List.map_cons, List.flatten_cons, blocksLoop, takeOptBlock_encodeBlock b hbv.1 hbv.2]
      simp only
      rw [ih f (by simpa using hf) (fun x hx => hv x (List.mem_cons_of_mem _ hx))]
      rfl

/-- **round trip** of the whole value, of any size -/
theorem decodeBlocks_encodeBlocks (c : List Blk) (hc : Canon maxAddr c) :
    decodeBlocks 128 (encodeBlocks c) = some c := by
  have h1 := AsDer.takeCons_tlv' tagSeq ((c.map encodeBlock).flatten) [] (by decide) (by decide)
  rw [List.append_nil] at h1
  unfold decodeBlocks encodeBlocks
  simp only [h1]
  rw [blocksLoop_encode c _ (length_le_encodeBlocks c) hc.1]
  simp only [Option.map_some, AsDer.fromIter_canon_id maxAddr c hc]

/-! ### soundness -/

theorem bitStringTake_inv (c : Bytes) (u : Nat) (bits : Bytes)
    (h : Manifest.bitStringTake c = some (u, bits)) : c = u :: bits := by
  cases c with
  | nil => simp [Manifest.bitStringTake] at h
  | cons x xs =>
    simp only [Manifest.bitStringTake] at h
    repeat' split at h
    all_goals (cases h <;> rfl)

/-- what `Prefix::from_bit_string` returns: an address aligned to its length … -/
theorem prefixOfContent_aligned (c : Bytes) (a len : Nat) (h : prefixOfContent c = some (a, len)) :
    a % 2 ^ (128 - len) = 0 := by
  unfold prefixOfContent at h
  cases hb : Manifest.bitStringTake c with
  | none => simp only [hb] at h; cases h
  | some p =>
    obtain ⟨u, octets⟩ := p
    simp only [hb] at h
    split at h
    · cases h
    · simp only [Option.some.injEq, Prod.mk.injEq] at h
      obtain ⟨h1, h2⟩ := h
      subst h2; subst h1
      exact toMin_mod _ _

/-- … and, when the content consists of octets, below `2^128` -/
theorem prefixOfContent_lt (c : Bytes) (hc : AllBytes c) (a len : Nat)
    (h : prefixOfContent c = some (a, len)) : a < 2 ^ 128 := by
  unfold prefixOfContent at h
  cases hb : Manifest.bitStringTake c with
  | none => simp only [hb] at h; cases h
  | some p =>
    obtain ⟨u, octets⟩ := p
    have hc' := bitStringTake_inv c u octets hb
    simp only [hb] at h
    split at h
    · cases h
    · rename_i hlen
      simp only [Option.some.injEq, Prod.mk.injEq] at h
      obtain ⟨h1, h2⟩ := h
      subst h2; subst h1
      apply Nat.lt_of_le_of_lt (toMin_le _ _)
      have ho : AllBytes octets := fun x hx => hc x (by rw [hc']; exact List.mem_cons_of_mem _ hx)
      have hT := toNatBE_lt octets ho
      have hpos : 0 < 256 ^ (16 - octets.length) := Nat.pow_pos (by decide)
      have h3 := (Nat.mul_lt_mul_right hpos).2 hT
      rw [← Nat.pow_add] at h3
      have e : octets.length + (16 - octets.length) = 16 := by omega
      rw [e, pow256 16] at h3
      exact h3

/-- the upper end of a prefix read from octets is inside the address space -/
theorem prefix_hi_le (c : Bytes) (hc : AllBytes c) (a len : Nat) (h : prefixOfContent c = some (a, len)) :
    a ≤ toMax a len ∧ toMax a len ≤ maxAddr := by
  have hal := prefixOfContent_aligned c a len h
  have hlt := prefixOfContent_lt c hc a len h
  have he := aligned_end a (128 - len) (Nat.sub_le _ _) hlt hal
  have hM : maxAddr = 2 ^ 128 - 1 := rfl
  have hp : 0 < 2 ^ (128 - len) := Nat.pow_pos (by decide)
  rw [toMax_of_mod a len hal]
  omega

/-- the two shapes `takeOptBlock` accepts -/
theorem takeOptBlock_inv (W : Nat) (b : Bytes) (blk : Blk) (rest : Bytes)
    (h : takeOptBlock W b = .ok blk rest) :
    ∃ t c, readTlv b = some (t, c, rest) ∧
      ((∃ a len, prefixOfContent c = some (a, len) ∧ len ≤ W ∧ blk = ⟨a, toMax a len⟩) ∨
       (∃ c1 r1 c2 r2 a1 l1 a2 l2, takePrim tagBitString c = some (c1, r1) ∧
          takePrim tagBitString r1 = some (c2, r2) ∧ prefixOfContent c1 = some (a1, l1) ∧
          prefixOfContent c2 = some (a2, l2) ∧ l1 ≤ W ∧ l2 ≤ W ∧ a1 ≤ toMax a2 l2 ∧
          blk = ⟨a1, toMax a2 l2⟩)) := by
  cases b with
  | nil => simp [takeOptBlock] at h
  | cons t r =>
    simp only [takeOptBlock] at h
    by_cases c0 : t % 32 = 31
    · simp only [c0, if_true] at h; cases h
    · simp only [c0, if_false] at h
      cases hr : readTlv (t :: r) with
      | none => simp only [hr] at h; cases h
      | some p =>
        obtain ⟨t', c, rest'⟩ := p
        simp only [hr] at h
        by_cases c1 : tagNoCons t = tagBitString
        · simp only [c1, if_true] at h
          by_cases c2 : isCons t = true
          · simp only [c2, if_true] at h; cases h
          · simp only [c2, Bool.false_eq_true, if_false] at h
            cases hd : prefixOfContent c with
            | none => simp only [hd] at h; cases h
            | some v =>
              obtain ⟨a, len⟩ := v
              simp only [hd] at h
              by_cases c3 : len > W
              · simp only [c3, if_true] at h; cases h
              · simp only [c3, if_false, Take.ok.injEq] at h
                obtain ⟨h1, h2⟩ := h
                subst h1; subst h2
                exact ⟨t', c, rfl, Or.inl ⟨a, len, hd, by omega, rfl⟩⟩
        · simp only [c1, if_false] at h
          by_cases c2 : tagNoCons t = 0x10
          · simp only [c2, if_true] at h
            by_cases c3 : (!isCons t) = true
            · simp only [c3, if_true] at h; cases h
            · simp only [c3, Bool.false_eq_true, if_false] at h
              cases hp1 : takePrim tagBitString c with
              | none => simp only [hp1] at h; cases h
              | some p1 =>
                obtain ⟨c1', r1⟩ := p1
                simp only [hp1] at h
                cases hp2 : takePrim tagBitString r1 with
                | none => simp only [hp2] at h; cases h
                | some p2 =>
                  obtain ⟨c2', r2⟩ := p2
                  simp only [hp2] at h
                  cases hd1 : prefixOfContent c1' with
                  | none => simp only [hd1] at h; cases h
                  | some v1 =>
                    obtain ⟨a1, l1⟩ := v1
                    cases hd2 : prefixOfContent c2' with
                    | none => simp only [hd1, hd2] at h; cases h
                    | some v2 =>
                      obtain ⟨a2, l2⟩ := v2
                      simp only [hd1, hd2] at h
                      by_cases c4 : l1 > W ∨ l2 > W
                      · rw [if_pos c4] at h; cases h
                      · rw [if_neg c4] at h
                        by_cases c5 : r2 ≠ []
                        · rw [if_pos c5] at h; cases h
                        · rw [if_neg c5] at h
                          by_cases c6 : a1 > toMax a2 l2
                          · rw [if_pos c6] at h; cases h
                          · rw [if_neg c6] at h
                            simp only [Take.ok.injEq] at h
                            obtain ⟨h1, h2⟩ := h
                            subst h1; subst h2
                            exact ⟨t', c, rfl, Or.inr ⟨c1', r1, c2', r2, a1, l1, a2, l2, hp1, hp2, hd1, hd2,
                              by omega, by omega, by omega, rfl⟩⟩
          · simp only [c2, if_false] at h; cases h

/-- every block the reader accepts from octets is well-formed and inside the address space (for
every family width `W`), and what is left are input octets -/
theorem takeOptBlock_ok (W : Nat) (b : Bytes) (hb : AllBytes b) (blk : Blk) (rest : Bytes)
    (h : takeOptBlock W b = .ok blk rest) :
    (blk.lo ≤ blk.hi ∧ blk.hi ≤ maxAddr) ∧ AllBytes rest := by
  obtain ⟨t, c, hr, hcase⟩ := takeOptBlock_inv W b blk rest h
  obtain ⟨sc, sr⟩ := AsDer.readTlv_sub _ _ _ _ hr
  have hc : AllBytes c := fun x hx => hb x (sc x hx)
  refine ⟨?_, fun x hx => hb x (sr x hx)⟩
  rcases hcase with ⟨a, len, hp, _, hblk⟩ | ⟨c1, r1, c2, r2, a1, l1, a2, l2, hp1, hp2, _, hd2, _, _, hle, hblk⟩
  · subst hblk
    exact prefix_hi_le c hc a len hp
  · subst hblk
    obtain ⟨_, s1r⟩ := AsDer.takePrim_sub _ _ _ _ hp1
    obtain ⟨s2, _⟩ := AsDer.takePrim_sub _ _ _ _ hp2
    have hc2 : AllBytes c2 := fun x hx => hc x (s1r x (s2 x hx))
    exact ⟨hle, (prefix_hi_le c2 hc2 a2 l2 hd2).2⟩

theorem takeOptBlock_wf (W : Nat) (b : Bytes) (blk : Blk) (rest : Bytes)
    (h : takeOptBlock W b = .ok blk rest) (hb : AllBytes b) : blk.lo ≤ blk.hi ∧ blk.hi ≤ maxAddr :=
  (takeOptBlock_ok W b hb blk rest h).1

theorem blocksLoop_sound (W : Nat) : ∀ (fuel : Nat) (b : Bytes) (bs : List Blk), AllBytes b →
    blocksLoop W fuel b = some bs → ∀ blk ∈ bs, blk.lo ≤ blk.hi ∧ blk.hi ≤ maxAddr := by
  intro fuel
  induction fuel with
  | zero =>
    intro b bs _ h
    simp only [blocksLoop] at h
    split at h
    · simp only [Option.some.injEq] at h; subst h; simp
    · cases h
  | succ f ih =>
    intro b bs hb h
    rw [blocksLoop] at h
    cases ht : takeOptBlock W b with
    | absent => simp only [ht, Option.some.injEq] at h; subst h; simp
    | bad => simp only [ht] at h; cases h
    | ok blk rest =>
      simp only [ht] at h
      obtain ⟨hblk, hrest⟩ := takeOptBlock_ok W b hb blk rest ht
      cases hr : blocksLoop W f rest with
      | none => simp only [hr, Option.map_none] at h; cases h
      | some bs' =>
        simp only [hr, Option.map_some, Option.some.injEq] at h
        subst h
        intro x hx
        rcases List.mem_cons.1 hx with e | e
        · subst e; exact hblk
        · exact ih rest bs' hrest hr x e

/-- **soundness**: whatever octets decode, for either family, the result is a canonical chain … -/
theorem decodeBlocks_sound (W : Nat) (b : Bytes) (hb : AllBytes b) (c : List Blk)
    (h : decodeBlocks W b = some c) : Canon maxAddr c := by
  unfold decodeBlocks at h
  cases h1 : takeCons tagSeq b with
  | none => simp only [h1] at h; cases h
  | some p =>
    obtain ⟨content, r0⟩ := p
    obtain ⟨s1, _⟩ := AsDer.takeCons_sub _ _ _ _ h1
    have hcon : AllBytes content := fun x hx => hb x (s1 x hx)
    simp only [h1] at h
    cases hl : blocksLoop W content.length content with
    | none => simp only [hl, Option.map_none] at h; cases h
    | some bs =>
      simp only [hl, Option.map_some, Option.some.injEq] at h
      subst h
      exact (fromIter_spec' maxAddr bs (blocksLoop_sound W _ _ _ hcon hl)).1

/-- … denoting exactly the union of the listed blocks -/
theorem decodeBlocks_den (W : Nat) (b : Bytes) (hb : AllBytes b) (c : List Blk)
    (h : decodeBlocks W b = some c) :
    ∃ content rest bs, takeCons tagSeq b = some (content, rest) ∧
      blocksLoop W content.length content = some bs ∧
      ∀ x, mem c x ↔ ∃ blk ∈ bs, blk.lo ≤ x ∧ x ≤ blk.hi := by
  unfold decodeBlocks at h
  cases h1 : takeCons tagSeq b with
  | none => simp only [h1] at h; cases h
  | some p =>
    obtain ⟨content, r0⟩ := p
    obtain ⟨s1, _⟩ := AsDer.takeCons_sub _ _ _ _ h1
    have hcon : AllBytes content := fun x hx => hb x (s1 x hx)
    simp only [h1] at h
    cases hl : blocksLoop W content.length content with
    | none => simp only [hl, Option.map_none] at h; cases h
    | some bs =>
      simp only [hl, Option.map_some, Option.some.injEq] at h
      subst h
      exact ⟨content, r0, bs, rfl, hl, (fromIter_spec' maxAddr bs (blocksLoop_sound W _ _ _ hcon hl)).2⟩

/-! ### the IPv4 family -/

theorem aligned_mod96 (x m : Nat) (hm : 96 ≤ m) (hx : x % 2 ^ m = 0) : x % 2 ^ 96 = 0 :=
  Nat.mod_eq_zero_of_dvd (Nat.dvd_trans (Nat.pow_dvd_pow 2 hm) (Nat.dvd_of_mod_eq_zero hx))

theorem ones_mod96 (x m : Nat) (hm : 96 ≤ m) (hx : x % 2 ^ m = 0) :
    (x + 2 ^ m - 1) % 2 ^ 96 = 2 ^ 96 - 1 := by
  have hp : 0 < 2 ^ m := Nat.pow_pos (by decide)
  have hd : 2 ^ 96 ∣ x + 2 ^ m :=
    Nat.dvd_add (Nat.dvd_of_mod_eq_zero (aligned_mod96 x m hm hx)) (Nat.pow_dvd_pow 2 hm)
  obtain ⟨q, hq⟩ := hd
  have e : x + 2 ^ m - 1 = 2 ^ 96 * (q - 1) + (2 ^ 96 - 1) := by
    have : 1 ≤ q := by
      rcases Nat.eq_zero_or_pos q with h0 | h0
      · subst h0; omega
      · exact h0
    omega
  rw [e, Nat.mul_add_mod]
  exact Nat.mod_eq_of_lt (by omega)

/-- blocks of the IPv4 family (`W = 32`) have the low 96 bits clear in the lower and set in the upper
bound (the octets need not even be in range for this) -/
theorem takeOptBlock_v4_shape' (b : Bytes) (blk : Blk) (rest : Bytes)
    (h : takeOptBlock 32 b = .ok blk rest) : blk.lo % 2 ^ 96 = 0 ∧ blk.hi % 2 ^ 96 = 2 ^ 96 - 1 := by
  obtain ⟨t, c, _, hcase⟩ := takeOptBlock_inv 32 b blk rest h
  rcases hcase with ⟨a, len, hp, hl, hblk⟩ | ⟨c1, r1, c2, r2, a1, l1, a2, l2, _, _, hd1, hd2, hl1, hl2, _, hblk⟩
  · subst hblk
    have hal := prefixOfContent_aligned c a len hp
    refine ⟨aligned_mod96 a _ (by omega) hal, ?_⟩
    show toMax a len % 2 ^ 96 = 2 ^ 96 - 1
    rw [toMax_of_mod a len hal]
    exact ones_mod96 a _ (by omega) hal
  · subst hblk
    have hal1 := prefixOfContent_aligned c1 a1 l1 hd1
    have hal2 := prefixOfContent_aligned c2 a2 l2 hd2
    refine ⟨aligned_mod96 a1 _ (by omega) hal1, ?_⟩
    show toMax a2 l2 % 2 ^ 96 = 2 ^ 96 - 1
    rw [toMax_of_mod a2 l2 hal2]
    exact ones_mod96 a2 _ (by omega) hal2

theorem takeOptBlock_v4_shape (b : Bytes) (hb : AllBytes b) (blk : Blk) (rest : Bytes)
    (h : takeOptBlock 32 b = .ok blk rest) : blk.lo % 2 ^ 96 = 0 ∧ blk.hi % 2 ^ 96 = 2 ^ 96 - 1 := by
  have _ := hb
  exact takeOptBlock_v4_shape' b blk rest h

end Rpki.IpDer
