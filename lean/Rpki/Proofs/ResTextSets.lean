/-
  Text form of resource sets (`Rpki/Model/ResText.lean`): IPv6 blocks and sets read back what was
  written, and the set-level round trips for canonical chains (IPv6, and IPv4 for chains of
  IPv4-shaped blocks).
-/
import Rpki.Model.ResText
import Rpki.Proofs.ResTextLemmas
import Rpki.Proofs.ResTextV6
import Rpki.Proofs.ChainLemmas
import Rpki.Proofs.ChainPrefix
import Rpki.Proofs.AsDerCodec
import Rpki.Proofs.IpDerCodec
namespace Rpki.ResText
open Rpki.Chain

/-! ### the characters of a written IPv6 address -/

/-- a hexadecimal digit in lower case, `:` or `.` -/
def V6Char (c : Nat) : Prop := c = 46 ∨ c = 58 ∨ (48 ≤ c ∧ c ≤ 57) ∨ (97 ≤ c ∧ c ≤ 102)

theorem hexDigit_range (d : Nat) (h : d < 16) :
    (48 ≤ hexDigit d ∧ hexDigit d ≤ 57) ∨ (97 ≤ hexDigit d ∧ hexDigit d ≤ 102) := by
  unfold hexDigit; split <;> omega

theorem hexLower_chars (g : Nat) : ∀ c ∈ hexLower g, V6Char c := by
  obtain ⟨ds, h1, _, h3, _, _⟩ := v6_hexAux_spec (g + 1) g [] (by omega)
  intro c hc
  unfold hexLower at hc
  rw [h1, List.append_nil] at hc
  obtain ⟨d, hd, rfl⟩ := List.mem_map.mp hc
  exact Or.inr (Or.inr (hexDigit_range d (h3 d hd)))

theorem joinColon_chars : ∀ (gs : List Nat), ∀ c ∈ joinColon gs, V6Char c := by
  intro gs
  induction gs with
  | nil => intro c hc; simp [joinColon] at hc
  | cons g rest ih =>
    cases rest with
    | nil => intro c hc; simp only [joinColon] at hc; exact hexLower_chars g c hc
    | cons g' rest =>
      intro c hc
      rw [v6_joinColon_cons2] at hc
      simp only [List.mem_append, List.mem_cons] at hc
      rcases hc with hc | rfl | hc
      · exact hexLower_chars g c hc
      · exact Or.inr (Or.inl rfl)
      · exact ih c (by simpa using hc)

theorem fmtV4_v6chars (v : Nat) : ∀ c ∈ fmtV4 v, V6Char c := by
  intro c hc
  have := (fmtV4_chars v).2 c hc
  unfold V6Char
  omega

/-- the three shapes `fmtV6` writes -/
theorem fmtV6_cases (a : Nat) :
    (fmtV6 a = [58, 58, 102, 102, 102, 102, 58] ++ fmtV4 (a % 2 ^ 32)) ∨
    (∃ xs ys, fmtV6 a = joinColon xs ++ [58, 58] ++ joinColon ys) ∨
    (fmtV6 a = joinColon (groups a)) := by
  unfold fmtV6
  split
  · exact Or.inl rfl
  · show (match longestZeros (groups a) 0 0 0 0 0 with
      | (st, len) =>
        if len > 1 then joinColon (List.take st (groups a)) ++ [58, 58] ++ joinColon (List.drop (st + len) (groups a))
        else joinColon (groups a)) = _ ∨ (∃ xs ys, (match longestZeros (groups a) 0 0 0 0 0 with
      | (st, len) =>
        if len > 1 then joinColon (List.take st (groups a)) ++ [58, 58] ++ joinColon (List.drop (st + len) (groups a))
        else joinColon (groups a)) = _) ∨ (match longestZeros (groups a) 0 0 0 0 0 with
      | (st, len) =>
        if len > 1 then joinColon (List.take st (groups a)) ++ [58, 58] ++ joinColon (List.drop (st + len) (groups a))
        else joinColon (groups a)) = _
    generalize longestZeros (groups a) 0 0 0 0 0 = r
    obtain ⟨st, len⟩ := r
    simp only
    split
    · exact Or.inr (Or.inl ⟨_, _, rfl⟩)
    · exact Or.inr (Or.inr rfl)

theorem fmtV6_chars (a : Nat) : ∀ c ∈ fmtV6 a, V6Char c := by
  intro c hc
  rcases fmtV6_cases a with e | ⟨xs, ys, e⟩ | e
  · rw [e] at hc
    simp only [List.cons_append, List.nil_append, List.mem_cons] at hc
    rcases hc with rfl | rfl | rfl | rfl | rfl | rfl | rfl | hc
    · exact Or.inr (Or.inl rfl)
    · exact Or.inr (Or.inl rfl)
    · exact Or.inr (Or.inr (Or.inr (by omega)))
    · exact Or.inr (Or.inr (Or.inr (by omega)))
    · exact Or.inr (Or.inr (Or.inr (by omega)))
    · exact Or.inr (Or.inr (Or.inr (by omega)))
    · exact Or.inr (Or.inl rfl)
    · exact fmtV4_v6chars _ c hc
  · rw [e] at hc
    simp only [List.mem_append, List.mem_cons, List.not_mem_nil, or_false] at hc
    rcases hc with (hc | rfl | rfl) | hc
    · exact joinColon_chars xs c hc
    · exact Or.inr (Or.inl rfl)
    · exact Or.inr (Or.inl rfl)
    · exact joinColon_chars ys c hc
  · rw [e] at hc
    exact joinColon_chars _ c hc

/-- a written IPv6 address always holds a `:` (also the IPv4-mapped form) -/
theorem fmtV6_has_colon (a : Nat) : 58 ∈ fmtV6 a := by
  rcases fmtV6_cases a with e | ⟨xs, ys, e⟩ | e
  · rw [e]; simp
  · rw [e]; simp
  · rw [e, v6_groups_eq, v6_joinColon_cons2]; simp

theorem fmtV6_ne_nil (a : Nat) : fmtV6 a ≠ [] := by
  intro h
  have := fmtV6_has_colon a
  rw [h] at this
  cases this

theorem V6Char.ge {c : Nat} (h : V6Char c) : 46 ≤ c ∧ c ≠ 47 ∧ c ≠ 60 := by
  unfold V6Char at h; omega

/-! ### IPv6 blocks and sets -/

/-- an IPv6 block as the chain stores it: a prefix of at most 128 bits with its host bits clear, or a
range inside the 128-bit space -/
def V6Shaped : TBlk → Prop
  | .pfx a len => len ≤ 128 ∧ a < 2 ^ 128 ∧ a / 2 ^ (128 - len) * 2 ^ (128 - len) = a
  | .range lo hi => lo ≤ hi ∧ hi < 2 ^ 128

theorem parseAddr_fmt_v6 (x : Nat) (h : x < 2 ^ 128) : parseAddr false (fmtAddr false x) = some x := by
  unfold parseAddr fmtAddr
  simp only [Bool.false_eq_true, if_false]
  exact parseV6_fmtV6 x h

theorem fmtAddr_v6_chars (x : Nat) : ∀ c ∈ fmtAddr false x, V6Char c := by
  unfold fmtAddr
  simp only [Bool.false_eq_true, if_false]
  exact fmtV6_chars x

theorem fmtAddr_v6_has_colon (x : Nat) : 58 ∈ fmtAddr false x := by
  unfold fmtAddr
  simp only [Bool.false_eq_true, if_false]
  exact fmtV6_has_colon x

theorem parseIpBlock_fmt_v6 (t : TBlk) (h : V6Shaped t) :
    (parseIpBlock false (fmtBlock false t)).map tblkBounds = some (tblkBounds t) := by
  cases t with
  | pfx a len =>
    obtain ⟨hlen, ha, hal⟩ := h
    have hch := fun c hc => (fmtAddr_v6_chars a c hc).ge
    have hpa := parseAddr_fmt_v6 a ha
    by_cases h128 : len = 128
    · subst h128
      simp only [fmtBlock, Bool.false_eq_true, if_false, if_true, List.append_nil]
      unfold parseIpBlock
      rw [findSep_none 47 _ (fun c hc => (hch c hc).2.1)]
      simp only
      rw [findSep_none 45 _ (fun c hc => by have := hch c hc; omega)]
      simp only [hpa, Option.map_some, Bool.false_eq_true, if_false, tblkBounds, hostMask, Nat.sub_self,
        Nat.pow_zero, Nat.add_zero]
    · simp only [fmtBlock, Bool.false_eq_true, if_false, h128, List.singleton_append]
      unfold parseIpBlock
      rw [findSep_some 47 _ _ (fun c hc => (hch c hc).2.1)]
      simp only [take_left', drop_sep, hpa, parseLen_decimal len (by omega), Bool.false_eq_true, if_false]
      have : ¬ len > 128 := by omega
      simp only [this, if_false, hal, Option.map_some]
  | range lo hi =>
    obtain ⟨hle, hlt⟩ := h
    have hcl := fun c hc => (fmtAddr_v6_chars lo c hc).ge
    have hch := fun c hc => (fmtAddr_v6_chars hi c hc).ge
    have hpl := parseAddr_fmt_v6 lo (by omega)
    have hph := parseAddr_fmt_v6 hi hlt
    by_cases hq : lo = hi
    · subst hq
      simp only [fmtBlock, Bool.false_eq_true, if_false, if_true]
      unfold parseIpBlock
      rw [findSep_none 47 _ (fun c hc => (hcl c hc).2.1)]
      simp only
      rw [findSep_none 45 _ (fun c hc => by have := hcl c hc; omega)]
      simp only [hpl, Option.map_some, Bool.false_eq_true, if_false, tblkBounds]
    · simp only [fmtBlock, Bool.false_eq_true, hq, if_false, List.append_assoc, List.singleton_append]
      unfold parseIpBlock
      rw [findSep_none 47 _ (fun c hc => by
        simp only [List.mem_append, List.mem_cons] at hc
        rcases hc with hc | rfl | hc
        · exact (hcl c hc).2.1
        · decide
        · exact (hch c hc).2.1)]
      simp only
      rw [findSep_some 45 _ _ (fun c hc => by have := hcl c hc; omega)]
      simp only [take_left', drop_sep, hpl, hph, Bool.false_eq_true, if_false, Option.map_some, tblkBounds]

/-- what a written IPv6 block is made of: not empty, a `:` in it, every character `-` or above and
not `<` -/
theorem fmtBlock_v6_chars (t : TBlk) :
    fmtBlock false t ≠ [] ∧ 58 ∈ fmtBlock false t ∧ ∀ c ∈ fmtBlock false t, 45 ≤ c ∧ c ≠ 60 := by
  have hA := fun x c hc => (fmtAddr_v6_chars x c hc).ge
  have hC := fun x => fmtAddr_v6_has_colon x
  have key : ∀ p : Bytes, 58 ∈ p → (∀ c ∈ p, 45 ≤ c ∧ c ≠ 60) → p ≠ [] ∧ 58 ∈ p ∧ ∀ c ∈ p, 45 ≤ c ∧ c ≠ 60 :=
    fun p h1 h2 => ⟨fun e => (by rw [e] at h1; cases h1), h1, h2⟩
  cases t with
  | pfx a len =>
    simp only [fmtBlock, Bool.false_eq_true, if_false]
    apply key
    · exact List.mem_append_left _ (hC a)
    · intro c hc
      rcases List.mem_append.1 hc with hc | hc
      · have := hA a c hc; omega
      · split at hc
        · simp at hc
        · simp only [List.singleton_append, List.mem_cons] at hc
          rcases hc with rfl | hc
          · decide
          · have := (decimal_digits len).2 c hc; omega
  | range lo hi =>
    by_cases hq : lo = hi
    · simp only [fmtBlock, Bool.false_eq_true, if_false, if_true, hq]
      exact key _ (hC hi) (fun c hc => by have := hA hi c hc; omega)
    · simp only [fmtBlock, Bool.false_eq_true, hq, if_false]
      apply key
      · exact List.mem_append_left _ (List.mem_append_left _ (hC lo))
      · intro c hc
        simp only [List.mem_append, List.mem_singleton] at hc
        rcases hc with (hc | rfl) | hc
        · have := hA lo c hc; omega
        · decide
        · have := hA hi c hc; omega

theorem parseIpItems_fmt_v6 (ts : List TBlk) (h : ∀ t ∈ ts, V6Shaped t) :
    (parseIpItems false (fmtIp false ts)).map (·.map tblkBounds) = some (ts.map tblkBounds) := by
  unfold parseIpItems fmtIp
  simp only [Bool.false_eq_true, if_false]
  rw [items_joinComma]
  · have hany : (ts.map (fmtBlock false)).any (fun s => s.contains 46 && !s.contains 58) = false := by
      rw [List.any_eq_false]
      intro p hp
      obtain ⟨t, _, rfl⟩ := List.mem_map.1 hp
      have h58 : (fmtBlock false t).contains 58 = true := by
        simp only [List.contains_eq_mem, decide_eq_true_eq]
        exact (fmtBlock_v6_chars t).2.1
      simp only [h58, Bool.not_true, Bool.and_false, Bool.false_eq_true, not_false_eq_true]
    simp only [hany, Bool.false_eq_true, if_false]
    exact mapM_map_some_map (parseIpBlock false) (fmtBlock false) tblkBounds ts
      (fun t ht => parseIpBlock_fmt_v6 t (h t ht))
  · intro p hp
    obtain ⟨t, _, rfl⟩ := List.mem_map.1 hp
    exact ⟨(fmtBlock_v6_chars t).1, fun c hc => ((fmtBlock_v6_chars t).2.2 c hc).1⟩

/-! ### canonical chains -/

theorem intoPrefix_some {W lo hi len : Nat} (h : intoPrefix W lo hi = some len) :
    len ≤ W ∧ lo / 2 ^ (W - len) * 2 ^ (W - len) = lo ∧ lo + (2 ^ (W - len) - 1) = hi := by
  have hle := IpDer.intoPrefix_le W lo hi len h
  unfold intoPrefix at h
  simp only at h
  split at h
  · next hc =>
    injection h with h
    rw [h] at hc
    exact ⟨hle, hc.1, by rw [hc.1] at hc; exact hc.2⟩
  · cases h

/-- the stored variant of a block denotes the block and is of the IPv6 shape -/
theorem tagged_bounds (b : Blk) (h : b.lo ≤ b.hi) (hh : b.hi < 2 ^ 128) :
    tblkBounds (tagged b) = b ∧ V6Shaped (tagged b) := by
  obtain ⟨lo, hi⟩ := b
  simp only at h hh
  unfold tagged
  simp only
  cases e : intoPrefix 128 lo hi with
  | none => exact ⟨rfl, h, hh⟩
  | some len =>
    obtain ⟨h1, h2, h3⟩ := intoPrefix_some e
    refine ⟨?_, h1, by omega, h2⟩
    simp only [tblkBounds, hostMask, h3]

/-- the items read from the text of a canonical IPv6 chain denote its blocks, in order -/
theorem parseIpItems_tagged_v6 (c : List Blk) (hc : Canon (2 ^ 128 - 1) c) :
    ∃ ts, parseIpItems false (fmtIp false (c.map tagged)) = some ts ∧ ts.map tblkBounds = c := by
  have hb : ∀ b ∈ c, tblkBounds (tagged b) = b ∧ V6Shaped (tagged b) := fun b hb =>
    tagged_bounds b (hc.1 b hb).1 (by have := (hc.1 b hb).2; omega)
  have h := parseIpItems_fmt_v6 (c.map tagged) (fun t ht => by
    obtain ⟨b, hb', rfl⟩ := List.mem_map.1 ht
    exact (hb b hb').2)
  have hid : (c.map tagged).map tblkBounds = c := by
    rw [List.map_map]
    conv => rhs; rw [← List.map_id c]
    exact List.map_congr_left (fun b hb' => (hb b hb').1)
  rw [hid] at h
  cases e : parseIpItems false (fmtIp false (c.map tagged)) with
  | none => rw [e] at h; simp at h
  | some ts =>
    rw [e] at h
    simp only [Option.map_some, Option.some.injEq] at h
    exact ⟨ts, rfl, h⟩

theorem ip6_text_set_roundtrip (c : List Blk) (hc : Canon (2 ^ 128 - 1) c) :
    (parseIpItems false (fmtIp false (c.map tagged))).map (fun ts => fromIter (2 ^ 128 - 1) (ts.map tblkBounds)) = some c := by
  obtain ⟨ts, e, h⟩ := parseIpItems_tagged_v6 c hc
  rw [e]
  simp only [Option.map_some, Option.some.injEq]
  rw [h]
  exact AsDer.fromIter_canon_id _ c hc

/-- a prefix found for an IPv4-shaped block has at most 32 bits -/
theorem intoPrefix_v4_le (lo hi len : Nat) (h : intoPrefix 128 lo hi = some len)
    (hlo : lo % 2 ^ 96 = 0) (hhi : hi % 2 ^ 96 = 2 ^ 96 - 1) : len ≤ 32 := by
  obtain ⟨h1, h2, h3⟩ := intoPrefix_some h
  by_cases hl : len ≤ 32
  · exact hl
  · exfalso
    have hp : 2 ^ (128 - len) ≤ 2 ^ 95 := Nat.pow_le_pow_right (by decide) (by omega)
    have hpos : 0 < 2 ^ (128 - len) := Nat.pow_pos (by decide)
    generalize 2 ^ (128 - len) = sz at *
    omega

theorem tagged_v4 (b : Blk) (h : b.lo ≤ b.hi) (hh : b.hi < 2 ^ 128)
    (h4 : b.lo % 2 ^ 96 = 0 ∧ b.hi % 2 ^ 96 = 2 ^ 96 - 1) :
    tblkBounds (tagged b) = b ∧ V4Shaped (tagged b) := by
  refine ⟨(tagged_bounds b h hh).1, ?_⟩
  obtain ⟨lo, hi⟩ := b
  simp only at h hh h4
  unfold tagged
  simp only
  cases e : intoPrefix 128 lo hi with
  | none => exact ⟨h4.1, h4.2, h, hh⟩
  | some len =>
    obtain ⟨_, h2, _⟩ := intoPrefix_some e
    exact ⟨intoPrefix_v4_le lo hi len e h4.1 h4.2, h4.1, by omega, h2⟩

/-- the items read from the text of a canonical chain of IPv4-shaped blocks denote its blocks -/
theorem parseIpItems_tagged_v4 (c : List Blk) (hc : Canon (2 ^ 128 - 1) c)
    (h4 : ∀ b ∈ c, b.lo % 2 ^ 96 = 0 ∧ b.hi % 2 ^ 96 = 2 ^ 96 - 1) :
    ∃ ts, parseIpItems true (fmtIp true (c.map tagged)) = some ts ∧ ts.map tblkBounds = c := by
  have hb : ∀ b ∈ c, tblkBounds (tagged b) = b ∧ V4Shaped (tagged b) := fun b hb =>
    tagged_v4 b (hc.1 b hb).1 (by have := (hc.1 b hb).2; omega) (h4 b hb)
  have h := parseIpItems_fmt_v4 (c.map tagged) (fun t ht => by
    obtain ⟨b, hb', rfl⟩ := List.mem_map.1 ht
    exact (hb b hb').2)
  have hid : (c.map tagged).map tblkBounds = c := by
    rw [List.map_map]
    conv => rhs; rw [← List.map_id c]
    exact List.map_congr_left (fun b hb' => (hb b hb').1)
  rw [hid] at h
  cases e : parseIpItems true (fmtIp true (c.map tagged)) with
  | none => rw [e] at h; simp at h
  | some ts =>
    rw [e] at h
    simp only [Option.map_some, Option.some.injEq] at h
    exact ⟨ts, rfl, h⟩

theorem ip4_text_set_roundtrip (c : List Blk) (hc : Canon (2 ^ 128 - 1) c)
    (h4 : ∀ b ∈ c, b.lo % 2 ^ 96 = 0 ∧ b.hi % 2 ^ 96 = 2 ^ 96 - 1) :
    (parseIpItems true (fmtIp true (c.map tagged))).map (fun ts => fromIter (2 ^ 128 - 1) (ts.map tblkBounds)) = some c := by
  obtain ⟨ts, e, h⟩ := parseIpItems_tagged_v4 c hc h4
  rw [e]
  simp only [Option.map_some, Option.some.injEq]
  rw [h]
  exact AsDer.fromIter_canon_id _ c hc

/-! ### the written sets as attribute values: no `"` and no `<` -/

theorem mem_joinComma : ∀ (ps : List Bytes) (c : Nat), c ∈ joinComma ps → c = 44 ∨ c = 32 ∨ ∃ p ∈ ps, c ∈ p := by
  intro ps
  induction ps with
  | nil => intro c hc; simp [joinComma] at hc
  | cons p rest ih =>
    cases rest with
    | nil =>
      intro c hc
      simp only [joinComma] at hc
      exact Or.inr (Or.inr ⟨p, by simp, hc⟩)
    | cons q rest =>
      intro c hc
      simp only [joinComma, List.mem_append, List.mem_cons, List.not_mem_nil, or_false] at hc
      rcases hc with (hc | rfl | rfl) | hc
      · exact Or.inr (Or.inr ⟨p, by simp, hc⟩)
      · exact Or.inl rfl
      · exact Or.inr (Or.inl rfl)
      · rcases ih c (by simpa only [joinComma] using hc) with h | h | ⟨r, hr, hcr⟩
        · exact Or.inl h
        · exact Or.inr (Or.inl h)
        · exact Or.inr (Or.inr ⟨r, List.mem_cons_of_mem _ hr, hcr⟩)

theorem joinComma_value (ps : List Bytes) (h : ∀ p ∈ ps, ∀ c ∈ p, 45 ≤ c ∧ c ≠ 60) :
    34 ∉ joinComma ps ∧ 60 ∉ joinComma ps := by
  constructor
  · intro hm
    rcases mem_joinComma ps 34 hm with e | e | ⟨p, hp, hc⟩
    · omega
    · omega
    · have := h p hp 34 hc; omega
  · intro hm
    rcases mem_joinComma ps 60 hm with e | e | ⟨p, hp, hc⟩
    · omega
    · omega
    · have := h p hp 60 hc; omega

theorem fmtAsBlock_chars' (b : Blk) : ∀ c ∈ fmtAsBlock b, 45 ≤ c ∧ c ≠ 60 := by
  intro c hc
  unfold fmtAsBlock at hc
  split at hc
  · simp only [List.cons_append, List.nil_append, List.mem_cons] at hc
    rcases hc with rfl | rfl | hc
    · decide
    · decide
    · have := (decimal_digits b.lo).2 c hc; omega
  · simp only [List.cons_append, List.nil_append, List.mem_cons, List.mem_append, List.append_assoc] at hc
    rcases hc with rfl | rfl | hc | rfl | rfl | rfl | hc
    · decide
    · decide
    · have := (decimal_digits b.lo).2 c hc; omega
    · decide
    · decide
    · decide
    · have := (decimal_digits b.hi).2 c hc; omega

theorem fmtAs_value (c : List Blk) : 34 ∉ fmtAs c ∧ 60 ∉ fmtAs c := by
  unfold fmtAs
  apply joinComma_value
  intro p hp
  obtain ⟨b, _, rfl⟩ := List.mem_map.1 hp
  exact fmtAsBlock_chars' b

theorem fmtIp_value (v4 : Bool) (ts : List TBlk) : 34 ∉ fmtIp v4 ts ∧ 60 ∉ fmtIp v4 ts := by
  unfold fmtIp
  apply joinComma_value
  intro p hp
  obtain ⟨t, _, rfl⟩ := List.mem_map.1 hp
  cases v4 with
  | true => intro c hc; have := (fmtBlock_v4_chars t).2 c hc; omega
  | false => exact (fmtBlock_v6_chars t).2.2

end Rpki.ResText
