/-
  `CmsDer.decodeSigObj` reads back what `CmsEnc.encodeSigObj` writes (`SignedObject::encode_ref` /
  `SignedObject::take_from` in strict mode).
-/
import Rpki.Model.CmsEnc
import Rpki.Proofs.CertEncLemmas
import Rpki.Proofs.CmsDerLemmas
namespace Rpki.CmsEnc
open Rpki.Der Rpki.CertDer Rpki.CmsDer Rpki.CertEnc Rpki.Consts

theorem takeDigestAlg_enc (rest : Bytes) : takeDigestAlg (digestAlgEnc ++ rest) = some rest := by
  unfold takeDigestAlg digestAlgEnc
  rw [AsDer.takeCons_tlv' tagSeq _ rest (by decide) (by decide)]
  dsimp only
  rw [takePrim_tlv_nil tagOid oidSha256 (by decide) (by decide)]
  have hn : takeOptNull [] = some (false, []) := by decide
  simp [hn]

theorem takeCmsSigAlg_enc (rest : Bytes) : takeCmsSigAlg (cmsSigAlgEnc ++ rest) = some (true, rest) := by
  unfold takeCmsSigAlg cmsSigAlgEnc
  rw [AsDer.takeCons_tlv' tagSeq _ rest (by decide) (by decide)]
  dsimp only
  rw [takeOid_tlv oidRsaEncryption _ (by decide)]
  have hn : takeOptNull (tlv tagNull []) = some (true, []) := by decide
  simp [hn]

theorem skipU8_enc (n : Nat) (rest : Bytes) : skipU8 n (tlv tagInt [n] ++ rest) = some rest := by
  unfold skipU8
  rw [IpDer.takePrim_tlv' tagInt [n] rest (by decide) (by decide)]
  simp

theorem signerInfo_enc (ct sid attrs md sig : Bytes) (st : X509.Civil) (hsid : sid.length = 20)
    (hp : SigObj.parseAttrs true attrs = some (ct, md, st)) :
    signerInfo ct (tlv tagInt [3] ++ tlv 0x80 sid ++ digestAlgEnc ++ tlv 0xA0 attrs ++ cmsSigAlgEnc ++
      tlv tagOctetString sig) = some (sid, attrs, md, st, sig) := by
  unfold signerInfo
  simp only [List.append_assoc]
  rw [skipU8_enc]
  dsimp only
  rw [IpDer.takePrim_tlv' 0x80 sid _ (by decide) (by decide)]
  dsimp only
  have hk : keyIdOk sid = true := by simp [keyIdOk, hsid]
  simp only [hk, Bool.not_true, Bool.false_eq_true, if_false]
  rw [takeDigestAlg_enc]
  dsimp only
  rw [AsDer.takeCons_tlv' 0xA0 attrs _ (by decide) (by decide)]
  dsimp only
  rw [hp]
  dsimp only
  simp only [ne_eq, not_true_eq_false, if_false]
  rw [takeCmsSigAlg_enc]
  dsimp only
  rw [takePrim_tlv_nil tagOctetString sig (by decide) (by decide)]
  simp

/-- **`SignedObject::take_from` (strict) reads back what `SignedObject::encode_ref` writes**, given that the
embedded certificate octets are read by `Cert::take_from` and the signed attributes parse. -/
theorem decodeSigObj_encodeSigObj (ct content cb sid attrs md sig : Bytes) (st : X509.Civil) (cert : Decoded)
    (hct : oidOk ct = true) (hsid : sid.length = 20)
    (hp : SigObj.parseAttrs true attrs = some (ct, md, st))
    (hcert : takeCert cb = some (cert, [])) :
    decodeSigObj (encodeSigObj ct content cb sid attrs sig) =
      some { contentType := ct, content := content, cert := cert, sid := sid, attrs := attrs,
             messageDigest := md, signingTime := st, signature := sig } := by
  unfold decodeSigObj encodeSigObj
  rw [takeCons_tlv_nil tagSeq _ (by decide) (by decide)]
  dsimp only
  rw [IpDer.takePrim_tlv' tagOid oidSignedData _ (by decide) (by decide)]
  dsimp only
  simp only [ne_eq, not_true_eq_false, if_false]
  rw [takeCons_tlv_nil 0xA0 _ (by decide) (by decide)]
  dsimp only
  simp only [not_true_eq_false, if_false]
  rw [takeCons_tlv_nil tagSeq _ (by decide) (by decide)]
  dsimp only
  simp only [not_true_eq_false, if_false]
  unfold signedData
  simp only [List.append_assoc]
  rw [skipU8_enc]
  dsimp only
  rw [AsDer.takeCons_tlv' tagSet _ _ (by decide) (by decide)]
  dsimp only
  have hd := takeDigestAlg_enc []
  rw [List.append_nil] at hd
  rw [hd]
  dsimp only
  simp only [ne_eq, not_true_eq_false, if_false]
  rw [AsDer.takeCons_tlv' tagSeq _ _ (by decide) (by decide)]
  dsimp only
  rw [takeOid_tlv ct _ hct]
  dsimp only
  rw [takeCons_tlv_nil 0xA0 _ (by decide) (by decide)]
  dsimp only
  simp only [not_true_eq_false, if_false]
  rw [takePrim_tlv_nil tagOctetString content (by decide) (by decide)]
  dsimp only
  simp only [not_true_eq_false, if_false]
  rw [AsDer.takeCons_tlv' 0xA0 cb _ (by decide) (by decide)]
  dsimp only
  rw [hcert]
  dsimp only
  simp only [not_true_eq_false, if_false]
  rw [takeCons_tlv_nil tagSet _ (by decide) (by decide)]
  dsimp only
  simp only [not_true_eq_false, if_false]
  unfold signerInfoEnc
  rw [takeCons_tlv_nil tagSeq _ (by decide) (by decide)]
  dsimp only
  simp only [not_true_eq_false, if_false]
  rw [signerInfo_enc ct sid attrs md sig st hsid hp]

end Rpki.CmsEnc
