/-
  Manifest content codec: whatever `ManifestContent::encode_ref` writes, `ManifestContent::take_from`
  reads back (fields, entry count, captured file list, iterator), and encoding the decoded value again
  gives the same octets.
-/
import Rpki.Proofs.DerLemmas
import Rpki.Proofs.ManifestLemmas
import Rpki.Proofs.X509Time
import Rpki.Proofs.X509Serial3
namespace Rpki.Manifest
open Rpki.Der

/-! ### sizes -/

theorem encLen_length (n : Nat) : 1 ≤ (encLen n).length ∧ (encLen n).length ≤ 5 := by
  unfold encLen
  split
  · simp
  · split
    · simp
    · split
      · simp
      · split <;> simp

theorem tlv_length (t : Nat) (c : Bytes) :
    c.length + 2 ≤ (tlv t c).length ∧ (tlv t c).length ≤ c.length + 6 := by
  have := encLen_length c.length
  simp only [tlv, List.length_cons, List.length_append]
  omega

theorem encodeFileList_cons (e : Entry) (es : List Entry) :
    encodeFileList (e :: es) = encodeEntry e ++ encodeFileList es := by
  simp [encodeFileList]

theorem encodeFileList_nil : encodeFileList [] = [] := rfl

theorem encodeEntry_length (e : Entry) :
    e.name.length + e.hash.length + 7 ≤ (encodeEntry e).length := by
  have h1 := tlv_length tagIa5 e.name
  have h2 := tlv_length tagBitString (0 :: e.hash)
  have h3 := tlv_length tagSeq (tlv tagIa5 e.name ++ tlv tagBitString (0 :: e.hash))
  simp only [List.length_append, List.length_cons] at h2 h3
  unfold encodeEntry
  omega

/-- every entry takes octets, so the octet count bounds the entry count (the loops' fuel) -/
theorem length_le_encodeFileList (es : List Entry) : es.length ≤ (encodeFileList es).length := by
  induction es with
  | nil => simp
  | cons e es ih =>
    have := encodeEntry_length e
    rw [encodeFileList_cons, List.length_append, List.length_cons]
    omega

/-! ### names are ASCII -/

theorem validChar_lt {c : Nat} (h : validChar c = true) : c < 128 := by
  unfold validChar isAlnum isAlpha at h
  simp only [Bool.or_eq_true, Bool.and_eq_true, decide_eq_true_eq] at h
  omega

theorem isAlpha_lt {c : Nat} (h : isAlpha c = true) : c < 128 := by
  unfold isAlpha at h
  simp only [Bool.or_eq_true, Bool.and_eq_true, decide_eq_true_eq] at h
  omega

theorem validName_ascii {n : Bytes} (h : validName n = true) : n.all (· < 128) = true := by
  obtain ⟨stem, ext, e, hs, _, ha⟩ := (validName_iff' n).1 h
  subst e
  rw [List.all_eq_true]
  intro x hx
  simp only [decide_eq_true_eq]
  rcases List.mem_append.1 hx with hx | hx
  · exact validChar_lt (List.all_eq_true.1 hs _ hx)
  · rcases List.mem_cons.1 hx with hx | hx
    · omega
    · exact isAlpha_lt (List.all_eq_true.1 ha _ hx)

/-! ### one entry -/

theorem takeIa5_tlv (c rest : Bytes) (ha : c.all (· < 128) = true) (hc : c.length < 2 ^ 32) :
    takeIa5 (tlv tagIa5 c ++ rest) = some (c, rest) := by
  unfold takeIa5
  rw [takePrim_tlv tagIa5 c rest (by decide) (by decide) hc]
  simp only [ha, if_true]

theorem bitStringTake_zero (h : Bytes) : bitStringTake (0 :: h) = some (0, h) := by
  simp [bitStringTake]

theorem takeEntryBody_encode (e : Entry) (hv : validName e.name = true)
    (hn : e.name.length < 2 ^ 32) (hh : e.hash.length + 1 < 2 ^ 32) :
    takeEntryBody (tlv tagIa5 e.name ++ tlv tagBitString (0 :: e.hash)) = some e := by
  unfold takeEntryBody
  rw [takeIa5_tlv e.name _ (validName_ascii hv) hn]
  have hb := takePrim_tlv tagBitString (0 :: e.hash) [] (by decide) (by decide)
    (by simpa using hh)
  rw [List.append_nil] at hb
  simp only [hv, Bool.not_true, Bool.false_eq_true, if_false, hb, bitStringTake_zero, if_true]

theorem takeOptEntry_encode (e : Entry) (rest : Bytes) (hv : validName e.name = true)
    (hl : (encodeEntry e).length < 2 ^ 32) :
    takeOptEntry (encodeEntry e ++ rest) = .ok e rest := by
  have h0 := encodeEntry_length e
  have h3 := tlv_length tagSeq (tlv tagIa5 e.name ++ tlv tagBitString (0 :: e.hash))
  have hc : (tlv tagIa5 e.name ++ tlv tagBitString (0 :: e.hash)).length < 2 ^ 32 := by
    unfold encodeEntry at hl; omega
  unfold takeOptEntry encodeEntry
  rw [takeOptCons_tlv tagSeq _ rest (by decide) (by decide) hc]
  simp only [takeEntryBody_encode e hv (by omega) (by omega)]

theorem skipOptEntry_encode (e : Entry) (rest : Bytes) (hv : validName e.name = true)
    (hl : (encodeEntry e).length < 2 ^ 32) :
    skipOptEntry (encodeEntry e ++ rest) = .ok () rest :=
  ((skip_take_parity _).2.2 rest).2 ⟨e, takeOptEntry_encode e rest hv hl, hv⟩

theorem takeOptEntry_nil : takeOptEntry [] = .absent := rfl
theorem skipOptEntry_nil : skipOptEntry [] = .absent := rfl

/-! ### the file list: more fuel than entries suffices -/

theorem countLoop_encode : ∀ (es : List Entry) (fuel n : Nat), es.length ≤ fuel →
    (∀ e ∈ es, validName e.name = true) → (encodeFileList es).length < 2 ^ 32 →
    countLoop fuel (encodeFileList es) n = some (n + es.length) := by
  intro es
  induction es with
  | nil =>
    intro fuel n _ _ _
    cases fuel with
    | zero => simp [countLoop, encodeFileList_nil]
    | succ f => simp [countLoop, encodeFileList_nil, skipOptEntry_nil]
  | cons e es ih =>
    intro fuel n hf hv hl
    rw [encodeFileList_cons, List.length_append] at hl
    cases fuel with
    | zero => simp at hf
    | succ f =>
      rw [encodeFileList_cons, countLoop,
        skipOptEntry_encode e _ (hv e (List.mem_cons_self ..)) (by omega)]
      simp only
      rw [ih f (n + 1) (by simpa using hf) (fun x hx => hv x (List.mem_cons_of_mem _ hx)) (by omega)]
      simp only [List.length_cons]
      congr 1; omega

theorem iterLoop_encode : ∀ (es : List Entry) (fuel : Nat), es.length ≤ fuel →
    (∀ e ∈ es, validName e.name = true) → (encodeFileList es).length < 2 ^ 32 →
    iterLoop fuel (encodeFileList es) = some es := by
  intro es
  induction es with
  | nil =>
    intro fuel _ _ _
    cases fuel with
    | zero => simp [iterLoop]
    | succ f => simp [iterLoop, encodeFileList_nil, takeOptEntry_nil]
  | cons e es ih =>
    intro fuel hf hv hl
    rw [encodeFileList_cons, List.length_append] at hl
    cases fuel with
    | zero => simp at hf
    | succ f =>
      rw [encodeFileList_cons, iterLoop,
        takeOptEntry_encode e _ (hv e (List.mem_cons_self ..)) (by omega)]
      simp only
      rw [ih f (by simpa using hf) (fun x hx => hv x (List.mem_cons_of_mem _ hx)) (by omega)]
      rfl

/-! ### times -/

theorem genTime_length (c : X509.Civil) : (genTime c).length = 15 := by
  simp [genTime, X509.pad4, X509.pad2]

theorem decodeTime_genTime (c : X509.Civil) (hv : X509.validCivil c = true) (hy : c.y ≤ 9999) :
    X509.decodeTime .generalized (genTime c) = some c := by
  unfold X509.decodeTime X509.decodeTimeWith genTime
  simp only [List.append_assoc]
  rw [X509.readChars_pad4 _ _ (by omega)]
  simp only
  have := X509.readRest_render c hv
  simp only [List.append_assoc] at this
  exact this

theorem takeTime_genTime (c : X509.Civil) (rest : Bytes) (hv : X509.validCivil c = true)
    (hy : c.y ≤ 9999) : takeTime (tlv tagGenTime (genTime c) ++ rest) = some (c, rest) := by
  unfold takeTime
  rw [takeOptPrim_other tagUtcTime tagGenTime _ _ (by decide) (by decide)]
  simp only
  rw [takeOptPrim_tlv tagGenTime _ _ (by decide) (by decide) (by rw [genTime_length]; decide)]
  simp only [decodeTime_genTime c hv hy, Option.map_some]

/-! ### the whole content -/

theorem serialContent_length (number : Bytes) (hn : X509.VS number) :
    (X509.encodeContent number).length ≤ 20 := by
  unfold X509.encodeContent
  rw [List.length_drop, hn.1]; omega

theorem decodeFields_encode (number : Bytes) (tu nu : X509.Civil) (es : List Entry)
    (hn : X509.VS number)
    (htu : X509.validCivil tu = true) (hnu : X509.validCivil nu = true)
    (hy1 : tu.y ≤ 9999) (hy2 : nu.y ≤ 9999)
    (hord : civilKey tu ≤ civilKey nu)
    (hes : ∀ e ∈ es, validName e.name = true)
    (hsize : (encodeFileList es).length < 2 ^ 32) :
    decodeFields (tlv tagInt (X509.encodeContent number) ++ tlv tagGenTime (genTime tu) ++
      tlv tagGenTime (genTime nu) ++ tlv tagOid sha256Oid ++ tlv tagSeq (encodeFileList es))
      = some ⟨number, tu, nu, encodeFileList es, es.length⟩ := by
  have hsl := serialContent_length number hn
  have hser := (X509.der_roundtrip' number hn).1
  have hfl := takeCons_tlv tagSeq (encodeFileList es) [] (by decide) (by decide) hsize
  rw [List.append_nil] at hfl
  have hcnt := countLoop_encode es (encodeFileList es).length 0 (length_le_encodeFileList es) hes hsize
  have hord' : ¬ civilKey tu > civilKey nu := by omega
  unfold decodeFields
  simp only [List.append_assoc]
  rw [takePrim_tlv tagInt _ _ (by decide) (by decide) (by omega)]
  simp only [hser]
  rw [takeTime_genTime tu _ htu hy1]
  simp only
  rw [takeTime_genTime nu _ hnu hy2]
  simp only
  rw [takePrim_tlv tagOid _ _ (by decide) (by decide) (by decide)]
  simp only [ne_eq, not_true_eq_false, if_false, hord', hfl, hcnt, Nat.zero_add]

theorem takeVersion_int (c rest : Bytes) :
    takeVersion (tlv tagInt c ++ rest) = some (tlv tagInt c ++ rest) := by
  unfold takeVersion
  rw [takeOptCons_other 0xA0 tagInt c rest (by decide) (by decide)]

/-- an entry as the builder may be given it: a legal file name (any hash octets) -/
def EntryOk (e : Entry) : Prop := validName e.name = true

/-- **Decode ∘ encode.** Whatever the builder encodes, the decoder reads back: the same number and
times, the entry count, the captured file list, and the iterator yields exactly the entries. -/
theorem decode_encode (number : Bytes) (tu nu : X509.Civil) (es : List Entry)
    (hn : X509.VS number)
    (htu : X509.validCivil tu = true) (hnu : X509.validCivil nu = true)
    (hy1 : tu.y ≤ 9999) (hy2 : nu.y ≤ 9999)
    (hord : civilKey tu ≤ civilKey nu)
    (hes : ∀ e ∈ es, EntryOk e)
    (hsize : (encodeFileList es).length < 2 ^ 31) :
    ∃ m, decodeContent (encodeContent number tu nu es) = some m ∧
      m.number = number ∧ m.thisUpdate = tu ∧ m.nextUpdate = nu ∧ m.len = es.length ∧
      m.fileList = encodeFileList es ∧ m.iter = some es := by
  have hsize' : (encodeFileList es).length < 2 ^ 32 := by omega
  refine ⟨⟨number, tu, nu, encodeFileList es, es.length⟩, ?_, rfl, rfl, rfl, rfl, rfl, ?_⟩
  · have hsl := serialContent_length number hn
    have l1 := tlv_length tagInt (X509.encodeContent number)
    have l2 := tlv_length tagGenTime (genTime tu)
    have l3 := tlv_length tagGenTime (genTime nu)
    have l4 := tlv_length tagOid sha256Oid
    have l5 := tlv_length tagSeq (encodeFileList es)
    have g1 := genTime_length tu
    have g2 := genTime_length nu
    have g3 : sha256Oid.length = 9 := rfl
    have hout := takeCons_tlv tagSeq
      (tlv tagInt (X509.encodeContent number) ++ tlv tagGenTime (genTime tu) ++
        tlv tagGenTime (genTime nu) ++ tlv tagOid sha256Oid ++ tlv tagSeq (encodeFileList es)) []
      (by decide) (by decide) (by simp only [List.length_append]; omega)
    rw [List.append_nil] at hout
    unfold decodeContent encodeContent
    rw [hout]
    simp only
    have hv : takeVersion (tlv tagInt (X509.encodeContent number) ++ tlv tagGenTime (genTime tu) ++
        tlv tagGenTime (genTime nu) ++ tlv tagOid sha256Oid ++ tlv tagSeq (encodeFileList es)) =
        some (tlv tagInt (X509.encodeContent number) ++ tlv tagGenTime (genTime tu) ++
        tlv tagGenTime (genTime nu) ++ tlv tagOid sha256Oid ++ tlv tagSeq (encodeFileList es)) := by
      simp only [List.append_assoc]
      exact takeVersion_int _ _
    rw [hv]
    simp only
    exact decodeFields_encode number tu nu es hn htu hnu hy1 hy2 hord hes hsize'
  · exact iterLoop_encode es _ (length_le_encodeFileList es) hes hsize'

/-- **Byte-identical re-encoding.** Encoding what was decoded gives the same octets. -/
theorem reencode (number : Bytes) (tu nu : X509.Civil) (es : List Entry)
    (hn : X509.VS number)
    (htu : X509.validCivil tu = true) (hnu : X509.validCivil nu = true)
    (hy1 : tu.y ≤ 9999) (hy2 : nu.y ≤ 9999)
    (hord : civilKey tu ≤ civilKey nu)
    (hes : ∀ e ∈ es, EntryOk e)
    (hsize : (encodeFileList es).length < 2 ^ 31) :
    ∀ m es', decodeContent (encodeContent number tu nu es) = some m → m.iter = some es' →
      encodeContent m.number m.thisUpdate m.nextUpdate es' = encodeContent number tu nu es := by
  intro m es' hm hi
  obtain ⟨m0, h0, e1, e2, e3, _, _, e6⟩ :=
    decode_encode number tu nu es hn htu hnu hy1 hy2 hord hes hsize
  have hm' : m0 = m := Option.some.inj (h0.symm.trans hm)
  subst hm'
  have hi' : es = es' := Option.some.inj (e6.symm.trans hi)
  rw [e1, e2, e3, ← hi']

/-! ### non-vacuity: the hypotheses are satisfiable and the statement computes -/

example : ∃ (number : Bytes) (tu nu : X509.Civil) (es : List Entry),
    X509.VS number ∧ X509.validCivil tu = true ∧ X509.validCivil nu = true ∧ tu.y ≤ 9999 ∧ nu.y ≤ 9999 ∧
    civilKey tu ≤ civilKey nu ∧ (∀ e ∈ es, EntryOk e) ∧ (encodeFileList es).length < 2 ^ 31 ∧ es ≠ [] := by
  refine ⟨List.replicate 19 0 ++ [128], ⟨2024, 2, 29, 23, 59, 59⟩, ⟨2024, 3, 1, 0, 0, 0⟩,
    [⟨[97, 46, 99, 101, 114], [1, 2, 255]⟩, ⟨[98, 45, 95, 46, 114, 111, 97], []⟩],
    ⟨by decide, ?_, by decide⟩, by decide, by decide, by decide, by decide, by decide, ?_, by decide, by decide⟩
  · intro b hb; simp at hb; rcases hb with h | h <;> omega
  · intro e he; simp at he; rcases he with h | h <;> subst h <;> (show validName _ = true) <;> decide

end Rpki.Manifest
