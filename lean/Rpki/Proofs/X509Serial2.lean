import Rpki.Proofs.X509Serial
namespace Rpki.X509

/-- a valid serial: 20 octets, top bit clear (value below 2^159) -/
def VS (a : Bytes) : Prop := a.length = 20 ∧ AllBytes a ∧ toNatBE a * 2 < 256 ^ 20

theorem VS.ne_nil {a : Bytes} (h : VS a) : a ≠ [] := by
  intro e; have := h.1; rw [e] at this; simp at this

theorem vs_zero : VS zero20 := by
  refine ⟨by simp [zero20], allBytes_replicate 20, ?_⟩
  unfold zero20; rw [toNatBE_replicate_zero]; decide

/-! ### decimal text -/

theorem digitsVal_append (a b : Bytes) (acc : Nat) :
    digitsVal (a ++ b) acc = digitsVal b (digitsVal a acc) := by
  induction a generalizing acc with
  | nil => rfl
  | cons x xs ih => simp only [List.cons_append, digitsVal, ih]

theorem digitsVal_ge (t : Bytes) (acc : Nat) : acc ≤ digitsVal t acc := by
  induction t generalizing acc with
  | nil => simp [digitsVal]
  | cons x xs ih =>
    simp only [digitsVal]
    have := ih (acc * 10 + (x - 48))
    omega

/-- `from_str`: succeeds exactly on all-digit strings whose value is below 2^159, with that value -/
theorem fromStrAux_sound : ∀ (t res a : Bytes), VS res → fromStrAux t res = some a →
    t.all isDigit = true ∧ toNatBE a = digitsVal t (toNatBE res) ∧ VS a := by
  intro t
  induction t with
  | nil =>
    intro res a hr h
    simp only [fromStrAux] at h; injection h with h; subst h
    exact ⟨rfl, rfl, hr⟩
  | cons ch rest ih =>
    intro res a hr h
    rw [fromStrAux] at h
    by_cases hd : isDigit ch = true
    · simp only [hd, if_true] at h
      cases hm : checkedMul res 10 with
      | none => simp [hm] at h
      | some r1 =>
        simp only [hm] at h
        have ⟨m1, m2, m3, m4⟩ := (checkedMul_spec res 10 hr.2.1 hr.ne_nil).1 r1 hm
        have hr1 : VS r1 := ⟨by rw [m2]; exact hr.1, m3, by rw [hr.1] at m4; exact m4⟩
        cases hadd : checkedAdd r1 (ch - 48) with
        | none => simp [hadd] at h
        | some r2 =>
          simp only [hadd] at h
          have ⟨a1, a2, a3, a4⟩ := (checkedAdd_spec r1 (ch - 48) m3 hr1.ne_nil).1 r2 hadd
          have hr2 : VS r2 := ⟨by rw [a2]; exact hr1.1, a3, by rw [hr1.1] at a4; exact a4⟩
          have ⟨i1, i2, i3⟩ := ih r2 a hr2 h
          refine ⟨by simp [hd, i1], ?_, i3⟩
          rw [i2, a1, m1]; rfl
    · simp [hd] at h

theorem fromStrAux_complete : ∀ (t res : Bytes), VS res → t.all isDigit = true →
    digitsVal t (toNatBE res) * 2 < 256 ^ 20 → ∃ a, fromStrAux t res = some a := by
  intro t
  induction t with
  | nil => intro res _ _ _; exact ⟨res, rfl⟩
  | cons ch rest ih =>
    intro res hr hd hv
    simp only [List.all_cons, Bool.and_eq_true] at hd
    simp only [digitsVal] at hv
    have hge := digitsVal_ge rest (toNatBE res * 10 + (ch - 48))
    rw [fromStrAux]
    simp only [hd.1, if_true]
    have ⟨r1, hm⟩ := (checkedMul_spec res 10 hr.2.1 hr.ne_nil).2 (by rw [hr.1]; omega)
    have ⟨m1, m2, m3, m4⟩ := (checkedMul_spec res 10 hr.2.1 hr.ne_nil).1 r1 hm
    have hr1 : VS r1 := ⟨by rw [m2]; exact hr.1, m3, by rw [hr.1] at m4; exact m4⟩
    have ⟨r2, hadd⟩ := (checkedAdd_spec r1 (ch - 48) m3 hr1.ne_nil).2 (by rw [hr1.1, m1]; omega)
    have ⟨a1, a2, a3, a4⟩ := (checkedAdd_spec r1 (ch - 48) m3 hr1.ne_nil).1 r2 hadd
    have hr2 : VS r2 := ⟨by rw [a2]; exact hr1.1, a3, by rw [hr1.1] at a4; exact a4⟩
    simp only [hm, hadd]
    exact ih r2 hr2 hd.2 (by rw [a1, m1]; exact hv)

/-- the decimal digits of `n`, most significant first (fuel = maximal number of digits) -/
def decDigits : Nat → Nat → Bytes
  | 0, _ => []
  | f + 1, n => if n = 0 then [] else decDigits f (n / 10) ++ [n % 10 + 48]

theorem isZero_iff (a : Bytes) : isZero a = true ↔ toNatBE a = 0 := by
  induction a with
  | nil => simp [isZero, toNatBE]
  | cons x xs ih =>
    unfold isZero at *
    simp only [List.all_cons, Bool.and_eq_true, decide_eq_true_eq, toNatBE]
    have hp : 0 < 256 ^ xs.length := Nat.pow_pos (by decide)
    constructor
    · rintro ⟨h1, h2⟩; rw [h1, ih.1 h2]; simp
    · intro h
      have hx : x = 0 := by
        rcases Nat.eq_zero_or_pos x with e | e
        · exact e
        · exfalso
          have : 1 * 256 ^ xs.length ≤ x * 256 ^ xs.length := Nat.mul_le_mul_right _ e
          omega
      subst hx
      exact ⟨rfl, ih.2 (by simpa using h)⟩

theorem encodeDecAux_eq : ∀ (fuel : Nat) (a acc : Bytes), AllBytes a →
    encodeDecAux fuel a acc = decDigits fuel (toNatBE a) ++ acc := by
  intro fuel
  induction fuel with
  | zero => intro a acc _; simp [encodeDecAux, decDigits]
  | succ f ih =>
    intro a acc ha
    rw [encodeDecAux, decDigits]
    by_cases hz : isZero a = true
    · simp [hz, (isZero_iff a).1 hz]
    · have hnz : ¬ toNatBE a = 0 := fun e => hz ((isZero_iff a).2 e)
      simp only [hz, hnz, if_false, Bool.false_eq_true]
      have ⟨d1, d2, d3, d4⟩ := divBE_spec a 10 0 (by decide) (by decide)
      simp only [Nat.zero_mul, Nat.zero_add] at d1
      have hq : toNatBE (divBE a 10 0).1 = toNatBE a / 10 := by omega
      have hr : (divBE a 10 0).2 = toNatBE a % 10 := by omega
      rw [ih _ _ (d4 ha), hq, hr]
      simp

theorem decDigits_digits : ∀ (f n : Nat), (decDigits f n).all isDigit = true := by
  intro f
  induction f with
  | zero => intro n; rfl
  | succ f ih =>
    intro n
    rw [decDigits]
    split
    · rfl
    · rw [List.all_append, ih]
      simp [isDigit]; omega

theorem decDigits_val : ∀ (f n : Nat), n < 10 ^ f → digitsVal (decDigits f n) 0 = n := by
  intro f
  induction f with
  | zero => intro n h; simp at h; subst h; rfl
  | succ f ih =>
    intro n h
    rw [decDigits]
    split
    · rename_i h0; subst h0; rfl
    · rw [digitsVal_append, ih (n / 10) (by rw [Nat.pow_succ] at h; omega)]
      simp only [digitsVal]; omega

/-- Serial numbers round-trip through their decimal text. -/
theorem dec_roundtrip_fuel (a : Bytes) (ha : VS a) (fuel : Nat) (hf : toNatBE a < 10 ^ fuel) :
    fromStrAux (encodeDecAux fuel a []) zero20 = some a := by
  rw [encodeDecAux_eq fuel a [] ha.2.1, List.append_nil]
  have hv := decDigits_val fuel (toNatBE a) hf
  have hz : toNatBE zero20 = 0 := by unfold zero20; exact toNatBE_replicate_zero 20
  have ⟨b, hb⟩ := fromStrAux_complete (decDigits fuel (toNatBE a)) zero20 vs_zero
    (decDigits_digits _ _) (by rw [hz, hv]; exact ha.2.2)
  have ⟨_, s2, s3⟩ := fromStrAux_sound _ _ _ vs_zero hb
  rw [hz, hv] at s2
  have hba : b = a := toNatBE_inj b a (by rw [s3.1, ha.1]) s3.2.1 ha.2.1 s2
  rw [hb, hba]

theorem pow_bound : (256:Nat) ^ 20 < 2 * 10 ^ 49 := by norm_num

theorem dec_roundtrip' (a : Bytes) (ha : VS a) : fromStr (encodeDec a) = some a := by
  have hlt : toNatBE a < 10 ^ 49 := by
    have h1 := ha.2.2
    have h2 := pow_bound
    generalize (256:Nat) ^ 20 = x at *
    generalize (10:Nat) ^ 49 = y at *
    omega
  exact dec_roundtrip_fuel a ha 49 hlt

end Rpki.X509
