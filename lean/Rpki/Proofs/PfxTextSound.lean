/-
  What the address readers return fits the address family (`parseV4 < 2^32`, `parseV6 < 2^128`), hence
  every prefix the text readers accept is a prefix as the constructors make it.
-/
import Rpki.Proofs.PfxTextLemmas
namespace Rpki.PfxText
open Rpki.Prefix Rpki.ResText

theorem mapM_some_all {α β : Type} (f : α → Option β) (P : β → Prop) (hP : ∀ x y, f x = some y → P y) :
    ∀ (l : List α) (r : List β), l.mapM f = some r → ∀ y ∈ r, P y := by
  intro l
  induction l with
  | nil => intro r h; simp at h; subst h; intro y hy; cases hy
  | cons x xs ih =>
    intro r h
    simp only [List.mapM_cons] at h
    cases hx : f x with
    | none => simp [hx] at h
    | some v =>
      cases hxs : xs.mapM f with
      | none => simp [hx, hxs] at h
      | some vs =>
        simp [hx, hxs] at h
        subst h
        intro y hy
        rcases List.mem_cons.mp hy with rfl | hy
        · exact hP x y hx
        · exact ih vs hxs y hy

theorem parseOctet_le (b : Bytes) (v : Nat) (h : parseOctet b = some v) : v ≤ 255 := by
  unfold parseOctet at h
  split at h
  · cases h
  · split at h
    · cases h
    · simp only at h
      split at h
      · cases h; assumption
      · cases h

theorem parseV4_lt (b : Bytes) (a : Nat) (h : parseV4 b = some a) : a < 2 ^ 32 := by
  unfold parseV4 at h
  split at h
  · next w x y z hm =>
    have hall := mapM_some_all parseOctet (· ≤ 255) parseOctet_le _ _ hm
    have hw := hall w (by simp); have hx := hall x (by simp)
    have hy := hall y (by simp); have hz := hall z (by simp)
    cases h
    omega
  · cases h

/-! ### IPv6 -/

theorem foldl16_lt : ∀ (ds : List Nat) (acc : Nat), (∀ d ∈ ds, d < 16) →
    ds.foldl (fun acc d => acc * 16 + d) acc < (acc + 1) * 16 ^ ds.length := by
  intro ds
  induction ds with
  | nil => intro acc _; simp
  | cons d ds ih =>
    intro acc h
    have hd := h d (by simp)
    have := ih (acc * 16 + d) (fun x hx => h x (by simp [hx]))
    simp only [List.foldl_cons, List.length_cons, Nat.pow_succ]
    calc _ < (acc * 16 + d + 1) * 16 ^ ds.length := this
      _ ≤ ((acc + 1) * 16) * 16 ^ ds.length := Nat.mul_le_mul_right _ (by omega)
      _ = (acc + 1) * (16 ^ ds.length * 16) := by rw [Nat.mul_assoc, Nat.mul_comm 16]

theorem hexVal_lt (c v : Nat) (h : hexVal c = some v) : v < 16 := by
  unfold hexVal at h
  split at h
  · cases h; omega
  · split at h
    · cases h; omega
    · split at h
      · cases h; omega
      · cases h

theorem parseGroup_lt (b : Bytes) (v : Nat) (h : parseGroup b = some v) : v < 65536 := by
  unfold parseGroup at h
  split at h
  · cases h
  · next hlen =>
    cases hm : b.mapM hexVal with
    | none => simp [hm] at h
    | some ds =>
      simp [hm] at h
      subst h
      have hall := mapM_some_all hexVal (· < 16) hexVal_lt _ _ hm
      have hl : ds.length = b.length := by
        have : ∀ (l : List Nat) (r : List Nat), l.mapM hexVal = some r → r.length = l.length := by
          intro l
          induction l with
          | nil => intro r h; simp at h; subst h; rfl
          | cons x xs ih =>
            intro r h
            simp only [List.mapM_cons] at h
            cases hx : hexVal x with
            | none => simp [hx] at h
            | some v =>
              cases hxs : xs.mapM hexVal with
              | none => simp [hx, hxs] at h
              | some vs => simp [hx, hxs] at h; subst h; simp [ih vs hxs]
        exact this b ds hm
      have hb : b.length ≤ 4 := by omega
      have h1 := foldl16_lt ds 0 hall
      have h2 : 16 ^ ds.length ≤ 16 ^ 4 := Nat.pow_le_pow_right (by decide) (by omega)
      simp only [Nat.zero_add, Nat.one_mul] at h1
      have : (16 : Nat) ^ 4 = 65536 := by decide
      omega

theorem parseGroups_lt (b : Bytes) (allowV4 : Bool) (gs : List Nat) (h : parseGroups b allowV4 = some gs) :
    ∀ g ∈ gs, g < 65536 := by
  unfold parseGroups at h
  split at h
  · cases h; intro g hg; cases hg
  · simp only at h
    split at h
    · cases h; intro g hg; cases hg
    · next last _ =>
      split at h
      · cases h
      · next init hinit =>
        have hi := mapM_some_all parseGroup (· < 65536) parseGroup_lt _ _ hinit
        split at h
        · split at h
          · cases hv : parseV4 last with
            | none => simp [hv] at h
            | some v =>
              simp [hv] at h
              subst h
              have := parseV4_lt last v hv
              intro g hg
              simp only [List.mem_append, List.mem_cons, List.not_mem_nil, or_false] at hg
              rcases hg with hg | rfl | rfl
              · exact hi g hg
              · omega
              · omega
          · cases h
        · cases hg' : parseGroup last with
          | none => simp [hg'] at h
          | some v =>
            simp [hg'] at h
            subst h
            have := parseGroup_lt last v hg'
            intro g hg
            simp only [List.mem_append, List.mem_cons, List.not_mem_nil, or_false] at hg
            rcases hg with hg | rfl
            · exact hi g hg
            · exact this

theorem foldl65536_lt : ∀ (gs : List Nat) (acc : Nat), (∀ g ∈ gs, g < 65536) →
    gs.foldl (fun acc g => acc * 65536 + g) acc < (acc + 1) * 65536 ^ gs.length := by
  intro gs
  induction gs with
  | nil => intro acc _; simp
  | cons g gs ih =>
    intro acc h
    have hg := h g (by simp)
    have := ih (acc * 65536 + g) (fun x hx => h x (by simp [hx]))
    simp only [List.foldl_cons, List.length_cons, Nat.pow_succ]
    calc _ < (acc * 65536 + g + 1) * 65536 ^ gs.length := this
      _ ≤ ((acc + 1) * 65536) * 65536 ^ gs.length := Nat.mul_le_mul_right _ (by omega)
      _ = (acc + 1) * (65536 ^ gs.length * 65536) := by rw [Nat.mul_assoc, Nat.mul_comm 65536]

theorem groupsToNat_lt (gs : List Nat) (h : ∀ g ∈ gs, g < 65536) : groupsToNat gs < 65536 ^ gs.length := by
  have := foldl65536_lt gs 0 h
  simpa [groupsToNat] using this

theorem parseV6_lt (b : Bytes) (a : Nat) (h : parseV6 b = some a) : a < 2 ^ 128 := by
  have e128 : (65536 : Nat) ^ 8 = 2 ^ 128 := by decide
  unfold parseV6 at h
  split at h
  · split at h
    · next gs hg =>
      split at h
      · next hl =>
        cases h
        have := groupsToNat_lt gs (parseGroups_lt _ _ _ hg)
        rw [hl, e128] at this
        exact this
      · cases h
    · cases h
  · next i _ =>
    simp only at h
    split at h
    · next hs ts hh ht =>
      split at h
      · next hl =>
        cases h
        have h1 := parseGroups_lt _ _ _ hh
        have h2 := parseGroups_lt _ _ _ ht
        have hall : ∀ g ∈ hs ++ List.replicate (8 - hs.length - ts.length) 0 ++ ts, g < 65536 := by
          intro g hg
          simp only [List.mem_append, List.mem_replicate] at hg
          rcases hg with (hg | ⟨_, rfl⟩) | hg
          · exact h1 g hg
          · decide
          · exact h2 g hg
        have := groupsToNat_lt _ hall
        have hlen : (hs ++ List.replicate (8 - hs.length - ts.length) 0 ++ ts).length = 8 := by
          simp only [List.length_append, List.length_replicate]; omega
        rw [hlen, e128] at this
        exact this
      · cases h
    · cases h

/-! ### every parsed prefix is a constructed prefix -/

theorem parseIpAddr_lt (b : Bytes) (v4 : Bool) (a : Nat) (h : parseIpAddr b = some (v4, a)) :
    (v4 = true → a < 2 ^ 32) ∧ (v4 = false → a < 2 ^ 128) := by
  unfold parseIpAddr at h
  split at h
  · next x hx =>
    cases h
    exact ⟨fun _ => parseV4_lt b _ hx, fun hf => Bool.noConfusion hf⟩
  · cases hv : parseV6 b with
    | none => simp [hv] at h
    | some x =>
      rw [hv] at h
      simp only [Option.map_some, Option.some.injEq, Prod.mk.injEq] at h
      obtain ⟨h1, h2⟩ := h
      subst h1 h2
      exact ⟨fun hf => Bool.noConfusion hf, fun _ => parseV6_lt b _ hv⟩

/-- **Text cannot make an invalid prefix**: what `Prefix::from_str` / `from_str_relaxed` accept is
well-formed — address inside its family, host bits clear, the family/length octet of the constructors —
and is read back from its own canonical text by both readers. -/
theorem parsePfx_wf (relaxed : Bool) (s : Bytes) (p : Pfx) (h : parsePfx relaxed s = .ok p) : PfxWF p := by
  unfold parsePfx at h
  split at h
  · cases h
  · split at h
    · cases h
    · split at h
      · cases h
      · next addr haddr =>
        split at h
        · cases h
        · next len hl =>
          have hlen := parseLen_lt _ _ hl
          obtain ⟨v4, a⟩ := addr
          have hb := parseIpAddr_lt _ v4 a haddr
          split at h
          · next q hq =>
            cases h
            cases v4 <;> cases relaxed
            · exact wf_of_newV6 a len _ (hb.2 rfl) hlen hq
            · exact wf_of_newV6Relaxed a len _ (hb.2 rfl) hlen hq
            · exact wf_of_newV4 a len _ (hb.1 rfl) hlen hq
            · exact wf_of_newV4Relaxed a len _ (hb.1 rfl) hlen hq
          · cases h

theorem parse_fmt_parse (r r' : Bool) (s : Bytes) (p : Pfx) (h : parsePfx r s = .ok p) :
    parsePfx r' (fmtPfx p) = .ok p := parsePfx_fmt r' p (parsePfx_wf r s p h)

end Rpki.PfxText

namespace Rpki.PfxText
open Rpki.Prefix Rpki.ResText

theorem mlpNew_fields (p : Pfx) (ml : Option Nat) (m : Mlp) (h : mlpNew p ml = .ok m) : m = ⟨p, ml⟩ := by
  unfold mlpNew at h
  cases ml with
  | none => simp at h; exact h.symm
  | some k =>
    simp only at h
    split at h
    · cases h
    · split at h
      · cases h
      · cases h; rfl

/-- what `MaxLenPrefix::from_str` accepts is a value `MaxLenPrefix::new` returns for a well-formed prefix,
and it is read back from its own text -/
theorem parseMlp_sound (s : Bytes) (m : Mlp) (h : parseMlp s = .ok m) :
    PfxWF m.pfx ∧ mlpNew m.pfx m.ml = .ok m ∧ parseMlp (fmtMlp m) = .ok m := by
  have key : ∀ (p : Pfx) (ml : Option Nat), PfxWF p → mlpNew p ml = .ok m →
      PfxWF m.pfx ∧ mlpNew m.pfx m.ml = .ok m ∧ parseMlp (fmtMlp m) = .ok m := by
    intro p ml hp hm
    have e := mlpNew_fields p ml m hm
    subst e
    exact ⟨hp, hm, parseMlp_fmt _ hp hm⟩
  unfold parseMlp at h
  split at h
  · next dash _ =>
    split at h
    · cases h
    · next p hp =>
      split at h
      · cases h
      · next k _ =>
        split at h
        · next r hr => cases h; exact key p (some k) (parsePfx_wf false _ p hp) hr
        · cases h
  · split at h
    · cases h
    · next p hp =>
      split at h
      · next r hr => cases h; exact key p none (parsePfx_wf false _ p hp) hr
      · cases h

end Rpki.PfxText
