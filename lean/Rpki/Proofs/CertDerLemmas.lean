/-
  Lemmas about the certificate decoder model (`Model/CertDer.lean`): whatever octets decode, the
  claimed resources of the result are canonical chains — the hypothesis `ClaimsCanon` of the C01
  theorems, discharged for every octet string.
-/
import Rpki.Model.CertDer
import Rpki.Proofs.IpDerCodec
import Rpki.Proofs.AsDerCodec
import Rpki.Proofs.ChainFromIter
namespace Rpki.CertDer
open Rpki.Der Rpki.Chain

/-- the blocks of a claim form a canonical chain below `M` -/
def ClaimCanon (M : Nat) : Claim → Prop
  | .blocks c => Canon M c
  | _ => True

def OptClaimCanon (M : Nat) : Option Claim → Prop
  | some cl => ClaimCanon M cl
  | none => True

theorem allBytes_of_sub {b c : Bytes} (hb : AllBytes b) (h : ∀ x ∈ c, x ∈ b) : AllBytes c :=
  fun x hx => hb x (h x hx)

/-- an invariant of the state is kept by the loop over the constructed values of a content -/
theorem foldCons_inv {σ : Type} (P : σ → Prop) (tag : Nat) (f : σ → Bytes → Option σ)
    (hf : ∀ s c s', AllBytes c → P s → f s c = some s' → P s') :
    ∀ (fuel : Nat) (b : Bytes) (s s' : σ), AllBytes b → P s → foldCons tag f fuel b s = some s' → P s' := by
  intro fuel
  induction fuel with
  | zero =>
    intro b s s' _ hp h
    simp only [foldCons] at h
    split at h
    · injection h with h; subst h; exact hp
    · cases h
  | succ n ih =>
    intro b s s' hb hp h
    rw [foldCons] at h
    cases ht : takeOptCons tag b with
    | absent =>
      simp only [ht] at h
      split at h
      · injection h with h; subst h; exact hp
      · cases h
    | bad => simp [ht] at h
    | ok c rest =>
      simp only [ht] at h
      obtain ⟨s1, s2⟩ := AsDer.takeOptCons_sub _ _ _ _ ht
      cases hfc : f s c with
      | none => simp [hfc] at h
      | some s1' =>
        simp only [hfc] at h
        exact ih rest s1' s' (allBytes_of_sub hb s2) (hf s c s1' (allBytes_of_sub hb s1) hp hfc) h

/-! ### IP resources -/

theorem takeIpChoice_canon (W : Nat) (b : Bytes) (hb : AllBytes b) (cl : Claim)
    (h : takeIpChoice W b = some cl) : ClaimCanon IpDer.maxAddr cl := by
  unfold takeIpChoice at h
  cases b with
  | nil => cases h
  | cons t r =>
    simp only at h
    split at h
    · cases h
    · cases hr : readTlv (t :: r) with
      | none => simp [hr] at h
      | some p =>
        obtain ⟨t', v, rest⟩ := p
        obtain ⟨s1, _⟩ := AsDer.readTlv_sub _ _ _ _ hr
        simp only [hr] at h
        split at h
        · cases h
        · split at h
          · split at h
            · cases h
            · injection h with h; subst h; trivial
          · split at h
            · split at h
              · cases h
              · cases hl : IpDer.blocksLoop W v.length v with
                | none => simp [hl] at h
                | some bs =>
                  simp only [hl, Option.map_some, Option.some.injEq] at h
                  subst h
                  exact (fromIter_spec' IpDer.maxAddr bs
                    (IpDer.blocksLoop_sound W _ _ _ (allBytes_of_sub hb s1) hl)).1
            · cases h

def FamCanon (s : Option Claim × Option Claim) : Prop :=
  OptClaimCanon IpDer.maxAddr s.1 ∧ OptClaimCanon IpDer.maxAddr s.2

theorem ipFamily_canon (s : Option Claim × Option Claim) (c : Bytes) (s' : Option Claim × Option Claim)
    (hc : AllBytes c) (hs : FamCanon s) (h : ipFamily s c = some s') : FamCanon s' := by
  unfold ipFamily at h
  cases hp : takePrim tagOctetString c with
  | none => simp [hp] at h
  | some p =>
    obtain ⟨af, r⟩ := p
    obtain ⟨_, s2⟩ := AsDer.takePrim_sub _ _ _ _ hp
    simp only [hp] at h
    split at h
    · split at h
      · cases h
      · cases hcl : takeIpChoice 32 r with
        | none => simp [hcl] at h
        | some cl =>
          simp only [hcl, Option.map_some, Option.some.injEq] at h
          subst h
          exact ⟨takeIpChoice_canon 32 r (allBytes_of_sub hc s2) cl hcl, hs.2⟩
    · split at h
      · split at h
        · cases h
        · cases hcl : takeIpChoice 128 r with
          | none => simp [hcl] at h
          | some cl =>
            simp only [hcl, Option.map_some, Option.some.injEq] at h
            subst h
            exact ⟨hs.1, takeIpChoice_canon 128 r (allBytes_of_sub hc s2) cl hcl⟩
      · cases h

theorem takeIpFamilies_canon (v : Bytes) (hv : AllBytes v) (f : Option Claim × Option Claim)
    (h : takeIpFamilies v = some f) : FamCanon f := by
  unfold takeIpFamilies at h
  cases hc : takeCons tagSeq v with
  | none => simp [hc] at h
  | some p =>
    obtain ⟨c, r⟩ := p
    obtain ⟨s1, _⟩ := AsDer.takeCons_sub _ _ _ _ hc
    simp only [hc] at h
    cases hf : foldCons tagSeq ipFamily c.length c (none, none) with
    | none => simp [hf] at h
    | some res =>
      have inv := foldCons_inv FamCanon tagSeq ipFamily ipFamily_canon c.length c (none, none) res
        (allBytes_of_sub hv s1) ⟨trivial, trivial⟩ hf
      simp only [hf] at h
      split at h
      · cases h
      · injection h with h; subst h; exact inv

/-! ### the extension list -/

def ExtsCanon (e : Exts) : Prop :=
  (∀ f, e.ip = some f → FamCanon f) ∧ OptClaimCanon AsDer.maxAs e.asn

theorem extsCanon_default : ExtsCanon {} := ⟨(by intro f h; cases h), trivial⟩

end Rpki.CertDer

namespace Rpki.CertDer
open Rpki.Der Rpki.Chain

/-- closes `x… e critical v = some e' → e'.ip = e.ip ∧ e'.asn = e.asn` for the readers that do not touch
the resources -/
macro "frame_tac" h:ident : tactic => `(tactic|
  (repeat' (split at $h:ident)
   all_goals first
     | (cases $h:ident; done)
     | (injection $h:ident with $h:ident; subst $h:ident; exact ⟨rfl, rfl⟩)))

theorem xBasicConstraints_frame (e : Exts) (cr : Bool) (v : Bytes) (e' : Exts)
    (h : xBasicConstraints e cr v = some e') : e'.ip = e.ip ∧ e'.asn = e.asn := by
  unfold xBasicConstraints at h; frame_tac h
theorem xSubjectKeyId_frame (e : Exts) (cr : Bool) (v : Bytes) (e' : Exts)
    (h : xSubjectKeyId e cr v = some e') : e'.ip = e.ip ∧ e'.asn = e.asn := by
  unfold xSubjectKeyId at h; frame_tac h
theorem xAuthorityKeyId_frame (e : Exts) (cr : Bool) (v : Bytes) (e' : Exts)
    (h : xAuthorityKeyId e cr v = some e') : e'.ip = e.ip ∧ e'.asn = e.asn := by
  unfold xAuthorityKeyId at h; frame_tac h
theorem xKeyUsage_frame (e : Exts) (cr : Bool) (v : Bytes) (e' : Exts)
    (h : xKeyUsage e cr v = some e') : e'.ip = e.ip ∧ e'.asn = e.asn := by
  unfold xKeyUsage at h; simp only at h; frame_tac h
theorem xExtKeyUsage_frame (e : Exts) (cr : Bool) (v : Bytes) (e' : Exts)
    (h : xExtKeyUsage e cr v = some e') : e'.ip = e.ip ∧ e'.asn = e.asn := by
  unfold xExtKeyUsage at h; frame_tac h
theorem xCrlDistributionPoints_frame (e : Exts) (cr : Bool) (v : Bytes) (e' : Exts)
    (h : xCrlDistributionPoints e cr v = some e') : e'.ip = e.ip ∧ e'.asn = e.asn := by
  unfold xCrlDistributionPoints at h; frame_tac h
theorem xAuthorityInfoAccess_frame (e : Exts) (cr : Bool) (v : Bytes) (e' : Exts)
    (h : xAuthorityInfoAccess e cr v = some e') : e'.ip = e.ip ∧ e'.asn = e.asn := by
  unfold xAuthorityInfoAccess at h; frame_tac h
theorem xSubjectInfoAccess_frame (e : Exts) (cr : Bool) (v : Bytes) (e' : Exts)
    (h : xSubjectInfoAccess e cr v = some e') : e'.ip = e.ip ∧ e'.asn = e.asn := by
  unfold xSubjectInfoAccess at h; frame_tac h
theorem xCertificatePolicies_frame (e : Exts) (cr : Bool) (v : Bytes) (e' : Exts)
    (h : xCertificatePolicies e cr v = some e') : e'.ip = e.ip ∧ e'.asn = e.asn := by
  unfold xCertificatePolicies at h; simp only at h; frame_tac h

theorem xIpResources_spec (e : Exts) (v2 : Bool) (v : Bytes) (e' : Exts)
    (h : xIpResources e v2 v = some e') : ∃ f, takeIpFamilies v = some f ∧ e'.ip = some f ∧ e'.asn = e.asn := by
  unfold xIpResources at h
  split at h
  · cases h
  · cases hf : takeIpFamilies v with
    | none => simp [hf] at h
    | some f => simp only [hf] at h; injection h with h; subst h; exact ⟨f, rfl, rfl, rfl⟩

theorem xAsResources_spec (e : Exts) (v2 : Bool) (v : Bytes) (e' : Exts)
    (h : xAsResources e v2 v = some e') : ∃ a, AsDer.decodeExt v = some a ∧ e'.asn = some a ∧ e'.ip = e.ip := by
  unfold xAsResources at h
  split at h
  · cases h
  · cases hf : AsDer.decodeExt v with
    | none => simp [hf] at h
    | some a => simp only [hf] at h; injection h with h; subst h; exact ⟨a, rfl, rfl, rfl⟩

/-- the resources of the state stay canonical through the dispatch -/
theorem extValue_canon (e : Exts) (id : Bytes) (cr : Bool) (v : Bytes) (e' : Exts) (hv : AllBytes v)
    (he : ExtsCanon e) (h : extValue e id cr v = some e') : ExtsCanon e' := by
  have keep : (e'.ip = e.ip ∧ e'.asn = e.asn) → ExtsCanon e' := by
    intro ⟨h1, h2⟩; unfold ExtsCanon; rw [h1, h2]; exact he
  unfold extValue at h
  by_cases c1 : id = Consts.oidBasicConstraints
  · rw [if_pos c1] at h; exact keep (xBasicConstraints_frame _ _ _ _ h)
  rw [if_neg c1] at h
  by_cases c2 : id = Consts.oidSubjectKeyId
  · rw [if_pos c2] at h; exact keep (xSubjectKeyId_frame _ _ _ _ h)
  rw [if_neg c2] at h
  by_cases c3 : id = Consts.oidAuthorityKeyId
  · rw [if_pos c3] at h; exact keep (xAuthorityKeyId_frame _ _ _ _ h)
  rw [if_neg c3] at h
  by_cases c4 : id = Consts.oidKeyUsage
  · rw [if_pos c4] at h; exact keep (xKeyUsage_frame _ _ _ _ h)
  rw [if_neg c4] at h
  by_cases c5 : id = Consts.oidExtKeyUsage
  · rw [if_pos c5] at h; exact keep (xExtKeyUsage_frame _ _ _ _ h)
  rw [if_neg c5] at h
  by_cases c6 : id = Consts.oidCrlDistributionPoints
  · rw [if_pos c6] at h; exact keep (xCrlDistributionPoints_frame _ _ _ _ h)
  rw [if_neg c6] at h
  by_cases c7 : id = Consts.oidAuthorityInfoAccess
  · rw [if_pos c7] at h; exact keep (xAuthorityInfoAccess_frame _ _ _ _ h)
  rw [if_neg c7] at h
  by_cases c8 : id = Consts.oidSubjectInfoAccess
  · rw [if_pos c8] at h; exact keep (xSubjectInfoAccess_frame _ _ _ _ h)
  rw [if_neg c8] at h
  by_cases c9 : id = Consts.oidCertificatePolicies
  · rw [if_pos c9] at h; exact keep (xCertificatePolicies_frame _ _ _ _ h)
  rw [if_neg c9] at h
  by_cases c10 : id = Consts.oidIpAddrBlock ∨ id = Consts.oidIpAddrBlockV2
  · rw [if_pos c10] at h
    obtain ⟨f, hf, h1, h2⟩ := xIpResources_spec _ _ _ _ h
    refine ⟨?_, ?_⟩
    · intro f' hf'; rw [h1] at hf'; injection hf' with hf'; subst hf'
      exact takeIpFamilies_canon v hv f hf
    · rw [h2]; exact he.2
  rw [if_neg c10] at h
  by_cases c11 : id = Consts.oidAsIds ∨ id = Consts.oidAsIdsV2
  · rw [if_pos c11] at h
    obtain ⟨a, ha, h1, h2⟩ := xAsResources_spec _ _ _ _ h
    refine ⟨?_, ?_⟩
    · rw [h2]; exact he.1
    · rw [h1]
      rcases AsDer.decodeExt_sound v hv a ha with e1 | ⟨c, e1, hc⟩
      · subst e1; trivial
      · subst e1; exact hc
  rw [if_neg c11] at h
  by_cases c12 : cr = true
  · rw [if_pos c12] at h; cases h
  · rw [if_neg c12] at h; injection h with h; subst h; exact he

theorem takeOid_sub (c o r : Bytes) (h : takeOid c = some (o, r)) : ∀ x ∈ r, x ∈ c := by
  unfold takeOid at h
  cases hp : takePrim tagOid c with
  | none => simp [hp] at h
  | some q =>
    obtain ⟨oc, orr⟩ := q
    simp only [hp] at h
    split at h
    · injection h with h; injection h with _ e2; subst e2
      exact (AsDer.takePrim_sub _ _ _ _ hp).2
    · cases h

theorem takeOptBool_sub (b : Bytes) (x : Bool) (r : Bytes) (h : takeOptBool b = .ok x r) : ∀ y ∈ r, y ∈ b := by
  unfold takeOptBool at h
  cases hp : takeOptPrim tagBool b with
  | absent => simp [hp] at h
  | bad => simp [hp] at h
  | ok cc rr =>
    simp only [hp] at h
    have := (AsDer.takeOptPrim_sub _ _ _ _ hp).2
    split at h
    · injection h with _ e3; subst e3; exact this
    · split at h
      · injection h with _ e3; subst e3; exact this
      · cases h

theorem extension_canon (e : Exts) (c : Bytes) (e' : Exts) (hc : AllBytes c) (he : ExtsCanon e)
    (h : extension e c = some e') : ExtsCanon e' := by
  unfold extension at h
  cases ho : takeOid c with
  | none => simp [ho] at h
  | some p =>
    obtain ⟨id, r0⟩ := p
    have hr0 := takeOid_sub c id r0 ho
    simp only [ho] at h
    split at h
    · cases h
    · rename_i critical r1 hcrit
      have hr1 : ∀ x ∈ r1, x ∈ r0 := by
        cases hb : takeOptBool r0 with
        | absent => simp [hb] at hcrit; obtain ⟨_, e2⟩ := hcrit; subst e2; exact fun x hx => hx
        | bad => simp [hb] at hcrit
        | ok x r =>
          simp [hb] at hcrit
          obtain ⟨_, e2⟩ := hcrit; subst e2
          exact takeOptBool_sub r0 x _ hb
      cases hv : takePrim tagOctetString r1 with
      | none => simp [hv] at h
      | some q =>
        obtain ⟨v, r2⟩ := q
        have hvb : AllBytes v :=
          fun x hx => hc x (hr0 x (hr1 x ((AsDer.takePrim_sub _ _ _ _ hv).1 x hx)))
        simp only [hv] at h
        split at h
        · cases h
        · exact extValue_canon e id critical v e' hvb he h

end Rpki.CertDer

namespace Rpki.CertDer
open Rpki.Der Rpki.Chain

theorem takeSigAlg_sub (b : Bytes) (p : Bool) (rest : Bytes) (h : takeSigAlg b = some (p, rest)) :
    ∀ x ∈ rest, x ∈ b := by
  unfold takeSigAlg at h
  cases hc : takeCons tagSeq b with
  | none => simp [hc] at h
  | some q =>
    obtain ⟨c, r⟩ := q
    have hs := (AsDer.takeCons_sub _ _ _ _ hc).2
    simp only [hc] at h
    repeat' (split at h)
    all_goals first
      | (cases h; done)
      | (injection h with h; injection h with _ e; subst e; exact hs)

theorem takeName_sub (b n rest : Bytes) (h : takeName b = some (n, rest)) : ∀ x ∈ rest, x ∈ b := by
  unfold takeName at h
  cases hc : takeCons tagSeq b with
  | none => simp [hc] at h
  | some q =>
    obtain ⟨c, r⟩ := q
    have hs := (AsDer.takeCons_sub _ _ _ _ hc).2
    simp only [hc] at h
    repeat' (split at h)
    all_goals first
      | (cases h; done)
      | (injection h with h; injection h with _ e; subst e; exact hs)

theorem takeValidityCivil_sub (b : Bytes) (t1 t2 : X509.Civil) (rest : Bytes)
    (h : takeValidityCivil b = some (t1, t2, rest)) : ∀ x ∈ rest, x ∈ b := by
  unfold takeValidityCivil at h
  cases hc : takeCons tagSeq b with
  | none => simp [hc] at h
  | some q =>
    obtain ⟨c, r⟩ := q
    have hs := (AsDer.takeCons_sub _ _ _ _ hc).2
    simp only [hc] at h
    repeat' (split at h)
    all_goals first
      | (cases h; done)
      | (injection h with h; injection h with _ h; injection h with _ e; subst e; exact hs)

theorem takePublicKey_sub (b : Bytes) (a : KeyAlg) (u : Nat) (bits rest : Bytes)
    (h : takePublicKey b = some (a, u, bits, rest)) : ∀ x ∈ rest, x ∈ b := by
  unfold takePublicKey at h
  cases hc : takeCons tagSeq b with
  | none => simp [hc] at h
  | some q =>
    obtain ⟨c, r⟩ := q
    have hs := (AsDer.takeCons_sub _ _ _ _ hc).2
    simp only [hc] at h
    repeat' (split at h)
    all_goals first
      | (cases h; done)
      | (injection h with h; injection h with _ h; injection h with _ h; injection h with _ e; subst e; exact hs)

theorem finishTbs_canon (serial : Bytes) (ip op : Bool) (issuer subject : Bytes) (nb na : X509.Civil)
    (ka : KeyAlg) (ku : Nat) (kb raw sig : Bytes) (e : Exts) (d : Decoded) (he : ExtsCanon e)
    (h : finishTbs serial ip op issuer subject nb na ka ku kb raw sig e = some d) :
    ClaimCanon IpDer.maxAddr d.v4 ∧ ClaimCanon IpDer.maxAddr d.v6 ∧ ClaimCanon AsDer.maxAs d.asn := by
  unfold finishTbs at h
  repeat' (split at h)
  all_goals first
    | (cases h; done)
    | skip
  injection h with h; subst h
  refine ⟨?_, ?_, ?_⟩
  · show ClaimCanon IpDer.maxAddr ((e.ip.getD (none, none)).1.getD Claim.missing)
    cases hip : e.ip with
    | none => trivial
    | some f =>
      have := (he.1 f hip).1
      cases h1 : f.1 with
      | none => simp [h1]; trivial
      | some cl => simp only [Option.getD, h1]; rw [h1] at this; exact this
  · show ClaimCanon IpDer.maxAddr ((e.ip.getD (none, none)).2.getD Claim.missing)
    cases hip : e.ip with
    | none => trivial
    | some f =>
      have := (he.1 f hip).2
      cases h1 : f.2 with
      | none => simp [h1]; trivial
      | some cl => simp only [Option.getD, h1]; rw [h1] at this; exact this
  · show ClaimCanon AsDer.maxAs (e.asn.getD Claim.missing)
    have := he.2
    cases h1 : e.asn with
    | none => trivial
    | some cl => simp only [Option.getD]; rw [h1] at this; exact this

/-- the claims of a decoded TBS are canonical chains -/
theorem decodeTbs_canon (raw : Bytes) (op : Bool) (sig : Bytes) (d : Decoded) (hb : AllBytes raw)
    (h : decodeTbs raw op sig = some d) :
    ClaimCanon IpDer.maxAddr d.v4 ∧ ClaimCanon IpDer.maxAddr d.v6 ∧ ClaimCanon AsDer.maxAs d.asn := by
  unfold decodeTbs at h
  cases h0 : takeCons tagSeq raw with
  | none => simp [h0] at h
  | some q0 =>
    obtain ⟨c, _⟩ := q0
    have b0 := allBytes_of_sub hb (AsDer.takeCons_sub _ _ _ _ h0).1
    simp only [h0] at h
    cases h1 : takeCons 0xA0 c with
    | none => simp [h1] at h
    | some q1 =>
      obtain ⟨vc, r0⟩ := q1
      have b1 := allBytes_of_sub b0 (AsDer.takeCons_sub _ _ _ _ h1).2
      simp only [h1] at h
      split at h
      · cases h
      · split at h
        · cases h
        · cases h2 : takePrim tagInt r0 with
          | none => simp [h2] at h
          | some q2 =>
            obtain ⟨sc, r1⟩ := q2
            have b2 := allBytes_of_sub b1 (AsDer.takePrim_sub _ _ _ _ h2).2
            simp only [h2] at h
            split at h
            · cases h
            · cases h3 : takeSigAlg r1 with
              | none => simp [h3] at h
              | some q3 =>
                obtain ⟨ip, r2⟩ := q3
                have b3 := allBytes_of_sub b2 (takeSigAlg_sub _ _ _ h3)
                simp only [h3] at h
                cases h4 : takeName r2 with
                | none => simp [h4] at h
                | some q4 =>
                  obtain ⟨iss, r3⟩ := q4
                  have b4 := allBytes_of_sub b3 (takeName_sub _ _ _ h4)
                  simp only [h4] at h
                  cases h5 : takeValidityCivil r3 with
                  | none => simp [h5] at h
                  | some q5 =>
                    obtain ⟨nbc, nac, r4⟩ := q5
                    have b5 := allBytes_of_sub b4 (takeValidityCivil_sub _ _ _ _ h5)
                    simp only [h5] at h
                    cases h6 : takeName r4 with
                    | none => simp [h6] at h
                    | some q6 =>
                      obtain ⟨sub, r5⟩ := q6
                      have b6 := allBytes_of_sub b5 (takeName_sub _ _ _ h6)
                      simp only [h6] at h
                      cases h7 : takePublicKey r5 with
                      | none => simp [h7] at h
                      | some q7 =>
                        obtain ⟨ka, ku, kb, r6⟩ := q7
                        have b7 := allBytes_of_sub b6 (takePublicKey_sub _ _ _ _ _ h7)
                        simp only [h7] at h
                        cases h8 : takeCons 0xA3 r6 with
                        | none => simp [h8] at h
                        | some q8 =>
                          obtain ⟨xc, r7⟩ := q8
                          have b8 := allBytes_of_sub b7 (AsDer.takeCons_sub _ _ _ _ h8).1
                          simp only [h8] at h
                          split at h
                          · cases h
                          · cases h9 : takeCons tagSeq xc with
                            | none => simp [h9] at h
                            | some q9 =>
                              obtain ⟨xs, xr⟩ := q9
                              have b9 := allBytes_of_sub b8 (AsDer.takeCons_sub _ _ _ _ h9).1
                              simp only [h9] at h
                              split at h
                              · cases h
                              · cases hf : foldCons tagSeq extension xs.length xs {} with
                                | none => simp [hf] at h
                                | some e =>
                                  have he := foldCons_inv ExtsCanon tagSeq extension extension_canon
                                    xs.length xs {} e b9 extsCanon_default hf
                                  simp only [hf] at h
                                  exact finishTbs_canon _ _ _ _ _ _ _ _ _ _ _ _ e d he h

theorem takeCert_canon (b : Bytes) (d : Decoded) (rest : Bytes) (hb : AllBytes b) (h : takeCert b = some (d, rest)) :
    ClaimCanon IpDer.maxAddr d.v4 ∧ ClaimCanon IpDer.maxAddr d.v6 ∧ ClaimCanon AsDer.maxAs d.asn := by
  unfold takeCert certBody at h
  cases h0 : takeCons tagSeq b with
  | none => simp [h0] at h
  | some q0 =>
    obtain ⟨c, rest0⟩ := q0
    have b0 := allBytes_of_sub hb (AsDer.takeCons_sub _ _ _ _ h0).1
    simp only [h0] at h
    split at h
    · cases h
    · cases h1 : skipOne c with
      | none => simp [h1] at h
      | some r1 =>
        simp only [h1] at h
        have braw : AllBytes (c.take (c.length - r1.length)) :=
          fun x hx => b0 x (List.mem_of_mem_take hx)
        repeat' (split at h)
        all_goals first
          | (cases h; done)
          | skip
        rw [Option.map_eq_some_iff] at h
        obtain ⟨d', hd, e⟩ := h
        injection e with e1 _
        subst e1
        exact decodeTbs_canon _ _ _ d' braw hd

/-- **Whatever octets decode as a certificate, its claimed resources are canonical chains.** -/
theorem decodeCert_canon (b : Bytes) (d : Decoded) (hb : AllBytes b) (h : decodeCert b = some d) :
    ClaimCanon IpDer.maxAddr d.v4 ∧ ClaimCanon IpDer.maxAddr d.v6 ∧ ClaimCanon AsDer.maxAs d.asn := by
  unfold decodeCert at h
  cases ht : takeCert b with
  | none => simp [ht] at h
  | some p =>
    obtain ⟨d', rest⟩ := p
    simp only [ht, Option.map_some, Option.some.injEq] at h
    subst h
    exact takeCert_canon b d' rest hb ht

/-- the same for the record validation works on: IPv4 counted in 32 bits -/
theorem shiftV4_canon (cl : Claim) (h : ClaimCanon IpDer.maxAddr cl) : ClaimCanon (2 ^ 32 - 1) (shiftV4 cl) := by
  cases cl with
  | missing => trivial
  | inherit => trivial
  | blocks c =>
    show Canon (2 ^ 32 - 1) (fromIter (2 ^ 32 - 1) (c.map fun b => ⟨b.lo / 2 ^ 96, b.hi / 2 ^ 96⟩))
    refine (fromIter_spec' (2 ^ 32 - 1) _ ?_).1
    intro blk hblk
    obtain ⟨b0, hb0, e⟩ := List.mem_map.1 hblk
    subst e
    have hw := h.1 b0 hb0
    simp only [IpDer.maxAddr] at hw
    refine ⟨Nat.div_le_div_right hw.1, ?_⟩
    show b0.hi / 2 ^ 96 ≤ 2 ^ 32 - 1
    have : b0.hi < 2 ^ 128 := by omega
    have : b0.hi / 2 ^ 96 < 2 ^ 32 := by
      rw [Nat.div_lt_iff_lt_mul (Nat.pow_pos (by decide))]
      calc b0.hi < 2 ^ 128 := this
        _ = 2 ^ 32 * 2 ^ 96 := by rw [← Nat.pow_add]
    omega

end Rpki.CertDer
