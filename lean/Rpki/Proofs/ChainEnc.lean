import Rpki.Proofs.ChainLemmas
namespace Rpki.Chain
open Rpki.Consts

theorem mem_head_lo {M : Nat} {b : Blk} {c : List Blk} (h : Canon M (b :: c)) : mem (b :: c) b.lo :=
  mem_cons.2 (Or.inl ⟨Nat.le_refl _, (canon_cons.1 h).1.1⟩)

/-- every element of a canonical chain is at least the head's lower bound -/
theorem canon_ge_head {M : Nat} {b : Blk} {c : List Blk} (h : Canon M (b :: c)) {x : Nat}
    (hx : mem (b :: c) x) : b.lo ≤ x := by
  rcases mem_cons.1 hx with hh | hh
  · exact hh.1
  · have := canon_tail_above h hh
    have := (canon_cons.1 h).1.1
    omega

theorem isEncompassedAux_iff (M : Nat) (s : List Blk) (o : Blk) (os : List Blk)
    (hs : Canon M s) (ho : Canon M (o :: os)) :
    isEncompassedAux s o os = true ↔ ∀ x, mem s x → mem (o :: os) x := by
  fun_induction isEncompassedAux s o os with
  | case1 o os =>
    simp only [true_iff]
    intro x hx; exact absurd hx (mem_nil x)
  | case2 b bs o o' os' hlt ih =>
    rw [ih hs (canon_cons.1 ho).2.2]
    constructor
    · intro h x hx; exact mem_cons.2 (Or.inr (h x hx))
    · intro h x hx
      rcases mem_cons.1 (h x hx) with hh | hh
      · have := canon_ge_head hs hx; omega
      · exact hh
  | case3 b bs o hlt =>
    constructor
    · intro h; cases h
    · intro h
      exfalso
      rcases mem_cons.1 (h b.lo (mem_head_lo hs)) with hh | hh
      · omega
      · exact mem_nil _ hh
  | case4 b bs o os hnlt hin ih =>
    rw [ih (canon_cons.1 hs).2.2 ho]
    constructor
    · intro h x hx
      rcases mem_cons.1 hx with hh | hh
      · exact mem_cons.2 (Or.inl ⟨by omega, by omega⟩)
      · exact h x hh
    · intro h x hx; exact h x (mem_cons.2 (Or.inr hx))
  | case5 b bs o os hnlt hnin =>
    constructor
    · intro h; cases h
    · intro h
      exfalso
      have hb := (canon_cons.1 hs).1
      have hlo : o.lo ≤ b.lo := by
        rcases mem_cons.1 (h b.lo (mem_head_lo hs)) with hh | hh
        · exact hh.1
        · have := canon_tail_above ho hh; omega
      have hm : mem (b :: bs) (o.hi + 1) := mem_cons.2 (Or.inl ⟨by omega, by omega⟩)
      rcases mem_cons.1 (h _ hm) with hh | hh
      · omega
      · have := canon_tail_above ho hh; omega

/-- `is_encompassed` agrees with inclusion of the denoted sets. -/
theorem isEncompassed_iff' (M : Nat) (a b : List Blk) (ha : Canon M a) (hb : Canon M b) :
    isEncompassed a b = true ↔ ∀ x, mem a x → mem b x := by
  cases b with
  | nil =>
    unfold isEncompassed
    cases a with
    | nil =>
      simp only [List.isEmpty_nil, true_iff]
      intro x hx; exact absurd hx (mem_nil x)
    | cons y ys =>
      simp only [List.isEmpty_cons, Bool.false_eq_true, false_iff]
      intro h
      exact mem_nil _ (h y.lo (mem_head_lo ha))
  | cons o os =>
    unfold isEncompassed
    exact isEncompassedAux_iff M a o os ha hb

end Rpki.Chain
