import Rpki.Proofs.RtrServerLemmas
namespace Rpki.RtrServer
open Rpki.Consts Rpki.Rtr

/-- what the connection in state `c` will still answer if the bytes `t` arrive -/
def sem (src : Src) (c : Conn) (t : Bytes) : List Out :=
  if c.dead then [] else serveAux src ((c.buf ++ t).length + 1) c.ver (c.buf ++ t)

/-- nothing can be parsed from what is buffered: the task is blocked -/
def Quiet (src : Src) (c : Conn) : Prop := c.dead = true ∨ parseOne src c.ver c.buf = .more

theorem sem_congr (src : Src) (c c' : Conn) (t : Bytes) (h1 : c.dead = c'.dead) (h2 : c.ver = c'.ver)
    (h3 : c.buf = c'.buf) : sem src c t = sem src c' t := by
  unfold sem; rw [h1, h2, h3]

theorem sem_one (src : Src) (c : Conn) (t : Bytes) (hd : c.dead = false) (used : Nat) (out : Out) (w : Option Nat)
    (hp : parseOne src c.ver c.buf = .one used out w) :
    sem src c t = out :: sem src { c with ver := w, buf := c.buf.drop used } t := by
  have ⟨h1, h2, h3⟩ := (parseOne_stable src c.ver c.buf t).1 used out w hp
  unfold sem
  simp only [hd, Bool.false_eq_true, if_false]
  rw [serveAux, h3]
  simp only
  have e : (c.buf ++ t).drop used = c.buf.drop used ++ t := List.drop_append_of_le_length h2
  rw [e]
  congr 1
  apply serveAux_fuel
  · simp; omega
  · simp

theorem sem_dead_parse (src : Src) (c : Conn) (t : Bytes) (hd : c.dead = false)
    (hp : parseOne src c.ver c.buf = .dead) : sem src c t = [] := by
  have h3 := (parseOne_stable src c.ver c.buf t).2 hp
  unfold sem
  simp only [hd, Bool.false_eq_true, if_false]
  rw [serveAux, h3]

/-- Draining produces exactly the answers to the complete queries in the buffer and leaves the
connection blocked; what the connection will answer to later bytes is unchanged. -/
theorem drain_spec (src : Src) : ∀ (fuel : Nat) (inP : Bool) (c : Conn) (t : Bytes),
    c.buf.length + (if c.pendingNotify then 1 else 0) < fuel →
    respOnly (drain src fuel inP c).2 ++ sem src (drain src fuel inP c).1 t = sem src c t ∧
    Quiet src (drain src fuel inP c).1 := by
  intro fuel
  induction fuel with
  | zero => intro inP c t h; omega
  | succ f ih =>
    intro inP c t hf
    rw [drain]
    by_cases hd : c.dead = true
    · simp only [hd, if_true]
      exact ⟨by simp [respOnly], Or.inl hd⟩
    · have hd' : c.dead = false := by simpa using hd
      rw [if_neg hd]
      by_cases hn : c.pendingNotify = true ∧ (!inP) = true
      · rw [if_pos hn]
        simp only
        have hm : ({ c with pendingNotify := false } : Conn).buf.length +
            (if ({ c with pendingNotify := false } : Conn).pendingNotify = true then 1 else 0) < f := by
          simp only [Bool.false_eq_true, if_false]
          have := hn.1; simp only [this, if_true] at hf; omega
        have ⟨i1, i2⟩ := ih false { c with pendingNotify := false } t hm
        refine ⟨?_, i2⟩
        have : respOnly (notifyOut src c :: (drain src f false { c with pendingNotify := false }).2)
            = respOnly (drain src f false { c with pendingNotify := false }).2 := by
          unfold respOnly notifyOut; simp [Out.isNotify]
        rw [this, i1]
        exact sem_congr _ _ _ _ rfl rfl rfl
      · rw [if_neg hn]
        cases hp : parseOne src c.ver c.buf with
        | more =>
          simp only
          exact ⟨by simp [respOnly], Or.inr hp⟩
        | dead =>
          simp only
          refine ⟨?_, Or.inl rfl⟩
          rw [sem_dead_parse src c t hd' hp]
          simp [respOnly, sem]
        | one used out w =>
          simp only
          have ⟨h1, h2, _⟩ := (parseOne_stable src c.ver c.buf []).1 used out w hp
          have hm : ({ c with ver := w, buf := c.buf.drop used } : Conn).buf.length +
              (if ({ c with ver := w, buf := c.buf.drop used } : Conn).pendingNotify = true then 1 else 0) < f := by
            simp only [List.length_drop]
            split <;> split at hf <;> omega
          have ⟨i1, i2⟩ := ih false { c with ver := w, buf := c.buf.drop used } t hm
          refine ⟨?_, i2⟩
          rw [sem_one src c t hd' used out w hp]
          have hnn := parseOne_not_notify src c.ver c.buf used out w hp
          have : respOnly (out :: (drain src f false { c with ver := w, buf := c.buf.drop used }).2)
              = out :: respOnly (drain src f false { c with ver := w, buf := c.buf.drop used }).2 := by
            unfold respOnly; simp [hnn]
          rw [this, List.cons_append, i1]

theorem quiet_sem_nil (src : Src) (c : Conn) (h : Quiet src c) : sem src c [] = [] := by
  unfold sem
  rcases h with h | h
  · simp [h]
  · by_cases hd : c.dead = true
    · simp [hd]
    · simp only [hd, if_false, List.append_nil]
      rw [serveAux, h]
      simp

/-- The answers a connection gives (notifications removed) are those the specification gives to the
buffered bytes followed by all bytes that are still to arrive: however the bytes are cut into chunks
and wherever notifications fall. -/
theorem run_refines (src : Src) : ∀ (es : List Event) (c : Conn), Quiet src c →
    respOnly (run src c es) = sem src c (chunksOf es) := by
  intro es
  induction es with
  | nil => intro c hq; simp [run, respOnly, chunksOf, quiet_sem_nil src c hq]
  | cons e es ih =>
    intro c hq
    rw [run]
    cases e with
    | chunk bs =>
      simp only [step, chunksOf]
      by_cases hd : c.dead = true
      · simp only [hd, if_true, List.nil_append]
        rw [ih c hq]
        unfold sem; simp [hd]
      · have hd' : c.dead = false := by simpa using hd
        rw [if_neg hd]
        have hf : ({ c with buf := c.buf ++ bs } : Conn).buf.length +
            (if ({ c with buf := c.buf ++ bs } : Conn).pendingNotify = true then 1 else 0)
            < 2 * (c.buf.length + bs.length) + 4 := by
          simp only [List.length_append]; split <;> omega
        have ⟨d1, d2⟩ := drain_spec src _ c.inPayload { c with buf := c.buf ++ bs } (chunksOf es) hf
        rw [respOnly_append, ih _ d2, d1]
        unfold sem
        simp only [hd', Bool.false_eq_true, if_false, List.append_assoc]
    | notify =>
      simp only [step, chunksOf]
      by_cases hd : c.dead = true
      · simp only [hd, if_true, List.nil_append]
        exact ih c hq
      · have hd' : c.dead = false := by simpa using hd
        rw [if_neg hd]
        by_cases hp : c.inPayload = true
        · simp only [hp, if_true, List.nil_append]
          have hq' : Quiet src { c with pendingNotify := true } := by
            rcases hq with h | h
            · exact Or.inl h
            · exact Or.inr h
          rw [ih _ hq']
          exact sem_congr _ _ _ _ rfl rfl rfl
        · simp only [hp, Bool.false_eq_true, if_false, cancelSafe, if_true]
          have hq' : Quiet src { c with buf := c.buf } := by
            rcases hq with h | h
            · exact Or.inl h
            · exact Or.inr h
          rw [respOnly_append, ih _ hq']
          have : respOnly [notifyOut src c] = [] := by unfold respOnly notifyOut; simp [Out.isNotify]
          rw [this, List.nil_append]
    | eof =>
      simp only [step, chunksOf, List.nil_append]
      have hq' : Quiet src { c with dead := true } := Or.inl rfl
      rw [ih _ hq']
      rw [quiet_sem_nil src c hq]
      unfold sem; simp

end Rpki.RtrServer
