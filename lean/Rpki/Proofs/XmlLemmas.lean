import Rpki.Model.Xml
namespace Rpki.Xml

/-! ### A. escaping round trip -/

theorem escapeWith_cons (repl : Nat → Option Bytes) (c : Nat) (rest : Bytes) :
    escapeWith repl (c :: rest) = (match repl c with | some r => r | none => [c]) ++ escapeWith repl rest := rfl

/-- the shape of one escaping step: the unit written for `c` has at least one octet and `unescape`
reads it back as `c` -/
def GoodRepl (repl : Nat → Option Bytes) : Prop :=
  ∀ c : Nat, ∀ f : Nat, ∀ t : Bytes,
    1 ≤ (match repl c with | some r => r | none => [c]).length ∧
    unescape (f + 1) ((match repl c with | some r => r | none => [c]) ++ t) = (unescape f t).map (c :: ·)

theorem goodRepl_attr : GoodRepl replAttr := by
  intro c f t
  by_cases h60 : c = 60
  · subst h60; simp [replAttr, unescape]
  by_cases h62 : c = 62
  · subst h62; simp [replAttr, unescape]
  by_cases h34 : c = 34
  · subst h34; simp [replAttr, unescape]
  by_cases h39 : c = 39
  · subst h39; simp [replAttr, unescape]
  by_cases h38 : c = 38
  · subst h38; simp [replAttr, unescape]
  simp [replAttr, unescape, h60, h62, h34, h39, h38]

theorem goodRepl_pcdata : GoodRepl replPcdata := by
  intro c f t
  by_cases h60 : c = 60
  · subst h60; simp [replPcdata, unescape]
  by_cases h38 : c = 38
  · subst h38; simp [replPcdata, unescape]
  simp [replPcdata, unescape, h60, h38]

theorem unescape_escapeWith_fuel (repl : Nat → Option Bytes) (hg : GoodRepl repl) (b : Bytes) :
    ∀ fuel, b.length < fuel → unescape fuel (escapeWith repl b) = some b := by
  induction b with
  | nil =>
    intro fuel h
    cases fuel with
    | zero => simp at h
    | succ f => simp [escapeWith, unescape]
  | cons c rest ih =>
    intro fuel h
    cases fuel with
    | zero => simp at h
    | succ f =>
      rw [escapeWith_cons, (hg c f _).2, ih f (by simpa using h)]
      rfl

theorem length_le_escapeWith (repl : Nat → Option Bytes) (hg : GoodRepl repl) (b : Bytes) :
    b.length ≤ (escapeWith repl b).length := by
  induction b with
  | nil => simp
  | cons c rest ih =>
    rw [escapeWith_cons, List.length_append, List.length_cons]
    have := (hg c 0 []).1
    omega

theorem unescape_escapeAttr (b : Bytes) : unescapeAll (escapeAttr b) = some b := by
  unfold unescapeAll escapeAttr
  exact unescape_escapeWith_fuel _ goodRepl_attr b _ (by have := length_le_escapeWith _ goodRepl_attr b; omega)

theorem unescape_escapePcdata (b : Bytes) : unescapeAll (escapePcdata b) = some b := by
  unfold unescapeAll escapePcdata
  exact unescape_escapeWith_fuel _ goodRepl_pcdata b _ (by have := length_le_escapeWith _ goodRepl_pcdata b; omega)

/-! ### C. Base64 -/

theorem b64Val_b64Char (v : Nat) (h : v < 64) : b64Val (b64Char v) = some v := by
  unfold b64Char b64Val
  split
  · rw [if_pos (by omega)]; congr 1; omega
  split
  · rw [if_neg (by omega), if_pos (by omega)]; congr 1; omega
  split
  · rw [if_neg (by omega), if_neg (by omega), if_pos (by omega)]; congr 1; omega
  split
  · subst v; rfl
  · have : v = 63 := by omega
    subst v; rfl

/-- the alphabet lies in `43 ..= 122` and avoids `=`; no bound on `v` is needed -/
theorem b64Char_range (v : Nat) : 43 ≤ b64Char v ∧ b64Char v ≤ 122 ∧ b64Char v ≠ 61 := by
  unfold b64Char
  split
  · omega
  split
  · omega
  split
  · omega
  split <;> omega

set_option linter.unusedVariables false in
theorem b64Char_ne_pad (v : Nat) (h : v < 64) : b64Char v ≠ 61 := (b64Char_range v).2.2

theorem b64Decode_b64Encode (d : Bytes) (h : ∀ x ∈ d, x < 256) : b64Decode (b64Encode d) = some d := by
  fun_induction b64Encode d with
  | case1 => simp [b64Decode]
  | case2 a =>
    have ha : a < 256 := h a (by simp)
    have h1 := b64Val_b64Char (a / 4) (by omega)
    have h2 := b64Val_b64Char (a % 4 * 16) (by omega)
    simp only [b64Decode, and_self, if_true, h1, h2]
    rw [if_pos (by omega)]
    congr 2; omega
  | case3 a b =>
    have ha : a < 256 := h a (by simp)
    have hb : b < 256 := h b (by simp)
    have h1 := b64Val_b64Char (a / 4) (by omega)
    have h2 := b64Val_b64Char (a % 4 * 16 + b / 16) (by omega)
    have h3 := b64Val_b64Char (b % 16 * 4) (by omega)
    have hp := (b64Char_range (b % 16 * 4)).2.2
    simp only [b64Decode, and_self, if_true, h1, h2, h3, hp, if_false]
    rw [if_pos (by omega)]
    congr 2
    · omega
    · congr 1; omega
  | case4 a b c rest ih =>
    have ha : a < 256 := h a (by simp)
    have hb : b < 256 := h b (by simp)
    have hc : c < 256 := h c (by simp)
    have hr : ∀ x ∈ rest, x < 256 := fun x hx => h x (by simp [hx])
    have h1 := b64Val_b64Char (a / 4) (by omega)
    have h2 := b64Val_b64Char (a % 4 * 16 + b / 16) (by omega)
    have h3 := b64Val_b64Char (b % 16 * 4 + c / 64) (by omega)
    have h4 := b64Val_b64Char (c % 64) (by omega)
    have hp := (b64Char_range (c % 64)).2.2
    simp only [b64Decode, hp, and_false, if_false, h1, h2, h3, h4, ih hr, Option.map_some]
    congr 2
    · omega
    · congr 1
      · omega
      · congr 1; omega

/-- every octet of Base64 text is in `43 ..= 122` (so never whitespace, `<`, `&` or `"`) -/
theorem mem_b64Encode_range (d : Bytes) : ∀ x ∈ b64Encode d, 43 ≤ x ∧ x ≤ 122 := by
  fun_induction b64Encode d with
  | case1 => simp
  | case2 a =>
    intro x hx
    have := b64Char_range (a / 4); have := b64Char_range (a % 4 * 16)
    simp only [List.mem_cons, List.not_mem_nil, or_false] at hx
    rcases hx with rfl | rfl | rfl | rfl <;> omega
  | case3 a b =>
    intro x hx
    have := b64Char_range (a / 4); have := b64Char_range (a % 4 * 16 + b / 16)
    have := b64Char_range (b % 16 * 4)
    simp only [List.mem_cons, List.not_mem_nil, or_false] at hx
    rcases hx with rfl | rfl | rfl | rfl <;> omega
  | case4 a b c rest ih =>
    intro x hx
    have := b64Char_range (a / 4); have := b64Char_range (a % 4 * 16 + b / 16)
    have := b64Char_range (b % 16 * 4 + c / 64); have := b64Char_range (c % 64)
    simp only [List.mem_cons] at hx
    rcases hx with rfl | rfl | rfl | rfl | hx
    · omega
    · omega
    · omega
    · omega
    · exact ih x hx

theorem skipWs_eq_self (t : Bytes) (h : ∀ x ∈ t, 43 ≤ x) : skipWs t = t := by
  unfold skipWs
  rw [List.filter_eq_self]
  intro x hx
  have := h x hx
  simp only [isAsciiWs, Bool.not_eq_true', Bool.or_eq_false_iff, decide_eq_false_iff_not]
  omega

set_option linter.unusedVariables false in
theorem b64Encode_no_ws (d : Bytes) (h : ∀ x ∈ d, x < 256) : skipWs (b64Encode d) = b64Encode d :=
  skipWs_eq_self _ fun x hx => (mem_b64Encode_range d x hx).1

/-- whitespace anywhere in the text is ignored -/
theorem xmlB64Decode_of_skipWs (t d : Bytes) (hd : ∀ x ∈ d, x < 256) (h : skipWs t = b64Encode d) :
    xmlB64Decode t = some d := by
  unfold xmlB64Decode
  rw [h, b64Decode_b64Encode d hd]

/-! ### B. escaped text is safe in its context -/

theorem not_mem_escapeWith (repl : Nat → Option Bytes) (x : Nat)
    (hu : ∀ c, x ∉ (match repl c with | some r => r | none => [c])) (b : Bytes) :
    x ∉ escapeWith repl b := by
  induction b with
  | nil => simp [escapeWith]
  | cons c rest ih =>
    rw [escapeWith_cons, List.mem_append]
    exact fun h => h.elim (hu c) ih

theorem replAttr_unit (c : Nat) :
    (match replAttr c with | some r => r | none => [c]) =
      if c = 60 then [38, 108, 116, 59] else if c = 62 then [38, 103, 116, 59]
      else if c = 34 then [38, 113, 117, 111, 116, 59] else if c = 39 then [38, 97, 112, 111, 115, 59]
      else if c = 38 then [38, 97, 109, 112, 59] else [c] := by
  unfold replAttr
  repeat' split
  all_goals first | rfl | simp_all

theorem replPcdata_unit (c : Nat) :
    (match replPcdata c with | some r => r | none => [c]) =
      if c = 60 then [38, 108, 116, 59] else if c = 38 then [38, 97, 109, 112, 59] else [c] := by
  unfold replPcdata
  repeat' split
  all_goals first | rfl | simp_all

/-- no raw `"` and no raw `<` in an escaped attribute value -/
theorem escapeAttr_safe (b : Bytes) : 34 ∉ escapeAttr b ∧ 60 ∉ escapeAttr b := by
  unfold escapeAttr
  constructor
  · apply not_mem_escapeWith
    intro c
    rw [replAttr_unit]
    repeat' split
    all_goals simp
    omega
  · apply not_mem_escapeWith
    intro c
    rw [replAttr_unit]
    repeat' split
    all_goals simp
    omega

/-- no raw `<` in escaped character data -/
theorem escapePcdata_safe (b : Bytes) : 60 ∉ escapePcdata b := by
  unfold escapePcdata
  apply not_mem_escapeWith
  intro c
  rw [replPcdata_unit]
  repeat' split
  all_goals simp
  omega

/-! every `&` in escaped text starts one of the five predefined entities -/

/-- what follows the `&` of the five predefined entities: `lt;` `gt;` `amp;` `quot;` `apos;` -/
def entityTails : List Bytes :=
  [[108, 116, 59], [103, 116, 59], [97, 109, 112, 59], [113, 117, 111, 116, 59], [97, 112, 111, 115, 59]]

theorem amp_not_mem_entityTails : ∀ e ∈ entityTails, 38 ∉ e := by decide

/-- one written unit either has no `&` or is exactly `&` + entity tail -/
def AmpUnit (u : Bytes) : Prop := 38 ∉ u ∨ ∃ e ∈ entityTails, u = 38 :: e

theorem escapeWith_amp (repl : Nat → Option Bytes)
    (hu : ∀ c, AmpUnit (match repl c with | some r => r | none => [c])) (b : Bytes) :
    ∀ pre suf : Bytes, escapeWith repl b = pre ++ 38 :: suf → ∃ e ∈ entityTails, ∃ r, suf = e ++ r := by
  induction b with
  | nil => intro pre suf h; simp [escapeWith] at h
  | cons c rest ih =>
    intro pre suf h
    rw [escapeWith_cons, List.append_eq_append_iff] at h
    rcases h with ⟨a', _, hE⟩ | ⟨c', hU, hE⟩
    · exact ih a' suf hE
    · cases c' with
      | nil => exact ih [] suf (by simpa using hE.symm)
      | cons x c'' =>
        simp only [List.cons_append, List.cons.injEq] at hE
        obtain ⟨rfl, rfl⟩ := hE
        rcases hu c with hn | ⟨e, he, hue⟩
        · exact absurd (by rw [hU]; simp) hn
        · rw [hU] at hue
          cases pre with
          | nil =>
            simp only [List.nil_append, List.cons.injEq, true_and] at hue
            exact ⟨e, he, _, by rw [hue]⟩
          | cons p pre' =>
            simp only [List.cons_append, List.cons.injEq] at hue
            exact absurd (by rw [← hue.2]; simp) (amp_not_mem_entityTails e he)

theorem escapeAttr_amp_wellformed (b pre suf : Bytes) (h : escapeAttr b = pre ++ 38 :: suf) :
    ∃ e ∈ entityTails, ∃ r, suf = e ++ r := by
  refine escapeWith_amp replAttr ?_ b pre suf h
  intro c
  rw [replAttr_unit]
  unfold AmpUnit entityTails
  repeat' split
  all_goals simp
  omega

theorem escapePcdata_amp_wellformed (b pre suf : Bytes) (h : escapePcdata b = pre ++ 38 :: suf) :
    ∃ e ∈ entityTails, ∃ r, suf = e ++ r := by
  refine escapeWith_amp replPcdata ?_ b pre suf h
  intro c
  rw [replPcdata_unit]
  unfold AmpUnit entityTails
  repeat' split
  all_goals simp
  omega

/-! ### soundness of decoding -/

theorem b64Char_b64Val (c v : Nat) (h : b64Val c = some v) : b64Char v = c ∧ v < 64 := by
  unfold b64Val at h
  unfold b64Char
  split at h
  · injection h with h; subst h
    rw [if_pos (by omega)]; omega
  split at h
  · injection h with h; subst h
    rw [if_neg (by omega), if_pos (by omega)]; omega
  split at h
  · injection h with h; subst h
    rw [if_neg (by omega), if_neg (by omega), if_pos (by omega)]; omega
  split at h
  · injection h with h; subst h; subst c; simp
  split at h
  · injection h with h; subst h; subst c; simp
  · exact absurd h (by simp)

/-- whatever decodes, re-encodes to the text: decoding is injective, and accepts canonical text only -/
theorem b64Encode_b64Decode (t d : Bytes) (h : b64Decode t = some d) :
    b64Encode d = t ∧ ∀ x ∈ d, x < 256 := by
  revert d
  fun_induction b64Decode t with
  | case1 => intro d h; injection h with h; subst h; simp [b64Encode]
  | case2 a b d' rest hr x y hy hx hy0 =>
    intro d h; injection h with h; subst h
    obtain ⟨rfl, rfl⟩ := hr
    obtain ⟨rfl, hx64⟩ := b64Char_b64Val _ _ hx
    obtain ⟨rfl, hy64⟩ := b64Char_b64Val _ _ hy
    have e1 : (x * 4 + y / 16) / 4 = x := by omega
    have e2 : (x * 4 + y / 16) % 4 * 16 = y := by omega
    refine ⟨by simp only [b64Encode, e1, e2], ?_⟩
    intro v hv; simp only [List.mem_cons, List.not_mem_nil, or_false] at hv; omega
  | case3 => intro d h; exact absurd h (by simp)
  | case4 => intro d h; exact absurd h (by simp)
  | case5 a b c d' rest hr hc x y z hz hy hx hz0 =>
    intro d h; injection h with h; subst h
    obtain ⟨rfl, rfl⟩ := hr
    obtain ⟨rfl, hx64⟩ := b64Char_b64Val _ _ hx
    obtain ⟨rfl, hy64⟩ := b64Char_b64Val _ _ hy
    obtain ⟨rfl, hz64⟩ := b64Char_b64Val _ _ hz
    have e1 : (x * 4 + y / 16) / 4 = x := by omega
    have e2 : (x * 4 + y / 16) % 4 * 16 + (y % 16 * 16 + z / 4) / 16 = y := by omega
    have e3 : (y % 16 * 16 + z / 4) % 16 * 4 = z := by omega
    refine ⟨by simp only [b64Encode, e1, e2, e3], ?_⟩
    intro v hv; simp only [List.mem_cons, List.not_mem_nil, or_false] at hv
    rcases hv with rfl | rfl <;> omega
  | case6 => intro d h; exact absurd h (by simp)
  | case7 => intro d h; exact absurd h (by simp)
  | case8 a b c d' rest hr x y z w hw hz hy hx ih =>
    intro d h
    simp only [Option.map_eq_some_iff] at h
    obtain ⟨r, hr', rfl⟩ := h
    obtain ⟨he, hb⟩ := ih r hr'
    obtain ⟨rfl, hx64⟩ := b64Char_b64Val _ _ hx
    obtain ⟨rfl, hy64⟩ := b64Char_b64Val _ _ hy
    obtain ⟨rfl, hz64⟩ := b64Char_b64Val _ _ hz
    obtain ⟨rfl, hw64⟩ := b64Char_b64Val _ _ hw
    have e1 : (x * 4 + y / 16) / 4 = x := by omega
    have e2 : (x * 4 + y / 16) % 4 * 16 + (y % 16 * 16 + z / 4) / 16 = y := by omega
    have e3 : (y % 16 * 16 + z / 4) % 16 * 4 + (z % 4 * 64 + w) / 64 = z := by omega
    have e4 : (z % 4 * 64 + w) % 64 = w := by omega
    refine ⟨by simp only [b64Encode, e1, e2, e3, e4, he], ?_⟩
    intro v hv; simp only [List.mem_cons] at hv
    rcases hv with rfl | rfl | rfl | hv
    · omega
    · omega
    · omega
    · exact hb v hv
  | case9 => intro d h; exact absurd h (by simp)
  | case10 => intro d h; exact absurd h (by simp)

theorem b64Decode_inj (t t' d : Bytes) (h : b64Decode t = some d) (h' : b64Decode t' = some d) : t = t' := by
  rw [← (b64Encode_b64Decode t d h).1, ← (b64Encode_b64Decode t' d h').1]

/-- the XML decoder accepts exactly whitespace-interleaved canonical Base64 -/
theorem xmlB64Decode_iff (t d : Bytes) :
    xmlB64Decode t = some d ↔ skipWs t = b64Encode d ∧ ∀ x ∈ d, x < 256 := by
  constructor
  · intro h
    have := b64Encode_b64Decode (skipWs t) d h
    exact ⟨this.1.symm, this.2⟩
  · intro h
    exact xmlB64Decode_of_skipWs t d h.2 h.1

end Rpki.Xml
