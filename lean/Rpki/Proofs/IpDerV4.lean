/-
  The IPv4 side of the IP resources codec: blocks whose bounds are aligned to the low 96 bits (IPv4
  addresses live in the upper 32 bits of the 128-bit representation) are written with prefix lengths of at
  most 32 bits, so the reader of the IPv4 family (`W = 32`) reads back what `IpBlocks::encode_ref` writes.
-/
import Rpki.Proofs.IpDerCodec
import Rpki.Proofs.ChainPrefix
namespace Rpki.IpDer
open Rpki.Der Rpki.Chain

/-- the bounds of a block of IPv4 addresses in the 128-bit representation -/
def V4Shaped (b : Blk) : Prop := b.lo % 2 ^ 96 = 0 ∧ b.hi % 2 ^ 96 = 2 ^ 96 - 1

theorem tz_ge96 (x : Nat) (hx : x < 2 ^ 128) (h : x % 2 ^ 96 = 0) : 96 ≤ tz x := by
  unfold tz trailingZeros
  split
  · omega
  · rename_i h0
    exact trailingZerosAux_max 128 96 x h0 hx h

theorem to1_ge96 (x : Nat) (h : x % 2 ^ 96 = 2 ^ 96 - 1) : 96 ≤ to1 x :=
  (trailingOnesAux_ge 128 96 x (by omega)).2 h

theorem takeOptBlock32_encodeBlock (b : Blk) (hb : b.lo ≤ b.hi) (hhi : b.hi ≤ maxAddr) (hs : V4Shaped b)
    (rest : Bytes) : takeOptBlock 32 (encodeBlock b ++ rest) = .ok b rest := by
  have hM : maxAddr = 2 ^ 128 - 1 := rfl
  have hhi' : b.hi < 2 ^ 128 := by omega
  have hlo : b.lo < 2 ^ 128 := by omega
  unfold encodeBlock
  split
  · rename_i len hip
    obtain ⟨hal, hh⟩ := intoPrefix_sound 128 b.lo b.hi len hip
    have hlen := intoPrefix_le 128 b.lo b.hi len hip
    have hp := prefixOfContent_encode b.lo len hlen hlo (toMin_of_mod _ _ hal)
    -- the size of the prefix is a multiple of 2^96
    have h32 : len ≤ 32 := by
      have hpos : 0 < 2 ^ (128 - len) := Nat.pow_pos (by decide)
      have hd : 2 ^ 96 ∣ 2 ^ (128 - len) := by
        have e : 2 ^ (128 - len) = (b.hi + 1) - b.lo := by omega
        rw [e]
        apply Nat.dvd_sub
        · have := hs.2
          have h2 := Nat.div_add_mod b.hi (2 ^ 96)
          exact ⟨b.hi / 2 ^ 96 + 1, by omega⟩
        · exact Nat.dvd_of_mod_eq_zero hs.1
      have := (Nat.pow_dvd_pow_iff_le_right (by decide : 1 < 2)).1 hd
      omega
    rw [takeOptBlock_prefix 32 b.lo len _ rest hp h32, toMax_of_mod _ _ hal, ← hh]
  · simp only
    have t1 := tz_ge96 b.lo hlo hs.1
    have t2 := to1_ge96 b.hi hs.2
    have hp1 := prefixOfContent_encode (toMin b.lo (128 - tz b.lo)) (128 - tz b.lo) (by omega)
      (Nat.lt_of_le_of_lt (toMin_le _ _) hlo) (toMin_idem _ _)
    have hp2 := prefixOfContent_encode (toMin b.hi (128 - to1 b.hi)) (128 - to1 b.hi) (by omega)
      (Nat.lt_of_le_of_lt (toMin_le _ _) hhi') (toMin_idem _ _)
    rw [takeOptBlock_range 32 _ _ _ _ _ _ rest hp1 hp2 (by omega) (by omega)
      (by rw [lo_prefix _ hlo, hi_prefix]; exact hb), lo_prefix _ hlo, hi_prefix]

theorem blocksLoop32_encode : ∀ (c : List Blk) (fuel : Nat), c.length ≤ fuel →
    (∀ b ∈ c, b.lo ≤ b.hi ∧ b.hi ≤ maxAddr) → (∀ b ∈ c, V4Shaped b) →
    blocksLoop 32 fuel ((c.map encodeBlock).flatten) = some c := by
  intro c
  induction c with
  | nil =>
    intro fuel _ _ _
    cases fuel with
    | zero => simp [blocksLoop]
    | succ f => simp [blocksLoop, takeOptBlock_nil]
  | cons b bs ih =>
    intro fuel hf hv hs
    cases fuel with
    | zero => simp at hf
    | succ f =>
      have hbv := hv b (List.mem_cons_self ..)
      rw [List.map_cons, List.flatten_cons, blocksLoop,
        takeOptBlock32_encodeBlock b hbv.1 hbv.2 (hs b (List.mem_cons_self ..))]
      simp only
      rw [ih f (by simpa using hf) (fun x hx => hv x (List.mem_cons_of_mem _ hx))
        (fun x hx => hs x (List.mem_cons_of_mem _ hx))]
      rfl

end Rpki.IpDer
