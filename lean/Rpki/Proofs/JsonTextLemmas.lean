/-
  The JSON text of a SLURM file (`Rpki/Model/JsonText.lean`): the reference reader inverts the writer —
  strings with their escapes, numbers, nested arrays and objects — for every tree.
-/
import Rpki.Model.JsonText
import Rpki.Proofs.ResTextLemmas
import Rpki.Proofs.ResTextV6
namespace Rpki.JsonText
open Rpki.Slurm Rpki.ResText

/-! ### strings -/

theorem hexVal_hexDigit : ∀ (v : Nat), v < 16 → hexVal (hexDigit v) = some v := by decide

theorem lexStr_step (c : Nat) (r acc : (List Nat)) :
    lexStr (escByte c ++ r) acc = lexStr r (c :: acc) := by
  unfold escByte
  by_cases h1 : c = 34
  · subst h1; rw [lexStr.eq_def]; simp
  by_cases h2 : c = 92
  · subst h2; rw [lexStr.eq_def]; simp
  by_cases h3 : c = 8
  · subst h3; rw [lexStr.eq_def]; simp
  by_cases h4 : c = 12
  · subst h4; rw [lexStr.eq_def]; simp
  by_cases h5 : c = 10
  · subst h5; rw [lexStr.eq_def]; simp
  by_cases h6 : c = 13
  · subst h6; rw [lexStr.eq_def]; simp
  by_cases h7 : c = 9
  · subst h7; rw [lexStr.eq_def]; simp
  by_cases h8 : c < 32
  · simp only [h1, h2, h3, h4, h5, h6, h7, h8, if_false, if_true, List.cons_append, List.nil_append]
    rw [lexStr.eq_def]
    have : c / 16 * 16 + c % 16 = c := by omega
    simp [hexVal_hexDigit (c / 16) (by omega), hexVal_hexDigit (c % 16) (by omega), this]
  · simp only [h1, h2, h3, h4, h5, h6, h7, h8, if_false, List.cons_append, List.nil_append]
    rw [lexStr.eq_def]
    simp [h1, h2, h8]

theorem lexStr_escape : ∀ (s rest acc : (List Nat)),
    lexStr (escape s ++ 34 :: rest) acc = some (acc.reverse ++ s, rest) := by
  intro s
  induction s with
  | nil => intro rest acc; rw [lexStr.eq_def]; simp [escape]
  | cons c r ih =>
    intro rest acc
    simp only [escape, List.append_assoc]
    rw [lexStr_step, ih]
    simp

theorem lexStr_quote (s rest : (List Nat)) : lexStr (escape s ++ 34 :: rest) [] = some (s, rest) := by
  rw [lexStr_escape]; simp

/-! ### keys -/

theorem keyOfName_keyName (k : Key) : keyOfName (keyName k) = some k := by
  cases k with
  | other n =>
    simp only [keyOfName, knownKeys, keyName, List.find?, List.cons.injEq, false_and, decide_false,
      Nat.reduceEqDiff]
    simp only [decimal_value, if_true]
  | _ => rfl

/-! ### numbers -/

def NoDigitHead (rest : (List Nat)) : Prop := ∀ c r, rest = c :: r → isDigit c = false

theorem takeWhile_digits (d rest : (List Nat)) (hd : d.all isDigit = true) (hr : NoDigitHead rest) :
    (d ++ rest).takeWhile isDigit = d := by
  induction d with
  | nil =>
    cases rest with
    | nil => rfl
    | cons c r => simp [List.takeWhile, hr c r rfl]
  | cons x xs ih =>
    simp only [List.all_cons, Bool.and_eq_true] at hd
    simp only [List.cons_append, List.takeWhile, hd.1, ih hd.2]

theorem noDigit_of (c : Nat) (r : (List Nat)) (h : isDigit c = false) : NoDigitHead (c :: r) := by
  intro c' r' e; cases e; exact h

/-! ### values -/

theorem render_head (j : Json) : ∃ c t, render j = c :: t ∧ c ≠ 93 ∧ c ≠ 125 := by
  cases j with
  | null => simp only [render]; exact ⟨_, _, rfl, by decide, by decide⟩
  | bool b => cases b <;> (simp only [render]; exact ⟨_, _, rfl, by decide, by decide⟩)
  | num n =>
    obtain ⟨c, r, e, h1, h2, _⟩ := decimal_head n
    exact ⟨c, r, by simp [render, e], by omega, by omega⟩
  | str s => simp only [render, quote]; exact ⟨_, _, rfl, by decide, by decide⟩
  | pfx p => simp only [render, quote]; exact ⟨_, _, rfl, by decide, by decide⟩
  | bytes b => simp only [render, quote]; exact ⟨_, _, rfl, by decide, by decide⟩
  | arr l => simp only [render]; exact ⟨_, _, rfl, by decide, by decide⟩
  | obj l => simp only [render]; exact ⟨_, _, rfl, by decide, by decide⟩

theorem parseVal_quote (f : Nat) (s rest : (List Nat)) :
    parseVal (f + 1) (quote s ++ rest) = some (.str s, rest) := by
  simp only [quote, List.cons_append, List.append_assoc, List.nil_append, parseVal]
  simp only [show ¬ (34 = 110) by decide, show ¬ (34 = 116) by decide, show ¬ (34 = 102) by decide, if_false,
    if_true, lexStr_quote, Option.map_some]

theorem parseVal_num (f n : Nat) (rest : (List Nat)) (hr : NoDigitHead rest) :
    parseVal (f + 1) (decimal n ++ rest) = some (.num n, rest) := by
  obtain ⟨c, r, e, h1, h2, _⟩ := decimal_head n
  have hd : (decimal n).all isDigit = true := decimal_all_isDigit n
  have htw := takeWhile_digits (decimal n) rest hd hr
  rw [e] at htw ⊢
  simp only [List.cons_append, parseVal]
  have hc : isDigit c = true := by simp [isDigit]; omega
  simp only [show ¬ c = 110 by omega, show ¬ c = 116 by omega, show ¬ c = 102 by omega, show ¬ c = 34 by omega,
    show ¬ c = 91 by omega, show ¬ c = 123 by omega, if_false, hc, if_true, digitsOf]
  rw [← List.cons_append, htw, ← e, decimal_value]
  simp

mutual
theorem parseVal_render : ∀ (j : Json) (f : Nat) (rest : (List Nat)), (render j).length ≤ f → NoDigitHead rest →
    parseVal f (render j ++ rest) = some (erase j, rest)
  | .null, f, rest, hf, _ => by
    cases f with
    | zero => simp [render] at hf
    | succ f => simp [render, parseVal, dropPrefix, erase]
  | .bool true, f, rest, hf, _ => by
    cases f with
    | zero => simp [render] at hf
    | succ f => simp [render, parseVal, dropPrefix, erase]
  | .bool false, f, rest, hf, _ => by
    cases f with
    | zero => simp [render] at hf
    | succ f => simp [render, parseVal, dropPrefix, erase]
  | .num n, f, rest, hf, hr => by
    cases f with
    | zero =>
      obtain ⟨c, r, e, _⟩ := decimal_head n
      simp [render, e] at hf
    | succ f => simp only [render, erase]; exact parseVal_num f n rest hr
  | .str s, f, rest, hf, _ => by
    cases f with
    | zero => simp [render, quote] at hf
    | succ f => simp only [render, erase]; exact parseVal_quote f s rest
  | .pfx p, f, rest, hf, _ => by
    cases f with
    | zero => simp [render, quote] at hf
    | succ f => simp only [render, erase]; exact parseVal_quote f _ rest
  | .bytes b, f, rest, hf, _ => by
    cases f with
    | zero => simp [render, quote] at hf
    | succ f => simp only [render, erase]; exact parseVal_quote f _ rest
  | .arr l, f, rest, hf, _ => by
    cases f with
    | zero => simp [render] at hf
    | succ f =>
      cases l with
      | nil => simp [render, renderArr, parseVal, erase, eraseArr]
      | cons x xs =>
        have hlen : (renderArr (x :: xs)).length ≤ f := by simp [render] at hf; omega
        have hp := parseElems_render (x :: xs) (by simp) f rest [] hlen
        obtain ⟨c, t, e, h93, _⟩ := render_head x
        have hh : ∃ t', renderArr (x :: xs) ++ rest = c :: t' := by
          cases xs with
          | nil => simp only [renderArr, e, List.cons_append, List.append_assoc]; exact ⟨_, rfl⟩
          | cons y ys => simp only [renderArr, e, List.cons_append, List.append_assoc]; exact ⟨_, rfl⟩
        obtain ⟨t', et⟩ := hh
        simp only [render, List.cons_append, parseVal]
        simp only [show ¬ (91 = 110) by decide, show ¬ (91 = 116) by decide, show ¬ (91 = 102) by decide,
          show ¬ (91 = 34) by decide, if_false, if_true]
        rw [et] at hp ⊢
        have : ∀ (r' : (List Nat)), ¬ (c :: t' = 93 :: r') := by intro r' h; cases h; exact h93 rfl
        split
        · next r' heq => exact absurd heq (this r')
        · simp [hp, erase]
  | .obj l, f, rest, hf, _ => by
    cases f with
    | zero => simp [render] at hf
    | succ f =>
      cases l with
      | nil => simp [render, renderObj, parseVal, erase, eraseObj]
      | cons x xs =>
        have hlen : (renderObj (x :: xs)).length ≤ f := by simp [render] at hf; omega
        have hp := parseMembers_render (x :: xs) (by simp) f rest [] hlen
        have hh : ∃ t', renderObj (x :: xs) ++ rest = 34 :: t' := by
          obtain ⟨k, v⟩ := x
          cases xs with
          | nil => simp only [renderObj, quote, List.cons_append, List.append_assoc]; exact ⟨_, rfl⟩
          | cons y ys => simp only [renderObj, quote, List.cons_append, List.append_assoc]; exact ⟨_, rfl⟩
        obtain ⟨t', et⟩ := hh
        simp only [render, List.cons_append, parseVal]
        simp only [show ¬ (123 = 110) by decide, show ¬ (123 = 116) by decide, show ¬ (123 = 102) by decide,
          show ¬ (123 = 34) by decide, show ¬ (123 = 91) by decide, if_false, if_true]
        rw [et] at hp ⊢
        split
        · next r' heq => cases heq
        · simp [hp, erase]
theorem parseElems_render : ∀ (l : List Json) (_ : l ≠ []) (f : Nat) (rest : (List Nat)) (acc : List Json),
    (renderArr l).length ≤ f →
    parseElems f (renderArr l ++ rest) acc = some (acc.reverse ++ eraseArr l, rest)
  | [], hne, _, _, _, _ => absurd rfl hne
  | [x], _, f, rest, acc, hf => by
    cases f with
    | zero => simp [renderArr] at hf
    | succ f =>
      have hx := parseVal_render x f (93 :: rest) (by simp [renderArr] at hf; omega) (noDigit_of 93 rest (by decide))
      simp only [renderArr, List.append_assoc, List.cons_append, List.nil_append, parseElems, hx]
      simp [eraseArr]
  | x :: y :: r, _, f, rest, acc, hf => by
    cases f with
    | zero => simp [renderArr] at hf
    | succ f =>
      have hl : (render x).length + 1 + (renderArr (y :: r)).length ≤ f + 1 := by
        simp [renderArr] at hf; omega
      have hx := parseVal_render x f (44 :: (renderArr (y :: r) ++ rest)) (by omega) (noDigit_of 44 _ (by decide))
      have hr := parseElems_render (y :: r) (by simp) f rest (erase x :: acc) (by omega)
      simp only [renderArr, List.append_assoc, List.cons_append, parseElems, hx, hr]
      simp [eraseArr]
theorem parseMembers_render : ∀ (l : List (Key × Json)) (_ : l ≠ []) (f : Nat) (rest : (List Nat))
    (acc : List (Key × Json)), (renderObj l).length ≤ f →
    parseMembers f (renderObj l ++ rest) acc = some (acc.reverse ++ eraseObj l, rest)
  | [], hne, _, _, _, _ => absurd rfl hne
  | [(k, v)], _, f, rest, acc, hf => by
    cases f with
    | zero => simp [renderObj] at hf
    | succ f =>
      have hv := parseVal_render v f (125 :: rest) (by simp [renderObj, quote] at hf; omega)
        (noDigit_of 125 rest (by decide))
      simp only [renderObj, quote, List.append_assoc, List.cons_append, List.nil_append, parseMembers,
        lexStr_quote, keyOfName_keyName, hv]
      simp [eraseObj]
  | (k, v) :: y :: r, _, f, rest, acc, hf => by
    cases f with
    | zero => simp [renderObj] at hf
    | succ f =>
      have hl : (render v).length + 1 + (renderObj (y :: r)).length ≤ f := by
        simp [renderObj, quote] at hf; omega
      have hv := parseVal_render v f (44 :: (renderObj (y :: r) ++ rest)) (by omega) (noDigit_of 44 _ (by decide))
      have hr := parseMembers_render (y :: r) (by simp) f rest ((k, erase v) :: acc) (by omega)
      simp only [renderObj, quote, List.append_assoc, List.cons_append, List.nil_append, parseMembers,
        lexStr_quote, keyOfName_keyName, hv, hr]
      simp [eraseObj]
end

/-- the reference reader gives back the tree a text was written from -/
theorem parse_render (j : Json) : parse (render j) = some (erase j) := by
  unfold parse
  have := parseVal_render j ((render j).length + 1) [] (by omega) (by intro c r h; cases h)
  simp only [List.append_nil] at this
  rw [this]

end Rpki.JsonText
