import Rpki.Model.Uri
namespace Rpki.Uri
open Rpki.Consts

/-! ### `split` -/

theorem split_ne_nil (b : Bytes) : split b ≠ [] := by
  induction b with
  | nil => simp [split]
  | cons c cs ih =>
    unfold split
    split
    · simp
    · split <;> simp

/-- shape of `split`: the first item has no slash, and either it is everything or a slash follows -/
theorem split_cons (b : Bytes) : ∀ h t, split b = h :: t →
    slash ∉ h ∧ ((t = [] ∧ b = h) ∨ (∃ r, b = h ++ slash :: r ∧ split r = t)) := by
  induction b with
  | nil =>
    intro h t e
    simp [split] at e
    obtain ⟨rfl, rfl⟩ := e
    simp
  | cons c cs ih =>
    intro h t e
    unfold split at e
    by_cases hc : c = slash
    · simp only [hc, if_true] at e
      have e1 : h = [] := by injection e with a _; exact a.symm
      have e2 : t = split cs := by injection e with _ a; exact a.symm
      subst e1; subst hc
      refine ⟨by simp, Or.inr ⟨cs, by simp, e2.symm⟩⟩
    · simp only [hc, if_false] at e
      cases hs : split cs with
      | nil => exact absurd hs (split_ne_nil cs)
      | cons h' t' =>
        rw [hs] at e
        simp only at e
        injection e with e1 e2
        subst e1; subst e2
        have ⟨h1, h2⟩ := ih h' t' hs
        refine ⟨by simp [hc, h1]; exact fun a => hc a.symm, ?_⟩
        rcases h2 with ⟨rfl, rfl⟩ | ⟨r, rfl, hr⟩
        · exact Or.inl ⟨rfl, rfl⟩
        · exact Or.inr ⟨r, by simp, hr⟩

theorem split_noslash (b : Bytes) (h : slash ∉ b) : split b = [b] := by
  induction b with
  | nil => simp [split]
  | cons c cs ih =>
    simp only [List.mem_cons, not_or] at h
    unfold split
    have : ¬ c = slash := fun e => h.1 e.symm
    simp [this, ih h.2]

theorem split_append (a b : Bytes) : split (a ++ slash :: b) = split a ++ split b := by
  induction a with
  | nil => simp [split]
  | cons c cs ih =>
    simp only [List.cons_append]
    by_cases hc : c = slash
    · have e1 : split (c :: (cs ++ slash :: b)) = [] :: split (cs ++ slash :: b) := by
        rw [split]; simp [hc]
      have e2 : split (c :: cs) = [] :: split cs := by rw [split]; simp [hc]
      rw [e1, e2, ih]; rfl
    · cases hs : split cs with
      | nil => exact absurd hs (split_ne_nil cs)
      | cons h t =>
        have e1 : split (c :: (cs ++ slash :: b)) = (c :: h) :: (t ++ split b) := by
          rw [split]; simp [hc, ih, hs]
        have e2 : split (c :: cs) = (c :: h) :: t := by rw [split]; simp [hc, hs]
        rw [e1, e2]; rfl

/-- items of a slash-free prefix followed by more -/
theorem split_items_noslash (b : Bytes) : ∀ x ∈ split b, slash ∉ x := by
  induction b with
  | nil => simp [split]
  | cons c cs ih =>
    unfold split
    by_cases hc : c = slash
    · simp only [hc, if_true]
      intro x hx
      rcases List.mem_cons.1 hx with e | e
      · subst e; simp
      · exact ih x e
    · simp only [hc, if_false]
      cases hs : split cs with
      | nil => exact absurd hs (split_ne_nil cs)
      | cons h t =>
        rw [hs] at ih
        intro x hx
        simp only at hx
        rcases List.mem_cons.1 hx with e | e
        · subst e
          have := ih h (by simp)
          simp only [List.mem_cons, not_or]
          exact ⟨fun a => hc a.symm, this⟩
        · exact ih x (by simp [e])

/-! ### `checkItems` -/

def goodSeg (s : Bytes) : Prop := s ≠ [] ∧ s ≠ [dot, dot] ∧ s ≠ [dot]

instance (s : Bytes) : Decidable (goodSeg s) := by unfold goodSeg; infer_instance

/-- `checkItems` succeeds exactly when all items but the last are good and the last is good or empty -/
theorem checkItems_ok_iff (l : List Bytes) (hl : l ≠ []) :
    checkItems l = .ok () ↔ (∀ s ∈ l.dropLast, goodSeg s) ∧ (∀ s, l.getLast? = some s → s = [] ∨ goodSeg s) := by
  induction l with
  | nil => exact absurd rfl hl
  | cons item rest ih =>
    unfold checkItems
    by_cases he : item = []
    · subst he
      by_cases hr : rest = []
      · subst hr; simp
      · simp only [if_true, hr, if_false]
        constructor
        · intro h; cases h
        · rintro ⟨h1, _⟩
          have : [] ∈ ([] :: rest : List Bytes).dropLast := by
            cases rest with
            | nil => exact absurd rfl hr
            | cons a b => simp [List.dropLast]
          exact absurd (h1 [] this).1 (by simp)
    · simp only [he, if_false]
      by_cases hd : item = [dot, dot] ∨ item = [dot]
      · simp only [hd, if_true]
        constructor
        · intro h; cases h
        · rintro ⟨h1, h2⟩
          cases rest with
          | nil =>
            have := h2 item (by simp)
            rcases this with e | e
            · exact absurd e he
            · rcases hd with hd | hd
              · exact absurd hd e.2.1
              · exact absurd hd e.2.2
          | cons a b =>
            have := h1 item (by simp [List.dropLast])
            rcases hd with hd | hd
            · exact absurd hd this.2.1
            · exact absurd hd this.2.2
      · simp only [hd, if_false]
        have hg : goodSeg item := ⟨he, fun e => hd (Or.inl e), fun e => hd (Or.inr e)⟩
        cases rest with
        | nil =>
          simp [checkItems]
          exact Or.inr hg
        | cons a b =>
          rw [ih (by simp)]
          simp only [List.dropLast_cons₂, List.mem_cons, List.getLast?_cons_cons]
          constructor
          · rintro ⟨h1, h2⟩
            refine ⟨?_, h2⟩
            intro s hs
            rcases hs with e | e
            · subst e; exact hg
            · exact h1 s e
          · rintro ⟨h1, h2⟩
            exact ⟨fun s hs => h1 s (Or.inr hs), h2⟩

end Rpki.Uri
