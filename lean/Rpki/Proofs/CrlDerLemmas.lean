/-
  Lemmas about the CRL decoder models (`Model/CrlDer.lean`, `Model/SigMsgDer.lean`): the captured
  revocation list of every decoded CRL passed the counting pass of the entry reader.
-/
import Rpki.Model.CrlDer
import Rpki.Model.SigMsgDer
import Rpki.Proofs.CrlCodec
namespace Rpki.CrlDer
open Rpki.Der Rpki.CertDer

theorem takeRevoked_capture (b cap rest : Bytes) (h : takeRevoked b = some (cap, rest)) :
    ∃ n, Crl.capture cap = some n := by
  unfold takeRevoked at h
  split at h
  · injection h with h; injection h with e _; subst e; exact ⟨0, by decide⟩
  · cases h
  · rename_i c r _
    cases hc : Crl.capture c with
    | none => simp [hc] at h
    | some n => simp only [hc] at h; injection h with h; injection h with e _; subst e; exact ⟨n, hc⟩

theorem decodeTbsCrl_revoked (raw : Bytes) (p : Bool) (d : CrlD) (h : decodeTbsCrl raw = some (p, d)) :
    ∃ n, Crl.capture d.revoked = some n := by
  unfold decodeTbsCrl at h
  repeat' (split at h)
  all_goals first
    | (cases h; done)
    | skip
  simp only [Option.some.injEq, Prod.mk.injEq] at h
  obtain ⟨_, e⟩ := h
  subst e
  simp only
  apply takeRevoked_capture
  assumption

theorem crlInner_revoked (c : Bytes) (d : CrlD) (h : crlInner c = some d) :
    ∃ n, Crl.capture d.revoked = some n := by
  unfold crlInner at h
  split at h
  · cases h
  · cases h1 : skipOne c with
    | none => simp [h1] at h
    | some r1 =>
      simp only [h1] at h
      cases h2 : takeSigAlg r1 with
      | none => simp [h2] at h
      | some q2 =>
        obtain ⟨op, r2⟩ := q2
        simp only [h2] at h
        cases h3 : takeBitString r2 with
        | none => simp [h3] at h
        | some q3 =>
          obtain ⟨u, sig, r3⟩ := q3
          simp only [h3] at h
          split at h
          · cases h
          · cases h4 : decodeTbsCrl (List.take (c.length - r1.length) c) with
            | none => simp [h4] at h
            | some q4 =>
              obtain ⟨ip, d'⟩ := q4
              simp only [h4] at h
              split at h
              · cases h
              · simp only [Option.some.injEq] at h
                subst h
                exact decodeTbsCrl_revoked _ ip d' h4

theorem takeCrl_revoked (b : Bytes) (d : CrlD) (rest : Bytes) (h : takeCrl b = some (d, rest)) :
    ∃ n, Crl.capture d.revoked = some n := by
  unfold takeCrl at h
  cases h0 : takeCons tagSeq b with
  | none => simp [h0] at h
  | some q =>
    obtain ⟨c, rest0⟩ := q
    simp only [h0] at h
    cases h1 : crlInner c with
    | none => simp [h1] at h
    | some d' =>
      simp only [h1, Option.map_some, Option.some.injEq, Prod.mk.injEq] at h
      obtain ⟨e, _⟩ := h
      subst e
      exact crlInner_revoked c d' h1

/-- **every decoded CRL**: the captured list passed the counting pass -/
theorem decodeCrl_revoked (b : Bytes) (d : CrlD) (h : decodeCrl b = some d) :
    ∃ n, Crl.capture d.revoked = some n := by
  unfold decodeCrl at h
  rw [Option.map_eq_some_iff] at h
  obtain ⟨⟨d', rest⟩, ht, e⟩ := h
  subst e
  exact takeCrl_revoked b d' rest ht

end Rpki.CrlDer

namespace Rpki.SigMsgDer
open Rpki.Der Rpki.CertDer Rpki.CmsDer

theorem takeMsgRevoked_capture (b cap rest : Bytes) (h : takeMsgRevoked b = some (cap, rest)) :
    ∃ n, capturePass takeOptMsgEntry (fun _ => true) cap.length cap 0 = some n := by
  unfold takeMsgRevoked at h
  split at h
  · injection h with h; injection h with e _; subst e; exact ⟨0, rfl⟩
  · cases h
  · rename_i c r _
    cases hc : capturePass takeOptMsgEntry (fun _ => true) c.length c 0 with
    | none => simp [hc] at h
    | some n => simp only [hc] at h; injection h with h; injection h with e _; subst e; exact ⟨n, hc⟩

theorem decodeTbsMsgCrl_revoked (raw : Bytes) (d : MsgCrlD) (h : decodeTbsMsgCrl raw = some d) :
    ∃ n, capturePass takeOptMsgEntry (fun _ => true) d.revoked.length d.revoked 0 = some n := by
  unfold decodeTbsMsgCrl at h
  repeat' (split at h)
  all_goals first
    | (cases h; done)
    | skip
  injection h with h
  subst h
  simp only
  apply takeMsgRevoked_capture
  assumption

theorem msgCrlBody_revoked (c : Bytes) (d : MsgCrlD) (h : msgCrlBody c = some d) :
    ∃ n, capturePass takeOptMsgEntry (fun _ => true) d.revoked.length d.revoked 0 = some n := by
  unfold msgCrlBody at h
  repeat' (split at h)
  all_goals first
    | (cases h; done)
    | skip
  rw [Option.map_eq_some_iff] at h
  obtain ⟨d', hd, e⟩ := h
  subst e
  exact decodeTbsMsgCrl_revoked _ d' hd

theorem msgCrlPart_revoked (r3 : Bytes) (d : MsgCrlD) (r4 : Bytes) (h : msgCrlPart r3 = some (d, r4)) :
    ∃ n, capturePass takeOptMsgEntry (fun _ => true) d.revoked.length d.revoked 0 = some n := by
  unfold msgCrlPart at h
  repeat' (split at h)
  all_goals first
    | (cases h; done)
    | skip
  simp only [Option.some.injEq, Prod.mk.injEq] at h
  obtain ⟨e, _⟩ := h
  subst e
  apply msgCrlBody_revoked
  assumption

theorem msgSignedData_revoked (sd : Bytes) (m : SigMsgD) (h : msgSignedData sd = some m) :
    ∃ n, capturePass takeOptMsgEntry (fun _ => true) m.crl.revoked.length m.crl.revoked 0 = some n := by
  unfold msgSignedData at h
  repeat' (split at h)
  all_goals first
    | (cases h; done)
    | skip
  injection h with h
  subst h
  simp only
  apply msgCrlPart_revoked
  assumption

theorem decodeSigMsg_revoked (b : Bytes) (m : SigMsgD) (h : decodeSigMsg b = some m) :
    ∃ n, capturePass takeOptMsgEntry (fun _ => true) m.crl.revoked.length m.crl.revoked 0 = some n := by
  unfold decodeSigMsg at h
  repeat' (split at h)
  all_goals first
    | (cases h; done)
    | exact msgSignedData_revoked _ m h

end Rpki.SigMsgDer

namespace Rpki.SigMsgDer
open Rpki.Der Rpki.CertDer Rpki.CmsDer

/-- the signed attributes of a decoded protocol message parse (relaxed attribute mode) -/
theorem msgSignerInfo_attrs (ct si sid attrs md sig : Bytes)
    (h : msgSignerInfo ct si = some (sid, attrs, md, sig)) :
    ∃ c m st, SigObj.parseAttrs false attrs = some (c, m, st) := by
  unfold msgSignerInfo at h
  repeat' (split at h)
  all_goals first
    | (cases h; done)
    | skip
  simp only [Option.some.injEq, Prod.mk.injEq] at h
  obtain ⟨_, e2, _, _⟩ := h
  subst e2
  exact ⟨_, _, _, by assumption⟩

theorem msgSignedData_attrs (sd : Bytes) (m : SigMsgD) (h : msgSignedData sd = some m) :
    ∃ c d st, SigObj.parseAttrs false m.attrs = some (c, d, st) := by
  unfold msgSignedData at h
  repeat' (split at h)
  all_goals first
    | (cases h; done)
    | skip
  injection h with h
  subst h
  simp only
  rename_i hs
  unfold msgSignerPart at hs
  repeat' (split at hs)
  all_goals first
    | (cases hs; done)
    | exact msgSignerInfo_attrs _ _ _ _ _ _ hs

theorem decodeSigMsg_attrs (b : Bytes) (m : SigMsgD) (h : decodeSigMsg b = some m) :
    ∃ c d st, SigObj.parseAttrs false m.attrs = some (c, d, st) := by
  unfold decodeSigMsg at h
  repeat' (split at h)
  all_goals first
    | (cases h; done)
    | exact msgSignedData_attrs _ m h

end Rpki.SigMsgDer

namespace Rpki.SigMsgDer
open Rpki.Der Rpki.CertDer Rpki.CmsDer

theorem msgSignerInfo_spec (ct si sid attrs md sig : Bytes)
    (h : msgSignerInfo ct si = some (sid, attrs, md, sig)) :
    ∀ ct' md' st', SigObj.parseAttrs false attrs = some (ct', md', st') → ct' = ct ∧ md' = md := by
  intro ct' md' st' hp
  unfold msgSignerInfo at h
  repeat' (split at h)
  all_goals first
    | (cases h; done)
    | skip
  simp only [Option.some.injEq, Prod.mk.injEq] at h
  obtain ⟨_, e2, e3, _⟩ := h
  subst e2 e3
  simp_all

theorem msgEncap_ct (r1 ct content r2 : Bytes) (h : msgEncap r1 = some (ct, content, r2)) :
    ct = Consts.oidProtocolContentType := by
  unfold msgEncap at h
  repeat' (split at h)
  all_goals first
    | (cases h; done)
    | skip
  simp only [Option.some.injEq, Prod.mk.injEq] at h
  obtain ⟨e, _, _⟩ := h
  subst e
  simp_all

theorem msgSignerPart_spec (ct r4 sid attrs md sig : Bytes)
    (h : msgSignerPart ct r4 = some (sid, attrs, md, sig)) :
    ∀ ct' md' st', SigObj.parseAttrs false attrs = some (ct', md', st') → ct' = ct ∧ md' = md := by
  unfold msgSignerPart at h
  repeat' (split at h)
  all_goals first
    | (cases h; done)
    | exact msgSignerInfo_spec _ _ _ _ _ _ h

theorem msgSignedData_spec (sd : Bytes) (m : SigMsgD) (h : msgSignedData sd = some m) :
    ∃ st, SigObj.parseAttrs false m.attrs = some (Consts.oidProtocolContentType, m.messageDigest, st) := by
  obtain ⟨c, d, st, hp⟩ := msgSignedData_attrs sd m h
  refine ⟨st, ?_⟩
  unfold msgSignedData at h
  cases h0 : msgHead sd with
  | none => simp [h0] at h
  | some r1 =>
    simp only [h0] at h
    cases h1 : msgEncap r1 with
    | none => simp [h1] at h
    | some q1 =>
      obtain ⟨ct, content, r2⟩ := q1
      have hct := msgEncap_ct _ _ _ _ h1
      simp only [h1] at h
      cases h2 : msgCertPart r2 with
      | none => simp [h2] at h
      | some q2 =>
        obtain ⟨cert, r3⟩ := q2
        simp only [h2] at h
        cases h3 : msgCrlPart r3 with
        | none => simp [h3] at h
        | some q3 =>
          obtain ⟨crl, r4⟩ := q3
          simp only [h3] at h
          cases h4 : msgSignerPart ct r4 with
          | none => simp [h4] at h
          | some q4 =>
            obtain ⟨sid, attrs, md, sig⟩ := q4
            simp only [h4] at h
            injection h with h
            subst h
            simp only at hp ⊢
            obtain ⟨e1, e2⟩ := msgSignerPart_spec _ _ _ _ _ _ h4 c d st hp
            rw [hp, e1, e2, hct]

theorem decodeSigMsg_spec (b : Bytes) (m : SigMsgD) (h : decodeSigMsg b = some m) :
    ∃ st, SigObj.parseAttrs false m.attrs = some (Consts.oidProtocolContentType, m.messageDigest, st) := by
  unfold decodeSigMsg at h
  repeat' (split at h)
  all_goals first
    | (cases h; done)
    | exact msgSignedData_spec _ m h

end Rpki.SigMsgDer
