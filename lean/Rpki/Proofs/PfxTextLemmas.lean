/-
  Text forms of prefixes, max-length prefixes and AS numbers (`Rpki/Model/PfxText.lean`): what
  `Display` writes, `FromStr` reads back as the same value — strict and relaxed.
-/
import Rpki.Model.PfxText
import Rpki.Proofs.PrefixLemmas
import Rpki.Proofs.ResTextLemmas
import Rpki.Proofs.ResTextV6
import Rpki.Proofs.ResTextSets
namespace Rpki.PfxText
open Rpki.Prefix Rpki.ResText Rpki.Consts

/-! ### `IpAddr::from_str` on written addresses -/

theorem splitOn_mem (sep c : Nat) (hc : c ≠ sep) : ∀ (b cur : Bytes), (c ∈ b ∨ c ∈ cur) →
    ∃ p ∈ splitOn sep b cur, c ∈ p := by
  intro b
  induction b with
  | nil =>
    intro cur h
    refine ⟨cur.reverse, by simp [splitOn], ?_⟩
    rcases h with h | h
    · cases h
    · simpa using h
  | cons x rest ih =>
    intro cur h
    unfold splitOn
    by_cases hx : x = sep
    · simp only [hx, if_true]
      rcases h with h | h
      · rcases List.mem_cons.mp h with h | h
        · exact absurd (h.trans hx) hc
        · obtain ⟨p, hp, hcp⟩ := ih [] (Or.inl h)
          exact ⟨p, List.mem_cons_of_mem _ hp, hcp⟩
      · exact ⟨cur.reverse, List.mem_cons_self, by simpa using h⟩
    · simp only [hx, if_false]
      apply ih
      rcases h with h | h
      · rcases List.mem_cons.mp h with h | h
        · exact Or.inr (by rw [h]; exact List.mem_cons_self)
        · exact Or.inl h
      · exact Or.inr (List.mem_cons_of_mem _ h)

theorem mapM_none_of_mem {α β : Type} (f : α → Option β) : ∀ (l : List α) (x : α), x ∈ l → f x = none →
    l.mapM f = none := by
  intro l
  induction l with
  | nil => intro x hx; cases hx
  | cons y l ih =>
    intro x hx hf
    simp only [List.mapM_cons]
    rcases List.mem_cons.mp hx with h | h
    · subst h; simp [hf]
    · cases hy : f y with
      | none => simp
      | some v => simp [ih x h hf]

theorem parseOctet_colon (p : Bytes) (h : 58 ∈ p) : parseOctet p = none := by
  unfold parseOctet
  have hall : p.all isDigit = false := by
    cases hq : p.all isDigit with
    | false => rfl
    | true =>
      have := List.all_eq_true.mp hq 58 h
      simp [isDigit] at this
  simp [hall]

/-- a text with a `:` in it is not an IPv4 address -/
theorem parseV4_colon (b : Bytes) (h : 58 ∈ b) : parseV4 b = none := by
  unfold parseV4
  obtain ⟨p, hp, hcp⟩ := splitOn_mem 46 58 (by decide) b [] (Or.inl h)
  rw [mapM_none_of_mem parseOctet _ p hp (parseOctet_colon p hcp)]

theorem parseIpAddr_fmt (v4 : Bool) (bits : Nat) (hb : bits < 2 ^ 128) :
    parseIpAddr (fmtAddr v4 bits) = some (if v4 then (true, bits / 2 ^ 96) else (false, bits)) := by
  unfold parseIpAddr fmtAddr
  cases v4 with
  | true =>
    simp only [if_true, parseV4_fmtV4 (bits / 2 ^ 96) (by omega)]
  | false =>
    simp only [Bool.false_eq_true, if_false, parseV4_colon _ (fmtV6_has_colon bits), parseV6_fmtV6 bits hb,
      Option.map_some]

theorem fmtAddr_chars (v4 : Bool) (bits : Nat) : ∀ c ∈ fmtAddr v4 bits, 46 ≤ c ∧ c ≠ 47 := by
  intro c hc
  cases v4 with
  | true => have := (fmtAddr_v4_chars bits).2 c hc; omega
  | false => have := (fmtAddr_v6_chars bits c hc).ge; omega

/-! ### prefixes -/

/-- a prefix value as every constructor makes it: the address inside 128 bits with the host bits
clear, and the family/length octet the one `FamilyAndLen` stores for that family and length -/
def PfxWF (p : Pfx) : Prop :=
  p.bits < 2 ^ 128 ∧ p.bits % 2 ^ (128 - p.len) = 0 ∧ p.len < 256 ∧
  (p.isV4 = true → falV4 p.len = some p.fal) ∧ (p.isV4 = false → falV6 p.len = some p.fal)

theorem fmtPfx_parts (relaxed : Bool) (p : Pfx) (hb : p.bits < 2 ^ 128) (hl : p.len < 256) :
    parsePfx relaxed (fmtPfx p) =
      (match pfxNew relaxed (if p.isV4 then (true, p.bits / 2 ^ 96) else (false, p.bits)) p.len with
       | .ok q => .ok q
       | .error e => .error (.invalidPrefix e)) := by
  unfold parsePfx fmtPfx
  have hne : ¬ (fmtAddr p.isV4 p.bits ++ 47 :: decimal p.len = []) := by simp
  simp only [hne, if_false]
  rw [findSep_some 47 _ _ (fun c hc => (fmtAddr_chars _ _ c hc).2)]
  simp only [take_left', drop_sep, parseIpAddr_fmt _ _ hb, parseLen_decimal p.len (by omega)]
  cases pfxNew relaxed (if p.isV4 = true then (true, p.bits / 2 ^ 96) else (false, p.bits)) p.len <;> rfl

theorem clearHost_aligned (bits len : Nat) (hb : bits < 2 ^ 128) (h : bits % 2 ^ (128 - len) = 0) :
    clearHost bits len = bits := by
  unfold clearHost hostBits
  by_cases h0 : len = 0
  · subst h0
    simp only [if_true]
    have : bits % 2 ^ 128 = bits := Nat.mod_eq_of_lt hb
    simp only [Nat.sub_zero] at h
    omega
  · simp only [h0, if_false]
    exact aligned_div_mul _ _ h

theorem parsePfx_fmt (relaxed : Bool) (p : Pfx) (h : PfxWF p) : parsePfx relaxed (fmtPfx p) = .ok p := by
  obtain ⟨hb, hz, hl, h4, h6⟩ := h
  rw [fmtPfx_parts relaxed p hb hl]
  obtain ⟨pf, pb⟩ := p
  cases hv : (Pfx.isV4 ⟨pf, pb⟩) with
  | true =>
    have hf := h4 hv
    have hlen : Pfx.len ⟨pf, pb⟩ ≤ 32 := by
      have := (fal_table _ hl).1.1 (by simp [hf]); exact this
    -- the address is a multiple of 2^96
    have h96 : pb / 2 ^ 96 * 2 ^ 96 = pb := by
      apply aligned_div_mul
      have hd : (2 : Nat) ^ 96 ∣ 2 ^ (128 - Pfx.len ⟨pf, pb⟩) := pow_dvd_of_le (by omega)
      exact Nat.mod_eq_zero_of_dvd (Nat.dvd_trans hd (Nat.dvd_of_mod_eq_zero hz))
    simp only [if_true]
    cases relaxed with
    | false =>
      simp only [pfxNew, newV4, hf, fromV4, h96, isHostZero, hostBits]
      simp [hz]
    | true =>
      simp only [pfxNew, newV4Relaxed, hf, fromV4, h96]
      rw [clearHost_aligned pb _ hb hz]
  | false =>
    have hf := h6 hv
    simp only [Bool.false_eq_true, if_false]
    cases relaxed with
    | false =>
      simp only [pfxNew, newV6, hf, isHostZero, hostBits]
      simp [hz]
    | true =>
      simp only [pfxNew, newV6Relaxed, hf]
      rw [clearHost_aligned pb _ hb hz]

/-! ### every constructor makes a well-formed prefix -/

theorem wf_of_fal4 (fal len bits : Nat) (hl : len < 256) (hf : falV4 len = some fal)
    (hb : bits < 2 ^ 128) (hz : bits % 2 ^ (128 - len) = 0) : PfxWF ⟨fal, bits⟩ := by
  have ⟨h1, h2, _⟩ := (fal_table len hl).2.2.1 fal hf
  have hlen : Pfx.len ⟨fal, bits⟩ = len := h2
  have hv : Pfx.isV4 ⟨fal, bits⟩ = true := h1
  refine ⟨hb, by rw [hlen]; exact hz, by rw [hlen]; exact hl, fun _ => by rw [hlen]; exact hf, fun h => ?_⟩
  rw [hv] at h; cases h

theorem wf_of_fal6 (fal len bits : Nat) (hl : len < 256) (hf : falV6 len = some fal)
    (hb : bits < 2 ^ 128) (hz : bits % 2 ^ (128 - len) = 0) : PfxWF ⟨fal, bits⟩ := by
  have ⟨h1, h2, _⟩ := (fal_table len hl).2.2.2 fal hf
  have hlen : Pfx.len ⟨fal, bits⟩ = len := h2
  have hv : Pfx.isV4 ⟨fal, bits⟩ = false := h1
  refine ⟨hb, by rw [hlen]; exact hz, by rw [hlen]; exact hl, fun h => ?_, fun _ => by rw [hlen]; exact hf⟩
  rw [hv] at h; cases h

theorem clearHost_facts (bits len : Nat) (hb : bits < 2 ^ 128) :
    clearHost bits len < 2 ^ 128 ∧ clearHost bits len % 2 ^ (128 - len) = 0 := by
  unfold clearHost hostBits
  by_cases h0 : len = 0
  · simp [h0]
  · simp only [h0, if_false]
    exact ⟨Nat.lt_of_le_of_lt (div_mul_le _ _) hb, Nat.mul_mod_left _ _⟩

theorem wf_of_newV4 (a len : Nat) (p : Pfx) (ha : a < 2 ^ 32) (hl : len < 256)
    (h : newV4 a len = .ok p) : PfxWF p := by
  unfold newV4 at h
  cases hf : falV4 len with
  | none => simp [hf] at h
  | some fal =>
    simp only [hf] at h
    by_cases hz : isHostZero (fromV4 a) len = true
    · simp only [hz, Bool.not_true, Bool.false_eq_true, if_false, Except.ok.injEq] at h
      subst h
      refine wf_of_fal4 fal len _ hl hf (by unfold fromV4; omega) ?_
      simp only [isHostZero, hostBits] at hz
      exact of_decide_eq_true hz
    · simp [hz] at h

theorem wf_of_newV4Relaxed (a len : Nat) (p : Pfx) (ha : a < 2 ^ 32) (hl : len < 256)
    (h : newV4Relaxed a len = .ok p) : PfxWF p := by
  unfold newV4Relaxed at h
  cases hf : falV4 len with
  | none => simp [hf] at h
  | some fal =>
    simp only [hf, Except.ok.injEq] at h
    subst h
    have := clearHost_facts (fromV4 a) len (by unfold fromV4; omega)
    exact wf_of_fal4 fal len _ hl hf this.1 this.2

theorem wf_of_newV6 (a len : Nat) (p : Pfx) (ha : a < 2 ^ 128) (hl : len < 256)
    (h : newV6 a len = .ok p) : PfxWF p := by
  unfold newV6 at h
  cases hf : falV6 len with
  | none => simp [hf] at h
  | some fal =>
    simp only [hf] at h
    by_cases hz : isHostZero a len = true
    · simp only [hz, Bool.not_true, Bool.false_eq_true, if_false, Except.ok.injEq] at h
      subst h
      refine wf_of_fal6 fal len _ hl hf ha ?_
      simp only [isHostZero, hostBits] at hz
      exact of_decide_eq_true hz
    · simp [hz] at h

theorem wf_of_newV6Relaxed (a len : Nat) (p : Pfx) (ha : a < 2 ^ 128) (hl : len < 256)
    (h : newV6Relaxed a len = .ok p) : PfxWF p := by
  unfold newV6Relaxed at h
  cases hf : falV6 len with
  | none => simp [hf] at h
  | some fal =>
    simp only [hf, Except.ok.injEq] at h
    subst h
    have := clearHost_facts a len ha
    exact wf_of_fal6 fal len _ hl hf this.1 this.2

/-! ### max-length prefixes -/

theorem fmtPfx_chars (p : Pfx) : ∀ c ∈ fmtPfx p, c ≠ 45 := by
  intro c hc
  unfold fmtPfx at hc
  simp only [List.mem_append, List.mem_cons] at hc
  rcases hc with hc | rfl | hc
  · have := fmtAddr_chars _ _ c hc; omega
  · decide
  · have := (decimal_digits _).2 c hc; omega

theorem parseMlp_fmt (m : Mlp) (hp : PfxWF m.pfx) (hm : mlpNew m.pfx m.ml = .ok m) :
    parseMlp (fmtMlp m) = .ok m := by
  obtain ⟨p, ml⟩ := m
  unfold parseMlp fmtMlp
  cases ml with
  | none =>
    simp only [List.append_nil]
    rw [findSep_none 45 _ (fmtPfx_chars p)]
    simp only [parsePfx_fmt false p hp]
    simp only at hm
    rw [hm]
  | some k =>
    simp only
    rw [findSep_some 45 _ _ (fmtPfx_chars p)]
    have hk : k ≤ 255 := by
      simp only [mlpNew] at hm
      by_cases hov : (p.isV4 = true ∧ k > 32) ∨ k > 128
      · simp [hov] at hm
      · omega
    simp only [take_left', drop_sep, parsePfx_fmt false p hp, parseLen_decimal k hk]
    simp only at hm
    rw [hm]

end Rpki.PfxText

namespace Rpki.PfxText
open Rpki.Prefix Rpki.ResText

theorem parseLen_lt (b : Bytes) (n : Nat) (h : parseLen b = some n) : n < 256 := by
  have key : ∀ d : Bytes, (if d = [] ∨ (!d.all isDigit) = true then none
      else if d.foldl (fun acc c => acc * 10 + (c - 48)) 0 ≤ 255
        then some (d.foldl (fun acc c => acc * 10 + (c - 48)) 0) else none) = some n → n < 256 := by
    intro d hd
    by_cases h1 : d = [] ∨ (!d.all isDigit) = true
    · rw [if_pos h1] at hd; cases hd
    · rw [if_neg h1] at hd
      by_cases h2 : d.foldl (fun acc c => acc * 10 + (c - 48)) 0 ≤ 255
      · rw [if_pos h2] at hd; cases hd; omega
      · rw [if_neg h2] at hd; cases hd
  unfold parseLen at h
  exact key _ h

/-- what the text readers accept is what the constructor returns for the address and the length that
were read, and the length is a `u8` -/
theorem parsePfx_ok (relaxed : Bool) (s : Bytes) (p : Pfx) (h : parsePfx relaxed s = .ok p) :
    ∃ addr len, len < 256 ∧ pfxNew relaxed addr len = .ok p := by
  unfold parsePfx at h
  split at h
  · cases h
  · split at h
    · cases h
    · next slash _ =>
      split at h
      · cases h
      · next addr _ =>
        split at h
        · cases h
        · next len hl =>
          refine ⟨addr, len, parseLen_lt _ _ hl, ?_⟩
          split at h
          · next q hq => cases h; exact hq
          · cases h

end Rpki.PfxText
