/-
  The serde_json reader model reads what the *pretty* writer model writes (`Rpki/Model/JsonPretty.lean`).
-/
import Rpki.Model.JsonPretty
import Rpki.Proofs.JsonReadLemmas
namespace Rpki.JsonRead
open Rpki.Slurm Rpki.JsonText Rpki.ResText

theorem skipWs_ws : ∀ (w r : List Nat), (∀ c ∈ w, isWs c = true) → skipWs (w ++ r) = skipWs r := by
  intro w
  induction w with
  | nil => intro r _; rfl
  | cons c w ih =>
    intro r h
    simp only [List.cons_append, skipWs, h c (by simp), if_true]
    exact ih r (fun x hx => h x (by simp [hx]))

theorem ind_ws (d : Nat) : ∀ c ∈ ind d, isWs c = true := by
  intro c hc
  unfold ind at hc
  rw [List.mem_replicate] at hc
  rw [hc.2]; decide

theorem nl_ind_ws (d : Nat) : ∀ c ∈ 10 :: ind d, isWs c = true := by
  intro c hc
  rcases List.mem_cons.mp hc with rfl | h
  · decide
  · exact ind_ws d c h

theorem readVal_ws (f : Nat) (w b : List Nat) (hw : ∀ c ∈ w, isWs c = true) :
    readVal f (w ++ b) = readVal f b := by
  cases f with
  | zero => simp [readVal]
  | succ f => simp only [readVal, skipWs_ws w b hw]

/-- what follows a value in a pretty text: nothing, a comma, a closing bracket / brace, or a new line -/
def SepP (rest : List Nat) : Prop :=
  rest = [] ∨ ∃ c r, rest = c :: r ∧ (c = 44 ∨ c = 93 ∨ c = 125 ∨ c = 10)

theorem sepP_noDigit (rest : List Nat) (h : SepP rest) : JsonText.NoDigitHead rest := by
  intro c r e
  rcases h with h | ⟨c', r', e', hc⟩
  · rw [h] at e; cases e
  · rw [e'] at e; cases e
    rcases hc with rfl | rfl | rfl | rfl <;> decide

theorem readFrac_sepP (rest : List Nat) (h : SepP rest) : readFrac rest = some (false, rest) := by
  rcases h with h | ⟨c, r, e, hc⟩
  · subst h; rfl
  · subst e
    unfold readFrac
    split
    · next r2 heq => cases heq; omega
    · rfl

theorem readExp_sepP (rest : List Nat) (h : SepP rest) : readExp rest = some (false, rest) := by
  rcases h with h | ⟨c, r, e, hc⟩
  · subst h; rfl
  · subst e
    have : ¬ (c = 101 ∨ c = 69) := by omega
    simp [readExp, this]

theorem readNum_decimalP (n : Nat) (rest : List Nat) (hr : SepP rest) :
    readNum (decimal n ++ rest) = some (some n, rest) := by
  obtain ⟨c, r, e, h1, h2, h0⟩ := decimal_head n
  have hd : (decimal n).all isDigit = true := decimal_all_isDigit n
  have htw := JsonText.takeWhile_digits (decimal n) rest hd (sepP_noDigit rest hr)
  have hsm : stripMinus (decimal n ++ rest) = (false, decimal n ++ rest) := by
    rw [e]; simp only [List.cons_append]
    unfold stripMinus
    split
    · next r' heq => cases heq; omega
    · rfl
  unfold readNum
  simp only [hsm, digits, htw]
  have hnil : ¬ decimal n = [] := by rw [e]; simp
  have hlead : ¬ ((decimal n).length > 1 ∧ (decimal n).head? = some 48) := by
    rintro ⟨ha, hb'⟩
    by_cases hz : n = 0
    · subst hz; rw [decimal_lt10 0 (by omega)] at ha; simp at ha
    · exact decimal_no_leading_zero n (by omega) hb'
  have hdrop : (decimal n ++ rest).drop (decimal n).length = rest := by simp
  simp only [hnil, hlead, if_false, hdrop, readFrac_sepP rest hr, readExp_sepP rest hr, decimal_value]
  simp

theorem readVal_numP (f n : Nat) (rest : List Nat) (hr : SepP rest) :
    readVal (f + 1) (decimal n ++ rest) = some (.num n, rest) := by
  obtain ⟨c, r, e, h1, h2, _⟩ := decimal_head n
  have hn := readNum_decimalP n rest hr
  rw [e] at hn ⊢
  simp only [List.cons_append] at hn ⊢
  simp only [readVal]
  rw [skipWs_cons c _ (by simp [isWs]; omega)]
  have hc : isDigit c = true := by simp [isDigit]; omega
  simp only [show ¬ c = 110 by omega, show ¬ c = 116 by omega, show ¬ c = 102 by omega, show ¬ c = 34 by omega,
    show ¬ c = 91 by omega, show ¬ c = 123 by omega, if_false, hc, or_true, if_true, hn, Option.map_some]

theorem renderP_head (d : Nat) (j : Json) : ∃ c t, renderP d j = c :: t ∧ RenderHead c := by
  cases j with
  | null => simp only [renderP]; exact ⟨_, _, rfl, by simp [RenderHead]⟩
  | bool b => cases b <;> (simp only [renderP]; exact ⟨_, _, rfl, by simp [RenderHead]⟩)
  | num n =>
    obtain ⟨c, r, e, h1, h2, _⟩ := decimal_head n
    exact ⟨c, r, by simp [renderP, e], by simp [RenderHead]; omega⟩
  | str s => simp only [renderP, quote]; exact ⟨_, _, rfl, by simp [RenderHead]⟩
  | pfx p => simp only [renderP, quote]; exact ⟨_, _, rfl, by simp [RenderHead]⟩
  | bytes b => simp only [renderP, quote]; exact ⟨_, _, rfl, by simp [RenderHead]⟩
  | arr l => cases l <;> (simp only [renderP]; exact ⟨_, _, rfl, by simp [RenderHead]⟩)
  | obj l => cases l <;> (simp only [renderP]; exact ⟨_, _, rfl, by simp [RenderHead]⟩)

theorem sepP44 (r : List Nat) : SepP (44 :: r) := Or.inr ⟨44, r, rfl, Or.inl rfl⟩
theorem sepP10 (r : List Nat) : SepP (10 :: r) := Or.inr ⟨10, r, rfl, Or.inr (Or.inr (Or.inr rfl))⟩

theorem skip_nl_ind (d c : Nat) (r : List Nat) (hc : isWs c = false) :
    skipWs (10 :: (ind d ++ c :: r)) = c :: r := by
  have := skipWs_ws (10 :: ind d) (c :: r) (nl_ind_ws d)
  simp only [List.cons_append] at this
  rw [this, skipWs_cons c r hc]

mutual
theorem readVal_renderP : ∀ (j : Json) (d f : Nat) (rest : List Nat), (renderP d j).length ≤ f → SepP rest →
    readVal f (renderP d j ++ rest) = some (erase j, rest)
  | .null, d, f, rest, hf, _ => by
    cases f with
    | zero => simp [renderP] at hf
    | succ f => simp [renderP, readVal, skipWs, isWs, dropPrefix, erase]
  | .bool true, d, f, rest, hf, _ => by
    cases f with
    | zero => simp [renderP] at hf
    | succ f => simp [renderP, readVal, skipWs, isWs, dropPrefix, erase]
  | .bool false, d, f, rest, hf, _ => by
    cases f with
    | zero => simp [renderP] at hf
    | succ f => simp [renderP, readVal, skipWs, isWs, dropPrefix, erase]
  | .num n, d, f, rest, hf, hr => by
    cases f with
    | zero =>
      obtain ⟨c, r, e, _⟩ := decimal_head n
      simp [renderP, e] at hf
    | succ f => simp only [renderP, erase]; exact readVal_numP f n rest hr
  | .str s, d, f, rest, hf, _ => by
    cases f with
    | zero => simp [renderP, quote] at hf
    | succ f => simp only [renderP, erase]; exact readVal_quote f s rest
  | .pfx p, d, f, rest, hf, _ => by
    cases f with
    | zero => simp [renderP, quote] at hf
    | succ f => simp only [renderP, erase]; exact readVal_quote f _ rest
  | .bytes b, d, f, rest, hf, _ => by
    cases f with
    | zero => simp [renderP, quote] at hf
    | succ f => simp only [renderP, erase]; exact readVal_quote f _ rest
  | .arr [], d, f, rest, hf, _ => by
    cases f with
    | zero => simp [renderP] at hf
    | succ f => simp [renderP, readVal, skipWs, isWs, erase, eraseArr]
  | .obj [], d, f, rest, hf, _ => by
    cases f with
    | zero => simp [renderP] at hf
    | succ f => simp [renderP, readVal, skipWs, isWs, erase, eraseObj]
  | .arr (x :: xs), d, f, rest, hf, _ => by
    cases f with
    | zero => simp [renderP] at hf
    | succ f =>
      have hlen : (elemsP (d + 1) (x :: xs)).length ≤ f := by
        simp only [renderP, List.length_cons, List.length_append] at hf; omega
      have hp := readElems_P (x :: xs) (by simp) (d + 1) f rest [] (10 :: ind (d + 1)) (nl_ind_ws _) hlen
      obtain ⟨c, t, e, hc⟩ := renderP_head (d + 1) x
      have hh : ∃ t', elemsP (d + 1) (x :: xs) ++ rest = c :: t' := by
        cases xs with
        | nil => simp only [elemsP, e, List.cons_append, List.append_assoc]; exact ⟨_, rfl⟩
        | cons y ys => simp only [elemsP, e, List.cons_append, List.append_assoc]; exact ⟨_, rfl⟩
      obtain ⟨t', et⟩ := hh
      simp only [renderP, List.cons_append, List.append_assoc, readVal]
      rw [skipWs_cons 91 _ (by decide)]
      simp only [show ¬ (91 = 110) by decide, show ¬ (91 = 116) by decide, show ¬ (91 = 102) by decide,
        show ¬ (91 = 34) by decide, if_false, if_true]
      have hsk : skipWs (10 :: (ind (d + 1) ++ (elemsP (d + 1) (x :: xs) ++ rest))) = c :: t' := by
        rw [et]; exact skip_nl_ind _ c t' hc.ws
      rw [hsk]
      have h93 : c ≠ 93 := by unfold RenderHead at hc; omega
      simp only [List.cons_append, List.append_assoc] at hp
      split
      · next r' heq => cases heq; exact absurd rfl h93
      · simp [hp, erase]
  | .obj (x :: xs), d, f, rest, hf, _ => by
    cases f with
    | zero => simp [renderP] at hf
    | succ f =>
      have hlen : (membersP (d + 1) (x :: xs)).length ≤ f := by
        simp only [renderP, List.length_cons, List.length_append] at hf; omega
      have hp := readMembers_P (x :: xs) (by simp) (d + 1) f rest [] (10 :: ind (d + 1)) (nl_ind_ws _) hlen
      have hh : ∃ t', membersP (d + 1) (x :: xs) ++ rest = 34 :: t' := by
        obtain ⟨k, v⟩ := x
        cases xs with
        | nil => simp only [membersP, quote, List.cons_append, List.append_assoc]; exact ⟨_, rfl⟩
        | cons y ys => simp only [membersP, quote, List.cons_append, List.append_assoc]; exact ⟨_, rfl⟩
      obtain ⟨t', et⟩ := hh
      simp only [renderP, List.cons_append, List.append_assoc, readVal]
      rw [skipWs_cons 123 _ (by decide)]
      simp only [show ¬ (123 = 110) by decide, show ¬ (123 = 116) by decide, show ¬ (123 = 102) by decide,
        show ¬ (123 = 34) by decide, show ¬ (123 = 91) by decide, if_false, if_true]
      have hsk : skipWs (10 :: (ind (d + 1) ++ (membersP (d + 1) (x :: xs) ++ rest))) = 34 :: t' := by
        rw [et]; exact skip_nl_ind _ 34 t' (by decide)
      rw [hsk]
      simp only [List.cons_append, List.append_assoc] at hp
      split
      · next r' heq => cases heq
      · simp [hp, erase]
theorem readElems_P : ∀ (l : List Json) (_ : l ≠ []) (d f : Nat) (rest : List Nat) (acc : List Json)
    (w : List Nat) (_ : ∀ c ∈ w, isWs c = true), (elemsP d l).length ≤ f →
    readElems f (w ++ (elemsP d l ++ rest)) acc = some (acc.reverse ++ eraseArr l, rest)
  | [], hne, _, _, _, _, _, _, _ => absurd rfl hne
  | [x], _, d, f, rest, acc, w, hw, hf => by
    cases f with
    | zero => simp [elemsP] at hf
    | succ f =>
      have hx := readVal_renderP x d f (10 :: (ind (d - 1) ++ 93 :: rest))
        (by simp only [elemsP, List.length_append, List.length_cons] at hf; omega) (sepP10 _)
      simp only [elemsP, List.append_assoc, List.cons_append, List.nil_append, readElems]
      rw [readVal_ws f w _ hw, hx]
      simp only
      rw [skip_nl_ind _ 93 rest (by decide)]
      simp [eraseArr]
  | x :: y :: r, _, d, f, rest, acc, w, hw, hf => by
    cases f with
    | zero => simp [elemsP] at hf
    | succ f =>
      have hl : (renderP d x).length + 1 + (elemsP d (y :: r)).length ≤ f + 1 := by
        simp only [elemsP, List.length_append, List.length_cons] at hf; omega
      have hx := readVal_renderP x d f (44 :: 10 :: (ind d ++ (elemsP d (y :: r) ++ rest))) (by omega) (sepP44 _)
      have hr := readElems_P (y :: r) (by simp) d f rest (erase x :: acc) (10 :: ind d) (nl_ind_ws d) (by omega)
      simp only [elemsP, List.append_assoc, List.cons_append, readElems]
      rw [readVal_ws f w _ hw, hx]
      simp only
      rw [skipWs_cons 44 _ (by decide)]
      simp only [List.cons_append, List.append_assoc] at hr
      simp only [hr]
      simp [eraseArr]
theorem readMembers_P : ∀ (l : List (Key × Json)) (_ : l ≠ []) (d f : Nat) (rest : List Nat)
    (acc : List (Key × Json)) (w : List Nat) (_ : ∀ c ∈ w, isWs c = true), (membersP d l).length ≤ f →
    readMembers f (w ++ (membersP d l ++ rest)) acc = some (acc.reverse ++ eraseObj l, rest)
  | [], hne, _, _, _, _, _, _, _ => absurd rfl hne
  | [(k, v)], _, d, f, rest, acc, w, hw, hf => by
    cases f with
    | zero => simp [membersP] at hf
    | succ f =>
      have hv := readVal_renderP v d f (10 :: (ind (d - 1) ++ 125 :: rest))
        (by simp only [membersP, quote, List.length_append, List.length_cons] at hf; omega) (sepP10 _)
      simp only [membersP, quote, List.append_assoc, List.cons_append, List.nil_append, readMembers]
      rw [skipWs_ws w _ hw, skipWs_cons 34 _ (by decide)]
      simp only [readStr_quote]
      rw [skipWs_cons 58 _ (by decide)]
      simp only
      have h32 := readVal_ws f [32] (renderP d v ++ 10 :: (ind (d - 1) ++ 125 :: rest))
        (by intro c hc; simp at hc; subst hc; decide)
      simp only [List.cons_append, List.nil_append] at h32
      rw [h32, hv]
      simp only
      rw [skip_nl_ind _ 125 rest (by decide)]
      simp [eraseObj, keyOf_keyName]
  | (k, v) :: y :: r, _, d, f, rest, acc, w, hw, hf => by
    cases f with
    | zero => simp [membersP] at hf
    | succ f =>
      have hl : (renderP d v).length + 1 + (membersP d (y :: r)).length ≤ f := by
        simp only [membersP, quote, List.length_append, List.length_cons] at hf; omega
      have hv := readVal_renderP v d f (44 :: 10 :: (ind d ++ (membersP d (y :: r) ++ rest))) (by omega) (sepP44 _)
      have hr := readMembers_P (y :: r) (by simp) d f rest ((k, erase v) :: acc) (10 :: ind d) (nl_ind_ws d) (by omega)
      simp only [membersP, quote, List.append_assoc, List.cons_append, List.nil_append, readMembers]
      rw [skipWs_ws w _ hw, skipWs_cons 34 _ (by decide)]
      simp only [readStr_quote]
      rw [skipWs_cons 58 _ (by decide)]
      simp only
      have h32 := readVal_ws f [32] (renderP d v ++ 44 :: 10 :: (ind d ++ (membersP d (y :: r) ++ rest)))
        (by intro c hc; simp at hc; subst hc; decide)
      simp only [List.cons_append, List.nil_append] at h32
      rw [h32, hv]
      simp only
      rw [skipWs_cons 44 _ (by decide)]
      simp only [List.cons_append, List.append_assoc] at hr
      simp only [keyOf_keyName, hr]
      simp [eraseObj]
end

end Rpki.JsonRead

namespace Rpki.JsonRead
open Rpki.Slurm Rpki.JsonText

theorem readText_renderP (j : Json) : readText (renderP 0 j) = some (erase j) := by
  unfold readText
  have := readVal_renderP j 0 ((renderP 0 j).length + 1) [] (by omega) (Or.inl rfl)
  simp only [List.append_nil] at this
  rw [this]
  simp [skipWs]

/-- **`from_str` after `to_string_pretty`.** -/
theorem readFile_fileTextPretty (f : SlurmFile) (hw : f.WF) (ht : FileTextWF f) :
    readFile (fileTextPretty f) = some f := by
  unfold readFile fileTextPretty
  rw [readText_renderP]
  simp only [Option.bind_some, file_retype_erase f ht]
  exact SlurmFile.roundtrip f hw

end Rpki.JsonRead
