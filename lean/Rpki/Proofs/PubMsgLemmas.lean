/-
  RFC 8181 publication messages (`Rpki.Model.PubMsg`): what `write` emits is read back by the
  reference reader as `norm m`.

  * the string literals of the model evaluated to octets (`s "…"` goes through `String.toUTF8`, whose
    `ByteArray.toList` does not reduce in the kernel; `s_of` gives the octets from the characters)
  * hex codec
  * well-formedness of the written tree
  * tree-level and document-level round trips, also for empty objects (whose empty text line the
    reference reader drops)
-/
import Rpki.Model.PubMsg
import Rpki.Proofs.XmlDocLemmas
import Rpki.Proofs.XmlLemmas
namespace Rpki.XmlDoc
set_option autoImplicit false
open Rpki.Xml

/-! ### documents with empty text lines

The writer emits an empty text line for an empty text; the reader drops it.  `WF0` is `WF` with
empty text lines allowed, `strip` removes them, and `parseDoc (writeDoc n) = some (strip n)`. -/

mutual
def Node.WF0 : Node → Prop
  | .text t => t = [] ∨ TextOk t
  | .elem name attrs body =>
    NameOk name ∧ (∀ a ∈ attrs, NameOk a.1 ∧ ValueOk a.2) ∧
      (match body with | none => True | some kids => kids.WF0)
def Nodes.WF0 : Nodes → Prop
  | .nil => True
  | .cons n ns => n.WF0 ∧ ns.WF0 ∧ (match n with | .text _ => ¬ ns.startsText | .elem .. => True)
end

mutual
/-- the tree without its empty text lines -/
def strip : Node → Node
  | .text t => .text t
  | .elem name attrs none => .elem name attrs none
  | .elem name attrs (some kids) => .elem name attrs (some (stripKids kids))
def stripKids : Nodes → Nodes
  | .nil => .nil
  | .cons n ns =>
    match n with
    | .text t => if t = [] then stripKids ns else .cons (.text t) (stripKids ns)
    | .elem .. => .cons (strip n) (stripKids ns)
end

theorem Node.WF0_elem (name : Bytes) (attrs : List (Bytes × Bytes)) (body : Option Nodes) :
    (Node.elem name attrs body).WF0 ↔
      (NameOk name ∧ (∀ a ∈ attrs, NameOk a.1 ∧ ValueOk a.2) ∧
        (match body with | none => True | some kids => kids.WF0)) := by
  cases body <;> simp only [Node.WF0]

theorem Node.WF0_text (t : Bytes) : (Node.text t).WF0 ↔ (t = [] ∨ TextOk t) := by
  rw [Node.WF0]

theorem Nodes.WF0_cons (n : Node) (ns : Nodes) :
    (Nodes.cons n ns).WF0 ↔
      (n.WF0 ∧ ns.WF0 ∧ (match n with | .text _ => ¬ ns.startsText | .elem .. => True)) := by
  cases n <;> simp only [Nodes.WF0]

theorem strip_elem_none (name : Bytes) (attrs : List (Bytes × Bytes)) :
    strip (.elem name attrs none) = .elem name attrs none := by rw [strip]
theorem strip_elem_some (name : Bytes) (attrs : List (Bytes × Bytes)) (kids : Nodes) :
    strip (.elem name attrs (some kids)) = .elem name attrs (some (stripKids kids)) := by rw [strip]
theorem stripKids_nil : stripKids .nil = .nil := by rw [stripKids]
theorem stripKids_text_nil (ns : Nodes) : stripKids (.cons (.text []) ns) = stripKids ns := by
  rw [stripKids]; simp
theorem stripKids_text (t : Bytes) (ns : Nodes) (h : t ≠ []) :
    stripKids (.cons (.text t) ns) = .cons (.text t) (stripKids ns) := by
  rw [stripKids]; simp [h]
theorem stripKids_elem (name : Bytes) (attrs : List (Bytes × Bytes)) (body : Option Nodes) (ns : Nodes) :
    stripKids (.cons (.elem name attrs body) ns) = .cons (strip (.elem name attrs body)) (stripKids ns) := by
  rw [stripKids]

theorem strip_elem_shape (name : Bytes) (attrs : List (Bytes × Bytes)) (body : Option Nodes) :
    ∃ body', strip (.elem name attrs body) = .elem name attrs body' := by
  cases body with
  | none => exact ⟨_, strip_elem_none name attrs⟩
  | some k => exact ⟨_, strip_elem_some name attrs k⟩

mutual
theorem lexF_elem0 (name : Bytes) (attrs : List (Bytes × Bytes)) : ∀ (body : Option Nodes) (level : Nat)
    (r : Bytes) (acc : List Tok), (Node.elem name attrs body).WF0 →
    lexF (writeNode level (.elem name attrs body) ++ r) acc =
      lexF r ((toks (strip (.elem name attrs body))).reverse ++ acc)
  | none, level, r, acc, hwf => by
    rw [Node.WF0_elem] at hwf
    rw [writeNode_elem_none, strip_elem_none, toks_elem_none, List.append_assoc]
    exact lexF_selfClose name attrs r acc hwf.1 hwf.2.1
  | some kids, level, r, acc, hwf => by
    rw [Node.WF0_elem] at hwf
    obtain ⟨hn, ha, hk⟩ := hwf
    simp only at hk
    have hshape : writeNode level (.elem name attrs (some kids)) ++ r =
        headOf name attrs ++ 62 :: ([] ++ [] ++ writeKids (level + 1) kids ++ (10 :: indentOf level) ++
          60 :: (47 :: (name ++ 62 :: r))) := by
      rw [writeNode_elem_some]; simp
    rw [hshape, lexF_open name attrs _ _ hn ha,
      lexF_kids0 kids (level + 1) [] [] (10 :: indentOf level) _ _ hk allWs_nil (allWs_nl_indent level)
        (Or.inl rfl),
      lexF_close name r _ hn, strip_elem_some, toks_elem_some]
    simp [pend]
theorem lexF_kids0 : ∀ (ks : Nodes) (level : Nat) (ws0 t ws1 r : Bytes) (acc : List Tok), ks.WF0 →
    AllWs ws0 → AllWs ws1 → (t = [] ∨ (TextOk t ∧ ¬ ks.startsText)) →
    lexF (ws0 ++ t ++ writeKids level ks ++ ws1 ++ 60 :: r) acc =
      lexF (60 :: r) ((toksKids (stripKids ks)).reverse ++ pend t ++ acc)
  | .nil, level, ws0, t, ws1, r, acc, _, h0, h1, ht => by
    rw [writeKids_nil, List.append_nil, stripKids_nil, toksKids_nil]
    exact lexF_pad ws0 t ws1 r acc h0 h1 (ht.imp id (·.1))
  | .cons (.text t') ns, level, ws0, t, ws1, r, acc, hwf, h0, h1, ht => by
    rw [Nodes.WF0_cons, Node.WF0_text] at hwf
    obtain ⟨ht', hns, hst⟩ := hwf
    simp only at hst
    have ht0 : t = [] := by
      rcases ht with h | h
      · exact h
      · exact absurd trivial h.2
    subst ht0
    have hshape : ws0 ++ [] ++ writeKids level (.cons (.text t') ns) ++ ws1 ++ 60 :: r =
        (ws0 ++ 10 :: indentOf level) ++ t' ++ writeKids level ns ++ ws1 ++ 60 :: r := by
      rw [writeKids_cons, writeNode_text]; simp
    rcases ht' with rfl | ht'
    · rw [hshape, lexF_kids0 ns level _ [] ws1 r acc hns (allWs_append h0 (allWs_nl_indent level)) h1
        (Or.inl rfl), stripKids_text_nil]
    · rw [hshape, lexF_kids0 ns level _ t' ws1 r acc hns (allWs_append h0 (allWs_nl_indent level)) h1
        (Or.inr ⟨ht', hst⟩), stripKids_text t' ns ht'.1, toksKids_cons, toks_text]
      have : pend t' = [Tok.text t'] := by unfold pend; rw [if_neg ht'.1]
      rw [this]; simp [pend]
  | .cons (.elem name attrs body) ns, level, ws0, t, ws1, r, acc, hwf, h0, h1, ht => by
    rw [Nodes.WF0_cons] at hwf
    obtain ⟨hn, hns, _⟩ := hwf
    obtain ⟨h, hh⟩ := writeNode_elem_head level name attrs body
    have hshape : ws0 ++ t ++ writeKids level (.cons (.elem name attrs body) ns) ++ ws1 ++ 60 :: r =
        ws0 ++ t ++ (10 :: indentOf level) ++ 60 :: (h ++ (writeKids level ns ++ ws1 ++ 60 :: r)) := by
      rw [writeKids_cons, hh]; simp
    have hback : 60 :: (h ++ (writeKids level ns ++ ws1 ++ 60 :: r)) =
        writeNode level (.elem name attrs body) ++ ([] ++ [] ++ writeKids level ns ++ ws1 ++ 60 :: r) := by
      rw [hh]; simp
    rw [hshape, lexF_pad ws0 t _ _ acc h0 (allWs_nl_indent level) (ht.imp id (·.1)), hback,
      lexF_elem0 name attrs body level _ _ hn,
      lexF_kids0 ns level [] [] ws1 r _ hns allWs_nil h1 (Or.inl rfl), stripKids_elem, toksKids_cons]
    simp [pend]
end

/-- the reference reader returns the written tree without its empty text lines -/
theorem parse_write0 (n : Node) (h : n.WF0) (hroot : ∃ name attrs body, n = .elem name attrs body) :
    parseDoc (writeDoc n) = some (strip n) := by
  obtain ⟨name, attrs, body, rfl⟩ := hroot
  have := lexF_elem0 name attrs body 0 [] [] h
  rw [List.append_nil, lexF_nil, List.append_nil, List.reverse_reverse] at this
  unfold parseDoc
  change lexF (writeDoc (.elem name attrs body)) [] = _ at this
  unfold lexF at this
  rw [this]
  obtain ⟨body', hb⟩ := strip_elem_shape name attrs body
  rw [hb]
  exact build_toks name attrs body'

mutual
theorem Node.WF.toWF0 : ∀ n : Node, n.WF → n.WF0
  | .text t, h => by rw [Node.WF_text] at h; rw [Node.WF0_text]; exact Or.inr h
  | .elem name attrs none, h => by rw [Node.WF_elem] at h; rw [Node.WF0_elem]; exact h
  | .elem name attrs (some k), h => by
    rw [Node.WF_elem] at h; rw [Node.WF0_elem]; exact ⟨h.1, h.2.1, Nodes.WF.toWF0 k h.2.2⟩
theorem Nodes.WF.toWF0 : ∀ ks : Nodes, ks.WF → ks.WF0
  | .nil, _ => by rw [Nodes.WF0]; trivial
  | .cons n ns, h => by
    rw [Nodes.WF_cons] at h; rw [Nodes.WF0_cons]
    exact ⟨Node.WF.toWF0 n h.1, Nodes.WF.toWF0 ns h.2.1, h.2.2⟩
end

mutual
theorem strip_of_WF : ∀ n : Node, n.WF → strip n = n
  | .text t, _ => by rw [strip]
  | .elem name attrs none, _ => strip_elem_none name attrs
  | .elem name attrs (some k), h => by
    rw [Node.WF_elem] at h; rw [strip_elem_some, stripKids_of_WF k h.2.2]
theorem stripKids_of_WF : ∀ ks : Nodes, ks.WF → stripKids ks = ks
  | .nil, _ => stripKids_nil
  | .cons (.text t) ns, h => by
    rw [Nodes.WF_cons, Node.WF_text] at h
    rw [stripKids_text t ns h.1.1, stripKids_of_WF ns h.2.1]
  | .cons (.elem name attrs body) ns, h => by
    rw [Nodes.WF_cons] at h
    rw [stripKids_elem, strip_of_WF _ h.1, stripKids_of_WF ns h.2.1]
end

/-- a list of elements is a well-formed list of children when every element is -/
theorem ofList_WF (l : List Node) (h : ∀ n ∈ l, n.WF ∧ ∃ name attrs body, n = Node.elem name attrs body) :
    (Nodes.ofList l).WF := by
  induction l with
  | nil => rw [Nodes.ofList, Nodes.WF]; trivial
  | cons n ns ih =>
    obtain ⟨hn, name, attrs, body, rfl⟩ := h n List.mem_cons_self
    rw [Nodes.ofList, Nodes.WF_cons]
    exact ⟨hn, ih (fun x hx => h x (List.mem_cons_of_mem _ hx)), trivial⟩

theorem ofList_WF0 (l : List Node) (h : ∀ n ∈ l, n.WF0 ∧ ∃ name attrs body, n = Node.elem name attrs body) :
    (Nodes.ofList l).WF0 := by
  induction l with
  | nil => rw [Nodes.ofList, Nodes.WF0]; trivial
  | cons n ns ih =>
    obtain ⟨hn, name, attrs, body, rfl⟩ := h n List.mem_cons_self
    rw [Nodes.ofList, Nodes.WF0_cons]
    exact ⟨hn, ih (fun x hx => h x (List.mem_cons_of_mem _ hx)), trivial⟩

theorem stripKids_ofList (l : List Node) (h : ∀ n ∈ l, ∃ name attrs body, n = Node.elem name attrs body) :
    stripKids (Nodes.ofList l) = Nodes.ofList (l.map strip) := by
  induction l with
  | nil => rw [Nodes.ofList, stripKids_nil]; rfl
  | cons n ns ih =>
    obtain ⟨name, attrs, body, rfl⟩ := h _ List.mem_cons_self
    rw [Nodes.ofList, stripKids_elem, ih (fun x hx => h x (List.mem_cons_of_mem _ hx))]
    rfl

theorem toList_ofList (l : List Node) : (Nodes.ofList l).toList = l := by
  induction l with
  | nil => rfl
  | cons n ns ih => rw [Nodes.ofList, Nodes.toList, ih]

end Rpki.XmlDoc

namespace Rpki.PubMsg
set_option autoImplicit false
open Rpki.Xml Rpki.XmlDoc

/-! ### string literals as octets -/

theorem byteArray_size_eq (bs : ByteArray) : bs.size = bs.data.toList.length := by
  rw [Array.length_toList]; rfl

theorem byteArray_toList_loop (bs : ByteArray) : ∀ (n i : Nat) (r : List UInt8), bs.size - i = n →
    ByteArray.toList.loop bs i r = r.reverse ++ bs.data.toList.drop i := by
  intro n
  induction n with
  | zero =>
    intro i r h
    unfold ByteArray.toList.loop
    have : ¬ i < bs.size := by omega
    rw [if_neg this]
    have : bs.data.toList.length ≤ i := by rw [← byteArray_size_eq]; omega
    rw [List.drop_eq_nil_of_le this]; simp
  | succ n ih =>
    intro i r h
    unfold ByteArray.toList.loop
    have hi : i < bs.size := by omega
    rw [if_pos hi, ih _ _ (by omega)]
    have hl : i < bs.data.toList.length := by rw [← byteArray_size_eq]; exact hi
    rw [List.drop_eq_getElem_cons hl]
    simp [ByteArray.get!, getElem!_pos, hi]

theorem byteArray_toList_eq (bs : ByteArray) : bs.toList = bs.data.toList := by
  unfold ByteArray.toList
  rw [byteArray_toList_loop bs _ 0 [] rfl]; simp

theorem s_ofList (l : List Char) :
    s (String.ofList l) = (l.flatMap String.utf8EncodeChar).map UInt8.toNat := by
  unfold s String.toUTF8
  rw [String.toByteArray_ofList, byteArray_toList_eq]
  unfold List.utf8Encode
  rw [List.toList_data_toByteArray]

/-- the octets of a literal: `h` is closed by `rfl` (the kernel unfolds a string literal to
`String.ofList` of its characters), `hv` by evaluation -/
theorem s_of (x : String) (l : List Char) (v : Bytes) (h : x = String.ofList l)
    (hv : (l.flatMap String.utf8EncodeChar).map UInt8.toNat = v) : s x = v := by
  rw [h, s_ofList, hv]

section literals
set_option maxRecDepth 100000
theorem s_msg : s "msg" = [109, 115, 103] := s_of _ _ _ rfl (by decide)
theorem s_publish : s "publish" = [112, 117, 98, 108, 105, 115, 104] := s_of _ _ _ rfl (by decide)
theorem s_withdraw : s "withdraw" = [119, 105, 116, 104, 100, 114, 97, 119] := s_of _ _ _ rfl (by decide)
theorem s_list : s "list" = [108, 105, 115, 116] := s_of _ _ _ rfl (by decide)
theorem s_success : s "success" = [115, 117, 99, 99, 101, 115, 115] := s_of _ _ _ rfl (by decide)
theorem s_report_error : s "report_error" = [114, 101, 112, 111, 114, 116, 95, 101, 114, 114, 111, 114] := s_of _ _ _ rfl (by decide)
theorem s_error_text : s "error_text" = [101, 114, 114, 111, 114, 95, 116, 101, 120, 116] := s_of _ _ _ rfl (by decide)
theorem s_tag : s "tag" = [116, 97, 103] := s_of _ _ _ rfl (by decide)
theorem s_uri : s "uri" = [117, 114, 105] := s_of _ _ _ rfl (by decide)
theorem s_hash : s "hash" = [104, 97, 115, 104] := s_of _ _ _ rfl (by decide)
theorem s_xmlns : s "xmlns" = [120, 109, 108, 110, 115] := s_of _ _ _ rfl (by decide)
theorem s_version : s "version" = [118, 101, 114, 115, 105, 111, 110] := s_of _ _ _ rfl (by decide)
theorem s_type : s "type" = [116, 121, 112, 101] := s_of _ _ _ rfl (by decide)
theorem s_error_code : s "error_code" = [101, 114, 114, 111, 114, 95, 99, 111, 100, 101] := s_of _ _ _ rfl (by decide)
theorem s_query : s "query" = [113, 117, 101, 114, 121] := s_of _ _ _ rfl (by decide)
theorem s_reply : s "reply" = [114, 101, 112, 108, 121] := s_of _ _ _ rfl (by decide)
theorem ns_eq : ns = [104, 116, 116, 112, 58, 47, 47, 119, 119, 119, 46, 104, 97, 99, 116, 114, 110, 46, 110, 101, 116, 47, 117, 114, 105, 115, 47, 114, 112, 107, 105, 47, 112, 117, 98, 108, 105, 99, 97, 116, 105, 111, 110, 45, 115, 112, 101, 99, 47] := s_of _ _ _ rfl (by decide)
theorem version_eq : version = [52] := s_of _ _ _ rfl (by decide)
theorem s_code0 : s "xml_error" = [120, 109, 108, 95, 101, 114, 114, 111, 114] := s_of _ _ _ rfl (by decide)
theorem s_text0 : s "Encountered an XML problem." = [69, 110, 99, 111, 117, 110, 116, 101, 114, 101, 100, 32, 97, 110, 32, 88, 77, 76, 32, 112, 114, 111, 98, 108, 101, 109, 46] := s_of _ _ _ rfl (by decide)
theorem s_code1 : s "permission_failure" = [112, 101, 114, 109, 105, 115, 115, 105, 111, 110, 95, 102, 97, 105, 108, 117, 114, 101] := s_of _ _ _ rfl (by decide)
theorem s_text1 : s "Client does not have permission to update this URI." = [67, 108, 105, 101, 110, 116, 32, 100, 111, 101, 115, 32, 110, 111, 116, 32, 104, 97, 118, 101, 32, 112, 101, 114, 109, 105, 115, 115, 105, 111, 110, 32, 116, 111, 32, 117, 112, 100, 97, 116, 101, 32, 116, 104, 105, 115, 32, 85, 82, 73, 46] := s_of _ _ _ rfl (by decide)
theorem s_code2 : s "bad_cms_signature" = [98, 97, 100, 95, 99, 109, 115, 95, 115, 105, 103, 110, 97, 116, 117, 114, 101] := s_of _ _ _ rfl (by decide)
theorem s_text2 : s "Encountered bad CMS signature." = [69, 110, 99, 111, 117, 110, 116, 101, 114, 101, 100, 32, 98, 97, 100, 32, 67, 77, 83, 32, 115, 105, 103, 110, 97, 116, 117, 114, 101, 46] := s_of _ _ _ rfl (by decide)
theorem s_code3 : s "object_already_present" = [111, 98, 106, 101, 99, 116, 95, 97, 108, 114, 101, 97, 100, 121, 95, 112, 114, 101, 115, 101, 110, 116] := s_of _ _ _ rfl (by decide)
theorem s_text3 : s "An object is already present at this URI, yet a \"hash\" attribute was not specified." = [65, 110, 32, 111, 98, 106, 101, 99, 116, 32, 105, 115, 32, 97, 108, 114, 101, 97, 100, 121, 32, 112, 114, 101, 115, 101, 110, 116, 32, 97, 116, 32, 116, 104, 105, 115, 32, 85, 82, 73, 44, 32, 121, 101, 116, 32, 97, 32, 34, 104, 97, 115, 104, 34, 32, 97, 116, 116, 114, 105, 98, 117, 116, 101, 32, 119, 97, 115, 32, 110, 111, 116, 32, 115, 112, 101, 99, 105, 102, 105, 101, 100, 46] := s_of _ _ _ rfl (by decide)
theorem s_code4 : s "no_object_present" = [110, 111, 95, 111, 98, 106, 101, 99, 116, 95, 112, 114, 101, 115, 101, 110, 116] := s_of _ _ _ rfl (by decide)
theorem s_text4 : s "There is no object present at this URI, yet a \"hash\" attribute was specified." = [84, 104, 101, 114, 101, 32, 105, 115, 32, 110, 111, 32, 111, 98, 106, 101, 99, 116, 32, 112, 114, 101, 115, 101, 110, 116, 32, 97, 116, 32, 116, 104, 105, 115, 32, 85, 82, 73, 44, 32, 121, 101, 116, 32, 97, 32, 34, 104, 97, 115, 104, 34, 32, 97, 116, 116, 114, 105, 98, 117, 116, 101, 32, 119, 97, 115, 32, 115, 112, 101, 99, 105, 102, 105, 101, 100, 46] := s_of _ _ _ rfl (by decide)
theorem s_code5 : s "no_object_matching_hash" = [110, 111, 95, 111, 98, 106, 101, 99, 116, 95, 109, 97, 116, 99, 104, 105, 110, 103, 95, 104, 97, 115, 104] := s_of _ _ _ rfl (by decide)
theorem s_text5 : s "The \"hash\" attribute supplied does not match the \"hash\" attribute of the object at this URI." = [84, 104, 101, 32, 34, 104, 97, 115, 104, 34, 32, 97, 116, 116, 114, 105, 98, 117, 116, 101, 32, 115, 117, 112, 112, 108, 105, 101, 100, 32, 100, 111, 101, 115, 32, 110, 111, 116, 32, 109, 97, 116, 99, 104, 32, 116, 104, 101, 32, 34, 104, 97, 115, 104, 34, 32, 97, 116, 116, 114, 105, 98, 117, 116, 101, 32, 111, 102, 32, 116, 104, 101, 32, 111, 98, 106, 101, 99, 116, 32, 97, 116, 32, 116, 104, 105, 115, 32, 85, 82, 73, 46] := s_of _ _ _ rfl (by decide)
theorem s_code6 : s "consistency_problem" = [99, 111, 110, 115, 105, 115, 116, 101, 110, 99, 121, 95, 112, 114, 111, 98, 108, 101, 109] := s_of _ _ _ rfl (by decide)
theorem s_text6 : s "Server detected an update that looks like it will cause a consistency problem (e.g., an object was deleted, but the manifest was not updated)." = [83, 101, 114, 118, 101, 114, 32, 100, 101, 116, 101, 99, 116, 101, 100, 32, 97, 110, 32, 117, 112, 100, 97, 116, 101, 32, 116, 104, 97, 116, 32, 108, 111, 111, 107, 115, 32, 108, 105, 107, 101, 32, 105, 116, 32, 119, 105, 108, 108, 32, 99, 97, 117, 115, 101, 32, 97, 32, 99, 111, 110, 115, 105, 115, 116, 101, 110, 99, 121, 32, 112, 114, 111, 98, 108, 101, 109, 32, 40, 101, 46, 103, 46, 44, 32, 97, 110, 32, 111, 98, 106, 101, 99, 116, 32, 119, 97, 115, 32, 100, 101, 108, 101, 116, 101, 100, 44, 32, 98, 117, 116, 32, 116, 104, 101, 32, 109, 97, 110, 105, 102, 101, 115, 116, 32, 119, 97, 115, 32, 110, 111, 116, 32, 117, 112, 100, 97, 116, 101, 100, 41, 46] := s_of _ _ _ rfl (by decide)
theorem s_code7 : s "other_error" = [111, 116, 104, 101, 114, 95, 101, 114, 114, 111, 114] := s_of _ _ _ rfl (by decide)
theorem s_text7 : s "Found some other issue." = [70, 111, 117, 110, 100, 32, 115, 111, 109, 101, 32, 111, 116, 104, 101, 114, 32, 105, 115, 115, 117, 101, 46] := s_of _ _ _ rfl (by decide)
end literals

/-- rewrite every literal of the model to its octets -/
macro "lits" : tactic => `(tactic| simp only [s_msg, s_publish, s_withdraw, s_list, s_success,
  s_report_error, s_error_text, s_tag, s_uri, s_hash, s_xmlns, s_version, s_type, s_error_code,
  s_query, s_reply, ns_eq, version_eq, s_code0, s_code1, s_code2, s_code3, s_code4, s_code5, s_code6,
  s_code7, s_text0, s_text1, s_text2, s_text3, s_text4, s_text5, s_text6, s_text7] at *)

/-! ### well-formedness of messages -/

def BytesOk (b : Bytes) : Prop := ∀ x ∈ b, x < 256

/-- tags and URIs need no bound: escaping and un-escaping work on any numbers -/
def Pdu.WF : Pdu → Prop
  | .publish _ _ c => BytesOk c
  | .update _ _ c h => BytesOk c ∧ BytesOk h ∧ h.length = 32
  | .withdraw _ _ h => BytesOk h ∧ h.length = 32

/-- the object is not empty -/
def Pdu.nonEmpty : Pdu → Prop
  | .publish _ _ c => c ≠ []
  | .update _ _ c _ => c ≠ []
  | .withdraw _ _ _ => True

def Msg.WF : Msg → Prop
  | .delta es => ∀ e ∈ es, e.WF
  | .listReply es => ∀ e ∈ es, BytesOk e.hash ∧ e.hash.length = 32
  | .errors cs => ∀ c ∈ cs, c < 8
  | _ => True

/-- no empty objects -/
def Msg.Plain : Msg → Prop
  | .delta es => ∀ e ∈ es, e.nonEmpty
  | _ => True

/-! ### (1) hex codec -/

theorem hexVal_hexDigit (v : Nat) (h : v < 16) : hexVal (hexDigit v) = some v := by
  unfold hexDigit hexVal
  split
  · rw [if_pos (by omega)]; congr 1; omega
  · rw [if_neg (by omega), if_pos (by omega)]; congr 1; omega

theorem hexDigit_range (v : Nat) : (48 ≤ hexDigit v ∧ hexDigit v ≤ 57) ∨ 97 ≤ hexDigit v := by
  unfold hexDigit; split <;> omega

theorem hex_cons (x : Nat) (b : Bytes) : hex (x :: b) = hexDigit (x / 16) :: hexDigit (x % 16) :: hex b := by
  simp [hex]

theorem unhex_hex (b : Bytes) (hb : BytesOk b) : unhex (hex b) = some b := by
  induction b with
  | nil => simp [hex, unhex]
  | cons x rest ih =>
    have hx : x < 256 := hb x List.mem_cons_self
    rw [hex_cons, unhex, hexVal_hexDigit _ (by omega), hexVal_hexDigit _ (by omega),
      ih (fun y hy => hb y (List.mem_cons_of_mem _ hy))]
    simp only [Option.some.injEq, List.cons.injEq, and_true]
    omega

theorem readHash_hex (h : Bytes) (hb : BytesOk h) (hl : h.length = 32) : readHash (hex h) = some h := by
  unfold readHash
  rw [unhex_hex h hb]
  simp only [hl, if_true]

/-- every octet of a hexadecimal string is a digit or at least `a`; no bound on the octets needed -/
theorem mem_hex_range (b : Bytes) : ∀ x ∈ hex b, (48 ≤ x ∧ x ≤ 57) ∨ 97 ≤ x := by
  induction b with
  | nil => intro x hx; simp [hex] at hx
  | cons y rest ih =>
    intro x hx
    rw [hex_cons] at hx
    simp only [List.mem_cons] at hx
    rcases hx with rfl | rfl | hx
    · exact hexDigit_range _
    · exact hexDigit_range _
    · exact ih x hx

theorem hex_valueOk (b : Bytes) : ValueOk (hex b) := by
  constructor
  · intro h; have := mem_hex_range b 34 h; omega
  · intro h; have := mem_hex_range b 60 h; omega

/-! ### (2) the written tree is well-formed -/

theorem b64Char_ne60 (v : Nat) : b64Char v ≠ 60 := by
  unfold b64Char; repeat' split
  all_goals omega

/-- every octet of Base64 text is in `43 ..= 122` and is not `<` -/
theorem mem_b64Encode_ne60 (d : Bytes) : ∀ x ∈ b64Encode d, x ≠ 60 := by
  fun_induction b64Encode d with
  | case1 => simp
  | case2 a =>
    intro x hx
    have := b64Char_ne60 (a / 4); have := b64Char_ne60 (a % 4 * 16)
    simp only [List.mem_cons, List.not_mem_nil, or_false] at hx
    rcases hx with rfl | rfl | rfl | rfl <;> omega
  | case3 a b =>
    intro x hx
    have := b64Char_ne60 (a / 4); have := b64Char_ne60 (a % 4 * 16 + b / 16)
    have := b64Char_ne60 (b % 16 * 4)
    simp only [List.mem_cons, List.not_mem_nil, or_false] at hx
    rcases hx with rfl | rfl | rfl | rfl <;> omega
  | case4 a b c rest ih =>
    intro x hx
    have := b64Char_ne60 (a / 4); have := b64Char_ne60 (a % 4 * 16 + b / 16)
    have := b64Char_ne60 (b % 16 * 4 + c / 64); have := b64Char_ne60 (c % 64)
    simp only [List.mem_cons] at hx
    rcases hx with rfl | rfl | rfl | rfl | hx
    · omega
    · omega
    · omega
    · omega
    · exact ih x hx

theorem b64Encode_ne_nil (d : Bytes) (hne : d ≠ []) : b64Encode d ≠ [] := by
  cases d with
  | nil => exact absurd rfl hne
  | cons a t =>
    cases t with
    | nil => simp [b64Encode]
    | cons b t2 => cases t2 <;> simp [b64Encode]

/-- the Base64 text of a non-empty object is an admissible text line -/
theorem b64Encode_textOk (d : Bytes) (hne : d ≠ []) : TextOk (b64Encode d) := by
  have nows : ∀ c ∈ b64Encode d, isWs c = false := by
    intro c hc
    have := mem_b64Encode_range d c hc
    unfold isWs
    simp only [Bool.or_eq_false_iff, decide_eq_false_iff_not]
    omega
  refine ⟨b64Encode_ne_nil d hne, fun h => mem_b64Encode_ne60 d 60 h rfl, ?_, ?_⟩
  · intro c hc
    exact nows c (List.mem_of_head? hc)
  · intro c hc
    exact nows c (List.mem_of_getLast? hc)

theorem b64Encode_nil : b64Encode [] = [] := by simp [b64Encode]

theorem valueOk_escapeAttr (v : Bytes) : ValueOk (escapeAttr v) := escapeAttr_safe v

/-- the parts of a PDU element -/
def pduName : Pdu → Bytes
  | .publish .. | .update .. => s "publish"
  | .withdraw .. => s "withdraw"
def pduAttrs : Pdu → List (Bytes × Bytes)
  | .publish t u _ => [tagAttr t, (s "uri", escapeAttr u)]
  | .update t u _ h => [tagAttr t, (s "uri", escapeAttr u), (s "hash", hex h)]
  | .withdraw t u h => [tagAttr t, (s "uri", escapeAttr u), (s "hash", hex h)]
def pduBody : Pdu → Option Nodes
  | .publish _ _ c | .update _ _ c _ => some (.cons (.text (b64Encode c)) .nil)
  | .withdraw .. => none

theorem pduNode_eq (e : Pdu) : pduNode e = .elem (pduName e) (pduAttrs e) (pduBody e) := by
  cases e <;> rfl

theorem pduName_ok (e : Pdu) : NameOk (pduName e) := by
  cases e <;> (unfold pduName; lits; unfold NameOk; decide)

theorem pduAttrs_ok (e : Pdu) : ∀ a ∈ pduAttrs e, NameOk a.1 ∧ ValueOk a.2 := by
  have h1 : NameOk [116, 97, 103] := by unfold NameOk; decide
  have h2 : NameOk [117, 114, 105] := by unfold NameOk; decide
  have h3 : NameOk [104, 97, 115, 104] := by unfold NameOk; decide
  cases e <;>
  · unfold pduAttrs tagAttr; lits
    intro a ha
    simp only [List.mem_cons, List.not_mem_nil, or_false] at ha
    rcases ha with rfl | rfl | rfl
    all_goals first | exact ⟨h1, valueOk_escapeAttr _⟩ | exact ⟨h2, valueOk_escapeAttr _⟩ | exact ⟨h3, hex_valueOk _⟩

theorem pduBody_WF0 (e : Pdu) : match pduBody e with | none => True | some kids => kids.WF0 := by
  have key : ∀ c : Bytes, (Nodes.cons (.text (b64Encode c)) .nil).WF0 := by
    intro c
    rw [Nodes.WF0_cons, Node.WF0_text]
    refine ⟨?_, by rw [Nodes.WF0]; trivial, fun h => h⟩
    by_cases hc : c = []
    · left; rw [hc, b64Encode_nil]
    · right; exact b64Encode_textOk c hc
  cases e <;> simp only [pduBody] <;> first | exact key _ | trivial

theorem pduBody_WF (e : Pdu) (hne : e.nonEmpty) : match pduBody e with | none => True | some kids => kids.WF := by
  have key : ∀ c : Bytes, c ≠ [] → (Nodes.cons (.text (b64Encode c)) .nil).WF := by
    intro c hc
    rw [Nodes.WF_cons, Node.WF_text]
    exact ⟨b64Encode_textOk c hc, by rw [Nodes.WF]; trivial, fun h => h⟩
  cases e <;> simp only [pduBody] <;> first | exact key _ hne | trivial

theorem pduNode_WF0 (e : Pdu) : (pduNode e).WF0 := by
  rw [pduNode_eq, Node.WF0_elem]
  exact ⟨pduName_ok e, pduAttrs_ok e, pduBody_WF0 e⟩

theorem pduNode_WF (e : Pdu) (hne : e.nonEmpty) : (pduNode e).WF := by
  rw [pduNode_eq, Node.WF_elem]
  exact ⟨pduName_ok e, pduAttrs_ok e, pduBody_WF e hne⟩

theorem nameOk_uri : NameOk [117, 114, 105] := by unfold NameOk; decide
theorem nameOk_hash : NameOk [104, 97, 115, 104] := by unfold NameOk; decide

theorem listNode_WF (e : ListEl) : (listNode e).WF := by
  unfold listNode; lits
  rw [Node.WF_elem]
  refine ⟨by unfold NameOk; decide, ?_, trivial⟩
  intro a ha
  simp only [List.mem_cons, List.not_mem_nil, or_false] at ha
  rcases ha with rfl | rfl
  · exact ⟨nameOk_uri, valueOk_escapeAttr _⟩
  · exact ⟨nameOk_hash, hex_valueOk _⟩

/-- `TextOk` as a computation -/
def textOkB (t : Bytes) : Bool :=
  !t.isEmpty && !t.contains 60 &&
    (match t.head? with | some c => !isWs c | none => false) &&
    (match t.getLast? with | some c => !isWs c | none => false)

theorem textOk_of_textOkB (t : Bytes) (h : textOkB t = true) : TextOk t := by
  unfold textOkB at h
  simp only [Bool.and_eq_true, Bool.not_eq_true', List.isEmpty_eq_false_iff] at h
  obtain ⟨⟨⟨h1, h2⟩, h3⟩, h4⟩ := h
  refine ⟨h1, ?_, ?_, ?_⟩
  · intro hm
    rw [List.contains_iff_mem.mpr hm] at h2
    exact absurd h2 (by decide)
  · intro c hc; rw [hc] at h3; simpa using h3
  · intro c hc; rw [hc] at h4; simpa using h4

/-- code and text of the error report `c` -/
def codeOf (c : Nat) : Bytes := s (codes.getD c ("other_error", "Found some other issue.")).1
def textOf (c : Nat) : Bytes := s (codes.getD c ("other_error", "Found some other issue.")).2

theorem errNode_eq (c : Nat) :
    errNode c = .elem [114, 101, 112, 111, 114, 116, 95, 101, 114, 114, 111, 114]
      [([101, 114, 114, 111, 114, 95, 99, 111, 100, 101], codeOf c)]
      (some (.cons (.elem [101, 114, 114, 111, 114, 95, 116, 101, 120, 116] []
        (some (.cons (.text (textOf c)) .nil))) .nil)) := by
  rw [← s_report_error, ← s_error_code, ← s_error_text]
  rfl

set_option maxRecDepth 100000 in
/-- the facts about the eight codes and their texts, by evaluation of each literal -/
theorem code_facts (c : Nat) (hc : c < 8) :
    ValueOk (codeOf c) ∧ TextOk (textOf c) ∧ codeIndex (codeOf c) = some c ∧
    (codes.getD c ("", "")).2 = String.ofList ((textOf c).map fun c => Char.ofNat c) := by
  have h8 : c = 0 ∨ c = 1 ∨ c = 2 ∨ c = 3 ∨ c = 4 ∨ c = 5 ∨ c = 6 ∨ c = 7 := by omega
  rcases h8 with rfl | rfl | rfl | rfl | rfl | rfl | rfl | rfl
  all_goals
    simp only [codeOf, textOf, codes, List.getD_cons_zero, List.getD_cons_succ]
    lits
    refine ⟨?_, ?_, ?_, ?_⟩
    · unfold ValueOk; decide
    · apply textOk_of_textOkB; decide
    · simp only [codeIndex, codeIndex.go, codes]
      lits
      decide
    · rfl

theorem errNode_WF (c : Nat) (hc : c < 8) : (errNode c).WF := by
  obtain ⟨hv, ht, _, _⟩ := code_facts c hc
  rw [errNode_eq, Node.WF_elem]
  refine ⟨by unfold NameOk; decide, ?_, ?_⟩
  · intro a ha
    simp only [List.mem_cons, List.not_mem_nil, or_false] at ha
    subst ha
    have hN : NameOk [101, 114, 114, 111, 114, 95, 99, 111, 100, 101] := by unfold NameOk; decide
    exact ⟨hN, hv⟩
  · simp only
    rw [Nodes.WF_cons, Node.WF_elem]
    refine ⟨⟨by unfold NameOk; decide, (by intro a ha; cases ha), ?_⟩, by rw [Nodes.WF]; trivial, trivial⟩
    simp only
    rw [Nodes.WF_cons, Node.WF_text]
    exact ⟨ht, by rw [Nodes.WF]; trivial, fun h => h⟩

theorem pduNode_isElem (e : Pdu) : ∃ name attrs body, pduNode e = Node.elem name attrs body :=
  ⟨_, _, _, pduNode_eq e⟩

/-- the children of the root: well-formed elements -/
theorem body_elems (m : Msg) : ∀ n ∈ body m, ∃ name attrs body, n = Node.elem name attrs body := by
  cases m with
  | listQuery => intro n hn; simp only [body, List.mem_cons, List.not_mem_nil, or_false] at hn; exact ⟨_, _, _, hn⟩
  | success => intro n hn; simp only [body, List.mem_cons, List.not_mem_nil, or_false] at hn; exact ⟨_, _, _, hn⟩
  | delta es =>
    intro n hn; simp only [body, List.mem_map] at hn
    obtain ⟨e, _, rfl⟩ := hn; exact pduNode_isElem e
  | listReply es =>
    intro n hn; simp only [body, List.mem_map] at hn
    obtain ⟨e, _, rfl⟩ := hn; exact ⟨_, _, _, rfl⟩
  | errors cs =>
    intro n hn; simp only [body, List.mem_map] at hn
    obtain ⟨c, _, rfl⟩ := hn; exact ⟨_, _, _, errNode_eq c⟩

theorem body_WF (m : Msg) (hw : m.WF) (hp : m.Plain) : ∀ n ∈ body m, n.WF := by
  cases m with
  | listQuery =>
    intro n hn; simp only [body, List.mem_cons, List.not_mem_nil, or_false] at hn; subst hn
    lits; rw [Node.WF_elem]
    exact ⟨by unfold NameOk; decide, (by intro a ha; cases ha), trivial⟩
  | success =>
    intro n hn; simp only [body, List.mem_cons, List.not_mem_nil, or_false] at hn; subst hn
    lits; rw [Node.WF_elem]
    exact ⟨by unfold NameOk; decide, (by intro a ha; cases ha), trivial⟩
  | delta es =>
    intro n hn; simp only [body, List.mem_map] at hn
    obtain ⟨e, he, rfl⟩ := hn; exact pduNode_WF e (hp e he)
  | listReply es =>
    intro n hn; simp only [body, List.mem_map] at hn
    obtain ⟨e, _, rfl⟩ := hn; exact listNode_WF e
  | errors cs =>
    intro n hn; simp only [body, List.mem_map] at hn
    obtain ⟨c, hc, rfl⟩ := hn; exact errNode_WF c (hw c hc)

theorem body_WF0 (m : Msg) (hw : m.WF) : ∀ n ∈ body m, n.WF0 := by
  cases m with
  | delta es =>
    intro n hn; simp only [body, List.mem_map] at hn
    obtain ⟨e, he, rfl⟩ := hn; exact pduNode_WF0 e
  | listQuery => intro n hn; exact Node.WF.toWF0 n (body_WF _ hw trivial n hn)
  | success => intro n hn; exact Node.WF.toWF0 n (body_WF _ hw trivial n hn)
  | listReply es => intro n hn; exact Node.WF.toWF0 n (body_WF _ hw trivial n hn)
  | errors cs => intro n hn; exact Node.WF.toWF0 n (body_WF _ hw trivial n hn)

theorem root_attrs_ok (m : Msg) : ∀ a ∈ [(s "xmlns", ns), (s "version", version),
    (s "type", if isQuery m = true then s "query" else s "reply")], NameOk a.1 ∧ ValueOk a.2 := by
  intro a ha
  lits
  simp only [List.mem_cons, List.not_mem_nil, or_false] at ha
  rcases ha with rfl | rfl | rfl
  · exact ⟨by unfold NameOk; decide, by unfold ValueOk; decide⟩
  · exact ⟨by unfold NameOk; decide, by unfold ValueOk; decide⟩
  · have hN : NameOk [116, 121, 112, 101] := by unfold NameOk; decide
    refine ⟨hN, ?_⟩
    simp only
    split <;> (unfold ValueOk; decide)

theorem nameOk_msg : NameOk (s "msg") := by lits; unfold NameOk; decide

/-- (2) the tree `write` writes is well-formed when no object is empty -/
theorem toTree_WF (m : Msg) (hw : m.WF) (hp : m.Plain) : (toTree m).WF := by
  unfold toTree
  rw [Node.WF_elem]
  exact ⟨nameOk_msg, root_attrs_ok m,
    ofList_WF _ fun n hn => ⟨body_WF m hw hp n hn, body_elems m n hn⟩⟩

/-- with empty objects: well-formed up to empty text lines -/
theorem toTree_WF0 (m : Msg) (hw : m.WF) : (toTree m).WF0 := by
  unfold toTree
  rw [Node.WF0_elem]
  exact ⟨nameOk_msg, root_attrs_ok m,
    ofList_WF0 _ fun n hn => ⟨body_WF0 m hw n hn, body_elems m n hn⟩⟩

/-! ### (3) reading the tree back -/

theorem readContent_b64 (c : Bytes) (hc : BytesOk c) :
    readContent (some (.cons (.text (b64Encode c)) .nil)) = some c := by
  rw [readContent]
  exact xmlB64Decode_of_skipWs _ c hc (b64Encode_no_ws c hc)

theorem readContent_nil : readContent (some .nil) = some [] := by rw [readContent]

theorem unescapeAll_bind (u : Bytes) : (some (escapeAttr u)).bind unescapeAll = some u := by
  rw [Option.bind_some, unescape_escapeAttr]

theorem readPdu_publish (t : Option Bytes) (u c : Bytes) (body : Option Nodes)
    (hb : readContent body = some c) :
    readPdu (.elem (s "publish") [tagAttr t, (s "uri", escapeAttr u)] body) =
      some (.publish (some (t.getD [])) u c) := by
  unfold readPdu tagAttr
  lits
  simp [attrsWithin, lookup, readTag, s_tag, unescape_escapeAttr, hb]

theorem readPdu_update (t : Option Bytes) (u c h : Bytes) (body : Option Nodes)
    (hb : readContent body = some c) (hh : BytesOk h) (hl : h.length = 32) :
    readPdu (.elem (s "publish") [tagAttr t, (s "uri", escapeAttr u), (s "hash", hex h)] body) =
      some (.update (some (t.getD [])) u c h) := by
  unfold readPdu tagAttr
  lits
  simp [attrsWithin, lookup, readTag, s_tag, unescape_escapeAttr, hb, readHash_hex h hh hl]

theorem readPdu_withdraw (t : Option Bytes) (u h : Bytes) (hh : BytesOk h) (hl : h.length = 32) :
    readPdu (.elem (s "withdraw") [tagAttr t, (s "uri", escapeAttr u), (s "hash", hex h)] none) =
      some (.withdraw (some (t.getD [])) u h) := by
  unfold readPdu tagAttr
  lits
  simp [attrsWithin, lookup, readTag, s_tag, unescape_escapeAttr, readHash_hex h hh hl]

theorem readPdu_pduNode (e : Pdu) (hw : e.WF) : readPdu (pduNode e) = some (normPdu e) := by
  cases e with
  | publish t u c => exact readPdu_publish t u c _ (readContent_b64 c hw)
  | update t u c h => exact readPdu_update t u c h _ (readContent_b64 c hw.1) hw.2.1 hw.2.2
  | withdraw t u h => exact readPdu_withdraw t u h hw.1 hw.2

/-- the same for the tree the reference reader returns (the empty text line of an empty object dropped) -/
theorem readPdu_strip_pduNode (e : Pdu) (hw : e.WF) : readPdu (strip (pduNode e)) = some (normPdu e) := by
  by_cases hne : e.nonEmpty
  · rw [strip_of_WF _ (pduNode_WF e hne)]; exact readPdu_pduNode e hw
  · cases e with
    | publish t u c =>
      have hc : c = [] := Classical.not_not.mp hne
      subst hc
      rw [pduNode, b64Encode_nil, strip_elem_some, stripKids_text_nil, stripKids_nil]
      exact readPdu_publish t u [] _ readContent_nil
    | update t u c h =>
      have hc : c = [] := Classical.not_not.mp hne
      subst hc
      rw [pduNode, b64Encode_nil, strip_elem_some, stripKids_text_nil, stripKids_nil]
      exact readPdu_update t u [] h _ readContent_nil hw.2.1 hw.2.2
    | withdraw t u h => exact absurd trivial hne

theorem strip_pduNode_attrs (e : Pdu) : ∃ name a as body, strip (pduNode e) = Node.elem name (a :: as) body := by
  obtain ⟨body', hb⟩ := strip_elem_shape (pduName e) (pduAttrs e) (pduBody e)
  rw [pduNode_eq, hb]
  cases e <;> exact ⟨_, _, _, _, rfl⟩

theorem pduNode_attrs (e : Pdu) : ∃ name a as body, pduNode e = Node.elem name (a :: as) body := by
  cases e <;> exact ⟨_, _, _, _, rfl⟩

theorem readListEl_listNode (e : ListEl) (hh : BytesOk e.hash) (hl : e.hash.length = 32) :
    readListEl (listNode e) = some e := by
  unfold readListEl listNode
  lits
  simp [lookup, unescape_escapeAttr, readHash_hex e.hash hh hl]

theorem readErr_errNode (c : Nat) (hc : c < 8) : readErr (errNode c) = some c := by
  obtain ⟨_, _, hi, ht⟩ := code_facts c hc
  rw [errNode_eq, readErr]
  lits
  simp only [ne_eq, not_true_eq_false, or_self, if_false, lookup, if_true, Option.bind_some, hi]
  rw [if_pos ht]

/-- `mapM` over a mapped list, element by element -/
theorem mapM_map_some {α β γ : Type} (f : α → β) (g : β → Option γ) (h : α → γ) (l : List α)
    (hl : ∀ x ∈ l, g (f x) = some (h x)) : (l.map f).mapM g = some (l.map h) := by
  induction l with
  | nil => rfl
  | cons x xs ih =>
    rw [List.map_cons, List.mapM_cons, hl x List.mem_cons_self,
      ih (fun y hy => hl y (List.mem_cons_of_mem _ hy))]
    rfl

/-- the root element of message `m` with the given children -/
def rootOf (m : Msg) (kids : List Node) : Node :=
  .elem (s "msg")
    [(s "xmlns", ns), (s "version", version), (s "type", if isQuery m then s "query" else s "reply")]
    (some (Nodes.ofList kids))

theorem toTree_eq (m : Msg) : toTree m = rootOf m (body m) := rfl

theorem strip_toTree (m : Msg) : strip (toTree m) = rootOf m ((body m).map strip) := by
  rw [toTree_eq, rootOf, strip_elem_some, stripKids_ofList _ (body_elems m)]; rfl

/-- `ofTree` on a root element with the three attributes of `toTree` -/
theorem ofTree_root (ty : Bytes) (kids : List Node) :
    ofTree (.elem (s "msg") [(s "xmlns", ns), (s "version", version), (s "type", ty)]
      (some (Nodes.ofList kids))) =
    if ty = s "query" then
      (match kids with
       | [.elem n [] none] => if n = s "list" then some .listQuery else (kids.mapM readPdu).map .delta
       | _ => (kids.mapM readPdu).map .delta)
    else if ty = s "reply" then
      (match kids with
       | [.elem n [] none] => if n = s "success" then some .success else none
       | [] => some (.listReply [])
       | k :: _ =>
         (match k with
          | .elem n _ _ =>
            if n = s "list" then (kids.mapM readListEl).map .listReply else (kids.mapM readErr).map .errors
          | .text _ => none))
    else none := by
  rw [ofTree]
  lits
  simp only [ne_eq, not_true_eq_false, lookup, ↓reduceIte, List.cons.injEq, Nat.reduceEqDiff, List.nil_eq,
    reduceCtorEq, and_self, or_self, List.cons_ne_self, toList_ofList]
  rfl

theorem query_ne_reply : s "reply" ≠ s "query" := by lits; decide

theorem ofTree_delta (es : List Pdu) (f : Pdu → Node)
    (hf : ∀ e ∈ es, readPdu (f e) = some (normPdu e))
    (hs : ∀ e, ∃ name a as body, f e = Node.elem name (a :: as) body) :
    ofTree (rootOf (.delta es) (es.map f)) = some (.delta (es.map normPdu)) := by
  unfold rootOf
  simp only [isQuery, if_true]
  rw [ofTree_root, if_pos rfl, mapM_map_some f readPdu normPdu es hf]
  split
  · rename_i n heq
    cases es with
    | nil => cases heq
    | cons e rest =>
      obtain ⟨name, a, as, body, he⟩ := hs e
      rw [List.map_cons, he] at heq
      injection heq with h1 _
      injection h1 with _ h2 _
      cases h2
  · rfl

theorem ofTree_listReply (es : List ListEl)
    (hw : ∀ e ∈ es, BytesOk e.hash ∧ e.hash.length = 32) :
    ofTree (rootOf (.listReply es) (es.map listNode)) = some (.listReply es) := by
  unfold rootOf
  simp only [isQuery, Bool.false_eq_true, if_false]
  rw [ofTree_root, if_neg query_ne_reply, if_pos rfl]
  have hm := mapM_map_some listNode readListEl id es
    (fun e he => readListEl_listNode e (hw e he).1 (hw e he).2)
  cases es with
  | nil => rfl
  | cons e rest =>
    rw [hm]
    simp only [List.map_cons, listNode, List.map_id, Option.map_some, if_true, id]

theorem ofTree_errors (cs : List Nat) (hw : ∀ c ∈ cs, c < 8) :
    ofTree (rootOf (.errors cs) (cs.map errNode)) = some (norm (.errors cs)) := by
  unfold rootOf
  simp only [isQuery, Bool.false_eq_true, if_false]
  rw [ofTree_root, if_neg query_ne_reply, if_pos rfl]
  have hm := mapM_map_some errNode readErr id cs (fun c hc => readErr_errNode c (hw c hc))
  cases cs with
  | nil => rfl
  | cons c rest =>
    rw [hm]
    have hne : ([114, 101, 112, 111, 114, 116, 95, 101, 114, 114, 111, 114] : Bytes) ≠ s "list" := by
      lits; decide
    simp only [List.map_cons, errNode_eq, List.map_id, Option.map_some, if_neg hne, norm, id]

theorem ofTree_listQuery : ofTree (rootOf .listQuery [.elem (s "list") [] none]) = some .listQuery := by
  unfold rootOf
  simp only [isQuery, if_true]
  rw [ofTree_root, if_pos rfl]
  simp only [if_true]

theorem ofTree_success : ofTree (rootOf .success [.elem (s "success") [] none]) = some .success := by
  unfold rootOf
  simp only [isQuery, Bool.false_eq_true, if_false]
  rw [ofTree_root, if_neg query_ne_reply, if_pos rfl]
  simp only [if_true]

/-- (3) the tree reader inverts `toTree` up to `norm`; empty objects included -/
theorem ofTree_toTree (m : Msg) (hw : m.WF) : ofTree (toTree m) = some (norm m) := by
  rw [toTree_eq]
  cases m with
  | listQuery => exact ofTree_listQuery
  | success => exact ofTree_success
  | delta es => exact ofTree_delta es pduNode (fun e he => readPdu_pduNode e (hw e he)) pduNode_attrs
  | listReply es => exact ofTree_listReply es hw
  | errors cs => exact ofTree_errors cs hw

/-- the same for the tree the reference reader returns for the written document -/
theorem ofTree_strip_toTree (m : Msg) (hw : m.WF) : ofTree (strip (toTree m)) = some (norm m) := by
  cases m with
  | delta es =>
    rw [strip_toTree]
    simp only [body, List.map_map]
    exact ofTree_delta es (strip ∘ pduNode) (fun e he => readPdu_strip_pduNode e (hw e he))
      strip_pduNode_attrs
  | listQuery => rw [strip_of_WF _ (toTree_WF _ hw trivial)]; exact ofTree_toTree _ hw
  | success => rw [strip_of_WF _ (toTree_WF _ hw trivial)]; exact ofTree_toTree _ hw
  | listReply es => rw [strip_of_WF _ (toTree_WF _ hw trivial)]; exact ofTree_toTree _ hw
  | errors cs => rw [strip_of_WF _ (toTree_WF _ hw trivial)]; exact ofTree_toTree _ hw

/-! ### (4) documents -/

theorem toTree_isElem (m : Msg) : ∃ name attrs body, toTree m = Node.elem name attrs body :=
  ⟨_, _, _, rfl⟩

/-- the reference reader returns the written tree, minus the empty text lines of empty objects -/
theorem parse_write_msg (m : Msg) (hw : m.WF) : parseDoc (write m) = some (strip (toTree m)) :=
  parse_write0 _ (toTree_WF0 m hw) (toTree_isElem m)

/-- (4) reading a written message gives the message back, up to `norm`; empty objects included -/
theorem read_write_any (m : Msg) (hw : m.WF) : read (write m) = some (norm m) := by
  unfold read
  rw [parse_write_msg m hw, Option.bind_some]
  exact ofTree_strip_toTree m hw

/-- (4) as asked, from `parse_write` on the well-formed tree of a message without empty objects -/
theorem read_write (m : Msg) (hw : m.WF) (hp : m.Plain) : read (write m) = some (norm m) := by
  unfold read write
  rw [parse_write _ (toTree_WF m hw hp) (toTree_isElem m), Option.bind_some]
  exact ofTree_toTree m hw

/-! ### (5) the writer is injective up to `norm` -/

theorem write_injective_any (a b : Msg) (ha : a.WF) (hb : b.WF) (h : write a = write b) :
    norm a = norm b := by
  have h1 := read_write_any a ha
  rw [h, read_write_any b hb] at h1
  exact (Option.some.inj h1).symm

theorem write_injective (a b : Msg) (ha : a.WF) (hb : b.WF) (hpa : a.Plain) (hpb : b.Plain)
    (h : write a = write b) : norm a = norm b := by
  have h1 := read_write a ha hpa
  rw [h, read_write b hb hpb] at h1
  exact (Option.some.inj h1).symm

/-! ### instances and boundary cases -/

/-- an absent tag with an empty object, a replacement whose tag has `<` and `"`, a withdrawal -/
def sampleDelta : Msg :=
  .delta [.publish none [97] [], .update (some [60, 34]) [98, 38] [1, 2, 3] (List.replicate 32 7),
    .withdraw none [99] (List.replicate 32 255)]

theorem sampleDelta_WF : sampleDelta.WF := by
  intro e he
  simp only [List.mem_cons, List.not_mem_nil, or_false] at he
  rcases he with rfl | rfl | rfl
  · intro x hx; cases hx
  · exact ⟨by unfold BytesOk; decide, by unfold BytesOk; decide, by decide⟩
  · exact ⟨by unfold BytesOk; decide, by decide⟩

/-- the hypotheses are satisfiable, also with an empty object -/
example : read (write sampleDelta) = some (norm sampleDelta) := read_write_any _ sampleDelta_WF
example : read (write (.errors [0, 3, 7])) = some (.errors [0, 3, 7]) :=
  read_write_any _ (by intro c hc; simp only [List.mem_cons, List.not_mem_nil, or_false] at hc; omega)

/-- why `toTree_WF` asks for `Plain`: the text line of an empty object is empty -/
theorem plain_needed : ¬ (toTree (.delta [.publish none [] []])).WF := by
  intro h
  rw [toTree_eq, rootOf, Node.WF_elem] at h
  have h1 := h.2.2
  simp only [body, List.map_cons, List.map_nil, Nodes.ofList, pduNode] at h1
  rw [Nodes.WF_cons, Node.WF_elem] at h1
  have h2 := h1.1.2.2
  simp only at h2
  rw [Nodes.WF_cons, Node.WF_text, b64Encode_nil] at h2
  exact h2.1.1 rfl

/-- why `norm`: an absent tag is written like the empty tag, and an error reply without reports like
an empty list reply -/
theorem norm_needed (u h : Bytes) :
    write (.delta [.withdraw none u h]) = write (.delta [.withdraw (some []) u h]) ∧
    write (.errors []) = write (.listReply []) := ⟨rfl, rfl⟩

/-- why `Msg.WF` bounds the codes: any index from 8 on is written as `other_error` -/
theorem code_bound_needed : write (.errors [8]) = write (.errors [7]) := rfl

end Rpki.PubMsg
