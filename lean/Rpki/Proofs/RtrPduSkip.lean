import Rpki.Proofs.RtrPduFaults
import Rpki.Proofs.PrefixLemmas
namespace Rpki.Rtr
open Rpki.Consts

/-! ### `Error::skip_payload` always ends: with success if the bytes are there, with `eof` otherwise -/

theorem eofChecked : skipEofChecked = true := rfl

/-- The loop ends within `remaining + 1` iterations whatever the chunking of the reads:
`ok` having consumed exactly `remaining` bytes when they are available, `eof` otherwise. -/
theorem skipLoop_spec : ∀ (fuel remaining : Nat) (s : Bytes) (sched : List Nat), remaining < fuel →
    skipLoop fuel remaining s sched =
      some (if remaining ≤ s.length then .ok (s.drop remaining) else .error .eof) := by
  intro fuel
  induction fuel with
  | zero => intro r s sc h; omega
  | succ f ih =>
    intro remaining s sched hlt
    rw [skipLoop]
    by_cases h0 : remaining = 0
    · subst h0; simp
    · rw [if_neg h0]
      simp only
      have hb : skipBufSize = 1024 := rfl
      by_cases hs : s.length = 0
      · -- end of file
        have hn : rawRead (min remaining skipBufSize) (sched.headD skipBufSize) s = 0 := by
          unfold rawRead; rw [hs]; simp
        rw [hn]
        simp only [eofChecked, and_self, if_true]
        have : ¬ remaining ≤ s.length := by omega
        rw [if_neg this]
      · have hn1 : 1 ≤ rawRead (min remaining skipBufSize) (sched.headD skipBufSize) s := by
          unfold rawRead; rw [hb]
          have : 1 ≤ max (sched.headD 1024) 1 := Nat.le_max_right _ _
          omega
        have hn2 : rawRead (min remaining skipBufSize) (sched.headD skipBufSize) s ≤ remaining ∧
            rawRead (min remaining skipBufSize) (sched.headD skipBufSize) s ≤ s.length := by
          unfold rawRead; omega
        generalize rawRead (min remaining skipBufSize) (sched.headD skipBufSize) s = n at *
        have hne : ¬ (n = 0 ∧ skipEofChecked = true) := by omega
        rw [if_neg hne, ih (remaining - n) (s.drop n) sched.tail (by omega)]
        simp only [List.length_drop, List.drop_drop]
        by_cases hle : remaining ≤ s.length
        · have : remaining - n ≤ s.length - n := by omega
          rw [if_pos this, if_pos hle]
          congr 3; omega
        · have : ¬ remaining - n ≤ s.length - n := by omega
          rw [if_neg this, if_neg hle]

/-- `skip_payload` terminates for every stream and every chunking, consuming at most the
announced payload length. -/
theorem skipPayload_spec (h : Hdr) (s : Bytes) (sched : List Nat) :
    skipPayload (h.length + 2) h s sched =
      some (if h.length < 8 then .error .invalid
            else if h.length - 8 ≤ s.length then .ok (s.drop (h.length - 8)) else .error .eof) := by
  unfold skipPayload
  have s8 : sizeHeader = 8 := rfl
  rw [s8]
  by_cases hl : h.length < 8
  · simp [hl]
  · rw [if_neg hl, if_neg hl, skipLoop_spec _ _ _ _ (by omega)]

/-! ### items survive the conversion to a PDU and back -/

/-- a payload item whose fields fit the wire and whose prefix is well formed -/
def PayloadItem.WF : PayloadItem → Prop
  | .origin true addr plen ml asn => addr < 2 ^ 32 ∧ plen ≤ 32 ∧ (addr * 2 ^ 96) % 2 ^ (128 - plen) = 0 ∧
      (∀ m, ml = some m → plen ≤ m ∧ m ≤ 32) ∧ asn < 2 ^ 32
  | .origin false addr plen ml asn => addr < 2 ^ 128 ∧ plen ≤ 128 ∧ addr % 2 ^ (128 - plen) = 0 ∧
      (∀ m, ml = some m → plen ≤ m ∧ m ≤ 128) ∧ asn < 2 ^ 32
  | .routerKey ski asn _ => ski.length = 20 ∧ asn < 2 ^ 32
  | .aspa c ps => c < 2 ^ 32 ∧ ps.length % 4 = 0

/-- what comes back: same item; an origin carries its *resolved* max length (origins compare by
it), a withdrawn ASPA carries no providers (the documented convention) -/
def expectBack (flags : Nat) : PayloadItem → PayloadItem
  | .aspa c ps => if flags % 2 = 1 then .aspa c ps else .aspa c []
  | .origin v4 a l ml asn => .origin v4 a l (some (ml.getD l)) asn
  | p => p

theorem toPayload_newPdu (version flags : Nat) (p : PayloadItem) (hp : p.WF) (hf : flags < 256) :
    toPayload (newPdu version flags p) = some (Action.fromFlags flags, expectBack flags p) := by
  cases p with
  | origin v4 addr plen ml asn =>
    cases v4 with
    | true =>
      obtain ⟨h1, h2, h3, h4, h5⟩ := hp
      unfold newPdu toPayload
      simp only
      have hfal : Prefix.falV4 plen = some plen := by
        unfold Prefix.falV4 falV4Max; rw [if_neg (by omega)]
      unfold Prefix.newV4Relaxed
      rw [hfal]
      simp only
      have hml : plen ≤ ml.getD plen ∧ ml.getD plen ≤ 32 := by
        cases ml with
        | none => simp; omega
        | some m => simpa using h4 m rfl
      -- the relaxed constructor leaves an aligned address alone
      have hclear : Prefix.clearHost (Prefix.fromV4 addr) plen = addr * 2 ^ 96 := by
        unfold Prefix.clearHost Prefix.fromV4 Prefix.hostBits
        by_cases h0 : plen = 0
        · subst h0
          simp only [if_true]
          have : addr * 2 ^ 96 < 2 ^ 128 := by
            have : (2:Nat) ^ 128 = 2 ^ 32 * 2 ^ 96 := by decide
            rw [this]; exact Nat.mul_lt_mul_of_pos_right h1 (by decide)
          have h3' : addr * 2 ^ 96 % 2 ^ 128 = 0 := h3
          omega
        · rw [if_neg h0]; exact Prefix.aligned_div_mul _ _ h3
      rw [hclear]
      unfold Prefix.mlpNew
      simp only
      have hv4 : Prefix.Pfx.isV4 ⟨plen, addr * 2 ^ 96⟩ = true := by
        unfold Prefix.Pfx.isV4 Prefix.falIsV4; simp; omega
      have hlen : Prefix.Pfx.len ⟨plen, addr * 2 ^ 96⟩ = plen := by
        unfold Prefix.Pfx.len Prefix.falLen
        have : plen / 64 = 0 := by omega
        simp [this]
      rw [hv4, hlen]
      have c1 : ¬ ((true = true ∧ ml.getD plen > 32) ∨ ml.getD plen > 128) := by omega
      have c2 : ¬ plen > ml.getD plen := by omega
      rw [if_neg c1, if_neg c2]
      simp only [expectBack]
      congr 3
      exact Nat.mul_div_cancel _ (by decide)
    | false =>
      obtain ⟨h1, h2, h3, h4, h5⟩ := hp
      unfold newPdu toPayload
      simp only
      have hfal : ∃ f, Prefix.falV6 plen = some f ∧ Prefix.falIsV4 f = false ∧ Prefix.falLen f = plen := by
        have ht := Prefix.fal_table plen (by omega)
        cases hf6 : Prefix.falV6 plen with
        | none => have := ht.2.1.2 h2; simp [hf6] at this
        | some f => exact ⟨f, rfl, (ht.2.2.2 f hf6).1, (ht.2.2.2 f hf6).2.1⟩
      obtain ⟨f, hf1, hf2, hf3⟩ := hfal
      unfold Prefix.newV6Relaxed
      rw [hf1]
      simp only
      have hml : plen ≤ ml.getD plen ∧ ml.getD plen ≤ 128 := by
        cases ml with
        | none => simp; omega
        | some m => simpa using h4 m rfl
      have hclear : Prefix.clearHost addr plen = addr := by
        unfold Prefix.clearHost Prefix.hostBits
        by_cases h0 : plen = 0
        · subst h0
          simp only [if_true]
          have h3' : addr % 2 ^ 128 = 0 := h3
          omega
        · rw [if_neg h0]; exact Prefix.aligned_div_mul _ _ h3
      rw [hclear]
      unfold Prefix.mlpNew
      simp only
      have hv4 : Prefix.Pfx.isV4 ⟨f, addr⟩ = false := hf2
      have hlen : Prefix.Pfx.len ⟨f, addr⟩ = plen := hf3
      rw [hv4, hlen]
      have c1 : ¬ ((false = true ∧ ml.getD plen > 32) ∨ ml.getD plen > 128) := by simp; omega
      have c2 : ¬ plen > ml.getD plen := by omega
      rw [if_neg c1, if_neg c2]
      simp [expectBack]
  | routerKey ski asn info =>
    unfold newPdu toPayload
    simp only [expectBack]
    rw [Nat.mul_div_cancel _ (by decide : 0 < 256)]
  | aspa c ps =>
    unfold newPdu toPayload
    simp only [expectBack]
    rw [Nat.mul_div_cancel _ (by decide : 0 < 256)]
    unfold Action.fromFlags
    by_cases h : flags % 2 = 1 <;> simp [h]

end Rpki.Rtr
