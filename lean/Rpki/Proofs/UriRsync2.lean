import Rpki.Proofs.UriRsync
namespace Rpki.Uri
open Rpki.Consts

/-! ### more about `split` and `checkItems` -/

theorem split_snoc_slash (a : Bytes) : split (a ++ [slash]) = split a ++ [[]] := by
  have := split_append a []
  simpa [split] using this

theorem checkItems_goods_append (g : List Bytes) (j : List Bytes) (h : ∀ s ∈ g, goodSeg s) :
    checkItems (g ++ j) = checkItems j := by
  induction g with
  | nil => rfl
  | cons x xs ih =>
    simp only [List.cons_append]
    rw [checkItems_cons_good _ (h x (by simp))]
    exact ih (fun s hs => h s (by simp [hs]))

/-- the last item of `split b` is empty exactly when `b` is empty or ends in a slash -/
theorem split_last_of_snoc_ne (a : Bytes) (c : Nat) (hc : c ≠ slash) :
    ∃ init last, split (a ++ [c]) = init ++ [last] ∧ last ≠ [] ∧ split a = init ++ [last.dropLast] := by
  induction a with
  | nil =>
    refine ⟨[], [c], ?_, by simp, ?_⟩
    · simp [split, hc]
    · simp [split]
  | cons d ds ih =>
    obtain ⟨init, last, h1, h2, h3⟩ := ih
    by_cases hd : d = slash
    · refine ⟨[] :: init, last, ?_, h2, ?_⟩
      · simp only [List.cons_append]; rw [split]; simp [hd, h1]
      · rw [split]; simp [hd, h3]
    · cases init with
      | nil =>
        refine ⟨[], d :: last, ?_, by simp, ?_⟩
        · simp only [List.cons_append]; rw [split]; simp [hd, h1]
        · rw [split]; simp only [hd, if_false, h3]
          cases last with
          | nil => exact absurd rfl h2
          | cons x xs => simp [List.dropLast]
      | cons i0 is =>
        refine ⟨(d :: i0) :: is, last, ?_, h2, ?_⟩
        · simp only [List.cons_append]; rw [split]; simp [hd, h1]
        · rw [split]; simp [hd, h3]

/-- if all items of `split a` pass the check and `a` is non-empty and does not end in a slash,
    every item is a good segment -/
theorem checkItems_all_good_of_noTrailing (a : Bytes) (c : Nat) (hc : c ≠ slash)
    (h : checkItems (split (a ++ [c])) = .ok ()) : ∀ s ∈ split (a ++ [c]), goodSeg s := by
  obtain ⟨init, last, h1, h2, _⟩ := split_last_of_snoc_ne a c hc
  rw [h1] at h ⊢
  have := (checkItems_ok_iff _ (by simp)).1 h
  intro s hs
  rcases List.mem_append.1 hs with e | e
  · exact this.1 s (by simpa using e)
  · simp only [List.mem_singleton] at e
    subst e
    rcases this.2 s (by simp) with e | e
    · exact absurd e h2
    · exact e

theorem checkItems_init_good_of_trailing (a : Bytes)
    (h : checkItems (split (a ++ [slash])) = .ok ()) : ∀ s ∈ split a, goodSeg s := by
  rw [split_snoc_slash] at h
  have := (checkItems_ok_iff _ (by simp)).1 h
  intro s hs
  exact this.1 s (by simpa using hs)

/-- appending a checked relative path (after a separating slash if needed) keeps the check -/
theorem checkItems_join (path p : Bytes) (hp : checkItems (split path) = .ok ())
    (hq : checkItems (split p) = .ok ()) :
    checkItems (split (if endsWithSlash path ∨ path = [] then path ++ p else path ++ slash :: p)) = .ok () := by
  rcases List.eq_nil_or_concat path with e | ⟨path', c, e⟩
  · subst e; simpa using hq
  · rw [List.concat_eq_append] at e
    subst e
    by_cases hc : c = slash
    · subst hc
      have : endsWithSlash (path' ++ [slash]) = true := by simp [endsWithSlash]
      simp only [this, true_or, if_true]
      rw [List.append_assoc, List.singleton_append, split_append]
      rw [checkItems_goods_append _ _ (checkItems_init_good_of_trailing _ hp)]
      exact hq
    · have h1 : endsWithSlash (path' ++ [c]) = false := by simp [endsWithSlash, hc]
      have h2 : ¬ (path' ++ [c] = []) := by simp
      simp only [h1, h2, or_self, if_false, Bool.false_eq_true]
      rw [split_append]
      rw [checkItems_goods_append _ _ (checkItems_all_good_of_noTrailing _ _ hc hp)]
      exact hq

/-! ### lengths and the scheme prefix -/

theorem startsWith_length {s e : Bytes} (h : startsWithIgnoreCase s e = true) : e.length ≤ s.length := by
  unfold startsWithIgnoreCase at h
  by_cases hl : s.length < e.length
  · simp [hl] at h
  · omega

theorem startsWith_append {s e : Bytes} (t : Bytes) (h : startsWithIgnoreCase s e = true) :
    startsWithIgnoreCase (s ++ t) e = true := by
  have hl := startsWith_length h
  unfold startsWithIgnoreCase at *
  have : ¬ (s ++ t).length < e.length := by simp; omega
  have h2 : ¬ s.length < e.length := by omega
  simp only [this, h2, if_false] at *
  rw [List.take_append_of_le_length hl]; exact h

theorem startsWith_take {s e : Bytes} (n : Nat) (hn : e.length ≤ n) (h : startsWithIgnoreCase s e = true) :
    startsWithIgnoreCase (s.take n) e = true := by
  have hl := startsWith_length h
  unfold startsWithIgnoreCase at *
  have : ¬ (s.take n).length < e.length := by simp; omega
  have h2 : ¬ s.length < e.length := by omega
  simp only [this, h2, if_false] at *
  rw [List.take_take, Nat.min_eq_left hn]; exact h

theorem Rsync.Inv.length_ge {u : Rsync} (h : u.Inv) : 8 ≤ u.bytes.length := by
  have := startsWith_length h.2.1
  simpa [rsyncScheme] using this

/-- bytes = first 8 ++ rest -/
theorem Rsync.Inv.bytes_eq {u : Rsync} (h : u.Inv) : u.bytes = u.bytes.take 8 ++ u.bytes.drop 8 :=
  (List.take_append_drop 8 u.bytes).symm

/-! ### join keeps the invariant -/

theorem endsWithSlash_append_cons (a : Bytes) (c : Nat) (b : Bytes) :
    endsWithSlash (a ++ c :: b) = endsWithSlash (c :: b) := by
  unfold endsWithSlash
  simp [List.getLast?_append]

theorem Rsync.join_inv (u : Rsync) (p : Bytes) (v : Rsync) (h : u.Inv) (hj : u.join p = .ok v) : v.Inv := by
  unfold Rsync.join at hj
  by_cases hp : p = []
  · simp [hp] at hj; subst hj; exact h
  · simp only [hp, if_false] at hj
    have hc : checkUriAscii p = true := by
      by_cases hc : checkUriAscii p = true
      · exact hc
      · simp [hc] at hj
    simp only [hc, Bool.not_true, Bool.false_eq_true, if_false] at hj
    cases hcp : checkPath p with
    | error e => simp [hcp] at hj
    | ok x =>
      simp only [hcp] at hj
      injection hj with hj
      subst hj
      obtain ⟨hch, hs, auth, md, path, hd, ga, gm, na, nm, h1, h2, hpp⟩ := h
      have hlen : 8 ≤ u.bytes.length := by have := startsWith_length hs; simpa [rsyncScheme] using this
      -- the base bytes end in a slash exactly when the path is empty or ends in one
      have hb : u.bytes = u.bytes.take 8 ++ (auth ++ slash :: (md ++ slash :: path)) := by
        rw [← hd]; exact (List.take_append_drop 8 u.bytes).symm
      have hends : endsWithSlash u.bytes = (endsWithSlash path || decide (path = [])) := by
        rw [hb]
        rw [← List.append_assoc, endsWithSlash_append_cons, ← List.cons_append, endsWithSlash_append_cons]
        cases path with
        | nil => simp [endsWithSlash]
        | cons c cs =>
          have := endsWithSlash_append_cons [slash] c cs
          simp only [List.singleton_append] at this
          rw [this]; simp
      -- the new path
      let np := if endsWithSlash path ∨ path = [] then path ++ p else path ++ slash :: p
      have hnew : (if endsWithSlash u.bytes = true then u.bytes else u.bytes ++ [slash]) ++ p
          = u.bytes.take 8 ++ (auth ++ slash :: (md ++ slash :: np)) := by
        rw [hends]
        by_cases he : endsWithSlash path ∨ path = []
        · have : (endsWithSlash path || decide (path = [])) = true := by
            rcases he with e | e <;> simp [e]
          simp only [this, if_true, np, he]
          conv => lhs; rw [hb]
          simp [List.append_assoc]
        · have : (endsWithSlash path || decide (path = [])) = false := by
            simp only [not_or] at he; simp [he.1, he.2]
          simp only [this, Bool.false_eq_true, if_false, np, he]
          conv => lhs; rw [hb]
          simp [List.append_assoc]
      refine ⟨?_, ?_, auth, md, np, ?_, ga, gm, na, nm, h1, h2, ?_⟩
      · -- characters
        simp only
        unfold checkUriAscii at *
        split <;> simp [List.all_append, hch, hc, isUriAscii, inRanges, uriAsciiRanges, slash]
      · simp only
        split
        · exact startsWith_append _ hs
        · rw [List.append_assoc]; exact startsWith_append _ hs
      · simp only
        rw [hnew]
        have : (u.bytes.take 8).length = 8 := by simp; omega
        rw [List.drop_left' this]
      · exact checkItems_join path p hpp (by unfold checkPath at hcp; exact hcp)

end Rpki.Uri
