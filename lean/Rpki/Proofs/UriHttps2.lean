import Rpki.Proofs.UriHttps
namespace Rpki.Uri
open Rpki.Consts

/-! ### `Https::parent` keeps the invariant and the authority -/

/-- cutting the text at or after the first slash following the scheme does not move that slash -/
theorem findSlashFrom_take (b : Bytes) (n : Nat) (hn : findSlashFrom b 8 ≤ n) :
    findSlashFrom (b.take n) 8 = findSlashFrom b 8 := by
  unfold findSlashFrom at *
  rw [List.drop_take, List.findIdx?_take]
  cases hf : (b.drop 8).findIdx? (· = slash) with
  | none =>
    rw [hf] at hn
    simp only at hn
    simp only [Option.bind_none, List.length_take]
    omega
  | some i =>
    rw [hf] at hn
    simp only at hn
    have hi := (List.findIdx?_eq_some_iff_getElem.1 hf).1
    simp only [List.length_drop] at hi
    by_cases hlt : i < n - 8
    · simp [Option.guard, hlt]
    · simp only [Option.bind_some, Option.guard, hlt, decide_false, Bool.false_eq_true, if_false,
        List.length_take]
      omega

/-- the shape of `parent`: the text cut at or after the start of the path -/
theorem Https.parent_shape (u v : Https) (hp : u.parent = some v) :
    ∃ k, v = { u with uri := u.uri.take (u.pathIdx + k) } := by
  unfold Https.parent at hp
  simp only at hp
  generalize (if endsWithSlash u.path = true then List.take (u.path.length - 1) u.path else u.path) = sp at hp
  by_cases hne : sp = []
  · simp [hne] at hp
  · simp only [hne, if_false] at hp
    injection hp with hp
    cases hr : rfindSlash sp with
    | none => rw [hr] at hp; simp only at hp; exact ⟨0, by rw [← hp]; rfl⟩
    | some idx => rw [hr] at hp; simp only at hp; exact ⟨idx + 1, by rw [← hp, Nat.add_assoc]⟩

/-- The parent of a valid HTTPS URI is a valid HTTPS URI with the same authority offset. -/
theorem Https.parent_inv (u v : Https) (h : u.Inv) (hp : u.parent = some v) :
    v.Inv ∧ v.pathIdx = u.pathIdx := by
  obtain ⟨k, rfl⟩ := Https.parent_shape u v hp
  have hl := h.length_ge
  obtain ⟨hch, hs, hpi⟩ := h
  have hle := findSlashFrom_le u.uri 8 hl
  rw [← hpi] at hle
  refine ⟨⟨all_take _ hch, startsWith_take _ (by simp [httpsScheme]; omega) hs, ?_⟩, rfl⟩
  simp only
  rw [findSlashFrom_take _ _ (by rw [← hpi]; omega)]
  exact hpi

/-- … hence it re-parses to exactly the same value. -/
theorem Https.parent_reparse (u v : Https) (h : u.Inv) (hp : u.parent = some v) :
    Https.fromBytes v.uri = .ok v ∧ v.pathIdx = u.pathIdx :=
  ⟨(Https.fromBytes_ok_iff _ _).2 ⟨rfl, (Https.parent_inv u v h hp).1⟩, (Https.parent_inv u v h hp).2⟩

end Rpki.Uri
