import Rpki.Proofs.DerLemmas
import Rpki.Model.SigObj
namespace Rpki.SigObj
open Rpki.Der

/-- one CMS Attribute: SEQUENCE { OID, SET { value } } where `value` is a complete TLV -/
def attr (oid value : Bytes) : Bytes := tlv tagSeq (tlv tagOid oid ++ tlv tagSet value)

/-- identifier octet of a time value -/
def timeOctet : X509.TimeTag → Nat
  | .utc => tagUtcTime
  | .generalized => tagGenTime

/-! ### sizes -/

theorem encLen_length_le (n : Nat) : (encLen n).length ≤ 5 := by
  unfold encLen
  repeat' split
  all_goals simp

theorem tlv_length (t : Nat) (c : Bytes) : (tlv t c).length = 1 + (encLen c.length).length + c.length := by
  simp [tlv]; omega

theorem tlv_length_le (t : Nat) (c : Bytes) : (tlv t c).length ≤ c.length + 6 := by
  have := encLen_length_le c.length
  rw [tlv_length]; omega

theorem tlv_length_ge (t : Nat) (c : Bytes) : c.length + 2 ≤ (tlv t c).length := by
  have : 1 ≤ (encLen c.length).length := by
    unfold encLen
    repeat' split
    all_goals simp
  rw [tlv_length]; omega

/-! ### the value SETs -/

theorem takeSetOfOne_tlv (tag : Nat) (v : Bytes) (ht : tag % 32 ≠ 31) (hprim : isCons tag = false)
    (hv : v.length + 6 < 2 ^ 32) : takeSetOfOne tag (tlv tagSet (tlv tag v)) = some v := by
  have h1 := takeCons_tlv tagSet (tlv tag v) [] (by decide) (by decide)
    (by have := tlv_length_le tag v; omega)
  have h2 := takePrim_tlv tag v [] ht hprim (by omega)
  rw [List.append_nil] at h1 h2
  simp only [takeSetOfOne, h1, h2, ne_eq, not_true_eq_false, if_false, if_true]

theorem takeSetOfTime_tlv (tag : X509.TimeTag) (tc : Bytes) (hv : tc.length + 6 < 2 ^ 32) :
    takeSetOfTime (tlv tagSet (tlv (timeOctet tag) tc)) = X509.decodeTime tag tc := by
  have h1 := takeCons_tlv tagSet (tlv (timeOctet tag) tc) [] (by decide) (by decide)
    (by have := tlv_length_le (timeOctet tag) tc; omega)
  rw [List.append_nil] at h1
  cases tag with
  | utc =>
    have h2 := takeOptPrim_tlv tagUtcTime tc [] (by decide) (by decide) (by omega)
    rw [List.append_nil] at h2
    simp only [timeOctet] at h1 ⊢
    simp only [takeSetOfTime, h1, h2, ne_eq, not_true_eq_false, if_false, if_true]
  | generalized =>
    have h2 := takeOptPrim_other tagUtcTime tagGenTime tc [] (by decide) (by decide)
    have h3 := takeOptPrim_tlv tagGenTime tc [] (by decide) (by decide) (by omega)
    rw [List.append_nil] at h2 h3
    simp only [timeOctet] at h1 ⊢
    simp only [takeSetOfTime, h1, h2, h3, ne_eq, not_true_eq_false, if_false, if_true]

/-! ### one attribute -/

theorem takePrim_oid (oid x : Bytes) (h : oid.length < 2 ^ 32) :
    takePrim tagOid (tlv tagOid oid ++ x) = some (oid, x) :=
  takePrim_tlv tagOid oid x (by decide) (by decide) h

theorem parseAttr_ct' (strict : Bool) (p : Parsed) (ct : Bytes) (hv : ct.length + 6 < 2 ^ 32) :
    parseAttr strict p (tlv tagOid oidContentType ++ tlv tagSet (tlv tagOid ct)) =
      if p.ct.isSome then none else if oidOk ct then some { p with ct := some ct } else none := by
  have ho : oidOk oidContentType = true := by decide
  simp only [parseAttr, takePrim_oid oidContentType _ (by decide), ho, Bool.not_true,
    Bool.false_eq_true, if_false, if_true,
    takeSetOfOne_tlv tagOid ct (by decide) (by decide) hv]

theorem parseAttr_ct (strict : Bool) (p : Parsed) (ct : Bytes) (hct : oidOk ct = true)
    (hv : ct.length + 6 < 2 ^ 32) :
    parseAttr strict p (tlv tagOid oidContentType ++ tlv tagSet (tlv tagOid ct)) =
      if p.ct.isSome then none else some { p with ct := some ct } := by
  simp only [parseAttr_ct' strict p ct hv, hct, if_true]

theorem parseAttr_md (strict : Bool) (p : Parsed) (md : Bytes) (hv : md.length + 6 < 2 ^ 32) :
    parseAttr strict p (tlv tagOid oidMessageDigest ++ tlv tagSet (tlv tagOctetString md)) =
      if p.md.isSome then none else some { p with md := some md } := by
  have ho : oidOk oidMessageDigest = true := by decide
  have hne : oidMessageDigest ≠ oidContentType := by decide
  simp only [parseAttr, takePrim_oid oidMessageDigest _ (by decide), ho, Bool.not_true,
    Bool.false_eq_true, if_false, if_true, hne,
    takeSetOfOne_tlv tagOctetString md (by decide) (by decide) hv]

theorem parseAttr_st' (strict : Bool) (p : Parsed) (tag : X509.TimeTag) (tc : Bytes)
    (hv : tc.length + 6 < 2 ^ 32) :
    parseAttr strict p (tlv tagOid oidSigningTime ++ tlv tagSet (tlv (timeOctet tag) tc)) =
      if p.st.isSome then none
      else match X509.decodeTime tag tc with
        | some st => some { p with st := some st }
        | none => none := by
  have ho : oidOk oidSigningTime = true := by decide
  have hne : oidSigningTime ≠ oidContentType := by decide
  have hne' : oidSigningTime ≠ oidMessageDigest := by decide
  simp only [parseAttr, takePrim_oid oidSigningTime _ (by decide), ho, Bool.not_true,
    Bool.false_eq_true, if_false, if_true, hne, hne', takeSetOfTime_tlv tag tc hv]
  cases X509.decodeTime tag tc <;> rfl

theorem parseAttr_st (strict : Bool) (p : Parsed) (tag : X509.TimeTag) (tc : Bytes) (st : X509.Civil)
    (ht : X509.decodeTime tag tc = some st) (hv : tc.length + 6 < 2 ^ 32) :
    parseAttr strict p (tlv tagOid oidSigningTime ++ tlv tagSet (tlv (timeOctet tag) tc)) =
      if p.st.isSome then none else some { p with st := some st } := by
  simp only [parseAttr_st' strict p tag tc hv, ht]

/-! ### the loop over well-delimited attributes -/

/-- the attribute closure folded over the bodies of consecutive Attribute SEQUENCEs -/
def runAttrs (strict : Bool) : List Bytes → Parsed → Option Parsed
  | [], p => some p
  | b :: bs, p =>
    match parseAttr strict p b with
    | none => none
    | some p' => runAttrs strict bs p'

theorem parseLoop_nil (strict : Bool) (fuel : Nat) (p : Parsed) : parseLoop strict fuel [] p = some p := by
  cases fuel <;> simp [parseLoop, takeOptCons]

theorem parseLoop_step (strict : Bool) (fuel : Nat) (body rest : Bytes) (p : Parsed)
    (hb : body.length < 2 ^ 32) :
    parseLoop strict (fuel + 1) (tlv tagSeq body ++ rest) p =
      match parseAttr strict p body with
      | none => none
      | some p' => parseLoop strict fuel rest p' := by
  simp only [parseLoop, takeOptCons_tlv tagSeq body rest (by decide) (by decide) hb]
  cases parseAttr strict p body <;> rfl

theorem parseLoop_bodies (strict : Bool) : ∀ (bodies : List Bytes) (fuel : Nat) (rest : Bytes) (p : Parsed),
    (∀ b ∈ bodies, b.length < 2 ^ 32) → bodies.length ≤ fuel →
    parseLoop strict fuel ((bodies.map (tlv tagSeq)).flatten ++ rest) p =
      match runAttrs strict bodies p with
      | none => none
      | some p' => parseLoop strict (fuel - bodies.length) rest p' := by
  intro bodies
  induction bodies with
  | nil => intro fuel rest p _ _; simp [runAttrs]
  | cons b bs ih =>
    intro fuel rest p hb hf
    cases fuel with
    | zero => simp at hf
    | succ f =>
      have hb1 : b.length < 2 ^ 32 := hb b (List.mem_cons_self ..)
      have hbs : ∀ x ∈ bs, x.length < 2 ^ 32 := fun x hx => hb x (List.mem_cons_of_mem _ hx)
      have hf' : bs.length ≤ f := by simpa using hf
      simp only [List.map_cons, List.flatten_cons, List.append_assoc, List.length_cons,
        Nat.add_sub_add_right, runAttrs]
      rw [parseLoop_step strict f b _ p hb1]
      cases parseAttr strict p b with
      | none => rfl
      | some p' => exact ih f rest p' hbs hf'

theorem bodies_length_le (bodies : List Bytes) :
    bodies.length ≤ ((bodies.map (tlv tagSeq)).flatten).length := by
  induction bodies with
  | nil => simp
  | cons b bs ih =>
    have := tlv_length_ge tagSeq b
    simp only [List.map_cons, List.flatten_cons, List.length_append, List.length_cons]
    omega

/-- `parseAttrs` on consecutive Attribute SEQUENCEs followed by arbitrary octets `rest`:
if the fold over the bodies fails, so does the parser -/
theorem parseAttrs_bodies_none (strict : Bool) (bodies : List Bytes) (rest : Bytes)
    (hb : ∀ b ∈ bodies, b.length < 2 ^ 32) (h : runAttrs strict bodies {} = none) :
    parseAttrs strict ((bodies.map (tlv tagSeq)).flatten ++ rest) = none := by
  have hf : bodies.length ≤ ((bodies.map (tlv tagSeq)).flatten ++ rest).length := by
    have := bodies_length_le bodies
    simp only [List.length_append]; omega
  simp only [parseAttrs, parseLoop_bodies strict bodies _ rest {} hb hf, h]

theorem parseAttrs_bodies (strict : Bool) (bodies : List Bytes)
    (hb : ∀ b ∈ bodies, b.length < 2 ^ 32) :
    parseAttrs strict ((bodies.map (tlv tagSeq)).flatten) =
      match runAttrs strict bodies {} with
      | none => none
      | some p =>
        if ((bodies.map (tlv tagSeq)).flatten).length > 0xFFFF then none
        else match p.md, p.ct, p.st with
          | some md, some ct, some st => some (ct, md, st)
          | _, _, _ => none := by
  have hf := bodies_length_le bodies
  have h := parseLoop_bodies strict bodies _ [] {} hb hf
  rw [List.append_nil] at h
  simp only [parseAttrs, h, parseLoop_nil]
  cases runAttrs strict bodies {} <;> rfl

/-! ### permutations of two and three elements -/

theorem perm2 {α : Type} {a b : α} {l : List α} (h : l.Perm [a, b]) : l = [a, b] ∨ l = [b, a] := by
  have hl := h.length_eq
  match l, hl with
  | [x, y], _ =>
    have hx : x ∈ [a, b] := h.subset (List.mem_cons_self ..)
    simp only [List.mem_cons, List.not_mem_nil, or_false] at hx
    rcases hx with rfl | rfl
    · have h' := List.Perm.cons_inv h
      have := List.singleton_perm_singleton.1 h'
      subst this; exact Or.inl rfl
    · have h' : [x, y].Perm [x, a] := h.trans (List.Perm.swap ..)
      have := List.singleton_perm_singleton.1 (List.Perm.cons_inv h')
      subst this; exact Or.inr rfl

theorem perm3 {α : Type} {a b c : α} {l : List α} (h : l.Perm [a, b, c]) :
    l = [a, b, c] ∨ l = [a, c, b] ∨ l = [b, a, c] ∨ l = [b, c, a] ∨ l = [c, a, b] ∨ l = [c, b, a] := by
  have hl := h.length_eq
  match l, hl with
  | [x, y, z], _ =>
    have hx : x ∈ [a, b, c] := h.subset (List.mem_cons_self ..)
    simp only [List.mem_cons, List.not_mem_nil, or_false] at hx
    rcases hx with rfl | rfl | rfl
    · rcases perm2 (List.Perm.cons_inv h) with e | e <;> (injection e with e1 e2; injection e2 with e2 _; subst e1 e2; simp)
    · have h' : [x, y, z].Perm [x, a, c] := h.trans (List.Perm.swap ..)
      rcases perm2 (List.Perm.cons_inv h') with e | e <;> (injection e with e1 e2; injection e2 with e2 _; subst e1 e2; simp)
    · have h' : [x, y, z].Perm [x, a, b] :=
        h.trans (((List.Perm.swap ..).cons a).trans (List.Perm.swap ..))
      rcases perm2 (List.Perm.cons_inv h') with e | e <;> (injection e with e1 e2; injection e2 with e2 _; subst e1 e2; simp)

/-! ### the three standard attributes in any order -/

theorem body_length_le (oid v : Bytes) (t : Nat) :
    (tlv tagOid oid ++ tlv tagSet (tlv t v)).length ≤ oid.length + v.length + 18 := by
  have h1 := tlv_length_le tagOid oid
  have h2 := tlv_length_le tagSet (tlv t v)
  have h3 := tlv_length_le t v
  simp only [List.length_append]; omega

theorem attr_length_ge (oid v : Bytes) (t : Nat) : v.length ≤ (attr oid (tlv t v)).length := by
  have h0 := tlv_length_ge tagSeq (tlv tagOid oid ++ tlv tagSet (tlv t v))
  have h2 := tlv_length_ge tagSet (tlv t v)
  have h3 := tlv_length_ge t v
  simp only [List.length_append] at h0
  simp only [attr]; omega

theorem flatten3 (a b c : Bytes) :
    [tlv tagSeq a, tlv tagSeq b, tlv tagSeq c].flatten = ([a, b, c].map (tlv tagSeq)).flatten := rfl

theorem flatten2 (a b : Bytes) :
    [tlv tagSeq a, tlv tagSeq b].flatten = ([a, b].map (tlv tagSeq)).flatten := rfl

/-- The three standard signed attributes are accepted in any order, with the same result, as long
as the whole attribute set fits the 16-bit length the parser insists on (`hlen` is exactly the
parser's own size condition, so it is necessary as well). -/
theorem parseAttrs_any_order_of_length (strict : Bool) (ct md tc : Bytes) (tag : X509.TimeTag)
    (st : X509.Civil) (hct : oidOk ct = true) (ht : X509.decodeTime tag tc = some st)
    (l : List Bytes)
    (hperm : l.Perm [attr oidContentType (tlv tagOid ct),
                     attr oidMessageDigest (tlv tagOctetString md),
                     attr oidSigningTime (tlv (timeOctet tag) tc)])
    (hlen : l.flatten.length ≤ 0xFFFF) :
    parseAttrs strict l.flatten = some (ct, md, st) := by
  have g1 := attr_length_ge oidContentType ct tagOid
  have g2 := attr_length_ge oidMessageDigest md tagOctetString
  have g3 := attr_length_ge oidSigningTime tc (timeOctet tag)
  have hsz : ct.length ≤ 0xFFFF ∧ md.length ≤ 0xFFFF ∧ tc.length ≤ 0xFFFF := by
    rcases perm3 hperm with rfl | rfl | rfl | rfl | rfl | rfl <;>
      (simp only [List.flatten_cons, List.flatten_nil, List.length_append, List.length_nil] at hlen
       omega)
  obtain ⟨s1, s2, s3⟩ := hsz
  have pct := fun p => parseAttr_ct strict p ct hct (by omega)
  have pmd := fun p => parseAttr_md strict p md (by omega)
  have pst := fun p => parseAttr_st strict p tag tc st ht (by omega)
  rcases perm3 hperm with rfl | rfl | rfl | rfl | rfl | rfl
  all_goals
    simp only [attr] at hlen ⊢
    rw [flatten3] at hlen ⊢
    have hn := Nat.not_lt.2 hlen
    rw [parseAttrs_bodies strict _ (by
      intro b hb
      simp only [List.mem_cons, List.not_mem_nil, or_false] at hb
      rcases hb with rfl | rfl | rfl <;>
        (refine Nat.lt_of_le_of_lt (body_length_le _ _ _) ?_
         simp only [oidContentType, oidMessageDigest, oidSigningTime, List.length_cons,
           List.length_nil]
         omega))]
    simp only [runAttrs, pct, pmd, pst, Option.isSome_none, Bool.false_eq_true,
      if_false, gt_iff_lt, hn]

theorem attr_length_le (oid v : Bytes) (t : Nat) :
    (attr oid (tlv t v)).length ≤ oid.length + v.length + 24 := by
  have h0 := tlv_length_le tagSeq (tlv tagOid oid ++ tlv tagSet (tlv t v))
  have h1 := body_length_le oid v t
  simp only [attr]; omega

/-- The statement with a plain size bound on the three values (the attribute set then stays below
the 65535 octets the parser allows). -/
theorem parseAttrs_any_order (strict : Bool) (ct md tc : Bytes) (tag : X509.TimeTag) (st : X509.Civil)
    (hct : oidOk ct = true) (ht : X509.decodeTime tag tc = some st)
    (hsize : ct.length + md.length + tc.length ≤ 65400)
    (l : List Bytes)
    (hperm : l.Perm [attr oidContentType (tlv tagOid ct),
                     attr oidMessageDigest (tlv tagOctetString md),
                     attr oidSigningTime
                       (tlv (match (generalizing := false) tag with
                             | .utc => tagUtcTime | .generalized => tagGenTime) tc)]) :
    parseAttrs strict l.flatten = some (ct, md, st) := by
  have e : (match (generalizing := false) tag with
                             | .utc => tagUtcTime | .generalized => tagGenTime) = timeOctet tag := by
    cases tag <;> rfl
  rw [e] at hperm
  refine parseAttrs_any_order_of_length strict ct md tc tag st hct ht l hperm ?_
  have g1 := attr_length_le oidContentType ct tagOid
  have g2 := attr_length_le oidMessageDigest md tagOctetString
  have g3 := attr_length_le oidSigningTime tc (timeOctet tag)
  simp only [oidContentType, oidMessageDigest, oidSigningTime, List.length_cons, List.length_nil]
    at g1 g2 g3
  rcases perm3 hperm with rfl | rfl | rfl | rfl | rfl | rfl <;>
    (simp only [List.flatten_cons, List.flatten_nil, List.length_append, List.length_nil]
     simp only [oidContentType, oidMessageDigest, oidSigningTime]
     omega)

/-- more than 65535 octets of signed attributes are never accepted -/
theorem parseAttrs_too_long (strict : Bool) (attrs : Bytes) (h : attrs.length > 0xFFFF) :
    parseAttrs strict attrs = none := by
  unfold parseAttrs
  cases parseLoop strict attrs.length attrs {} with
  | none => rfl
  | some p => simp only [h, if_true]

/-! ### a missing attribute -/

/-- With only two of the three standard attributes (whichever one is left out, in either order)
the parser rejects.  No hypothesis on the values is needed. -/
theorem parseAttrs_missing (strict : Bool) (ct md tc : Bytes) (tag : X509.TimeTag)
    (i : Fin 3) (l : List Bytes)
    (hperm : l.Perm ([attr oidContentType (tlv tagOid ct),
                      attr oidMessageDigest (tlv tagOctetString md),
                      attr oidSigningTime (tlv (timeOctet tag) tc)].eraseIdx i)) :
    parseAttrs strict l.flatten = none := by
  by_cases hlen : l.flatten.length > 0xFFFF
  · exact parseAttrs_too_long strict _ hlen
  have hlen : l.flatten.length ≤ 0xFFFF := Nat.le_of_not_lt hlen
  have g1 := attr_length_ge oidContentType ct tagOid
  have g2 := attr_length_ge oidMessageDigest md tagOctetString
  have g3 := attr_length_ge oidSigningTime tc (timeOctet tag)
  match i, hperm with
  | ⟨0, _⟩, hperm =>
    have hperm : l.Perm [attr oidMessageDigest (tlv tagOctetString md),
      attr oidSigningTime (tlv (timeOctet tag) tc)] := hperm
    have hsz : md.length ≤ 0xFFFF ∧ tc.length ≤ 0xFFFF := by
      rcases perm2 hperm with rfl | rfl <;>
        (simp only [List.flatten_cons, List.flatten_nil, List.length_append, List.length_nil] at hlen
         omega)
    obtain ⟨s2, s3⟩ := hsz
    have pmd := fun p => parseAttr_md strict p md (by omega)
    have pst := fun p => parseAttr_st' strict p tag tc (by omega)
    rcases perm2 hperm with rfl | rfl
    all_goals
      simp only [attr] at hlen ⊢
      rw [flatten2] at hlen ⊢
      rw [parseAttrs_bodies strict _ (by
        intro b hb
        simp only [List.mem_cons, List.not_mem_nil, or_false] at hb
        rcases hb with rfl | rfl <;>
          (refine Nat.lt_of_le_of_lt (body_length_le _ _ _) ?_
           simp only [oidMessageDigest, oidSigningTime, List.length_cons,
             List.length_nil]
           omega))]
      simp only [runAttrs, pmd, pst, Option.isSome_none, Bool.false_eq_true, if_false]
      cases X509.decodeTime tag tc <;> simp
  | ⟨1, _⟩, hperm =>
    have hperm : l.Perm [attr oidContentType (tlv tagOid ct),
      attr oidSigningTime (tlv (timeOctet tag) tc)] := hperm
    have hsz : ct.length ≤ 0xFFFF ∧ tc.length ≤ 0xFFFF := by
      rcases perm2 hperm with rfl | rfl <;>
        (simp only [List.flatten_cons, List.flatten_nil, List.length_append, List.length_nil] at hlen
         omega)
    obtain ⟨s1, s3⟩ := hsz
    have pct := fun p => parseAttr_ct' strict p ct (by omega)
    have pst := fun p => parseAttr_st' strict p tag tc (by omega)
    rcases perm2 hperm with rfl | rfl
    all_goals
      simp only [attr] at hlen ⊢
      rw [flatten2] at hlen ⊢
      rw [parseAttrs_bodies strict _ (by
        intro b hb
        simp only [List.mem_cons, List.not_mem_nil, or_false] at hb
        rcases hb with rfl | rfl <;>
          (refine Nat.lt_of_le_of_lt (body_length_le _ _ _) ?_
           simp only [oidContentType, oidSigningTime, List.length_cons,
             List.length_nil]
           omega))]
      simp only [runAttrs, pct, pst, Option.isSome_none, Bool.false_eq_true, if_false]
      cases X509.decodeTime tag tc <;> cases oidOk ct <;> simp
  | ⟨2, _⟩, hperm =>
    have hperm : l.Perm [attr oidContentType (tlv tagOid ct),
      attr oidMessageDigest (tlv tagOctetString md)] := hperm
    have hsz : ct.length ≤ 0xFFFF ∧ md.length ≤ 0xFFFF := by
      rcases perm2 hperm with rfl | rfl <;>
        (simp only [List.flatten_cons, List.flatten_nil, List.length_append, List.length_nil] at hlen
         omega)
    obtain ⟨s1, s2⟩ := hsz
    have pct := fun p => parseAttr_ct' strict p ct (by omega)
    have pmd := fun p => parseAttr_md strict p md (by omega)
    rcases perm2 hperm with rfl | rfl
    all_goals
      simp only [attr] at hlen ⊢
      rw [flatten2] at hlen ⊢
      rw [parseAttrs_bodies strict _ (by
        intro b hb
        simp only [List.mem_cons, List.not_mem_nil, or_false] at hb
        rcases hb with rfl | rfl <;>
          (refine Nat.lt_of_le_of_lt (body_length_le _ _ _) ?_
           simp only [oidContentType, oidMessageDigest, List.length_cons,
             List.length_nil]
           omega))]
      simp only [runAttrs, pct, pmd, Option.isSome_none, Bool.false_eq_true, if_false]
      cases oidOk ct <;> simp

/-! ### a repeated attribute -/

/-- the three attribute kinds the parser records -/
inductive Kind | ct | md | st
deriving DecidableEq, Repr

def Kind.oid : Kind → Bytes
  | .ct => oidContentType
  | .md => oidMessageDigest
  | .st => oidSigningTime

def Kind.isSet : Kind → Parsed → Bool
  | .ct, p => p.ct.isSome
  | .md, p => p.md.isSome
  | .st, p => p.st.isSome

/-- the closure never forgets an attribute it has seen -/
theorem parseAttr_mono (strict : Bool) (k : Kind) (p p' : Parsed) (body : Bytes)
    (h : parseAttr strict p body = some p') (hk : k.isSet p = true) : k.isSet p' = true := by
  unfold parseAttr at h
  repeat' split at h
  all_goals try (cases h; done)
  all_goals (injection h with h; subst h; cases k <;> simp_all [Kind.isSet])

/-- an attribute whose type is one of the three OIDs is refused when that attribute has been seen,
and marks it as seen otherwise (whatever follows the OID in the attribute) -/
theorem parseAttr_head (strict : Bool) (k : Kind) (p p' : Parsed) (x : Bytes)
    (h : parseAttr strict p (tlv tagOid k.oid ++ x) = some p') :
    k.isSet p = false ∧ k.isSet p' = true := by
  have ho1 : oidOk oidContentType = true := by decide
  have ho2 : oidOk oidMessageDigest = true := by decide
  have ho3 : oidOk oidSigningTime = true := by decide
  have hne : oidMessageDigest ≠ oidContentType := by decide
  have hne1 : oidSigningTime ≠ oidContentType := by decide
  have hne2 : oidSigningTime ≠ oidMessageDigest := by decide
  cases k with
  | ct =>
    simp only [Kind.oid, parseAttr, takePrim_oid oidContentType _ (by decide), ho1, Bool.not_true,
      Bool.false_eq_true, if_false, if_true] at h
    repeat' split at h
    all_goals try (cases h; done)
    all_goals (injection h with h; subst h; simp_all [Kind.isSet])
  | md =>
    simp only [Kind.oid, parseAttr, takePrim_oid oidMessageDigest _ (by decide), ho2, Bool.not_true,
      Bool.false_eq_true, if_false, if_true, hne] at h
    repeat' split at h
    all_goals try (cases h; done)
    all_goals (injection h with h; subst h; simp_all [Kind.isSet])
  | st =>
    simp only [Kind.oid, parseAttr, takePrim_oid oidSigningTime _ (by decide), ho3, Bool.not_true,
      Bool.false_eq_true, if_false, if_true, hne1, hne2] at h
    repeat' split at h
    all_goals try (cases h; done)
    all_goals (injection h with h; subst h; simp_all [Kind.isSet])

/-- once an attribute has been seen, a later attribute with the same OID makes the fold fail,
whatever attributes come in between -/
theorem runAttrs_seen (strict : Bool) (k : Kind) (x : Bytes) (post : List Bytes) :
    ∀ (mid : List Bytes) (p : Parsed), k.isSet p = true →
      runAttrs strict (mid ++ (tlv tagOid k.oid ++ x) :: post) p = none := by
  intro mid
  induction mid with
  | nil =>
    intro p hk
    simp only [List.nil_append, runAttrs]
    cases h : parseAttr strict p (tlv tagOid k.oid ++ x) with
    | none => rfl
    | some p' => have := (parseAttr_head strict k p p' x h).1; simp [hk] at this
  | cons m ms ih =>
    intro p hk
    simp only [List.cons_append, runAttrs]
    cases h : parseAttr strict p m with
    | none => rfl
    | some p' => exact ih p' (parseAttr_mono strict k p p' m h hk)

theorem runAttrs_dup (strict : Bool) (k : Kind) (x1 x2 : Bytes) (mid post : List Bytes) :
    ∀ (pre : List Bytes) (p : Parsed),
      runAttrs strict (pre ++ (tlv tagOid k.oid ++ x1) :: (mid ++ (tlv tagOid k.oid ++ x2) :: post)) p
        = none := by
  intro pre
  induction pre with
  | nil =>
    intro p
    simp only [List.nil_append, runAttrs]
    cases h : parseAttr strict p (tlv tagOid k.oid ++ x1) with
    | none => rfl
    | some p' => exact runAttrs_seen strict k x2 post mid p' (parseAttr_head strict k p p' x1 h).2
  | cons m ms ih =>
    intro p
    simp only [List.cons_append, runAttrs]
    cases h : parseAttr strict p m with
    | none => rfl
    | some p' => exact ih p'

/-- What is proved about duplicates: take ANY sequence of well-delimited Attribute SEQUENCEs
(`pre`, `mid`: the content octets of arbitrary attributes, known or unknown, valid or not) and two
attributes whose type is the same one of the three standard OIDs `k.oid`, with arbitrary octets
`x1`, `x2` after the OID (so the two values may differ and need not even be well formed), followed
by arbitrary octets `post`.  The parser rejects, in strict and in relaxed mode.  The only side
condition is that every attribute body is shorter than 2^32 octets (the TLV round trip). -/
theorem parseAttrs_duplicate (strict : Bool) (k : Kind) (pre mid : List Bytes) (x1 x2 post : Bytes)
    (hpre : ∀ b ∈ pre, b.length < 2 ^ 32) (hmid : ∀ b ∈ mid, b.length < 2 ^ 32)
    (h1 : x1.length < 2 ^ 31) (h2 : x2.length < 2 ^ 31) :
    parseAttrs strict
      ((pre.map (tlv tagSeq)).flatten ++ tlv tagSeq (tlv tagOid k.oid ++ x1) ++
       (mid.map (tlv tagSeq)).flatten ++ tlv tagSeq (tlv tagOid k.oid ++ x2) ++ post) = none := by
  have hk : (tlv tagOid k.oid).length ≤ 15 := by
    have := tlv_length_le tagOid k.oid
    have : k.oid.length = 9 := by cases k <;> rfl
    omega
  have e : (pre.map (tlv tagSeq)).flatten ++ tlv tagSeq (tlv tagOid k.oid ++ x1) ++
       (mid.map (tlv tagSeq)).flatten ++ tlv tagSeq (tlv tagOid k.oid ++ x2) ++ post =
      ((pre ++ (tlv tagOid k.oid ++ x1) :: (mid ++ (tlv tagOid k.oid ++ x2) :: [])).map
        (tlv tagSeq)).flatten ++ post := by
    simp only [List.map_append, List.map_cons, List.map_nil, List.flatten_append, List.flatten_cons,
      List.flatten_nil, List.append_assoc, List.append_nil]
  rw [e]
  refine parseAttrs_bodies_none strict _ post ?_ (runAttrs_dup strict k x1 x2 mid [] pre {})
  intro b hb
  simp only [List.mem_append, List.mem_cons, List.not_mem_nil, or_false] at hb
  rcases hb with hb | rfl | hb | rfl
  · exact hpre b hb
  · simp only [List.length_append]; omega
  · exact hmid b hb
  · simp only [List.length_append]; omega

/-- the special case of the standard attributes: one of them repeated (possibly with another
value), anywhere among further attributes -/
theorem parseAttrs_duplicate_attr (strict : Bool) (k : Kind) (pre mid : List Bytes) (v1 v2 post : Bytes)
    (hpre : ∀ b ∈ pre, b.length < 2 ^ 32) (hmid : ∀ b ∈ mid, b.length < 2 ^ 32)
    (h1 : v1.length < 2 ^ 30) (h2 : v2.length < 2 ^ 30) :
    parseAttrs strict
      ((pre.map (tlv tagSeq)).flatten ++ attr k.oid v1 ++
       (mid.map (tlv tagSeq)).flatten ++ attr k.oid v2 ++ post) = none := by
  have g1 := tlv_length_le tagSet v1
  have g2 := tlv_length_le tagSet v2
  exact parseAttrs_duplicate strict k pre mid _ _ post hpre hmid (by omega) (by omega)

end Rpki.SigObj
