/-
  `CsrDer.decodeCsr false` reads back what `CsrEnc.encodeCsr` writes (`Csr::construct_rpki_ca` / `RpkiCaCsr::decode`).
-/
import Rpki.Model.CsrEnc
import Rpki.Proofs.CertEncLemmas
import Rpki.Proofs.CertEncCert
import Rpki.Proofs.CmsEncLemmas
namespace Rpki.CsrEnc
open Rpki.Der Rpki.CertDer Rpki.CsrDer Rpki.CertEnc Rpki.Consts

theorem takeOptBool_false (rest : Bytes) : takeOptBool (tlv tagBool [0] ++ rest) = .ok false rest := by
  unfold takeOptBool
  rw [takeOptPrim_tlv' tagBool [0] _ (by decide) (by decide)]
  simp

/-- the reader of one requested extension on what `Csr::extension` writes: the value goes to the reader of
that extension -/
theorem csrExtension_body (e : Exts) (oid : Bytes) (crit : Bool) (v : Bytes) (ho : oidOk oid = true) :
    csrExtension e (csrExtBody oid crit v) =
      (if oid = oidBasicConstraints then xBasicConstraints e true v
       else if oid = oidKeyUsage then xKeyUsage e true v
       else if oid = oidExtKeyUsage then xExtKeyUsage e false v
       else if oid = oidSubjectInfoAccess then xSubjectInfoAccess e false v
       else none) := by
  unfold csrExtension csrExtBody
  rw [List.append_assoc, takeOid_tlv oid _ ho]
  cases crit with
  | true =>
    simp only [if_true, takeOptBool_true, takePrim_tlv_nil tagOctetString _ (by decide) (by decide)]
    simp
  | false =>
    simp only [Bool.false_eq_true, if_false, takeOptBool_false, takePrim_tlv_nil tagOctetString _ (by decide) (by decide)]
    simp

structure WF (subject : Bytes) (unused : Nat) (bits repo mft : Bytes) (notify : Option Bytes) : Prop where
  subject : NameOk subject
  key : Manifest.bitStringTake (unused :: bits) = some (unused, bits)
  sia : SiaOk (csrSia repo mft notify)

theorem csrExtItems_fold (repo mft : Bytes) (notify : Option Bytes) (h : SiaOk (csrSia repo mft notify)) :
    (csrExtItems repo mft notify).foldlM csrExtension {} =
      some { basicCa := some true, keyUsage := some .ca, sia := some (csrSia repo mft notify) } := by
  unfold csrExtItems
  have h1 : ¬ oidKeyUsage = oidBasicConstraints := by decide
  have h2 : ¬ oidSubjectInfoAccess = oidBasicConstraints := by decide
  have h3 : ¬ oidSubjectInfoAccess = oidKeyUsage := by decide
  have h4 : ¬ oidSubjectInfoAccess = oidExtKeyUsage := by decide
  have hbc := xBasicConstraints_enc {} true rfl
  simp only [if_true] at hbc
  have hku := xKeyUsage_enc { basicCa := some true } .ca rfl
  have hsia := xSubjectInfoAccess_enc { basicCa := some true, keyUsage := some .ca } (csrSia repo mft notify) h
    (Or.inl rfl) rfl
  simp only [List.foldlM_cons, List.foldlM_nil, csrExtension_body _ _ _ _ (by decide : oidOk oidBasicConstraints = true),
    csrExtension_body _ _ _ _ (by decide : oidOk oidKeyUsage = true),
    csrExtension_body _ _ _ _ (by decide : oidOk oidSubjectInfoAccess = true), if_true, h1, h2, h3, h4, if_false, hbc,
    Option.bind_eq_bind, Option.bind_some, hku, hsia, pure]

end Rpki.CsrEnc

namespace Rpki.CsrEnc
open Rpki.Der Rpki.CertDer Rpki.CsrDer Rpki.CertEnc Rpki.Consts

theorem takeAttrs_enc (repo mft : Bytes) (notify : Option Bytes) (h : SiaOk (csrSia repo mft notify)) :
    takeAttrs (tlv 0xA0 (tlv tagSeq (tlv tagOid oidExtensionRequest ++
      tlv tagSet (tlv tagSeq (seqs (csrExtItems repo mft notify)))))) =
      some ({ basicCa := some true, keyUsage := some .ca, sia := some (csrSia repo mft notify) }, []) := by
  unfold takeAttrs
  rw [takeCons_tlv_nil 0xA0 _ (by decide) (by decide)]
  dsimp only
  rw [takeCons_tlv_nil tagSeq _ (by decide) (by decide)]
  dsimp only
  rw [takeOid_tlv oidExtensionRequest _ (by decide)]
  dsimp only
  simp only [ne_eq, not_true_eq_false, if_false]
  rw [takeCons_tlv_nil tagSet _ (by decide) (by decide)]
  dsimp only
  rw [takeCons_tlv_nil tagSeq _ (by decide) (by decide)]
  dsimp only
  simp only [not_true_eq_false, or_self, if_false]
  unfold seqs
  rw [foldCons_items' tagSeq (by decide) (by decide) csrExtension _ {}, csrExtItems_fold repo mft notify h]

/-- what `decodeContent false` returns for the written request -/
def readBack (subject : Bytes) (alg : KeyAlg) (unused : Nat) (bits repo mft : Bytes) (notify : Option Bytes)
    (raw signature : Bytes) : CsrD :=
  { subject, keyAlg := alg, keyUnused := unused, keyBits := bits, basicCa := some true, keyUsage := some .ca,
    eku := none, ekuContent := [], sia := some (csrSia repo mft notify), tbs := raw, signature }

theorem decodeContent_enc (subject : Bytes) (alg : KeyAlg) (unused : Nat) (bits repo mft : Bytes) (notify : Option Bytes)
    (h : WF subject unused bits repo mft notify) (signature : Bytes) :
    decodeContent false (encodeContent subject alg unused bits repo mft notify) signature =
      some (readBack subject alg unused bits repo mft notify (encodeContent subject alg unused bits repo mft notify) signature) := by
  unfold decodeContent
  have e0 : encodeContent subject alg unused bits repo mft notify = tlv tagSeq (tlv tagInt [0] ++ (subject ++
      (publicKeyEnc alg unused bits ++ tlv 0xA0 (tlv tagSeq (tlv tagOid oidExtensionRequest ++
        tlv tagSet (tlv tagSeq (seqs (csrExtItems repo mft notify)))))))) := by
    unfold encodeContent; simp only [List.append_assoc]
  rw [e0, takeCons_tlv_nil tagSeq _ (by decide) (by decide)]
  dsimp only
  rw [CmsEnc.skipU8_enc]
  dsimp only
  rw [h.subject]
  dsimp only
  rw [takePublicKey_enc _ _ _ _ h.key]
  dsimp only
  rw [takeAttrs_enc repo mft notify h.sia]
  rfl

theorem encodeContent_forest (subject : Bytes) (alg : KeyAlg) (unused : Nat) (bits repo mft : Bytes) (notify : Option Bytes)
    (hs : Forest subject) :
    ∃ body, encodeContent subject alg unused bits repo mft notify = tlv tagSeq body ∧ Forest body := by
  refine ⟨_, rfl, ?_⟩
  refine forest_append (forest_append (forest_append ?_ hs) (forest_publicKey _ _ _)) ?_
  · exact forest_prim1 tagInt [0] (by decide) (by decide) (by decide)
  · refine forest_cons1 0xA0 _ (by decide) (by decide) (forest_cons1 tagSeq _ (by decide) (by decide)
      (forest_append (forest_prim1 tagOid _ (by decide) (by decide) (by decide))
        (forest_cons1 tagSet _ (by decide) (by decide) (forest_cons1 tagSeq _ (by decide) (by decide)
          (forest_seqs _ ?_)))))
    intro x hx
    unfold csrExtItems at hx
    simp only [List.mem_cons, List.mem_nil_iff, or_false] at hx
    have hb : ∀ oid crit v, Forest (csrExtBody oid crit v) := by
      intro oid crit v
      unfold csrExtBody
      exact forest_append (forest_append (forest_prim1 tagOid oid (by decide) (by decide) (by decide))
        (forest_prim1 tagBool _ (by decide) (by decide) (by decide)))
        (forest_prim1 tagOctetString v (by decide) (by decide) (by decide))
    rcases hx with rfl | rfl | rfl <;> exact hb _ _ _

/-- **`RpkiCaCsr::decode` reads back what `Csr::construct_rpki_ca` writes**: subject, key, the three requested
extensions with both (or all three) URIs, the signature; octets after the request are not looked at. -/
theorem decodeCsr_encodeCsr (subject : Bytes) (alg : KeyAlg) (unused : Nat) (bits repo mft : Bytes) (notify : Option Bytes)
    (h : WF subject unused bits repo mft notify) (hs : Forest subject) (signature rest : Bytes) :
    decodeCsr false (encodeCsr subject alg unused bits repo mft notify signature ++ rest) =
      some (readBack subject alg unused bits repo mft notify (encodeContent subject alg unused bits repo mft notify) signature) := by
  obtain ⟨body, hb, hf⟩ := encodeContent_forest subject alg unused bits repo mft notify hs
  unfold decodeCsr encodeCsr
  rw [AsDer.takeCons_tlv' tagSeq _ rest (by decide) (by decide)]
  dsimp only
  generalize hE : encodeContent subject alg unused bits repo mft notify = E at *
  have hne : E ++ sigAlgEnc ++ tlv tagBitString (0 :: signature) ≠ [] := by
    rw [hb]; simp [tlv]
  simp only [hne, if_false]
  have hskip : skipOne (E ++ sigAlgEnc ++ tlv tagBitString (0 :: signature)) =
      some (sigAlgEnc ++ tlv tagBitString (0 :: signature)) := by
    rw [List.append_assoc, hb]
    exact skipOne_cons tagSeq body _ (by decide) (by decide) hf
  rw [hskip]
  dsimp only
  have hraw : List.take ((E ++ sigAlgEnc ++ tlv tagBitString (0 :: signature)).length -
      (sigAlgEnc ++ tlv tagBitString (0 :: signature)).length)
      (E ++ sigAlgEnc ++ tlv tagBitString (0 :: signature)) = E := by
    rw [List.append_assoc, List.length_append, Nat.add_sub_cancel]
    exact List.take_left' rfl
  rw [hraw, takeSigAlg_enc]
  simp only [Bool.false_eq_true, if_false, Option.map_some]
  have hbs := takeBitString_enc 0 signature [] (by simp [Manifest.bitStringTake])
  rw [List.append_nil] at hbs
  rw [hbs]
  dsimp only
  simp only [ne_eq, not_true_eq_false, if_false]
  rw [← hE]
  exact decodeContent_enc subject alg unused bits repo mft notify h signature

end Rpki.CsrEnc
