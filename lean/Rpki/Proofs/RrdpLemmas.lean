import Rpki.Model.Rrdp
namespace Rpki.Rrdp

/-! ### C. origins -/

theorem hasMatchingOrigins_iff (base snapshot : Uri.Https) (deltas : List Uri.Https) :
    hasMatchingOrigins base snapshot deltas = true ↔
      eqAuthority base snapshot = true ∧ ∀ d ∈ deltas, eqAuthority base d = true := by
  unfold hasMatchingOrigins
  by_cases h1 : eqAuthority base snapshot = true
  · by_cases h2 : (deltas.any fun d => !eqAuthority base d) = true
    · simp only [h1, h2, Bool.not_true, Bool.false_eq_true, if_false, if_true, true_and, false_iff]
      intro hall
      rw [List.any_eq_true] at h2
      obtain ⟨d, hd, hb⟩ := h2
      rw [hall d hd] at hb
      exact absurd hb (by decide)
    · simp only [h1, h2, Bool.not_true, Bool.false_eq_true, if_false, true_and, true_iff]
      intro d hd
      cases hb : eqAuthority base d with
      | true => rfl
      | false =>
        exfalso; apply h2
        rw [List.any_eq_true]
        exact ⟨d, hd, by rw [hb]; rfl⟩
  · have h1' : eqAuthority base snapshot = false := by
      cases hb : eqAuthority base snapshot with
      | true => exact absurd hb h1
      | false => rfl
    simp [h1']

/-! ### A. delta chain -/

theorem mem_insertSorted (x a : Nat) : ∀ l : List Nat, a ∈ insertSorted x l ↔ a = x ∨ a ∈ l := by
  intro l
  induction l with
  | nil => simp [insertSorted]
  | cons y ys ih =>
    rw [insertSorted]
    split
    · simp
    · simp only [List.mem_cons, ih]
      constructor
      · rintro (h | h | h)
        · exact Or.inr (Or.inl h)
        · exact Or.inl h
        · exact Or.inr (Or.inr h)
      · rintro (h | h | h)
        · exact Or.inr (Or.inl h)
        · exact Or.inl h
        · exact Or.inr (Or.inr h)

theorem insertSorted_sorted (x : Nat) : ∀ l : List Nat, l.Pairwise (· ≤ ·) →
    (insertSorted x l).Pairwise (· ≤ ·) := by
  intro l
  induction l with
  | nil => intro _; simp [insertSorted]
  | cons y ys ih =>
    intro h
    rw [insertSorted]
    rw [List.pairwise_cons] at h
    split
    · rename_i hlt
      rw [List.pairwise_cons]
      refine ⟨?_, List.pairwise_cons.mpr h⟩
      intro a ha
      rcases List.mem_cons.mp ha with e | e
      · omega
      · have := h.1 a e; omega
    · rename_i hge
      rw [List.pairwise_cons]
      refine ⟨?_, ih h.2⟩
      intro a ha
      rcases (mem_insertSorted x a ys).mp ha with e | e
      · omega
      · exact h.1 a e

theorem insertSorted_perm (x : Nat) : ∀ l : List Nat, (insertSorted x l).Perm (x :: l) := by
  intro l
  induction l with
  | nil => simp [insertSorted]
  | cons y ys ih =>
    rw [insertSorted]
    split
    · exact List.Perm.refl _
    · exact ((List.Perm.cons y ih).trans (List.Perm.swap x y ys))

theorem sortSerials_sorted (l : List Nat) : (sortSerials l).Pairwise (· ≤ ·) := by
  induction l with
  | nil => simp [sortSerials]
  | cons x xs ih => rw [sortSerials]; exact insertSorted_sorted x _ ih

theorem sortSerials_perm (l : List Nat) : (sortSerials l).Perm l := by
  induction l with
  | nil => simp [sortSerials]
  | cons x xs ih => rw [sortSerials]; exact (insertSorted_perm x _).trans (List.Perm.cons x ih)

theorem sortSerials_length (l : List Nat) : (sortSerials l).length = l.length :=
  (sortSerials_perm l).length_eq

theorem retained_suffix (l : List Nat) (lim : Option Nat) :
    ∃ pre, sortSerials l = pre ++ retained l lim := by
  unfold retained
  cases lim with
  | none => exact ⟨[], rfl⟩
  | some k =>
    simp only
    split
    · exact ⟨(sortSerials l).take ((sortSerials l).length - k), (List.take_append_drop _ _).symm⟩
    · exact ⟨[], rfl⟩

theorem retained_sorted (l : List Nat) (lim : Option Nat) : (retained l lim).Pairwise (· ≤ ·) := by
  obtain ⟨pre, e⟩ := retained_suffix l lim
  have := sortSerials_sorted l
  rw [e, List.pairwise_append] at this
  exact this.2.1

theorem retained_length (l : List Nat) (lim : Option Nat) :
    (retained l lim).length = match lim with | some k => min k l.length | none => l.length := by
  unfold retained
  cases lim with
  | none => exact sortSerials_length l
  | some k =>
    simp only
    split
    · rename_i h
      rw [List.length_drop]
      rw [sortSerials_length] at h ⊢
      omega
    · rename_i h
      rw [sortSerials_length] at h ⊢
      omega

theorem mem_retained {l : List Nat} {lim : Option Nat} {s : Nat} (h : s ∈ retained l lim) : s ∈ l := by
  obtain ⟨pre, e⟩ := retained_suffix l lim
  apply (sortSerials_perm l).mem_iff.mp
  rw [e]
  exact List.mem_append_right _ h

theorem chainLoop_iff (last : Nat) (rest : List Nat) (h : ∀ s ∈ last :: rest, s ≤ u64Max) :
    ∃ b, chainLoop last rest = .ok b ∧ (b = true ↔ Consecutive (last :: rest)) := by
  induction rest generalizing last with
  | nil => exact ⟨true, by simp [chainLoop], by simp [Consecutive]⟩
  | cons d rest ih =>
    have hd : ∀ s ∈ d :: rest, s ≤ u64Max := fun s hs => h s (List.mem_cons_of_mem _ hs)
    have hdle : d ≤ u64Max := hd d (List.mem_cons_self)
    rw [chainLoop]
    simp only [Rpki.Consts.rrdpDeltaCheckedAdd, if_true]
    by_cases hc : last < u64Max ∧ last + 1 = d
    · rw [if_pos hc]
      obtain ⟨b, hb, hiff⟩ := ih d hd
      refine ⟨b, hb, ?_⟩
      rw [hiff]
      simp only [Consecutive]
      exact ⟨fun c => ⟨hc.2.symm, c⟩, fun c => c.2⟩
    · rw [if_neg hc]
      refine ⟨false, rfl, ?_⟩
      simp only [Consecutive, Bool.false_eq_true, false_iff]
      rintro ⟨e, _⟩
      apply hc
      exact ⟨by omega, e.symm⟩

/-- never panics, and reports success exactly when the retained serials are consecutive -/
theorem sortAndVerify_iff (serials : List Nat) (lim : Option Nat) (h : ∀ s ∈ serials, s ≤ u64Max) :
    ∃ b, sortAndVerify serials lim = .ok b ∧ (b = true ↔ Consecutive (retained serials lim)) := by
  unfold sortAndVerify
  have hm : ∀ s ∈ retained serials lim, s ≤ u64Max := fun s hs => h s (mem_retained hs)
  revert hm
  generalize retained serials lim = r
  intro hm
  cases r with
  | nil => exact ⟨true, rfl, by simp [Consecutive]⟩
  | cons first rest => exact chainLoop_iff first rest hm

/-! ### B. read budget -/

/-- every `fill` offers at most `B` octets (the buffer size) -/
def WF (B : Nat) (ops : List Op) : Prop := ∀ op ∈ ops, match op with | .fill a => a ≤ B | _ => True

/-- the invariant carried through a run: the trip is the saturated count of pulled octets, the
unconsumed rest of the buffer is at most `B`, and under a limit that can trip (`0 < limit < u64Max`)
pulled plus the unconsumed rest stays within `limit + B` -/
def Inv (B : Nat) (r : Run) : Prop :=
  r.c.trip = min r.pulled u64Max ∧ r.lastFill ≤ B ∧
  (0 < r.c.limit → r.c.limit < u64Max → r.pulled + r.lastFill ≤ r.c.limit + B)

/-- the condition of `WF` on one op -/
def OpOk (B : Nat) : Op → Prop
  | .fill a => a ≤ B
  | _ => True

theorem WF_cons {B : Nat} {op : Op} {ops : List Op} (h : WF B (op :: ops)) :
    OpOk B op ∧ WF B ops := by
  refine ⟨?_, fun o ho => h o (List.mem_cons_of_mem _ ho)⟩
  have := h op List.mem_cons_self
  cases op <;> exact this

theorem WF_mono {B B' : Nat} (hB : B ≤ B') {ops : List Op} (h : WF B ops) : WF B' ops := by
  intro op hop
  have := h op hop
  cases op with
  | fill a => exact Nat.le_trans this hB
  | consume a => trivial
  | reset l => trivial

theorem fillOk_false_iff (c : Counter) : c.fillOk = false ↔ (0 < c.limit ∧ c.limit < c.trip) := by
  simp [Counter.fillOk]

theorem fillOk_true_iff (c : Counter) : c.fillOk = true ↔ ¬ (0 < c.limit ∧ c.limit < c.trip) := by
  rw [← fillOk_false_iff]; cases c.fillOk <;> simp

/-- a reset establishes the invariant whenever the unconsumed rest fits the buffer -/
theorem Inv_reset (B : Nat) (r : Run) (limit : Nat) (h : r.lastFill ≤ B) :
    Inv B (step r (.reset limit)) := by
  simp only [Inv, step, Counter.resetAndLimit]
  refine ⟨by simp, h, ?_⟩
  intro _ _; omega

theorem Inv_step (B : Nat) (r : Run) (op : Op) (hop : OpOk B op)
    (h : Inv B r) : Inv B (step r op) := by
  cases op with
  | reset l => exact Inv_reset B r l h.2.1
  | fill a =>
    have hop : a ≤ B := hop
    simp only [step]
    by_cases hr : r.refused = true
    · rw [if_pos hr]; exact h
    · rw [if_neg hr]
      by_cases hf : r.c.fillOk = true
      · rw [if_pos hf]
        obtain ⟨h1, h2, h3⟩ := h
        refine ⟨h1, hop, ?_⟩
        intro hl hu
        have hl : 0 < r.c.limit := hl
        have hu : r.c.limit < u64Max := hu
        have hnot := (fillOk_true_iff r.c).mp hf
        have hle : r.c.trip ≤ r.c.limit := by
          apply Nat.le_of_not_lt; intro hc; exact hnot ⟨hl, hc⟩
        show r.pulled + a ≤ r.c.limit + B
        rw [h1] at hle
        have : r.pulled ≤ r.c.limit := by omega
        omega
      · rw [if_neg hf]; exact h
  | consume a =>
    simp only [step]
    by_cases hr : r.refused = true
    · rw [if_pos hr]; exact h
    · rw [if_neg hr]
      obtain ⟨h1, h2, h3⟩ := h
      simp only [Inv, Counter.consume]
      refine ⟨?_, by omega, ?_⟩
      · rw [h1]; omega
      · intro hl hu
        have := h3 hl hu
        omega

theorem Inv_run (B : Nat) (ops : List Op) : ∀ (r : Run), WF B ops → Inv B r → Inv B (run r ops) := by
  induction ops with
  | nil => intro r _ h; exact h
  | cons op ops ih =>
    intro r hwf h
    have hw := WF_cons hwf
    show Inv B (run (step r op) ops)
    exact ih _ hw.2 (Inv_step B r op hw.1 h)

/-- the limit is only changed by a reset -/
theorem step_limit (r : Run) (op : Op) (h : ∀ l, op ≠ .reset l) : (step r op).c.limit = r.c.limit := by
  cases op with
  | reset l => exact absurd rfl (h l)
  | fill a =>
    simp only [step]
    split
    · rfl
    · split <;> rfl
  | consume a =>
    simp only [step]
    split <;> rfl

theorem run_limit (ops : List Op) : ∀ (r : Run), (∀ op ∈ ops, ∀ l, op ≠ .reset l) →
    (run r ops).c.limit = r.c.limit := by
  induction ops with
  | nil => intro r _; rfl
  | cons op ops ih =>
    intro r h
    show (run (step r op) ops).c.limit = r.c.limit
    rw [ih _ (fun o ho => h o (List.mem_cons_of_mem _ ho)), step_limit r op (h op List.mem_cons_self)]

/-- general form, resets allowed inside `ops`: in any state reached from a state satisfying the
invariant, under a limit that can trip, the octets pulled since the last reset are at most
`limit + B` (for the limit set by that reset) -/
theorem budget_inv (B : Nat) (r : Run) (ops : List Op) (hwf : WF B ops) (hinv : Inv B r)
    (hl : 0 < (run r ops).c.limit) (hu : (run r ops).c.limit < u64Max) :
    (run r ops).pulled ≤ (run r ops).c.limit + B := by
  have := (Inv_run B ops r hwf hinv).2.2 hl hu
  omega

/-- the budget: after `reset limit` with `0 < limit < 2^64-1`, if the unconsumed rest of the buffer
is at most `B` and every later fill offers at most `B`, at most `limit + B` octets are pulled -/
theorem budget (B limit : Nat) (hl : 0 < limit) (hsmall : limit < u64Max) (r0 : Run) (ops : List Op)
    (hB : r0.lastFill ≤ B) (hwf : WF B ops) (hops : ∀ op ∈ ops, ∀ l, op ≠ .reset l) :
    (run (step r0 (.reset limit)) ops).pulled ≤ limit + B := by
  have hlim : (run (step r0 (.reset limit)) ops).c.limit = limit := by
    rw [run_limit ops _ hops]; rfl
  have := budget_inv B (step r0 (.reset limit)) ops hwf (Inv_reset B r0 limit hB)
    (by rw [hlim]; exact hl) (by rw [hlim]; exact hsmall)
  rw [hlim] at this
  exact this

/-- without the assumption on the unconsumed rest: it counts once -/
theorem budget' (B limit : Nat) (hl : 0 < limit) (hsmall : limit < u64Max) (r0 : Run) (ops : List Op)
    (hwf : WF B ops) (hops : ∀ op ∈ ops, ∀ l, op ≠ .reset l) :
    (run (step r0 (.reset limit)) ops).pulled ≤ limit + max B r0.lastFill :=
  budget (max B r0.lastFill) limit hl hsmall r0 ops (Nat.le_max_right _ _)
    (WF_mono (Nat.le_max_left _ _) hwf) hops

/-- the form with the sum, and the stronger hypothesis `limit + B < u64Max` -/
theorem budget_sum (B limit : Nat) (hl : 0 < limit) (hsmall : limit + B < u64Max) (r0 : Run)
    (ops : List Op) (hwf : WF B ops) (hops : ∀ op ∈ ops, ∀ l, op ≠ .reset l) :
    (run (step r0 (.reset limit)) ops).pulled ≤ limit + B + r0.lastFill := by
  have := budget' B limit hl (by omega) r0 ops hwf hops
  omega

/-- the bound `limit + B` is reached (for `limit ≤ B`): read exactly `limit`, refill, read it all -/
theorem budget_tight (B limit : Nat) (hlB : limit ≤ B) (r0 : Run) :
    WF B [.fill limit, .consume limit, .fill B, .consume B] ∧
    (run (step r0 (.reset limit)) [.fill limit, .consume limit, .fill B, .consume B]).pulled
      = limit + B := by
  constructor
  · intro op hop
    simp only [List.mem_cons, List.not_mem_nil, or_false] at hop
    rcases hop with e | e | e | e <;> subst e <;> simp [hlB]
  · have hmin : min limit u64Max ≤ limit := Nat.min_le_left _ _
    simp [run, step, Counter.resetAndLimit, Counter.fillOk, Counter.consume, Nat.not_lt.mpr hmin]

theorem refused_after (r : Run) (avail : Nat) (h1 : r.c.limit > 0) (h2 : r.c.trip > r.c.limit)
    (h3 : r.refused = false) : (step r (.fill avail)).refused = true := by
  have hf : r.c.fillOk = false := (fillOk_false_iff r.c).mpr ⟨h1, h2⟩
  simp [step, h3, hf]

theorem no_limit_never_refuses (r : Run) (avail : Nat) (h : r.c.limit = 0) (h3 : r.refused = false) :
    (step r (.fill avail)).refused = false := by
  have hf : r.c.fillOk = true := (fillOk_true_iff r.c).mpr (by omega)
  simp [step, h3, hf]

end Rpki.Rrdp
