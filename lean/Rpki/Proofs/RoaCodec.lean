/-
  ROA and ASPA eContent DER codecs: the u8 INTEGER content, one ROA address, the captured address
  list (counting pass and iterator), the whole ROA content, and the ASPA content with its provider
  set — round trips and soundness of the readers.
-/
import Rpki.Model.Roa
import Rpki.Proofs.DerLemmas
import Rpki.Proofs.ManifestCodec
import Rpki.Proofs.AsDerCodec
import Rpki.Proofs.IpDerCodec
import Rpki.Proofs.DerLemmas
namespace Rpki.Roa
open Rpki.Der

/-- an address the encoder can be given: 128-bit, host bits clear, length ≤ 128, maxLength a u8 -/
def Addr.WF (a : Addr) : Prop :=
  a.len ≤ 128 ∧ a.addr < 2 ^ 128 ∧ IpDer.toMin a.addr a.len = a.addr ∧ ∀ m, a.maxLen = some m → m < 256

/-! ### optional readers on one value of any length -/

theorem takeOptCons_tlv' (tag : Nat) (c rest : Bytes) (ht : tag % 32 ≠ 31) (hcons : isCons tag = true) :
    takeOptCons tag (tlv tag c ++ rest) = .ok c rest := by
  have hr := AsDer.readTlv_tlv' tag c rest ht
  rw [tlv_append] at hr ⊢
  simp only [takeOptCons, ht, if_false, ne_eq, not_true_eq_false, hcons, Bool.not_true,
    Bool.false_eq_true, hr]

theorem takeOptPrim_tlv' (tag : Nat) (c rest : Bytes) (ht : tag % 32 ≠ 31) (hprim : isCons tag = false) :
    takeOptPrim tag (tlv tag c ++ rest) = .ok c rest := by
  have hr := AsDer.readTlv_tlv' tag c rest ht
  have hn : tagNoCons tag = tag := by
    simp only [isCons, decide_eq_false_iff_not] at hprim
    simp [tagNoCons, hprim]
  rw [tlv_append] at hr ⊢
  simp only [takeOptPrim, ht, if_false, ne_eq, hn, not_true_eq_false, hprim, Bool.false_eq_true, hr]

/-! ### the u8 INTEGER content -/

theorem decodeU8_encodeU8 (v : Nat) (h : v < 256) : decodeU8 (encodeU8 v) = some v := by
  have _ := h
  unfold encodeU8
  by_cases c : v > 127
  · have c' : v ≥ 128 := by omega
    simp [c, decodeU8, c']
  · have c' : v < 128 := by omega
    simp [c, decodeU8, c']

theorem decodeU8_lt (c : Bytes) (hc : AllBytes c) (v : Nat) (h : decodeU8 c = some v) : v < 256 := by
  match c, hc, h with
  | [], _, h => simp [decodeU8] at h
  | [a], _, h =>
    simp only [decodeU8] at h
    split at h
    · injection h with h; omega
    · cases h
  | [a, b], hc, h =>
    simp only [decodeU8] at h
    split at h
    · injection h with h
      subst h
      exact hc _ (by simp)
    · cases h
  | _ :: _ :: _ :: _, _, h => simp [decodeU8] at h

/-! ### one address -/

theorem takeMaxLen_nil : takeMaxLen [] = some none := by
  simp [takeMaxLen, takeOptPrim]

theorem takeMaxLen_some (m : Nat) (hm : m < 256) :
    takeMaxLen (tlv tagInt (encodeU8 m)) = some (some m) := by
  have h := takeOptPrim_tlv' tagInt (encodeU8 m) [] (by decide) (by decide)
  rw [List.append_nil] at h
  simp only [takeMaxLen, h, decodeU8_encodeU8 m hm, if_true]

theorem takeOptAddr_encodeAddr (a : Addr) (ha : a.WF) (rest : Bytes) :
    takeOptAddr (encodeAddr a ++ rest) = .ok a rest := by
  obtain ⟨hlen, hlt, hmin, hml⟩ := ha
  have hp := IpDer.prefixOfContent_encode a.addr a.len hlen hlt hmin
  unfold encodeAddr takeOptAddr
  rw [takeOptCons_tlv' tagSeq _ rest (by decide) (by decide)]
  simp only
  rw [IpDer.takePrim_tlv' tagBitString _ _ (by decide) (by decide)]
  simp only [hp]
  cases a with
  | mk addr len ml =>
    cases ml with
    | none => simp only [takeMaxLen_nil]
    | some m => simp only [takeMaxLen_some m (hml m rfl)]

theorem takeOptAddr_nil : takeOptAddr [] = .absent := rfl

theorem tlv_length_ge (t : Nat) (c : Bytes) : 2 ≤ (tlv t c).length := by
  have := Manifest.tlv_length t c
  omega

theorem encodeAddr_length (a : Addr) : 2 ≤ (encodeAddr a).length := tlv_length_ge _ _

/-! ### the address list -/

theorem encodeAddrs_nil : encodeAddrs [] = [] := rfl

theorem encodeAddrs_cons (a : Addr) (as : List Addr) :
    encodeAddrs (a :: as) = encodeAddr a ++ encodeAddrs as := by
  simp [encodeAddrs]

theorem length_le_encodeAddrs (as : List Addr) : as.length ≤ (encodeAddrs as).length := by
  induction as with
  | nil => simp
  | cons a as ih =>
    have := encodeAddr_length a
    rw [encodeAddrs_cons, List.length_append, List.length_cons]
    omega

theorem encodeAddrs_ne_nil (as : List Addr) (h : as ≠ []) : encodeAddrs as ≠ [] := by
  intro e
  have h1 := length_le_encodeAddrs as
  rw [e] at h1
  cases as with
  | nil => exact h rfl
  | cons a as => simp at h1

theorem capturePass_encodeAddrs' (W : Nat) : ∀ (as : List Addr) (fuel n : Nat), as.length ≤ fuel →
    (∀ a ∈ as, a.WF) → (∀ a ∈ as, addrOk W a = true) →
    capturePass takeOptAddr (addrOk W) fuel (encodeAddrs as) n = some (n + as.length) := by
  intro as
  induction as with
  | nil =>
    intro fuel n _ _ _
    cases fuel with
    | zero => simp [capturePass, encodeAddrs_nil]
    | succ f => simp [capturePass, encodeAddrs_nil, takeOptAddr_nil]
  | cons a as ih =>
    intro fuel n hf hwf hok
    cases fuel with
    | zero => simp at hf
    | succ f =>
      rw [encodeAddrs_cons, capturePass, takeOptAddr_encodeAddr a (hwf a (List.mem_cons_self ..))]
      simp only [hok a (List.mem_cons_self ..), if_true]
      rw [ih f (n + 1) (by simpa using hf) (fun x hx => hwf x (List.mem_cons_of_mem _ hx))
        (fun x hx => hok x (List.mem_cons_of_mem _ hx))]
      simp only [List.length_cons]
      congr 1; omega

theorem iteratePass_encodeAddrs : ∀ (as : List Addr) (fuel : Nat), as.length ≤ fuel →
    (∀ a ∈ as, a.WF) → iteratePass takeOptAddr fuel (encodeAddrs as) = some as := by
  intro as
  induction as with
  | nil =>
    intro fuel _ _
    cases fuel with
    | zero => simp [iteratePass]
    | succ f => simp [iteratePass, encodeAddrs_nil, takeOptAddr_nil]
  | cons a as ih =>
    intro fuel hf hwf
    cases fuel with
    | zero => simp at hf
    | succ f =>
      rw [encodeAddrs_cons, iteratePass, takeOptAddr_encodeAddr a (hwf a (List.mem_cons_self ..))]
      simp only
      rw [ih f (by simpa using hf) (fun x hx => hwf x (List.mem_cons_of_mem _ hx))]
      rfl

/-- **Capture ∘ encode.** The counting pass accepts the encoded list and counts its addresses. -/
theorem capturePass_encodeAddrs (W : Nat) (as : List Addr) (hwf : ∀ a ∈ as, a.WF)
    (hok : ∀ a ∈ as, addrOk W a = true) (n : Nat) :
    capturePass takeOptAddr (addrOk W) (encodeAddrs as).length (encodeAddrs as) n = some (n + as.length) :=
  capturePass_encodeAddrs' W as _ n (length_le_encodeAddrs as) hwf hok

/-- **Iterate ∘ encode.** The iterator yields exactly the addresses that were encoded. -/
theorem iter_encodeAddrs (as : List Addr) (hwf : ∀ a ∈ as, a.WF) : iter (encodeAddrs as) = some as :=
  iteratePass_encodeAddrs as _ (length_le_encodeAddrs as) hwf

/-! ### the whole ROA content: round trip -/

theorem takeFamily_v4 (rest : Bytes) :
    takeFamily (tlv tagOctetString [0, 1] ++ rest) = some (32, rest) := by
  unfold takeFamily
  rw [IpDer.takePrim_tlv' tagOctetString _ _ (by decide) (by decide)]
  simp

theorem takeFamily_v6 (rest : Bytes) :
    takeFamily (tlv tagOctetString [0, 2] ++ rest) = some (128, rest) := by
  unfold takeFamily
  rw [IpDer.takePrim_tlv' tagOctetString _ _ (by decide) (by decide)]
  simp

theorem takeAddrs_encode (W : Nat) (as : List Addr) (hwf : ∀ a ∈ as, a.WF)
    (hok : ∀ a ∈ as, addrOk W a = true) :
    takeAddrs W (tlv tagSeq (encodeAddrs as)) = some (encodeAddrs as, []) := by
  have h := AsDer.takeCons_tlv' tagSeq (encodeAddrs as) [] (by decide) (by decide)
  rw [List.append_nil] at h
  unfold takeAddrs
  simp only [h, capturePass_encodeAddrs W as hwf hok 0]

theorem famLoop_nil (fuel : Nat) (v4 v6 : Option Bytes) : famLoop fuel [] v4 v6 = some (v4, v6) := by
  cases fuel with
  | zero => simp [famLoop]
  | succ f => simp [famLoop, takeOptCons]

theorem famLoop_v4 (fuel : Nat) (as : List Addr) (hwf : ∀ a ∈ as, a.WF)
    (hok : ∀ a ∈ as, addrOk 32 a = true) (rest : Bytes) (v6 : Option Bytes) :
    famLoop (fuel + 1) (tlv tagSeq (tlv tagOctetString [0, 1] ++ tlv tagSeq (encodeAddrs as)) ++ rest)
      none v6 = famLoop fuel rest (some (encodeAddrs as)) v6 := by
  rw [famLoop, takeOptCons_tlv' tagSeq _ rest (by decide) (by decide)]
  simp only [takeFamily_v4, if_true, takeAddrs_encode 32 as hwf hok, Option.isSome_none,
    Bool.false_eq_true, if_false]

theorem famLoop_v6 (fuel : Nat) (as : List Addr) (hwf : ∀ a ∈ as, a.WF)
    (hok : ∀ a ∈ as, addrOk 128 a = true) (rest : Bytes) (v4 : Option Bytes) :
    famLoop (fuel + 1) (tlv tagSeq (tlv tagOctetString [0, 2] ++ tlv tagSeq (encodeAddrs as)) ++ rest)
      v4 none = famLoop fuel rest v4 (some (encodeAddrs as)) := by
  have e : ¬ (128 : Nat) = 32 := by decide
  rw [famLoop, takeOptCons_tlv' tagSeq _ rest (by decide) (by decide)]
  simp only [takeFamily_v6, e, if_true, takeAddrs_encode 128 as hwf hok, Option.isSome_none,
    Bool.false_eq_true, if_false]

theorem encodeFamily_nil (fam : Bytes) : encodeFamily fam [] = [] := by simp [encodeFamily]

theorem encodeFamily_ne (fam cap : Bytes) (h : cap ≠ []) :
    encodeFamily fam cap = tlv tagSeq (tlv tagOctetString fam ++ tlv tagSeq cap) := by
  simp [encodeFamily, h]

/-- the family loop over what the encoder wrote: an omitted (empty) family is reported as missing -/
theorem famLoop_encode (a4 a6 : List Addr)
    (h4 : ∀ a ∈ a4, a.WF ∧ addrOk 32 a = true) (h6 : ∀ a ∈ a6, a.WF ∧ addrOk 128 a = true) :
    ∃ v4 v6,
      famLoop (encodeFamily [0, 1] (encodeAddrs a4) ++ encodeFamily [0, 2] (encodeAddrs a6)).length
        (encodeFamily [0, 1] (encodeAddrs a4) ++ encodeFamily [0, 2] (encodeAddrs a6)) none none
        = some (v4, v6) ∧ v4.getD [] = encodeAddrs a4 ∧ v6.getD [] = encodeAddrs a6 := by
  have w4 : ∀ a ∈ a4, a.WF := fun a ha => (h4 a ha).1
  have o4 : ∀ a ∈ a4, addrOk 32 a = true := fun a ha => (h4 a ha).2
  have w6 : ∀ a ∈ a6, a.WF := fun a ha => (h6 a ha).1
  have o6 : ∀ a ∈ a6, addrOk 128 a = true := fun a ha => (h6 a ha).2
  by_cases e4 : a4 = []
  · by_cases e6 : a6 = []
    · subst e4; subst e6
      exact ⟨none, none, by simp [encodeAddrs_nil, encodeFamily_nil, famLoop], rfl, rfl⟩
    · subst e4
      rw [encodeAddrs_nil, encodeFamily_nil, List.nil_append,
        encodeFamily_ne _ _ (encodeAddrs_ne_nil a6 e6)]
      have hl := tlv_length_ge tagSeq (tlv tagOctetString [0, 2] ++ tlv tagSeq (encodeAddrs a6))
      obtain ⟨f, hf⟩ : ∃ f, (tlv tagSeq (tlv tagOctetString [0, 2] ++ tlv tagSeq (encodeAddrs a6))).length
          = f + 1 := ⟨_, (Nat.sub_add_cancel (by omega)).symm⟩
      have st := famLoop_v6 f a6 w6 o6 [] none
      rw [List.append_nil] at st
      rw [hf, st, famLoop_nil]
      exact ⟨none, some (encodeAddrs a6), rfl, rfl, rfl⟩
  · by_cases e6 : a6 = []
    · subst e6
      rw [encodeAddrs_nil, encodeFamily_nil, List.append_nil,
        encodeFamily_ne _ _ (encodeAddrs_ne_nil a4 e4)]
      have hl := tlv_length_ge tagSeq (tlv tagOctetString [0, 1] ++ tlv tagSeq (encodeAddrs a4))
      obtain ⟨f, hf⟩ : ∃ f, (tlv tagSeq (tlv tagOctetString [0, 1] ++ tlv tagSeq (encodeAddrs a4))).length
          = f + 1 := ⟨_, (Nat.sub_add_cancel (by omega)).symm⟩
      have st := famLoop_v4 f a4 w4 o4 [] none
      rw [List.append_nil] at st
      rw [hf, st, famLoop_nil]
      exact ⟨some (encodeAddrs a4), none, rfl, rfl, rfl⟩
    · rw [encodeFamily_ne _ _ (encodeAddrs_ne_nil a4 e4), encodeFamily_ne _ _ (encodeAddrs_ne_nil a6 e6)]
      have hl4 := tlv_length_ge tagSeq (tlv tagOctetString [0, 1] ++ tlv tagSeq (encodeAddrs a4))
      have hl6 := tlv_length_ge tagSeq (tlv tagOctetString [0, 2] ++ tlv tagSeq (encodeAddrs a6))
      have hl : 2 ≤ (tlv tagSeq (tlv tagOctetString [0, 1] ++ tlv tagSeq (encodeAddrs a4)) ++
          tlv tagSeq (tlv tagOctetString [0, 2] ++ tlv tagSeq (encodeAddrs a6))).length := by
        rw [List.length_append]; omega
      obtain ⟨f, hf⟩ : ∃ f, (tlv tagSeq (tlv tagOctetString [0, 1] ++ tlv tagSeq (encodeAddrs a4)) ++
          tlv tagSeq (tlv tagOctetString [0, 2] ++ tlv tagSeq (encodeAddrs a6))).length = f + 1 + 1 :=
        ⟨_, (Nat.sub_add_cancel hl).symm⟩
      have st6 := famLoop_v6 f a6 w6 o6 [] (some (encodeAddrs a4))
      rw [List.append_nil] at st6
      rw [hf, famLoop_v4 (f + 1) a4 w4 o4, st6, famLoop_nil]
      exact ⟨some (encodeAddrs a4), some (encodeAddrs a6), rfl, rfl, rfl⟩

theorem takeOptVersion_absent (expected : Nat) (x rest : Bytes) :
    takeOptVersion expected (tlv tagInt x ++ rest) = some (tlv tagInt x ++ rest) := by
  unfold takeOptVersion
  rw [takeOptCons_other 0xA0 tagInt x rest (by decide) (by decide)]

/-- **round trip** of the ROA content (an empty family is omitted and read back as empty; data
after the value is ignored) -/
theorem decodeContent_encodeContent (asId : Nat) (h : asId < 2 ^ 32) (a4 a6 : List Addr)
    (h4 : ∀ a ∈ a4, a.WF ∧ addrOk 32 a = true) (h6 : ∀ a ∈ a6, a.WF ∧ addrOk 128 a = true)
    (trailing : Bytes) :
    decodeContent (encodeContent ⟨asId, encodeAddrs a4, encodeAddrs a6⟩ ++ trailing)
      = some ⟨asId, encodeAddrs a4, encodeAddrs a6⟩ := by
  obtain ⟨v4, v6, hfam, g4, g6⟩ := famLoop_encode a4 a6 h4 h6
  have hs := AsDer.takeCons_tlv' tagSeq
    (encodeFamily [0, 1] (encodeAddrs a4) ++ encodeFamily [0, 2] (encodeAddrs a6)) [] (by decide) (by decide)
  rw [List.append_nil] at hs
  unfold encodeContent decodeContent
  simp only
  rw [AsDer.takeCons_tlv' tagSeq _ trailing (by decide) (by decide)]
  simp only [takeOptVersion_absent]
  rw [IpDer.takePrim_tlv' tagInt _ _ (by decide) (by decide)]
  simp only [AsDer.decodeU32_encodeU32 asId h, hs, ne_eq, not_true_eq_false, if_false, hfam, g4, g6]

/-! ### the whole ROA content: soundness -/

/-- a held capture has passed the counting pass of its family -/
def CapOk (W : Nat) (v : Option Bytes) : Prop :=
  ∀ cap, v = some cap → ∃ k, capturePass takeOptAddr (addrOk W) cap.length cap 0 = some k

theorem capOk_none (W : Nat) : CapOk W none := by
  intro cap h; cases h

theorem takeAddrs_ok (W : Nat) (b cap r : Bytes) (h : takeAddrs W b = some (cap, r)) :
    CapOk W (some cap) := by
  unfold takeAddrs at h
  cases h1 : takeCons tagSeq b with
  | none => simp only [h1] at h; cases h
  | some p =>
    obtain ⟨c, rest⟩ := p
    simp only [h1] at h
    cases h2 : capturePass takeOptAddr (addrOk W) c.length c 0 with
    | none => simp only [h2] at h; cases h
    | some k =>
      simp only [h2, Option.some.injEq, Prod.mk.injEq] at h
      obtain ⟨e, _⟩ := h
      subst e
      intro cap hc
      injection hc with hc
      subst hc
      exact ⟨k, h2⟩

theorem famLoop_inv : ∀ (fuel : Nat) (b : Bytes) (v4 v6 r4 r6 : Option Bytes),
    famLoop fuel b v4 v6 = some (r4, r6) → CapOk 32 v4 → CapOk 128 v6 → CapOk 32 r4 ∧ CapOk 128 r6 := by
  intro fuel
  induction fuel with
  | zero =>
    intro b v4 v6 r4 r6 h i4 i6
    simp only [famLoop] at h
    split at h
    · simp only [Option.some.injEq, Prod.mk.injEq] at h
      obtain ⟨e1, e2⟩ := h
      subst e1; subst e2
      exact ⟨i4, i6⟩
    · cases h
  | succ f ih =>
    intro b v4 v6 r4 r6 h i4 i6
    rw [famLoop] at h
    cases ht : takeOptCons tagSeq b with
    | absent =>
      simp only [ht] at h
      split at h
      · simp only [Option.some.injEq, Prod.mk.injEq] at h
        obtain ⟨e1, e2⟩ := h
        subst e1; subst e2
        exact ⟨i4, i6⟩
      · cases h
    | bad => simp only [ht] at h; cases h
    | ok c rest =>
      simp only [ht] at h
      cases hf : takeFamily c with
      | none => simp only [hf] at h; cases h
      | some p =>
        obtain ⟨W, r1⟩ := p
        simp only [hf] at h
        by_cases hW : W = 32
        · rw [if_pos hW] at h
          split at h
          · cases h
          · cases ha : takeAddrs 32 r1 with
            | none => simp only [ha] at h; cases h
            | some q =>
              obtain ⟨cap, r2⟩ := q
              simp only [ha] at h
              split at h
              · exact ih rest (some cap) v6 r4 r6 h (takeAddrs_ok 32 r1 cap r2 ha) i6
              · cases h
        · rw [if_neg hW] at h
          split at h
          · cases h
          · cases ha : takeAddrs 128 r1 with
            | none => simp only [ha] at h; cases h
            | some q =>
              obtain ⟨cap, r2⟩ := q
              simp only [ha] at h
              split at h
              · exact ih rest v4 (some cap) r4 r6 h i4 (takeAddrs_ok 128 r1 cap r2 ha)
              · cases h

/-- a capture that passed the counting pass (or a missing family) iterates cleanly, and every
address it yields respects the family width -/
theorem capOk_iter (W : Nat) (v : Option Bytes) (h : CapOk W v) :
    ∃ l, iter (v.getD []) = some l ∧ ∀ a ∈ l, addrOk W a = true := by
  cases v with
  | none => exact ⟨[], rfl, by simp⟩
  | some cap =>
    obtain ⟨k, hk⟩ := h cap rfl
    obtain ⟨items, h1, _, h3⟩ :=
      Der.capture_iterate_parity takeOptAddr (addrOk W) cap.length cap 0 k hk
    exact ⟨items, h1, h3⟩

/-- the steps of `decodeContent` -/
theorem decodeContent_inv (b : Bytes) (ct : Content) (h : decodeContent b = some ct) :
    ∃ c r c1 ac c2 fc v4 v6, takeCons tagSeq b = some (c, r) ∧ takeOptVersion 0 c = some c1 ∧
      takePrim tagInt c1 = some (ac, c2) ∧ AsDer.decodeU32 ac = some ct.asId ∧
      takeCons tagSeq c2 = some (fc, []) ∧ famLoop fc.length fc none none = some (v4, v6) ∧
      ct.v4 = v4.getD [] ∧ ct.v6 = v6.getD [] := by
  unfold decodeContent at h
  cases h1 : takeCons tagSeq b with
  | none => simp only [h1] at h; cases h
  | some p1 =>
    obtain ⟨c, r⟩ := p1
    simp only [h1] at h
    cases h2 : takeOptVersion 0 c with
    | none => simp only [h2] at h; cases h
    | some c1 =>
      simp only [h2] at h
      cases h3 : takePrim tagInt c1 with
      | none => simp only [h3] at h; cases h
      | some p3 =>
        obtain ⟨ac, c2⟩ := p3
        simp only [h3] at h
        cases h4 : AsDer.decodeU32 ac with
        | none => simp only [h4] at h; cases h
        | some asId =>
          simp only [h4] at h
          cases h5 : takeCons tagSeq c2 with
          | none => simp only [h5] at h; cases h
          | some p5 =>
            obtain ⟨fc, c3⟩ := p5
            simp only [h5] at h
            by_cases h6 : c3 ≠ []
            · rw [if_pos h6] at h; cases h
            · rw [if_neg h6] at h
              have h6' : c3 = [] := Classical.not_not.1 h6
              subst h6'
              cases h7 : famLoop fc.length fc none none with
              | none => simp only [h7] at h; cases h
              | some q =>
                obtain ⟨v4, v6⟩ := q
                simp only [h7, Option.some.injEq] at h
                subst h
                exact ⟨c, r, c1, ac, c2, fc, v4, v6, rfl, h2, h3, h4, h5, h7, rfl, rfl⟩

/-- **soundness**: whatever octets are accepted, both captured address lists iterate without
failure (the iterator's `unwrap()` cannot panic) and every address respects its family -/
theorem decodeContent_sound (b : Bytes) (c : Content) (h : decodeContent b = some c) :
    ∃ l4 l6, iter c.v4 = some l4 ∧ iter c.v6 = some l6 ∧ (∀ a ∈ l4, addrOk 32 a = true) ∧
      (∀ a ∈ l6, addrOk 128 a = true) := by
  obtain ⟨_, _, _, _, _, fc, v4, v6, _, _, _, _, _, hfam, e4, e6⟩ := decodeContent_inv b c h
  obtain ⟨i4, i6⟩ := famLoop_inv fc.length fc none none v4 v6 hfam (capOk_none 32) (capOk_none 128)
  obtain ⟨l4, a1, a2⟩ := capOk_iter 32 v4 i4
  obtain ⟨l6, b1, b2⟩ := capOk_iter 128 v6 i6
  rw [e4, e6]
  exact ⟨l4, l6, a1, b1, a2, b2⟩

theorem takeOptVersion_sub (expected : Nat) (c c1 : Bytes) (h : takeOptVersion expected c = some c1) :
    ∀ x ∈ c1, x ∈ c := by
  unfold takeOptVersion at h
  cases ht : takeOptCons 0xA0 c with
  | absent =>
    simp only [ht, Option.some.injEq] at h
    subst h
    exact fun x hx => hx
  | bad => simp only [ht] at h; cases h
  | ok vc r =>
    simp only [ht] at h
    obtain ⟨_, sr⟩ := AsDer.takeOptCons_sub _ _ _ _ ht
    cases hp : takePrim tagInt vc with
    | none => simp only [hp] at h; cases h
    | some p =>
      obtain ⟨ic, r'⟩ := p
      simp only [hp] at h
      split at h
      · injection h with h
        subst h
        exact sr
      · cases h

/-- the AS number read from octets is a u32 -/
theorem decodeContent_asId (b : Bytes) (hb : AllBytes b) (c : Content) (h : decodeContent b = some c) :
    c.asId < 2 ^ 32 := by
  obtain ⟨c0, _, c1, ac, _, _, _, _, h1, h2, h3, h4, _⟩ := decodeContent_inv b c h
  obtain ⟨s1, _⟩ := AsDer.takeCons_sub _ _ _ _ h1
  have s2 := takeOptVersion_sub 0 c0 c1 h2
  obtain ⟨s3, _⟩ := AsDer.takePrim_sub _ _ _ _ h3
  exact AsDer.decodeU32_lt ac c.asId (fun x hx => hb x (s1 x (s2 x (s3 x hx)))) h4

/-! ### ASPA -/

def StrictInc : List Nat → Prop
  | a :: b :: rest => a < b ∧ StrictInc (b :: rest)
  | _ => True

theorem strictInc_cons2 (a b : Nat) (rest : List Nat) :
    StrictInc (a :: b :: rest) ↔ a < b ∧ StrictInc (b :: rest) := by
  simp only [StrictInc]

theorem strictInc_single (a : Nat) : StrictInc [a] := by simp only [StrictInc]

theorem strictInc_nil : StrictInc [] := by simp only [StrictInc]

theorem strictInc_tail (a : Nat) (l : List Nat) (h : StrictInc (a :: l)) : StrictInc l := by
  cases l with
  | nil => exact strictInc_nil
  | cons b rest => exact ((strictInc_cons2 a b rest).1 h).2

theorem takeOptAsn_encode (p : Nat) (hp : p < 2 ^ 32) (rest : Bytes) :
    takeOptAsn (tlv tagInt (AsDer.encodeU32 p) ++ rest) = .ok p rest := by
  unfold takeOptAsn
  rw [takeOptPrim_tlv' tagInt _ rest (by decide) (by decide)]
  simp only [AsDer.decodeU32_encodeU32 p hp]

theorem takeOptAsn_nil : takeOptAsn [] = .absent := rfl

theorem encodeProviders_nil : encodeProviders [] = [] := rfl

theorem encodeProviders_cons (p : Nat) (ps : List Nat) :
    encodeProviders (p :: ps) = tlv tagInt (AsDer.encodeU32 p) ++ encodeProviders ps := by
  simp [encodeProviders]

theorem length_le_encodeProviders (ps : List Nat) : ps.length ≤ (encodeProviders ps).length := by
  induction ps with
  | nil => simp
  | cons p ps ih =>
    have := tlv_length_ge tagInt (AsDer.encodeU32 p)
    rw [encodeProviders_cons, List.length_append, List.length_cons]
    omega

theorem iteratePass_encodeProviders : ∀ (ps : List Nat) (fuel : Nat), ps.length ≤ fuel →
    (∀ p ∈ ps, p < 2 ^ 32) → iteratePass takeOptAsn fuel (encodeProviders ps) = some ps := by
  intro ps
  induction ps with
  | nil =>
    intro fuel _ _
    cases fuel with
    | zero => simp [iteratePass]
    | succ f => simp [iteratePass, encodeProviders_nil, takeOptAsn_nil]
  | cons p ps ih =>
    intro fuel hf hv
    cases fuel with
    | zero => simp at hf
    | succ f =>
      rw [encodeProviders_cons, iteratePass, takeOptAsn_encode p (hv p (List.mem_cons_self ..))]
      simp only
      rw [ih f (by simpa using hf) (fun x hx => hv x (List.mem_cons_of_mem _ hx))]
      rfl

/-- **Iterate ∘ encode** for the provider set -/
theorem iterProviders_encode (ps : List Nat) (hps : ∀ p ∈ ps, p < 2 ^ 32) :
    iterProviders (encodeProviders ps) = some ps :=
  iteratePass_encodeProviders ps _ (length_le_encodeProviders ps) hps

/-- the counting pass over an encoded provider list that continues after `last` -/
theorem provLoop_encode (maxLen cust : Nat) : ∀ (ps : List Nat) (fuel : Nat) (last : Option Nat) (n : Nat),
    ps.length ≤ fuel → (∀ p ∈ ps, p < 2 ^ 32) → StrictInc (last.toList ++ ps) → cust ∉ ps →
    n + ps.length ≤ maxLen → (last.isSome = true ∨ ps ≠ []) →
    provLoop maxLen cust fuel (encodeProviders ps) last n = some (n + ps.length) := by
  intro ps
  induction ps with
  | nil =>
    intro fuel last n _ _ _ _ _ hl
    have hs : last.isSome = true := by
      rcases hl with h | h
      · exact h
      · exact absurd rfl h
    cases fuel with
    | zero => simp [provLoop, encodeProviders_nil, hs]
    | succ f => simp [provLoop, encodeProviders_nil, takeOptAsn_nil, hs]
  | cons p ps ih =>
    intro fuel last n hf hv hinc hnot hlen _
    cases fuel with
    | zero => simp at hf
    | succ f =>
      have hp := hv p (List.mem_cons_self ..)
      have h1 : ¬ n ≥ maxLen := by simp only [List.length_cons] at hlen; omega
      have h2 : ¬ p = cust := by
        intro e; apply hnot; rw [e]; exact List.mem_cons_self ..
      have hinc' : StrictInc (p :: ps) := by
        cases last with
        | none => exact hinc
        | some l => exact strictInc_tail l _ hinc
      have hrec := ih f (some p) (n + 1) (by simpa using hf)
        (fun x hx => hv x (List.mem_cons_of_mem _ hx)) hinc'
        (fun hx => hnot (List.mem_cons_of_mem _ hx))
        (by simp only [List.length_cons] at hlen; omega) (Or.inl rfl)
      have hk : n + 1 + ps.length = n + (p :: ps).length := by
        simp only [List.length_cons]; omega
      rw [hk] at hrec
      rw [encodeProviders_cons, provLoop, takeOptAsn_encode p hp]
      cases last with
      | none => simp only [h1, h2, if_false, if_true, hrec]
      | some l =>
        have h3 : l < p := ((strictInc_cons2 l p ps).1 hinc).1
        simp only [h1, h2, if_false, h3, decide_true, if_true, hrec]

/-- **round trip** of the ASPA content (data after the value is ignored) -/
theorem decodeAspa_encodeAspa (maxLen cust : Nat) (ps : List Nat) (hc : cust < 2 ^ 32)
    (hps : ∀ p ∈ ps, p < 2 ^ 32) (hne : ps ≠ []) (hinc : StrictInc ps) (hnot : cust ∉ ps)
    (hlen : ps.length ≤ maxLen) (trailing : Bytes) :
    decodeAspa maxLen (encodeAspa cust (encodeProviders ps) ++ trailing)
      = some ⟨cust, encodeProviders ps, ps.length⟩ := by
  have hloop := provLoop_encode maxLen cust ps (encodeProviders ps).length none 0
    (length_le_encodeProviders ps) hps hinc hnot (by omega) (Or.inr hne)
  rw [Nat.zero_add] at hloop
  have hv := IpDer.takePrim_tlv' tagInt (encodeU8 1) [] (by decide) (by decide)
  rw [List.append_nil] at hv
  have hs := AsDer.takeCons_tlv' tagSeq (encodeProviders ps) [] (by decide) (by decide)
  rw [List.append_nil] at hs
  unfold encodeAspa decodeAspa
  rw [AsDer.takeCons_tlv' tagSeq _ trailing (by decide) (by decide)]
  simp only [List.append_assoc]
  rw [AsDer.takeCons_tlv' 0xA0 _ _ (by decide) (by decide)]
  simp only [hv, decodeU8_encodeU8 1 (by decide), ne_eq, not_true_eq_false, or_self, if_false]
  rw [IpDer.takePrim_tlv' tagInt _ _ (by decide) (by decide)]
  simp only [AsDer.decodeU32_encodeU32 cust hc, hs, not_true_eq_false, if_false, hloop]

/-- the counting pass and the iterator walk the same reader: what the pass accepted iterates
cleanly, is counted exactly, strictly increasing (continuing `last`) and free of the customer -/
theorem provLoop_parity (maxLen cust : Nat) : ∀ (fuel : Nat) (b : Bytes) (last : Option Nat) (n k : Nat),
    provLoop maxLen cust fuel b last n = some k →
    ∃ items, iteratePass takeOptAsn fuel b = some items ∧ items.length + n = k ∧
      (items ≠ [] → k ≤ maxLen) ∧ StrictInc (last.toList ++ items) ∧ cust ∉ items ∧
      (last = none → items ≠ []) := by
  intro fuel
  induction fuel with
  | zero =>
    intro b last n k h
    simp only [provLoop] at h
    split at h
    · rename_i hc
      injection h with h
      refine ⟨[], rfl, by simpa using h, fun e => absurd rfl e, ?_, by simp, ?_⟩
      · cases last with
        | none => exact strictInc_nil
        | some l => exact strictInc_single l
      · intro e; rw [e] at hc; simp at hc
    · cases h
  | succ f ih =>
    intro b last n k h
    rw [provLoop] at h
    cases ht : takeOptAsn b with
    | absent =>
      simp only [ht] at h
      split at h
      · rename_i hc
        injection h with h
        refine ⟨[], by rw [iteratePass, ht], by simpa using h, fun e => absurd rfl e, ?_, by simp, ?_⟩
        · cases last with
          | none => exact strictInc_nil
          | some l => exact strictInc_single l
        · intro e; rw [e] at hc; simp at hc
      · cases h
    | bad => simp only [ht] at h; cases h
    | ok a rest =>
      simp only [ht] at h
      by_cases c1 : n ≥ maxLen
      · rw [if_pos c1] at h; cases h
      · rw [if_neg c1] at h
        by_cases c2 : a = cust
        · rw [if_pos c2] at h; cases h
        · rw [if_neg c2] at h
          have key : ∀ items, iteratePass takeOptAsn f rest = some items → items.length + (n + 1) = k →
              (items ≠ [] → k ≤ maxLen) → StrictInc (last.toList ++ a :: items) → cust ∉ items →
              ∃ items, iteratePass takeOptAsn (f + 1) b = some items ∧ items.length + n = k ∧
                (items ≠ [] → k ≤ maxLen) ∧ StrictInc (last.toList ++ items) ∧ cust ∉ items ∧
                (last = none → items ≠ []) := by
            intro items i1 i2 i3 i4 i5
            refine ⟨a :: items, by rw [iteratePass, ht]; simp only [i1]; rfl,
              by simp only [List.length_cons]; omega, ?_, i4, ?_, fun _ => List.cons_ne_nil _ _⟩
            · intro _
              by_cases e : items = []
              · subst e; simp only [List.length_nil] at i2; omega
              · exact i3 e
            · intro hx
              rcases List.mem_cons.1 hx with e | e
              · exact c2 e.symm
              · exact i5 e
          cases last with
          | none =>
            simp only [if_true] at h
            obtain ⟨items, i1, i2, i3, i4, i5, _⟩ := ih rest (some a) (n + 1) k h
            exact key items i1 i2 i3 i4 i5
          | some l =>
            simp only at h
            by_cases c3 : l < a
            · simp only [c3, decide_true, if_true] at h
              obtain ⟨items, i1, i2, i3, i4, i5, _⟩ := ih rest (some a) (n + 1) k h
              exact key items i1 i2 i3 ((strictInc_cons2 l a items).2 ⟨c3, i4⟩) i5
            · simp only [c3, decide_false, Bool.false_eq_true, if_false] at h
              cases h

/-- **soundness**: whatever octets are accepted, the captured provider set iterates without failure,
yields exactly `count` providers, at most `maxLen`, at least one, strictly increasing, and never the
customer -/
theorem decodeAspa_sound (maxLen : Nat) (b : Bytes) (a : Aspa) (h : decodeAspa maxLen b = some a) :
    ∃ ps, iterProviders a.providers = some ps ∧ ps.length = a.count ∧ a.count ≤ maxLen ∧ ps ≠ [] ∧
      StrictInc ps ∧ a.customer ∉ ps := by
  unfold decodeAspa at h
  cases h1 : takeCons tagSeq b with
  | none => simp only [h1] at h; cases h
  | some p1 =>
    obtain ⟨c, r⟩ := p1
    simp only [h1] at h
    cases h2 : takeCons 0xA0 c with
    | none => simp only [h2] at h; cases h
    | some p2 =>
      obtain ⟨vc, c1⟩ := p2
      simp only [h2] at h
      cases h3 : takePrim tagInt vc with
      | none => simp only [h3] at h; cases h
      | some p3 =>
        obtain ⟨ic, r'⟩ := p3
        simp only [h3] at h
        split at h
        · cases h
        · cases h4 : takePrim tagInt c1 with
          | none => simp only [h4] at h; cases h
          | some p4 =>
            obtain ⟨ac, c2⟩ := p4
            simp only [h4] at h
            cases h5 : AsDer.decodeU32 ac with
            | none => simp only [h5] at h; cases h
            | some customer =>
              simp only [h5] at h
              cases h6 : takeCons tagSeq c2 with
              | none => simp only [h6] at h; cases h
              | some p6 =>
                obtain ⟨pc, c3⟩ := p6
                simp only [h6] at h
                split at h
                · cases h
                · cases h7 : provLoop maxLen customer pc.length pc none 0 with
                  | none => simp only [h7] at h; cases h
                  | some n =>
                    simp only [h7, Option.some.injEq] at h
                    subst h
                    obtain ⟨items, i1, i2, i3, i4, i5, i6⟩ :=
                      provLoop_parity maxLen customer pc.length pc none 0 n h7
                    have hne := i6 rfl
                    exact ⟨items, i1, by simpa using i2, i3 hne, hne, i4, i5⟩

/-! ### non-vacuity -/

example : encodeU8 0 = [0] ∧ encodeU8 127 = [127] ∧ encodeU8 128 = [0, 128] ∧ encodeU8 255 = [0, 255] := by
  decide

example : decodeU8 [0, 127] = none ∧ decodeU8 [128] = none ∧ decodeU8 [] = none ∧ decodeU8 [1, 0] = none := by
  decide

/-- 10.0.0.0/8-24 is an address the encoder accepts, and it passes the IPv4 check -/
example : (⟨10 * 2 ^ 120, 8, some 24⟩ : Addr).WF ∧ addrOk 32 ⟨10 * 2 ^ 120, 8, some 24⟩ = true := by
  refine ⟨⟨by decide, by decide, by decide, ?_⟩, by decide⟩
  intro m hm
  injection hm with hm
  omega

/-- the octet-range hypothesis of `decodeContent_asId` is needed: the model's octets are naturals,
and an out-of-range "octet" in the INTEGER content is carried into the value -/
example : (decodeContent [48, 6, 2, 2, 1, 2 ^ 40, 48, 0]).map (·.asId) = some (256 + 2 ^ 40) := by decide

/-- an ASPA whose provider set is empty, unordered or contains the customer is rejected -/
example : decodeAspa 16 (encodeAspa 5 (encodeProviders [])) = none ∧
    decodeAspa 16 (encodeAspa 5 (encodeProviders [7, 1])) = none ∧
    decodeAspa 16 (encodeAspa 5 (encodeProviders [1, 5])) = none ∧
    decodeAspa 1 (encodeAspa 5 (encodeProviders [1, 7])) = none := by decide

end Rpki.Roa
