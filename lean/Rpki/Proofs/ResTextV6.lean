/-
  Round trip of the IPv6 text form: `parseV6 (fmtV6 a) = some a` for every 128-bit address.
-/
import Rpki.Model.ResText
namespace Rpki.ResText

/-! ### 1. hexadecimal groups -/

theorem v6_hexVal_hexDigit (d : Nat) (h : d < 16) : hexVal (hexDigit d) = some d := by
  unfold hexVal hexDigit
  split <;> split <;> first | (congr 1; omega) | (split <;> first | (congr 1; omega) | omega)

theorem v6_hexDigit_ne (d : Nat) (h : d < 16) : hexDigit d ≠ 58 ∧ hexDigit d ≠ 46 := by
  unfold hexDigit; split <;> omega

/-- the digits `hexAux` writes, as values -/
theorem v6_hexAux_spec : ∀ (fuel n : Nat) (acc : Bytes), n < fuel →
    ∃ ds : List Nat, hexAux fuel n acc = ds.map hexDigit ++ acc ∧ ds ≠ [] ∧ (∀ d ∈ ds, d < 16) ∧
      ds.foldl (fun acc d => acc * 16 + d) 0 = n ∧ (∀ k, 0 < k → n < 16 ^ k → ds.length ≤ k) := by
  intro fuel
  induction fuel with
  | zero => intro n acc h; omega
  | succ fuel ih =>
    intro n acc h
    unfold hexAux
    by_cases hn : n < 16
    · refine ⟨[n], by simp [hn], by simp, by simpa using hn, by simp, ?_⟩
      intro k hk _; simp only [List.length_cons, List.length_nil]; omega
    · obtain ⟨ds, h1, h2, h3, h4, h5⟩ := ih (n / 16) (hexDigit (n % 16) :: acc) (by omega)
      refine ⟨ds ++ [n % 16], by simp [hn, h1], by simp, ?_, ?_, ?_⟩
      · intro d hd
        rcases List.mem_append.mp hd with hd | hd
        · exact h3 d hd
        · have : d = n % 16 := by simpa using hd
          omega
      · rw [List.foldl_append, h4]; simp only [List.foldl_cons, List.foldl_nil]; omega
      · intro k hk hlt
        have hk2 : 2 ≤ k := by
          rcases k with _ | _ | k
          · omega
          · simp at hlt; omega
          · omega
        have := h5 (k - 1) (by omega) (by
          have : 16 ^ k = 16 ^ (k - 1) * 16 := by rw [← Nat.pow_succ]; congr 1; omega
          rw [this] at hlt
          exact (Nat.div_lt_iff_lt_mul (by omega)).mpr hlt)
        simp only [List.length_append, List.length_cons, List.length_nil]; omega

theorem v6_mapM_hexVal : ∀ ds : List Nat, (∀ d ∈ ds, d < 16) → (ds.map hexDigit).mapM hexVal = some ds := by
  intro ds
  induction ds with
  | nil => intro _; rfl
  | cons d ds ih =>
    intro h
    simp only [List.map_cons, List.mapM_cons, v6_hexVal_hexDigit d (h d (by simp)),
      ih (fun x hx => h x (by simp [hx]))]
    rfl

/-- what the round trip needs from a written group -/
structure V6HexStr (s : Bytes) (g : Nat) : Prop where
  ne : s ≠ []
  no58 : ∀ c ∈ s, c ≠ 58
  no46 : ∀ c ∈ s, c ≠ 46
  parse : parseGroup s = some g

theorem v6_hexLower_ok (g : Nat) (h : g < 65536) : V6HexStr (hexLower g) g := by
  obtain ⟨ds, h1, h2, h3, h4, h5⟩ := v6_hexAux_spec (g + 1) g [] (by omega)
  have hlen := h5 4 (by omega) (by omega)
  unfold hexLower
  rw [h1, List.append_nil]
  refine ⟨by simpa using h2, ?_, ?_, ?_⟩
  · intro c hc
    obtain ⟨d, hd, rfl⟩ := List.mem_map.mp hc
    exact (v6_hexDigit_ne d (h3 d hd)).1
  · intro c hc
    obtain ⟨d, hd, rfl⟩ := List.mem_map.mp hc
    exact (v6_hexDigit_ne d (h3 d hd)).2
  · unfold parseGroup
    have : ¬ (ds.map hexDigit = [] ∨ (ds.map hexDigit).length > 4) := by
      simp only [List.map_eq_nil_iff, List.length_map]; intro hh; rcases hh with hh | hh
      · exact h2 hh
      · omega
    rw [if_neg this, v6_mapM_hexVal ds h3]
    simp only [Option.map_some, h4]

theorem parseGroup_hexLower (g : Nat) (h : g < 65536) : parseGroup (hexLower g) = some g :=
  (v6_hexLower_ok g h).parse

/-! ### 2. groups and their value -/

theorem v6_groups_eq (a : Nat) : groups a =
    [a / 2 ^ 112 % 65536, a / 2 ^ 96 % 65536, a / 2 ^ 80 % 65536, a / 2 ^ 64 % 65536,
     a / 2 ^ 48 % 65536, a / 2 ^ 32 % 65536, a / 2 ^ 16 % 65536, a / 2 ^ 0 % 65536] := rfl

theorem groups_length (a : Nat) : (groups a).length = 8 := rfl

theorem groups_lt (a : Nat) : ∀ g ∈ groups a, g < 65536 := by
  intro g hg
  unfold groups at hg
  obtain ⟨i, _, rfl⟩ := List.mem_map.mp hg
  exact Nat.mod_lt _ (by omega)

theorem groupsToNat_groups (a : Nat) (h : a < 2 ^ 128) : groupsToNat (groups a) = a := by
  rw [v6_groups_eq]
  simp only [groupsToNat, List.foldl_cons, List.foldl_nil]
  omega

theorem v6_foldl_acc : ∀ (ys : List Nat) (acc : Nat),
    ys.foldl (fun acc g => acc * 65536 + g) acc =
      acc * 65536 ^ ys.length + ys.foldl (fun acc g => acc * 65536 + g) 0 := by
  intro ys
  induction ys with
  | nil => intro acc; simp
  | cons y ys ih =>
    intro acc
    rw [List.foldl_cons, List.foldl_cons, ih, ih (0 * 65536 + y)]
    simp only [List.length_cons, Nat.pow_succ, Nat.add_mul, Nat.zero_mul, Nat.zero_add]
    rw [Nat.mul_assoc, Nat.mul_comm 65536 (65536 ^ ys.length)]; omega

theorem groupsToNat_append (xs ys : List Nat) :
    groupsToNat (xs ++ ys) = groupsToNat xs * 65536 ^ ys.length + groupsToNat ys := by
  unfold groupsToNat
  rw [List.foldl_append, v6_foldl_acc]

/-! ### 3. splitting at a separator, reading a run of groups -/

theorem v6_splitOn_none (sep : Nat) : ∀ (s cur : Bytes), (∀ c ∈ s, c ≠ sep) →
    splitOn sep s cur = [cur.reverse ++ s] := by
  intro s
  induction s with
  | nil => intro cur _; simp [splitOn]
  | cons c s ih =>
    intro cur h
    have hc : c ≠ sep := h c (by simp)
    rw [splitOn, if_neg hc, ih _ (fun x hx => h x (by simp [hx]))]
    simp

theorem v6_splitOn_sep (sep : Nat) : ∀ (s cur rest : Bytes), (∀ c ∈ s, c ≠ sep) →
    splitOn sep (s ++ sep :: rest) cur = (cur.reverse ++ s) :: splitOn sep rest [] := by
  intro s
  induction s with
  | nil => intro cur rest _; simp [splitOn]
  | cons c s ih =>
    intro cur rest h
    have hc : c ≠ sep := h c (by simp)
    rw [List.cons_append, splitOn, if_neg hc, ih _ _ (fun x hx => h x (by simp [hx]))]
    simp

theorem v6_joinColon_cons2 (g g' : Nat) (rest : List Nat) :
    joinColon (g :: g' :: rest) = hexLower g ++ 58 :: joinColon (g' :: rest) := by
  simp [joinColon]

theorem v6_splitOn_joinColon : ∀ gs : List Nat, gs ≠ [] → (∀ g ∈ gs, g < 65536) →
    splitOn 58 (joinColon gs) [] = gs.map hexLower := by
  intro gs
  induction gs with
  | nil => intro h; exact absurd rfl h
  | cons g rest ih =>
    intro _ hlt
    have hg := v6_hexLower_ok g (hlt g (by simp))
    cases rest with
    | nil => simp [joinColon, v6_splitOn_none 58 _ [] hg.no58]
    | cons g' rest =>
      rw [v6_joinColon_cons2, v6_splitOn_sep 58 _ _ _ hg.no58, ih (by simp) (fun x hx => hlt x (by simp [hx]))]
      simp

theorem v6_joinColon_ne_nil (g : Nat) (rest : List Nat) (hg : g < 65536) : joinColon (g :: rest) ≠ [] := by
  have := (v6_hexLower_ok g hg).ne
  cases rest with
  | nil => simpa [joinColon] using this
  | cons g' rest => rw [v6_joinColon_cons2]; simp [this]

theorem v6_mapM_parseGroup : ∀ gs : List Nat, (∀ g ∈ gs, g < 65536) →
    (gs.map hexLower).mapM parseGroup = some gs := by
  intro gs
  induction gs with
  | nil => intro _; rfl
  | cons g gs ih =>
    intro h
    simp only [List.map_cons, List.mapM_cons, parseGroup_hexLower g (h g (by simp)),
      ih (fun x hx => h x (by simp [hx]))]
    rfl

theorem parseGroups_nil (v : Bool) : parseGroups [] v = some [] := by simp [parseGroups]

theorem parseGroups_joinColon (gs : List Nat) (v : Bool) (hlt : ∀ g ∈ gs, g < 65536) :
    parseGroups (joinColon gs) v = some gs := by
  rcases List.eq_nil_or_concat gs with rfl | ⟨init, l, rfl⟩
  · simp [joinColon, parseGroups]
  · simp only [List.concat_eq_append] at *
    have hne : joinColon (init ++ [l]) ≠ [] := by
      cases init with
      | nil => exact v6_joinColon_ne_nil _ _ (hlt l (by simp))
      | cons g r => exact v6_joinColon_ne_nil _ _ (hlt g (by simp))
    have hl := v6_hexLower_ok l (hlt l (by simp))
    have h46 : (hexLower l).contains 46 = false := by
      rw [Bool.eq_false_iff]; intro hc
      exact hl.no46 46 (by simpa using hc) rfl
    unfold parseGroups
    rw [if_neg hne, v6_splitOn_joinColon _ (by simp) hlt]
    simp only [List.map_append, List.map_cons, List.map_nil, List.dropLast_concat,
      List.getLast?_concat, v6_mapM_parseGroup init (fun x hx => hlt x (by simp [hx])), h46,
      hl.parse, Option.map_some]
    simp

/-! ### 4. the position of `::` -/

theorem v6_fd_cons_ne (c : Nat) (s : Bytes) (i : Nat) (hc : c ≠ 58) :
    findDouble (c :: s) i = findDouble s (i + 1) := by
  cases s with
  | nil => simp [findDouble]
  | cons d r =>
    rw [findDouble]
    intros; simp_all

theorem v6_fd_58_ne (s : Bytes) (i : Nat) (hs : s.head? ≠ some 58) :
    findDouble (58 :: s) i = findDouble s (i + 1) := by
  cases s with
  | nil => simp [findDouble]
  | cons d r =>
    rw [findDouble]
    simp at hs; intros; simp_all

theorem v6_fd_58_58 (s : Bytes) (i : Nat) : findDouble (58 :: 58 :: s) i = some i := by
  simp [findDouble]

/-- a piece without `:` followed by a single `:` is skipped -/
theorem v6_fd_piece : ∀ (h t : Bytes) (i : Nat), (∀ c ∈ h, c ≠ 58) → t.head? ≠ some 58 →
    findDouble (h ++ 58 :: t) i = findDouble t (i + h.length + 1) := by
  intro h
  induction h with
  | nil => intro t i _ ht; simpa using v6_fd_58_ne t i ht
  | cons c h ih =>
    intro t i hc ht
    rw [List.cons_append, v6_fd_cons_ne _ _ _ (hc c (by simp)), ih t (i + 1) (fun x hx => hc x (by simp [hx])) ht]
    simp only [List.length_cons]; congr 1; omega

/-- a piece without `:` followed by `::` -/
theorem v6_fd_piece_dbl : ∀ (h t : Bytes) (i : Nat), (∀ c ∈ h, c ≠ 58) →
    findDouble (h ++ 58 :: 58 :: t) i = some (i + h.length) := by
  intro h
  induction h with
  | nil => intro t i _; simpa using v6_fd_58_58 t i
  | cons c h ih =>
    intro t i hc
    rw [List.cons_append, v6_fd_cons_ne _ _ _ (hc c (by simp)), ih t (i + 1) (fun x hx => hc x (by simp [hx]))]
    simp only [List.length_cons]; congr 1; omega

theorem v6_fd_no58 : ∀ (h : Bytes) (i : Nat), (∀ c ∈ h, c ≠ 58) → findDouble h i = none := by
  intro h
  induction h with
  | nil => intro i _; simp [findDouble]
  | cons c h ih =>
    intro i hc
    rw [v6_fd_cons_ne _ _ _ (hc c (by simp)), ih (i + 1) (fun x hx => hc x (by simp [hx]))]

theorem v6_joinColon_head (g : Nat) (rest : List Nat) (hg : g < 65536) :
    (joinColon (g :: rest)).head? ≠ some 58 := by
  have hh := v6_hexLower_ok g hg
  have : ∀ t : Bytes, (hexLower g ++ t).head? ≠ some 58 := by
    intro t
    cases hx : hexLower g with
    | nil => exact absurd hx hh.ne
    | cons c r =>
      have := hh.no58 c (by simp [hx])
      simpa using this
  cases rest with
  | nil => simpa [joinColon] using this []
  | cons g' rest => rw [v6_joinColon_cons2]; exact this _

/-- no `::` in an uncompressed run of groups -/
theorem findDouble_joinColon : ∀ (gs : List Nat) (i : Nat), (∀ g ∈ gs, g < 65536) →
    findDouble (joinColon gs) i = none := by
  intro gs
  induction gs with
  | nil => intro i _; simp [joinColon, findDouble]
  | cons g rest ih =>
    intro i hlt
    have hg := v6_hexLower_ok g (hlt g (by simp))
    cases rest with
    | nil => simpa [joinColon] using v6_fd_no58 _ i hg.no58
    | cons g' rest =>
      rw [v6_joinColon_cons2, v6_fd_piece _ _ _ hg.no58 (v6_joinColon_head g' rest (hlt g' (by simp)))]
      exact ih _ (fun x hx => hlt x (by simp [hx]))

/-- the first `::` of a compressed text is where the head ends -/
theorem findDouble_compressed : ∀ (xs : List Nat) (t : Bytes) (i : Nat), (∀ g ∈ xs, g < 65536) →
    findDouble (joinColon xs ++ 58 :: 58 :: t) i = some (i + (joinColon xs).length) := by
  intro xs
  induction xs with
  | nil => intro t i _; simpa [joinColon] using v6_fd_58_58 t i
  | cons g rest ih =>
    intro t i hlt
    have hg := v6_hexLower_ok g (hlt g (by simp))
    cases rest with
    | nil => simpa [joinColon] using v6_fd_piece_dbl _ t i hg.no58
    | cons g' rest =>
      have hhead : (joinColon (g' :: rest) ++ 58 :: 58 :: t).head? ≠ some 58 := by
        have h1 := v6_joinColon_head g' rest (hlt g' (by simp))
        have h2 := v6_joinColon_ne_nil g' rest (hlt g' (by simp))
        cases hj : joinColon (g' :: rest) with
        | nil => exact absurd hj h2
        | cons c r => rw [hj] at h1; simpa using h1
      rw [v6_joinColon_cons2, List.append_assoc, List.cons_append, v6_fd_piece _ _ _ hg.no58 hhead,
        ih t _ (fun x hx => hlt x (by simp [hx]))]
      simp only [List.length_append, List.length_cons]; congr 1; omega

/-! ### 5. the run found by `longestZeros` lies inside the list and holds zeros only -/

theorem v6_drop_cons {G : List Nat} {i g : Nat} {rest : List Nat} (h : G.drop i = g :: rest) :
    G[i]? = some g ∧ G.drop (i + 1) = rest ∧ i < G.length := by
  have hlt : i < G.length := by
    rcases Nat.lt_or_ge i G.length with h' | h'
    · exact h'
    · rw [List.drop_of_length_le h'] at h; cases h
  refine ⟨?_, ?_, hlt⟩
  · have := List.getElem?_drop (xs := G) (i := i) (j := 0)
    rw [h] at this; simpa using this.symm
  · have : G.drop (i + 1) = (G.drop i).drop 1 := by rw [List.drop_drop]
    rw [this, h]; rfl

theorem v6_longestZeros_inv (G : List Nat) : ∀ (gs : List Nat) (i cs cl ls ll : Nat),
    G.drop i = gs → i ≤ G.length →
    (cl = 0 ∨ cs + cl = i) → (∀ k, cs ≤ k → k < cs + cl → G[k]? = some 0) →
    ls + ll ≤ i → (∀ k, ls ≤ k → k < ls + ll → G[k]? = some 0) →
    (longestZeros gs i cs cl ls ll).1 + (longestZeros gs i cs cl ls ll).2 ≤ G.length ∧
      ∀ k, (longestZeros gs i cs cl ls ll).1 ≤ k →
        k < (longestZeros gs i cs cl ls ll).1 + (longestZeros gs i cs cl ls ll).2 → G[k]? = some 0 := by
  intro gs
  induction gs with
  | nil =>
    intro i cs cl ls ll _ hi _ _ hl hz
    simp only [longestZeros]
    exact ⟨by omega, hz⟩
  | cons g rest ih =>
    intro i cs cl ls ll hd hi hc hcz hl hz
    obtain ⟨hgi, hd', hlt⟩ := v6_drop_cons hd
    rw [longestZeros]
    by_cases hg : g = 0
    · subst hg
      have hc' : (cl + 1 = 0 ∨ (if cl = 0 then i else cs) + (cl + 1) = i + 1) := by
        right; split <;> omega
      have hcz' : ∀ k, (if cl = 0 then i else cs) ≤ k → k < (if cl = 0 then i else cs) + (cl + 1) →
          G[k]? = some 0 := by
        intro k h1 h2
        by_cases hk : k = i
        · rw [hk]; exact hgi
        · apply hcz k
          · split at h1 <;> omega
          · split at h2 <;> omega
      simp only [if_true]
      split
      · exact ih _ _ _ _ _ hd' hlt hc' hcz' (by split <;> omega) hcz'
      · exact ih _ _ _ _ _ hd' hlt hc' hcz' (by omega) hz
    · simp only [if_neg hg]
      exact ih _ _ _ _ _ hd' hlt (Or.inl rfl) (by intro k h1 h2; omega) (by omega) hz

theorem longestZeros_spec (gs : List Nat) :
    (longestZeros gs 0 0 0 0 0).1 + (longestZeros gs 0 0 0 0 0).2 ≤ gs.length ∧
      ∀ k, (longestZeros gs 0 0 0 0 0).1 ≤ k →
        k < (longestZeros gs 0 0 0 0 0).1 + (longestZeros gs 0 0 0 0 0).2 → gs[k]? = some 0 :=
  v6_longestZeros_inv gs gs 0 0 0 0 0 rfl (by omega) (Or.inl rfl) (by intro k _ h; omega) (by omega)
    (by intro k _ h; omega)

/-- cutting a run of zeros out and filling it in again -/
theorem v6_take_fill_drop (gs : List Nat) (st len : Nat) (h : st + len ≤ gs.length)
    (hz : ∀ k, st ≤ k → k < st + len → gs[k]? = some 0) :
    gs.take st ++ List.replicate len 0 ++ gs.drop (st + len) = gs := by
  apply List.ext_getElem?
  intro k
  by_cases h1 : k < st
  · rw [List.append_assoc, List.getElem?_append_left (by simp; omega), List.getElem?_take_of_lt h1]
  · by_cases h2 : k < st + len
    · rw [List.getElem?_append_left (by simp; omega), List.getElem?_append_right (by simp; omega),
        hz k (by omega) h2]
      simp only [List.length_take, List.getElem?_replicate]
      rw [if_pos (by omega)]
    · rw [List.getElem?_append_right (by simp; omega), List.getElem?_drop]
      simp only [List.length_append, List.length_take, List.length_replicate]
      congr 1; omega

/-! ### 6. the two general shapes -/

theorem parseV6_plain (gs : List Nat) (hlen : gs.length = 8) (hlt : ∀ g ∈ gs, g < 65536) :
    parseV6 (joinColon gs) = some (groupsToNat gs) := by
  unfold parseV6
  rw [findDouble_joinColon gs 0 hlt]
  simp only [parseGroups_joinColon gs true hlt, hlen, if_true]

theorem parseV6_compressed (xs ys : List Nat) (len : Nat) (hlen : xs.length + ys.length + len = 8)
    (hpos : 0 < len) (hx : ∀ g ∈ xs, g < 65536) (hy : ∀ g ∈ ys, g < 65536) :
    parseV6 (joinColon xs ++ [58, 58] ++ joinColon ys) = some (groupsToNat (xs ++ List.replicate len 0 ++ ys)) := by
  have htxt : joinColon xs ++ [58, 58] ++ joinColon ys = joinColon xs ++ 58 :: 58 :: joinColon ys := by simp
  have htake : (joinColon xs ++ 58 :: 58 :: joinColon ys).take (0 + (joinColon xs).length) = joinColon xs := by
    simp
  have hdrop : (joinColon xs ++ 58 :: 58 :: joinColon ys).drop (0 + (joinColon xs).length + 2) = joinColon ys := by
    rw [Nat.zero_add, List.drop_length_add_append]; rfl
  unfold parseV6
  rw [htxt, findDouble_compressed xs _ 0 hx]
  simp only [htake, hdrop, parseGroups_joinColon xs false hx, parseGroups_joinColon ys true hy]
  rw [if_pos (by omega)]
  have : 8 - xs.length - ys.length = len := by omega
  rw [this]

/-! ### 7. the IPv4-mapped form -/

set_option maxRecDepth 100000 in
theorem v6_octet : ∀ n, n < 256 →
    (parseOctet (decimal n) = some n ∧ (decimal n).all (fun c => c != 46 && c != 58) = true) := by
  decide

theorem v6_octet_parse (n : Nat) (h : n < 256) : parseOctet (decimal n) = some n := (v6_octet n h).1

theorem v6_octet_no46 (n : Nat) (h : n < 256) : ∀ c ∈ decimal n, c ≠ 46 := by
  intro c hc
  have := List.all_eq_true.mp (v6_octet n h).2 c hc
  simp at this; exact this.1

theorem v6_octet_no58 (n : Nat) (h : n < 256) : ∀ c ∈ decimal n, c ≠ 58 := by
  intro c hc
  have := List.all_eq_true.mp (v6_octet n h).2 c hc
  simp at this; exact this.2

theorem v6_splitOn_fmtV4 (v : Nat) : splitOn 46 (fmtV4 v) [] =
    [decimal (v / 2 ^ 24 % 256), decimal (v / 2 ^ 16 % 256), decimal (v / 2 ^ 8 % 256), decimal (v % 256)] := by
  have hm : ∀ x, x % 256 < 256 := fun x => Nat.mod_lt _ (by omega)
  unfold fmtV4
  simp only [List.append_assoc, List.cons_append, List.nil_append]
  rw [v6_splitOn_sep 46 _ _ _ (v6_octet_no46 _ (hm _)), v6_splitOn_sep 46 _ _ _ (v6_octet_no46 _ (hm _)),
    v6_splitOn_sep 46 _ _ _ (v6_octet_no46 _ (hm _)), v6_splitOn_none 46 _ _ (v6_octet_no46 _ (hm _))]
  simp

theorem v6_parseV4_fmtV4 (v : Nat) (h : v < 2 ^ 32) : parseV4 (fmtV4 v) = some v := by
  have hm : ∀ x, x % 256 < 256 := fun x => Nat.mod_lt _ (by omega)
  unfold parseV4
  rw [v6_splitOn_fmtV4]
  simp only [List.mapM_cons, List.mapM_nil, v6_octet_parse _ (hm _)]
  show some (_ : Nat) = some v
  congr 1; omega

theorem v6_fmtV4_no58 (v : Nat) : ∀ c ∈ fmtV4 v, c ≠ 58 := by
  have hm : ∀ x, x % 256 < 256 := fun x => Nat.mod_lt _ (by omega)
  intro c hc
  unfold fmtV4 at hc
  simp only [List.mem_append, List.mem_cons, List.not_mem_nil, or_false] at hc
  rcases hc with ((((((hc | hc) | hc) | hc) | hc) | hc) | hc)
  all_goals first | exact v6_octet_no58 _ (hm _) c hc | omega

theorem v6_fmtV4_has46 (v : Nat) : 46 ∈ fmtV4 v := by
  unfold fmtV4; simp

theorem parseV6_mapped (v : Nat) (h : v < 2 ^ 32) :
    parseV6 ([58, 58, 102, 102, 102, 102, 58] ++ fmtV4 v) = some (0xffff * 2 ^ 32 + v) := by
  have hfd : findDouble ([58, 58, 102, 102, 102, 102, 58] ++ fmtV4 v) 0 = some 0 := by
    simp [findDouble]
  have hsplit : splitOn 58 (102 :: 102 :: 102 :: 102 :: 58 :: fmtV4 v) [] = [[102, 102, 102, 102], fmtV4 v] := by
    have := v6_splitOn_sep 58 [102, 102, 102, 102] [] (fmtV4 v) (by decide)
    rw [v6_splitOn_none 58 _ [] (v6_fmtV4_no58 v)] at this
    simpa using this
  have hgrp : parseGroup [102, 102, 102, 102] = some 65535 := by decide
  have htail : parseGroups (102 :: 102 :: 102 :: 102 :: 58 :: fmtV4 v) true = some [65535, v / 65536, v % 65536] := by
    unfold parseGroups
    rw [if_neg (by simp), hsplit]
    simp [hgrp, v6_fmtV4_has46, v6_parseV4_fmtV4 v h]
  unfold parseV6
  rw [hfd]
  simp only [List.take_zero, parseGroups_nil]
  have : List.drop (0 + 2) ([58, 58, 102, 102, 102, 102, 58] ++ fmtV4 v) = 102 :: 102 :: 102 :: 102 :: 58 :: fmtV4 v := rfl
  rw [this, htail]
  simp only [List.length_nil, List.length_cons]
  rw [if_pos (by omega)]
  show some (groupsToNat ([] ++ [0, 0, 0, 0, 0] ++ [65535, v / 65536, v % 65536])) = _
  simp only [groupsToNat, List.nil_append, List.cons_append, List.foldl_cons, List.foldl_nil]
  exact congrArg some (by omega)

/-! ### the round trip -/

theorem parseV6_fmtV6 (a : Nat) (h : a < 2 ^ 128) : parseV6 (fmtV6 a) = some a := by
  unfold fmtV6
  split
  · rename_i hm
    have : a = 0xffff * 2 ^ 32 + a % 2 ^ 32 := by omega
    rw [parseV6_mapped (a % 2 ^ 32) (Nat.mod_lt _ (by omega))]
    exact congrArg some this.symm
  · have hspec := longestZeros_spec (groups a)
    have hlen := groups_length a
    have hlt := groups_lt a
    show parseV6 (match longestZeros (groups a) 0 0 0 0 0 with
      | (st, len) =>
        if len > 1 then joinColon (List.take st (groups a)) ++ [58, 58] ++ joinColon (List.drop (st + len) (groups a))
        else joinColon (groups a)) = some a
    generalize hlz : longestZeros (groups a) 0 0 0 0 0 = r at hspec ⊢
    obtain ⟨st, len⟩ := r
    simp only at hspec ⊢
    obtain ⟨hle, hz⟩ := hspec
    split
    · rename_i hl
      rw [parseV6_compressed _ _ len (by simp; omega) (by omega)
        (fun g hg => hlt g (List.mem_of_mem_take hg)) (fun g hg => hlt g (List.mem_of_mem_drop hg)),
        v6_take_fill_drop _ _ _ hle hz, groupsToNat_groups a h]
    · rw [parseV6_plain _ hlen hlt, groupsToNat_groups a h]
