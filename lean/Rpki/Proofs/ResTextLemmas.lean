/-
  Text form of resource sets (`Rpki/Model/ResText.lean`): what `decimal` writes, and that the readers
  give back what the writers wrote — AS numbers, AS blocks and AS sets; IPv4 octets, addresses,
  prefix lengths, blocks and sets.  (IPv6 addresses are not treated here.)
-/
import Rpki.Model.ResText
import Rpki.Proofs.ChainLemmas
import Rpki.Proofs.AsDerCodec
namespace Rpki.ResText
open Rpki.Chain

/-! ### decimal numbers -/

/-- the value read from a digit string -/
abbrev digVal (b : Bytes) : Nat := b.foldl (fun acc c => acc * 10 + (c - 48)) 0

theorem decAux_eq (fuel : Nat) : ∀ (n : Nat) (acc : Bytes), n < fuel →
    decAux fuel n acc = decAux (n + 1) n [] ++ acc := by
  induction fuel using Nat.strong_induction_on with
  | _ fuel ih =>
    intro n acc hn
    cases fuel with
    | zero => omega
    | succ fuel =>
      by_cases h10 : n < 10
      · simp only [decAux, h10, if_true, List.singleton_append]
      · have e1 : decAux (fuel + 1) n acc = decAux fuel (n / 10) ((48 + n % 10) :: acc) := by
          simp only [decAux, h10, if_false]
        have e2 : decAux (n + 1) n [] = decAux n (n / 10) [48 + n % 10] := by
          simp only [decAux, h10, if_false]
        have hlt : n / 10 < n := by omega
        rw [e1, e2]
        rw [ih fuel (by omega) (n / 10) _ (by omega)]
        by_cases hnf : n = fuel
        · subst hnf
          rw [ih n (by omega) (n / 10) [48 + n % 10] hlt]
          simp only [List.append_assoc, List.singleton_append]
        · rw [ih n (by omega) (n / 10) [48 + n % 10] hlt]
          simp only [List.append_assoc, List.singleton_append]

/-- `decimal` one digit at a time -/
theorem decimal_unfold (n : Nat) :
    decimal n = if n < 10 then [48 + n] else decimal (n / 10) ++ [48 + n % 10] := by
  unfold decimal
  by_cases h10 : n < 10
  · simp only [decAux, h10, if_true]
  · have e2 : decAux (n + 1) n [] = decAux n (n / 10) [48 + n % 10] := by
      simp only [decAux, h10, if_false]
    rw [e2, decAux_eq n (n / 10) _ (by omega)]
    simp only [h10, if_false]

theorem decimal_lt10 (n : Nat) (h : n < 10) : decimal n = [48 + n] := by
  rw [decimal_unfold]; simp only [h, if_true]

theorem decimal_ge10 (n : Nat) (h : ¬ n < 10) : decimal n = decimal (n / 10) ++ [48 + n % 10] := by
  rw [decimal_unfold]; simp only [h, if_false]

theorem decimal_digits (n : Nat) : (decimal n) ≠ [] ∧ ∀ c ∈ decimal n, 48 ≤ c ∧ c ≤ 57 := by
  induction n using Nat.strong_induction_on with
  | _ n ih =>
    by_cases h10 : n < 10
    · rw [decimal_lt10 n h10]
      refine ⟨by simp, ?_⟩
      intro c hc
      simp only [List.mem_singleton] at hc
      omega
    · rw [decimal_ge10 n h10]
      refine ⟨by simp, ?_⟩
      intro c hc
      rcases List.mem_append.1 hc with hc | hc
      · exact (ih (n / 10) (by omega)).2 c hc
      · simp only [List.mem_singleton] at hc
        omega

theorem decimal_value (n : Nat) : (decimal n).foldl (fun acc c => acc * 10 + (c - 48)) 0 = n := by
  induction n using Nat.strong_induction_on with
  | _ n ih =>
    by_cases h10 : n < 10
    · rw [decimal_lt10 n h10]
      simp only [List.foldl_cons, List.foldl_nil]
      omega
    · rw [decimal_ge10 n h10, List.foldl_append, ih (n / 10) (by omega)]
      simp only [List.foldl_cons, List.foldl_nil]
      omega

theorem decimal_head (n : Nat) : ∃ c r, decimal n = c :: r ∧ 48 ≤ c ∧ c ≤ 57 ∧ (0 < n → c ≠ 48) := by
  induction n using Nat.strong_induction_on with
  | _ n ih =>
    by_cases h10 : n < 10
    · exact ⟨48 + n, [], decimal_lt10 n h10, by omega, by omega, by omega⟩
    · obtain ⟨c, r, e, h1, h2, h3⟩ := ih (n / 10) (by omega)
      refine ⟨c, r ++ [48 + n % 10], ?_, h1, h2, fun _ => h3 (by omega)⟩
      rw [decimal_ge10 n h10, e, List.cons_append]

theorem decimal_no_leading_zero (n : Nat) (h : 0 < n) : (decimal n).head? ≠ some 48 := by
  obtain ⟨c, r, e, _, _, h3⟩ := decimal_head n
  rw [e]
  simp only [List.head?_cons, ne_eq, Option.some.injEq]
  exact h3 h

theorem decimal_all_digit (n : Nat) : (decimal n).all (fun c => decide (48 ≤ c) && decide (c ≤ 57)) = true := by
  rw [List.all_eq_true]
  intro c hc
  have := (decimal_digits n).2 c hc
  simp only [Bool.and_eq_true, decide_eq_true_eq]
  exact this

theorem decimal_all_isDigit (n : Nat) : (decimal n).all isDigit = true := decimal_all_digit n

/-- `u32::from_str` on a non-empty string of digits -/
theorem parseU32_digits (b : Bytes) (hne : b ≠ []) (hd : ∀ c ∈ b, 48 ≤ c ∧ c ≤ 57) :
    parseU32 b = if digVal b < 2 ^ 32 then some (digVal b) else none := by
  have hall : b.all (fun c => decide (48 ≤ c) && decide (c ≤ 57)) = true := by
    rw [List.all_eq_true]
    intro c hc
    have := hd c hc
    simp only [Bool.and_eq_true, decide_eq_true_eq]
    exact this
  unfold parseU32
  split
  · next r =>
      have := hd 43 (by simp)
      omega
  · simp only [hne, hall, if_true, if_false]

theorem parseU32_decimal (n : Nat) (h : n < 2 ^ 32) : parseU32 (decimal n) = some n := by
  rw [parseU32_digits _ (decimal_digits n).1 (decimal_digits n).2]
  simp only [digVal, decimal_value, h, if_true]

theorem decimal_injective (a b : Nat) (h : decimal a = decimal b) : a = b := by
  have ha := decimal_value a
  have hb := decimal_value b
  rw [h] at ha
  omega

theorem decimal_length (n : Nat) (h : n ≤ 999) : (decimal n).length ≤ 3 := by
  by_cases h1 : n < 10
  · rw [decimal_lt10 n h1]; simp
  · rw [decimal_ge10 n h1]
    by_cases h2 : n / 10 < 10
    · rw [decimal_lt10 _ h2]; simp
    · rw [decimal_ge10 _ h2, decimal_lt10 (n / 10 / 10) (by omega)]; simp

/-! ### pieces between commas -/

theorem splitComma_append (p : Bytes) (hp : ∀ c ∈ p, c ≠ 44) : ∀ (r cur : Bytes),
    splitComma (p ++ r) cur = splitComma r (p.reverse ++ cur) := by
  induction p with
  | nil => intro r cur; rfl
  | cons x p ih =>
    intro r cur
    have hx : x ≠ 44 := hp x (by simp)
    simp only [List.cons_append, splitComma, hx, if_false]
    rw [ih (fun c hc => hp c (by simp [hc]))]
    simp only [List.reverse_cons, List.append_assoc, List.singleton_append]

theorem splitComma_joinComma (p : Bytes) (ps : List Bytes) (h : ∀ q ∈ p :: ps, ∀ c ∈ q, c ≠ 44) :
    ∀ cur, splitComma (joinComma (p :: ps)) cur = (cur.reverse ++ p) :: ps.map (32 :: ·) := by
  induction ps generalizing p with
  | nil =>
    intro cur
    have := splitComma_append p (h p (by simp)) [] cur
    simp only [List.append_nil] at this
    simp only [joinComma, this, splitComma, List.reverse_append, List.reverse_reverse, List.map_nil]
  | cons q ps ih =>
    intro cur
    have e : joinComma (p :: q :: ps) = p ++ (44 :: 32 :: joinComma (q :: ps)) := by
      simp only [joinComma, List.append_assoc, List.cons_append, List.nil_append]
    rw [e, splitComma_append p (h p (by simp))]
    have h32 : (32 : Nat) ≠ 44 := by decide
    simp only [splitComma, if_true, h32, if_false]
    rw [ih q (fun r hr => h r (by simp only [List.mem_cons] at hr ⊢; exact Or.inr hr))]
    simp only [List.reverse_append, List.reverse_reverse, List.reverse_nil, List.nil_append,
      List.reverse_cons, List.singleton_append, List.map_cons]

theorem isWs_false (c : Nat) (h : 45 ≤ c) : isWs c = false := by
  unfold isWs
  have h1 : ¬ c = 32 := by omega
  have h2 : ¬ c ≤ 13 := by omega
  simp only [h1, h2, decide_false, Bool.and_false, Bool.or_false]

theorem dropWhile_isWs_self (p : Bytes) (h : ∀ c ∈ p, 45 ≤ c) : p.dropWhile isWs = p := by
  cases p with
  | nil => rfl
  | cons x p => simp only [List.dropWhile_cons, isWs_false x (h x (by simp))]; rfl

theorem trim_self (p : Bytes) (h : ∀ c ∈ p, 45 ≤ c) : trim p = p := by
  unfold trim
  rw [dropWhile_isWs_self p h, dropWhile_isWs_self p.reverse (fun c hc => h c (List.mem_reverse.1 hc)),
    List.reverse_reverse]

theorem trim_space (p : Bytes) : trim (32 :: p) = trim p := by
  have : isWs 32 = true := by decide
  simp only [trim, List.dropWhile_cons, this, if_true]

/-- the items `from_str` sees are the pieces that were joined: no piece is empty or holds a comma or
white space (every character written is at least `-`) -/
theorem items_joinComma (ps : List Bytes) (h : ∀ p ∈ ps, p ≠ [] ∧ ∀ c ∈ p, 45 ≤ c) :
    ((splitComma (joinComma ps) []).map trim).filter (· ≠ []) = ps := by
  cases ps with
  | nil => decide
  | cons p ps =>
    rw [splitComma_joinComma p ps (fun q hq c hc => by have := (h q hq).2 c hc; omega)]
    simp only [List.reverse_nil, List.nil_append, List.map_cons, List.map_map]
    have e : (trim ∘ fun x => 32 :: x) = trim := by
      funext x; exact trim_space x
    rw [e, ← List.map_cons]
    have e2 : (p :: ps).map trim = p :: ps := by
      rw [List.map_congr_left (g := id) (fun q hq => trim_self q (h q hq).2)]
      simp only [List.map_id]
    rw [e2, List.filter_eq_self]
    intro q hq
    simp only [ne_eq, decide_not, Bool.not_eq_eq_eq_not, Bool.not_true, decide_eq_false_iff_not]
    exact (h q hq).1

theorem mapM_map_some {α β : Type} (f : β → Option α) (g : α → β) (l : List α)
    (h : ∀ x ∈ l, f (g x) = some x) : (l.map g).mapM f = some l := by
  induction l with
  | nil => rfl
  | cons x l ih =>
    simp only [List.map_cons, List.mapM_cons, h x (by simp), ih (fun y hy => h y (by simp [hy]))]
    rfl

theorem mapM_map_some_map {α β γ : Type} (f : β → Option α) (g : α → β) (k : α → γ) (l : List α)
    (h : ∀ x ∈ l, (f (g x)).map k = some (k x)) :
    ((l.map g).mapM f).map (·.map k) = some (l.map k) := by
  induction l with
  | nil => rfl
  | cons x l ih =>
    have hx := h x (by simp)
    have hl := ih (fun y hy => h y (by simp [hy]))
    cases e1 : f (g x) with
    | none => rw [e1] at hx; simp at hx
    | some v =>
      rw [e1] at hx
      cases e2 : (l.map g).mapM f with
      | none => rw [e2] at hl; simp at hl
      | some vs =>
        rw [e2] at hl
        simp only [Option.map_some, Option.some.injEq] at hx hl
        simp only [List.map_cons, List.mapM_cons, e1, e2]
        simp only [Option.bind_eq_bind, Option.bind_some, Option.pure_def, Option.map_some, List.map_cons, hx, hl]

/-! ### AS text -/

theorem takeWhile_stop (sep : Nat) (p r : Bytes) (hp : ∀ c ∈ p, c ≠ sep) :
    (p ++ sep :: r).takeWhile (· ≠ sep) = p := by
  rw [List.takeWhile_append_of_pos (fun c hc => by simp only [ne_eq, decide_not, Bool.not_eq_eq_eq_not, Bool.not_true, decide_eq_false_iff_not]; exact hp c hc)]
  simp only [List.takeWhile_cons, ne_eq, not_true_eq_false, decide_false, Bool.false_eq_true, if_false, List.append_nil]

theorem takeWhile_all (sep : Nat) (p : Bytes) (hp : ∀ c ∈ p, c ≠ sep) :
    p.takeWhile (· ≠ sep) = p := by
  have := List.takeWhile_append_of_pos (p := fun x => decide (x ≠ sep)) (l₁ := p) (l₂ := [])
    (fun c hc => by
      simp only [ne_eq, decide_not, Bool.not_eq_eq_eq_not, Bool.not_true, decide_eq_false_iff_not]
      exact hp c hc)
  simpa only [List.append_nil, List.takeWhile_nil] using this

theorem parseAsn_fmt (n : Nat) (h : n < 2 ^ 32) : parseAsn (65 :: 83 :: decimal n) = some n := by
  unfold parseAsn stripAs
  simp only [decide_true, Bool.true_or, Bool.and_self, if_true]
  exact parseU32_decimal n h

theorem decimal_ne (n sep : Nat) (h : sep < 48) : ∀ c ∈ decimal n, c ≠ sep := by
  intro c hc
  have := (decimal_digits n).2 c hc
  omega

theorem parseAsBlock_fmt (b : Blk) (h1 : b.lo ≤ b.hi) (h2 : b.hi < 2 ^ 32) :
    parseAsBlock (fmtAsBlock b) = some b := by
  obtain ⟨lo, hi⟩ := b
  simp only at h1 h2
  unfold fmtAsBlock
  by_cases e : lo = hi
  · subst e
    simp only [if_true, List.cons_append, List.nil_append]
    unfold parseAsBlock
    have hall : ∀ c ∈ (65 :: 83 :: decimal lo), c ≠ 45 := by
      intro c hc
      simp only [List.mem_cons] at hc
      rcases hc with rfl | rfl | hc
      · decide
      · decide
      · exact decimal_ne lo 45 (by decide) c hc
    simp only [takeWhile_all 45 _ hall, if_true, parseAsn_fmt lo h2, Option.map_some]
  · simp only [e, if_false]
    have etxt : [65, 83] ++ decimal lo ++ [45, 65, 83] ++ decimal hi
        = (65 :: 83 :: decimal lo) ++ 45 :: (65 :: 83 :: decimal hi) := by
      simp only [List.cons_append, List.nil_append, List.append_assoc]
    rw [etxt]
    unfold parseAsBlock
    have hall : ∀ c ∈ (65 :: 83 :: decimal lo), c ≠ 45 := by
      intro c hc
      simp only [List.mem_cons] at hc
      rcases hc with rfl | rfl | hc
      · decide
      · decide
      · exact decimal_ne lo 45 (by decide) c hc
    have hlen : ¬ (65 :: 83 :: decimal lo).length
        = ((65 :: 83 :: decimal lo) ++ 45 :: (65 :: 83 :: decimal hi)).length := by
      simp only [List.length_append, List.length_cons]; omega
    have hdrop : ((65 :: 83 :: decimal lo) ++ 45 :: (65 :: 83 :: decimal hi)).drop
        ((65 :: 83 :: decimal lo).length + 1) = 65 :: 83 :: decimal hi := by
      rw [List.drop_append]
      simp only [List.length_cons, Nat.add_sub_cancel_left, List.drop_succ_cons, List.drop_zero]
      rw [List.drop_eq_nil_of_le (Nat.le_succ _)]
      rfl
    simp only [takeWhile_stop 45 _ _ hall, hlen, if_false, hdrop]
    have hne : ¬ (65 :: 83 :: decimal hi = []) := by simp
    simp only [hne, if_false, parseAsn_fmt lo (by omega), parseAsn_fmt hi h2]
    have : ¬ lo > hi := by omega
    simp only [this, if_false]

theorem fmtAsBlock_chars (b : Blk) : fmtAsBlock b ≠ [] ∧ ∀ c ∈ fmtAsBlock b, 45 ≤ c := by
  unfold fmtAsBlock
  split
  · refine ⟨by simp, ?_⟩
    intro c hc
    simp only [List.cons_append, List.nil_append, List.mem_cons] at hc
    rcases hc with rfl | rfl | hc
    · decide
    · decide
    · have := (decimal_digits b.lo).2 c hc; omega
  · refine ⟨by simp, ?_⟩
    intro c hc
    simp only [List.cons_append, List.nil_append, List.mem_cons, List.mem_append, List.append_assoc] at hc
    rcases hc with rfl | rfl | hc | rfl | rfl | rfl | hc
    · decide
    · decide
    · have := (decimal_digits b.lo).2 c hc; omega
    · decide
    · decide
    · decide
    · have := (decimal_digits b.hi).2 c hc; omega

theorem parseAsItems_fmt (c : List Blk) (h : ∀ b ∈ c, b.lo ≤ b.hi ∧ b.hi < 2 ^ 32) :
    parseAsItems (fmtAs c) = some c := by
  unfold parseAsItems fmtAs
  rw [items_joinComma]
  · exact mapM_map_some parseAsBlock fmtAsBlock c (fun b hb => parseAsBlock_fmt b (h b hb).1 (h b hb).2)
  · intro p hp
    obtain ⟨b, _, rfl⟩ := List.mem_map.1 hp
    exact fmtAsBlock_chars b

theorem parseAs_fmt (c : List Blk) (hc : Canon 4294967295 c) : parseAs (fmtAs c) = some c := by
  unfold parseAs
  rw [parseAsItems_fmt c (fun b hb => by have := hc.1 b hb; omega)]
  simp only [Option.map_some, AsDer.fromIter_canon_id 4294967295 c hc]

/-! ### IPv4 address text -/

theorem parseOctet_decimal (n : Nat) (h : n ≤ 255) : parseOctet (decimal n) = some n := by
  unfold parseOctet
  have hlen := decimal_length n (by omega)
  have hne := (decimal_digits n).1
  have h1 : ¬ (decimal n = [] ∨ (decimal n).length > 3 ∨ (!(decimal n).all isDigit) = true) := by
    rw [decimal_all_isDigit]
    simp only [Bool.not_true, Bool.false_eq_true, or_false]
    rintro (h' | h')
    · exact hne h'
    · omega
  have h2 : ¬ ((decimal n).length > 1 ∧ (decimal n).head? = some 48) := by
    rintro ⟨ha, hb⟩
    by_cases h0 : n = 0
    · subst h0
      rw [decimal_lt10 0 (by omega)] at ha
      simp only [List.length_cons, List.length_nil] at ha
      omega
    · exact decimal_no_leading_zero n (by omega) hb
  simp only [h1, h2, if_false, decimal_value, h, if_true]

theorem splitOn_append (sep : Nat) (p : Bytes) (hp : ∀ c ∈ p, c ≠ sep) : ∀ (r cur : Bytes),
    splitOn sep (p ++ r) cur = splitOn sep r (p.reverse ++ cur) := by
  induction p with
  | nil => intro r cur; rfl
  | cons x p ih =>
    intro r cur
    have hx : x ≠ sep := hp x (by simp)
    simp only [List.cons_append, splitOn, hx, if_false]
    rw [ih (fun c hc => hp c (by simp [hc]))]
    simp only [List.reverse_cons, List.append_assoc, List.singleton_append]

theorem splitOn_sep (sep : Nat) (p r : Bytes) (hp : ∀ c ∈ p, c ≠ sep) :
    splitOn sep (p ++ sep :: r) [] = p :: splitOn sep r [] := by
  rw [splitOn_append sep p hp]
  simp only [splitOn, if_true, List.append_nil, List.reverse_reverse]

theorem splitOn_last (sep : Nat) (p : Bytes) (hp : ∀ c ∈ p, c ≠ sep) :
    splitOn sep p [] = [p] := by
  have := splitOn_append sep p hp [] []
  simp only [List.append_nil] at this
  rw [this]
  simp only [splitOn, List.reverse_reverse]

theorem fmtV4_eq (a : Nat) : fmtV4 a =
    decimal (a / 2 ^ 24 % 256) ++ 46 :: (decimal (a / 2 ^ 16 % 256) ++ 46 ::
      (decimal (a / 2 ^ 8 % 256) ++ 46 :: decimal (a % 256))) := by
  unfold fmtV4
  simp only [List.append_assoc, List.cons_append, List.nil_append]

theorem parseV4_fmtV4 (a : Nat) (h : a < 2 ^ 32) : parseV4 (fmtV4 a) = some a := by
  unfold parseV4
  rw [fmtV4_eq, splitOn_sep 46 _ _ (decimal_ne _ 46 (by decide)),
    splitOn_sep 46 _ _ (decimal_ne _ 46 (by decide)), splitOn_sep 46 _ _ (decimal_ne _ 46 (by decide)),
    splitOn_last 46 _ (decimal_ne _ 46 (by decide))]
  simp only [List.mapM_cons, List.mapM_nil, parseOctet_decimal (a / 2 ^ 24 % 256) (by omega),
    parseOctet_decimal (a / 2 ^ 16 % 256) (by omega), parseOctet_decimal (a / 2 ^ 8 % 256) (by omega),
    parseOctet_decimal (a % 256) (by omega), Option.bind_eq_bind, Option.bind_some, Option.pure_def,
    Option.some.injEq]
  omega

theorem parseLen_decimal (n : Nat) (h : n ≤ 255) : parseLen (decimal n) = some n := by
  unfold parseLen
  have hne := (decimal_digits n).1
  split
  · next r heq =>
      have := (decimal_digits n).2 43 (by rw [heq]; simp)
      omega
  · have h1 : ¬ (decimal n = [] ∨ (!(decimal n).all isDigit) = true) := by
      rw [decimal_all_isDigit]
      simp only [Bool.not_true, Bool.false_eq_true, or_false]
      exact hne
    simp only [h1, if_false, decimal_value, h, if_true]

/-! ### IPv4 blocks and sets -/

/-- an IPv4 block as the chain stores it: the address in the upper 32 of 128 bits, a prefix of at most
32 bits with its host bits clear, a range from the first to the last 128-bit value of its ends -/
def V4Shaped : TBlk → Prop
  | .pfx a len => len ≤ 32 ∧ a % 2 ^ 96 = 0 ∧ a < 2 ^ 128 ∧ a / 2 ^ (128 - len) * 2 ^ (128 - len) = a
  | .range lo hi => lo % 2 ^ 96 = 0 ∧ hi % 2 ^ 96 = 2 ^ 96 - 1 ∧ lo ≤ hi ∧ hi < 2 ^ 128

theorem fmtV4_chars (a : Nat) : fmtV4 a ≠ [] ∧ ∀ c ∈ fmtV4 a, 46 ≤ c ∧ c ≤ 57 ∧ c ≠ 47 := by
  rw [fmtV4_eq]
  refine ⟨?_, ?_⟩
  · have := (decimal_digits (a / 2 ^ 24 % 256)).1
    simp only [ne_eq, List.append_eq_nil_iff, this, false_and, not_false_eq_true]
  · intro c hc
    simp only [List.mem_append, List.mem_cons] at hc
    rcases hc with hc | rfl | hc | rfl | hc | rfl | hc
    · have := (decimal_digits _).2 c hc; omega
    · decide
    · have := (decimal_digits _).2 c hc; omega
    · decide
    · have := (decimal_digits _).2 c hc; omega
    · decide
    · have := (decimal_digits _).2 c hc; omega

theorem findSep_none (sep : Nat) (b : Bytes) (hb : ∀ c ∈ b, c ≠ sep) : findSep sep b = none := by
  unfold findSep
  simp only [takeWhile_all sep b hb, if_true]

theorem findSep_some (sep : Nat) (p r : Bytes) (hp : ∀ c ∈ p, c ≠ sep) :
    findSep sep (p ++ sep :: r) = some p.length := by
  unfold findSep
  have : ¬ p.length = (p ++ sep :: r).length := by
    simp only [List.length_append, List.length_cons]; omega
  simp only [takeWhile_stop sep p r hp, this, if_false]

theorem take_left' (p r : Bytes) : (p ++ r).take p.length = p := by
  simp only [List.take_left']

theorem drop_sep (p r : Bytes) (x : Nat) : (p ++ x :: r).drop (p.length + 1) = r := by
  rw [List.drop_append]
  simp only [Nat.add_sub_cancel_left, List.drop_succ_cons, List.drop_zero]
  rw [List.drop_eq_nil_of_le (Nat.le_succ _)]
  rfl

theorem parseAddr_fmt_v4 (x : Nat) (h : x < 2 ^ 128) :
    parseAddr true (fmtAddr true x) = some (x / 2 ^ 96 * 2 ^ 96) := by
  unfold parseAddr fmtAddr
  simp only [if_true, parseV4_fmtV4 (x / 2 ^ 96) (by omega), Option.map_some]

theorem fmtAddr_v4_chars (x : Nat) : fmtAddr true x ≠ [] ∧ ∀ c ∈ fmtAddr true x, 46 ≤ c ∧ c ≤ 57 ∧ c ≠ 47 := by
  unfold fmtAddr
  simp only [if_true]
  exact fmtV4_chars _

theorem parseIpBlock_fmt_v4 (t : TBlk) (h : V4Shaped t) :
    (parseIpBlock true (fmtBlock true t)).map tblkBounds = some (tblkBounds t) := by
  cases t with
  | pfx a len =>
    obtain ⟨hlen, ha0, ha, hal⟩ := h
    have hch := (fmtAddr_v4_chars a).2
    have hpa : parseAddr true (fmtAddr true a) = some a := by
      rw [parseAddr_fmt_v4 a ha]; congr 1; omega
    by_cases h32 : len = 32
    · subst h32
      simp only [fmtBlock, if_true, List.append_nil]
      unfold parseIpBlock
      rw [findSep_none 47 _ (fun c hc => (hch c hc).2.2)]
      simp only
      rw [findSep_none 45 _ (fun c hc => by have := hch c hc; omega)]
      simp only [hpa, Option.map_some, if_true, tblkBounds, hostMask, Nat.reduceSub]
    · simp only [fmtBlock, if_true, h32, if_false, List.singleton_append]
      unfold parseIpBlock
      rw [findSep_some 47 _ _ (fun c hc => (hch c hc).2.2)]
      simp only [take_left', drop_sep, hpa, parseLen_decimal len (by omega), if_true]
      have : ¬ len > 32 := by omega
      simp only [this, if_false, hal, Option.map_some]
  | range lo hi =>
    obtain ⟨hlo, hhi, hle, hlt⟩ := h
    have hcl := (fmtAddr_v4_chars lo).2
    have hch := (fmtAddr_v4_chars hi).2
    have hpl : parseAddr true (fmtAddr true lo) = some lo := by
      rw [parseAddr_fmt_v4 lo (by omega)]; congr 1; omega
    have hph := parseAddr_fmt_v4 hi hlt
    by_cases hq : lo / 2 ^ 96 = hi / 2 ^ 96
    · -- one IPv4 address: written as the address alone, read back as the range over its low 96 bits
      simp only [fmtBlock, if_true, hq]
      unfold parseIpBlock
      rw [findSep_none 47 _ (fun c hc => (hcl c hc).2.2)]
      simp only
      rw [findSep_none 45 _ (fun c hc => by have := hcl c hc; omega)]
      simp only [hpl, Option.map_some, if_true, tblkBounds]
      congr 2
      omega
    · simp only [fmtBlock, if_true, hq, if_false, List.append_assoc, List.singleton_append]
      unfold parseIpBlock
      rw [findSep_none 47 _ (fun c hc => by
        simp only [List.mem_append, List.mem_cons] at hc
        rcases hc with hc | rfl | hc
        · exact (hcl c hc).2.2
        · decide
        · exact (hch c hc).2.2)]
      simp only
      rw [findSep_some 45 _ _ (fun c hc => by have := hcl c hc; omega)]
      simp only [take_left', drop_sep, hpl, hph, if_true, Option.map_some, tblkBounds]
      congr 2
      omega

theorem fmtBlock_v4_chars (t : TBlk) : fmtBlock true t ≠ [] ∧ ∀ c ∈ fmtBlock true t, 45 ≤ c ∧ c ≤ 57 := by
  have hA := fun x => fmtAddr_v4_chars x
  cases t with
  | pfx a len =>
    simp only [fmtBlock, if_true]
    refine ⟨by simp only [ne_eq, List.append_eq_nil_iff, (hA a).1, false_and, not_false_eq_true], ?_⟩
    intro c hc
    rcases List.mem_append.1 hc with hc | hc
    · have := (hA a).2 c hc; omega
    · split at hc
      · simp at hc
      · simp only [List.singleton_append, List.mem_cons] at hc
        rcases hc with rfl | hc
        · decide
        · have := (decimal_digits len).2 c hc; omega
  | range lo hi =>
    by_cases hq : lo / 2 ^ 96 = hi / 2 ^ 96
    · simp only [fmtBlock, if_true, hq]
      exact ⟨(hA lo).1, fun c hc => by have := (hA lo).2 c hc; omega⟩
    · simp only [fmtBlock, if_true, hq, if_false]
      refine ⟨by simp only [ne_eq, List.append_eq_nil_iff, (hA lo).1, false_and, not_false_eq_true], ?_⟩
      intro c hc
      simp only [List.mem_append, List.mem_singleton] at hc
      rcases hc with (hc | rfl) | hc
      · have := (hA lo).2 c hc; omega
      · decide
      · have := (hA hi).2 c hc; omega

theorem parseIpItems_fmt_v4 (ts : List TBlk) (h : ∀ t ∈ ts, V4Shaped t) :
    (parseIpItems true (fmtIp true ts)).map (·.map tblkBounds) = some (ts.map tblkBounds) := by
  unfold parseIpItems fmtIp
  simp only [if_true]
  rw [items_joinComma]
  · have hany : (ts.map (fmtBlock true)).any (·.contains 58) = false := by
      rw [List.any_eq_false]
      intro p hp
      obtain ⟨t, _, rfl⟩ := List.mem_map.1 hp
      simp only [List.contains_eq_mem, decide_eq_true_eq]
      intro hc
      have := (fmtBlock_v4_chars t).2 58 hc
      omega
    simp only [hany, Bool.false_eq_true, if_false]
    exact mapM_map_some_map (parseIpBlock true) (fmtBlock true) tblkBounds ts
      (fun t ht => parseIpBlock_fmt_v4 t (h t ht))
  · intro p hp
    obtain ⟨t, _, rfl⟩ := List.mem_map.1 hp
    exact ⟨(fmtBlock_v4_chars t).1, fun c hc => ((fmtBlock_v4_chars t).2 c hc).1⟩

end Rpki.ResText
