/-
  DER codec of the RFC 3779 AS resources extension: the u32 INTEGER content codec, one block,
  the SEQUENCE OF blocks and the extension value — round trip and soundness of the reader.
-/
import Rpki.Model.AsDer
import Rpki.Proofs.DerLemmas
import Rpki.Proofs.ManifestCodec
import Rpki.Proofs.ChainFromIter
import Rpki.Proofs.ChainLemmas
namespace Rpki.AsDer
open Rpki.Der Rpki.Chain

/-! ### the u32 INTEGER content -/

theorem beOctets4 (n : Nat) (h : n < 2 ^ 32) :
    beOctets 4 n =
      if n = 0 then []
      else if n < 256 then [n]
      else if n < 65536 then [n / 256, n % 256]
      else if n < 16777216 then [n / 65536, n / 256 % 256, n % 256]
      else [n / 16777216, n / 65536 % 256, n / 256 % 256, n % 256] := by
  by_cases h0 : n = 0
  · simp [h0, beOctets]
  · by_cases h1 : n < 256
    · have a : n / 256 = 0 := by omega
      simp [beOctets, h0, h1, a]
    · by_cases h2 : n < 65536
      · have a : n / 256 ≠ 0 := by omega
        have b : n / 256 / 256 = 0 := by omega
        have c : n / 256 % 256 = n / 256 := by omega
        simp [beOctets, h0, h1, h2, a, b, c]
      · by_cases h3 : n < 16777216
        · have a : n / 256 ≠ 0 := by omega
          have b : n / 256 / 256 ≠ 0 := by omega
          have c : n / 256 / 256 / 256 = 0 := by omega
          have d : n / 256 / 256 % 256 = n / 65536 := by omega
          simp [beOctets, h0, h1, h2, h3, a, b, c, d]
        · have a : n / 256 ≠ 0 := by omega
          have b : n / 256 / 256 ≠ 0 := by omega
          have c : n / 256 / 256 / 256 ≠ 0 := by omega
          have d : n / 256 / 256 % 256 = n / 65536 % 256 := by omega
          have e : n / 256 / 256 / 256 % 256 = n / 16777216 := by omega
          simp [beOctets, h0, h1, h2, h3, a, b, c, d, e]


theorem decodeU32_encodeU32 (n : Nat) (h : n < 2 ^ 32) : decodeU32 (encodeU32 n) = some n := by
  unfold encodeU32
  by_cases h0 : n = 0
  · subst h0; simp [decodeU32, toNatBE]
  · simp only [h0, if_false, beOctets4 n h]
    by_cases h1 : n < 256
    · simp only [h1, if_true, List.headD_cons]
      by_cases t : n ≥ 128
      · simp only [t, if_true]
        have : ¬ n < 128 := by omega
        simp [decodeU32, toNatBE, this]
      · simp only [t, if_false]
        simp [decodeU32, toNatBE, t, h0]
    · simp only [h1, if_false]
      by_cases h2 : n < 65536
      · simp only [h2, if_true, List.headD_cons]
        have e : n / 256 * 256 + n % 256 = n := by omega
        by_cases t : n / 256 ≥ 128
        · simp only [t, if_true]
          have : ¬ n / 256 < 128 := by omega
          simp [decodeU32, toNatBE, this, e]
        · simp only [t, if_false]
          have : n / 256 ≠ 0 := by omega
          simp [decodeU32, toNatBE, t, this, e]
      · simp only [h2, if_false]
        by_cases h3 : n < 16777216
        · simp only [h3, if_true, List.headD_cons]
          have e : n / 65536 * 65536 + (n / 256 % 256 * 256 + n % 256) = n := by omega
          by_cases t : n / 65536 ≥ 128
          · simp only [t, if_true]
            have : ¬ n / 65536 < 128 := by omega
            simp [decodeU32, toNatBE, this, e]
          · simp only [t, if_false]
            have : n / 65536 ≠ 0 := by omega
            simp [decodeU32, toNatBE, t, this, e]
        · simp only [h3, if_false, List.headD_cons]
          have e : n / 16777216 * 16777216 + (n / 65536 % 256 * 65536 + (n / 256 % 256 * 256 + n % 256)) = n := by
            omega
          by_cases t : n / 16777216 ≥ 128
          · simp only [t, if_true]
            have : ¬ n / 16777216 < 128 := by omega
            simp [decodeU32, toNatBE, this, e]
          · simp only [t, if_false]
            have : n / 16777216 ≠ 0 := by omega
            simp [decodeU32, toNatBE, t, this, e]

theorem beOctets_length_le : ∀ (fuel n : Nat), (beOctets fuel n).length ≤ fuel := by
  intro fuel
  induction fuel with
  | zero => intro n; simp [beOctets]
  | succ f ih =>
    intro n
    unfold beOctets
    split
    · simp
    · have := ih (n / 256)
      simp only [List.length_append, List.length_cons, List.length_nil]
      omega

theorem encodeU32_length (n : Nat) (h : n < 2 ^ 32) :
    1 ≤ (encodeU32 n).length ∧ (encodeU32 n).length ≤ 5 := by
  have _ := h
  have hl := beOctets_length_le 4 n
  unfold encodeU32
  by_cases h0 : n = 0
  · simp [h0]
  · simp only [h0, if_false]
    have h1 : 1 ≤ (beOctets 4 n).length := by
      rw [beOctets]
      simp only [h0, if_false, List.length_append, List.length_cons, List.length_nil]
      omega
    split
    · simp only [List.length_cons]; omega
    · omega


theorem toNatBE_lt : ∀ (c : Bytes), (∀ x ∈ c, x < 256) → toNatBE c < 256 ^ c.length := by
  intro c
  induction c with
  | nil => intro _; simp [toNatBE]
  | cons b bs ih =>
    intro hb
    have h1 : b < 256 := hb b (List.mem_cons_self ..)
    have h2 := ih (fun x hx => hb x (List.mem_cons_of_mem _ hx))
    simp only [toNatBE, List.length_cons, Nat.pow_succ]
    have h3 : b * 256 ^ bs.length ≤ 255 * 256 ^ bs.length := Nat.mul_le_mul_right _ (by omega)
    omega

/-- what the reader accepts is a value below 2^32 -/
theorem decodeU32_lt (c : Bytes) (n : Nat) (hb : ∀ x ∈ c, x < 256) (h : decodeU32 c = some n) :
    n < 2 ^ 32 := by
  have key : ∀ v : Bytes, (∀ x ∈ v, x < 256) → ¬ v.length > 4 → toNatBE v < 2 ^ 32 := by
    intro v hv hl
    have h1 := toNatBE_lt v hv
    have h2 : 256 ^ v.length ≤ 256 ^ 4 := Nat.pow_le_pow_right (by decide) (by omega)
    have h3 : (256 : Nat) ^ 4 = 2 ^ 32 := by decide
    omega
  cases c with
  | nil => simp [decodeU32] at h
  | cons b0 rest =>
    unfold decodeU32 at h
    simp only at h
    by_cases c1 : b0 ≥ 128
    · rw [if_pos c1] at h; cases h
    · simp only [c1, if_false] at h
      by_cases c2 : b0 = 0 ∧ rest ≠ [] ∧ rest.headD 0 < 128
      · rw [if_pos c2] at h; cases h
      · simp only [c2, if_false] at h
        by_cases c3 : b0 = 0
        · simp only [c3, if_true] at h
          by_cases c4 : rest.length > 4
          · rw [if_pos c4] at h; cases h
          · simp only [c4, if_false, Option.some.injEq] at h
            subst h
            exact key _ (fun x hx => hb x (List.mem_cons_of_mem _ hx)) c4
        · simp only [c3, if_false] at h
          by_cases c4 : (b0 :: rest).length > 4
          · simp only [c4, if_true] at h; cases h
          · simp only [c4, if_false, Option.some.injEq] at h
            subst h
            exact key _ hb c4


/-! ### one block -/

theorem takeOptBlock_encode (b : Blk) (hb : b.lo ≤ b.hi ∧ b.hi < 2 ^ 32) (rest : Bytes) :
    takeOptBlock (encodeBlock b ++ rest) = .ok b rest := by
  obtain ⟨b1, b2⟩ := hb
  have hlo : b.lo < 2 ^ 32 := by omega
  have l1 := encodeU32_length b.lo hlo
  have l2 := encodeU32_length b.hi b2
  have d1 := decodeU32_encodeU32 b.lo hlo
  have d2 := decodeU32_encodeU32 b.hi b2
  unfold encodeBlock
  by_cases he : b.lo = b.hi
  · simp only [he, if_true]
    have hr := readTlv_tlv tagInt (encodeU32 b.hi) rest (by decide) (by omega)
    rw [tlv_append] at hr ⊢
    have e1 : ¬ tagInt % 32 = 31 := by decide
    have e2 : tagNoCons tagInt = tagInt := by decide
    have e3 : isCons tagInt = false := by decide
    simp only [takeOptBlock, e1, if_false, hr, e2, if_true, e3, Bool.false_eq_true, d2]
    cases b; simp_all
  · simp only [he, if_false]
    have t1 := Manifest.tlv_length tagInt (encodeU32 b.lo)
    have t2 := Manifest.tlv_length tagInt (encodeU32 b.hi)
    have hr := readTlv_tlv tagSeq (tlv tagInt (encodeU32 b.lo) ++ tlv tagInt (encodeU32 b.hi)) rest
      (by decide) (by simp only [List.length_append]; omega)
    have p1 := takePrim_tlv tagInt (encodeU32 b.lo) (tlv tagInt (encodeU32 b.hi)) (by decide) (by decide)
      (by omega)
    have p2 := takePrim_tlv tagInt (encodeU32 b.hi) [] (by decide) (by decide) (by omega)
    rw [List.append_nil] at p2
    rw [tlv_append] at hr ⊢
    have e1 : ¬ tagSeq % 32 = 31 := by decide
    have e2 : ¬ (16 : Nat) = tagInt := by decide
    have e3 : tagNoCons tagSeq = 0x10 := by decide
    have e4 : isCons tagSeq = true := by decide
    have e5 : ¬ b.lo > b.hi := by omega
    simp only [takeOptBlock, e1, if_false, hr, e2, e3, if_true, e4, Bool.not_true, Bool.false_eq_true,
      p1, p2, d1, d2, ne_eq, not_true_eq_false, e5]

theorem takeOptBlock_nil : takeOptBlock [] = .absent := rfl


/-! ### the canonical chain -/

/-- a canonical chain is a fixed point of `from_iter` -/
theorem fromIter_canon_id (M : Nat) (c : List Blk) (hc : Canon M c) : fromIter M c = c := by
  obtain ⟨h1, h2⟩ := fromIter_spec' M c hc.1
  exact canon_unique' M _ _ h1 hc h2

/-! ### the SEQUENCE OF blocks: more fuel than blocks suffices -/

theorem encodeBlock_length (b : Blk) : 2 ≤ (encodeBlock b).length := by
  unfold encodeBlock
  split
  · have := Manifest.tlv_length tagInt (encodeU32 b.lo); omega
  · have := Manifest.tlv_length tagSeq (tlv tagInt (encodeU32 b.lo) ++ tlv tagInt (encodeU32 b.hi)); omega

theorem length_le_encodeBlocks (c : List Blk) : c.length ≤ ((c.map encodeBlock).flatten).length := by
  induction c with
  | nil => simp
  | cons b bs ih =>
    have := encodeBlock_length b
    simp only [List.map_cons, List.flatten_cons, List.length_append, List.length_cons]
    omega

theorem blocksLoop_encode : ∀ (c : List Blk) (fuel : Nat), c.length ≤ fuel →
    (∀ b ∈ c, b.lo ≤ b.hi ∧ b.hi < 2 ^ 32) →
    blocksLoop fuel ((c.map encodeBlock).flatten) = some c := by
  intro c
  induction c with
  | nil =>
    intro fuel _ _
    cases fuel with
    | zero => simp [blocksLoop]
    | succ f => simp [blocksLoop, takeOptBlock_nil]
  | cons b bs ih =>
    intro fuel hf hv
    cases fuel with
    | zero => simp at hf
    | succ f =>
      rw [List.map_cons, List.flatten_cons, blocksLoop, takeOptBlock_encode b (hv b (List.mem_cons_self ..))]
      simp only
      rw [ih f (by simpa using hf) (fun x hx => hv x (List.mem_cons_of_mem _ hx))]
      rfl

theorem canon_maxAs_blocks (c : List Blk) (hc : Canon maxAs c) :
    ∀ b ∈ c, b.lo ≤ b.hi ∧ b.hi < 2 ^ 32 := by
  intro b hb
  have := hc.1 b hb
  have e : maxAs = 4294967295 := by decide
  rw [e] at this
  omega

theorem decodeBlocks_encode (c : List Blk) (hc : Canon maxAs c) :
    decodeBlocks ((c.map encodeBlock).flatten) = some c := by
  unfold decodeBlocks
  rw [blocksLoop_encode c _ (length_le_encodeBlocks c) (canon_maxAs_blocks c hc)]
  simp only [Option.map_some, fromIter_canon_id maxAs c hc]


/-! ### one value of any length

A canonical AS chain can have 2^31 blocks of up to 16 octets each, so the content of the
SEQUENCE OF is not bounded by 2^32.  In the model octets are natural numbers and `encLen` puts the
whole quotient `n / 2^24` into the first length octet of the four-octet form, which `readLen`
reads back; `readLen_encLen` therefore holds without the size bound of `DerLemmas`. -/

theorem readLen_encLen' (n : Nat) (rest : Bytes) : readLen (encLen n ++ rest) = some (n, rest) := by
  by_cases h : n < 2 ^ 32
  · exact readLen_encLen n rest h
  · unfold encLen
    have h1 : ¬ n < 0x80 := by omega
    have h2 : ¬ n < 0x100 := by omega
    have h3 : ¬ n < 0x10000 := by omega
    have h4 : ¬ n < 0x1000000 := by omega
    simp only [h1, h2, h3, h4, if_false, List.cons_append, List.nil_append, readLen]
    have e : n / 16777216 * 16777216 + n / 65536 % 256 * 65536 + n / 256 % 256 * 256 + n % 256 = n := by
      omega
    have : n > 0xFFFFFF := by omega
    simp [e, this]

theorem readTlv_tlv' (t : Nat) (c rest : Bytes) (ht : t % 32 ≠ 31) :
    readTlv (tlv t c ++ rest) = some (t, c, rest) := by
  rw [tlv_append]
  simp only [readTlv, ht, if_false, readLen_encLen']
  have hl : ¬ (c ++ rest).length < c.length := by simp [List.length_append]
  simp only [hl, if_false, List.take_left', List.drop_left']

theorem takeCons_tlv' (tag : Nat) (c rest : Bytes) (ht : tag % 32 ≠ 31) (hcons : isCons tag = true) :
    takeCons tag (tlv tag c ++ rest) = some (c, rest) := by
  have hr := readTlv_tlv' tag c rest ht
  rw [tlv_append] at hr ⊢
  simp only [takeCons, takeOptCons, ht, if_false, ne_eq, not_true_eq_false, hcons, Bool.not_true,
    Bool.false_eq_true, hr]

/-! ### the extension value -/

/-- the part of `decodeExt` after the two wrappers have been opened -/
theorem decodeExt_wrap (inner : Bytes) :
    decodeExt (tlv tagSeq (tlv 0xA0 inner)) =
      match inner with
      | [] => none
      | t :: _ =>
        if t % 32 = 31 then none
        else match readTlv inner with
          | none => none
          | some (_, v, r2) =>
            if r2 ≠ [] then none
            else if tagNoCons t = tagNull then (if isCons t ∨ v ≠ [] then none else some .inherit)
            else if tagNoCons t = 0x10 then (if !isCons t then none else (decodeBlocks v).map .blocks)
            else none := by
  have h1 := takeCons_tlv' tagSeq (tlv 0xA0 inner) [] (by decide) (by decide)
  have h2 := takeCons_tlv' 0xA0 inner [] (by decide) (by decide)
  rw [List.append_nil] at h1 h2
  unfold decodeExt
  simp only [h1, h2, ne_eq, not_true_eq_false, if_false]
  cases inner with
  | nil => rfl
  | cons t tl => rfl

/-- **round trip**: the extension written for a canonical set decodes to exactly that -/
theorem decodeExt_encodeExt_blocks (c : List Blk) (hc : Canon maxAs c) :
    decodeExt (encodeExt (.blocks c)) = some (.blocks c) := by
  unfold encodeExt
  rw [decodeExt_wrap]
  have hr := readTlv_tlv' tagSeq ((c.map encodeBlock).flatten) [] (by decide)
  rw [List.append_nil] at hr
  have e0 : tlv tagSeq ((c.map encodeBlock).flatten)
      = tagSeq :: (encLen ((c.map encodeBlock).flatten).length ++ (c.map encodeBlock).flatten) := rfl
  rw [e0] at hr ⊢
  have e1 : ¬ tagSeq % 32 = 31 := by decide
  have e2 : ¬ (16 : Nat) = tagNull := by decide
  have e3 : tagNoCons tagSeq = 0x10 := by decide
  have e4 : isCons tagSeq = true := by decide
  simp only [e1, if_false, hr, ne_eq, not_true_eq_false, e2, e3, if_true, e4, Bool.not_true,
    Bool.false_eq_true, decodeBlocks_encode c hc, Option.map_some]

theorem decodeExt_encodeExt_inherit : decodeExt (encodeExt .inherit) = some .inherit := by decide


/-! ### soundness: the octets the readers hand on are octets of the input -/

theorem readLen_sub (r : Bytes) (l : Nat) (r' : Bytes) (h : readLen r = some (l, r')) :
    ∀ x ∈ r', x ∈ r := by
  intro x hx
  cases r with
  | nil => simp [readLen] at h
  | cons n r =>
    simp only [readLen] at h
    by_cases c0 : n < 128
    · simp only [c0, if_true, Option.some.injEq, Prod.mk.injEq] at h
      rw [← h.2] at hx; exact List.mem_cons_of_mem _ hx
    · simp only [c0, if_false] at h
      by_cases c1 : n = 0x81
      · simp only [c1, if_true] at h
        match r, h with
        | [], h => cases h
        | a :: r1, h =>
          simp only at h
          split at h
          · simp only [Option.some.injEq, Prod.mk.injEq] at h
            rw [← h.2] at hx; simp [hx]
          · cases h
      · simp only [c1, if_false] at h
        by_cases c2 : n = 0x82
        · simp only [c2, if_true] at h
          match r, h with
          | [], h => cases h
          | [_], h => cases h
          | a :: b :: r1, h =>
            simp only at h
            split at h
            · simp only [Option.some.injEq, Prod.mk.injEq] at h
              rw [← h.2] at hx; simp [hx]
            · cases h
        · simp only [c2, if_false] at h
          by_cases c3 : n = 0x83
          · simp only [c3, if_true] at h
            match r, h with
            | [], h => cases h
            | [_], h => cases h
            | [_, _], h => cases h
            | a :: b :: c :: r1, h =>
              simp only at h
              split at h
              · simp only [Option.some.injEq, Prod.mk.injEq] at h
                rw [← h.2] at hx; simp [hx]
              · cases h
          · simp only [c3, if_false] at h
            by_cases c4 : n = 0x84
            · simp only [c4, if_true] at h
              match r, h with
              | [], h => cases h
              | [_], h => cases h
              | [_, _], h => cases h
              | [_, _, _], h => cases h
              | a :: b :: c :: d :: r1, h =>
                simp only at h
                split at h
                · simp only [Option.some.injEq, Prod.mk.injEq] at h
                  rw [← h.2] at hx; simp [hx]
                · cases h
            · simp only [c4, if_false] at h; cases h

theorem readTlv_sub (b : Bytes) (t : Nat) (c rest : Bytes) (h : readTlv b = some (t, c, rest)) :
    (∀ x ∈ c, x ∈ b) ∧ (∀ x ∈ rest, x ∈ b) := by
  cases b with
  | nil => simp [readTlv] at h
  | cons t0 r =>
    simp only [readTlv] at h
    by_cases c0 : t0 % 32 = 31
    · simp only [c0, if_true] at h; cases h
    · simp only [c0, if_false] at h
      cases hl : readLen r with
      | none => simp only [hl] at h; cases h
      | some p =>
        obtain ⟨l, r'⟩ := p
        simp only [hl] at h
        by_cases c1 : r'.length < l
        · simp only [c1, if_true] at h; cases h
        · simp only [c1, if_false, Option.some.injEq, Prod.mk.injEq] at h
          obtain ⟨_, hc, hr⟩ := h
          have hs := readLen_sub r l r' hl
          subst hc; subst hr
          exact ⟨fun x hx => List.mem_cons_of_mem _ (hs x (List.mem_of_mem_take hx)),
            fun x hx => List.mem_cons_of_mem _ (hs x (List.mem_of_mem_drop hx))⟩

theorem takeOptPrim_sub (tag : Nat) (b c rest : Bytes) (h : takeOptPrim tag b = .ok c rest) :
    (∀ x ∈ c, x ∈ b) ∧ (∀ x ∈ rest, x ∈ b) := by
  cases b with
  | nil => simp [takeOptPrim] at h
  | cons t0 r =>
    simp only [takeOptPrim] at h
    split at h
    · cases h
    · split at h
      · cases h
      · split at h
        · cases h
        · cases hr : readTlv (t0 :: r) with
          | none => simp only [hr] at h; cases h
          | some p =>
            obtain ⟨t, c', rest'⟩ := p
            simp only [hr, Take.ok.injEq] at h
            obtain ⟨h1, h2⟩ := h
            subst h1; subst h2
            exact readTlv_sub _ _ _ _ hr

theorem takeOptCons_sub (tag : Nat) (b c rest : Bytes) (h : takeOptCons tag b = .ok c rest) :
    (∀ x ∈ c, x ∈ b) ∧ (∀ x ∈ rest, x ∈ b) := by
  cases b with
  | nil => simp [takeOptCons] at h
  | cons t0 r =>
    simp only [takeOptCons] at h
    split at h
    · cases h
    · split at h
      · cases h
      · split at h
        · cases h
        · cases hr : readTlv (t0 :: r) with
          | none => simp only [hr] at h; cases h
          | some p =>
            obtain ⟨t, c', rest'⟩ := p
            simp only [hr, Take.ok.injEq] at h
            obtain ⟨h1, h2⟩ := h
            subst h1; subst h2
            exact readTlv_sub _ _ _ _ hr

theorem takePrim_sub (tag : Nat) (b c rest : Bytes) (h : takePrim tag b = some (c, rest)) :
    (∀ x ∈ c, x ∈ b) ∧ (∀ x ∈ rest, x ∈ b) := by
  unfold takePrim at h
  cases ht : takeOptPrim tag b with
  | absent => simp only [ht] at h; cases h
  | bad => simp only [ht] at h; cases h
  | ok c' r' =>
    simp only [ht, Option.some.injEq, Prod.mk.injEq] at h
    obtain ⟨h1, h2⟩ := h
    subst h1; subst h2
    exact takeOptPrim_sub tag b _ _ ht

theorem takeCons_sub (tag : Nat) (b c rest : Bytes) (h : takeCons tag b = some (c, rest)) :
    (∀ x ∈ c, x ∈ b) ∧ (∀ x ∈ rest, x ∈ b) := by
  unfold takeCons at h
  cases ht : takeOptCons tag b with
  | absent => simp only [ht] at h; cases h
  | bad => simp only [ht] at h; cases h
  | ok c' r' =>
    simp only [ht, Option.some.injEq, Prod.mk.injEq] at h
    obtain ⟨h1, h2⟩ := h
    subst h1; subst h2
    exact takeOptCons_sub tag b _ _ ht


/-- every block the reader accepts is well-formed and below 2^32, and what is left are input octets -/
theorem takeOptBlock_ok (b : Bytes) (hb : ∀ x ∈ b, x < 256) (blk : Blk) (rest : Bytes)
    (h : takeOptBlock b = .ok blk rest) :
    (blk.lo ≤ blk.hi ∧ blk.hi < 2 ^ 32) ∧ ∀ x ∈ rest, x < 256 := by
  cases b with
  | nil => simp [takeOptBlock] at h
  | cons t r =>
    simp only [takeOptBlock] at h
    by_cases c0 : t % 32 = 31
    · simp only [c0, if_true] at h; cases h
    · simp only [c0, if_false] at h
      cases hr : readTlv (t :: r) with
      | none => simp only [hr] at h; cases h
      | some p =>
        obtain ⟨t', c, rest'⟩ := p
        obtain ⟨sc, sr⟩ := readTlv_sub _ _ _ _ hr
        have hc : ∀ x ∈ c, x < 256 := fun x hx => hb x (sc x hx)
        have hrest : ∀ x ∈ rest', x < 256 := fun x hx => hb x (sr x hx)
        simp only [hr] at h
        by_cases c1 : tagNoCons t = tagInt
        · simp only [c1, if_true] at h
          by_cases c2 : isCons t = true
          · simp only [c2, if_true] at h; cases h
          · simp only [c2, Bool.false_eq_true, if_false] at h
            cases hd : decodeU32 c with
            | none => simp only [hd] at h; cases h
            | some v =>
              simp only [hd, Take.ok.injEq] at h
              obtain ⟨h1, h2⟩ := h
              subst h1; subst h2
              exact ⟨⟨Nat.le_refl _, decodeU32_lt c v hc hd⟩, hrest⟩
        · simp only [c1, if_false] at h
          by_cases c2 : tagNoCons t = 0x10
          · simp only [c2, if_true] at h
            by_cases c3 : (!isCons t) = true
            · simp only [c3, if_true] at h; cases h
            · simp only [c3, Bool.false_eq_true, if_false] at h
              cases hp1 : takePrim tagInt c with
              | none => simp only [hp1] at h; cases h
              | some p1 =>
                obtain ⟨c1', r1⟩ := p1
                obtain ⟨s1, s1r⟩ := takePrim_sub _ _ _ _ hp1
                simp only [hp1] at h
                cases hp2 : takePrim tagInt r1 with
                | none => simp only [hp2] at h; cases h
                | some p2 =>
                  obtain ⟨c2', r2⟩ := p2
                  obtain ⟨s2, _⟩ := takePrim_sub _ _ _ _ hp2
                  simp only [hp2] at h
                  cases hd1 : decodeU32 c1' with
                  | none => simp only [hd1] at h; cases h
                  | some lo =>
                    cases hd2 : decodeU32 c2' with
                    | none => simp only [hd1, hd2] at h; cases h
                    | some hi =>
                      simp only [hd1, hd2] at h
                      by_cases c4 : r2 ≠ []
                      · rw [if_pos c4] at h; cases h
                      · rw [if_neg c4] at h
                        by_cases c5 : lo > hi
                        · simp only [c5, if_true] at h; cases h
                        · simp only [c5, if_false, Take.ok.injEq] at h
                          obtain ⟨h1, h2⟩ := h
                          subst h1; subst h2
                          have := decodeU32_lt c2' hi (fun x hx => hc x (s1r x (s2 x hx))) hd2
                          exact ⟨⟨by simp only; omega, this⟩, hrest⟩
          · simp only [c2, if_false] at h; cases h

theorem blocksLoop_sound : ∀ (fuel : Nat) (b : Bytes) (bs : List Blk), (∀ x ∈ b, x < 256) →
    blocksLoop fuel b = some bs → ∀ blk ∈ bs, blk.lo ≤ blk.hi ∧ blk.hi ≤ maxAs := by
  intro fuel
  induction fuel with
  | zero =>
    intro b bs _ h
    simp only [blocksLoop] at h
    split at h
    · simp only [Option.some.injEq] at h; subst h; simp
    · cases h
  | succ f ih =>
    intro b bs hb h
    rw [blocksLoop] at h
    cases ht : takeOptBlock b with
    | absent => simp only [ht, Option.some.injEq] at h; subst h; simp
    | bad => simp only [ht] at h; cases h
    | ok blk rest =>
      simp only [ht] at h
      obtain ⟨hblk, hrest⟩ := takeOptBlock_ok b hb blk rest ht
      cases hr : blocksLoop f rest with
      | none => simp only [hr, Option.map_none] at h; cases h
      | some bs' =>
        simp only [hr, Option.map_some, Option.some.injEq] at h
        subst h
        intro x hx
        rcases List.mem_cons.1 hx with e | e
        · subst e
          have e : maxAs = 4294967295 := by decide
          rw [e]; omega
        · exact ih rest bs' hrest hr x e

/-- **soundness**: whatever octets decode, the result is a canonical chain -/
theorem decodeBlocks_canon (content : Bytes) (hb : ∀ x ∈ content, x < 256) (c : List Blk)
    (h : decodeBlocks content = some c) : Canon maxAs c := by
  unfold decodeBlocks at h
  cases hl : blocksLoop content.length content with
  | none => simp only [hl, Option.map_none] at h; cases h
  | some bs =>
    simp only [hl, Option.map_some, Option.some.injEq] at h
    subst h
    exact (fromIter_spec' maxAs bs (blocksLoop_sound _ _ _ hb hl)).1

/-- … whose members are exactly the members of the listed blocks -/
theorem decodeBlocks_den (content : Bytes) (hb : ∀ x ∈ content, x < 256) (c : List Blk)
    (h : decodeBlocks content = some c) :
    ∃ bs, blocksLoop content.length content = some bs ∧
      ∀ x, mem c x ↔ ∃ b ∈ bs, b.lo ≤ x ∧ x ≤ b.hi := by
  unfold decodeBlocks at h
  cases hl : blocksLoop content.length content with
  | none => simp only [hl, Option.map_none] at h; cases h
  | some bs =>
    simp only [hl, Option.map_some, Option.some.injEq] at h
    subst h
    exact ⟨bs, rfl, (fromIter_spec' maxAs bs (blocksLoop_sound _ _ _ hb hl)).2⟩


/-- **soundness** of the extension reader: whatever octets decode, the result is `inherit` or a
canonical chain (never `missing`, never a non-canonical list) -/
theorem decodeExt_sound (b : Bytes) (hb : ∀ x ∈ b, x < 256) (cl : Claim) (h : decodeExt b = some cl) :
    cl = .inherit ∨ ∃ c, cl = .blocks c ∧ Canon maxAs c := by
  unfold decodeExt at h
  cases h1 : takeCons tagSeq b with
  | none => simp only [h1] at h; cases h
  | some p1 =>
    obtain ⟨c, r0⟩ := p1
    obtain ⟨s1, _⟩ := takeCons_sub _ _ _ _ h1
    simp only [h1] at h
    cases h2 : takeCons 0xA0 c with
    | none => simp only [h2] at h; cases h
    | some p2 =>
      obtain ⟨inner, r⟩ := p2
      obtain ⟨s2, _⟩ := takeCons_sub _ _ _ _ h2
      have hin : ∀ x ∈ inner, x < 256 := fun x hx => hb x (s1 x (s2 x hx))
      simp only [h2] at h
      by_cases c0 : r ≠ []
      · rw [if_pos c0] at h; cases h
      · rw [if_neg c0] at h
        cases inner with
        | nil => cases h
        | cons t tl =>
          simp only at h
          by_cases c1 : t % 32 = 31
          · rw [if_pos c1] at h; cases h
          · rw [if_neg c1] at h
            cases h3 : readTlv (t :: tl) with
            | none => simp only [h3] at h; cases h
            | some p3 =>
              obtain ⟨t', v, r2⟩ := p3
              obtain ⟨s3, _⟩ := readTlv_sub _ _ _ _ h3
              have hv : ∀ x ∈ v, x < 256 := fun x hx => hin x (s3 x hx)
              simp only [h3] at h
              by_cases c2 : r2 ≠ []
              · rw [if_pos c2] at h; cases h
              · rw [if_neg c2] at h
                by_cases c3 : tagNoCons t = tagNull
                · rw [if_pos c3] at h
                  split at h
                  · cases h
                  · simp only [Option.some.injEq] at h
                    exact Or.inl h.symm
                · rw [if_neg c3] at h
                  by_cases c4 : tagNoCons t = 0x10
                  · rw [if_pos c4] at h
                    split at h
                    · cases h
                    · cases h4 : decodeBlocks v with
                      | none => simp only [h4, Option.map_none] at h; cases h
                      | some ch =>
                        simp only [h4, Option.map_some, Option.some.injEq] at h
                        exact Or.inr ⟨ch, h.symm, decodeBlocks_canon v hv ch h4⟩
                  · rw [if_neg c4] at h; cases h


/-! ### non-vacuity -/

/-- `missing` is written as an empty SEQUENCE OF and reads back as the empty block list -/
example : decodeExt (encodeExt .missing) = some (.blocks []) := by decide

example : encodeU32 0 = [0] ∧ encodeU32 127 = [127] ∧ encodeU32 128 = [0, 128] ∧
    encodeU32 65536 = [1, 0, 0] ∧ encodeU32 4294967295 = [0, 255, 255, 255, 255] := by decide

example : decodeU32 [0, 127] = none ∧ decodeU32 [1, 0, 0, 0, 0] = none ∧ decodeU32 [128] = none := by decide

example : encodeExt (.blocks [⟨0, 2⟩, ⟨4, 4⟩]) = [48, 15, 160, 13, 48, 11, 48, 6, 2, 1, 0, 2, 1, 2, 2, 1, 4] := by
  decide

/-- unsorted, overlapping input blocks are accepted and collected -/
example : decodeBlocks [2, 1, 7, 48, 6, 2, 1, 5, 2, 1, 8, 2, 1, 4] = some [⟨4, 8⟩] := by decide

end Rpki.AsDer
