import Rpki.Proofs.PrefixLemmas
namespace Rpki.Prefix
open Rpki.Consts

/-- The generic mask comparison of `covers`; the two host-prefix special cases of the code
    coincide with it on well-formed values. -/
def coversGeneric (p q : Pfx) : Bool :=
  if p.isV4 != q.isV4 then false
  else if p.len > q.len then false
  else p.bits = q.bits / 2 ^ hostBits p.len * 2 ^ hostBits p.len

theorem covers_eq_generic (p q : Pfx) (hp : WF p) (hq : WF q) : covers p q = coversGeneric p q := by
  unfold covers coversGeneric
  by_cases hf : (p.isV4 != q.isV4) = true
  · simp [hf]
  · simp only [hf, if_false]
    have hf' : p.isV4 = q.isV4 := by simpa using hf
    by_cases hl : p.len > q.len
    · simp [hl]
    · simp only [hl, if_false]
      have key : ∀ (n : Nat), p.len = n → q.len = n → q.bits % 2 ^ hostBits n = 0 →
          (decide (p = q)) = decide (p.bits = q.bits / 2 ^ hostBits p.len * 2 ^ hostBits p.len) := by
        intro n h1 h2 h3
        rw [h1, aligned_div_mul _ _ h3]
        have hfal := fal_inj hp hq hf' (by rw [h1, h2])
        apply decide_eq_decide.2
        constructor
        · intro h; rw [h]
        · intro h; cases p; cases q; simp_all
      by_cases h4 : p.isV4 = true
      · simp only [h4, if_true]
        by_cases h32 : p.len = 32 ∧ q.len = 32
        · simp only [h32, and_self, if_true]
          have := key 32 h32.1 h32.2 (by have := hq.2.2; rw [h32.2] at this; exact this)
          rw [h32.1] at this; exact this
        · simp only [h32, if_false]
      · simp only [h4]
        by_cases h128 : p.len = 128 ∧ q.len = 128
        · simp only [h128, and_self, if_true]
          have := key 128 h128.1 h128.2 (by have := hq.2.2; rw [h128.2] at this; exact this)
          rw [h128.1] at this; exact this
        · simp [h128]

/-- `covers` is inclusion of address ranges (within one family). -/
theorem covers_iff_range' (p q : Pfx) (hp : WF p) (hq : WF q) :
    covers p q = true ↔ p.isV4 = q.isV4 ∧ p.lo ≤ q.lo ∧ q.hi ≤ p.hi := by
  rw [covers_eq_generic p q hp hq]
  unfold coversGeneric
  have hP := pow_pos2 (hostBits p.len)
  have hQ := pow_pos2 (hostBits q.len)
  have hpl := hp.len_le
  have hql := hq.len_le
  rw [hp.hi_eq, hq.hi_eq]
  unfold Pfx.lo
  by_cases hf : p.isV4 = q.isV4
  · have : (p.isV4 != q.isV4) = false := by simp [hf]
    simp only [this]
    simp only [hf, true_and]
    by_cases hl : p.len > q.len
    · simp only [hl, if_true]
      constructor
      · intro h; simp at h
      · rintro ⟨h1, h2⟩
        have : 2 ^ hostBits p.len < 2 ^ hostBits q.len := pow_lt_of_lt (by unfold hostBits; omega)
        omega
    · simp only [hl, if_false]
      have hdiv : 2 ^ hostBits q.len ∣ 2 ^ hostBits p.len := pow_dvd_of_le (by unfold hostBits; omega)
      simp only [Bool.false_eq_true, if_false, decide_eq_true_eq]
      constructor
      · intro h
        have h1 := div_mul_le q.bits (2 ^ hostBits p.len)
        have h2 := block_in q.bits _ _ hQ hdiv hP hq.2.2
        omega
      · rintro ⟨h1, h2⟩
        have ha := aligned_div_mul _ _ hp.2.2
        have := div_mul_of_range q.bits (2 ^ hostBits p.len) (p.bits / 2 ^ hostBits p.len) hP
          (by omega) (by omega)
        omega
  · have : (p.isV4 != q.isV4) = true := by simp [hf]
    simp [this, hf]

/-- A single natural number that orders prefixes: family, then last address, then host-bit count. -/
def code (p : Pfx) : Nat := (if p.isV4 then 0 else 1) * 2 ^ 137 + p.hi * 256 + (128 - p.len)

theorem WF.hi_lt {p : Pfx} (h : WF p) : p.hi < A := by
  rw [h.hi_eq]
  have hk := h.2.2
  have hb := h.1
  have hP := pow_pos2 (hostBits p.len)
  -- bits = a * P < 2^128 and P ∣ 2^128, so bits + P ≤ 2^128
  have hdiv : 2 ^ hostBits p.len ∣ A := by
    have : A = 2 ^ 128 := by decide
    rw [this]; exact pow_dvd_of_le (by unfold hostBits; omega)
  obtain ⟨R, hR⟩ := hdiv
  obtain ⟨b, hb'⟩ : ∃ b, p.bits = 2 ^ hostBits p.len * b := ⟨p.bits / 2 ^ hostBits p.len, by
    have := Nat.div_add_mod p.bits (2 ^ hostBits p.len); rw [hk] at this; omega⟩
  rw [hb', hR] at hb
  have hbR : b < R := Nat.lt_of_mul_lt_mul_left hb
  have : 2 ^ hostBits p.len * (b + 1) ≤ 2 ^ hostBits p.len * R := Nat.mul_le_mul_left _ hbR
  rw [Nat.mul_add, Nat.mul_one] at this
  rw [hb', hR]; omega

theorem cmp_code (p q : Pfx) (hp : WF p) (hq : WF q) : cmp p q = compare (code p) (code q) := by
  have hpl := hp.len_le
  have hql := hq.len_le
  have hph := hp.hi_lt
  have hqh := hq.hi_lt
  have hA : A = 2 ^ 128 := by decide
  have h137 : (2:Nat) ^ 137 = 2 ^ 128 * 512 := by decide
  unfold cmp code
  rw [Nat.compare_eq_ite_lt (_ + _ + _)]
  by_cases h4p : p.isV4 = true <;> by_cases h4q : q.isV4 = true
  all_goals simp only [h4p, h4q, if_true, if_false, Bool.false_eq_true]
  rotate_left
  · -- v4 vs v6
    have : 0 * 2 ^ 137 + p.hi * 256 + (128 - p.len) < 1 * 2 ^ 137 + q.hi * 256 + (128 - q.len) := by omega
    rw [if_pos this]
  · -- v6 vs v4
    have h1 : ¬ (1 * 2 ^ 137 + p.hi * 256 + (128 - p.len) < 0 * 2 ^ 137 + q.hi * 256 + (128 - q.len)) := by omega
    have h2 : (0 * 2 ^ 137 + q.hi * 256 + (128 - q.len) < 1 * 2 ^ 137 + p.hi * 256 + (128 - p.len)) := by omega
    rw [if_neg h1, if_pos h2]
  all_goals
    rw [hp.hi_eq, hq.hi_eq]
    have hP := pow_pos2 (hostBits p.len)
    have hQ := pow_pos2 (hostBits q.len)
    by_cases hl : p.len = q.len
    · simp only [hl, if_true]
      rw [Nat.compare_eq_ite_lt]
      rw [hl] at hP
      split <;> split <;> (try split) <;> (try split) <;> (try rfl) <;> omega
    · simp only [hl, if_false]
      rcases Nat.lt_or_gt_of_ne hl with hlt | hgt
      · -- p is the shorter prefix: minlen = p.len
        have hmin : min p.len q.len = p.len := Nat.min_eq_left (Nat.le_of_lt hlt)
        rw [hmin, aligned_div_mul _ _ hp.2.2]
        have hdiv : 2 ^ hostBits q.len ∣ 2 ^ hostBits p.len := pow_dvd_of_le (by unfold hostBits; omega)
        have hin := block_in q.bits _ _ hQ hdiv hP hq.2.2
        have hle := div_mul_le q.bits (2 ^ hostBits p.len)
        have hPQ : 2 ^ hostBits q.len < 2 ^ hostBits p.len := pow_lt_of_lt (by unfold hostBits; omega)
        by_cases he : p.bits = q.bits / 2 ^ hostBits p.len * 2 ^ hostBits p.len
        · simp only [he.symm, if_true]
          rw [Nat.compare_eq_ite_lt]
          have : ¬ q.len < p.len := by omega
          simp only [this, if_false, hlt, if_true]
          split
          · omega
          · split
            · rfl
            · omega
        · simp only [he, if_false]
          rw [Nat.compare_eq_ite_lt]
          -- p.bits = a*P, q.bits/P = d ≠ a
          have ha := aligned_div_mul _ _ hp.2.2
          rcases Nat.lt_or_gt_of_ne he with h1 | h1
          · -- a*P < d*P : whole block of p lies before q
            have : p.bits / 2 ^ hostBits p.len < q.bits / 2 ^ hostBits p.len := by
              rw [← ha] at h1; exact Nat.lt_of_mul_lt_mul_right h1
            have : (p.bits / 2 ^ hostBits p.len + 1) * 2 ^ hostBits p.len ≤ q.bits / 2 ^ hostBits p.len * 2 ^ hostBits p.len :=
              Nat.mul_le_mul_right _ this
            rw [Nat.add_mul, Nat.one_mul, ha] at this
            have hlt1 : p.bits < q.bits := by omega
            simp only [hlt1, if_true]
            split
            · rfl
            · omega
          · -- d*P < a*P : whole block of q lies before p
            have : q.bits / 2 ^ hostBits p.len < p.bits / 2 ^ hostBits p.len := by
              rw [← ha] at h1; exact Nat.lt_of_mul_lt_mul_right h1
            have : (q.bits / 2 ^ hostBits p.len + 1) * 2 ^ hostBits p.len ≤ p.bits / 2 ^ hostBits p.len * 2 ^ hostBits p.len :=
              Nat.mul_le_mul_right _ this
            rw [Nat.add_mul, Nat.one_mul, ha] at this
            have hn : ¬ p.bits < q.bits := by omega
            have hg : q.bits < p.bits := by omega
            simp only [hn, hg, if_true, if_false]
            split
            · omega
            · split
              · rfl
              · omega
      · -- q is the shorter prefix: minlen = q.len
        have hmin : min p.len q.len = q.len := Nat.min_eq_right (Nat.le_of_lt hgt)
        rw [hmin, aligned_div_mul q.bits _ hq.2.2]
        have hdiv : 2 ^ hostBits p.len ∣ 2 ^ hostBits q.len := pow_dvd_of_le (by unfold hostBits; omega)
        have hin := block_in p.bits _ _ hP hdiv hQ hp.2.2
        have hle := div_mul_le p.bits (2 ^ hostBits q.len)
        have hPQ : 2 ^ hostBits p.len < 2 ^ hostBits q.len := pow_lt_of_lt (by unfold hostBits; omega)
        by_cases he : p.bits / 2 ^ hostBits q.len * 2 ^ hostBits q.len = q.bits
        · simp only [he, if_true]
          rw [Nat.compare_eq_ite_lt]
          have : q.len < p.len := by omega
          simp only [this, if_true]
          split
          · rfl
          · omega
        · simp only [he, if_false]
          rw [Nat.compare_eq_ite_lt]
          have ha := aligned_div_mul _ _ hq.2.2
          rcases Nat.lt_or_gt_of_ne he with h1 | h1
          · have : p.bits / 2 ^ hostBits q.len < q.bits / 2 ^ hostBits q.len := by
              rw [← ha] at h1; exact Nat.lt_of_mul_lt_mul_right h1
            have : (p.bits / 2 ^ hostBits q.len + 1) * 2 ^ hostBits q.len ≤ q.bits / 2 ^ hostBits q.len * 2 ^ hostBits q.len :=
              Nat.mul_le_mul_right _ this
            rw [Nat.add_mul, Nat.one_mul, ha] at this
            have hlt1 : p.bits < q.bits := by omega
            simp only [hlt1, if_true]
            split
            · rfl
            · omega
          · have : q.bits / 2 ^ hostBits q.len < p.bits / 2 ^ hostBits q.len := by
              rw [← ha] at h1; exact Nat.lt_of_mul_lt_mul_right h1
            have : (q.bits / 2 ^ hostBits q.len + 1) * 2 ^ hostBits q.len ≤ p.bits / 2 ^ hostBits q.len * 2 ^ hostBits q.len :=
              Nat.mul_le_mul_right _ this
            rw [Nat.add_mul, Nat.one_mul, ha] at this
            have hn : ¬ p.bits < q.bits := by omega
            have hg : q.bits < p.bits := by omega
            simp only [hn, hg, if_true, if_false]
            split
            · omega
            · split
              · rfl
              · omega

end Rpki.Prefix
