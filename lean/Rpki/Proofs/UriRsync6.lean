import Rpki.Proofs.UriRsync5
namespace Rpki.Uri
open Rpki.Consts

/-! ### `relative_to` and `is_parent_of`: exact characterisations -/

/-- remove at most one trailing slash -/
def stripSlash (p : Bytes) : Bytes := if endsWithSlash p then p.take (p.length - 1) else p

/-- the "directory form" of a path: empty stays empty, otherwise exactly one trailing slash after
stripping at most one -/
def dirPath (p : Bytes) : Bytes := if p = [] then [] else stripSlash p ++ [slash]

/-- the prefix test at the heart of `relative_to` -/
theorem relCore_iff (s q p : Bytes) :
    (if (!startsWith s q) = true then none
      else if s.length = q.length then some []
      else if s[q.length]? ≠ some slash then none
      else some (s.drop (q.length + 1))) = some p ↔ (s = q ∧ p = []) ∨ s = q ++ slash :: p := by
  constructor
  · intro h
    have hsw : startsWith s q = true := by
      by_cases hsw : startsWith s q = true
      · exact hsw
      · simp [hsw] at h
    simp only [hsw, Bool.not_true, Bool.false_eq_true, if_false] at h
    unfold startsWith at hsw
    simp only [beq_iff_eq] at hsw
    by_cases hl : s.length = q.length
    · simp only [hl, if_true] at h
      injection h with h
      left
      refine ⟨?_, h.symm⟩
      rw [← hsw, ← hl, List.take_length]
    · simp only [hl, if_false] at h
      by_cases hsl : s[q.length]? = some slash
      · simp only [hsl, ne_eq, not_true_eq_false, if_false] at h
        injection h with h
        right
        have hlt : q.length < s.length := by
          rcases Nat.lt_or_ge q.length s.length with h | h
          · exact h
          · rw [List.getElem?_eq_none h] at hsl; cases hsl
        have hd : s.drop q.length = slash :: s.drop (q.length + 1) := by
          rw [List.drop_eq_getElem_cons hlt]
          congr
          exact (List.getElem?_eq_some_iff.1 hsl).2
        have := List.take_append_drop q.length s
        rw [hsw, hd, h] at this
        exact this.symm
      · simp [hsl] at h
  · rintro (⟨rfl, rfl⟩ | rfl)
    · simp [startsWith]
    · have h1 : startsWith (q ++ slash :: p) q = true := by simp [startsWith]
      have h2 : ¬ (q ++ slash :: p).length = q.length := by simp
      simp [h1]

theorem Rsync.relativeTo_eq_some_iff (u o : Rsync) (p : Bytes) :
    u.relativeTo o = some p ↔ u.eqModule o = true ∧
      ((o.path = [] ∧ u.path = p) ∨
       (o.path ≠ [] ∧ ((u.path = stripSlash o.path ∧ p = []) ∨ u.path = stripSlash o.path ++ slash :: p))) := by
  unfold Rsync.relativeTo
  by_cases hm : u.eqModule o = true
  · simp only [hm, Bool.not_true, Bool.false_eq_true, if_false, true_and]
    by_cases hop : o.path = []
    · simp [hop]
    · simp only [hop, if_false, false_and, false_or, ne_eq, not_false_eq_true, true_and]
      exact relCore_iff u.path (stripSlash o.path) p
  · simp [hm]

theorem Rsync.isParentOf_iff (u o : Rsync) :
    u.isParentOf o = true ↔ o.eqModule u = true ∧ ∃ p, p ≠ [] ∧ o.path = dirPath u.path ++ p := by
  unfold Rsync.isParentOf
  constructor
  · intro h
    cases hr : o.relativeTo u with
    | none => simp [hr] at h
    | some p =>
      simp only [hr, ne_eq, decide_eq_true_eq] at h
      have ⟨hm, hc⟩ := (Rsync.relativeTo_eq_some_iff o u p).1 hr
      refine ⟨hm, p, h, ?_⟩
      unfold dirPath
      rcases hc with ⟨e1, e2⟩ | ⟨hne, ⟨_, e⟩ | e⟩
      · simp [e1, e2]
      · exact absurd e h
      · simp [hne, e]
  · rintro ⟨hm, p, hp, e⟩
    have : o.relativeTo u = some p := by
      rw [Rsync.relativeTo_eq_some_iff]
      refine ⟨hm, ?_⟩
      unfold dirPath at e
      by_cases hne : u.path = []
      · left; simp [hne] at e; exact ⟨hne, e⟩
      · right; simp only [hne, if_false] at e
        exact ⟨hne, Or.inr (by simp [e])⟩
    simp [this, hp]

/-! ### `eq_module` is an equivalence (no invariant needed) -/

theorem Rsync.eqModule_iff (u o : Rsync) :
    u.eqModule o = true ↔ u.pathStart = o.pathStart ∧ u.moduleStart = o.moduleStart ∧
      (u.bytes.take u.moduleStart).map toLower = (o.bytes.take o.moduleStart).map toLower ∧
      slice u.bytes u.moduleStart u.pathStart = slice o.bytes o.moduleStart o.pathStart := by
  have hflag : rsyncModuleCaseInsensitive = false := rfl
  unfold Rsync.eqModule
  simp only [hflag, Bool.false_eq_true, if_false, Bool.and_eq_true, beq_iff_eq, eqIgnoreCase_iff]
  constructor
  · rintro ⟨⟨⟨a, b⟩, c⟩, d⟩; exact ⟨a, b, c, d⟩
  · rintro ⟨a, b, c, d⟩; exact ⟨⟨⟨a, b⟩, c⟩, d⟩

theorem Rsync.eqModule_refl (u : Rsync) : u.eqModule u = true :=
  (Rsync.eqModule_iff u u).2 ⟨rfl, rfl, rfl, rfl⟩

theorem Rsync.eqModule_symm (u o : Rsync) (h : u.eqModule o = true) : o.eqModule u = true := by
  have ⟨a, b, c, d⟩ := (Rsync.eqModule_iff u o).1 h
  exact (Rsync.eqModule_iff o u).2 ⟨a.symm, b.symm, c.symm, d.symm⟩

theorem Rsync.eqModule_trans (u o w : Rsync) (h1 : u.eqModule o = true) (h2 : o.eqModule w = true) :
    u.eqModule w = true := by
  have ⟨a, b, c, d⟩ := (Rsync.eqModule_iff u o).1 h1
  have ⟨a', b', c', d'⟩ := (Rsync.eqModule_iff o w).1 h2
  exact (Rsync.eqModule_iff u w).2 ⟨a.trans a', b.trans b', c.trans c', d.trans d'⟩

/-! ### `stripSlash` / `dirPath` -/

theorem stripSlash_length (p : Bytes) : p.length ≤ (stripSlash p).length + 1 := by
  unfold stripSlash; split
  · simp; omega
  · omega

theorem dirPath_length_ge (p : Bytes) : p.length ≤ (dirPath p).length := by
  unfold dirPath
  split
  · simp [*]
  · have := stripSlash_length p; simp; omega

theorem stripSlash_append {a p : Bytes} (hp : p ≠ []) : stripSlash (a ++ p) = a ++ stripSlash p := by
  unfold stripSlash
  rw [endsWithSlash_append_of_ne hp]
  split
  · have : 0 < p.length := List.length_pos_iff.2 hp
    rw [List.take_append, List.length_append]
    rw [List.take_of_length_le (by omega)]
    congr 2; omega
  · rfl

theorem dirPath_append {a p : Bytes} (hp : p ≠ []) : dirPath (a ++ p) = a ++ dirPath p := by
  unfold dirPath
  simp [hp, stripSlash_append hp]

/-! ### 2. irreflexive -/

/-- `is_parent_of` is irreflexive (for every value, the invariant is not needed). -/
theorem Rsync.isParentOf_irrefl (u : Rsync) : u.isParentOf u = false := by
  cases h : u.isParentOf u with
  | false => rfl
  | true =>
    obtain ⟨_, p, hp, e⟩ := (Rsync.isParentOf_iff u u).1 h
    have h1 := dirPath_length_ge u.path
    have h2 := congrArg List.length e
    have : 0 < p.length := List.length_pos_iff.2 hp
    simp at h2; omega

/-! ### 3. transitive -/

/-- `is_parent_of` is transitive (for all values, the invariant is not needed). -/
theorem Rsync.isParentOf_trans (u o w : Rsync) (h1 : u.isParentOf o = true) (h2 : o.isParentOf w = true) :
    u.isParentOf w = true := by
  obtain ⟨m1, p, hp, e1⟩ := (Rsync.isParentOf_iff u o).1 h1
  obtain ⟨m2, q, hq, e2⟩ := (Rsync.isParentOf_iff o w).1 h2
  refine (Rsync.isParentOf_iff u w).2 ⟨Rsync.eqModule_trans _ _ _ m2 m1, dirPath p ++ q, by simp [hq], ?_⟩
  rw [e2, e1, dirPath_append hp, List.append_assoc]

/-! ### more about `stripSlash` / `dirPath` -/

theorem stripSlash_nil : stripSlash [] = [] := by simp [stripSlash, endsWithSlash]

theorem stripSlash_snoc (q : Bytes) : stripSlash (q ++ [slash]) = q := by
  simp [stripSlash, endsWithSlash]

theorem stripSlash_of_not {p : Bytes} (h : endsWithSlash p = false) : stripSlash p = p := by
  simp [stripSlash, h]

/-- a path is its stripped form, or that plus one slash -/
theorem stripSlash_cases (p : Bytes) :
    (endsWithSlash p = false ∧ stripSlash p = p) ∨ (endsWithSlash p = true ∧ p = stripSlash p ++ [slash]) := by
  cases h : endsWithSlash p with
  | false => exact Or.inl ⟨rfl, stripSlash_of_not h⟩
  | true =>
    right
    refine ⟨rfl, ?_⟩
    have hne : p ≠ [] := by intro e; subst e; simp [endsWithSlash] at h
    have := strip_decomp p hne h
    unfold stripSlash; simp only [h, if_true]; exact this

theorem dirPath_eq (p : Bytes) :
    dirPath p = if endsWithSlash p = true ∨ p = [] then p else p ++ [slash] := by
  unfold dirPath
  by_cases hp : p = []
  · simp [hp]
  · rcases stripSlash_cases p with ⟨h1, h2⟩ | ⟨h1, h2⟩
    · simp [hp, h1, h2]
    · simp only [hp, if_false, h1, true_or, if_true]; exact h2.symm

/-- segments that are all good: the text is non-empty and has no trailing slash -/
theorem good_noTrailing (q : Bytes) (h : ∀ s ∈ split q, goodSeg s) : q ≠ [] ∧ endsWithSlash q = false := by
  constructor
  · intro e; subst e
    exact absurd rfl (h [] (by simp [split])).1
  · cases he : endsWithSlash q with
    | false => rfl
    | true =>
      rcases stripSlash_cases q with ⟨h1, _⟩ | ⟨_, h2⟩
      · rw [he] at h1; cases h1
      · have : [] ∈ split q := by rw [h2, split_snoc_slash]; simp
        exact absurd rfl (h [] this).1

/-- for a checked path the stripped form has no trailing slash, and is empty only for the empty path -/
theorem stripSlash_checked (p : Bytes) (h : checkItems (split p) = .ok ()) :
    endsWithSlash (stripSlash p) = false ∧ (stripSlash p = [] → p = []) := by
  rcases stripSlash_cases p with ⟨h1, h2⟩ | ⟨h1, h2⟩
  · rw [h2]; exact ⟨h1, id⟩
  · rw [h2] at h
    have := good_noTrailing _ (checkItems_init_good_of_trailing _ h)
    exact ⟨this.2, fun e => absurd e this.1⟩

theorem Rsync.Inv.path_ok {u : Rsync} (h : u.Inv) : checkItems (split u.path) = .ok () := by
  obtain ⟨_, _, path, _, _, _, hpa, _, _, _, _, _, _, hpp, _⟩ := h.parts
  rw [hpa]; exact hpp

/-- the form of `relative_to` used below: anything beneath the directory form of `u` -/
theorem Rsync.relativeTo_of_dirPath (u o : Rsync) (p : Bytes) (hm : o.eqModule u = true)
    (e : o.path = dirPath u.path ++ p) : o.relativeTo u = some p := by
  rw [Rsync.relativeTo_eq_some_iff]
  refine ⟨hm, ?_⟩
  unfold dirPath at e
  by_cases hne : u.path = []
  · left; simp [hne] at e; exact ⟨hne, e⟩
  · right; simp only [hne, if_false] at e
    exact ⟨hne, Or.inr (by simp [e])⟩

/-! ### 1. `relative_to` reports the empty path exactly for URIs equal up to one trailing slash -/

theorem Rsync.relativeTo_empty_iff (u o : Rsync) (hu : u.Inv) (ho : o.Inv) :
    u.relativeTo o = some [] ↔ u.eqModule o = true ∧ stripSlash u.path = stripSlash o.path := by
  rw [Rsync.relativeTo_eq_some_iff]
  have ⟨su1, su2⟩ := stripSlash_checked _ hu.path_ok
  have ⟨so1, so2⟩ := stripSlash_checked _ ho.path_ok
  constructor
  · rintro ⟨hm, ⟨e1, e2⟩ | ⟨hne, ⟨e, _⟩ | e⟩⟩
    · exact ⟨hm, by rw [e1, e2]⟩
    · exact ⟨hm, by rw [e, stripSlash_of_not so1]⟩
    · exact ⟨hm, by rw [e, stripSlash_snoc]⟩
  · rintro ⟨hm, e⟩
    refine ⟨hm, ?_⟩
    by_cases hne : o.path = []
    · left
      refine ⟨hne, su2 ?_⟩
      rw [e, hne, stripSlash_nil]
    · right
      refine ⟨hne, ?_⟩
      rw [← e]
      rcases stripSlash_cases u.path with ⟨_, h2⟩ | ⟨_, h2⟩
      · exact Or.inl ⟨h2.symm, rfl⟩
      · exact Or.inr h2

/-- the same, with the slash made explicit: `u`'s path is `o`'s path without its trailing slash,
possibly followed by one slash -/
theorem Rsync.relativeTo_empty_iff' (u o : Rsync) :
    u.relativeTo o = some [] ↔ u.eqModule o = true ∧
      (u.path = stripSlash o.path ∨ (o.path ≠ [] ∧ u.path = stripSlash o.path ++ [slash])) := by
  rw [Rsync.relativeTo_eq_some_iff]
  constructor
  · rintro ⟨hm, ⟨e1, e2⟩ | ⟨hne, ⟨e, _⟩ | e⟩⟩
    · exact ⟨hm, Or.inl (by rw [e1, e2, stripSlash_nil])⟩
    · exact ⟨hm, Or.inl e⟩
    · exact ⟨hm, Or.inr ⟨hne, e⟩⟩
  · rintro ⟨hm, e | ⟨hne, e⟩⟩
    · refine ⟨hm, ?_⟩
      by_cases hne : o.path = []
      · left; refine ⟨hne, ?_⟩; rw [e, hne, stripSlash_nil]
      · right; exact ⟨hne, Or.inl ⟨e, rfl⟩⟩
    · exact ⟨hm, Or.inr ⟨hne, Or.inr e⟩⟩

end Rpki.Uri
