/-
  RFC 8183 out-of-band setup messages (`Rpki.Model.IdxMsg`): what `write` emits is read back by the
  reference reader as the same message.

  * the literals of the model as octets (the technique of `PubMsgLemmas`: `s_of`)
  * well-formedness of the written tree (up to the empty text line of an empty certificate)
  * tree-level and document-level round trips
  * the writer is injective
-/
import Rpki.Model.IdxMsg
import Rpki.Proofs.PubMsgLemmas
namespace Rpki.IdxMsg
set_option autoImplicit false
open Rpki.Xml Rpki.XmlDoc
open Rpki.PubMsg (s lookup s_of BytesOk s_tag s_xmlns s_version)

/-! ### string literals as octets -/

section literals
set_option maxRecDepth 100000
theorem s_child_request : s "child_request" = [99, 104, 105, 108, 100, 95, 114, 101, 113, 117, 101, 115, 116] := s_of _ _ _ rfl (by decide)
theorem s_parent_response : s "parent_response" = [112, 97, 114, 101, 110, 116, 95, 114, 101, 115, 112, 111, 110, 115, 101] := s_of _ _ _ rfl (by decide)
theorem s_publisher_request : s "publisher_request" = [112, 117, 98, 108, 105, 115, 104, 101, 114, 95, 114, 101, 113, 117, 101, 115, 116] := s_of _ _ _ rfl (by decide)
theorem s_repository_response : s "repository_response" = [114, 101, 112, 111, 115, 105, 116, 111, 114, 121, 95, 114, 101, 115, 112, 111, 110, 115, 101] := s_of _ _ _ rfl (by decide)
theorem s_child_handle : s "child_handle" = [99, 104, 105, 108, 100, 95, 104, 97, 110, 100, 108, 101] := s_of _ _ _ rfl (by decide)
theorem s_parent_handle : s "parent_handle" = [112, 97, 114, 101, 110, 116, 95, 104, 97, 110, 100, 108, 101] := s_of _ _ _ rfl (by decide)
theorem s_publisher_handle : s "publisher_handle" = [112, 117, 98, 108, 105, 115, 104, 101, 114, 95, 104, 97, 110, 100, 108, 101] := s_of _ _ _ rfl (by decide)
theorem s_service_uri : s "service_uri" = [115, 101, 114, 118, 105, 99, 101, 95, 117, 114, 105] := s_of _ _ _ rfl (by decide)
theorem s_sia_base : s "sia_base" = [115, 105, 97, 95, 98, 97, 115, 101] := s_of _ _ _ rfl (by decide)
theorem s_rrdp_notification_uri : s "rrdp_notification_uri" = [114, 114, 100, 112, 95, 110, 111, 116, 105, 102, 105, 99, 97, 116, 105, 111, 110, 95, 117, 114, 105] := s_of _ _ _ rfl (by decide)
theorem s_child_bpki_ta : s "child_bpki_ta" = [99, 104, 105, 108, 100, 95, 98, 112, 107, 105, 95, 116, 97] := s_of _ _ _ rfl (by decide)
theorem s_parent_bpki_ta : s "parent_bpki_ta" = [112, 97, 114, 101, 110, 116, 95, 98, 112, 107, 105, 95, 116, 97] := s_of _ _ _ rfl (by decide)
theorem s_publisher_bpki_ta : s "publisher_bpki_ta" = [112, 117, 98, 108, 105, 115, 104, 101, 114, 95, 98, 112, 107, 105, 95, 116, 97] := s_of _ _ _ rfl (by decide)
theorem s_repository_bpki_ta : s "repository_bpki_ta" = [114, 101, 112, 111, 115, 105, 116, 111, 114, 121, 95, 98, 112, 107, 105, 95, 116, 97] := s_of _ _ _ rfl (by decide)
theorem ns_eq : ns = [104, 116, 116, 112, 58, 47, 47, 119, 119, 119, 46, 104, 97, 99, 116, 114, 110, 46, 110, 101, 116, 47, 117, 114, 105, 115, 47, 114, 112, 107, 105, 47, 114, 112, 107, 105, 45, 115, 101, 116, 117, 112, 47] := s_of _ _ _ rfl (by decide)
theorem version_eq : version = [49] := s_of _ _ _ rfl (by decide)
end literals

/-- rewrite every literal of the model to its octets -/
macro "ilits" : tactic => `(tactic| simp only [s_child_request, s_parent_response, s_publisher_request,
  s_repository_response, s_child_handle, s_parent_handle, s_publisher_handle, s_service_uri, s_sia_base,
  s_rrdp_notification_uri, s_child_bpki_ta, s_parent_bpki_ta, s_publisher_bpki_ta, s_repository_bpki_ta,
  s_tag, s_xmlns, s_version, ns_eq, version_eq] at *)

/-! ### the parts of a message and of its tree -/

/-- the certificate octets of each variant -/
def Msg.cert : Msg → Bytes
  | .childRequest _ _ c => c
  | .parentResponse _ _ _ _ c => c
  | .publisherRequest _ _ c => c
  | .repositoryResponse _ _ _ _ _ c => c

/-- octets below 256: needed by the Base64 round trip; handles, URIs and tags need no bound -/
def Msg.WF (m : Msg) : Prop := BytesOk m.cert

def rootName : Msg → Bytes
  | .childRequest .. => s "child_request"
  | .parentResponse .. => s "parent_response"
  | .publisherRequest .. => s "publisher_request"
  | .repositoryResponse .. => s "repository_response"

def taName : Msg → String
  | .childRequest .. => "child_bpki_ta"
  | .parentResponse .. => "parent_bpki_ta"
  | .publisherRequest .. => "publisher_bpki_ta"
  | .repositoryResponse .. => "repository_bpki_ta"

def attrsOf : Msg → List (Bytes × Bytes)
  | .childRequest h t _ => head ++ [(s "child_handle", escapeAttr h)] ++ optAttr "tag" t
  | .parentResponse p ch u t _ =>
    head ++ [(s "parent_handle", escapeAttr p), (s "child_handle", escapeAttr ch), (s "service_uri", escapeAttr u)] ++
      optAttr "tag" t
  | .publisherRequest h t _ => head ++ [(s "publisher_handle", escapeAttr h)] ++ optAttr "tag" t
  | .repositoryResponse h u b n t _ =>
    head ++ [(s "publisher_handle", escapeAttr h), (s "service_uri", escapeAttr u), (s "sia_base", escapeAttr b)] ++
      optAttr "rrdp_notification_uri" n ++ optAttr "tag" t

theorem toTree_eq (m : Msg) : toTree m = .elem (rootName m) (attrsOf m) (ta (taName m) m.cert) := by
  cases m <;> rfl

/-! ### (1) the written tree is well-formed -/

theorem rootName_ok (m : Msg) : NameOk (rootName m) := by
  cases m <;> (unfold rootName; ilits; unfold NameOk; decide)

theorem taName_ok (m : Msg) : NameOk (s (taName m)) := by
  cases m <;> (unfold taName; ilits; unfold NameOk; decide)

theorem head_ok : ∀ a ∈ head, NameOk a.1 ∧ ValueOk a.2 := by
  intro a ha
  unfold head at ha
  ilits
  simp only [List.mem_cons, List.not_mem_nil, or_false] at ha
  rcases ha with rfl | rfl
  · exact ⟨by unfold NameOk; decide, by unfold ValueOk; decide⟩
  · exact ⟨by unfold NameOk; decide, by unfold ValueOk; decide⟩

theorem optAttr_ok (name : String) (hn : NameOk (s name)) (v : Option Bytes) :
    ∀ a ∈ optAttr name v, NameOk a.1 ∧ ValueOk a.2 := by
  intro a ha
  cases v with
  | none => cases ha
  | some v =>
    simp only [optAttr, List.mem_cons, List.not_mem_nil, or_false] at ha
    subst ha
    exact ⟨hn, escapeAttr_safe v⟩

theorem nameOk_tag : NameOk (s "tag") := by ilits; unfold NameOk; decide
theorem nameOk_notify : NameOk (s "rrdp_notification_uri") := by ilits; unfold NameOk; decide
theorem nameOk_child_handle : NameOk (s "child_handle") := by ilits; unfold NameOk; decide
theorem nameOk_parent_handle : NameOk (s "parent_handle") := by ilits; unfold NameOk; decide
theorem nameOk_publisher_handle : NameOk (s "publisher_handle") := by ilits; unfold NameOk; decide
theorem nameOk_service_uri : NameOk (s "service_uri") := by ilits; unfold NameOk; decide
theorem nameOk_sia_base : NameOk (s "sia_base") := by ilits; unfold NameOk; decide

def AttrOk (a : Bytes × Bytes) : Prop := NameOk a.1 ∧ ValueOk a.2

theorem ok_append {l1 l2 : List (Bytes × Bytes)} (h1 : ∀ a ∈ l1, AttrOk a) (h2 : ∀ a ∈ l2, AttrOk a) :
    ∀ a ∈ l1 ++ l2, AttrOk a := by
  intro a ha
  rcases List.mem_append.mp ha with h | h
  · exact h1 a h
  · exact h2 a h

theorem ok_nil : ∀ a ∈ ([] : List (Bytes × Bytes)), AttrOk a := by intro a ha; cases ha

theorem ok_cons {n v : Bytes} {rest : List (Bytes × Bytes)} (hn : NameOk n) (h : ∀ a ∈ rest, AttrOk a) :
    ∀ a ∈ (n, escapeAttr v) :: rest, AttrOk a := by
  intro a ha
  rcases List.mem_cons.mp ha with rfl | h'
  · exact ⟨hn, escapeAttr_safe v⟩
  · exact h a h'

theorem attrsOf_ok (m : Msg) : ∀ a ∈ attrsOf m, NameOk a.1 ∧ ValueOk a.2 := by
  have htag := fun t => optAttr_ok "tag" nameOk_tag t
  cases m with
  | childRequest h t c =>
    exact ok_append (ok_append head_ok (ok_cons nameOk_child_handle ok_nil)) (htag t)
  | parentResponse p ch u t c =>
    exact ok_append (ok_append head_ok (ok_cons nameOk_parent_handle (ok_cons nameOk_child_handle
      (ok_cons nameOk_service_uri ok_nil)))) (htag t)
  | publisherRequest h t c =>
    exact ok_append (ok_append head_ok (ok_cons nameOk_publisher_handle ok_nil)) (htag t)
  | repositoryResponse h u b n t c =>
    exact ok_append (ok_append (ok_append head_ok (ok_cons nameOk_publisher_handle (ok_cons nameOk_service_uri
      (ok_cons nameOk_sia_base ok_nil)))) (optAttr_ok _ nameOk_notify n)) (htag t)

/-- the element that carries the certificate, with an empty text line for an empty certificate -/
theorem ta_WF0 (name : String) (hn : NameOk (s name)) (c : Bytes) :
    match ta name c with | none => True | some kids => kids.WF0 := by
  unfold ta
  simp only
  rw [Nodes.WF0_cons, Node.WF0_elem]
  refine ⟨⟨hn, (by intro a ha; cases ha), ?_⟩, by rw [Nodes.WF0]; trivial, trivial⟩
  simp only
  rw [Nodes.WF0_cons, Node.WF0_text]
  refine ⟨?_, by rw [Nodes.WF0]; trivial, fun h => h⟩
  by_cases hc : c = []
  · left; rw [hc, PubMsg.b64Encode_nil]
  · right; exact PubMsg.b64Encode_textOk c hc

theorem ta_WF (name : String) (hn : NameOk (s name)) (c : Bytes) (hc : c ≠ []) :
    match ta name c with | none => True | some kids => kids.WF := by
  unfold ta
  simp only
  rw [Nodes.WF_cons, Node.WF_elem]
  refine ⟨⟨hn, (by intro a ha; cases ha), ?_⟩, by rw [Nodes.WF]; trivial, trivial⟩
  simp only
  rw [Nodes.WF_cons, Node.WF_text]
  exact ⟨PubMsg.b64Encode_textOk c hc, by rw [Nodes.WF]; trivial, fun h => h⟩

set_option linter.unusedVariables false in
/-- (1) the tree `write` writes is well-formed up to the empty text line of an empty certificate -/
theorem toTree_WF0 (m : Msg) (hw : m.WF) : (toTree m).WF0 := by
  rw [toTree_eq, Node.WF0_elem]
  exact ⟨rootName_ok m, attrsOf_ok m, ta_WF0 _ (taName_ok m) _⟩

set_option linter.unusedVariables false in
/-- (1) and well-formed when the certificate is not empty -/
theorem toTree_WF (m : Msg) (hw : m.WF) (hne : m.cert ≠ []) : (toTree m).WF := by
  rw [toTree_eq, Node.WF_elem]
  exact ⟨rootName_ok m, attrsOf_ok m, ta_WF _ (taName_ok m) _ hne⟩

/-! ### (2) reading the tree back -/

theorem readTa_ta (name : String) (c : Bytes) (hc : BytesOk c) : readTa name (ta name c) = some c := by
  unfold ta
  rw [readTa, if_pos rfl]
  exact xmlB64Decode_of_skipWs _ c hc (b64Encode_no_ws c hc)

/-- the certificate element after the reference reader has dropped its empty text line -/
theorem readTa_empty (name : String) : readTa name (some (.cons (.elem (s name) [] (some .nil)) .nil)) = some [] := by
  rw [readTa, if_pos rfl]

/-- the tree the reference reader returns: only the certificate element can differ -/
theorem strip_toTree (m : Msg) :
    strip (toTree m) = .elem (rootName m) (attrsOf m)
      (if m.cert = [] then some (.cons (.elem (s (taName m)) [] (some .nil)) .nil) else ta (taName m) m.cert) := by
  rw [toTree_eq]
  unfold ta
  rw [strip_elem_some, stripKids_elem, strip_elem_some, stripKids_nil]
  by_cases hc : m.cert = []
  · rw [if_pos hc, hc, PubMsg.b64Encode_nil, stripKids_text_nil, stripKids_nil]
  · rw [if_neg hc, stripKids_text _ _ (PubMsg.b64Encode_ne_nil _ hc), stripKids_nil]

/-- `ofTree` on the root and attributes of `toTree m` with any body whose certificate reads as `m.cert` -/
theorem ofTree_parts (m : Msg) (body : Option Nodes) (hb : readTa (taName m) body = some m.cert) :
    ofTree (.elem (rootName m) (attrsOf m) body) = some m := by
  cases m with
  | childRequest h t c =>
    simp only [taName, Msg.cert] at hb
    unfold ofTree rootName attrsOf attr optAttrRead head
    cases t <;>
    · simp only [optAttr]
      ilits
      simp [lookup, unescape_escapeAttr, hb]
  | parentResponse p ch u t c =>
    simp only [taName, Msg.cert] at hb
    unfold ofTree rootName attrsOf attr optAttrRead head
    cases t <;>
    · simp only [optAttr]
      ilits
      simp [lookup, unescape_escapeAttr, hb]
  | publisherRequest h t c =>
    simp only [taName, Msg.cert] at hb
    unfold ofTree rootName attrsOf attr optAttrRead head
    cases t <;>
    · simp only [optAttr]
      ilits
      simp [lookup, unescape_escapeAttr, hb]
  | repositoryResponse h u b n t c =>
    simp only [taName, Msg.cert] at hb
    unfold ofTree rootName attrsOf attr optAttrRead head
    cases t <;> cases n <;>
    · simp only [optAttr]
      ilits
      simp [lookup, unescape_escapeAttr, hb]

/-- (2) the tree reader inverts `toTree` -/
theorem ofTree_toTree (m : Msg) (hw : m.WF) : ofTree (toTree m) = some m := by
  rw [toTree_eq]
  exact ofTree_parts m _ (readTa_ta _ _ hw)

/-- (2) the same for the tree the reference reader returns for the written document -/
theorem ofTree_strip_toTree (m : Msg) (hw : m.WF) : ofTree (strip (toTree m)) = some m := by
  rw [strip_toTree]
  apply ofTree_parts
  by_cases hc : m.cert = []
  · rw [if_pos hc, hc]; exact readTa_empty _
  · rw [if_neg hc]; exact readTa_ta _ _ hw

/-! ### (3) documents -/

theorem toTree_isElem (m : Msg) : ∃ name attrs body, toTree m = Node.elem name attrs body :=
  ⟨_, _, _, toTree_eq m⟩

/-- the reference reader returns the written tree, minus the empty text line of an empty certificate -/
theorem parse_write_msg (m : Msg) (hw : m.WF) : parseDoc (write m) = some (strip (toTree m)) :=
  parse_write0 _ (toTree_WF0 m hw) (toTree_isElem m)

/-- (3) reading a written message gives the message back; an empty certificate included -/
theorem read_write (m : Msg) (hw : m.WF) : read (write m) = some m := by
  unfold read
  rw [parse_write_msg m hw, Option.bind_some]
  exact ofTree_strip_toTree m hw

/-! ### (4) the writer is injective -/

theorem write_injective (a b : Msg) (ha : a.WF) (hb : b.WF) (h : write a = write b) : a = b := by
  have h1 := read_write a ha
  rw [h, read_write b hb] at h1
  exact (Option.some.inj h1).symm

/-! ### the attribute names are distinct literals -/

theorem tag_ne_names :
    s "tag" ≠ s "xmlns" ∧ s "tag" ≠ s "version" ∧ s "tag" ≠ s "child_handle" ∧ s "tag" ≠ s "parent_handle" ∧
    s "tag" ≠ s "publisher_handle" ∧ s "tag" ≠ s "service_uri" ∧ s "tag" ≠ s "sia_base" ∧
    s "tag" ≠ s "rrdp_notification_uri" := by
  ilits; decide

theorem notify_ne_names :
    s "rrdp_notification_uri" ≠ s "xmlns" ∧ s "rrdp_notification_uri" ≠ s "version" ∧
    s "rrdp_notification_uri" ≠ s "publisher_handle" ∧ s "rrdp_notification_uri" ≠ s "service_uri" ∧
    s "rrdp_notification_uri" ≠ s "sia_base" := by
  ilits; decide

/-! ### instances and boundary cases -/

/-- a handle with `<`, `"` and `&`, no tag, an empty certificate -/
def sampleChild : Msg := .childRequest [60, 34, 38] none []
/-- every optional attribute present, octets up to 255 in the certificate -/
def sampleRepo : Msg := .repositoryResponse [97] [98, 38] [99] (some [100]) (some []) [0, 255, 7, 1]

theorem sampleChild_WF : sampleChild.WF := by intro x hx; cases hx
theorem sampleRepo_WF : sampleRepo.WF := by unfold Msg.WF BytesOk sampleRepo Msg.cert; decide

/-- the hypotheses are satisfiable, also with an empty certificate -/
example : read (write sampleChild) = some sampleChild := read_write _ sampleChild_WF
example : read (write sampleRepo) = some sampleRepo := read_write _ sampleRepo_WF

/-- why `toTree_WF` asks for a certificate that is not empty: its text line would be empty -/
theorem cert_nonEmpty_needed : ¬ (toTree (.childRequest [] none [])).WF := by
  intro h
  rw [toTree_eq, Node.WF_elem] at h
  have h1 := h.2.2
  simp only [ta] at h1
  rw [Nodes.WF_cons, Node.WF_elem] at h1
  have h2 := h1.1.2.2
  simp only at h2
  rw [Nodes.WF_cons, Node.WF_text, Msg.cert, PubMsg.b64Encode_nil] at h2
  exact h2.1.1 rfl

end Rpki.IdxMsg
