import Rpki.Model.RtrSession
namespace Rpki.RtrSession
open Rpki.Consts

/-! ### keys -/

theorem sameKey_refl (a : Item) : a.sameKey a = true := by
  cases a <;> simp [Item.sameKey]

theorem sameKey_symm (a b : Item) : a.sameKey b = b.sameKey a := by
  rw [Bool.eq_iff_iff]
  cases a <;> cases b <;> simp only [Item.sameKey, beq_iff_eq] <;> exact ⟨fun h => h.symm, fun h => h.symm⟩

theorem sameKey_minVersion (a b : Item) (h : a.sameKey b = true) : a.minVersion = b.minVersion := by
  cases a <;> cases b <;> simp_all [Item.sameKey, Item.minVersion]

/-- a payload set as the source holds it: at most one record per key -/
def WFSet (s : PSet) : Prop := ∀ a ∈ s, ∀ b ∈ s, a.sameKey b = true → a = b

def SetEq (a b : PSet) : Prop := ∀ x, x ∈ a ↔ x ∈ b

/-! ### effect of updates on membership -/

theorem mem_applyOne (d : PSet) (a : Action) (y x : Item) :
    x ∈ applyOne d (a, y) ↔ (a = .announce ∧ x = y) ∨ (x ∈ d ∧ y.sameKey x = false) := by
  cases a with
  | announce =>
    simp only [applyOne, List.mem_append, List.mem_filter, List.mem_singleton, Bool.not_eq_true']
    constructor
    · rintro (h | h)
      · exact Or.inr h
      · exact Or.inl ⟨trivial, h⟩
    · rintro (⟨_, h⟩ | h)
      · exact Or.inr h
      · exact Or.inl h
  | withdraw =>
    simp only [applyOne, List.mem_filter, Bool.not_eq_true']
    constructor
    · intro h; exact Or.inr h
    · rintro (⟨h, _⟩ | h)
      · cases h
      · exact h

theorem applyAll_cons (d : PSet) (e : Action × Item) (u : Update) :
    applyAll d (e :: u) = applyAll (applyOne d e) u := rfl

/-- applying a list of withdrawals removes exactly the records with one of their keys -/
theorem mem_apply_withdraws (w : List Item) : ∀ (d : PSet) (x : Item),
    x ∈ applyAll d (w.map (fun y => (Action.withdraw, y))) ↔ x ∈ d ∧ ∀ y ∈ w, y.sameKey x = false := by
  induction w with
  | nil => intro d x; simp [applyAll]
  | cons y ys ih =>
    intro d x
    simp only [List.map_cons, applyAll_cons, ih, mem_applyOne, List.mem_cons, forall_eq_or_imp]
    constructor
    · rintro ⟨(⟨h, _⟩ | ⟨h1, h2⟩), h3⟩
      · cases h
      · exact ⟨h1, h2, h3⟩
    · rintro ⟨h1, h2, h3⟩
      exact ⟨Or.inr ⟨h1, h2⟩, h3⟩

/-- applying a list of announcements with pairwise different keys adds them and removes what they replace -/
theorem mem_apply_announces (a : List Item) (hk : WFSet a) : ∀ (d : PSet) (x : Item),
    x ∈ applyAll d (a.map (fun y => (Action.announce, y))) ↔
      x ∈ a ∨ (x ∈ d ∧ ∀ y ∈ a, y.sameKey x = false) := by
  induction a with
  | nil => intro d x; simp [applyAll]
  | cons y ys ih =>
    intro d x
    have hk' : WFSet ys := fun p hp q hq h => hk p (List.mem_cons_of_mem _ hp) q (List.mem_cons_of_mem _ hq) h
    simp only [List.map_cons, applyAll_cons, ih hk', mem_applyOne, List.mem_cons, forall_eq_or_imp]
    constructor
    · rintro (h | ⟨(⟨_, h⟩ | ⟨h1, h2⟩), h3⟩)
      · exact Or.inl (Or.inr h)
      · exact Or.inl (Or.inl h)
      · exact Or.inr ⟨h1, h2, h3⟩
    · rintro ((h | h) | ⟨h1, h2, h3⟩)
      · -- x = y: it stays unless a later announcement has the same key, which WF excludes
        subst h
        by_cases hx : x ∈ ys
        · exact Or.inl hx
        · right
          refine ⟨Or.inl ⟨trivial, rfl⟩, ?_⟩
          intro z hz
          by_cases hs : z.sameKey x = true
          · have := hk z (List.mem_cons_of_mem _ hz) x (List.mem_cons_self ..) hs
            subst this; exact absurd hz hx
          · simpa using hs
      · exact Or.inl h
      · exact Or.inr ⟨Or.inr ⟨h1, h2⟩, h3⟩

theorem applyAll_append (d : PSet) (u v : Update) : applyAll d (u ++ v) = applyAll (applyAll d u) v := by
  unfold applyAll; rw [List.foldl_append]

theorem gate_append (v : Nat) (a b : Update) : gate v (a ++ b) = gate v a ++ gate v b := by
  unfold gate; simp

theorem gate_map (v : Nat) (act : Action) (l : List Item) :
    gate v (l.map (fun y => (act, y))) = (l.filter (fun y => y.minVersion ≤ v)).map (fun y => (act, y)) := by
  unfold gate
  induction l with
  | nil => rfl
  | cons y ys ih =>
    simp only [List.map_cons, List.filter_cons]
    by_cases h : y.minVersion ≤ v
    · simp [h, ih]
    · simp [h, ih]

theorem wf_filter (s : PSet) (p : Item → Bool) (h : WFSet s) : WFSet (s.filter p) := by
  intro a ha b hb hab
  exact h a (List.mem_filter.1 ha).1 b (List.mem_filter.1 hb).1 hab

/-- The gated diff between two well-formed sets takes the restriction of the old set to the
restriction of the new one. -/
theorem diff_apply (v : Nat) (old new : PSet) (ho : WFSet old) (hn : WFSet new) :
    SetEq (applyAll (restrict v old) (gate v (diffItems old new))) (restrict v new) := by
  intro x
  unfold diffItems
  rw [gate_append, gate_map, gate_map, applyAll_append]
  have hkA : WFSet ((new.filter (fun y => !old.contains y)).filter (fun y => y.minVersion ≤ v)) :=
    wf_filter _ _ (wf_filter _ _ hn)
  rw [mem_apply_announces _ hkA, mem_apply_withdraws]
  simp only [restrict, List.mem_filter, Bool.not_eq_true', decide_eq_true_eq, List.contains_eq_mem,
    List.any_eq_false, Bool.not_eq_true, decide_eq_false_iff_not]
  constructor
  · rintro (⟨⟨h1, _⟩, h2⟩ | ⟨⟨⟨h1, h2⟩, h3⟩, h4⟩)
    · exact ⟨h1, h2⟩
    · -- x is in the old set, was not withdrawn and not replaced: it is in the new set
      by_cases hx : ∃ y ∈ new, x.sameKey y = true
      · obtain ⟨y, hy, hxy⟩ := hx
        by_cases hyx : y = x
        · subst hyx; exact ⟨hy, h2⟩
        · exfalso
          have hyo : y ∉ old := by
            intro hyo
            exact hyx (ho y hyo x h1 (by rw [sameKey_symm]; exact hxy))
          have := h4 y ⟨⟨hy, hyo⟩, by rw [← sameKey_minVersion x y hxy]; exact h2⟩
          rw [sameKey_symm] at this
          rw [this] at hxy; cases hxy
      · exfalso
        have hnone : ∀ y ∈ new, x.sameKey y = false := by
          intro y hy
          by_cases hs : x.sameKey y = true
          · exact absurd ⟨y, hy, hs⟩ hx
          · simpa using hs
        have := h3 x ⟨⟨h1, hnone⟩, h2⟩
        rw [sameKey_refl] at this; cases this
  · rintro ⟨h1, h2⟩
    by_cases hxo : x ∈ old
    · right
      refine ⟨⟨⟨hxo, h2⟩, ?_⟩, ?_⟩
      · rintro w ⟨⟨hw1, hw2⟩, _⟩
        have := hw2 x h1
        exact this
      · rintro a ⟨⟨ha1, ha2⟩, _⟩
        by_cases hs : a.sameKey x = true
        · have := hn a ha1 x h1 hs
          subst this; exact absurd hxo ha2
        · simpa using hs
    · left; exact ⟨⟨h1, hxo⟩, h2⟩

/-- A reset (everything announced onto empty data) yields the restriction of the new set. -/
theorem reset_apply (v : Nat) (new : PSet) (hn : WFSet new) :
    SetEq (applyAll [] (gate v (new.map (fun y => (Action.announce, y))))) (restrict v new) := by
  intro x
  rw [gate_map, mem_apply_announces _ (wf_filter _ _ hn)]
  simp [restrict]

/-- applying the same updates to extensionally equal data gives extensionally equal data -/
theorem applyAll_setEq (u : Update) : ∀ (d d' : PSet), SetEq d d' → SetEq (applyAll d u) (applyAll d' u) := by
  induction u with
  | nil => intro d d' h; exact h
  | cons e es ih =>
    intro d d' h
    rw [applyAll_cons, applyAll_cons]
    apply ih
    intro x
    obtain ⟨a, y⟩ := e
    rw [mem_applyOne, mem_applyOne, h x]

end Rpki.RtrSession
