/-
  `SigMsgDer.decodeSigMsg` reads back what `SigMsgEnc.encodeSigMsg` writes (`SignedMessage::encode_ref` /
  `SignedMessage::decode` in strict mode), including its own CRL type.
-/
import Rpki.Model.SigMsgEnc
import Rpki.Proofs.IdEncLemmas
import Rpki.Proofs.CrlEncLemmas
import Rpki.Proofs.CmsEncLemmas
namespace Rpki.SigMsgEnc
open Rpki.Der Rpki.CertDer Rpki.SigMsgDer Rpki.CertEnc Rpki.CmsEnc Rpki.CmsDer Rpki.Consts

/-! ### the message's own revocation list reader on what `CrlEntry::encode` writes -/

theorem takeOptMsgEntry_encode (e : Crl.Entry) (he : Crl.EntryOk e) (rest : Bytes) :
    takeOptMsgEntry (Crl.encodeEntry e ++ rest) = .ok e rest := by
  obtain ⟨hs, hv, hy⟩ := he
  have hser := (C17.serial_der_roundtrip e.serial hs).1
  have htime := Crl.takeTime_encodeVaried e.date [] hv hy
  rw [List.append_nil] at htime
  rw [Crl.encodeEntry_eq]
  unfold takeOptMsgEntry
  rw [takeOptCons_tlv' tagSeq _ rest (by decide) (by decide)]
  dsimp only
  rw [IpDer.takePrim_tlv' tagInt _ _ (by decide) (by decide)]
  dsimp only
  rw [hser]
  dsimp only
  rw [htime]
  have : takeOptCons tagSeq [] = .absent := rfl
  simp [this]

theorem takeOptMsgEntry_nil : takeOptMsgEntry [] = .absent := rfl

theorem capturePassMsg_encode : ∀ (es : List Crl.Entry) (fuel n : Nat), es.length ≤ fuel →
    (∀ e ∈ es, Crl.EntryOk e) →
    capturePass takeOptMsgEntry (fun _ => true) fuel (Crl.encodeList es) n = some (n + es.length) := by
  intro es
  induction es with
  | nil =>
    intro fuel n _ _
    cases fuel with
    | zero => simp [capturePass, Crl.encodeList_nil]
    | succ f => simp [capturePass, Crl.encodeList_nil, takeOptMsgEntry_nil]
  | cons e es ih =>
    intro fuel n hf hv
    cases fuel with
    | zero => simp at hf
    | succ f =>
      rw [Crl.encodeList_cons, capturePass, takeOptMsgEntry_encode e (hv e (List.mem_cons_self ..))]
      simp only [if_true]
      rw [ih f (n + 1) (by simpa using hf) (fun x hx => hv x (List.mem_cons_of_mem _ hx))]
      simp only [List.length_cons]
      congr 1; omega

theorem iteratePassMsg_encode : ∀ (es : List Crl.Entry) (fuel : Nat), es.length ≤ fuel →
    (∀ e ∈ es, Crl.EntryOk e) → iteratePass takeOptMsgEntry fuel (Crl.encodeList es) = some es := by
  intro es
  induction es with
  | nil =>
    intro fuel _ _
    cases fuel with
    | zero => simp [iteratePass]
    | succ f => simp [iteratePass, Crl.encodeList_nil, takeOptMsgEntry_nil]
  | cons e es ih =>
    intro fuel hf hv
    cases fuel with
    | zero => simp at hf
    | succ f =>
      rw [Crl.encodeList_cons, iteratePass, takeOptMsgEntry_encode e (hv e (List.mem_cons_self ..))]
      simp only
      rw [ih f (by simpa using hf) (fun x hx => hv x (List.mem_cons_of_mem _ hx))]
      rfl

/-- the serial numbers `contains` walks over are the ones written -/
theorem msgRevokedSerials_encode (es : List Crl.Entry) (h : ∀ e ∈ es, Crl.EntryOk e) :
    msgRevokedSerials (Crl.encodeList es) = some (es.map (·.serial)) := by
  unfold msgRevokedSerials
  rw [iteratePassMsg_encode es _ (Crl.length_le_encodeList es) h]
  rfl

theorem takeMsgRevoked_enc (es : List Crl.Entry) (h : ∀ e ∈ es, Crl.EntryOk e) (rest : Bytes) :
    takeMsgRevoked (tlv tagSeq (Crl.encodeList es) ++ rest) = some (Crl.encodeList es, rest) := by
  unfold takeMsgRevoked
  rw [takeOptCons_tlv' tagSeq _ rest (by decide) (by decide)]
  dsimp only
  rw [capturePassMsg_encode es _ 0 (Crl.length_le_encodeList es) h]

/-! ### extensions -/

theorem msgCrlExtension_aki (e : CrlDer.CrlExts) (k : Bytes) (hk : k.length = 20) (he : e.aki = none) :
    msgCrlExtension e (CrlEnc.akiBody k) = some { e with aki := some k } := by
  have := CrlEnc.crlExtension_aki e k hk he
  unfold msgCrlExtension
  rw [this]
  unfold CrlEnc.akiBody extBody
  rw [List.append_assoc, takeOid_tlv oidAuthorityKeyId _ (by decide)]
  simp

theorem msgCrlExtension_number (e : CrlDer.CrlExts) (n : Bytes) (hn : X509.VS n) (he : e.number = none) :
    msgCrlExtension e (CrlEnc.numberBody n) = some { e with number := some n } := by
  have := CrlEnc.crlExtension_number e n hn he
  unfold msgCrlExtension
  rw [this]
  unfold CrlEnc.numberBody extBody
  rw [List.append_assoc, takeOid_tlv oidCrlNumber _ (by decide)]
  simp

/-- the fields of a message CRL are in the profile -/
structure WFCrl (d : MsgCrlD) : Prop where
  issuer : NameOk d.issuer
  this : X509.validCivil d.thisUpdate = true ∧ d.thisUpdate.y ≤ 9999
  next : X509.validCivil d.nextUpdate = true ∧ d.nextUpdate.y ≤ 9999
  revoked : ∃ es, d.revoked = Crl.encodeList es ∧ ∀ e ∈ es, Crl.EntryOk e
  aki : ∀ k, d.aki = some k → k.length = 20
  number : ∀ n, d.number = some n → X509.VS n

theorem msgCrlExtItems_fold (d : MsgCrlD) (h : WFCrl d) :
    (msgCrlExtItems d).foldlM msgCrlExtension {} = some { aki := d.aki, number := d.number } := by
  obtain ⟨ip, op, issuer, tu, nu, revoked, aki, number, tbs, signature⟩ := d
  have haki := h.aki; have hnum := h.number
  simp only at haki hnum
  unfold msgCrlExtItems
  simp only [List.foldlM_append]
  cases aki with
  | none =>
    cases number with
    | none => simp
    | some n => simp [msgCrlExtension_number {} n (hnum n rfl) rfl]
  | some k =>
    cases number with
    | none => simp [msgCrlExtension_aki {} k (haki k rfl) rfl]
    | some n => simp [msgCrlExtension_aki {} k (haki k rfl) rfl,
        msgCrlExtension_number { aki := some k } n (hnum n rfl) rfl]

/-- **`SignedMessageTbsCrl::take_from` reads back what `SignedMessageTbsCrl::encode_ref` writes.** -/
theorem decodeTbsMsgCrl_enc (d : MsgCrlD) (h : WFCrl d) :
    decodeTbsMsgCrl (encodeTbsMsgCrl d) =
      some { d with innerParam := true, outerParam := true, tbs := encodeTbsMsgCrl d, signature := [] } := by
  obtain ⟨es, hes, hok⟩ := h.revoked
  have hfold := msgCrlExtItems_fold d h
  unfold decodeTbsMsgCrl
  have e0 : encodeTbsMsgCrl d = tlv tagSeq (tlv tagInt [1] ++ (sigAlgEnc ++ (d.issuer ++ (timeTlv d.thisUpdate ++ (timeTlv d.nextUpdate ++ (tlv tagSeq d.revoked ++ tlv 0xA0 (tlv tagSeq (seqs (msgCrlExtItems d))))))))) := by
    unfold encodeTbsMsgCrl; simp only [List.append_assoc]
  rw [e0, takeCons_tlv_nil tagSeq _ (by decide) (by decide)]
  dsimp only
  rw [IpDer.takePrim_tlv' tagInt [1] _ (by decide) (by decide)]
  dsimp only
  simp only [ne_eq, not_true_eq_false, if_false]
  rw [takeSigAlg_enc]
  dsimp only
  rw [h.issuer]
  dsimp only
  rw [CrlEnc.takeTime_timeTlv d.thisUpdate _ h.this]
  dsimp only
  rw [CrlEnc.takeTime_timeTlv d.nextUpdate _ h.next]
  dsimp only
  rw [hes, takeMsgRevoked_enc es hok]
  dsimp only
  rw [takeCons_tlv_nil 0xA0 _ (by decide) (by decide)]
  dsimp only
  simp only [not_true_eq_false, if_false]
  rw [takeCons_tlv_nil tagSeq _ (by decide) (by decide)]
  dsimp only
  simp only [not_true_eq_false, if_false]
  unfold seqs at e0 ⊢
  rw [foldCons_items' tagSeq (by decide) (by decide) msgCrlExtension _ {}, hfold]

end Rpki.SigMsgEnc

namespace Rpki.SigMsgEnc
open Rpki.Der Rpki.CertDer Rpki.SigMsgDer Rpki.CertEnc Rpki.CmsEnc Rpki.CmsDer Rpki.Consts

theorem msgCrlExtItems_forest (d : MsgCrlD) : ∀ x ∈ msgCrlExtItems d, Forest x := by
  intro x hx
  unfold msgCrlExtItems at hx
  simp only [List.mem_append, Option.mem_toList, Option.map_eq_some_iff] at hx
  rcases hx with ⟨a, _, rfl⟩ | ⟨a, _, rfl⟩
  · exact forest_extBody _ _ _
  · exact forest_extBody _ _ _

/-- **`SignedMessageCrl::from_constructed` reads back what `SignedMessageCrl::encode_ref` writes** (the content of
the CRL SEQUENCE). -/
theorem msgCrlBody_enc (d : MsgCrlD) (h : WFCrl d) (hi : Forest d.issuer) (signature : Bytes) :
    msgCrlBody (encodeTbsMsgCrl d ++ sigAlgEnc ++ tlv tagBitString (0 :: signature)) =
      some { d with innerParam := true, outerParam := true, tbs := encodeTbsMsgCrl d, signature := signature } := by
  obtain ⟨es, hes, _⟩ := h.revoked
  have hbody : ∃ body, encodeTbsMsgCrl d = tlv tagSeq body ∧ Forest body := by
    refine ⟨_, rfl, ?_⟩
    refine forest_append (forest_append (forest_append (forest_append (forest_append (forest_append ?_ ?_) ?_) ?_) ?_) ?_) ?_
    · exact forest_prim1 tagInt [1] (by decide) (by decide) (by decide)
    · exact forest_sigAlg
    · exact hi
    · exact forest_timeTlv _
    · exact forest_timeTlv _
    · rw [hes]; exact forest_cons1 tagSeq _ (by decide) (by decide) (CrlEnc.forest_encodeList es)
    · exact forest_cons1 0xA0 _ (by decide) (by decide)
        (forest_cons1 tagSeq _ (by decide) (by decide) (forest_seqs _ (msgCrlExtItems_forest d)))
  obtain ⟨body, hb, hf⟩ := hbody
  unfold msgCrlBody
  have hne : encodeTbsMsgCrl d ++ sigAlgEnc ++ tlv tagBitString (0 :: signature) ≠ [] := by
    rw [hb]; simp [tlv]
  simp only [hne, if_false]
  have hskip : skipOne (encodeTbsMsgCrl d ++ sigAlgEnc ++ tlv tagBitString (0 :: signature)) =
      some (sigAlgEnc ++ tlv tagBitString (0 :: signature)) := by
    rw [List.append_assoc, hb]
    exact skipOne_cons tagSeq body _ (by decide) (by decide) hf
  rw [hskip]
  dsimp only
  have hraw : List.take ((encodeTbsMsgCrl d ++ sigAlgEnc ++ tlv tagBitString (0 :: signature)).length -
      (sigAlgEnc ++ tlv tagBitString (0 :: signature)).length)
      (encodeTbsMsgCrl d ++ sigAlgEnc ++ tlv tagBitString (0 :: signature)) = encodeTbsMsgCrl d := by
    rw [List.append_assoc, List.length_append, Nat.add_sub_cancel]
    exact List.take_left' rfl
  rw [hraw, takeSigAlg_enc]
  dsimp only
  have hbs := takeBitString_enc 0 signature [] (by simp [Manifest.bitStringTake])
  rw [List.append_nil] at hbs
  rw [hbs]
  dsimp only
  simp [decodeTbsMsgCrl_enc d h]

theorem msgSignerInfo_enc (ct sid attrs md sig : Bytes) (st : X509.Civil) (hsid : sid.length = 20)
    (hp : SigObj.parseAttrs false attrs = some (ct, md, st)) :
    msgSignerInfo ct (tlv tagInt [3] ++ tlv 0x80 sid ++ digestAlgEnc ++ tlv 0xA0 attrs ++ cmsSigAlgEnc ++
      tlv tagOctetString sig) = some (sid, attrs, md, sig) := by
  unfold msgSignerInfo
  simp only [List.append_assoc]
  rw [skipU8_enc]
  dsimp only
  rw [IpDer.takePrim_tlv' 0x80 sid _ (by decide) (by decide)]
  dsimp only
  have hk : keyIdOk sid = true := by simp [keyIdOk, hsid]
  simp only [hk, Bool.not_true, Bool.false_eq_true, if_false]
  rw [takeDigestAlg_enc]
  dsimp only
  rw [AsDer.takeCons_tlv' 0xA0 attrs _ (by decide) (by decide)]
  dsimp only
  rw [hp]
  dsimp only
  simp only [ne_eq, not_true_eq_false, if_false]
  rw [takeCmsSigAlg_enc]
  dsimp only
  rw [takePrim_tlv_nil tagOctetString sig (by decide) (by decide)]
  simp

/-- **`SignedMessage::decode` (strict) reads back what `SignedMessage::encode_ref` writes**, given that the
embedded identity certificate and CRL are read by their decoders and the signed attributes parse. -/
theorem decodeSigMsg_encodeSigMsg (content certC crlC sid attrs md sig : Bytes) (st : X509.Civil)
    (cert : IdCertD) (crl : MsgCrlD) (hsid : sid.length = 20)
    (hp : SigObj.parseAttrs false attrs = some (oidProtocolContentType, md, st))
    (hcert : idCertBody certC = some cert) (hcrl : msgCrlBody crlC = some crl) (rest : Bytes) :
    decodeSigMsg (encodeSigMsg content (tlv tagSeq certC) (tlv tagSeq crlC) sid attrs sig ++ rest) =
      some { content := content, cert := cert, crl := crl, sid := sid, attrs := attrs, messageDigest := md,
             signature := sig } := by
  unfold decodeSigMsg encodeSigMsg
  rw [AsDer.takeCons_tlv' tagSeq _ rest (by decide) (by decide)]
  dsimp only
  rw [IpDer.takePrim_tlv' tagOid oidSignedData _ (by decide) (by decide)]
  dsimp only
  simp only [ne_eq, not_true_eq_false, if_false]
  rw [takeCons_tlv_nil 0xA0 _ (by decide) (by decide)]
  dsimp only
  simp only [not_true_eq_false, if_false]
  rw [takeCons_tlv_nil tagSeq _ (by decide) (by decide)]
  dsimp only
  simp only [not_true_eq_false, if_false]
  unfold msgSignedData
  have hhead : ∀ r, msgHead (tlv tagInt [3] ++ (tlv tagSet digestAlgEnc ++ r)) = some r := by
    intro r
    unfold msgHead
    rw [skipU8_enc]
    dsimp only
    rw [AsDer.takeCons_tlv' tagSet _ _ (by decide) (by decide)]
    dsimp only
    have hd := takeDigestAlg_enc []
    rw [List.append_nil] at hd
    rw [hd]
    simp
  have hencap : ∀ r, msgEncap (tlv tagSeq (tlv tagOid oidProtocolContentType ++ tlv 0xA0 (tlv tagOctetString content)) ++ r) =
      some (oidProtocolContentType, content, r) := by
    intro r
    unfold msgEncap
    rw [AsDer.takeCons_tlv' tagSeq _ _ (by decide) (by decide)]
    dsimp only
    rw [takeOid_tlv oidProtocolContentType _ (by decide)]
    dsimp only
    rw [takeCons_tlv_nil 0xA0 _ (by decide) (by decide)]
    dsimp only
    simp only [ne_eq, not_true_eq_false, if_false]
    rw [takePrim_tlv_nil tagOctetString content (by decide) (by decide)]
    simp
  have hcp : ∀ r, msgCertPart (tlv 0xA0 (tlv tagSeq certC) ++ r) = some (cert, r) := by
    intro r
    unfold msgCertPart
    rw [AsDer.takeCons_tlv' 0xA0 _ _ (by decide) (by decide)]
    dsimp only
    have hr := AsDer.readTlv_tlv' tagSeq certC [] (by decide)
    rw [List.append_nil] at hr
    have e1 : tlv tagSeq certC = tagSeq :: (encLen certC.length ++ certC) := rfl
    rw [e1] at hr ⊢
    dsimp only
    rw [hr]
    have h1 : ¬ tagSeq % 32 = 31 := by decide
    have h2 : isCons tagSeq = true := by decide
    have h3 : tagNoCons tagSeq = 0x10 := by decide
    simp [h1, h2, h3, hcert]
  have hlp : ∀ r, msgCrlPart (tlv 0xA1 (tlv tagSeq crlC) ++ r) = some (crl, r) := by
    intro r
    unfold msgCrlPart
    rw [AsDer.takeCons_tlv' 0xA1 _ _ (by decide) (by decide)]
    dsimp only
    rw [takeCons_tlv_nil tagSeq _ (by decide) (by decide)]
    simp [hcrl]
  have hsp : msgSignerPart oidProtocolContentType (tlv tagSet (signerInfoEnc sid attrs sig)) = some (sid, attrs, md, sig) := by
    unfold msgSignerPart signerInfoEnc
    rw [takeCons_tlv_nil tagSet _ (by decide) (by decide)]
    dsimp only
    simp only [ne_eq, not_true_eq_false, if_false]
    rw [takeCons_tlv_nil tagSeq _ (by decide) (by decide)]
    dsimp only
    simp only [ne_eq, not_true_eq_false, if_false]
    exact msgSignerInfo_enc _ sid attrs md sig st hsid hp
  simp only [List.append_assoc]
  rw [hhead]
  dsimp only
  rw [hencap]
  dsimp only
  rw [hcp]
  dsimp only
  rw [hlp]
  dsimp only
  rw [hsp]

/-- the two parts written by the library's own encoders -/
theorem decodeSigMsg_built (content sid attrs md sig csig lsig : Bytes) (st : X509.Civil)
    (c : IdCertD) (hc : IdEnc.WF c) (hci : Forest c.issuer) (hcs : Forest c.subject)
    (l : MsgCrlD) (hl : WFCrl l) (hli : Forest l.issuer) (hsid : sid.length = 20)
    (hp : SigObj.parseAttrs false attrs = some (oidProtocolContentType, md, st)) (rest : Bytes) :
    decodeSigMsg (encodeSigMsg content (IdEnc.encodeIdCert c csig) (encodeMsgCrl l lsig) sid attrs sig ++ rest) =
      some { content := content, cert := IdEnc.readBack c (IdEnc.encodeTbsId c) csig,
             crl := { l with innerParam := true, outerParam := true, tbs := encodeTbsMsgCrl l, signature := lsig },
             sid := sid, attrs := attrs, messageDigest := md, signature := sig } := by
  have h1 := IdEnc.decodeIdCert_encodeIdCert c hc hci hcs csig []
  rw [List.append_nil] at h1
  unfold decodeIdCert IdEnc.encodeIdCert at h1
  rw [takeCons_tlv_nil tagSeq _ (by decide) (by decide)] at h1
  dsimp only at h1
  exact decodeSigMsg_encodeSigMsg content _ _ sid attrs md sig st _ _ hsid hp h1 (msgCrlBody_enc l hl hli lsig) rest

end Rpki.SigMsgEnc
