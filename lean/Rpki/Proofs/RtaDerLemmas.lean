/-
  What `RtaDer.decodeRta` accepts: the three resource sets of the attestation are canonical chains, and every
  embedded CRL went through the counting pass of `RevokedCertificates::take_from` (so its later lookups and
  iterations cannot fail).
-/
import Rpki.Model.RtaDer
import Rpki.Proofs.CertDerLemmas
import Rpki.Proofs.CrlDerLemmas
import Rpki.Proofs.CmsDerLemmas
namespace Rpki.RtaDer
open Rpki.Der Rpki.CertDer Rpki.CmsDer Rpki.Chain Rpki.Consts

theorem rtaBlocks_canon (W : Nat) (r : Bytes) (hr : AllBytes r) (bs : List Blk) (h : rtaBlocks W r = some bs) :
    Canon IpDer.maxAddr bs := by
  unfold rtaBlocks at h
  cases hc : takeCons tagSeq r with
  | none => simp [hc] at h
  | some p =>
    obtain ⟨bc, rr⟩ := p
    obtain ⟨s1, _⟩ := AsDer.takeCons_sub _ _ _ _ hc
    simp only [hc] at h
    split at h
    · cases h
    · cases hl : IpDer.blocksLoop W bc.length bc with
      | none => simp [hl] at h
      | some l =>
        simp only [hl, Option.map_some, Option.some.injEq] at h
        subst h
        exact (fromIter_spec' IpDer.maxAddr l (IpDer.blocksLoop_sound W _ _ _ (allBytes_of_sub hr s1) hl)).1

def OptCanon (M : Nat) : Option (List Blk) → Prop
  | some c => Canon M c
  | none => True

def FamCanon (s : Option (List Blk) × Option (List Blk)) : Prop := OptCanon IpDer.maxAddr s.1 ∧ OptCanon IpDer.maxAddr s.2

theorem rtaFamily_canon (s : Option (List Blk) × Option (List Blk)) (c : Bytes) (s' : Option (List Blk) × Option (List Blk))
    (hc : AllBytes c) (hs : FamCanon s) (h : rtaFamily s c = some s') : FamCanon s' := by
  unfold rtaFamily at h
  cases hp : takePrim tagOctetString c with
  | none => simp [hp] at h
  | some p =>
    obtain ⟨af, r⟩ := p
    obtain ⟨_, s2⟩ := AsDer.takePrim_sub _ _ _ _ hp
    simp only [hp] at h
    split at h
    · split at h
      · cases h
      · cases hb : rtaBlocks 32 r with
        | none => simp [hb] at h
        | some bs =>
          simp only [hb, Option.map_some, Option.some.injEq] at h
          subst h
          exact ⟨rtaBlocks_canon 32 r (allBytes_of_sub hc s2) bs hb, hs.2⟩
    · split at h
      · split at h
        · cases h
        · cases hb : rtaBlocks 128 r with
          | none => simp [hb] at h
          | some bs =>
            simp only [hb, Option.map_some, Option.some.injEq] at h
            subst h
            exact ⟨hs.1, rtaBlocks_canon 128 r (allBytes_of_sub hc s2) bs hb⟩
      · cases h

theorem rtaAsRes_canon (rc : Bytes) (hb : AllBytes rc) (a : Option (List Blk)) (r1 : Bytes)
    (h : rtaAsRes rc = some (a, r1)) : OptCanon AsDer.maxAs a ∧ AllBytes r1 := by
  unfold rtaAsRes at h
  cases ho : takeOptCons 0xA0 rc with
  | bad => simp [ho] at h
  | absent =>
    simp only [ho, Option.some.injEq, Prod.mk.injEq] at h
    obtain ⟨rfl, rfl⟩ := h
    exact ⟨trivial, hb⟩
  | ok ac r =>
    obtain ⟨s1, s2⟩ := AsDer.takeOptCons_sub _ _ _ _ ho
    simp only [ho] at h
    cases hc : takeCons tagSeq ac with
    | none => simp [hc] at h
    | some p =>
      obtain ⟨bc, ar⟩ := p
      obtain ⟨s3, _⟩ := AsDer.takeCons_sub _ _ _ _ hc
      simp only [hc] at h
      split at h
      · cases h
      · cases hd : AsDer.decodeBlocks bc with
        | none => simp [hd] at h
        | some bs =>
          simp only [hd, Option.map_some, Option.some.injEq, Prod.mk.injEq] at h
          obtain ⟨rfl, rfl⟩ := h
          exact ⟨AsDer.decodeBlocks_canon bc (allBytes_of_sub (allBytes_of_sub hb s1) s3) bs hd, allBytes_of_sub hb s2⟩

theorem rtaIpRes_canon (r1 : Bytes) (hb : AllBytes r1) (f : Option (List Blk) × Option (List Blk)) (r2 : Bytes)
    (h : rtaIpRes r1 = some (f, r2)) : FamCanon f := by
  unfold rtaIpRes at h
  cases ho : takeOptCons 0xA1 r1 with
  | bad => simp [ho] at h
  | absent =>
    simp only [ho, Option.some.injEq, Prod.mk.injEq] at h
    obtain ⟨rfl, _⟩ := h
    exact ⟨trivial, trivial⟩
  | ok ic r =>
    obtain ⟨s1, _⟩ := AsDer.takeOptCons_sub _ _ _ _ ho
    simp only [ho] at h
    cases hc : takeCons tagSeq ic with
    | none => simp [hc] at h
    | some p =>
      obtain ⟨fc, ir⟩ := p
      obtain ⟨s3, _⟩ := AsDer.takeCons_sub _ _ _ _ hc
      simp only [hc] at h
      split at h
      · cases h
      · cases hf : foldCons tagSeq rtaFamily fc.length fc (none, none) with
        | none => simp [hf] at h
        | some res =>
          simp only [hf, Option.map_some, Option.some.injEq, Prod.mk.injEq] at h
          obtain ⟨rfl, _⟩ := h
          exact foldCons_inv FamCanon tagSeq rtaFamily rtaFamily_canon fc.length fc (none, none) res
            (allBytes_of_sub (allBytes_of_sub hb s1) s3) ⟨trivial, trivial⟩ hf

theorem canon_nil (M : Nat) : Canon M [] := by simp [Canon]

theorem takeResources_canon (rc : Bytes) (hb : AllBytes rc) (v4 v6 asn : List Blk)
    (h : takeResources rc = some (v4, v6, asn)) :
    Canon IpDer.maxAddr v4 ∧ Canon IpDer.maxAddr v6 ∧ Canon AsDer.maxAs asn := by
  unfold takeResources at h
  cases ha : rtaAsRes rc with
  | none => simp [ha] at h
  | some p =>
    obtain ⟨a, r1⟩ := p
    obtain ⟨ca, hb1⟩ := rtaAsRes_canon rc hb a r1 ha
    simp only [ha] at h
    cases hi : rtaIpRes r1 with
    | none => simp [hi] at h
    | some q =>
      obtain ⟨f, r2⟩ := q
      have cf := rtaIpRes_canon r1 hb1 f r2 hi
      simp only [hi] at h
      split at h
      · cases h
      · split at h
        · cases h
        · simp only [Option.some.injEq, Prod.mk.injEq] at h
          obtain ⟨rfl, rfl, rfl⟩ := h
          refine ⟨?_, ?_, ?_⟩
          · cases h1 : f.1 with
            | none => exact canon_nil _
            | some c => have := cf.1; rw [h1] at this; exact this
          · cases h2 : f.2 with
            | none => exact canon_nil _
            | some c => have := cf.2; rw [h2] at this; exact this
          · cases h3 : a with
            | none => exact canon_nil _
            | some c => rw [h3] at ca; exact ca

end Rpki.RtaDer

namespace Rpki.RtaDer
open Rpki.Der Rpki.CertDer Rpki.CmsDer Rpki.Chain Rpki.Consts

theorem rtaVersion_sub (c r0 : Bytes) (h : rtaVersion c = some r0) : ∀ x ∈ r0, x ∈ c := by
  unfold rtaVersion at h
  cases ho : takeOptCons 0xA0 c with
  | bad => simp [ho] at h
  | absent => simp only [ho, Option.some.injEq] at h; subst h; exact fun x hx => hx
  | ok vc r =>
    obtain ⟨_, s2⟩ := AsDer.takeOptCons_sub _ _ _ _ ho
    simp only [ho] at h
    split at h
    · injection h with h; subst h; exact s2
    · cases h

/-- **the attestation's resources are canonical chains** -/
theorem decodeAttestation_canon (b : Bytes) (hb : AllBytes b) (a : Attestation) (h : decodeAttestation b = some a) :
    Canon IpDer.maxAddr a.v4 ∧ Canon IpDer.maxAddr a.v6 ∧ Canon AsDer.maxAs a.asn := by
  unfold decodeAttestation at h
  cases h0 : takeCons tagSeq b with
  | none => simp [h0] at h
  | some p0 =>
    obtain ⟨c, r⟩ := p0
    obtain ⟨s0, _⟩ := AsDer.takeCons_sub _ _ _ _ h0
    simp only [h0] at h
    cases h1 : rtaVersion c with
    | none => simp [h1] at h
    | some r0 =>
      have s1 := rtaVersion_sub c r0 h1
      simp only [h1] at h
      cases h2 : takeCons tagSet r0 with
      | none => simp [h2] at h
      | some p2 =>
        obtain ⟨kc, r1⟩ := p2
        obtain ⟨_, s2⟩ := AsDer.takeCons_sub _ _ _ _ h2
        simp only [h2] at h
        cases h3 : rtaKeys kc with
        | none => simp [h3] at h
        | some keys =>
          simp only [h3] at h
          cases h4 : takeCons tagSeq r1 with
          | none => simp [h4] at h
          | some p4 =>
            obtain ⟨rc, r2⟩ := p4
            obtain ⟨s4, _⟩ := AsDer.takeCons_sub _ _ _ _ h4
            simp only [h4] at h
            cases h5 : takeResources rc with
            | none => simp [h5] at h
            | some p5 =>
              obtain ⟨v4, v6, asn⟩ := p5
              have hrc : AllBytes rc :=
                allBytes_of_sub (allBytes_of_sub (allBytes_of_sub (allBytes_of_sub hb s0) s1) s2) s4
              have hc := takeResources_canon rc hrc v4 v6 asn h5
              simp only [h5] at h
              cases h6 : takeDigestAlg r2 with
              | none => simp [h6] at h
              | some r3 =>
                simp only [h6] at h
                cases h7 : takePrim tagOctetString r3 with
                | none => simp [h7] at h
                | some p7 =>
                  obtain ⟨dg, r4⟩ := p7
                  simp only [h7] at h
                  split at h
                  · cases h
                  · injection h with h; subst h; exact hc

/-- every CRL collected by the loop over the `[1]` field went through the counting pass -/
theorem rtaCrl_inv (acc : List CrlDer.CrlD) (c : Bytes) (acc' : List CrlDer.CrlD) (_hc : AllBytes c)
    (hs : ∀ d ∈ acc, ∃ n, Crl.capture d.revoked = some n) (h : rtaCrl acc c = some acc') :
    ∀ d ∈ acc', ∃ n, Crl.capture d.revoked = some n := by
  unfold rtaCrl at h
  cases hi : CrlDer.crlInner c with
  | none => simp [hi] at h
  | some d0 =>
    simp only [hi, Option.map_some, Option.some.injEq] at h
    subst h
    intro d hd
    rcases List.mem_append.mp hd with h1 | h1
    · exact hs d h1
    · simp only [List.mem_singleton] at h1; subst h1; exact CrlDer.crlInner_revoked c _ hi

theorem rtaCrls_captured (r3 : Bytes) (hb : AllBytes r3) (l : List CrlDer.CrlD) (r4 : Bytes)
    (h : rtaCrls r3 = some (l, r4)) : ∀ d ∈ l, ∃ n, Crl.capture d.revoked = some n := by
  unfold rtaCrls at h
  cases ho : takeOptCons 0xA1 r3 with
  | bad => simp [ho] at h
  | absent =>
    simp only [ho, Option.some.injEq, Prod.mk.injEq] at h
    obtain ⟨rfl, _⟩ := h
    intro d hd; cases hd
  | ok lc r =>
    obtain ⟨s1, _⟩ := AsDer.takeOptCons_sub _ _ _ _ ho
    simp only [ho] at h
    cases hf : foldCons tagSeq rtaCrl lc.length lc [] with
    | none => simp [hf] at h
    | some res =>
      simp only [hf, Option.map_some, Option.some.injEq, Prod.mk.injEq] at h
      obtain ⟨rfl, _⟩ := h
      exact foldCons_inv (fun acc => ∀ d ∈ acc, ∃ n, Crl.capture d.revoked = some n) tagSeq rtaCrl rtaCrl_inv
        lc.length lc [] res (allBytes_of_sub hb s1) (by intro d hd; cases hd) hf

end Rpki.RtaDer

namespace Rpki.RtaDer
open Rpki.Der Rpki.CertDer Rpki.CmsDer Rpki.Chain Rpki.Consts

theorem rtaEncap_sub (r1 content r2 : Bytes) (h : rtaEncap r1 = some (content, r2)) :
    (∀ x ∈ content, x ∈ r1) ∧ (∀ x ∈ r2, x ∈ r1) := by
  unfold rtaEncap at h
  cases h0 : takeCons tagSeq r1 with
  | none => simp [h0] at h
  | some p0 =>
    obtain ⟨ec, r2'⟩ := p0
    obtain ⟨s0, s0'⟩ := AsDer.takeCons_sub _ _ _ _ h0
    simp only [h0] at h
    cases h1 : takePrim tagOid ec with
    | none => simp [h1] at h
    | some p1 =>
      obtain ⟨ct, er⟩ := p1
      obtain ⟨_, s1⟩ := AsDer.takePrim_sub _ _ _ _ h1
      simp only [h1] at h
      split at h
      · cases h
      · cases h2 : takeCons 0xA0 er with
        | none => simp [h2] at h
        | some p2 =>
          obtain ⟨oc, er2⟩ := p2
          obtain ⟨s2, _⟩ := AsDer.takeCons_sub _ _ _ _ h2
          simp only [h2] at h
          split at h
          · cases h
          · cases h3 : takePrim tagOctetString oc with
            | none => simp [h3] at h
            | some p3 =>
              obtain ⟨ct', or2⟩ := p3
              obtain ⟨s3, _⟩ := AsDer.takePrim_sub _ _ _ _ h3
              simp only [h3] at h
              split at h
              · cases h
              · simp only [Option.some.injEq, Prod.mk.injEq] at h
                obtain ⟨rfl, rfl⟩ := h
                exact ⟨fun x hx => s0 x (s1 x (s2 x (s3 x hx))), s0'⟩

theorem rtaSignedData_spec (sd : Bytes) (hb : AllBytes sd) (content : Bytes) (certs : List Decoded)
    (crls : List CrlDer.CrlD) (signers : List Signer) (h : rtaSignedData sd = some (content, certs, crls, signers)) :
    AllBytes content ∧ ∀ d ∈ crls, ∃ n, Crl.capture d.revoked = some n := by
  unfold rtaSignedData at h
  cases h0 : skipU8 3 sd with
  | none => simp [h0] at h
  | some r0 =>
    have s0 := skipU8_sub 3 sd r0 h0
    simp only [h0] at h
    cases h1 : takeCons tagSet r0 with
    | none => simp [h1] at h
    | some p1 =>
      obtain ⟨dc, r1⟩ := p1
      obtain ⟨_, s1⟩ := AsDer.takeCons_sub _ _ _ _ h1
      simp only [h1] at h
      cases h2 : takeDigestAlg dc with
      | none => simp [h2] at h
      | some dr =>
        simp only [h2] at h
        split at h
        · cases h
        · cases h3 : rtaEncap r1 with
          | none => simp [h3] at h
          | some p3 =>
            obtain ⟨ct, r2⟩ := p3
            obtain ⟨s3, s3'⟩ := rtaEncap_sub r1 ct r2 h3
            simp only [h3] at h
            cases h4 : takeCons 0xA0 r2 with
            | none => simp [h4] at h
            | some p4 =>
              obtain ⟨cc, r3⟩ := p4
              obtain ⟨_, s4⟩ := AsDer.takeCons_sub _ _ _ _ h4
              simp only [h4] at h
              cases h5 : foldCons tagSeq rtaCert cc.length cc [] with
              | none => simp [h5] at h
              | some cs =>
                simp only [h5] at h
                cases h6 : rtaCrls r3 with
                | none => simp [h6] at h
                | some p6 =>
                  obtain ⟨ls, r4⟩ := p6
                  have hr1 : AllBytes r1 := allBytes_of_sub (allBytes_of_sub hb s0) s1
                  have hr3 : AllBytes r3 := allBytes_of_sub (allBytes_of_sub hr1 s3') s4
                  have hcap := rtaCrls_captured r3 hr3 ls r4 h6
                  simp only [h6] at h
                  cases h7 : takeCons tagSet r4 with
                  | none => simp [h7] at h
                  | some p7 =>
                    obtain ⟨sis, r5⟩ := p7
                    simp only [h7] at h
                    split at h
                    · cases h
                    · cases h8 : foldCons tagSeq rtaSigner sis.length sis [] with
                      | none => simp [h8] at h
                      | some sg =>
                        simp only [h8, Option.some.injEq, Prod.mk.injEq] at h
                        obtain ⟨rfl, _, rfl, _⟩ := h
                        exact ⟨allBytes_of_sub hr1 s3, hcap⟩

/-- **What `Rta::decode` accepts**: the attestation's IPv4, IPv6 and AS resources are canonical chains (ascending,
disjoint, non-adjacent, inside the number space — what the block and count accessors rely on), and every embedded
CRL went through the counting pass, so lookups and iteration on it cannot fail. -/
theorem decodeRta_spec (b : Bytes) (hb : AllBytes b) (r : RtaD) (h : decodeRta b = some r) :
    Canon IpDer.maxAddr r.att.v4 ∧ Canon IpDer.maxAddr r.att.v6 ∧ Canon AsDer.maxAs r.att.asn ∧
    ∀ d ∈ r.crls, ∃ n, Crl.capture d.revoked = some n := by
  unfold decodeRta at h
  cases h0 : takeCons tagSeq b with
  | none => simp [h0] at h
  | some p0 =>
    obtain ⟨c, rest⟩ := p0
    obtain ⟨s0, _⟩ := AsDer.takeCons_sub _ _ _ _ h0
    simp only [h0] at h
    cases h1 : takePrim tagOid c with
    | none => simp [h1] at h
    | some p1 =>
      obtain ⟨o, r1⟩ := p1
      obtain ⟨_, s1⟩ := AsDer.takePrim_sub _ _ _ _ h1
      simp only [h1] at h
      split at h
      · cases h
      · cases h2 : takeCons 0xA0 r1 with
        | none => simp [h2] at h
        | some p2 =>
          obtain ⟨c1, r2⟩ := p2
          obtain ⟨s2, _⟩ := AsDer.takeCons_sub _ _ _ _ h2
          simp only [h2] at h
          split at h
          · cases h
          · cases h3 : takeCons tagSeq c1 with
            | none => simp [h3] at h
            | some p3 =>
              obtain ⟨sd, r3⟩ := p3
              obtain ⟨s3, _⟩ := AsDer.takeCons_sub _ _ _ _ h3
              simp only [h3] at h
              split at h
              · cases h
              · cases h4 : rtaSignedData sd with
                | none => simp [h4] at h
                | some p4 =>
                  obtain ⟨content, certs, crls, signers⟩ := p4
                  have hsd : AllBytes sd := allBytes_of_sub (allBytes_of_sub (allBytes_of_sub (allBytes_of_sub hb s0) s1) s2) s3
                  obtain ⟨hct, hcap⟩ := rtaSignedData_spec sd hsd content certs crls signers h4
                  simp only [h4] at h
                  cases h5 : decodeAttestation content with
                  | none => simp [h5] at h
                  | some att =>
                    simp only [h5, Option.map_some, Option.some.injEq] at h
                    subst h
                    obtain ⟨c4, c6, ca⟩ := decodeAttestation_canon content hct att h5
                    exact ⟨c4, c6, ca, hcap⟩

end Rpki.RtaDer
