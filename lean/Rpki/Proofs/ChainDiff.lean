import Rpki.Proofs.ChainLemmas
namespace Rpki.Chain
open Rpki.Consts

/-! ### auxiliary facts about `mem` / `Canon` -/

theorem mem_reverse {c : List Blk} {x : Nat} : mem c.reverse x ↔ mem c x := by
  unfold mem; simp only [List.mem_reverse]

/-- appending a block above everything kept so far keeps the (reversed) accumulator canonical -/
theorem canon_snoc {M : Nat} {acc : List Blk} {e : Blk} (h : Canon M acc.reverse)
    (hlt : ∀ b ∈ acc, b.hi + 1 < e.lo) (h1 : e.lo ≤ e.hi) (h2 : e.hi ≤ M) :
    Canon M (e :: acc).reverse := by
  unfold Canon at *
  rw [List.reverse_cons]
  constructor
  · intro b hb
    rcases List.mem_append.1 hb with hb | hb
    · exact h.1 b hb
    · rw [List.mem_singleton] at hb; subst hb; exact ⟨h1, h2⟩
  · rw [List.pairwise_append]
    refine ⟨h.2, List.pairwise_singleton _ _, ?_⟩
    intro a ha b hb
    rw [List.mem_singleton] at hb; subst hb
    exact hlt a (List.mem_reverse.1 ha)

/-! ### one iteration of `diffLoop`, split into "compute the tuple" and "continue" -/

/-- what is left of the second chain -/
def rest : Option Blk → List Blk → List Blk
  | none, _ => []
  | some o, os => o :: os

/-- the tuple `r` computed by one iteration -/
def stepR (s o : Blk) (acc : List Blk) : List Blk × Nat × Bool × Bool :=
  if s.lo < o.lo then
    if s.hi < o.lo then (s :: acc, s.lo, true, false)
    else if s.hi = o.lo then (⟨s.lo, o.lo - 1⟩ :: acc, s.lo, true, false)
    else
      if s.hi < o.hi then (⟨s.lo, o.lo - 1⟩ :: acc, s.lo, true, false)
      else if s.hi = o.hi then (⟨s.lo, o.lo - 1⟩ :: acc, s.lo, true, true)
      else (⟨s.lo, o.lo - 1⟩ :: acc, o.hi + 1, false, true)
  else if s.lo = o.lo then
    if s.hi < o.hi then (acc, s.lo, true, false)
    else if s.hi = o.hi then (acc, s.lo, true, true)
    else (acc, o.hi + 1, false, true)
  else
    if s.lo < o.hi then
      if s.hi < o.hi then (acc, s.lo, true, false)
      else if s.hi = o.hi then (acc, s.lo, true, true)
      else (acc, o.hi + 1, false, true)
    else if s.lo = o.hi then
      if s.lo = s.hi then (acc, s.lo, true, true) else (acc, o.hi + 1, false, true)
    else (acc, s.lo, false, true)

/-- advancing (or not) in the second chain -/
def nextO (o : Blk) (os : List Blk) (to : Bool) : Option Blk × List Blk :=
  if to then (match os with | x :: xs => (some x, xs) | [] => (none, [])) else (some o, os)

/-- what the iteration does once `r` is known -/
def cont (fuel : Nat) (s : Blk) (ss : List Blk) (o : Blk) (os : List Blk)
    (r : List Blk × Nat × Bool × Bool) : List Blk :=
  if r.2.2.1 then
    match ss with
    | s' :: ss' => diffLoop fuel s' ss' (nextO o os r.2.2.2).1 (nextO o os r.2.2.2).2 r.1
    | [] => r.1.reverse
  else diffLoop fuel ⟨r.2.1, s.hi⟩ ss (nextO o os r.2.2.2).1 (nextO o os r.2.2.2).2 r.1

theorem diffLoop_some (fuel : Nat) (s : Blk) (ss : List Blk) (o : Blk) (os acc : List Blk) :
    diffLoop (fuel + 1) s ss (some o) os acc = cont fuel s ss o os (stepR s o acc) := by
  rfl

theorem rest_nextO (o : Blk) (os : List Blk) (to : Bool) :
    rest (nextO o os to).1 (nextO o os to).2 = cond to os (o :: os) := by
  cases to <;> cases os <;> rfl

/-! ### invariant and specification -/

def Spec (M : Nat) (res acc S R : List Blk) : Prop :=
  Canon M res ∧ ∀ x, mem res x ↔ (mem acc x ∨ (mem S x ∧ ¬ mem R x))

def Inv (M : Nat) (s : Blk) (ss R acc : List Blk) : Prop :=
  Canon M (s :: ss) ∧ Canon M R ∧ Canon M acc.reverse ∧ ∀ b ∈ acc, b.hi + 1 < s.lo

theorem spec_transfer {M : Nat} {res acc' S' R' acc S R : List Blk} (h : Spec M res acc' S' R')
    (heq : ∀ x, (mem acc' x ∨ (mem S' x ∧ ¬ mem R' x)) ↔ (mem acc x ∨ (mem S x ∧ ¬ mem R x))) :
    Spec M res acc S R :=
  ⟨h.1, fun x => (h.2 x).trans (heq x)⟩

/-- what the tuple `r` has to satisfy -/
structure StepOK (M : Nat) (s : Blk) (ss : List Blk) (o : Blk) (os acc : List Blk)
    (r : List Blk × Nat × Bool × Bool) : Prop where
  canon : Canon M r.1.reverse
  self : r.2.2.1 = true → ∀ b ∈ r.1, b.hi ≤ s.hi
  cut : r.2.2.1 = false →
    (∀ b ∈ r.1, b.hi + 1 < r.2.1) ∧ s.lo ≤ r.2.1 ∧ r.2.1 ≤ s.hi ∧ r.2.2.2 = true
  set : ∀ x, (mem r.1 x ∨ (mem (cond r.2.2.1 ss (⟨r.2.1, s.hi⟩ :: ss)) x ∧
      ¬ mem (cond r.2.2.2 os (o :: os)) x)) ↔ (mem acc x ∨ (mem (s :: ss) x ∧ ¬ mem (o :: os) x))

theorem stepOK_keep {M : Nat} {s : Blk} {ss : List Blk} {o : Blk} {os acc : List Blk}
    (inv : Inv M s ss (o :: os) acc) {lo' : Nat} {ts to : Bool}
    (hlo : s.lo ≤ lo')
    (hcut : ts = true ∨ (lo' ≤ s.hi ∧ to = true))
    (hset : ∀ x, (mem (cond ts ss (⟨lo', s.hi⟩ :: ss)) x ∧ ¬ mem (cond to os (o :: os)) x) ↔
      (mem (s :: ss) x ∧ ¬ mem (o :: os) x)) :
    StepOK M s ss o os acc (acc, lo', ts, to) := by
  obtain ⟨hcs, hco, hca, hlt⟩ := inv
  have hs := (canon_cons.1 hcs).1
  refine ⟨hca, ?_, ?_, ?_⟩
  · intro _ b hb
    have := hlt b hb
    omega
  · intro (h : ts = false)
    rcases hcut with h' | ⟨h1, h2⟩
    · rw [h] at h'; cases h'
    · refine ⟨?_, hlo, h1, h2⟩
      intro b hb
      have := hlt b hb
      show b.hi + 1 < lo'
      omega
  · intro x
    exact or_congr Iff.rfl (hset x)

theorem stepOK_emit {M : Nat} {s : Blk} {ss : List Blk} {o : Blk} {os acc : List Blk}
    (inv : Inv M s ss (o :: os) acc) {ehi lo' : Nat} {ts to : Bool}
    (he1 : s.lo ≤ ehi) (he2 : ehi ≤ s.hi)
    (hcut : ts = true ∨ (ehi + 1 < lo' ∧ lo' ≤ s.hi ∧ to = true))
    (hset : ∀ x, ((s.lo ≤ x ∧ x ≤ ehi) ∨
        (mem (cond ts ss (⟨lo', s.hi⟩ :: ss)) x ∧ ¬ mem (cond to os (o :: os)) x)) ↔
      (mem (s :: ss) x ∧ ¬ mem (o :: os) x)) :
    StepOK M s ss o os acc (⟨s.lo, ehi⟩ :: acc, lo', ts, to) := by
  obtain ⟨hcs, hco, hca, hlt⟩ := inv
  have hs := (canon_cons.1 hcs).1
  refine ⟨?_, ?_, ?_, ?_⟩
  · exact canon_snoc hca hlt he1 (by show ehi ≤ M; omega)
  · intro _ b hb
    rcases List.mem_cons.1 hb with hb | hb
    · subst hb; exact he2
    · have := hlt b hb
      omega
  · intro (h : ts = false)
    rcases hcut with h' | ⟨h0, h1, h2⟩
    · rw [h] at h'; cases h'
    · refine ⟨?_, by show s.lo ≤ lo'; omega, h1, h2⟩
      intro b hb
      show b.hi + 1 < lo'
      rcases List.mem_cons.1 hb with hb | hb
      · subst hb; exact h0
      · have := hlt b hb
        omega
  · intro x
    show (mem (⟨s.lo, ehi⟩ :: acc) x ∨ _) ↔ _
    rw [mem_cons]
    have h := hset x
    constructor
    · rintro ((h1 | h1) | h1)
      · exact Or.inr (h.1 (Or.inl h1))
      · exact Or.inl h1
      · exact Or.inr (h.1 (Or.inr h1))
    · rintro (h1 | h1)
      · exact Or.inl (Or.inr h1)
      · rcases h.2 h1 with h2 | h2
        · exact Or.inl (Or.inl h2)
        · exact Or.inr h2

-- decides the per-leaf set equation: case split on membership in the two tails, then arithmetic
set_option hygiene false in
macro "leaf_set" : tactic => `(tactic| (
  intro x
  have hBx : mem ss x → s.hi + 1 < x := fun h => canon_tail_above inv.1 h
  have hCx : mem os x → o.hi + 1 < x := fun h => canon_tail_above inv.2.1 h
  simp only [cond_true, cond_false, mem_cons]
  by_cases hB : mem ss x <;> by_cases hC : mem os x <;>
    simp only [hB, hC, true_and, and_true, false_and, and_false, true_or, or_true, false_or,
      or_false, not_true_eq_false, not_false_eq_true, not_or, true_imp_iff, false_imp_iff,
      iff_true, true_iff, iff_false, false_iff] at hBx hCx ⊢ <;>
    omega))

theorem stepR_ok {M : Nat} {s : Blk} {ss : List Blk} {o : Blk} {os acc : List Blk}
    (inv : Inv M s ss (o :: os) acc) : StepOK M s ss o os acc (stepR s o acc) := by
  have hs := (canon_cons.1 inv.1).1
  have ho := (canon_cons.1 inv.2.1).1
  unfold stepR
  by_cases h1 : s.lo < o.lo
  · rw [if_pos h1]
    by_cases h2 : s.hi < o.lo
    · rw [if_pos h2]
      exact stepOK_emit inv (ehi := s.hi) hs.1 (Nat.le_refl _) (Or.inl rfl) (by leaf_set)
    · rw [if_neg h2]
      by_cases h3 : s.hi = o.lo
      · rw [if_pos h3]
        exact stepOK_emit inv (by omega) (by omega) (Or.inl rfl) (by leaf_set)
      · rw [if_neg h3]
        by_cases h4 : s.hi < o.hi
        · rw [if_pos h4]
          exact stepOK_emit inv (by omega) (by omega) (Or.inl rfl) (by leaf_set)
        · rw [if_neg h4]
          by_cases h5 : s.hi = o.hi
          · rw [if_pos h5]
            exact stepOK_emit inv (by omega) (by omega) (Or.inl rfl) (by leaf_set)
          · rw [if_neg h5]
            exact stepOK_emit inv (by omega) (by omega) (Or.inr ⟨by omega, by omega, rfl⟩)
              (by leaf_set)
  · rw [if_neg h1]
    by_cases h2 : s.lo = o.lo
    · rw [if_pos h2]
      by_cases h4 : s.hi < o.hi
      · rw [if_pos h4]
        exact stepOK_keep inv (Nat.le_refl _) (Or.inl rfl) (by leaf_set)
      · rw [if_neg h4]
        by_cases h5 : s.hi = o.hi
        · rw [if_pos h5]
          exact stepOK_keep inv (Nat.le_refl _) (Or.inl rfl) (by leaf_set)
        · rw [if_neg h5]
          exact stepOK_keep inv (by omega) (Or.inr ⟨by omega, rfl⟩) (by leaf_set)
    · rw [if_neg h2]
      by_cases h3 : s.lo < o.hi
      · rw [if_pos h3]
        by_cases h4 : s.hi < o.hi
        · rw [if_pos h4]
          exact stepOK_keep inv (Nat.le_refl _) (Or.inl rfl) (by leaf_set)
        · rw [if_neg h4]
          by_cases h5 : s.hi = o.hi
          · rw [if_pos h5]
            exact stepOK_keep inv (Nat.le_refl _) (Or.inl rfl) (by leaf_set)
          · rw [if_neg h5]
            exact stepOK_keep inv (by omega) (Or.inr ⟨by omega, rfl⟩) (by leaf_set)
      · rw [if_neg h3]
        by_cases h4 : s.lo = o.hi
        · rw [if_pos h4]
          by_cases h5 : s.lo = s.hi
          · rw [if_pos h5]
            exact stepOK_keep inv (Nat.le_refl _) (Or.inl rfl) (by leaf_set)
          · rw [if_neg h5]
            exact stepOK_keep inv (by omega) (Or.inr ⟨by omega, rfl⟩) (by leaf_set)
        · rw [if_neg h4]
          exact stepOK_keep inv (Nat.le_refl _) (Or.inr ⟨hs.1, rfl⟩) (by leaf_set)

/-! ### the loop invariant -/

theorem cont_spec {M fuel : Nat}
    (IH : ∀ s ss o? os acc, ss.length + (rest o? os).length < fuel → Inv M s ss (rest o? os) acc →
      Spec M (diffLoop fuel s ss o? os acc) acc (s :: ss) (rest o? os))
    {s : Blk} {ss : List Blk} {o : Blk} {os acc : List Blk}
    (hf : ss.length + (o :: os).length < fuel + 1) (inv : Inv M s ss (o :: os) acc)
    (r : List Blk × Nat × Bool × Bool) (hr : StepOK M s ss o os acc r) :
    Spec M (cont fuel s ss o os r) acc (s :: ss) (o :: os) := by
  obtain ⟨acc', lo', ts, to⟩ := r
  obtain ⟨hcan, hself, hcut, hset⟩ := hr
  replace hcan : Canon M acc'.reverse := hcan
  replace hself : ts = true → ∀ b ∈ acc', b.hi ≤ s.hi := hself
  replace hcut : ts = false → (∀ b ∈ acc', b.hi + 1 < lo') ∧ s.lo ≤ lo' ∧ lo' ≤ s.hi ∧ to = true :=
    hcut
  replace hset : ∀ x, (mem acc' x ∨ (mem (cond ts ss (⟨lo', s.hi⟩ :: ss)) x ∧
      ¬ mem (cond to os (o :: os)) x)) ↔ (mem acc x ∨ (mem (s :: ss) x ∧ ¬ mem (o :: os) x)) := hset
  obtain ⟨hcs, hco, hca, hlt⟩ := inv
  obtain ⟨hs, hsabove, hcss⟩ := canon_cons.1 hcs
  have hR : Canon M (cond to os (o :: os)) := by
    cases to
    · exact hco
    · exact (canon_cons.1 hco).2.2
  have hRlen : (cond to os (o :: os)).length ≤ os.length + 1 := by
    cases to
    · exact Nat.le_refl _
    · exact Nat.le_succ _
  rw [List.length_cons] at hf
  unfold cont
  dsimp only
  cases ts with
  | true =>
    rw [if_pos rfl]
    cases ss with
    | nil =>
      refine spec_transfer (S' := []) (R' := cond to os (o :: os)) ?_ hset
      refine ⟨hcan, fun x => ?_⟩
      rw [mem_reverse]
      constructor
      · exact Or.inl
      · rintro (h | ⟨h, _⟩)
        · exact h
        · exact absurd h (mem_nil x)
    | cons s' ss' =>
      show Spec M (diffLoop fuel s' ss' (nextO o os to).1 (nextO o os to).2 acc') _ _ _
      rw [List.length_cons] at hf
      have hlt' : ∀ b ∈ acc', b.hi + 1 < s'.lo := by
        intro b hb
        have h1 := hself rfl b hb
        have h2 := hsabove s' (List.mem_cons_self ..)
        omega
      have := IH s' ss' (nextO o os to).1 (nextO o os to).2 acc'
        (by rw [rest_nextO]; omega) ⟨hcss, by rw [rest_nextO]; exact hR, hcan, hlt'⟩
      rw [rest_nextO] at this
      exact spec_transfer this hset
  | false =>
    rw [if_neg (by decide)]
    obtain ⟨hlt', h1, h2, hto⟩ := hcut rfl
    subst hto
    have hcs' : Canon M (⟨lo', s.hi⟩ :: ss) :=
      canon_cons.2 ⟨⟨h2, hs.2⟩, hsabove, hcss⟩
    have := IH ⟨lo', s.hi⟩ ss (nextO o os true).1 (nextO o os true).2 acc'
      (by rw [rest_nextO]; show ss.length + os.length < fuel; omega)
      ⟨hcs', by rw [rest_nextO]; exact hR, hcan, hlt'⟩
    rw [rest_nextO] at this
    exact spec_transfer this hset

theorem diffLoop_spec (M : Nat) : ∀ (fuel : Nat) (s : Blk) (ss : List Blk) (o? : Option Blk)
    (os acc : List Blk), ss.length + (rest o? os).length < fuel → Inv M s ss (rest o? os) acc →
    Spec M (diffLoop fuel s ss o? os acc) acc (s :: ss) (rest o? os) := by
  intro fuel
  induction fuel with
  | zero => intro s ss o? os acc hf; exact absurd hf (Nat.not_lt_zero _)
  | succ fuel ih =>
    intro s ss o? os acc hf inv
    cases o? with
    | some o =>
      rw [diffLoop_some]
      exact cont_spec ih hf inv _ (stepR_ok inv)
    | none =>
      obtain ⟨hcs, hco, hca, hlt⟩ := inv
      obtain ⟨hs, hsabove, hcss⟩ := canon_cons.1 hcs
      have hcan : Canon M (s :: acc).reverse := canon_snoc hca hlt hs.1 hs.2
      cases ss with
      | nil =>
        show Spec M (s :: acc).reverse _ _ _
        refine ⟨hcan, fun x => ?_⟩
        rw [mem_reverse]
        show mem (s :: acc) x ↔ (mem acc x ∨ (mem [s] x ∧ ¬ mem [] x))
        rw [mem_cons, mem_cons]
        constructor
        · rintro (h | h)
          · exact Or.inr ⟨Or.inl h, mem_nil x⟩
          · exact Or.inl h
        · rintro (h | ⟨h | h, _⟩)
          · exact Or.inr h
          · exact Or.inl h
          · exact absurd h (mem_nil x)
      | cons s' ss' =>
        show Spec M (diffLoop fuel s' ss' none [] (s :: acc)) _ _ _
        have hlt' : ∀ b ∈ s :: acc, b.hi + 1 < s'.lo := by
          intro b hb
          have h2 := hsabove s' (List.mem_cons_self ..)
          rcases List.mem_cons.1 hb with hb | hb
          · subst hb; exact h2
          · have := hlt b hb
            omega
        have := ih s' ss' none [] (s :: acc)
          (by rw [List.length_cons] at hf; show ss'.length + 0 < fuel
              have : (rest none os).length = 0 := rfl
              omega)
          ⟨hcss, canon_nil M, hcan, hlt'⟩
        refine spec_transfer this (fun x => ?_)
        show (mem (s :: acc) x ∨ (mem (s' :: ss') x ∧ ¬ mem [] x)) ↔
          (mem acc x ∨ (mem (s :: s' :: ss') x ∧ ¬ mem [] x))
        rw [mem_cons (b := s) (c := acc), mem_cons (b := s) (c := s' :: ss')]
        have hn := mem_nil x
        constructor
        · rintro ((h | h) | ⟨h, _⟩)
          · exact Or.inr ⟨Or.inl h, hn⟩
          · exact Or.inl h
          · exact Or.inr ⟨Or.inr h, hn⟩
        · rintro (h | ⟨h | h, _⟩)
          · exact Or.inl (Or.inr h)
          · exact Or.inl (Or.inl h)
          · exact Or.inr ⟨h, hn⟩

/-- `difference` yields a canonical chain denoting exactly the set difference. -/
theorem difference_spec' (M : Nat) (a b : List Blk) (ha : Canon M a) (hb : Canon M b) :
    Canon M (difference a b) ∧ ∀ x, mem (difference a b) x ↔ (mem a x ∧ ¬ mem b x) := by
  cases a with
  | nil =>
    refine ⟨canon_nil M, fun x => ?_⟩
    show mem [] x ↔ _
    constructor
    · intro h; exact absurd h (mem_nil x)
    · rintro ⟨h, _⟩; exact h
  | cons s ss =>
    have key : ∀ (o? : Option Blk) (os : List Blk), rest o? os = b →
        Spec M (diffLoop (2 * ((s :: ss).length + b.length) + 2) s ss o? os []) []
          (s :: ss) (rest o? os) := by
      intro o? os hrest
      apply diffLoop_spec
      · rw [hrest, List.length_cons]; omega
      · rw [hrest]
        exact ⟨ha, hb, canon_nil M, fun b hb => by cases hb⟩
    have fin : ∀ res, Spec M res [] (s :: ss) b →
        Canon M res ∧ ∀ x, mem res x ↔ (mem (s :: ss) x ∧ ¬ mem b x) := by
      intro res h
      refine ⟨h.1, fun x => (h.2 x).trans ?_⟩
      constructor
      · rintro (h | h)
        · exact absurd h (mem_nil x)
        · exact h
      · exact Or.inr
    cases b with
    | nil => exact fin _ (key none [] rfl)
    | cons o os => exact fin _ (key (some o) os rfl)

end Rpki.Chain
