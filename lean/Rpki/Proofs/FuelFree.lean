/-
  The fuel arguments of the model's loops never decide a verdict.  The implementation's loops have no such
  argument: they stop because every item they read is at least two octets long.  Here the same is shown of the model,
  so that a `none` (rejection, or a panic of an `unwrap()`) or a short list never comes from the fuel running out.
-/
import Rpki.Proofs.BerSize
import Rpki.Proofs.BerLeaf
import Rpki.Model.Crl
import Rpki.Model.Roa
import Rpki.Model.SigMsgDer
import Rpki.Gen.BerModel
import Rpki.Model.Tal
namespace Rpki.Der
open Rpki.CertDer

/-- an item reader that hands on less than it was given, and reports an empty input as "no item" -/
def Shrinks {α : Type} (take : Bytes → Take α) : Prop :=
  take [] = .absent ∧ ∀ b a rest, take b = .ok a rest → rest.length < b.length

theorem capturePass_fuel {α : Type} (take : Bytes → Take α) (check : α → Bool) (hs : Shrinks take) :
    ∀ (k1 k2 : Nat) (b : Bytes) (n : Nat), b.length ≤ k1 → b.length ≤ k2 →
      capturePass take check k1 b n = capturePass take check k2 b n := by
  have base : ∀ (k : Nat) (n : Nat), capturePass take check k [] n = some n := by
    intro k n; cases k with
    | zero => simp [capturePass]
    | succ m => simp [capturePass, hs.1]
  intro k1
  induction k1 with
  | zero =>
    intro k2 b n h1 _
    have : b = [] := List.eq_nil_of_length_eq_zero (by omega)
    subst this; rw [base, base]
  | succ m ih =>
    intro k2 b n h1 h2
    cases k2 with
    | zero =>
      have : b = [] := List.eq_nil_of_length_eq_zero (by omega)
      subst this; rw [base, base]
    | succ m2 =>
      unfold capturePass
      cases ht : take b with
      | absent => rfl
      | bad => rfl
      | ok a rest =>
        have := hs.2 b a rest ht
        simp only
        split
        · exact ih m2 rest (n + 1) (by omega) (by omega)
        · rfl

theorem iteratePass_fuel {α : Type} (take : Bytes → Take α) (hs : Shrinks take) :
    ∀ (k1 k2 : Nat) (b : Bytes), b.length ≤ k1 → b.length ≤ k2 →
      iteratePass take k1 b = iteratePass take k2 b := by
  have base : ∀ (k : Nat), iteratePass take k [] = some [] := by
    intro k; cases k with
    | zero => simp [iteratePass]
    | succ m => simp [iteratePass, hs.1]
  intro k1
  induction k1 with
  | zero =>
    intro k2 b h1 _
    have : b = [] := List.eq_nil_of_length_eq_zero (by omega)
    subst this; rw [base, base]
  | succ m ih =>
    intro k2 b h1 h2
    cases k2 with
    | zero =>
      have : b = [] := List.eq_nil_of_length_eq_zero (by omega)
      subst this; rw [base, base]
    | succ m2 =>
      unfold iteratePass
      cases ht : take b with
      | absent => rfl
      | bad => rfl
      | ok a rest =>
        have := hs.2 b a rest ht
        simp only
        rw [ih m2 rest (by omega) (by omega)]

/-- DER instances of the size lemmas -/
theorem takeOptCons_size (tag : Nat) (b c rest : Bytes) (h : takeOptCons tag b = .ok c rest) :
    c.length + rest.length + 2 ≤ b.length := by
  rw [← takeOptConsM_false] at h
  exact AsDer.takeOptConsM_size false tag b c rest h

theorem takeOptPrim_size (tag : Nat) (b c rest : Bytes) (h : takeOptPrim tag b = .ok c rest) :
    c.length + rest.length + 2 ≤ b.length := by
  rw [← takeOptPrimM_false] at h
  exact AsDer.takeOptPrimM_size false tag b c rest h

end Rpki.Der

namespace Rpki.FuelFree
open Rpki.Der Rpki.CertDer

theorem crlEntry_shrinks : Shrinks Crl.takeOptEntry := by
  refine ⟨rfl, ?_⟩
  intro b a rest h
  unfold Crl.takeOptEntry at h
  cases ht : takeOptCons tagSeq b with
  | absent => simp [ht] at h
  | bad => simp [ht] at h
  | ok c r =>
    have := takeOptCons_size tagSeq b c r ht
    simp only [ht] at h
    repeat' (split at h)
    all_goals (first | (cases h; done) | (injection h with _ e; subst e; omega))

theorem mftEntry_shrinks : Shrinks Manifest.takeOptEntry := by
  refine ⟨rfl, ?_⟩
  intro b a rest h
  unfold Manifest.takeOptEntry at h
  cases ht : takeOptCons tagSeq b with
  | absent => simp [ht] at h
  | bad => simp [ht] at h
  | ok c r =>
    have := takeOptCons_size tagSeq b c r ht
    simp only [ht] at h
    repeat' (split at h)
    all_goals (first | (cases h; done) | (injection h with _ e; subst e; omega))

theorem mftSkip_shrinks : Shrinks Manifest.skipOptEntry := by
  refine ⟨rfl, ?_⟩
  intro b a rest h
  unfold Manifest.skipOptEntry at h
  cases ht : takeOptCons tagSeq b with
  | absent => simp [ht] at h
  | bad => simp [ht] at h
  | ok c r =>
    have := takeOptCons_size tagSeq b c r ht
    simp only [ht] at h
    repeat' (split at h)
    all_goals (first | (cases h; done) | (injection h with _ e; subst e; omega))

theorem roaAddr_shrinks : Shrinks Roa.takeOptAddr := by
  refine ⟨rfl, ?_⟩
  intro b a rest h
  unfold Roa.takeOptAddr at h
  cases ht : takeOptCons tagSeq b with
  | absent => simp [ht] at h
  | bad => simp [ht] at h
  | ok c r =>
    have := takeOptCons_size tagSeq b c r ht
    simp only [ht] at h
    repeat' (split at h)
    all_goals (first | (cases h; done) | (injection h with _ e; subst e; omega))

theorem aspaAsn_shrinks : Shrinks Roa.takeOptAsn := by
  refine ⟨rfl, ?_⟩
  intro b a rest h
  unfold Roa.takeOptAsn at h
  cases ht : takeOptPrim tagInt b with
  | absent => simp [ht] at h
  | bad => simp [ht] at h
  | ok c r =>
    have := takeOptPrim_size tagInt b c r ht
    simp only [ht] at h
    repeat' (split at h)
    all_goals (first | (cases h; done) | (injection h with _ e; subst e; omega))

theorem msgEntry_shrinks (ber : Bool) : Shrinks (SigMsgDer.takeOptMsgEntryM ber) := by
  refine ⟨by cases ber <;> rfl, ?_⟩
  intro b a rest h
  unfold SigMsgDer.takeOptMsgEntryM at h
  cases ht : takeOptConsM ber tagSeq b with
  | absent => simp [ht] at h
  | bad => simp [ht] at h
  | ok c r =>
    have := AsDer.takeOptConsM_size ber tagSeq b c r ht
    simp only [ht] at h
    repeat' (split at h)
    all_goals (first | (cases h; done) | (injection h with _ e; subst e; omega))

/-- the manifest's and the CRL's own loops -/
theorem countLoop_fuel : ∀ (k1 k2 : Nat) (b : Bytes) (n : Nat), b.length ≤ k1 → b.length ≤ k2 →
    Manifest.countLoop k1 b n = Manifest.countLoop k2 b n := by
  have base : ∀ (k : Nat) (n : Nat), Manifest.countLoop k [] n = some n := by
    intro k n; cases k <;> rfl
  intro k1
  induction k1 with
  | zero =>
    intro k2 b n h1 _
    have : b = [] := List.eq_nil_of_length_eq_zero (by omega)
    subst this; rw [base, base]
  | succ m ih =>
    intro k2 b n h1 h2
    cases k2 with
    | zero =>
      have : b = [] := List.eq_nil_of_length_eq_zero (by omega)
      subst this; rw [base, base]
    | succ m2 =>
      unfold Manifest.countLoop
      cases ht : Manifest.skipOptEntry b with
      | absent => rfl
      | bad => rfl
      | ok a rest =>
        have := mftSkip_shrinks.2 b a rest ht
        exact ih m2 rest (n + 1) (by omega) (by omega)

theorem iterLoop_fuel : ∀ (k1 k2 : Nat) (b : Bytes), b.length ≤ k1 → b.length ≤ k2 →
    Manifest.iterLoop k1 b = Manifest.iterLoop k2 b := by
  have base : ∀ (k : Nat), Manifest.iterLoop k [] = some [] := by
    intro k; cases k <;> rfl
  intro k1
  induction k1 with
  | zero =>
    intro k2 b h1 _
    have : b = [] := List.eq_nil_of_length_eq_zero (by omega)
    subst this; rw [base, base]
  | succ m ih =>
    intro k2 b h1 h2
    cases k2 with
    | zero =>
      have : b = [] := List.eq_nil_of_length_eq_zero (by omega)
      subst this; rw [base, base]
    | succ m2 =>
      unfold Manifest.iterLoop
      cases ht : Manifest.takeOptEntry b with
      | absent => rfl
      | bad => rfl
      | ok a rest =>
        have := mftEntry_shrinks.2 b a rest ht
        simp only
        rw [ih m2 rest (by omega) (by omega)]

theorem containsLoop_fuel (serial : Bytes) : ∀ (k1 k2 : Nat) (b : Bytes), b.length ≤ k1 → b.length ≤ k2 →
    Crl.containsLoop k1 b serial = Crl.containsLoop k2 b serial := by
  have base : ∀ (k : Nat), Crl.containsLoop k [] serial = some false := by
    intro k; cases k <;> rfl
  intro k1
  induction k1 with
  | zero =>
    intro k2 b h1 _
    have : b = [] := List.eq_nil_of_length_eq_zero (by omega)
    subst this; rw [base, base]
  | succ m ih =>
    intro k2 b h1 h2
    cases k2 with
    | zero =>
      have : b = [] := List.eq_nil_of_length_eq_zero (by omega)
      subst this; rw [base, base]
    | succ m2 =>
      unfold Crl.containsLoop
      cases ht : Crl.takeOptEntry b with
      | absent => rfl
      | bad => rfl
      | ok a rest =>
        have := crlEntry_shrinks.2 b a rest ht
        simp only
        split
        · rfl
        · exact ih m2 rest (by omega) (by omega)

theorem readTlv_size (b : Bytes) (t : Nat) (c rest : Bytes) (h : readTlv b = some (t, c, rest)) :
    c.length + rest.length + 2 ≤ b.length := by
  rw [← readTlvM_false] at h
  exact AsDer.readTlvM_size false b t c rest h

theorem asBlock_shrinks : Shrinks AsDer.takeOptBlock := by
  refine ⟨rfl, ?_⟩
  intro b a rest h
  unfold AsDer.takeOptBlock at h
  split at h
  · cases h
  · rename_i t0 r
    split at h
    · cases h
    · cases hr : readTlv (t0 :: r) with
      | none => simp [hr] at h
      | some q =>
        obtain ⟨t1, c1, r1⟩ := q
        have := readTlv_size _ _ _ _ hr
        simp only [hr] at h
        repeat' (split at h)
        all_goals (first | (cases h; done) | (injection h with _ e; subst e; omega))

theorem ipBlock_shrinks (W : Nat) : Shrinks (IpDer.takeOptBlock W) := by
  refine ⟨rfl, ?_⟩
  intro b a rest h
  unfold IpDer.takeOptBlock at h
  split at h
  · cases h
  · rename_i t0 r
    split at h
    · cases h
    · cases hr : readTlv (t0 :: r) with
      | none => simp [hr] at h
      | some q =>
        obtain ⟨t1, c1, r1⟩ := q
        have := readTlv_size _ _ _ _ hr
        simp only [hr] at h
        repeat' (split at h)
        all_goals (first | (cases h; done) | (injection h with _ e; subst e; omega))

theorem asBlocksLoop_fuel : ∀ (k1 k2 : Nat) (b : Bytes), b.length ≤ k1 → b.length ≤ k2 →
    AsDer.blocksLoop k1 b = AsDer.blocksLoop k2 b := by
  have base : ∀ (k : Nat), AsDer.blocksLoop k [] = some [] := by
    intro k; cases k <;> rfl
  intro k1
  induction k1 with
  | zero =>
    intro k2 b h1 _
    have : b = [] := List.eq_nil_of_length_eq_zero (by omega)
    subst this; rw [base, base]
  | succ m ih =>
    intro k2 b h1 h2
    cases k2 with
    | zero =>
      have : b = [] := List.eq_nil_of_length_eq_zero (by omega)
      subst this; rw [base, base]
    | succ m2 =>
      unfold AsDer.blocksLoop
      cases ht : AsDer.takeOptBlock b with
      | absent => rfl
      | bad => rfl
      | ok a rest =>
        have := asBlock_shrinks.2 b a rest ht
        simp only
        rw [ih m2 rest (by omega) (by omega)]

theorem ipBlocksLoop_fuel (W : Nat) : ∀ (k1 k2 : Nat) (b : Bytes), b.length ≤ k1 → b.length ≤ k2 →
    IpDer.blocksLoop W k1 b = IpDer.blocksLoop W k2 b := by
  have base : ∀ (k : Nat), IpDer.blocksLoop W k [] = some [] := by
    intro k; cases k <;> rfl
  intro k1
  induction k1 with
  | zero =>
    intro k2 b h1 _
    have : b = [] := List.eq_nil_of_length_eq_zero (by omega)
    subst this; rw [base, base]
  | succ m ih =>
    intro k2 b h1 h2
    cases k2 with
    | zero =>
      have : b = [] := List.eq_nil_of_length_eq_zero (by omega)
      subst this; rw [base, base]
    | succ m2 =>
      unfold IpDer.blocksLoop
      cases ht : IpDer.takeOptBlock W b with
      | absent => rfl
      | bad => rfl
      | ok a rest =>
        have := (ipBlock_shrinks W).2 b a rest ht
        simp only
        rw [ih m2 rest (by omega) (by omega)]

theorem provLoop_fuel (maxLen customer : Nat) : ∀ (k1 k2 : Nat) (b : Bytes) (last : Option Nat) (n : Nat),
    b.length ≤ k1 → b.length ≤ k2 →
    Roa.provLoop maxLen customer k1 b last n = Roa.provLoop maxLen customer k2 b last n := by
  have base : ∀ (k : Nat) (last : Option Nat) (n : Nat),
      Roa.provLoop maxLen customer k [] last n = if ([] : Bytes) = [] ∧ last.isSome then some n else none := by
    intro k last n; cases k <;> rfl
  intro k1
  induction k1 with
  | zero =>
    intro k2 b last n h1 _
    have : b = [] := List.eq_nil_of_length_eq_zero (by omega)
    subst this; rw [base, base]
  | succ m ih =>
    intro k2 b last n h1 h2
    cases k2 with
    | zero =>
      have : b = [] := List.eq_nil_of_length_eq_zero (by omega)
      subst this; rw [base, base]
    | succ m2 =>
      unfold Roa.provLoop
      cases ht : Roa.takeOptAsn b with
      | absent => rfl
      | bad => rfl
      | ok a rest =>
        have := aspaAsn_shrinks.2 b a rest ht
        simp only
        rw [ih m2 rest (some a) (n + 1) (by omega) (by omega)]

theorem famLoop_fuel : ∀ (k1 k2 : Nat) (b : Bytes) (v4 v6 : Option Bytes), b.length ≤ k1 → b.length ≤ k2 →
    Roa.famLoop k1 b v4 v6 = Roa.famLoop k2 b v4 v6 := by
  have base : ∀ (k : Nat) (v4 v6 : Option Bytes), Roa.famLoop k [] v4 v6 = some (v4, v6) := by
    intro k v4 v6; cases k <;> rfl
  intro k1
  induction k1 with
  | zero =>
    intro k2 b v4 v6 h1 _
    have : b = [] := List.eq_nil_of_length_eq_zero (by omega)
    subst this; rw [base, base]
  | succ m ih =>
    intro k2 b v4 v6 h1 h2
    cases k2 with
    | zero =>
      have : b = [] := List.eq_nil_of_length_eq_zero (by omega)
      subst this; rw [base, base]
    | succ m2 =>
      unfold Roa.famLoop
      cases ht : takeOptCons tagSeq b with
      | absent => rfl
      | bad => rfl
      | ok c rest =>
        have := takeOptCons_size tagSeq b c rest ht
        simp only
        repeat' split
        all_goals (first | rfl | exact ih m2 rest _ _ (by omega) (by omega))

theorem takeOptConsIM_size (ber : Bool) (tag : Nat) (b c rest : Bytes) (i : Bool)
    (h : takeOptConsIM ber tag b = .ok (c, i) rest) : c.length + rest.length + 2 ≤ b.length :=
  AsDer.takeOptConsM_size ber tag b c rest (by simp [takeOptConsM, h])

theorem parseLoopM_fuel (ber strict : Bool) : ∀ (k1 k2 : Nat) (b : Bytes) (p : SigObj.Parsed),
    b.length ≤ k1 → b.length ≤ k2 → SigObj.parseLoopM ber strict k1 b p = SigObj.parseLoopM ber strict k2 b p := by
  have base : ∀ (k : Nat) (p : SigObj.Parsed), SigObj.parseLoopM ber strict k [] p = some p := by
    intro k p; cases k <;> rfl
  intro k1
  induction k1 with
  | zero =>
    intro k2 b p h1 _
    have : b = [] := List.eq_nil_of_length_eq_zero (by omega)
    subst this; rw [base, base]
  | succ m ih =>
    intro k2 b p h1 h2
    cases k2 with
    | zero =>
      have : b = [] := List.eq_nil_of_length_eq_zero (by omega)
      subst this; rw [base, base]
    | succ m2 =>
      unfold SigObj.parseLoopM
      cases ht : takeOptConsIM ber tagSeq b with
      | absent => rfl
      | bad => rfl
      | ok ci rest =>
        obtain ⟨c, i⟩ := ci
        have := takeOptConsIM_size ber tagSeq b c rest i ht
        simp only
        cases SigObj.parseAttrM ber strict p c i with
        | none => rfl
        | some p' => exact ih m2 rest p' (by omega) (by omega)

/-- TAL text: a line and what follows it are shorter than the text -/
theorem splitLine_size : ∀ (b l r : Bytes), Tal.splitLine b = some (l, r) → l.length + r.length + 1 = b.length := by
  intro b
  induction b with
  | nil => intro l r h; cases h
  | cons c rest ih =>
    intro l r h
    unfold Tal.splitLine at h
    split at h
    · injection h with h
      simp only [Prod.mk.injEq] at h
      obtain ⟨rfl, rfl⟩ := h
      simp
    · cases hs : Tal.splitLine rest with
      | none => simp [hs] at h
      | some q =>
        obtain ⟨l1, r1⟩ := q
        simp only [hs, Option.map_some, Option.some.injEq, Prod.mk.injEq] at h
        obtain ⟨rfl, rfl⟩ := h
        have := ih l1 _ hs
        simp only [List.length_cons]
        omega

theorem skipComments_fuel : ∀ (k1 k2 : Nat) (b : Bytes), b.length ≤ k1 → b.length ≤ k2 →
    Tal.skipComments k1 b = Tal.skipComments k2 b := by
  have base : ∀ (k : Nat), Tal.skipComments k [] = some [] := by
    intro k; cases k <;> rfl
  intro k1
  induction k1 with
  | zero =>
    intro k2 b h1 _
    have : b = [] := List.eq_nil_of_length_eq_zero (by omega)
    subst this; rw [base, base]
  | succ m ih =>
    intro k2 b h1 h2
    cases k2 with
    | zero =>
      have : b = [] := List.eq_nil_of_length_eq_zero (by omega)
      subst this; rw [base, base]
    | succ m2 =>
      unfold Tal.skipComments
      split
      · rename_i tl
        cases hs : Tal.splitLine (35 :: tl) with
        | none => rfl
        | some q =>
          obtain ⟨l, r⟩ := q
          have := splitLine_size _ _ _ hs
          simp only [Option.bind_some]
          exact ih m2 r (by omega) (by omega)
      · rfl

theorem takeUris_fuel : ∀ (k1 k2 : Nat) (b : Bytes) (acc : List Tal.TalUri), b.length < k1 → b.length < k2 →
    Tal.takeUris k1 b acc = Tal.takeUris k2 b acc := by
  intro k1
  induction k1 with
  | zero => intro k2 b acc h; omega
  | succ m ih =>
    intro k2 b acc h1 h2
    cases k2 with
    | zero => omega
    | succ m2 =>
      unfold Tal.takeUris
      cases hs : Tal.splitLine b with
      | none => rfl
      | some q =>
        obtain ⟨l, r⟩ := q
        have := splitLine_size _ _ _ hs
        simp only
        split
        · rfl
        · split
          · rfl
          · exact ih m2 r _ (by omega) (by omega)

end Rpki.FuelFree
