import Rpki.Proofs.UriRsync2
namespace Rpki.Uri
open Rpki.Consts

/-! ### accessors recompose to the text -/

theorem Rsync.Inv.parts {u : Rsync} (h : u.Inv) :
    ∃ auth md path, u.bytes = u.bytes.take 8 ++ (auth ++ slash :: (md ++ slash :: path)) ∧
      u.authority = auth ∧ u.moduleName = md ∧ u.path = path ∧
      goodSeg auth ∧ goodSeg md ∧ slash ∉ auth ∧ slash ∉ md ∧
      u.moduleStart = 9 + auth.length ∧ u.pathStart = 9 + auth.length + md.length + 1 ∧
      checkItems (split path) = .ok () ∧ (u.bytes.take 8).length = 8 := by
  obtain ⟨hch, hs, auth, md, path, hd, ga, gm, na, nm, h1, h2, hpp⟩ := h
  have hlen : 8 ≤ u.bytes.length := by have := startsWith_length hs; simpa [rsyncScheme] using this
  have h8 : (u.bytes.take 8).length = 8 := by simp; omega
  have hb : u.bytes = u.bytes.take 8 ++ (auth ++ slash :: (md ++ slash :: path)) := by
    rw [← hd]; exact (List.take_append_drop 8 u.bytes).symm
  refine ⟨auth, md, path, hb, ?_, ?_, ?_, ga, gm, na, nm, h1, h2, hpp, h8⟩
  · unfold Rsync.authority slice
    rw [List.drop_take, hd, h1]
    have : 9 + auth.length - 1 - 8 = auth.length := by omega
    rw [this, List.take_left]
  · unfold Rsync.moduleName slice
    rw [List.drop_take, h1, h2]
    have e : 9 + auth.length = 8 + (auth.length + 1) := by omega
    rw [e, ← List.drop_drop, hd]
    have : List.drop (auth.length + 1) (auth ++ slash :: (md ++ slash :: path)) = md ++ slash :: path := by
      rw [← List.singleton_append, ← List.append_assoc]
      exact List.drop_left' (by simp)
    rw [this]
    have : 8 + (auth.length + 1) + md.length + 1 - 1 - (8 + (auth.length + 1)) = md.length := by omega
    rw [this, List.take_left]
  · unfold Rsync.path
    rw [h2]
    have e : 9 + auth.length + md.length + 1 = 8 + (auth.length + 1 + md.length + 1) := by omega
    rw [e, ← List.drop_drop, hd]
    have : auth ++ slash :: (md ++ slash :: path) = (auth ++ [slash] ++ md ++ [slash]) ++ path := by simp
    rw [this]
    exact List.drop_left' (by simp; omega)

/-- The accessors recompose to the text. -/
theorem Rsync.recompose_of_inv {u : Rsync} (h : u.Inv) :
    u.bytes = u.bytes.take 8 ++ (u.authority ++ slash :: (u.moduleName ++ slash :: u.path)) := by
  obtain ⟨auth, md, path, hb, ha, hm, hp, _⟩ := h.parts
  rw [ha, hm, hp]; exact hb

/-! ### `rfind` -/

theorem rfindAux_spec (b : Bytes) : ∀ (i : Nat) (acc : Option Nat) (k : Nat),
    rfindAux b i acc = some k → (acc = some k ∨ (i ≤ k ∧ b[k - i]? = some slash)) := by
  induction b with
  | nil => intro i acc k h; simp [rfindAux] at h; exact Or.inl h
  | cons c cs ih =>
    intro i acc k h
    rw [rfindAux] at h
    rcases ih _ _ _ h with e | ⟨e1, e2⟩
    · by_cases hc : c = slash
      · simp only [hc, if_true] at e
        injection e with e; subst e
        right; simp [hc]
      · simp only [hc, if_false] at e; exact Or.inl e
    · right
      refine ⟨by omega, ?_⟩
      have : k - i = (k - (i + 1)) + 1 := by omega
      rw [this]; simpa using e2

theorem rfindSlash_spec (b : Bytes) (k : Nat) (h : rfindSlash b = some k) : b[k]? = some slash := by
  rcases rfindAux_spec b 0 none k h with e | ⟨_, e⟩
  · cases e
  · simpa using e

theorem rfindAux_none (b : Bytes) : ∀ (i : Nat) (acc : Option Nat),
    rfindAux b i acc = none → acc = none ∧ slash ∉ b := by
  induction b with
  | nil => intro i acc h; simp [rfindAux] at h; simp [h]
  | cons c cs ih =>
    intro i acc h
    rw [rfindAux] at h
    have ⟨h1, h2⟩ := ih _ _ h
    by_cases hc : c = slash
    · simp [hc] at h1
    · simp only [hc, if_false] at h1
      refine ⟨h1, ?_⟩
      simp only [List.mem_cons, not_or]
      exact ⟨fun e => hc e.symm, h2⟩

/-! ### parent keeps the invariant -/

theorem checkItems_append_ok (a b : List Bytes) (hb : b ≠ []) (h : checkItems (a ++ b) = .ok ()) :
    (∀ s ∈ a, goodSeg s) ∧ checkItems b = .ok () := by
  have hne : a ++ b ≠ [] := by simp [hb]
  have hh := (checkItems_ok_iff _ hne).1 h
  have hg : ∀ s ∈ a, goodSeg s := by
    intro s hs
    apply hh.1
    rw [List.dropLast_append_of_ne_nil hb]
    exact List.mem_append_left _ hs
  refine ⟨hg, ?_⟩
  rw [checkItems_goods_append _ _ hg] at h
  exact h

theorem all_take {b : Bytes} {f : Nat → Bool} (n : Nat) (h : b.all f = true) : (b.take n).all f = true := by
  rw [List.all_eq_true] at *
  intro x hx; exact h x (List.mem_of_mem_take hx)

theorem all_drop {b : Bytes} {f : Nat → Bool} (n : Nat) (h : b.all f = true) : (b.drop n).all f = true := by
  rw [List.all_eq_true] at *
  intro x hx; exact h x (List.mem_of_mem_drop hx)

/-- taking a prefix that cuts inside the path keeps the invariant, provided the cut path checks -/
theorem Rsync.inv_of_take (u : Rsync) (h : u.Inv) (k : Nat)
    (hk : checkItems (split (u.path.take k)) = .ok ()) :
    Rsync.Inv { u with bytes := u.bytes.take (u.pathStart + k) } := by
  obtain ⟨auth, md, path, hb, ha, hm, hp, ga, gm, na, nm, h1, h2, hpp, h8⟩ := h.parts
  obtain ⟨hch, hs, _⟩ := h
  have hlen : 8 ≤ u.bytes.length := by have := startsWith_length hs; simpa [rsyncScheme] using this
  refine ⟨all_take _ hch, startsWith_take _ (by simp [rsyncScheme]; omega) hs, auth, md, path.take k, ?_,
    ga, gm, na, nm, h1, h2, by rw [← hp]; exact hk⟩
  simp only
  rw [List.drop_take]
  have hd : u.bytes.drop 8 = auth ++ slash :: (md ++ slash :: path) := by
    conv => lhs; rw [hb]
    exact List.drop_left' h8
  rw [hd, h2]
  have e : auth ++ slash :: (md ++ slash :: path) = (auth ++ [slash] ++ md ++ [slash]) ++ path := by simp
  have e2 : auth ++ slash :: (md ++ slash :: List.take k path) = (auth ++ [slash] ++ md ++ [slash]) ++ path.take k := by simp
  rw [e, e2, List.take_append]
  have l1 : (auth ++ [slash] ++ md ++ [slash]).length = auth.length + md.length + 2 := by simp; omega
  rw [List.take_of_length_le (by rw [l1]; omega), l1]
  congr 2
  omega

theorem Rsync.parent_inv (u v : Rsync) (h : u.Inv) (hp : u.parent = some v) : v.Inv := by
  unfold Rsync.parent at hp
  simp only at hp
  generalize hsp : (if endsWithSlash u.path = true then List.take (u.path.length - 1) u.path else u.path) = sp at hp
  by_cases hne : sp = []
  · simp [hne] at hp
  · simp only [hne, if_false] at hp
    injection hp with hp
    subst hp
    obtain ⟨auth, md, path, hb, ha, hm, hpa, ga, gm, na, nm, h1, h2, hpp, h8⟩ := h.parts
    have hpre : ∃ t, u.path = sp ++ t := by
      split at hsp
      · exact ⟨u.path.drop (u.path.length - 1), by rw [← hsp, List.take_append_drop]⟩
      · exact ⟨[], by simp [hsp]⟩
    obtain ⟨t, ht⟩ := hpre
    cases hr : rfindSlash sp with
    | none =>
      simp only
      have := Rsync.inv_of_take u h 0 (by simp [split, checkItems])
      simpa using this
    | some idx =>
      simp only
      have hs := rfindSlash_spec sp idx hr
      have hidx : idx < sp.length := by
        rcases Nat.lt_or_ge idx sp.length with h | h
        · exact h
        · rw [List.getElem?_eq_none h] at hs; cases hs
      -- sp = q ++ slash :: r
      have hq : sp = sp.take idx ++ slash :: sp.drop (idx + 1) := by
        have hd : sp.drop idx = slash :: sp.drop (idx + 1) := by
          rw [List.drop_eq_getElem_cons hidx]
          congr
          have := List.getElem?_eq_some_iff.1 hs
          exact this.2
        rw [← hd, List.take_append_drop]
      have := Rsync.inv_of_take u h (idx + 1) (by
        rw [ht, List.take_append_of_le_length (by omega)]
        have e : sp.take (idx + 1) = sp.take idx ++ [slash] := by
          rw [List.take_succ, hs]; rfl
        rw [e, split_snoc_slash]
        -- all items of split (sp.take idx) are good
        have hall : checkItems (split (sp.take idx) ++ split (sp.drop (idx + 1) ++ t)) = .ok () := by
          rw [← split_append]
          have : sp.take idx ++ slash :: (sp.drop (idx + 1) ++ t) = u.path := by
            rw [ht]; conv => rhs; rw [hq]
            simp
          rw [this, hpa]; exact hpp
        have ⟨hg, _⟩ := checkItems_append_ok _ _ (split_ne_nil _) hall
        rw [checkItems_goods_append _ _ hg]
        simp [checkItems])
      have e : u.pathStart + idx + 1 = u.pathStart + (idx + 1) := by omega
      rw [e]; exact this

end Rpki.Uri
