/-
  The reference reader of `Rpki.Model.XmlDoc` inverts the writer on well-formed trees:
  `parseDoc (writeDoc n) = some n`.
-/
import Rpki.Model.XmlDoc
namespace Rpki.XmlDoc
open Rpki.Xml

/-! ### well-formedness -/

/-- names: non-empty, name characters only -/
def NameOk (n : Bytes) : Prop := n ≠ [] ∧ ∀ c ∈ n, isNameChar c = true
/-- attribute values as written: no `"` and no `<` -/
def ValueOk (v : Bytes) : Prop := 34 ∉ v ∧ 60 ∉ v
/-- text lines as written: non-empty, no `<`, no white space at either end -/
def TextOk (t : Bytes) : Prop :=
  t ≠ [] ∧ 60 ∉ t ∧ (∀ c, t.head? = some c → isWs c = false) ∧ (∀ c, t.getLast? = some c → isWs c = false)

/-- the list of children starts with a text line -/
def Nodes.startsText : Nodes → Prop
  | .cons (.text _) _ => True
  | _ => False

mutual
def Node.WF : Node → Prop
  | .text t => TextOk t
  | .elem name attrs body =>
    NameOk name ∧ (∀ a ∈ attrs, NameOk a.1 ∧ ValueOk a.2) ∧
      (match body with | none => True | some kids => kids.WF)
/-- in addition to the well-formedness of every child: no two text lines in a row (the reader
joins them into one text run) -/
def Nodes.WF : Nodes → Prop
  | .nil => True
  | .cons n ns => n.WF ∧ ns.WF ∧ (match n with | .text _ => ¬ ns.startsText | .elem .. => True)
end

/-! ### tokens of a tree -/

mutual
def toks : Node → List Tok
  | .text t => [.text t]
  | .elem name attrs none => [.selfClose name attrs]
  | .elem name attrs (some kids) => .open name attrs :: (toksKids kids ++ [.close name])
def toksKids : Nodes → List Tok
  | .nil => []
  | .cons n ns => toks n ++ toksKids ns
end

/-! ### list facts -/

theorem takeWhile_append_stop {p : Nat → Bool} (a : Bytes) (c : Nat) (r : Bytes)
    (ha : ∀ x ∈ a, p x = true) (hc : p c = false) : (a ++ c :: r).takeWhile p = a := by
  induction a with
  | nil => simp [hc]
  | cons x xs ih =>
    have hx := ha x (List.mem_cons_self)
    rw [List.cons_append, List.takeWhile_cons, hx]
    simp only [if_true]
    rw [ih (fun y hy => ha y (List.mem_cons_of_mem _ hy))]

theorem dropWhile_append_all {p : Nat → Bool} (a r : Bytes)
    (ha : ∀ x ∈ a, p x = true) : (a ++ r).dropWhile p = r.dropWhile p := by
  induction a with
  | nil => rfl
  | cons x xs ih =>
    have hx := ha x (List.mem_cons_self)
    rw [List.cons_append, List.dropWhile_cons, hx]
    simp only [if_true]
    exact ih (fun y hy => ha y (List.mem_cons_of_mem _ hy))

theorem dropWhile_all {p : Nat → Bool} (a : Bytes) (ha : ∀ x ∈ a, p x = true) : a.dropWhile p = [] := by
  have := dropWhile_append_all (p := p) a [] ha
  simpa using this

theorem drop_length_append (a r : Bytes) : (a ++ r).drop a.length = r := by
  simp

/-! ### fuel -/

theorem readAttrs_length : ∀ (fuel : Nat) (b : Bytes) (acc : List (Bytes × Bytes)) attrs sc r,
    readAttrs fuel b acc = some (attrs, sc, r) → r.length ≤ b.length := by
  intro fuel
  induction fuel with
  | zero => intro b acc attrs sc r h; simp [readAttrs] at h
  | succ f ih =>
    intro b acc attrs sc r h
    unfold readAttrs at h
    split at h
    · simp at h
    · simp only [Option.some.injEq, Prod.mk.injEq] at h
      obtain ⟨_, _, rfl⟩ := h; simp
    · simp only [Option.some.injEq, Prod.mk.injEq] at h
      obtain ⟨_, _, rfl⟩ := h; simp only [List.length_cons]; omega
    · rename_i fuel' rest acc' heq
      simp only [Nat.succ_eq_add_one, Nat.add_right_cancel_iff] at heq
      subst heq
      simp only at h
      split at h
      · simp at h
      · split at h
        · rename_i r1 hd1
          split at h
          · simp at h
          · split at h
            · rename_i r2 hd2
              have h1 := ih _ _ _ _ _ h
              have e1 := congrArg List.length hd1
              have e2 := congrArg List.length hd2
              simp only [List.length_drop, List.length_cons] at e1 e2 ⊢
              omega
            · simp at h
        · simp at h
    · simp at h

theorem takeWhile_ne60_pos (c : Nat) (rest : Bytes) (hc : c ≠ 60) :
    0 < ((c :: rest).takeWhile (fun x => decide (x ≠ 60))).length := by
  rw [List.takeWhile_cons]
  simp [hc]

/-- with more fuel than octets, the amount of fuel does not matter -/
theorem lex_fuel : ∀ (f1 f2 : Nat) (b : Bytes) (acc : List Tok),
    b.length < f1 → b.length < f2 → lex f1 b acc = lex f2 b acc := by
  intro f1
  induction f1 with
  | zero => intro f2 b acc h; omega
  | succ f1 ih =>
    intro f2 b acc h1 h2
    cases f2 with
    | zero => omega
    | succ f2 =>
      cases b with
      | nil => rw [lex.eq_2, lex.eq_2]
      | cons c rest =>
        simp only [List.length_cons] at h1 h2
        by_cases hc : c = 60
        · subst hc
          have open_case : (∀ r1, rest = 47 :: r1 → False) →
              lex (f1 + 1) (60 :: rest) acc = lex (f2 + 1) (60 :: rest) acc := by
            intro hne
            rw [lex.eq_4 _ _ _ hne, lex.eq_4 _ _ _ hne]
            split
            · rfl
            · split
              · rename_i attrs sc r hr
                split
                · exact ih _ _ _ (by omega) (by omega)
                · rfl
              · rfl
          cases rest with
          | nil => exact open_case (by intro r1 h; cases h)
          | cons d r2 =>
            by_cases hd : d = 47
            · subst hd
              rw [lex.eq_3, lex.eq_3]
              split
              · rfl
              · split
                · rename_i r hr
                  have e := congrArg List.length hr
                  simp only [List.length_drop, List.length_cons] at e h1 h2
                  exact ih _ _ _ (by omega) (by omega)
                · rfl
            · exact open_case (by intro r1 h; injection h with h _; exact hd h)
        · have p1 : ∀ r1 : List Nat, c = 60 → rest = 47 :: r1 → False := fun _ h _ => hc h
          rw [lex.eq_5 _ _ _ _ p1 hc, lex.eq_5 _ _ _ _ p1 hc]
          have := takeWhile_ne60_pos c rest hc
          apply ih
          · simp only [List.length_drop, List.length_cons]; omega
          · simp only [List.length_drop, List.length_cons]; omega

/-- `lex` with enough fuel -/
def lexF (b : Bytes) (acc : List Tok) : Option (List Tok) := lex (b.length + 1) b acc

theorem lex_eq_lexF (f : Nat) (b : Bytes) (acc : List Tok) (h : b.length < f) : lex f b acc = lexF b acc :=
  lex_fuel _ _ _ _ h (by omega)

/-! ### single steps of the lexer -/

theorem lexF_nil (acc : List Tok) : lexF [] acc = some acc.reverse := by
  unfold lexF; rw [lex.eq_2]

theorem isNameChar_62 : isNameChar 62 = false := by decide
theorem isNameChar_47 : isNameChar 47 = false := by decide
theorem isNameChar_32 : isNameChar 32 = false := by decide
theorem isNameChar_61 : isNameChar 61 = false := by decide

theorem lexF_close (name r : Bytes) (acc : List Tok) (hn : NameOk name) :
    lexF (60 :: 47 :: (name ++ 62 :: r)) acc = lexF r (.close name :: acc) := by
  unfold lexF
  rw [lex.eq_3, takeWhile_append_stop name 62 r hn.2 isNameChar_62, if_neg hn.1, drop_length_append]
  simp only
  apply lex_fuel
  · simp only [List.length_cons, List.length_append]; omega
  · omega

theorem lexF_run (run r : Bytes) (acc : List Tok) (h60 : 60 ∉ run) :
    lexF (run ++ 60 :: r) acc =
      lexF (60 :: r) (if trim run = [] then acc else .text (trim run) :: acc) := by
  cases run with
  | nil =>
    have : trim [] = [] := by simp [trim, trimLeft, trimRight]
    rw [this]; simp
  | cons c rs =>
    have hc : c ≠ 60 := fun h => h60 (h ▸ List.mem_cons_self)
    have p1 : ∀ r1 : List Nat, c = 60 → rs ++ 60 :: r = 47 :: r1 → False := fun _ h _ => hc h
    have htw : ((c :: rs) ++ 60 :: r).takeWhile (fun x => decide (x ≠ 60)) = c :: rs := by
      apply takeWhile_append_stop
      · intro x hx
        have : x ≠ 60 := fun h => h60 (h ▸ hx)
        simp [this]
      · simp
    unfold lexF
    rw [List.cons_append, lex.eq_5 _ _ _ _ p1 hc, ← List.cons_append, htw, drop_length_append]
    apply lex_fuel
    · simp only [List.length_cons, List.length_append]; omega
    · omega

/-- the attributes of a start tag as written -/
def renderAttrs (attrs : List (Bytes × Bytes)) : Bytes := (attrs.map fun (n, v) => rawAttr n v).flatten

theorem renderAttrs_cons (n v : Bytes) (rest : List (Bytes × Bytes)) :
    renderAttrs ((n, v) :: rest) = 32 :: (n ++ 61 :: 34 :: (v ++ 34 :: renderAttrs rest)) := by
  simp [renderAttrs, rawAttr]

theorem headOf_eq (name : Bytes) (attrs : List (Bytes × Bytes)) :
    headOf name attrs = 60 :: (name ++ renderAttrs attrs) := rfl

theorem readAttrs_render (sc : Bool) (r tail : Bytes)
    (htail : ∀ fuel acc, readAttrs (fuel + 1) tail acc = some (acc.reverse, sc, r)) :
    ∀ (attrs : List (Bytes × Bytes)) (fuel : Nat) (acc : List (Bytes × Bytes)),
      (∀ a ∈ attrs, NameOk a.1 ∧ ValueOk a.2) → (renderAttrs attrs ++ tail).length < fuel →
      readAttrs fuel (renderAttrs attrs ++ tail) acc = some (acc.reverse ++ attrs, sc, r) := by
  intro attrs
  induction attrs with
  | nil =>
    intro fuel acc _ hf
    cases fuel with
    | zero => omega
    | succ f => simp [renderAttrs, htail]
  | cons a rest ih =>
    intro fuel acc hok hf
    obtain ⟨n, v⟩ := a
    have ha := hok (n, v) List.mem_cons_self
    obtain ⟨hn, hv⟩ := ha
    simp only at hn hv
    cases fuel with
    | zero => omega
    | succ f =>
      have hshape : renderAttrs ((n, v) :: rest) ++ tail =
          32 :: (n ++ 61 :: 34 :: (v ++ 34 :: (renderAttrs rest ++ tail))) := by
        rw [renderAttrs_cons]; simp
      rw [hshape] at hf ⊢
      rw [readAttrs.eq_4, takeWhile_append_stop n 61 _ hn.2 isNameChar_61, if_neg hn.1,
        drop_length_append]
      simp only
      have htw : (v ++ 34 :: (renderAttrs rest ++ tail)).takeWhile (fun c => decide (c ≠ 34)) = v := by
        apply takeWhile_append_stop
        · intro x hx
          have : x ≠ 34 := fun h => hv.1 (h ▸ hx)
          simp [this]
        · simp
      rw [htw, drop_length_append]
      have hc : v.contains 60 = false := by
        cases hcv : v.contains 60 with
        | false => rfl
        | true => exact absurd (List.contains_iff_mem.mp hcv) hv.2
      rw [hc]
      simp only [Bool.false_eq_true, if_false]
      rw [ih f _ (fun b hb => hok b (List.mem_cons_of_mem _ hb))]
      · simp
      · simp only [List.length_cons, List.length_append] at hf ⊢; omega

theorem render_tail_head (attrs : List (Bytes × Bytes)) (tail : Bytes)
    (hhead : ∃ c t, tail = c :: t ∧ isNameChar c = false) :
    ∃ c t, renderAttrs attrs ++ tail = c :: t ∧ isNameChar c = false := by
  cases attrs with
  | nil => simpa [renderAttrs] using hhead
  | cons a rest =>
    obtain ⟨n, v⟩ := a
    exact ⟨32, _, by rw [renderAttrs_cons]; rfl, isNameChar_32⟩

theorem lexF_tag (sc : Bool) (name : Bytes) (attrs : List (Bytes × Bytes)) (r tail : Bytes) (acc : List Tok)
    (hn : NameOk name) (ha : ∀ a ∈ attrs, NameOk a.1 ∧ ValueOk a.2)
    (htail : ∀ fuel acc, readAttrs (fuel + 1) tail acc = some (acc.reverse, sc, r))
    (hhead : ∃ c t, tail = c :: t ∧ isNameChar c = false) (hlen : r.length < tail.length) :
    lexF (headOf name attrs ++ tail) acc =
      lexF r ((if sc = true then Tok.selfClose name attrs else Tok.open name attrs) :: acc) := by
  have hshape : headOf name attrs ++ tail = 60 :: (name ++ (renderAttrs attrs ++ tail)) := by
    rw [headOf_eq]; simp
  obtain ⟨c, t, hX, hc⟩ := render_tail_head attrs tail hhead
  have hne : ∀ r1, name ++ (renderAttrs attrs ++ tail) = 47 :: r1 → False := by
    intro r1 h
    cases name with
    | nil => exact hn.1 rfl
    | cons n0 ns =>
      have := hn.2 n0 List.mem_cons_self
      rw [List.cons_append] at h
      injection h with h _
      rw [h, isNameChar_47] at this
      exact absurd this (by decide)
  unfold lexF
  rw [hshape, lex.eq_4 _ _ _ hne]
  have htw : (name ++ (renderAttrs attrs ++ tail)).takeWhile isNameChar = name := by
    rw [hX]; exact takeWhile_append_stop name c t hn.2 hc
  rw [htw, if_neg hn.1, drop_length_append,
    readAttrs_render sc r tail htail attrs _ [] ha (by simp only [List.length_append]; omega)]
  simp only [List.reverse_nil, List.nil_append]
  rw [if_pos (by simp only [List.length_append]; omega)]
  apply lex_fuel
  · simp only [List.length_cons, List.length_append]; omega
  · omega

theorem lexF_open (name : Bytes) (attrs : List (Bytes × Bytes)) (r : Bytes) (acc : List Tok)
    (hn : NameOk name) (ha : ∀ a ∈ attrs, NameOk a.1 ∧ ValueOk a.2) :
    lexF (headOf name attrs ++ 62 :: r) acc = lexF r (.open name attrs :: acc) := by
  have := lexF_tag false name attrs r (62 :: r) acc hn ha (fun fuel acc => by rw [readAttrs.eq_2])
    ⟨62, r, rfl, isNameChar_62⟩ (by simp)
  simpa using this

theorem lexF_selfClose (name : Bytes) (attrs : List (Bytes × Bytes)) (r : Bytes) (acc : List Tok)
    (hn : NameOk name) (ha : ∀ a ∈ attrs, NameOk a.1 ∧ ValueOk a.2) :
    lexF (headOf name attrs ++ 47 :: 62 :: r) acc = lexF r (.selfClose name attrs :: acc) := by
  have := lexF_tag true name attrs r (47 :: 62 :: r) acc hn ha (fun fuel acc => by rw [readAttrs.eq_3])
    ⟨47, 62 :: r, rfl, isNameChar_47⟩ (by simp only [List.length_cons]; omega)
  simpa using this

/-! ### trimming -/

def AllWs (w : Bytes) : Prop := ∀ c ∈ w, isWs c = true

theorem allWs_nil : AllWs [] := by intro c h; cases h

theorem allWs_append {a b : Bytes} (ha : AllWs a) (hb : AllWs b) : AllWs (a ++ b) := by
  intro c h
  rcases List.mem_append.mp h with h | h
  · exact ha c h
  · exact hb c h

theorem allWs_indent (level : Nat) : AllWs (indentOf level) := by
  intro c h
  unfold indentOf at h
  rw [List.mem_flatten] at h
  obtain ⟨l, hl, hc⟩ := h
  rw [List.mem_replicate] at hl
  rw [hl.2] at hc
  simp only [List.mem_cons, List.not_mem_nil, or_false] at hc
  rcases hc with rfl | rfl <;> decide

theorem allWs_nl_indent (level : Nat) : AllWs (10 :: indentOf level) := by
  intro c h
  rcases List.mem_cons.mp h with rfl | h
  · decide
  · exact allWs_indent level c h

theorem allWs_not60 {w : Bytes} (h : AllWs w) : 60 ∉ w := by
  intro hm
  have := h 60 hm
  exact absurd this (by decide)

/-- the text token left by a run `ws0 ++ t ++ ws1` with `t` empty or a proper text line -/
theorem trim_pad (ws0 t ws1 : Bytes) (h0 : AllWs ws0) (h1 : AllWs ws1) (ht : t = [] ∨ TextOk t) :
    trim (ws0 ++ t ++ ws1) = t := by
  unfold trim trimLeft
  rw [List.append_assoc, dropWhile_append_all ws0 _ h0]
  rcases ht with rfl | ht
  · rw [List.nil_append, dropWhile_all ws1 h1]
    simp [trimRight]
  · obtain ⟨hne, _, hhead, hlast⟩ := ht
    cases t with
    | nil => exact absurd rfl hne
    | cons c ts =>
      have hc : isWs c = false := hhead c rfl
      rw [List.cons_append, List.dropWhile_cons, hc]
      simp only [Bool.false_eq_true, if_false]
      unfold trimRight
      rw [← List.cons_append, List.reverse_append,
        dropWhile_append_all ws1.reverse _ (fun x hx => h1 x (List.mem_reverse.mp hx))]
      have hl : ∃ d ds, (c :: ts).reverse = d :: ds ∧ isWs d = false := by
        cases hr : (c :: ts).reverse with
        | nil => simp at hr
        | cons d ds =>
          refine ⟨d, ds, rfl, hlast d ?_⟩
          rw [List.getLast?_eq_head?_reverse, hr]; rfl
      obtain ⟨d, ds, hr, hd⟩ := hl
      rw [hr, List.dropWhile_cons, hd]
      simp only [Bool.false_eq_true, if_false]
      rw [← hr, List.reverse_reverse]

/-- the token produced by a pending text line (`[]`: none) -/
def pend (t : Bytes) : List Tok := if t = [] then [] else [Tok.text t]

theorem lexF_pad (ws0 t ws1 r : Bytes) (acc : List Tok) (h0 : AllWs ws0) (h1 : AllWs ws1)
    (ht : t = [] ∨ TextOk t) :
    lexF (ws0 ++ t ++ ws1 ++ 60 :: r) acc = lexF (60 :: r) (pend t ++ acc) := by
  have h60 : 60 ∉ ws0 ++ t ++ ws1 := by
    intro hm
    rcases List.mem_append.mp hm with hm | hm
    · rcases List.mem_append.mp hm with hm | hm
      · exact allWs_not60 h0 hm
      · rcases ht with rfl | ht
        · cases hm
        · exact ht.2.1 hm
    · exact allWs_not60 h1 hm
  rw [lexF_run _ _ _ h60, trim_pad ws0 t ws1 h0 h1 ht]
  unfold pend
  by_cases he : t = []
  · simp [he]
  · simp [he]

theorem Node.WF_elem (name : Bytes) (attrs : List (Bytes × Bytes)) (body : Option Nodes) :
    (Node.elem name attrs body).WF ↔
      (NameOk name ∧ (∀ a ∈ attrs, NameOk a.1 ∧ ValueOk a.2) ∧
        (match body with | none => True | some kids => kids.WF)) := by
  cases body <;> simp only [Node.WF]

theorem Node.WF_text (t : Bytes) : (Node.text t).WF ↔ TextOk t := by
  rw [Node.WF]

theorem Nodes.WF_cons (n : Node) (ns : Nodes) :
    (Nodes.cons n ns).WF ↔
      (n.WF ∧ ns.WF ∧ (match n with | .text _ => ¬ ns.startsText | .elem .. => True)) := by
  cases n <;> simp only [Nodes.WF]

theorem writeNode_elem_none (level : Nat) (name : Bytes) (attrs : List (Bytes × Bytes)) :
    writeNode level (.elem name attrs none) = headOf name attrs ++ [47, 62] := by
  rw [writeNode]

theorem writeNode_elem_some (level : Nat) (name : Bytes) (attrs : List (Bytes × Bytes)) (kids : Nodes) :
    writeNode level (.elem name attrs (some kids)) =
      headOf name attrs ++ [62] ++ writeKids (level + 1) kids ++ [10] ++ indentOf level ++ [60, 47] ++ name ++ [62] := by
  rw [writeNode]

theorem writeNode_text (level : Nat) (t : Bytes) : writeNode level (.text t) = t := by
  rw [writeNode]

theorem writeKids_nil (level : Nat) : writeKids level .nil = [] := by rw [writeKids]

theorem writeKids_cons (level : Nat) (n : Node) (ns : Nodes) :
    writeKids level (.cons n ns) = [10] ++ indentOf level ++ writeNode level n ++ writeKids level ns := by
  rw [writeKids]

theorem toks_text (t : Bytes) : toks (.text t) = [.text t] := by rw [toks]
theorem toks_elem_none (name : Bytes) (attrs : List (Bytes × Bytes)) :
    toks (.elem name attrs none) = [.selfClose name attrs] := by rw [toks]
theorem toks_elem_some (name : Bytes) (attrs : List (Bytes × Bytes)) (kids : Nodes) :
    toks (.elem name attrs (some kids)) = .open name attrs :: (toksKids kids ++ [.close name]) := by rw [toks]
theorem toksKids_nil : toksKids .nil = [] := by rw [toksKids]
theorem toksKids_cons (n : Node) (ns : Nodes) : toksKids (.cons n ns) = toks n ++ toksKids ns := by rw [toksKids]

/-! ### the lexer on written trees -/

theorem headOf_cons (name : Bytes) (attrs : List (Bytes × Bytes)) :
    ∃ h, headOf name attrs = 60 :: h := ⟨_, headOf_eq name attrs⟩

theorem writeNode_elem_head (level : Nat) (name : Bytes) (attrs : List (Bytes × Bytes)) (body : Option Nodes) :
    ∃ h, writeNode level (.elem name attrs body) = 60 :: h := by
  cases body with
  | none => rw [writeNode_elem_none, headOf_eq]; exact ⟨_, rfl⟩
  | some kids => rw [writeNode_elem_some, headOf_eq]; simp only [List.cons_append]; exact ⟨_, rfl⟩

mutual
theorem lexF_elem (name : Bytes) (attrs : List (Bytes × Bytes)) : ∀ (body : Option Nodes) (level : Nat)
    (r : Bytes) (acc : List Tok), (Node.elem name attrs body).WF →
    lexF (writeNode level (.elem name attrs body) ++ r) acc =
      lexF r ((toks (.elem name attrs body)).reverse ++ acc)
  | none, level, r, acc, hwf => by
    rw [Node.WF_elem] at hwf
    rw [writeNode_elem_none, toks_elem_none, List.append_assoc]
    exact lexF_selfClose name attrs r acc hwf.1 hwf.2.1
  | some kids, level, r, acc, hwf => by
    rw [Node.WF_elem] at hwf
    obtain ⟨hn, ha, hk⟩ := hwf
    simp only at hk
    have hshape : writeNode level (.elem name attrs (some kids)) ++ r =
        headOf name attrs ++ 62 :: ([] ++ [] ++ writeKids (level + 1) kids ++ (10 :: indentOf level) ++
          60 :: (47 :: (name ++ 62 :: r))) := by
      rw [writeNode_elem_some]; simp
    rw [hshape, lexF_open name attrs _ _ hn ha,
      lexF_kids kids (level + 1) [] [] (10 :: indentOf level) _ _ hk allWs_nil (allWs_nl_indent level)
        (Or.inl rfl),
      lexF_close name r _ hn, toks_elem_some]
    simp [pend]
theorem lexF_kids : ∀ (ks : Nodes) (level : Nat) (ws0 t ws1 r : Bytes) (acc : List Tok), ks.WF →
    AllWs ws0 → AllWs ws1 → (t = [] ∨ (TextOk t ∧ ¬ ks.startsText)) →
    lexF (ws0 ++ t ++ writeKids level ks ++ ws1 ++ 60 :: r) acc =
      lexF (60 :: r) ((toksKids ks).reverse ++ pend t ++ acc)
  | .nil, level, ws0, t, ws1, r, acc, _, h0, h1, ht => by
    rw [writeKids_nil, List.append_nil, toksKids_nil]
    exact lexF_pad ws0 t ws1 r acc h0 h1 (ht.imp id (·.1))
  | .cons (.text t') ns, level, ws0, t, ws1, r, acc, hwf, h0, h1, ht => by
    rw [Nodes.WF_cons, Node.WF_text] at hwf
    obtain ⟨ht', hns, hst⟩ := hwf
    simp only at hst
    have ht0 : t = [] := by
      rcases ht with h | h
      · exact h
      · exact absurd trivial h.2
    subst ht0
    have hshape : ws0 ++ [] ++ writeKids level (.cons (.text t') ns) ++ ws1 ++ 60 :: r =
        (ws0 ++ 10 :: indentOf level) ++ t' ++ writeKids level ns ++ ws1 ++ 60 :: r := by
      rw [writeKids_cons, writeNode_text]; simp
    rw [hshape, lexF_kids ns level _ t' ws1 r acc hns (allWs_append h0 (allWs_nl_indent level)) h1
      (Or.inr ⟨ht', hst⟩), toksKids_cons, toks_text]
    have : pend t' = [Tok.text t'] := by unfold pend; rw [if_neg ht'.1]
    rw [this]; simp [pend]
  | .cons (.elem name attrs body) ns, level, ws0, t, ws1, r, acc, hwf, h0, h1, ht => by
    rw [Nodes.WF_cons] at hwf
    obtain ⟨hn, hns, _⟩ := hwf
    obtain ⟨h, hh⟩ := writeNode_elem_head level name attrs body
    have hshape : ws0 ++ t ++ writeKids level (.cons (.elem name attrs body) ns) ++ ws1 ++ 60 :: r =
        ws0 ++ t ++ (10 :: indentOf level) ++ 60 :: (h ++ (writeKids level ns ++ ws1 ++ 60 :: r)) := by
      rw [writeKids_cons, hh]; simp
    have hback : 60 :: (h ++ (writeKids level ns ++ ws1 ++ 60 :: r)) =
        writeNode level (.elem name attrs body) ++ ([] ++ [] ++ writeKids level ns ++ ws1 ++ 60 :: r) := by
      rw [hh]; simp
    rw [hshape, lexF_pad ws0 t _ _ acc h0 (allWs_nl_indent level) (ht.imp id (·.1)), hback,
      lexF_elem name attrs body level _ _ hn,
      lexF_kids ns level [] [] ws1 r _ hns allWs_nil h1 (Or.inl rfl), toksKids_cons]
    simp [pend]
end

/-- lexer level: the tokens of a written element are the tokens of the tree -/
theorem lex_writeDoc (name : Bytes) (attrs : List (Bytes × Bytes)) (body : Option Nodes)
    (h : (Node.elem name attrs body).WF) :
    lex ((writeDoc (.elem name attrs body)).length + 1) (writeDoc (.elem name attrs body)) [] =
      some (toks (.elem name attrs body)) := by
  have := lexF_elem name attrs body 0 [] [] h
  rw [List.append_nil, lexF_nil, List.append_nil, List.reverse_reverse] at this
  exact this

/-! ### the builder on the tokens of a tree -/

theorem Nodes.ofList_toList : ∀ ks : Nodes, Nodes.ofList ks.toList = ks
  | .nil => by rw [Nodes.toList, Nodes.ofList]
  | .cons n ns => by rw [Nodes.toList, Nodes.ofList, Nodes.ofList_toList ns]

mutual
theorem build_node : ∀ (n : Node) (rest : List Tok) (nm : Bytes) (a : List (Bytes × Bytes))
    (kids : List Node) (st : List (Bytes × List (Bytes × Bytes) × List Node)),
    build (toks n ++ rest) ((nm, a, kids) :: st) = build rest ((nm, a, n :: kids) :: st)
  | .text t, rest, nm, a, kids, st => by
    rw [toks_text]; simp only [List.cons_append, List.nil_append]; rw [build]
  | .elem name attrs none, rest, nm, a, kids, st => by
    rw [toks_elem_none]; simp only [List.cons_append, List.nil_append]; rw [build]
  | .elem name attrs (some ks), rest, nm, a, kids, st => by
    rw [toks_elem_some]
    simp only [List.cons_append, List.append_assoc, List.nil_append]
    rw [build, build_kids ks (Tok.close name :: rest) name attrs [] ((nm, a, kids) :: st), build]
    simp [Nodes.ofList_toList]
theorem build_kids : ∀ (ks : Nodes) (rest : List Tok) (nm : Bytes) (a : List (Bytes × Bytes))
    (acc : List Node) (st : List (Bytes × List (Bytes × Bytes) × List Node)),
    build (toksKids ks ++ rest) ((nm, a, acc) :: st) = build rest ((nm, a, ks.toList.reverse ++ acc) :: st)
  | .nil, rest, nm, a, acc, st => by
    rw [toksKids_nil, Nodes.toList]; rfl
  | .cons n ns, rest, nm, a, acc, st => by
    rw [toksKids_cons, List.append_assoc, build_node n, build_kids ns, Nodes.toList]
    simp
end

/-- builder level: the tokens of an element assemble to the element (no well-formedness needed) -/
theorem build_toks (name : Bytes) (attrs : List (Bytes × Bytes)) (body : Option Nodes) :
    build (toks (.elem name attrs body)) [] = some (.elem name attrs body) := by
  cases body with
  | none => rw [toks_elem_none, build]; simp
  | some ks =>
    rw [toks_elem_some, build, build_kids ks [Tok.close name] name attrs [] [], build]
    simp [Nodes.ofList_toList]

/-- the reference reader inverts the writer on well-formed trees whose root is an element -/
theorem parse_write (n : Node) (h : n.WF) (hroot : ∃ name attrs body, n = .elem name attrs body) :
    parseDoc (writeDoc n) = some n := by
  obtain ⟨name, attrs, body, rfl⟩ := hroot
  unfold parseDoc
  rw [lex_writeDoc name attrs body h]
  exact build_toks name attrs body

/-- consequence: the writer is injective on well-formed element trees -/
theorem writeDoc_injective (a b : Node) (ha : a.WF) (hb : b.WF)
    (hra : ∃ name attrs body, a = .elem name attrs body) (hrb : ∃ name attrs body, b = .elem name attrs body)
    (h : writeDoc a = writeDoc b) : a = b := by
  have h1 := parse_write a ha hra
  rw [h, parse_write b hb hrb] at h1
  exact (Option.some.inj h1).symm

/-! ### concrete instances (non-vacuity) and the two boundary cases -/

/-- `<a x="1">` with two self-closing children -/
def sample1 : Node :=
  .elem [97] [([120], [49])] (some (.cons (.elem [98] [] none) (.cons (.elem [99] [] none) .nil)))

/-- three levels, an attribute value `v &amp; w`, an empty attribute value, a text line `hello world`
between two elements, an element with an empty child list -/
def sample2 : Node :=
  .elem [97] [] (some (.cons
    (.elem [98] [([107], [118, 32, 38, 97, 109, 112, 59, 32, 119]), ([108], [])] (some (.cons
      (.elem [99] [] none) (.cons
      (.text [104, 101, 108, 108, 111, 32, 119, 111, 114, 108, 100]) (.cons
      (.elem [100] [] (some .nil)) .nil))))) .nil))

theorem sample1_wf : sample1.WF := by
  simp [sample1, Node.WF, Nodes.WF, NameOk, ValueOk, isNameChar]

theorem sample2_wf : sample2.WF := by
  simp [sample2, Node.WF, Nodes.WF, Nodes.startsText, NameOk, ValueOk, TextOk, isNameChar, isWs]

/-- by evaluation of the reader -/
example : parseDoc (writeDoc sample1) = some sample1 := by rfl
example : parseDoc (writeDoc sample2) = some sample2 := by rfl
/-- by the general theorem -/
example : parseDoc (writeDoc sample1) = some sample1 := parse_write _ sample1_wf ⟨_, _, _, rfl⟩
example : parseDoc (writeDoc sample2) = some sample2 := parse_write _ sample2_wf ⟨_, _, _, rfl⟩

/-- Why `Nodes.WF` excludes two text lines in a row: `<a>` with the text lines `x` and `y` is written
exactly like `<a>` with the single text `x\n  y` (which is itself a `TextOk` text), so the reader
returns the second tree for the first. -/
theorem adjacent_text_lines_are_joined :
    parseDoc (writeDoc (.elem [97] [] (some (.cons (.text [120]) (.cons (.text [121]) .nil))))) =
      some (.elem [97] [] (some (.cons (.text [120, 10, 32, 32, 121]) .nil))) ∧
    (Node.elem [97] [] (some (.cons (.text [120, 10, 32, 32, 121]) .nil))).WF ∧
    writeDoc (.elem [97] [] (some (.cons (.text [120]) (.cons (.text [121]) .nil)))) =
      writeDoc (.elem [97] [] (some (.cons (.text [120, 10, 32, 32, 121]) .nil))) := by
  refine ⟨by rfl, ?_, by rfl⟩
  simp [Node.WF, Nodes.WF, Nodes.startsText, NameOk, TextOk, isNameChar, isWs]

/-- Why the root has to be an element: a lone text line is not a document. -/
theorem text_root_is_rejected : (Node.text [120]).WF ∧ parseDoc (writeDoc (.text [120])) = none := by
  refine ⟨?_, by rfl⟩
  simp [Node.WF, TextOk, isWs]

end Rpki.XmlDoc
