import Rpki.Proofs.RtrPduCodec
namespace Rpki.Rtr
open Rpki.Consts

/-! ### whatever is accepted was there: bounded consumption -/

theorem readBody_consumed (h : Hdr) (size : Nat) (s b rest : Bytes) (hs : sizeHeader ≤ size)
    (e : readBody h size s = .ok (b, rest)) : s = b ++ rest ∧ b.length + sizeHeader = h.length := by
  unfold readBody at e
  by_cases hl : h.length ≠ size
  · rw [if_pos hl] at e; cases e
  · rw [if_neg hl] at e
    have h1 := (readExact_ok_iff _ _ _ _).1 e
    have h2 : h.length = size := by simpa using hl
    exact ⟨h1.1, by omega⟩

/-- Whatever `Payload::read` accepts, it consumed exactly the announced length, which is what it
found in the stream: reading never goes beyond the PDU. -/
theorem readPayload_consumed (s : Bytes) (it : Item) (rest : Bytes) (e : readPayload s = .ok (it, rest)) :
    ∃ used, s = used ++ rest ∧ used.length = it.hdr.length ∧ 8 ≤ used.length ∧ it.hdr = decHdr (s.take 8) := by
  unfold readPayload at e
  cases hh : readHdr s with
  | error x => simp [hh] at e
  | ok p =>
    obtain ⟨h, r⟩ := p
    simp only [hh] at e
    unfold readHdr at hh
    have s8 : sizeHeader = 8 := rfl
    cases hx : readExact sizeHeader s with
    | error x => simp [hx] at hh
    | ok q =>
      obtain ⟨hb, r'⟩ := q
      simp only [hx] at hh
      injection hh with hh; injection hh with h1 h2
      subst h2
      have ⟨es, el⟩ := (readExact_ok_iff _ _ _ _).1 hx
      rw [s8] at el
      unfold readItem at e
      split at e
      · -- v4
        unfold readV4 at e
        cases hb2 : readBody h sizeIpv4Prefix r' with
        | error x => simp [hb2] at e
        | ok q2 =>
          obtain ⟨b, rr⟩ := q2
          simp only [hb2] at e
          injection e with e; injection e with e1 e2
          subst e1; subst e2
          have ⟨c1, c2⟩ := readBody_consumed _ _ _ _ _ (by decide) hb2
          refine ⟨hb ++ b, by rw [es, c1]; simp, by simp [Item.hdr]; omega, by simp; omega, by rw [es, List.take_left' el]; exact h1.symm⟩
      · split at e
        · unfold readV6 at e
          cases hb2 : readBody h sizeIpv6Prefix r' with
          | error x => simp [hb2] at e
          | ok q2 =>
            obtain ⟨b, rr⟩ := q2
            simp only [hb2] at e
            injection e with e; injection e with e1 e2
            subst e1; subst e2
            have ⟨c1, c2⟩ := readBody_consumed _ _ _ _ _ (by decide) hb2
            refine ⟨hb ++ b, by rw [es, c1]; simp, by simp [Item.hdr]; omega, by simp; omega, by rw [es, List.take_left' el]; exact h1.symm⟩
        · split at e
          · unfold readKey at e
            split at e
            · cases e
            · rename_i hlt
              cases h3 : readExact (sizeRouterKeyFixed - sizeHeader) r' with
              | error x => simp [h3] at e
              | ok q3 =>
                obtain ⟨b, r2⟩ := q3
                simp only [h3] at e
                cases h4 : readExact (h.length - sizeRouterKeyFixed) r2 with
                | error x => simp [h4] at e
                | ok q4 =>
                  obtain ⟨info, rr⟩ := q4
                  simp only [h4] at e
                  injection e with e; injection e with e1 e2
                  subst e1; subst e2
                  have ⟨c1, c2⟩ := (readExact_ok_iff _ _ _ _).1 h3
                  have ⟨c3, c4⟩ := (readExact_ok_iff _ _ _ _).1 h4
                  have k1 : sizeRouterKeyFixed = 32 := rfl
                  refine ⟨hb ++ b ++ info, by rw [es, c1, c3]; simp, ?_,
                    by rw [List.length_append, List.length_append]; omega, by rw [es, List.take_left' el]; exact h1.symm⟩
                  rw [List.length_append, List.length_append]
                  simp only [Item.hdr]
                  have c2' : b.length = 24 := by rw [c2]; rfl
                  have c4' : info.length = h.length - 32 := by rw [c4]; rfl
                  have hlt' : ¬ h.length < 32 := hlt
                  omega
          · split at e
            · unfold readAspa at e
              split at e
              · cases e
              · split at e
                · cases e
                · rename_i hlt hmod
                  cases h3 : readExact (sizeAspaFixed - sizeHeader) r' with
                  | error x => simp [h3] at e
                  | ok q3 =>
                    obtain ⟨b, r2⟩ := q3
                    simp only [h3] at e
                    cases h4 : readExact (h.length - sizeAspaFixed) r2 with
                    | error x => simp [h4] at e
                    | ok q4 =>
                      obtain ⟨ps, rr⟩ := q4
                      simp only [h4] at e
                      injection e with e; injection e with e1 e2
                      subst e1; subst e2
                      have ⟨c1, c2⟩ := (readExact_ok_iff _ _ _ _).1 h3
                      have ⟨c3, c4⟩ := (readExact_ok_iff _ _ _ _).1 h4
                      have k1 : sizeAspaFixed = 12 := rfl
                      refine ⟨hb ++ b ++ ps, by rw [es, c1, c3]; simp, ?_,
                        by rw [List.length_append, List.length_append]; omega, by rw [es, List.take_left' el]; exact h1.symm⟩
                      rw [List.length_append, List.length_append]
                      simp only [Item.hdr]
                      have c2' : b.length = 4 := by rw [c2]; rfl
                      have c4' : ps.length = h.length - 12 := by rw [c4]; rfl
                      have hlt' : ¬ h.length < 12 := hlt
                      omega
            · split at e
              · unfold readEod at e
                split at e
                · cases hb2 : readBody h sizeEndOfDataV0 r' with
                  | error x => simp [hb2] at e
                  | ok q2 =>
                    obtain ⟨b, rr⟩ := q2
                    simp only [hb2] at e
                    injection e with e; injection e with e1 e2
                    subst e1; subst e2
                    have ⟨c1, c2⟩ := readBody_consumed _ _ _ _ _ (by decide) hb2
                    refine ⟨hb ++ b, by rw [es, c1]; simp, by simp [Item.hdr]; omega, by simp; omega, by rw [es, List.take_left' el]; exact h1.symm⟩
                · split at e
                  · cases hb2 : readBody h sizeEndOfDataV1 r' with
                    | error x => simp [hb2] at e
                    | ok q2 =>
                      obtain ⟨b, rr⟩ := q2
                      simp only [hb2] at e
                      injection e with e; injection e with e1 e2
                      subst e1; subst e2
                      have ⟨c1, c2⟩ := readBody_consumed _ _ _ _ _ (by decide) hb2
                      refine ⟨hb ++ b, by rw [es, c1]; simp, by simp [Item.hdr]; omega, by simp; omega, by rw [es, List.take_left' el]; exact h1.symm⟩
                  · cases e
              · cases e

/-! ### truncated streams end in `eof` -/

theorem readExact_take_short (a : Bytes) (n k : Nat) (hk : k < n) : readExact n (a.take k) = .error .eof :=
  readExact_short _ _ (by simp; omega)

/-- Reading from a stream that ends anywhere inside a well-formed PDU ends with an
end-of-file error (never a value, never a hang: the model reader is a total function). -/
theorem readPayload_truncated (it : Item) (hw : it.WF) (k : Nat) (hk : k < it.encode.length) :
    readPayload (it.encode.take k) = .error .eof := by
  -- if the full PDU reads back, any strict prefix cannot: use consumed-length and determinism
  cases hr : readPayload (it.encode.take k) with
  | error x =>
    cases x with
    | eof => rfl
    | invalid =>
      -- `invalid` only arises from header contents; a strict prefix of at least 8 bytes has the same
      -- (valid) header, a shorter one fails with eof
      exfalso
      unfold readPayload at hr
      by_cases h8 : k < 8
      · have : readHdr (it.encode.take k) = .error .eof := readHdr_short _ (by simp; omega)
        rw [this] at hr; cases hr
      · -- header is intact
        have hk8 : 8 ≤ k := by omega
        have hfull := readPayload_encode it hw []
        rw [List.append_nil] at hfull
        -- decompose encode = encHdr h ++ body
        have hdec : ∃ body, it.encode = encHdr it.hdr ++ body := by
          cases it <;> simp [Item.encode, Item.hdr, List.append_assoc]
        obtain ⟨body, hb⟩ := hdec
        have hhw : it.hdr.WF := by cases it <;> exact hw.1
        have htake : it.encode.take k = encHdr it.hdr ++ body.take (k - 8) := by
          rw [hb, List.take_append, encHdr_length, List.take_of_length_le (by rw [encHdr_length]; omega)]
        rw [htake, readHdr_encHdr _ hhw] at hr
        simp only at hr
        -- the dispatch on a valid header never yields `invalid` for a truncated body
        have hblen : body.length + 8 = it.encode.length := by rw [hb]; simp [encHdr_length]; omega
        have hshort : (body.take (k - 8)).length < body.length := by simp; omega
        have hel := encode_length it hw
        cases it with
        | v4 h f pl ml z p a =>
          obtain ⟨_, hp, hl, _⟩ := hw
          simp only [Item.hdr] at hr hel hb
          unfold readItem at hr; rw [if_pos hp] at hr
          unfold readV4 readBody at hr
          rw [if_neg (by simp [hl])] at hr
          rw [readExact_short _ _ (by have : sizeIpv4Prefix - sizeHeader = 12 := rfl; rw [this]; have : sizeIpv4Prefix = 20 := rfl; omega)] at hr
          cases hr
        | v6 h f pl ml z p a =>
          obtain ⟨_, hp, hl, _⟩ := hw
          simp only [Item.hdr] at hr hel hb
          unfold readItem at hr; rw [if_neg (by rw [hp]; decide), if_pos hp] at hr
          unfold readV6 readBody at hr
          rw [if_neg (by simp [hl])] at hr
          rw [readExact_short _ _ (by have : sizeIpv6Prefix - sizeHeader = 24 := rfl; rw [this]; have : sizeIpv6Prefix = 32 := rfl; omega)] at hr
          cases hr
        | key h ski a info =>
          obtain ⟨_, hp, hl, h1, _⟩ := hw
          simp only [Item.hdr] at hr hel hb
          unfold readItem at hr
          rw [if_neg (by rw [hp]; decide), if_neg (by rw [hp]; decide), if_pos hp] at hr
          unfold readKey at hr
          rw [if_neg (by rw [hl]; omega)] at hr
          have k24 : sizeRouterKeyFixed - sizeHeader = 24 := rfl
          have k32 : sizeRouterKeyFixed = 32 := rfl
          cases h3 : readExact (sizeRouterKeyFixed - sizeHeader) (body.take (k - 8)) with
          | error x =>
            rw [h3] at hr
            unfold readExact at h3; split at h3 <;> simp_all
          | ok q =>
            obtain ⟨b, r2⟩ := q
            rw [h3] at hr
            simp only at hr
            have ⟨c1, c2⟩ := (readExact_ok_iff _ _ _ _).1 h3
            have : r2.length < h.length - sizeRouterKeyFixed := by
              have : (body.take (k - 8)).length = b.length + r2.length := by rw [c1]; simp
              rw [k24] at c2; rw [k32]; omega
            rw [readExact_short _ _ this] at hr
            cases hr
        | aspa h c ps =>
          obtain ⟨_, hp, hl, h1, _⟩ := hw
          simp only [Item.hdr] at hr hel hb
          unfold readItem at hr
          rw [if_neg (by rw [hp]; decide), if_neg (by rw [hp]; decide), if_neg (by rw [hp]; decide), if_pos hp] at hr
          unfold readAspa at hr
          have e : h.length - sizeAspaFixed = ps.length := by rw [hl]; omega
          rw [if_neg (by rw [hl]; omega), if_neg (by rw [e]; simp [h1])] at hr
          have k4 : sizeAspaFixed - sizeHeader = 4 := rfl
          have k12 : sizeAspaFixed = 12 := rfl
          cases h3 : readExact (sizeAspaFixed - sizeHeader) (body.take (k - 8)) with
          | error x =>
            rw [h3] at hr
            unfold readExact at h3; split at h3 <;> simp_all
          | ok q =>
            obtain ⟨b, r2⟩ := q
            rw [h3] at hr
            simp only at hr
            have ⟨c1, c2⟩ := (readExact_ok_iff _ _ _ _).1 h3
            have : r2.length < h.length - sizeAspaFixed := by
              have : (body.take (k - 8)).length = b.length + r2.length := by rw [c1]; simp
              rw [k4] at c2; rw [k12]; omega
            rw [readExact_short _ _ this] at hr
            cases hr
        | eod0 h s =>
          obtain ⟨_, hp, hv, hl, _⟩ := hw
          simp only [Item.hdr] at hr hel hb
          unfold readItem at hr
          rw [if_neg (by rw [hp]; decide), if_neg (by rw [hp]; decide), if_neg (by rw [hp]; decide),
            if_neg (by rw [hp]; decide), if_pos hp] at hr
          unfold readEod readBody at hr
          rw [if_pos hv, if_neg (by simp [hl])] at hr
          rw [readExact_short _ _ (by have : sizeEndOfDataV0 - sizeHeader = 4 := rfl; rw [this]; have : sizeEndOfDataV0 = 12 := rfl; omega)] at hr
          cases hr
        | eod1 h s r1 r2 e =>
          obtain ⟨_, hp, hv, hl, _⟩ := hw
          simp only [Item.hdr] at hr hel hb
          unfold readItem at hr
          rw [if_neg (by rw [hp]; decide), if_neg (by rw [hp]; decide), if_neg (by rw [hp]; decide),
            if_neg (by rw [hp]; decide), if_pos hp] at hr
          unfold readEod readBody at hr
          rw [if_neg (by omega), if_pos hv, if_neg (by simp [hl])] at hr
          rw [readExact_short _ _ (by have : sizeEndOfDataV1 - sizeHeader = 16 := rfl; rw [this]; have : sizeEndOfDataV1 = 24 := rfl; omega)] at hr
          cases hr
  | ok q =>
    -- an accepted prefix would have consumed the announced length, which exceeds what is there
    exfalso
    obtain ⟨it', rest⟩ := q
    have ⟨used, hu, hl, h8, hh⟩ := readPayload_consumed _ _ _ hr
    have hk8 : 8 ≤ k := by
      have : used.length ≤ (it.encode.take k).length := by rw [hu]; simp
      simp at this; omega
    have hdec : ∃ body, it.encode = encHdr it.hdr ++ body := by
      cases it <;> simp [Item.encode, Item.hdr, List.append_assoc]
    obtain ⟨body, hb⟩ := hdec
    have hhw : it.hdr.WF := by cases it <;> exact hw.1
    have hhdr : it'.hdr = it.hdr := by
      rw [hh, List.take_take, Nat.min_eq_left hk8, hb, List.take_left' (encHdr_length _), decHdr_encHdr _ hhw]
    have hel := encode_length it hw
    have : used.length ≤ (it.encode.take k).length := by rw [hu]; simp
    simp at this
    rw [hhdr] at hl
    omega

end Rpki.Rtr
