/-
  What `Tal.decodeTal` and `CsrDer.decodeCsr` accept.
-/
import Rpki.Model.Tal
import Rpki.Model.CsrDer
namespace Rpki.Tal
open Rpki.Der Rpki.CertDer

/-- a URI of an accepted TAL is one the URI parsers accept, of the scheme it is reported under -/
def UriValid : TalUri → Prop
  | .rsync b => ∃ u, Uri.Rsync.fromBytes b = .ok u
  | .https b => (∃ u, Uri.Https.fromBytes b = .ok u) ∧ ∀ u, Uri.Rsync.fromBytes b ≠ .ok u

theorem talUri_valid (line : Bytes) (u : TalUri) (h : talUri line = some u) : UriValid u := by
  unfold talUri at h
  cases hr : Uri.Rsync.fromBytes line with
  | ok r =>
    simp only [hr, Option.some.injEq] at h
    subst h
    exact ⟨r, hr⟩
  | error e =>
    simp only [hr] at h
    cases hh : Uri.Https.fromBytes line with
    | ok r =>
      simp only [hh, Option.some.injEq] at h
      subst h
      exact ⟨⟨r, hh⟩, by intro u hu; rw [hr] at hu; cases hu⟩
    | error e' => simp [hh] at h

theorem takeUris_valid : ∀ (fuel : Nat) (b : Bytes) (acc uris : List TalUri) (rest : Bytes),
    (∀ u ∈ acc, UriValid u) → takeUris fuel b acc = some (uris, rest) → ∀ u ∈ uris, UriValid u := by
  intro fuel
  induction fuel with
  | zero => intro b acc uris rest _ h; simp [takeUris] at h
  | succ n ih =>
    intro b acc uris rest hacc h
    simp only [takeUris] at h
    cases hs : splitLine b with
    | none => simp [hs] at h
    | some p =>
      obtain ⟨line, r⟩ := p
      simp only [hs] at h
      split at h
      · simp only [Option.some.injEq, Prod.mk.injEq] at h
        obtain ⟨rfl, _⟩ := h
        intro u hu
        exact hacc u (List.mem_reverse.mp hu)
      · cases ht : talUri (stripCr line) with
        | none => simp [ht] at h
        | some u0 =>
          simp only [ht] at h
          refine ih r (u0 :: acc) uris rest ?_ h
          intro u hu
          rcases List.mem_cons.mp hu with rfl | h1
          · exact talUri_valid _ _ ht
          · exact hacc u h1

/-- **`Tal::read_named`**: every URI of an accepted TAL is a valid rsync or HTTPS URI, the key is one
`PublicKey::decode` accepts. -/
theorem decodeTal_spec (b : Bytes) (uris : List TalUri) (alg : KeyAlg) (unused : Nat) (bits : Bytes)
    (h : decodeTal b = some (uris, alg, unused, bits)) :
    (∀ u ∈ uris, UriValid u) ∧ ∃ key, decodeKey key = some (alg, unused, bits) := by
  unfold decodeTal at h
  cases h0 : skipComments b.length b with
  | none => simp [h0] at h
  | some b1 =>
    simp only [h0] at h
    cases h1 : takeUris (b1.length + 1) b1 [] with
    | none => simp [h1] at h
    | some p =>
      obtain ⟨us, rest⟩ := p
      simp only [h1] at h
      cases h2 : Xml.xmlB64Decode rest with
      | none => simp [h2] at h
      | some key =>
        simp only [h2] at h
        cases h3 : decodeKey key with
        | none => simp [h3] at h
        | some k =>
          simp only [h3, Option.map_some, Option.some.injEq, Prod.mk.injEq] at h
          obtain ⟨rfl, rfl⟩ := h
          exact ⟨takeUris_valid _ b1 [] us rest (by intro u hu; cases hu) h1, key, h3⟩

/-- `prefer_https` keeps every URI, once -/
theorem preferHttps_perm (uris : List TalUri) : (preferHttps uris).Perm uris := by
  unfold preferHttps
  have := List.filter_append_perm (fun u => match u with | TalUri.https _ => true | TalUri.rsync _ => false) uris
  refine List.Perm.trans ?_ this
  apply List.Perm.append_left
  apply List.Perm.of_eq
  apply List.filter_congr
  intro u _
  cases u <;> rfl

end Rpki.Tal

namespace Rpki.CsrDer
open Rpki.Der Rpki.CertDer

/-- **`RpkiCaCsr::decode`**: an accepted CA request carries basic constraints, key usage and a subject information
access; **`BgpsecCsr::decode`**: an extended key usage, when there, names the router purpose. -/
theorem decodeContent_profile (router : Bool) (raw sig : Bytes) (d : CsrD) (h : decodeContent router raw sig = some d) :
    (router = false → d.basicCa.isSome ∧ d.keyUsage.isSome ∧ d.sia.isSome) ∧ (router = true → d.eku ≠ some false) := by
  unfold decodeContent at h
  repeat' (split at h)
  all_goals first
    | (cases h; done)
    | (injection h with h; subst h; refine ⟨?_, ?_⟩ <;> intro hr <;> simp_all)

end Rpki.CsrDer

namespace Rpki.CsrDer
open Rpki.Der Rpki.CertDer

theorem decodeCsr_profile (router : Bool) (b : Bytes) (d : CsrD) (h : decodeCsr router b = some d) :
    (router = false → d.basicCa.isSome ∧ d.keyUsage.isSome ∧ d.sia.isSome) ∧ (router = true → d.eku ≠ some false) := by
  unfold decodeCsr at h
  cases h0 : takeCons tagSeq b with
  | none => simp [h0] at h
  | some p =>
    obtain ⟨c, rest⟩ := p
    simp only [h0] at h
    split at h
    · cases h
    · cases h1 : skipOne c with
      | none => simp [h1] at h
      | some r1 =>
        simp only [h1] at h
        generalize (if router = true then takeEcdsaAlg r1 else Option.map (fun x => x.2) (takeSigAlg r1)) = r2 at h
        cases r2 with
        | none => simp at h
        | some r2 =>
          simp only at h
          cases h3 : takeBitString r2 with
          | none => simp [h3] at h
          | some q =>
            obtain ⟨u, sig, r3⟩ := q
            simp only [h3] at h
            split at h
            · cases h
            · exact decodeContent_profile router _ sig d h

end Rpki.CsrDer
