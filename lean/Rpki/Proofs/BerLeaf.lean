/-
  The mode-parametrized readers of `Model/Ber.lean` at `ber = false` are the DER readers of `Model/Der.lean`,
  `Model/Skip.lean`, `Model/Manifest.lean` and `Model/CertDer.lean`.
-/
import Rpki.Model.Ber
import Rpki.Model.CertDer
namespace Rpki
open Rpki.Der Rpki.CertDer

theorem readLenM_false : readLenM false = readLen := by
  funext b
  unfold readLenM readLen
  simp only [Bool.false_eq_true, false_or]
  rfl

theorem readLenXM_false : readLenXM false = readLenX := by
  funext b
  unfold readLenXM readLenX
  simp only [readLenM_false]
  rfl

theorem skipLoopM_false : skipLoopM false = skipLoop := by
  funext fuel
  induction fuel with
  | zero => funext cur st; rfl
  | succ n ih =>
    funext cur st
    simp only [skipLoopM, skipLoop, readLenXM_false, ih]
    rfl

theorem skipOneM_false : skipOneM false = skipOne := by
  funext b
  unfold skipOneM skipOne
  rw [skipLoopM_false]

theorem skipAllM_false : skipAllM false = skipAll := by
  funext fuel
  induction fuel with
  | zero => funext b; rfl
  | succ n ih =>
    funext b
    simp only [skipAllM, skipAll, skipOneM_false, ih]
    rfl

theorem readLen_indef (r : Bytes) : readLen (0x80 :: r) = none := by
  simp [readLen]

theorem readLenX_indef (r : Bytes) : readLenX (0x80 :: r) = some (.indefinite, r) := rfl

theorem readLenX_def (x : Nat) (xs : Bytes) (hx : x ≠ 0x80) :
    readLenX (x :: xs) = (readLen (x :: xs)).map fun (n, r) => (Len.definite n, r) := by
  unfold readLenX
  split
  · rename_i heq; injection heq with h1 _; exact absurd h1 hx
  · rfl

theorem readLenX_nil : readLenX [] = none := rfl

theorem readTlvM_false : readTlvM false = readTlv := by
  funext b
  unfold readTlvM readTlvIM readTlv
  cases b with
  | nil => rfl
  | cons t r =>
    simp only [readLenXM_false]
    by_cases ht : t % 32 = 31
    · simp [ht]
    · simp only [ht, if_false]
      cases r with
      | nil => simp [readLenX_nil, readLen]
      | cons x xs =>
        by_cases hx : x = 0x80
        · subst hx
          simp [readLenX_indef, readLen_indef]
        · rw [readLenX_def x xs hx]
          cases readLen (x :: xs) with
          | none => rfl
          | some p =>
            obtain ⟨l, r'⟩ := p
            simp only [Option.map_some]
            split <;> rfl

theorem readTlvIM_false (b : Bytes) :
    readTlvIM false b = (readTlv b).map fun (t, c, rest) => (t, c, rest, false) := by
  have h := congrFun readTlvM_false b
  unfold readTlvM at h
  cases hi : readTlvIM false b with
  | none => rw [hi] at h; simp only [Option.map_none] at h; rw [← h]; rfl
  | some q =>
    obtain ⟨t, c, rest, i⟩ := q
    rw [hi] at h
    simp only [Option.map_some] at h
    rw [← h]
    simp only [Option.map_some, Option.some.injEq, Prod.mk.injEq, true_and]
    -- the flag: an indefinite length is refused at ber = false
    unfold readTlvIM at hi
    cases b with
    | nil => cases hi
    | cons t0 r =>
      simp only at hi
      split at hi
      · cases hi
      · split at hi
        · cases hi
        · split at hi
          · cases hi
          · injection hi with hi; simp only [Prod.mk.injEq] at hi; exact hi.2.2.2.symm
        · simp at hi

theorem takeOptConsIM_false (tag : Nat) (b : Bytes) :
    takeOptConsIM false tag b =
      (match takeOptCons tag b with | .absent => .absent | .bad => .bad | .ok c rest => .ok (c, false) rest) := by
  unfold takeOptConsIM takeOptCons
  cases b with
  | nil => rfl
  | cons t r =>
    simp only [readTlvIM_false]
    split
    · rfl
    · split
      · rfl
      · split
        · rfl
        · cases readTlv (t :: r) with
          | none => rfl
          | some q => obtain ⟨a, c, rest⟩ := q; rfl

theorem takeOptConsM_false : takeOptConsM false = takeOptCons := by
  funext tag b
  unfold takeOptConsM
  rw [takeOptConsIM_false]
  cases takeOptCons tag b <;> rfl

theorem takeOptPrimM_false : takeOptPrimM false = takeOptPrim := by
  funext tag b
  unfold takeOptPrimM takeOptPrim
  cases b with
  | nil => rfl
  | cons t r =>
    simp only [readTlvM_false, Bool.false_eq_true, false_and, if_false]
    rfl

theorem takeConsM_false : takeConsM false = takeCons := by
  funext tag b
  unfold takeConsM takeCons
  rw [takeOptConsM_false]
  rfl

theorem takePrimM_false : takePrimM false = takePrim := by
  funext tag b
  unfold takePrimM takePrim
  rw [takeOptPrimM_false]
  rfl

theorem bitStringTakeM_false : Manifest.bitStringTakeM false = Manifest.bitStringTake := by
  funext c
  unfold Manifest.bitStringTakeM Manifest.bitStringTake
  simp only [Bool.not_false, and_true]
  rfl

theorem takeOptBoolM_false : takeOptBoolM false = takeOptBool := by
  funext b
  unfold takeOptBoolM takeOptBool
  rw [takeOptPrimM_false]
  cases takeOptPrim tagBool b with
  | absent => rfl
  | bad => rfl
  | ok c r =>
    simp only [Bool.false_eq_true, if_false]
    match c with
    | [] => simp
    | [x] =>
      by_cases h0 : x = 0
      · subst h0; simp
      · by_cases h1 : x = 255
        · subst h1; simp
        · simp [h0, h1]
    | x :: y :: rest => simp

end Rpki
