import Rpki.Proofs.RtrPduLemmas
namespace Rpki.Rtr
open Rpki.Consts

/-- what `Payload::new` / `EndOfData::new` produce, and more: any in-range field values -/
def Item.WF : Item → Prop
  | .v4 h f pl ml z p a => h.WF ∧ h.pdu = pduIpv4Prefix ∧ h.length = sizeIpv4Prefix ∧
      f < 256 ∧ pl < 256 ∧ ml < 256 ∧ z < 256 ∧ p < 2 ^ 32 ∧ a < 2 ^ 32
  | .v6 h f pl ml z p a => h.WF ∧ h.pdu = pduIpv6Prefix ∧ h.length = sizeIpv6Prefix ∧
      f < 256 ∧ pl < 256 ∧ ml < 256 ∧ z < 256 ∧ p < 2 ^ 128 ∧ a < 2 ^ 32
  | .key h ski a info => h.WF ∧ h.pdu = pduRouterKey ∧ h.length = sizeRouterKeyFixed + info.length ∧
      ski.length = 20 ∧ a < 2 ^ 32
  | .aspa h c ps => h.WF ∧ h.pdu = pduAspa ∧ h.length = sizeAspaFixed + ps.length ∧
      ps.length % 4 = 0 ∧ c < 2 ^ 32
  | .eod0 h s => h.WF ∧ h.pdu = pduEndOfData ∧ h.version = 0 ∧ h.length = sizeEndOfDataV0 ∧ s < 2 ^ 32
  | .eod1 h s r1 r2 e => h.WF ∧ h.pdu = pduEndOfData ∧ (h.version = 1 ∨ h.version = 2) ∧
      h.length = sizeEndOfDataV1 ∧ s < 2 ^ 32 ∧ r1 < 2 ^ 32 ∧ r2 < 2 ^ 32 ∧ e < 2 ^ 32

theorem unbe_be4 (n : Nat) (h : n < 2 ^ 32) : unbe (be 4 n) = n := unbe_be_lt 4 n (by simpa using h)

/-- slices of a concatenation at known offsets -/
theorem slice_mid (a m c : Bytes) (i k : Nat) (ha : a.length = i) (hm : m.length = k) :
    ((a ++ (m ++ c)).drop i).take k = m := by
  rw [List.drop_left' ha, List.take_left' hm]

theorem slice_last (a m : Bytes) (i k : Nat) (ha : a.length = i) (hm : m.length = k) :
    ((a ++ m).drop i).take k = m := by
  rw [List.drop_left' ha, List.take_of_length_le (by omega)]

theorem readBody_ok (h : Hdr) (size : Nat) (b rest : Bytes) (hl : h.length = size) (hb : b.length = size - sizeHeader) :
    readBody h size (b ++ rest) = .ok (b, rest) := by
  unfold readBody
  rw [if_neg (by simp [hl]), readExact_append _ _ _ hb]

theorem readV4_ok (h : Hdr) (f pl ml z p a : Nat) (rest : Bytes) (hl : h.length = sizeIpv4Prefix)
    (hp : p < 2 ^ 32) (ha : a < 2 ^ 32) :
    readV4 h (([f, pl, ml, z] ++ be 4 p ++ be 4 a) ++ rest) = .ok (.v4 h f pl ml z p a, rest) := by
  unfold readV4
  rw [readBody_ok h _ _ rest hl (by simp [be_length]; rfl)]
  simp only
  have e1 : (([f, pl, ml, z] ++ be 4 p ++ be 4 a).drop 4).take 4 = be 4 p := by
    rw [List.append_assoc]; exact slice_mid _ _ _ 4 4 rfl (be_length 4 p)
  have e2 : (([f, pl, ml, z] ++ be 4 p ++ be 4 a).drop 8).take 4 = be 4 a :=
    slice_last _ _ 8 4 (by simp [be_length]) (be_length 4 a)
  rw [e1, e2, unbe_be4 p hp, unbe_be4 a ha]
  simp [List.append_assoc]

theorem readV6_ok (h : Hdr) (f pl ml z p a : Nat) (rest : Bytes) (hl : h.length = sizeIpv6Prefix)
    (hp : p < 2 ^ 128) (ha : a < 2 ^ 32) :
    readV6 h (([f, pl, ml, z] ++ be 16 p ++ be 4 a) ++ rest) = .ok (.v6 h f pl ml z p a, rest) := by
  unfold readV6
  rw [readBody_ok h _ _ rest hl (by simp [be_length]; rfl)]
  simp only
  have e1 : (([f, pl, ml, z] ++ be 16 p ++ be 4 a).drop 4).take 16 = be 16 p := by
    rw [List.append_assoc]; exact slice_mid _ _ _ 4 16 rfl (be_length 16 p)
  have e2 : (([f, pl, ml, z] ++ be 16 p ++ be 4 a).drop 20).take 4 = be 4 a :=
    slice_last _ _ 20 4 (by simp [be_length]) (be_length 4 a)
  rw [e1, e2, unbe_be_lt 16 p (by simpa using hp), unbe_be4 a ha]
  simp [List.append_assoc]

theorem readKey_ok (h : Hdr) (ski : Bytes) (a : Nat) (info rest : Bytes)
    (hl : h.length = sizeRouterKeyFixed + info.length) (hs : ski.length = 20) (ha : a < 2 ^ 32) :
    readKey h ((ski ++ be 4 a) ++ (info ++ rest)) = .ok (.key h ski a info, rest) := by
  unfold readKey
  rw [if_neg (by rw [hl]; omega)]
  have : sizeRouterKeyFixed - sizeHeader = 24 := rfl
  rw [this, readExact_append _ _ 24 (by simp [be_length, hs])]
  simp only
  have : h.length - sizeRouterKeyFixed = info.length := by rw [hl]; omega
  rw [this, readExact_append _ _ _ rfl]
  simp only
  rw [List.take_left' hs, slice_last _ _ 20 4 hs (be_length 4 a), unbe_be4 a ha]

theorem readAspa_ok (h : Hdr) (c : Nat) (ps rest : Bytes)
    (hl : h.length = sizeAspaFixed + ps.length) (hm : ps.length % 4 = 0) (hc : c < 2 ^ 32) :
    readAspa h (be 4 c ++ (ps ++ rest)) = .ok (.aspa h c ps, rest) := by
  unfold readAspa
  have e : h.length - sizeAspaFixed = ps.length := by rw [hl]; omega
  rw [if_neg (by rw [hl]; omega), if_neg (by rw [e]; simp [hm])]
  have : sizeAspaFixed - sizeHeader = 4 := rfl
  rw [this, readExact_append _ _ 4 (be_length 4 c)]
  simp only
  rw [e, readExact_append _ _ _ rfl]
  simp only
  rw [unbe_be4 c hc]

theorem readEod0_ok (h : Hdr) (s : Nat) (rest : Bytes) (hv : h.version = 0)
    (hl : h.length = sizeEndOfDataV0) (hs : s < 2 ^ 32) :
    readEod h (be 4 s ++ rest) = .ok (.eod0 h s, rest) := by
  unfold readEod
  rw [if_pos hv, readBody_ok h _ _ rest hl (by rw [be_length]; rfl)]
  simp only
  rw [unbe_be4 s hs]

theorem readEod1_ok (h : Hdr) (s r1 r2 e : Nat) (rest : Bytes) (hv : h.version = 1 ∨ h.version = 2)
    (hl : h.length = sizeEndOfDataV1) (hs : s < 2 ^ 32) (h1 : r1 < 2 ^ 32) (h2 : r2 < 2 ^ 32) (h3 : e < 2 ^ 32) :
    readEod h ((be 4 s ++ be 4 r1 ++ be 4 r2 ++ be 4 e) ++ rest) = .ok (.eod1 h s r1 r2 e, rest) := by
  unfold readEod
  rw [if_neg (by omega), if_pos hv, readBody_ok h _ _ rest hl (by simp [be_length]; rfl)]
  simp only
  have e0 : (be 4 s ++ be 4 r1 ++ be 4 r2 ++ be 4 e).take 4 = be 4 s := by
    rw [List.append_assoc, List.append_assoc]; exact List.take_left' (be_length 4 s)
  have e1 : ((be 4 s ++ be 4 r1 ++ be 4 r2 ++ be 4 e).drop 4).take 4 = be 4 r1 := by
    rw [List.append_assoc, List.append_assoc]; exact slice_mid _ _ _ 4 4 (be_length 4 s) (be_length 4 r1)
  have e2 : ((be 4 s ++ be 4 r1 ++ be 4 r2 ++ be 4 e).drop 8).take 4 = be 4 r2 := by
    rw [List.append_assoc]; exact slice_mid _ _ _ 8 4 (by simp [be_length]) (be_length 4 r2)
  have e3 : ((be 4 s ++ be 4 r1 ++ be 4 r2 ++ be 4 e).drop 12).take 4 = be 4 e :=
    slice_last _ _ 12 4 (by simp [be_length]) (be_length 4 e)
  rw [e0, e1, e2, e3, unbe_be4 s hs, unbe_be4 r1 h1, unbe_be4 r2 h2, unbe_be4 e h3]

/-- Every payload PDU (and End of Data) written and read back yields the same PDU, and the
reader stops exactly at its end. -/
theorem readPayload_encode (it : Item) (hw : it.WF) (rest : Bytes) :
    readPayload (it.encode ++ rest) = .ok (it, rest) := by
  cases it with
  | v4 h f pl ml z p a =>
    obtain ⟨hh, hp, hl, _, _, _, _, h5, h6⟩ := hw
    unfold readPayload Item.encode
    rw [List.append_assoc, List.append_assoc, List.append_assoc, readHdr_encHdr h hh]
    simp only
    unfold readItem
    rw [if_pos hp]
    have := readV4_ok h f pl ml z p a rest hl h5 h6
    simp only [List.append_assoc] at this ⊢
    exact this
  | v6 h f pl ml z p a =>
    obtain ⟨hh, hp, hl, _, _, _, _, h5, h6⟩ := hw
    unfold readPayload Item.encode
    rw [List.append_assoc, List.append_assoc, List.append_assoc, readHdr_encHdr h hh]
    simp only
    unfold readItem
    rw [if_neg (by rw [hp]; decide), if_pos hp]
    have := readV6_ok h f pl ml z p a rest hl h5 h6
    simp only [List.append_assoc] at this ⊢
    exact this
  | key h ski a info =>
    obtain ⟨hh, hp, hl, h1, h2⟩ := hw
    unfold readPayload Item.encode
    rw [List.append_assoc, List.append_assoc, List.append_assoc, readHdr_encHdr h hh]
    simp only
    unfold readItem
    rw [if_neg (by rw [hp]; decide), if_neg (by rw [hp]; decide), if_pos hp]
    have := readKey_ok h ski a info rest hl h1 h2
    simp only [List.append_assoc] at this ⊢
    exact this
  | aspa h c ps =>
    obtain ⟨hh, hp, hl, h1, h2⟩ := hw
    unfold readPayload Item.encode
    rw [List.append_assoc, List.append_assoc, readHdr_encHdr h hh]
    simp only
    unfold readItem
    rw [if_neg (by rw [hp]; decide), if_neg (by rw [hp]; decide), if_neg (by rw [hp]; decide), if_pos hp]
    exact readAspa_ok h c ps rest hl h1 h2
  | eod0 h s =>
    obtain ⟨hh, hp, hv, hl, h1⟩ := hw
    unfold readPayload Item.encode
    rw [List.append_assoc, readHdr_encHdr h hh]
    simp only
    unfold readItem
    rw [if_neg (by rw [hp]; decide), if_neg (by rw [hp]; decide), if_neg (by rw [hp]; decide),
      if_neg (by rw [hp]; decide), if_pos hp]
    exact readEod0_ok h s rest hv hl h1
  | eod1 h s r1 r2 e =>
    obtain ⟨hh, hp, hv, hl, h1, h2, h3, h4⟩ := hw
    unfold readPayload Item.encode
    rw [List.append_assoc, List.append_assoc, List.append_assoc, List.append_assoc, readHdr_encHdr h hh]
    simp only
    unfold readItem
    rw [if_neg (by rw [hp]; decide), if_neg (by rw [hp]; decide), if_neg (by rw [hp]; decide),
      if_neg (by rw [hp]; decide), if_pos hp]
    have := readEod1_ok h s r1 r2 e rest hv hl h1 h2 h3 h4
    simp only [List.append_assoc] at this ⊢
    exact this

/-- The length field equals the number of bytes written. -/
theorem encode_length (it : Item) (hw : it.WF) : it.encode.length = it.hdr.length := by
  cases it with
  | v4 h f pl ml z p a => simp [Item.encode, Item.hdr, encHdr_length, be_length, hw.2.2.1, sizeIpv4Prefix]
  | v6 h f pl ml z p a => simp [Item.encode, Item.hdr, encHdr_length, be_length, hw.2.2.1, sizeIpv6Prefix]
  | key h ski a info =>
    simp only [Item.encode, Item.hdr, List.length_append, encHdr_length, be_length, hw.2.2.1, hw.2.2.2.1,
      sizeRouterKeyFixed] <;> omega
  | aspa h c ps =>
    simp only [Item.encode, Item.hdr, List.length_append, encHdr_length, be_length, hw.2.2.1, sizeAspaFixed] <;> omega
  | eod0 h s => simp [Item.encode, Item.hdr, encHdr_length, be_length, hw.2.2.2.1, sizeEndOfDataV0]
  | eod1 h s r1 r2 e => simp [Item.encode, Item.hdr, encHdr_length, be_length, hw.2.2.2.1, sizeEndOfDataV1]

end Rpki.Rtr
