/-
  The serde_json reader model (`Rpki/Model/JsonRead.lean`) reads what the writer model
  (`Rpki/Model/JsonText.lean`) writes: for every tree, and for every well-formed file.
-/
import Rpki.Model.JsonRead
import Rpki.Proofs.JsonTextTyped
namespace Rpki.JsonRead
open Rpki.Slurm Rpki.JsonText Rpki.ResText

theorem skipWs_cons (c : Nat) (r : List Nat) (h : isWs c = false) : skipWs (c :: r) = c :: r := by
  simp [skipWs, h]

/-! ### strings -/

theorem readStr_step (f c : Nat) (r acc : List Nat) :
    readStr (f + 1) (escByte c ++ r) acc = readStr f r (c :: acc) := by
  unfold escByte
  by_cases h1 : c = 34
  · subst h1; simp [readStr]
  by_cases h2 : c = 92
  · subst h2; simp [readStr]
  by_cases h3 : c = 8
  · subst h3; simp [readStr]
  by_cases h4 : c = 12
  · subst h4; simp [readStr]
  by_cases h5 : c = 10
  · subst h5; simp [readStr]
  by_cases h6 : c = 13
  · subst h6; simp [readStr]
  by_cases h7 : c = 9
  · subst h7; simp [readStr]
  by_cases h8 : c < 32
  · have hv : c / 16 * 16 + c % 16 = c := by omega
    have hx := JsonText.hexVal_hexDigit (c / 16) (by omega)
    have hy := JsonText.hexVal_hexDigit (c % 16) (by omega)
    have h0 : hexVal 48 = some 0 := by decide
    have hu : readU (48 :: 48 :: hexDigit (c / 16) :: hexDigit (c % 16) :: r) = some (c, r) := by
      simp only [readU, hex4, h0, hx, hy]
      have : 0 * 4096 + 0 * 256 + c / 16 * 16 + c % 16 = c := by
        simp only [Nat.zero_mul, Nat.zero_add]; exact hv
      simp only [this]
      have a1 : ¬ (56320 ≤ c ∧ c ≤ 57343) := by omega
      have a2 : ¬ (55296 ≤ c ∧ c ≤ 56319) := by omega
      simp only [a1, a2, if_false]
    have hutf : utf8 c = [c] := by unfold utf8; simp [show c < 128 by omega]
    simp only [h1, h2, h3, h4, h5, h6, h7, h8, if_false, if_true, List.cons_append, List.nil_append]
    rw [readStr]
    simp only [Nat.reduceEqDiff, if_false, if_true, hu, hutf, List.reverse_cons, List.reverse_nil,
      List.nil_append, List.cons_append]
  · simp only [h1, h2, h3, h4, h5, h6, h7, h8, if_false, List.cons_append, List.nil_append]
    simp [readStr, h1, h2, h8]

theorem readStr_escape : ∀ (s : List Nat) (f : Nat) (rest acc : List Nat), s.length < f →
    readStr f (escape s ++ 34 :: rest) acc = some (acc.reverse ++ s, rest) := by
  intro s
  induction s with
  | nil =>
    intro f rest acc hf
    cases f with
    | zero => omega
    | succ f => simp [escape, readStr]
  | cons c r ih =>
    intro f rest acc hf
    cases f with
    | zero => omega
    | succ f =>
      simp only [escape, List.append_assoc]
      rw [readStr_step, ih f rest (c :: acc) (by simp at hf; omega)]
      simp

theorem length_le_escape : ∀ (s : List Nat), s.length ≤ (escape s).length := by
  intro s
  induction s with
  | nil => simp [escape]
  | cons c r ih =>
    have : 1 ≤ (escByte c).length := by unfold escByte; (repeat' split) <;> simp
    simp only [escape, List.length_cons, List.length_append]
    omega

theorem readStr_quote (s rest : List Nat) :
    readStr ((escape s ++ 34 :: rest).length + 1) (escape s ++ 34 :: rest) [] = some (s, rest) := by
  rw [readStr_escape]
  · simp
  · have := length_le_escape s
    simp only [List.length_append, List.length_cons]
    omega

/-! ### numbers -/

/-- what follows a value inside a text the writer made: nothing, a comma, or a closing bracket / brace -/
def SepHead (rest : List Nat) : Prop :=
  rest = [] ∨ ∃ c r, rest = c :: r ∧ (c = 44 ∨ c = 93 ∨ c = 125)

theorem sep_noDigit (rest : List Nat) (h : SepHead rest) : JsonText.NoDigitHead rest := by
  intro c r e
  rcases h with h | ⟨c', r', e', hc⟩
  · rw [h] at e; cases e
  · rw [e'] at e; cases e
    rcases hc with rfl | rfl | rfl <;> decide

theorem readFrac_sep (rest : List Nat) (h : SepHead rest) : readFrac rest = some (false, rest) := by
  rcases h with h | ⟨c, r, e, hc⟩
  · subst h; rfl
  · subst e
    unfold readFrac
    split
    · next r2 heq => cases heq; omega
    · rfl

theorem readExp_sep (rest : List Nat) (h : SepHead rest) : readExp rest = some (false, rest) := by
  rcases h with h | ⟨c, r, e, hc⟩
  · subst h; rfl
  · subst e
    have : ¬ (c = 101 ∨ c = 69) := by omega
    simp [readExp, this]

theorem readNum_decimal (n : Nat) (rest : List Nat) (hr : SepHead rest) :
    readNum (decimal n ++ rest) = some (some n, rest) := by
  obtain ⟨c, r, e, h1, h2, h0⟩ := decimal_head n
  have hd : (decimal n).all isDigit = true := decimal_all_isDigit n
  have htw := JsonText.takeWhile_digits (decimal n) rest hd (sep_noDigit rest hr)
  have hsm : stripMinus (decimal n ++ rest) = (false, decimal n ++ rest) := by
    rw [e]; simp only [List.cons_append]
    unfold stripMinus
    split
    · next r' heq => cases heq; omega
    · rfl
  unfold readNum
  simp only [hsm, digits, htw]
  have hnil : ¬ decimal n = [] := by rw [e]; simp
  have hlead : ¬ ((decimal n).length > 1 ∧ (decimal n).head? = some 48) := by
    rintro ⟨ha, hb'⟩
    by_cases hz : n = 0
    · subst hz; rw [decimal_lt10 0 (by omega)] at ha; simp at ha
    · exact decimal_no_leading_zero n (by omega) hb'
  have hdrop : (decimal n ++ rest).drop (decimal n).length = rest := by simp
  simp only [hnil, hlead, if_false, hdrop, readFrac_sep rest hr, readExp_sep rest hr, decimal_value]
  simp

/-! ### keys -/

theorem keyOf_keyName (k : Key) : keyOf (keyName k) = k := by
  simp [keyOf, JsonText.keyOfName_keyName]

/-! ### values -/

def RenderHead (c : Nat) : Prop :=
  c = 110 ∨ c = 116 ∨ c = 102 ∨ c = 34 ∨ c = 91 ∨ c = 123 ∨ (48 ≤ c ∧ c ≤ 57)

theorem RenderHead.ws {c : Nat} (h : RenderHead c) : isWs c = false := by
  unfold RenderHead at h
  simp [isWs]; omega

theorem render_head (j : Json) : ∃ c t, render j = c :: t ∧ RenderHead c := by
  cases j with
  | null => simp only [render]; exact ⟨_, _, rfl, by simp [RenderHead]⟩
  | bool b => cases b <;> (simp only [render]; exact ⟨_, _, rfl, by simp [RenderHead]⟩)
  | num n =>
    obtain ⟨c, r, e, h1, h2, _⟩ := decimal_head n
    exact ⟨c, r, by simp [render, e], by simp [RenderHead]; omega⟩
  | str s => simp only [render, quote]; exact ⟨_, _, rfl, by simp [RenderHead]⟩
  | pfx p => simp only [render, quote]; exact ⟨_, _, rfl, by simp [RenderHead]⟩
  | bytes b => simp only [render, quote]; exact ⟨_, _, rfl, by simp [RenderHead]⟩
  | arr l => simp only [render]; exact ⟨_, _, rfl, by simp [RenderHead]⟩
  | obj l => simp only [render]; exact ⟨_, _, rfl, by simp [RenderHead]⟩

theorem readVal_quote (f : Nat) (s rest : List Nat) :
    readVal (f + 1) (quote s ++ rest) = some (.str s, rest) := by
  simp only [quote, List.cons_append, List.append_assoc, List.nil_append, readVal]
  rw [skipWs_cons 34 _ (by decide)]
  simp only [show ¬ (34 = 110) by decide, show ¬ (34 = 116) by decide, show ¬ (34 = 102) by decide, if_false,
    if_true, readStr_quote, Option.map_some]

theorem readVal_num (f n : Nat) (rest : List Nat) (hr : SepHead rest) :
    readVal (f + 1) (decimal n ++ rest) = some (.num n, rest) := by
  obtain ⟨c, r, e, h1, h2, _⟩ := decimal_head n
  have hn := readNum_decimal n rest hr
  rw [e] at hn ⊢
  simp only [List.cons_append] at hn ⊢
  simp only [readVal]
  rw [skipWs_cons c _ (by simp [isWs]; omega)]
  have hc : isDigit c = true := by simp [isDigit]; omega
  simp only [show ¬ c = 110 by omega, show ¬ c = 116 by omega, show ¬ c = 102 by omega, show ¬ c = 34 by omega,
    show ¬ c = 91 by omega, show ¬ c = 123 by omega, if_false, hc, or_true, if_true, hn, Option.map_some]

theorem sep44 (r : List Nat) : SepHead (44 :: r) := Or.inr ⟨44, r, rfl, Or.inl rfl⟩
theorem sep93 (r : List Nat) : SepHead (93 :: r) := Or.inr ⟨93, r, rfl, Or.inr (Or.inl rfl)⟩
theorem sep125 (r : List Nat) : SepHead (125 :: r) := Or.inr ⟨125, r, rfl, Or.inr (Or.inr rfl)⟩

mutual
theorem readVal_render : ∀ (j : Json) (f : Nat) (rest : List Nat), (render j).length ≤ f → SepHead rest →
    readVal f (render j ++ rest) = some (erase j, rest)
  | .null, f, rest, hf, _ => by
    cases f with
    | zero => simp [render] at hf
    | succ f => simp [render, readVal, skipWs, isWs, dropPrefix, erase]
  | .bool true, f, rest, hf, _ => by
    cases f with
    | zero => simp [render] at hf
    | succ f => simp [render, readVal, skipWs, isWs, dropPrefix, erase]
  | .bool false, f, rest, hf, _ => by
    cases f with
    | zero => simp [render] at hf
    | succ f => simp [render, readVal, skipWs, isWs, dropPrefix, erase]
  | .num n, f, rest, hf, hr => by
    cases f with
    | zero =>
      obtain ⟨c, r, e, _⟩ := decimal_head n
      simp [render, e] at hf
    | succ f => simp only [render, erase]; exact readVal_num f n rest hr
  | .str s, f, rest, hf, _ => by
    cases f with
    | zero => simp [render, quote] at hf
    | succ f => simp only [render, erase]; exact readVal_quote f s rest
  | .pfx p, f, rest, hf, _ => by
    cases f with
    | zero => simp [render, quote] at hf
    | succ f => simp only [render, erase]; exact readVal_quote f _ rest
  | .bytes b, f, rest, hf, _ => by
    cases f with
    | zero => simp [render, quote] at hf
    | succ f => simp only [render, erase]; exact readVal_quote f _ rest
  | .arr l, f, rest, hf, _ => by
    cases f with
    | zero => simp [render] at hf
    | succ f =>
      cases l with
      | nil => simp [render, renderArr, readVal, skipWs, isWs, erase, eraseArr]
      | cons x xs =>
        have hlen : (renderArr (x :: xs)).length ≤ f := by simp [render] at hf; omega
        have hp := readElems_render (x :: xs) (by simp) f rest [] hlen
        obtain ⟨c, t, e, hc⟩ := render_head x
        have hh : ∃ t', renderArr (x :: xs) ++ rest = c :: t' := by
          cases xs with
          | nil => simp only [renderArr, e, List.cons_append, List.append_assoc]; exact ⟨_, rfl⟩
          | cons y ys => simp only [renderArr, e, List.cons_append, List.append_assoc]; exact ⟨_, rfl⟩
        obtain ⟨t', et⟩ := hh
        simp only [render, List.cons_append, readVal]
        rw [skipWs_cons 91 _ (by decide)]
        simp only [show ¬ (91 = 110) by decide, show ¬ (91 = 116) by decide, show ¬ (91 = 102) by decide,
          show ¬ (91 = 34) by decide, if_false, if_true]
        rw [et] at hp ⊢
        rw [skipWs_cons c _ hc.ws]
        have h93 : c ≠ 93 := by unfold RenderHead at hc; omega
        split
        · next r' heq => cases heq; exact absurd rfl h93
        · simp [hp, erase]
  | .obj l, f, rest, hf, _ => by
    cases f with
    | zero => simp [render] at hf
    | succ f =>
      cases l with
      | nil => simp [render, renderObj, readVal, skipWs, isWs, erase, eraseObj]
      | cons x xs =>
        have hlen : (renderObj (x :: xs)).length ≤ f := by simp [render] at hf; omega
        have hp := readMembers_render (x :: xs) (by simp) f rest [] hlen
        have hh : ∃ t', renderObj (x :: xs) ++ rest = 34 :: t' := by
          obtain ⟨k, v⟩ := x
          cases xs with
          | nil => simp only [renderObj, quote, List.cons_append, List.append_assoc]; exact ⟨_, rfl⟩
          | cons y ys => simp only [renderObj, quote, List.cons_append, List.append_assoc]; exact ⟨_, rfl⟩
        obtain ⟨t', et⟩ := hh
        simp only [render, List.cons_append, readVal]
        rw [skipWs_cons 123 _ (by decide)]
        simp only [show ¬ (123 = 110) by decide, show ¬ (123 = 116) by decide, show ¬ (123 = 102) by decide,
          show ¬ (123 = 34) by decide, show ¬ (123 = 91) by decide, if_false, if_true]
        rw [et] at hp ⊢
        rw [skipWs_cons 34 _ (by decide)]
        split
        · next r' heq => cases heq
        · simp [hp, erase]
theorem readElems_render : ∀ (l : List Json) (_ : l ≠ []) (f : Nat) (rest : List Nat) (acc : List Json),
    (renderArr l).length ≤ f →
    readElems f (renderArr l ++ rest) acc = some (acc.reverse ++ eraseArr l, rest)
  | [], hne, _, _, _, _ => absurd rfl hne
  | [x], _, f, rest, acc, hf => by
    cases f with
    | zero => simp [renderArr] at hf
    | succ f =>
      have hx := readVal_render x f (93 :: rest) (by simp [renderArr] at hf; omega) (sep93 rest)
      simp only [renderArr, List.append_assoc, List.cons_append, List.nil_append, readElems, hx]
      rw [skipWs_cons 93 _ (by decide)]
      simp [eraseArr]
  | x :: y :: r, _, f, rest, acc, hf => by
    cases f with
    | zero => simp [renderArr] at hf
    | succ f =>
      have hl : (render x).length + 1 + (renderArr (y :: r)).length ≤ f + 1 := by
        simp [renderArr] at hf; omega
      have hx := readVal_render x f (44 :: (renderArr (y :: r) ++ rest)) (by omega) (sep44 _)
      have hr := readElems_render (y :: r) (by simp) f rest (erase x :: acc) (by omega)
      simp only [renderArr, List.append_assoc, List.cons_append, readElems, hx]
      rw [skipWs_cons 44 _ (by decide)]
      simp only [hr]
      simp [eraseArr]
theorem readMembers_render : ∀ (l : List (Key × Json)) (_ : l ≠ []) (f : Nat) (rest : List Nat)
    (acc : List (Key × Json)), (renderObj l).length ≤ f →
    readMembers f (renderObj l ++ rest) acc = some (acc.reverse ++ eraseObj l, rest)
  | [], hne, _, _, _, _ => absurd rfl hne
  | [(k, v)], _, f, rest, acc, hf => by
    cases f with
    | zero => simp [renderObj] at hf
    | succ f =>
      have hv := readVal_render v f (125 :: rest) (by simp [renderObj, quote] at hf; omega) (sep125 rest)
      simp only [renderObj, quote, List.append_assoc, List.cons_append, List.nil_append, readMembers]
      rw [skipWs_cons 34 _ (by decide)]
      simp only [readStr_quote]
      rw [skipWs_cons 58 _ (by decide)]
      simp only [hv]
      rw [skipWs_cons 125 _ (by decide)]
      simp [eraseObj, keyOf_keyName]
  | (k, v) :: y :: r, _, f, rest, acc, hf => by
    cases f with
    | zero => simp [renderObj] at hf
    | succ f =>
      have hl : (render v).length + 1 + (renderObj (y :: r)).length ≤ f := by
        simp [renderObj, quote] at hf; omega
      have hv := readVal_render v f (44 :: (renderObj (y :: r) ++ rest)) (by omega) (sep44 _)
      have hr := readMembers_render (y :: r) (by simp) f rest ((k, erase v) :: acc) (by omega)
      simp only [renderObj, quote, List.append_assoc, List.cons_append, List.nil_append, readMembers]
      rw [skipWs_cons 34 _ (by decide)]
      simp only [readStr_quote]
      rw [skipWs_cons 58 _ (by decide)]
      simp only [hv]
      rw [skipWs_cons 44 _ (by decide)]
      simp only [keyOf_keyName, hr]
      simp [eraseObj]
end

/-- the reader model gives back the tree a text was written from -/
theorem readText_render (j : Json) : readText (render j) = some (erase j) := by
  unfold readText
  have := readVal_render j ((render j).length + 1) [] (by omega) (Or.inl rfl)
  simp only [List.append_nil] at this
  rw [this]
  simp [skipWs]

/-- **`from_str` after `to_string`.** -/
theorem readFile_fileText (f : SlurmFile) (hw : f.WF) (ht : FileTextWF f) :
    readFile (fileText f) = some f := by
  unfold readFile fileText
  rw [readText_render]
  simp only [Option.bind_some, file_retype_erase f ht]
  exact SlurmFile.roundtrip f hw

end Rpki.JsonRead
