import Rpki.Model.Chain
namespace Rpki.Chain
open Rpki.Consts

/-- `x` is in the set a chain denotes -/
def mem (c : List Blk) (x : Nat) : Prop := ∃ b ∈ c, b.lo ≤ x ∧ x ≤ b.hi

/-- canonical form: every block has lower ≤ upper ≤ M; blocks ascend, are disjoint and not adjacent -/
def Canon (M : Nat) (c : List Blk) : Prop :=
  (∀ b ∈ c, b.lo ≤ b.hi ∧ b.hi ≤ M) ∧ c.Pairwise (fun a b => a.hi + 1 < b.lo)

theorem canon_nil (M : Nat) : Canon M [] := ⟨by simp, List.Pairwise.nil⟩

theorem canon_cons {M : Nat} {b : Blk} {c : List Blk} :
    Canon M (b :: c) ↔ (b.lo ≤ b.hi ∧ b.hi ≤ M) ∧ (∀ x ∈ c, b.hi + 1 < x.lo) ∧ Canon M c := by
  unfold Canon
  simp only [List.mem_cons, forall_eq_or_imp, List.pairwise_cons]
  constructor
  · rintro ⟨⟨h1, h2⟩, h3, h4⟩; exact ⟨h1, h3, h2, h4⟩
  · rintro ⟨h1, h3, h2, h4⟩; exact ⟨⟨h1, h2⟩, h3, h4⟩

theorem mem_nil (x : Nat) : ¬ mem [] x := by unfold mem; simp

theorem mem_cons {b : Blk} {c : List Blk} {x : Nat} : mem (b :: c) x ↔ (b.lo ≤ x ∧ x ≤ b.hi) ∨ mem c x := by
  unfold mem; simp

/-- in a canonical chain everything in the tail lies strictly above the head block -/
theorem canon_tail_above {M : Nat} {b : Blk} {c : List Blk} (h : Canon M (b :: c)) {x : Nat} (hx : mem c x) :
    b.hi + 1 < x := by
  obtain ⟨_, h2, h3⟩ := canon_cons.1 h
  obtain ⟨y, hy, hy1, _⟩ := hx
  have := h2 y hy
  omega

/-- `contains_item` agrees with membership in the denoted set. -/
theorem containsItem_iff' (M : Nat) (c : List Blk) (hc : Canon M c) (x : Nat) :
    containsItem c x = true ↔ mem c x := by
  induction c with
  | nil => simp [containsItem, mem_nil]
  | cons b bs ih =>
    obtain ⟨h1, h2, h3⟩ := canon_cons.1 hc
    rw [containsItem, mem_cons]
    by_cases hgt : b.lo > x
    · simp only [hgt, if_true]
      constructor
      · intro h; cases h
      · rintro (h | h)
        · omega
        · have := canon_tail_above hc h; omega
    · simp only [hgt, if_false]
      by_cases hin : b.lo ≤ x ∧ x ≤ b.hi
      · simp [hin]
      · simp only [hin, if_false, false_or]
        exact ih h3

/-- Two canonical chains that denote the same set are the same list: the representation is unique. -/
theorem canon_unique' (M : Nat) : ∀ (a b : List Blk), Canon M a → Canon M b → (∀ x, mem a x ↔ mem b x) → a = b := by
  intro a
  induction a with
  | nil =>
    intro b _ hb h
    cases b with
    | nil => rfl
    | cons y ys =>
      exfalso
      have hy := (canon_cons.1 hb).1
      exact mem_nil y.lo ((h y.lo).2 (mem_cons.2 (Or.inl ⟨Nat.le_refl _, hy.1⟩)))
  | cons x xs ih =>
    intro b ha hb h
    cases b with
    | nil =>
      exfalso
      have hx := (canon_cons.1 ha).1
      exact mem_nil x.lo ((h x.lo).1 (mem_cons.2 (Or.inl ⟨Nat.le_refl _, hx.1⟩)))
    | cons y ys =>
      obtain ⟨hx1, hx2, hx3⟩ := canon_cons.1 ha
      obtain ⟨hy1, hy2, hy3⟩ := canon_cons.1 hb
      -- the smallest element of both sets is the head's lower bound
      have hlo : x.lo = y.lo := by
        have m1 : mem (y :: ys) x.lo := (h x.lo).1 (mem_cons.2 (Or.inl ⟨Nat.le_refl _, hx1.1⟩))
        have m2 : mem (x :: xs) y.lo := (h y.lo).2 (mem_cons.2 (Or.inl ⟨Nat.le_refl _, hy1.1⟩))
        have l1 : y.lo ≤ x.lo := by
          rcases mem_cons.1 m1 with hh | hh
          · exact hh.1
          · have := canon_tail_above hb hh; omega
        have l2 : x.lo ≤ y.lo := by
          rcases mem_cons.1 m2 with hh | hh
          · exact hh.1
          · have := canon_tail_above ha hh; omega
        omega
      -- the first gap is at the head's upper bound + 1
      have hhi : x.hi = y.hi := by
        -- x.hi is in a, so in b; it is in y (else above y.hi+1 > ... ) ; similarly y.hi+... 
        have m1 : mem (y :: ys) x.hi := (h x.hi).1 (mem_cons.2 (Or.inl ⟨hx1.1, Nat.le_refl _⟩))
        have m2 : mem (x :: xs) y.hi := (h y.hi).2 (mem_cons.2 (Or.inl ⟨hy1.1, Nat.le_refl _⟩))
        -- if x.hi < y.hi then x.hi+1 ∈ b (within y) but not in a
        rcases Nat.lt_trichotomy x.hi y.hi with c | c | c
        · exfalso
          have : mem (y :: ys) (x.hi + 1) := mem_cons.2 (Or.inl ⟨by omega, by omega⟩)
          have := (h (x.hi + 1)).2 this
          rcases mem_cons.1 this with hh | hh
          · omega
          · have := canon_tail_above ha hh; omega
        · exact c
        · exfalso
          have : mem (x :: xs) (y.hi + 1) := mem_cons.2 (Or.inl ⟨by omega, by omega⟩)
          have := (h (y.hi + 1)).1 this
          rcases mem_cons.1 this with hh | hh
          · omega
          · have := canon_tail_above hb hh; omega
      have hxy : x = y := by cases x; cases y; simp_all
      subst hxy
      congr 1
      apply ih ys hx3 hy3
      intro z
      constructor
      · intro hz
        have := (h z).1 (mem_cons.2 (Or.inr hz))
        rcases mem_cons.1 this with hh | hh
        · have := canon_tail_above ha hz; omega
        · exact hh
      · intro hz
        have := (h z).2 (mem_cons.2 (Or.inr hz))
        rcases mem_cons.1 this with hh | hh
        · have := canon_tail_above hb hz; omega
        · exact hh

theorem chainEq_iff' : ∀ (a b : List Blk), chainEq a b = true ↔ a = b := by
  intro a
  induction a with
  | nil => intro b; cases b <;> simp [chainEq]
  | cons x xs ih =>
    intro b
    cases b with
    | nil => simp [chainEq]
    | cons y ys =>
      simp only [chainEq, Bool.and_eq_true, beq_iff_eq, ih ys, List.cons.injEq]
      constructor
      · rintro ⟨⟨h1, h2⟩, h3⟩; exact ⟨by cases x; cases y; simp_all, h3⟩
      · rintro ⟨h1, h3⟩; subst h1; exact ⟨⟨rfl, rfl⟩, h3⟩

end Rpki.Chain
