import Rpki.Proofs.ChainLemmas
namespace Rpki.Chain
open Rpki.Consts

set_option linter.unusedSimpArgs false

/-- canonical form of a reversed accumulator -/
def CanonR (M : Nat) (acc : List Blk) : Prop :=
  (∀ b ∈ acc, b.lo ≤ b.hi ∧ b.hi ≤ M) ∧ acc.Pairwise (fun a b => b.hi + 1 < a.lo)

theorem canonR_nil (M : Nat) : CanonR M [] := ⟨by simp, List.Pairwise.nil⟩

theorem canonR_reverse {M : Nat} {acc : List Blk} (h : CanonR M acc) : Canon M acc.reverse := by
  refine ⟨fun b hb => h.1 b (List.mem_reverse.1 hb), ?_⟩
  rw [List.pairwise_reverse]
  exact h.2

theorem canonR_cons {M : Nat} {n : Blk} {acc : List Blk} (hn : n.lo ≤ n.hi ∧ n.hi ≤ M)
    (hg : ∀ k ∈ acc, k.hi + 1 < n.lo) (h : CanonR M acc) : CanonR M (n :: acc) := by
  refine ⟨?_, List.pairwise_cons.2 ⟨hg, h.2⟩⟩
  intro b hb
  rcases List.mem_cons.1 hb with rfl | hb
  · exact hn
  · exact h.1 b hb

theorem mem_reverse {c : List Blk} {x : Nat} : mem c.reverse x ↔ mem c x := by
  unfold mem
  simp only [List.mem_reverse]

theorem canon_head_le {M : Nat} {b : Blk} {c : List Blk} (h : Canon M (b :: c)) {x : Nat}
    (hx : mem (b :: c) x) : b.lo ≤ x := by
  rcases mem_cons.1 hx with hh | hh
  · exact hh.1
  · have := canon_tail_above h hh
    have := (canon_cons.1 h).1
    omega

/-- post-condition of the loop, for the remaining parts `ol` / `sl` of the two chains -/
def Post (M : Nat) (ol sl acc : List Blk) (ch : Bool) : Except (List Blk) Unit → Prop
  | .ok _ => ch = false ∧ ∀ x, mem sl x → mem ol x
  | .error r => Canon M r ∧ ∀ x, mem r x ↔ (mem acc x ∨ (mem sl x ∧ mem ol x))

theorem post_nil_o {M : Nat} {sl acc : List Blk} {ch : Bool} (h : CanonR M acc) :
    Post M [] sl acc ch (.error acc.reverse) := by
  refine ⟨canonR_reverse h, fun x => ?_⟩
  rw [mem_reverse]
  have := mem_nil x
  constructor
  · intro h; exact Or.inl h
  · rintro (h | ⟨_, h⟩)
    · exact h
    · exact absurd h this

theorem post_nil_s_true {M : Nat} {ol acc : List Blk} (h : CanonR M acc) :
    Post M ol [] acc true (.error acc.reverse) := by
  refine ⟨canonR_reverse h, fun x => ?_⟩
  rw [mem_reverse]
  have := mem_nil x
  constructor
  · intro h; exact Or.inl h
  · rintro (h | ⟨h, _⟩)
    · exact h
    · exact absurd h this

theorem post_nil_s {M : Nat} {ol acc : List Blk} {ch : Bool} (h : CanonR M acc) :
    Post M ol [] acc ch (if ch = true then .error acc.reverse else .ok ()) := by
  cases ch with
  | true => exact post_nil_s_true h
  | false => exact ⟨rfl, fun x hx => absurd hx (mem_nil x)⟩

theorem post_advO {M : Nat} {o s : Blk} {os ss acc : List Blk} {ch : Bool}
    {res : Except (List Blk) Unit} (hlt : o.hi < s.lo) (hs : Canon M (s :: ss))
    (hp : Post M os (s :: ss) acc ch res) : Post M (o :: os) (s :: ss) acc ch res := by
  cases res with
  | ok u => exact ⟨hp.1, fun x hx => mem_cons.2 (Or.inr (hp.2 x hx))⟩
  | error r =>
    refine ⟨hp.1, fun x => ?_⟩
    rw [hp.2 x, mem_cons (b := o)]
    have h1 : mem (s :: ss) x → s.lo ≤ x := fun h => canon_head_le hs h
    by_cases hA : mem acc x <;> by_cases hP : mem (s :: ss) x <;> by_cases hQ : mem os x <;>
      simp only [hA, hP, hQ, true_or, or_true, false_or, or_false, true_and, and_true,
        false_and, and_false, forall_const, false_imp_iff, true_imp_iff, iff_true, true_iff, false_iff, iff_false] at h1 ⊢ <;>
      omega

theorem post_within {M : Nat} {o s : Blk} {os ss acc : List Blk} {ch : Bool}
    {res : Except (List Blk) Unit} (hin : o.lo ≤ s.lo ∧ s.hi ≤ o.hi)
    (hp : Post M (o :: os) ss (s :: acc) ch res) : Post M (o :: os) (s :: ss) acc ch res := by
  cases res with
  | ok u =>
    refine ⟨hp.1, fun x hx => ?_⟩
    rcases mem_cons.1 hx with h | h
    · exact mem_cons.2 (Or.inl ⟨by omega, by omega⟩)
    · exact hp.2 x h
  | error r =>
    refine ⟨hp.1, fun x => ?_⟩
    rw [hp.2 x, mem_cons (b := s) (c := acc), mem_cons (b := s) (c := ss), mem_cons (b := o)]
    by_cases hA : mem acc x <;> by_cases hP : mem ss x <;> by_cases hQ : mem os x <;>
      simp only [hA, hP, hQ, true_or, or_true, false_or, or_false, true_and, and_true,
        false_and, and_false, iff_true, true_iff, false_iff, iff_false] <;>
      omega

theorem post_below {M : Nat} {o s : Blk} {os ss acc : List Blk} {ch : Bool}
    {res : Except (List Blk) Unit} (hlt : s.hi < o.lo) (ho : Canon M (o :: os))
    (hp : Post M (o :: os) ss acc true res) : Post M (o :: os) (s :: ss) acc ch res := by
  cases res with
  | ok u => exact absurd hp.1 (by decide)
  | error r =>
    refine ⟨hp.1, fun x => ?_⟩
    rw [hp.2 x, mem_cons (b := s) (c := ss)]
    have h1 : mem (o :: os) x → o.lo ≤ x := fun h => canon_head_le ho h
    by_cases hA : mem acc x <;> by_cases hP : mem ss x <;> by_cases hQ : mem (o :: os) x <;>
      simp only [hA, hP, hQ, true_or, or_true, false_or, or_false, true_and, and_true,
        false_and, and_false, forall_const, false_imp_iff, true_imp_iff, iff_true, true_iff, false_iff, iff_false] at h1 ⊢ <;>
      omega

theorem post_low {M : Nat} {o s n : Blk} {os ss acc : List Blk} {ch : Bool}
    {res : Except (List Blk) Unit} (hn1 : n.lo = max s.lo o.lo) (hn2 : n.hi = s.hi)
    (hle : s.hi ≤ o.hi) (ho : Canon M (o :: os))
    (hp : Post M (o :: os) ss (n :: acc) true res) : Post M (o :: os) (s :: ss) acc ch res := by
  cases res with
  | ok u => exact absurd hp.1 (by decide)
  | error r =>
    refine ⟨hp.1, fun x => ?_⟩
    rw [hp.2 x, mem_cons (b := n) (c := acc), mem_cons (b := s) (c := ss), mem_cons (b := o)]
    have h1 : mem os x → o.hi + 1 < x := fun h => canon_tail_above ho h
    by_cases hA : mem acc x <;> by_cases hP : mem ss x <;> by_cases hQ : mem os x <;>
      simp only [hA, hP, hQ, true_or, or_true, false_or, or_false, true_and, and_true,
        false_and, and_false, forall_const, false_imp_iff, true_imp_iff, iff_true, true_iff, false_iff, iff_false] at h1 ⊢ <;>
      omega

theorem post_cut {M : Nat} {o s n s2 : Blk} {os ss acc : List Blk} {ch : Bool}
    {res : Except (List Blk) Unit} (hn1 : n.lo = max s.lo o.lo) (hn2 : n.hi = o.hi)
    (h21 : s2.lo = o.hi + 1) (h22 : s2.hi = s.hi)
    (hlo : s.lo ≤ o.hi) (hgt : o.hi < s.hi) (ho : Canon M (o :: os)) (hs : Canon M (s :: ss))
    (hp : Post M (o :: os) (s2 :: ss) (n :: acc) true res) : Post M (o :: os) (s :: ss) acc ch res := by
  cases res with
  | ok u => exact absurd hp.1 (by decide)
  | error r =>
    refine ⟨hp.1, fun x => ?_⟩
    rw [hp.2 x, mem_cons (b := n) (c := acc), mem_cons (b := s) (c := ss), mem_cons (b := s2) (c := ss),
      mem_cons (b := o)]
    have h1 : mem os x → o.hi + 1 < x := fun h => canon_tail_above ho h
    have h2 : mem ss x → s.hi + 1 < x := fun h => canon_tail_above hs h
    have h3 := (canon_cons.1 ho).1
    by_cases hA : mem acc x <;> by_cases hP : mem ss x <;> by_cases hQ : mem os x <;>
      simp only [hA, hP, hQ, true_or, or_true, false_or, or_false, true_and, and_true,
        false_and, and_false, forall_const, false_imp_iff, true_imp_iff, iff_true, true_iff, false_iff, iff_false] at h1 h2 ⊢ <;>
      omega

theorem trimLoop_spec (M : Nat) : ∀ (fuel : Nat) (o : Blk) (os : List Blk) (s : Blk)
    (ss acc : List Blk) (ch : Bool),
    Canon M (o :: os) → Canon M (s :: ss) → CanonR M acc →
    (∀ k ∈ acc, k.hi + 1 < s.lo ∨ k.hi + 1 < o.lo ∨ (k.hi ≤ o.hi ∧ o.hi < s.lo)) →
    (2 * os.length + ss.length + 1 < fuel ∨ (o.hi < s.lo ∧ 2 * os.length + ss.length < fuel)) →
    Post M (o :: os) (s :: ss) acc ch (trimLoop M fuel o os s ss acc ch) := by
  intro fuel
  induction fuel with
  | zero => intro o os s ss acc ch _ _ _ _ hf; omega
  | succ fuel ih =>
    intro o os s ss acc ch ho hs hacc hg hf
    unfold trimLoop
    obtain ⟨ho1, ho2, ho3⟩ := canon_cons.1 ho
    obtain ⟨hs1, hs2, hs3⟩ := canon_cons.1 hs
    by_cases c1 : o.hi < s.lo
    · rw [if_pos c1]
      cases os with
      | nil => exact post_advO c1 hs (post_nil_o hacc)
      | cons o' os' =>
        apply post_advO c1 hs
        have ho' := ho2 o' (List.mem_cons_self ..)
        apply ih o' os' s ss acc ch ho3 hs hacc
        · intro k hk
          rcases hg k hk with h | h | h
          · exact Or.inl h
          · exact Or.inr (Or.inl (by omega))
          · exact Or.inr (Or.inl (by omega))
        · simp only [List.length_cons] at hf
          omega
    · rw [if_neg c1]
      by_cases c2 : s.lo ≥ o.lo ∧ s.hi ≤ o.hi
      · rw [if_pos c2]
        have hacc' : CanonR M (s :: acc) := by
          refine canonR_cons hs1 (fun k hk => ?_) hacc
          rcases hg k hk with h | h | h <;> omega
        cases ss with
        | nil => exact post_within ⟨c2.1, c2.2⟩ (post_nil_s hacc')
        | cons s' ss' =>
          apply post_within ⟨c2.1, c2.2⟩
          have hs' := hs2 s' (List.mem_cons_self ..)
          apply ih o os s' ss' (s :: acc) ch ho hs3 hacc'
          · intro k hk
            rcases List.mem_cons.1 hk with rfl | hk
            · exact Or.inl hs'
            · rcases hg k hk with h | h | h
              · exact Or.inl (by omega)
              · exact Or.inr (Or.inl h)
              · omega
          · simp only [List.length_cons] at hf
            omega
      · rw [if_neg c2]
        by_cases c3 : s.hi < o.lo
        · rw [if_pos c3]
          cases ss with
          | nil => exact post_below c3 ho (post_nil_s_true hacc)
          | cons s' ss' =>
            apply post_below c3 ho
            have hs' := hs2 s' (List.mem_cons_self ..)
            apply ih o os s' ss' acc true ho hs3 hacc
            · intro k hk
              rcases hg k hk with h | h | h
              · exact Or.inl (by omega)
              · exact Or.inr (Or.inl h)
              · omega
            · simp only [List.length_cons] at hf
              omega
        · rw [if_neg c3]
          by_cases c4 : s.hi ≤ o.hi
          · rw [if_pos c4]
            generalize hn : (⟨max s.lo o.lo, s.hi⟩ : Blk) = n
            have hn1 : n.lo = max s.lo o.lo := by rw [← hn]
            have hn2 : n.hi = s.hi := by rw [← hn]
            have hacc' : CanonR M (n :: acc) := by
              refine canonR_cons ⟨by omega, by omega⟩ (fun k hk => ?_) hacc
              rcases hg k hk with h | h | h <;> omega
            cases ss with
            | nil => exact post_low hn1 hn2 c4 ho (post_nil_s_true hacc')
            | cons s' ss' =>
              apply post_low hn1 hn2 c4 ho
              have hs' := hs2 s' (List.mem_cons_self ..)
              apply ih o os s' ss' (n :: acc) true ho hs3 hacc'
              · intro k hk
                rcases List.mem_cons.1 hk with rfl | hk
                · exact Or.inl (by omega)
                · rcases hg k hk with h | h | h
                  · exact Or.inl (by omega)
                  · exact Or.inr (Or.inl h)
                  · omega
              · simp only [List.length_cons] at hf
                omega
          · rw [if_neg c4]
            generalize hn : (⟨max s.lo o.lo, o.hi⟩ : Blk) = n
            generalize h2 : (⟨o.hi + 1, s.hi⟩ : Blk) = s2
            have hn1 : n.lo = max s.lo o.lo := by rw [← hn]
            have hn2 : n.hi = o.hi := by rw [← hn]
            have h21 : s2.lo = o.hi + 1 := by rw [← h2]
            have h22 : s2.hi = s.hi := by rw [← h2]
            have hacc' : CanonR M (n :: acc) := by
              refine canonR_cons ⟨by omega, by omega⟩ (fun k hk => ?_) hacc
              rcases hg k hk with h | h | h <;> omega
            have hs2' : Canon M (s2 :: ss) := by
              refine canon_cons.2 ⟨⟨by omega, by omega⟩, fun y hy => ?_, hs3⟩
              have := hs2 y hy
              omega
            apply post_cut hn1 hn2 h21 h22 (by omega) (by omega) ho hs
            apply ih o os s2 ss (n :: acc) true ho hs2' hacc'
            · intro k hk
              rcases List.mem_cons.1 hk with rfl | hk
              · exact Or.inr (Or.inr ⟨by omega, by omega⟩)
              · rcases hg k hk with h | h | h
                · exact Or.inl (by omega)
                · exact Or.inr (Or.inl h)
                · omega
            · exact Or.inr ⟨by omega, by omega⟩

/-- `trim`: `ok` means the first chain is included in the second; otherwise the returned chain is
canonical and denotes exactly the intersection. -/
theorem trim_spec' (M : Nat) (a b : List Blk) (ha : Canon M a) (hb : Canon M b) :
    match trim M a b with
    | .ok () => ∀ x, mem a x → mem b x
    | .error r => Canon M r ∧ ∀ x, mem r x ↔ (mem a x ∧ mem b x) := by
  cases b with
  | nil =>
    simp only [trim]
    refine ⟨canon_nil M, fun x => ?_⟩
    have := mem_nil x
    constructor
    · intro h; exact absurd h this
    · rintro ⟨_, h⟩; exact h
  | cons o os =>
    cases a with
    | nil =>
      simp only [trim]
      intro x hx
      exact absurd hx (mem_nil x)
    | cons s ss =>
      have h := trimLoop_spec M (2 * ((s :: ss).length + (o :: os).length) + 2) o os s ss [] false
        hb ha (canonR_nil M) (fun k hk => absurd hk (List.not_mem_nil)) (by
          simp only [List.length_cons]; omega)
      simp only [trim]
      generalize trimLoop M (2 * ((s :: ss).length + (o :: os).length) + 2) o os s ss [] false = res at h
      cases res with
      | ok u => exact h.2
      | error r =>
        refine ⟨h.1, fun x => ?_⟩
        rw [h.2 x]
        have := mem_nil x
        constructor
        · rintro (h | h)
          · exact absurd h this
          · exact h
        · intro h; exact Or.inr h

end Rpki.Chain
