import Rpki.Model.Manifest
import Rpki.Proofs.UriRsync
namespace Rpki.Manifest
open Rpki.Der

/-! ### file names -/

theorem validChar_ne_dot {c : Nat} (h : validChar c = true) : c ≠ 46 := by
  intro e; subst e; revert h; decide

theorem validChar_ne_slash {c : Nat} (h : validChar c = true) : c ≠ 47 := by
  intro e; subst e; revert h; decide

theorem isAlpha_ne_slash {c : Nat} (h : isAlpha c = true) : c ≠ 47 := by
  intro e; subst e; revert h; decide

theorem scanStem_sound : ∀ (n r : Bytes), scanStem n = some r →
    (∃ stem, n = stem ++ 46 :: r ∧ stem.all validChar = true) ∨ (r = [] ∧ n.all validChar = true) := by
  intro n
  induction n with
  | nil => intro r h; simp [scanStem] at h; subst h; exact Or.inr ⟨rfl, rfl⟩
  | cons c t ih =>
    intro r h
    rw [scanStem] at h
    by_cases hc : c = 46
    · simp only [hc, if_true] at h
      injection h with h; subst h
      exact Or.inl ⟨[], by simp [hc], rfl⟩
    · simp only [hc, if_false] at h
      by_cases hv : validChar c = true
      · simp only [hv, Bool.not_true, Bool.false_eq_true, if_false] at h
        rcases ih r h with ⟨stem, e, hs⟩ | ⟨e, hs⟩
        · exact Or.inl ⟨c :: stem, by simp [e], by simp [hv, hs]⟩
        · exact Or.inr ⟨e, by simp [hv, hs]⟩
      · simp [hv] at h

theorem scanStem_complete : ∀ (stem r : Bytes), stem.all validChar = true →
    scanStem (stem ++ 46 :: r) = some r := by
  intro stem
  induction stem with
  | nil => intro r _; simp [scanStem]
  | cons c t ih =>
    intro r h
    simp only [List.all_cons, Bool.and_eq_true] at h
    have hc : c ≠ 46 := validChar_ne_dot h.1
    simp only [List.cons_append, scanStem, hc, if_false, h.1, Bool.not_true, Bool.false_eq_true]
    exact ih r h.2

/-- `validate_file_name` accepts exactly: characters of the class, one dot, three letters. -/
theorem validName_iff' (n : Bytes) :
    validName n = true ↔ ∃ stem ext, n = stem ++ 46 :: ext ∧ stem.all validChar = true ∧
      ext.length = 3 ∧ ext.all isAlpha = true := by
  constructor
  · intro h
    unfold validName at h
    cases hs : scanStem n with
    | none => simp [hs] at h
    | some r =>
      simp only [hs, Bool.and_eq_true, decide_eq_true_eq] at h
      have hl : r.length = 3 := by simpa [Rpki.Consts.mftExtLen] using h.1
      rcases scanStem_sound n r hs with ⟨stem, e, hst⟩ | ⟨e, _⟩
      · exact ⟨stem, r, e, hst, hl, h.2⟩
      · subst e; simp at hl
  · rintro ⟨stem, ext, e, hs, hl, ha⟩
    unfold validName
    rw [e, scanStem_complete stem ext hs]
    simp [Rpki.Consts.mftExtLen, hl, ha]

theorem validName_noslash {n : Bytes} (h : validName n = true) : 47 ∉ n := by
  obtain ⟨stem, ext, e, hs, _, ha⟩ := (validName_iff' n).1 h
  subst e
  intro hm
  rcases List.mem_append.1 hm with hm | hm
  · exact validChar_ne_slash (List.all_eq_true.1 hs _ hm) rfl
  · rcases List.mem_cons.1 hm with hm | hm
    · cases hm
    · exact isAlpha_ne_slash (List.all_eq_true.1 ha _ hm) rfl

theorem validName_length {n : Bytes} (h : validName n = true) : 4 ≤ n.length := by
  obtain ⟨stem, ext, e, _, hl, _⟩ := (validName_iff' n).1 h
  subst e; simp; omega

theorem validChar_uri {c : Nat} (h : validChar c = true) : Uri.isUriAscii c = true := by
  unfold validChar isAlnum isAlpha at h
  simp only [Bool.or_eq_true, Bool.and_eq_true, decide_eq_true_eq] at h
  simp only [Uri.isUriAscii, Rpki.Consts.uriAsciiRanges, Uri.inRanges, Bool.or_eq_true,
    Bool.and_eq_true, decide_eq_true_eq, Bool.or_false]
  omega

theorem isAlpha_uri {c : Nat} (h : isAlpha c = true) : Uri.isUriAscii c = true := by
  unfold isAlpha at h
  simp only [Bool.or_eq_true, Bool.and_eq_true, decide_eq_true_eq] at h
  simp only [Uri.isUriAscii, Rpki.Consts.uriAsciiRanges, Uri.inRanges, Bool.or_eq_true,
    Bool.and_eq_true, decide_eq_true_eq, Bool.or_false]
  omega

theorem validName_uriAscii {n : Bytes} (h : validName n = true) : Uri.checkUriAscii n = true := by
  obtain ⟨stem, ext, e, hs, _, ha⟩ := (validName_iff' n).1 h
  subst e
  unfold Uri.checkUriAscii
  rw [List.all_append, List.all_cons]
  have h1 : stem.all Uri.isUriAscii = true :=
    List.all_eq_true.2 (fun c hc => validChar_uri (List.all_eq_true.1 hs c hc))
  have h2 : ext.all Uri.isUriAscii = true :=
    List.all_eq_true.2 (fun c hc => isAlpha_uri (List.all_eq_true.1 ha c hc))
  have h3 : Uri.isUriAscii 46 = true := by decide
  simp [h1, h2, h3]

/-- the directory a base URI denotes for `join` -/
def dirOf (b : Bytes) : Bytes := if Uri.endsWithSlash b then b else b ++ [Uri.slash]

/-- Joining a legal manifest file name onto any rsync URI succeeds and appends exactly the name
to the base directory. -/
theorem join_validName (u : Uri.Rsync) (n : Bytes) (h : validName n = true) :
    u.join n = .ok { u with bytes := dirOf u.bytes ++ n } := by
  have hl := validName_length h
  have hne : n ≠ [] := by intro e; subst e; simp at hl
  have hns : Uri.slash ∉ n := validName_noslash h
  have hsplit : Uri.split n = [n] := Uri.split_noslash n hns
  have hd1 : n ≠ [Uri.dot, Uri.dot] := by intro e; rw [e] at hl; simp at hl
  have hd2 : n ≠ [Uri.dot] := by intro e; rw [e] at hl; simp at hl
  unfold Uri.Rsync.join
  simp only [hne, if_false, validName_uriAscii h, Bool.not_true, Bool.false_eq_true]
  have hcp : Uri.checkPath n = .ok () := by
    unfold Uri.checkPath; rw [hsplit]
    simp [Uri.checkItems, hne, hd1, hd2]
  rw [hcp]
  simp only [dirOf]

/-! ### skip / take parity -/

theorem getLast?_eq_drop (bits : Bytes) (h : bits ≠ []) :
    bits.getLast? = some ((bits.drop (bits.length - 1)).headD 0) := by
  induction bits with
  | nil => exact absurd rfl h
  | cons x xs ih =>
    cases xs with
    | nil => simp
    | cons y ys =>
      have := ih (by simp)
      simp only [List.getLast?_cons_cons, this]
      simp

theorem bitString_parity (c : Bytes) : bitStringSkip c = (bitStringTake c).isSome := by
  unfold bitStringSkip bitStringTake
  cases c with
  | nil => rfl
  | cons unused bits =>
    simp only
    by_cases h7 : unused > 7
    · simp [h7]
    · simp only [h7, if_false]
      by_cases hb : bits = []
      · subst hb
        by_cases hu : unused > 0 <;> simp [hu]
      · have hlen : bits.length ≠ 0 := by intro e; exact hb (List.eq_nil_of_length_eq_zero e)
        simp only [hlen, if_false, hb, false_and]
        by_cases hu : unused > 0
        · simp only [hu, if_true]
          rw [getLast?_eq_drop bits hb]
          simp only
          split <;> simp
        · simp [hu]

theorem entryBody_parity (c : Bytes) : skipEntryBody c = (takeEntryBody c).isSome := by
  unfold skipEntryBody takeEntryBody
  cases takeIa5 c with
  | none => rfl
  | some p =>
    obtain ⟨file, r⟩ := p
    simp only
    by_cases hv : validName file = true
    · simp only [hv, Bool.not_true, Bool.false_eq_true, if_false]
      cases takePrim tagBitString r with
      | none => rfl
      | some q =>
        obtain ⟨bc, r'⟩ := q
        simp only
        rw [bitString_parity]
        cases bitStringTake bc with
        | none => simp
        | some w =>
          by_cases hr : r' = [] <;> simp [hr]
    · simp [hv]

theorem takeEntryBody_valid {c : Bytes} {e : Entry} (h : takeEntryBody c = some e) :
    validName e.name = true := by
  unfold takeEntryBody at h
  cases h1 : takeIa5 c with
  | none => simp [h1] at h
  | some p =>
    obtain ⟨file, r⟩ := p
    simp only [h1] at h
    by_cases hv : validName file = true
    · simp only [hv, Bool.not_true, Bool.false_eq_true, if_false] at h
      cases h2 : takePrim tagBitString r with
      | none => simp [h2] at h
      | some q =>
        obtain ⟨bc, r'⟩ := q
        simp only [h2] at h
        cases h3 : bitStringTake bc with
        | none => simp [h3] at h
        | some w =>
          simp only [h3] at h
          by_cases hr : r' = []
          · simp only [hr, if_true] at h
            injection h with h; rw [← h]; exact hv
          · simp [hr] at h
    · simp [hv] at h

/-- `skip_opt_in` and `take_opt_from` take the same decision and leave the same rest. -/
theorem skip_take_parity (b : Bytes) :
    (skipOptEntry b = .absent ↔ takeOptEntry b = .absent) ∧
    (skipOptEntry b = .bad ↔ takeOptEntry b = .bad) ∧
    (∀ rest, skipOptEntry b = .ok () rest ↔ ∃ e, takeOptEntry b = .ok e rest ∧ validName e.name = true) := by
  unfold skipOptEntry takeOptEntry
  cases takeOptCons tagSeq b with
  | absent => simp
  | bad => simp
  | ok c rest =>
    simp only [entryBody_parity]
    cases h : takeEntryBody c with
    | none => simp
    | some e =>
      simp only [Option.isSome_some, if_true]
      refine ⟨by simp, by simp, ?_⟩
      intro r
      constructor
      · intro hr; injection hr with _ hr; subst hr
        exact ⟨e, rfl, takeEntryBody_valid h⟩
      · rintro ⟨e', he, _⟩; injection he with _ he; rw [he]

/-- every entry the counting loop accepted is yielded by the iterator, in the same number, and
the iterator never hits its `unwrap()` -/
theorem count_iter : ∀ (fuel : Nat) (b : Bytes) (n k : Nat), countLoop fuel b n = some k →
    ∃ es, iterLoop fuel b = some es ∧ es.length + n = k ∧ ∀ e ∈ es, validName e.name = true := by
  intro fuel
  induction fuel with
  | zero =>
    intro b n k h
    simp only [countLoop] at h
    by_cases hb : b = []
    · simp only [hb, if_true] at h; injection h with h
      exact ⟨[], rfl, by simpa using h, by simp⟩
    · simp [hb] at h
  | succ f ih =>
    intro b n k h
    rw [countLoop] at h
    have par := skip_take_parity b
    cases hs : skipOptEntry b with
    | absent =>
      simp only [hs] at h
      by_cases hb : b = []
      · simp only [hb, if_true] at h; injection h with h
        refine ⟨[], ?_, by simpa using h, by simp⟩
        rw [iterLoop, par.1.1 hs]
      · simp [hb] at h
    | bad => simp [hs] at h
    | ok u rest =>
      cases u
      simp only [hs] at h
      obtain ⟨e, he, hv⟩ := (par.2.2 rest).1 hs
      obtain ⟨es, h1, h2, h3⟩ := ih rest (n + 1) k h
      refine ⟨e :: es, ?_, by simp; omega, ?_⟩
      · rw [iterLoop, he]; simp only [h1]; rfl
      · intro x hx
        rcases List.mem_cons.1 hx with hx | hx
        · rw [hx]; exact hv
        · exact h3 x hx

end Rpki.Manifest
