/-
  The instant of a civil time (`Rpki/Model/Instant.lean`): calendar order is the order of instants.
-/
import Rpki.Model.Instant
namespace Rpki.X509

theorem isLeap_iff (y : Nat) : isLeap y = true ↔ (y % 4 = 0 ∧ y % 100 ≠ 0) ∨ y % 400 = 0 := by
  simp [isLeap]

theorem daysBeforeYear_succ (y : Nat) :
    daysBeforeYear (y + 1) = daysBeforeYear y + 365 + (if isLeap y then 1 else 0) := by
  unfold daysBeforeYear leapsBefore
  by_cases hl : isLeap y = true
  · have := (isLeap_iff y).1 hl
    simp only [hl, if_true]
    omega
  · have h' : ¬ ((y % 4 = 0 ∧ y % 100 ≠ 0) ∨ y % 400 = 0) := fun h => hl ((isLeap_iff y).2 h)
    have hf : isLeap y = false := by simpa using hl
    simp only [hf, Bool.false_eq_true, if_false]
    omega

theorem daysBeforeYear_mono {a b : Nat} (h : a ≤ b) : daysBeforeYear a ≤ daysBeforeYear b := by
  induction b with
  | zero => have : a = 0 := by omega
            subst this; exact Nat.le_refl _
  | succ n ih =>
    by_cases e : a = n + 1
    · subst e; exact Nat.le_refl _
    · have := ih (by omega)
      rw [daysBeforeYear_succ]
      omega

def yearLen (y : Nat) : Nat := 365 + (if isLeap y then 1 else 0)

theorem month_cases {m : Nat} (h1 : 1 ≤ m) (h2 : m ≤ 12) :
    m = 1 ∨ m = 2 ∨ m = 3 ∨ m = 4 ∨ m = 5 ∨ m = 6 ∨ m = 7 ∨ m = 8 ∨ m = 9 ∨ m = 10 ∨ m = 11 ∨ m = 12 := by
  omega

/-- a month ends inside its year -/
theorem month_end (y m : Nat) (h1 : 1 ≤ m) (h2 : m ≤ 12) :
    daysBeforeMonth y m + daysIn y m ≤ yearLen y := by
  by_cases hl : isLeap y = true <;>
    rcases month_cases h1 h2 with rfl | rfl | rfl | rfl | rfl | rfl | rfl | rfl | rfl | rfl | rfl | rfl <;>
    simp [daysBeforeMonth, daysIn, yearLen, hl]

/-- a later month starts after the earlier one has ended -/
theorem month_lt (y m n : Nat) (h1 : 1 ≤ m) (h : m < n) (h2 : n ≤ 12) :
    daysBeforeMonth y m + daysIn y m ≤ daysBeforeMonth y n := by
  by_cases hl : isLeap y = true <;>
    rcases month_cases h1 (by omega : m ≤ 12) with rfl | rfl | rfl | rfl | rfl | rfl | rfl | rfl | rfl | rfl | rfl | rfl <;>
    rcases month_cases (by omega : 1 ≤ n) h2 with rfl | rfl | rfl | rfl | rfl | rfl | rfl | rfl | rfl | rfl | rfl | rfl <;>
    first | omega | simp [daysBeforeMonth, daysIn, hl]

theorem valid_parts (c : Civil) (h : validCivil c = true) :
    1 ≤ c.m ∧ c.m ≤ 12 ∧ 1 ≤ c.d ∧ c.d ≤ daysIn c.y c.m ∧ c.h < 24 ∧ c.mi < 60 ∧ c.s < 60 := by
  simpa [validCivil, and_assoc] using h

/-- a valid day lies inside its year -/
theorem dayNumber_lt (c : Civil) (h : validCivil c = true) :
    dayNumber c < daysBeforeYear c.y + yearLen c.y := by
  obtain ⟨h1, h2, h3, h4, _⟩ := valid_parts c h
  have := month_end c.y c.m h1 h2
  unfold dayNumber
  omega

theorem secsOf_bounds (c : Civil) (h : validCivil c = true) :
    dayNumber c * 86400 ≤ secsOf c ∧ secsOf c < (dayNumber c + 1) * 86400 := by
  obtain ⟨_, _, _, _, h5, h6, h7⟩ := valid_parts c h
  unfold secsOf
  omega

/-- **Calendar order is the order of instants.** -/
theorem secsOf_lt (a b : Civil) (ha : validCivil a = true) (hb : validCivil b = true) (h : civilLt a b) :
    secsOf a < secsOf b := by
  obtain ⟨a1, a2, a3, a4, a5, a6, a7⟩ := valid_parts a ha
  obtain ⟨b1, b2, b3, b4, b5, b6, b7⟩ := valid_parts b hb
  have sa := secsOf_bounds a ha
  have sb := secsOf_bounds b hb
  -- it is enough to have an earlier day, or the same day and an earlier time of day
  rcases h with hy | ⟨ey, hm | ⟨em, hd | ⟨ed, ht⟩⟩⟩
  · have h1 := dayNumber_lt a ha
    have h2 : daysBeforeYear (a.y + 1) ≤ daysBeforeYear b.y := daysBeforeYear_mono (by omega)
    rw [daysBeforeYear_succ] at h2
    have h3 : daysBeforeYear b.y ≤ dayNumber b := by unfold dayNumber; omega
    unfold yearLen at h1
    have : dayNumber a + 1 ≤ dayNumber b := by omega
    have : (dayNumber a + 1) * 86400 ≤ dayNumber b * 86400 := Nat.mul_le_mul_right _ this
    omega
  · have h1 := month_lt a.y a.m b.m a1 hm b2
    have : dayNumber a + 1 ≤ dayNumber b := by unfold dayNumber; rw [← ey]; omega
    have : (dayNumber a + 1) * 86400 ≤ dayNumber b * 86400 := Nat.mul_le_mul_right _ this
    omega
  · have : dayNumber a + 1 ≤ dayNumber b := by unfold dayNumber; rw [← ey, ← em]; omega
    have : (dayNumber a + 1) * 86400 ≤ dayNumber b * 86400 := Nat.mul_le_mul_right _ this
    omega
  · have : dayNumber a = dayNumber b := by unfold dayNumber; rw [ey, em, ed]
    unfold secsOf
    rw [this]
    rcases ht with hh | ⟨eh, hmi | ⟨emi, hs⟩⟩ <;> omega

theorem civil_trichotomy (a b : Civil) : civilLt a b ∨ a = b ∨ civilLt b a := by
  obtain ⟨ay, am, ad, ah, ami, as⟩ := a
  obtain ⟨by', bm, bd, bh, bmi, bs⟩ := b
  simp only [civilLt, Civil.mk.injEq]
  omega

/-- different valid civil times are different instants -/
theorem secsOf_injective (a b : Civil) (ha : validCivil a = true) (hb : validCivil b = true)
    (h : secsOf a = secsOf b) : a = b := by
  rcases civil_trichotomy a b with h1 | h1 | h1
  · have := secsOf_lt a b ha hb h1; omega
  · exact h1
  · have := secsOf_lt b a hb ha h1; omega

theorem secsOf_lt_iff (a b : Civil) (ha : validCivil a = true) (hb : validCivil b = true) :
    secsOf a < secsOf b ↔ civilLt a b := by
  constructor
  · intro h
    rcases civil_trichotomy a b with h1 | h1 | h1
    · exact h1
    · subst h1; omega
    · have := secsOf_lt b a hb ha h1; omega
  · exact secsOf_lt a b ha hb

theorem daysIn_feb (y : Nat) : 28 ≤ daysIn y 2 ∧ daysIn y 2 ≤ 29 := by
  simp only [daysIn, Nat.reduceEqDiff, or_self, or_false, false_or, if_false, if_true]
  split <;> omega

theorem daysIn_other (y y' m : Nat) (h : m ≠ 2) : daysIn y' m = daysIn y m := by
  simp [daysIn, h]

/-- `Time::years_from_date` names a real calendar time whenever its argument does (so the `Time::utc`
it ends in cannot fail on the date): the only day that does not exist in every year is moved. -/
theorem yearsFromDate_valid (years : Int) (c : Civil) (h : validCivil c = true) :
    validCivil (yearsFromDate years c) = true := by
  obtain ⟨h1, h2, h3, h4, h5, h6, h7⟩ := valid_parts c h
  have hs : min c.s 59 < 60 := by omega
  have hd : (if c.d = 29 ∧ c.m = 2 then 28 else c.d) ≤ daysIn (((c.y : Int) + years).toNat) c.m ∧
      1 ≤ (if c.d = 29 ∧ c.m = 2 then 28 else c.d) := by
    by_cases hleap : c.d = 29 ∧ c.m = 2
    · rw [if_pos hleap, hleap.2]
      exact ⟨(daysIn_feb _).1, by omega⟩
    · rw [if_neg hleap]
      refine ⟨?_, h3⟩
      by_cases hm : c.m = 2
      · have : c.d ≠ 29 := fun e => hleap ⟨e, hm⟩
        rw [hm] at h4 ⊢
        have := (daysIn_feb c.y).2
        have := (daysIn_feb (((c.y : Int) + years).toNat)).1
        omega
      · rw [daysIn_other c.y _ c.m hm]; exact h4
  unfold yearsFromDate validCivil
  simp only [h1, h2, hd.1, hd.2, h5, h6, hs, decide_true, Bool.and_self]

end Rpki.X509
