/-
  Every value the DER readers read is read by the BER readers as the same value: the relaxed mode only admits more.
-/
import Rpki.Proofs.BerLeaf
import Rpki.Gen.BerModel
namespace Rpki
open Rpki.Der Rpki.CertDer

theorem readLen_mono (b : Bytes) (x : Nat × Bytes) (h : readLen b = some x) : readLenM true b = some x := by
  unfold readLen at h
  unfold readLenM
  cases b with
  | nil => cases h
  | cons n r =>
    simp only at h ⊢
    simp only [true_or, if_true]
    repeat' split at h
    all_goals first
      | (cases h; done)
      | (simp_all; done)
      | skip
    all_goals simp_all

theorem readLenX_mono (b : Bytes) (x : Len × Bytes) (h : readLenX b = some x) : readLenXM true b = some x := by
  unfold readLenX at h
  unfold readLenXM
  split at h
  · exact h
  · rename_i hne
    cases hl : readLen b with
    | none => simp [hl] at h
    | some p =>
      rw [hl] at h
      rw [readLen_mono b p hl]
      split
      · rename_i r0
        exact absurd rfl (hne r0)
      · exact h

theorem skipLoop_mono : ∀ (fuel : Nat) (cur : Bytes) (st : List Frame) (rest : Bytes),
    skipLoop fuel cur st = some rest → skipLoopM true fuel cur st = some rest := by
  intro fuel
  induction fuel with
  | zero => intro cur st rest h; simp [skipLoop] at h
  | succ n ih =>
    intro cur st rest h
    simp only [skipLoop] at h
    simp only [skipLoopM]
    cases ht : takeTagAny cur with
    | none => simp [ht] at h
    | some p =>
      obtain ⟨t, r⟩ := p
      simp only [ht] at h ⊢
      cases hl : readLenX r with
      | none => simp [hl] at h
      | some q =>
        obtain ⟨len, r'⟩ := q
        rw [readLenX_mono r _ hl]
        simp only [hl] at h ⊢
        -- the two sides now differ only in the recursive calls
        repeat' split at h
        all_goals first
          | (cases h; done)
          | (simp_all; done)
          | (have := ih _ _ _ h; simp_all; done)

theorem skipOne_mono (b rest : Bytes) (h : skipOne b = some rest) : skipOneM true b = some rest :=
  skipLoop_mono _ b [] rest h

theorem readTlv_mono (b : Bytes) (x : Nat × Bytes × Bytes) (h : readTlv b = some x) : readTlvM true b = some x := by
  unfold readTlv at h
  unfold readTlvM readTlvIM
  cases b with
  | nil => cases h
  | cons t r =>
    simp only at h ⊢
    split at h
    · cases h
    · rename_i ht
      simp only [ht, if_false]
      cases hl : readLen r with
      | none => simp [hl] at h
      | some p =>
        obtain ⟨l, r'⟩ := p
        simp only [hl] at h
        have hx : readLenX r = some (.definite l, r') := by
          unfold readLenX
          split
          · rename_i r0; rw [readLen_indef] at hl; cases hl
          · rw [hl]; rfl
        rw [readLenX_mono r _ hx]
        split at h
        · cases h
        · rename_i hlen
          injection h with h
          subst h
          simp [hlen]

theorem takeOptCons_mono (tag : Nat) (b c rest : Bytes) (h : takeOptCons tag b = .ok c rest) :
    takeOptConsM true tag b = .ok c rest := by
  unfold takeOptCons at h
  unfold takeOptConsM takeOptConsIM
  cases b with
  | nil => cases h
  | cons t r =>
    simp only at h ⊢
    repeat' split at h
    all_goals first
      | (cases h; done)
      | skip
    rename_i hr
    injection h with hc hrest
    subst hc hrest
    have := readTlv_mono _ _ hr
    unfold readTlvM at this
    cases hi : readTlvIM true (t :: r) with
    | none => rw [hi] at this; cases this
    | some q =>
      obtain ⟨a, c1, r1, i⟩ := q
      rw [hi] at this
      simp only [Option.map_some, Option.some.injEq, Prod.mk.injEq] at this
      obtain ⟨_, rfl, rfl⟩ := this
      simp_all

theorem takeOptCons_absent_mono (tag : Nat) (b : Bytes) (h : takeOptCons tag b = .absent) :
    takeOptConsM true tag b = .absent := by
  unfold takeOptCons at h
  unfold takeOptConsM takeOptConsIM
  cases b with
  | nil => rfl
  | cons t r =>
    simp only at h ⊢
    repeat' split at h
    all_goals first
      | (cases h; done)
      | (simp_all; done)

theorem takeOptPrim_mono (tag : Nat) (b c rest : Bytes) (h : takeOptPrim tag b = .ok c rest) :
    takeOptPrimM true tag b = .ok c rest := by
  unfold takeOptPrim at h
  unfold takeOptPrimM
  cases b with
  | nil => cases h
  | cons t r =>
    simp only at h ⊢
    repeat' split at h
    all_goals first
      | (cases h; done)
      | skip
    rename_i hr
    injection h with hc hrest
    subst hc hrest
    have := readTlv_mono _ _ hr
    simp_all

theorem takeOptPrim_absent_mono (tag : Nat) (b : Bytes) (h : takeOptPrim tag b = .absent) :
    takeOptPrimM true tag b = .absent := by
  unfold takeOptPrim at h
  unfold takeOptPrimM
  cases b with
  | nil => rfl
  | cons t r =>
    simp only at h ⊢
    repeat' split at h
    all_goals first
      | (cases h; done)
      | (simp_all; done)

theorem takeOptBool_mono (b : Bytes) (x : Bool) (rest : Bytes) (h : takeOptBool b = .ok x rest) :
    takeOptBoolM true b = .ok x rest := by
  unfold takeOptBool at h
  unfold takeOptBoolM
  cases hp : takeOptPrim tagBool b with
  | absent => simp [hp] at h
  | bad => simp [hp] at h
  | ok c r =>
    rw [takeOptPrim_mono _ _ _ _ hp]
    simp only [hp] at h
    split at h
    · rename_i hc; subst hc; injection h with h1 h2; subst h1 h2; rfl
    · split at h
      · rename_i hc; subst hc; injection h with h1 h2; subst h1 h2; rfl
      · cases h

theorem bitStringTake_mono (c : Bytes) (x : Nat × Bytes) (h : Manifest.bitStringTake c = some x) :
    Manifest.bitStringTakeM true c = some x := by
  unfold Manifest.bitStringTake at h
  unfold Manifest.bitStringTakeM
  cases c with
  | nil => cases h
  | cons u bits =>
    simp only at h ⊢
    repeat' split at h
    all_goals first
      | (cases h; done)
      | (simp_all; done)

/-! ### the same facts as equalities under "the DER reader did not refuse" — the form `simp` can rewrite with -/

theorem readTlv_monoEq (b : Bytes) (h : (readTlv b).isSome) : readTlvM true b = readTlv b := by
  cases hr : readTlv b with
  | none => simp [hr] at h
  | some x => exact readTlv_mono b x hr

theorem takeOptCons_monoEq (tag : Nat) (b : Bytes) (h : takeOptCons tag b ≠ .bad) :
    takeOptConsM true tag b = takeOptCons tag b := by
  cases hp : takeOptCons tag b with
  | absent => exact takeOptCons_absent_mono tag b hp
  | bad => exact absurd hp h
  | ok c r => exact takeOptCons_mono tag b c r hp

theorem takeOptPrim_monoEq (tag : Nat) (b : Bytes) (h : takeOptPrim tag b ≠ .bad) :
    takeOptPrimM true tag b = takeOptPrim tag b := by
  cases hp : takeOptPrim tag b with
  | absent => exact takeOptPrim_absent_mono tag b hp
  | bad => exact absurd hp h
  | ok c r => exact takeOptPrim_mono tag b c r hp

theorem takePrim_monoEq (tag : Nat) (b : Bytes) (h : (takePrim tag b).isSome) : takePrimM true tag b = takePrim tag b := by
  unfold takePrim at h ⊢
  unfold takePrimM
  cases hp : takeOptPrim tag b with
  | absent => simp [hp] at h
  | bad => simp [hp] at h
  | ok c r => rw [takeOptPrim_mono _ _ _ _ hp]

theorem takeCons_monoEq (tag : Nat) (b : Bytes) (h : (takeCons tag b).isSome) : takeConsM true tag b = takeCons tag b := by
  unfold takeCons at h ⊢
  unfold takeConsM
  cases hp : takeOptCons tag b with
  | absent => simp [hp] at h
  | bad => simp [hp] at h
  | ok c r => rw [takeOptCons_mono _ _ _ _ hp]

/-- with the flag: a value the DER reader reads has definite length -/
theorem takeOptConsIM_monoEq (tag : Nat) (b : Bytes) (h : takeOptCons tag b ≠ .bad) :
    takeOptConsIM true tag b =
      (match takeOptCons tag b with | .absent => .absent | .bad => .bad | .ok c rest => .ok (c, false) rest) := by
  have hm := takeOptCons_monoEq tag b h
  unfold takeOptConsM at hm
  cases hp : takeOptCons tag b with
  | bad => exact absurd hp h
  | absent =>
    rw [hp] at hm
    cases hi : takeOptConsIM true tag b with
    | absent => rfl
    | bad => rw [hi] at hm; cases hm
    | ok q r => obtain ⟨c, i⟩ := q; rw [hi] at hm; cases hm
  | ok c r =>
    rw [hp] at hm
    cases hi : takeOptConsIM true tag b with
    | absent => rw [hi] at hm; cases hm
    | bad => rw [hi] at hm; cases hm
    | ok q r' =>
      obtain ⟨c', i⟩ := q
      rw [hi] at hm
      simp only [Take.ok.injEq] at hm
      obtain ⟨rfl, rfl⟩ := hm
      -- the flag: the DER reader accepted, so the length octets were not 0x80
      have hf : i = false := by
        unfold takeOptConsIM at hi
        unfold takeOptCons at hp
        cases b with
        | nil => cases hp
        | cons t r0 =>
          simp only at hi hp
          repeat' split at hp
          all_goals first
            | (cases hp; done)
            | skip
          rename_i hr
          have hri := readTlvIM_false (t :: r0)
          -- `readTlvIM true` on a value `readTlv` reads: definite
          unfold readTlv at hr
          simp only at hr
          split at hr
          · cases hr
          · cases hl : readLen r0 with
            | none => simp [hl] at hr
            | some p =>
              obtain ⟨l, r1⟩ := p
              have hx : readLenX r0 = some (.definite l, r1) := by
                unfold readLenX
                split
                · rename_i r9; rw [readLen_indef] at hl; cases hl
                · rw [hl]; rfl
              simp only [readTlvIM, readLenX_mono r0 _ hx] at hi
              repeat' split at hi
              all_goals first
                | (cases hi; done)
                | skip
              all_goals simp_all
      subst hf
      rfl

theorem takeOptBool_monoEq (b : Bytes) (h : takeOptBool b ≠ .bad) : takeOptBoolM true b = takeOptBool b := by
  cases hp : takeOptBool b with
  | bad => exact absurd hp h
  | ok x r => exact takeOptBool_mono b x r hp
  | absent =>
    unfold takeOptBool at hp
    unfold takeOptBoolM
    cases hq : takeOptPrim tagBool b with
    | absent => rw [takeOptPrim_absent_mono _ _ hq]
    | bad => simp [hq] at hp
    | ok c r =>
      simp only [hq] at hp
      repeat' split at hp
      all_goals cases hp

theorem skipOne_monoEq (b : Bytes) (h : (skipOne b).isSome) : skipOneM true b = skipOne b := by
  cases hs : skipOne b with
  | none => simp [hs] at h
  | some r => exact skipOne_mono b r hs

theorem skipAll_monoEq : ∀ (fuel : Nat) (b : Bytes), skipAll fuel b = true → skipAllM true fuel b = true := by
  intro fuel
  induction fuel with
  | zero => intro b h; simpa [skipAll, skipAllM] using h
  | succ n ih =>
    intro b h
    simp only [skipAll] at h
    simp only [skipAllM]
    split at h
    · simp_all
    · rename_i hb
      simp only [hb, if_false]
      cases hs : skipOne b with
      | none => simp [hs] at h
      | some r =>
        simp only [hs] at h
        rw [skipOne_mono b r hs]
        exact ih r h

theorem bitStringTake_monoEq (c : Bytes) (h : (Manifest.bitStringTake c).isSome) :
    Manifest.bitStringTakeM true c = Manifest.bitStringTake c := by
  cases hb : Manifest.bitStringTake c with
  | none => simp [hb] at h
  | some x => exact bitStringTake_mono c x hb

/-- the generic loops: monotone when the item function is -/
theorem foldCons_monoEq {σ : Type} (tag : Nat) (f fM : σ → Bytes → Option σ)
    (hf : ∀ s c, (f s c).isSome → fM s c = f s c) :
    ∀ (fuel : Nat) (b : Bytes) (s : σ), (foldCons tag f fuel b s).isSome →
      foldConsM true tag fM fuel b s = foldCons tag f fuel b s := by
  intro fuel
  induction fuel with
  | zero => intro b s _; rfl
  | succ n ih =>
    intro b s h
    simp only [foldCons] at h ⊢
    simp only [foldConsM]
    cases hp : takeOptCons tag b with
    | bad => simp [hp] at h
    | absent => rw [takeOptCons_absent_mono _ _ hp]
    | ok c rest =>
      rw [takeOptCons_mono _ _ _ _ hp]
      simp only [hp] at h ⊢
      cases hfc : f s c with
      | none => simp [hfc] at h
      | some s' =>
        rw [hf s c (by simp [hfc]), hfc]
        simp only [hfc] at h
        exact ih rest s' h

theorem foldPrim_monoEq {σ : Type} (tag : Nat) (f : σ → Bytes → Option σ) :
    ∀ (fuel : Nat) (b : Bytes) (s : σ), (foldPrim tag f fuel b s).isSome →
      foldPrimM true tag f fuel b s = foldPrim tag f fuel b s := by
  intro fuel
  induction fuel with
  | zero => intro b s _; rfl
  | succ n ih =>
    intro b s h
    simp only [foldPrim] at h ⊢
    simp only [foldPrimM]
    cases hp : takeOptPrim tag b with
    | bad => simp [hp] at h
    | absent => rw [takeOptPrim_absent_mono _ _ hp]
    | ok c rest =>
      rw [takeOptPrim_mono _ _ _ _ hp]
      simp only [hp] at h ⊢
      cases hfc : f s c with
      | none => simp [hfc] at h
      | some s' =>
        simp only [hfc] at h ⊢
        exact ih rest s' h

theorem capturePass_monoEq {α : Type} (take takeM : Bytes → Take α) (check : α → Bool)
    (ht : ∀ b, take b ≠ .bad → takeM b = take b) :
    ∀ (fuel : Nat) (b : Bytes) (n : Nat), (capturePass take check fuel b n).isSome →
      capturePass takeM check fuel b n = capturePass take check fuel b n := by
  intro fuel
  induction fuel with
  | zero => intro b n _; rfl
  | succ k ih =>
    intro b n h
    simp only [capturePass] at h ⊢
    cases hp : take b with
    | bad => simp [hp] at h
    | absent => rw [ht b (by simp [hp]), hp]
    | ok a rest =>
      rw [ht b (by simp [hp]), hp]
      simp only [hp] at h ⊢
      split
      · rename_i hc; simp only [hc, if_true] at h; exact ih rest (n + 1) h
      · rfl

theorem iteratePass_monoEq {α : Type} (take takeM : Bytes → Take α)
    (ht : ∀ b, take b ≠ .bad → takeM b = take b) :
    ∀ (fuel : Nat) (b : Bytes), (iteratePass take fuel b).isSome → iteratePass takeM fuel b = iteratePass take fuel b := by
  intro fuel
  induction fuel with
  | zero => intro b _; rfl
  | succ k ih =>
    intro b h
    simp only [iteratePass] at h ⊢
    cases hp : take b with
    | bad => simp [hp] at h
    | absent => rw [ht b (by simp [hp]), hp]
    | ok a rest =>
      rw [ht b (by simp [hp]), hp]
      simp only [hp] at h ⊢
      cases hi : iteratePass take k rest with
      | none => simp [hi] at h
      | some l => rw [ih rest (by simp [hi]), hi]

end Rpki
