/-
  Every value the DER readers read is read by the BER readers as the same value: the relaxed mode only admits more.
-/
import Rpki.Proofs.BerLeaf
namespace Rpki
open Rpki.Der Rpki.CertDer

theorem readLen_mono (b : Bytes) (x : Nat × Bytes) (h : readLen b = some x) : readLenM true b = some x := by
  unfold readLen at h
  unfold readLenM
  cases b with
  | nil => cases h
  | cons n r =>
    simp only at h ⊢
    simp only [true_or, if_true]
    repeat' split at h
    all_goals first
      | (cases h; done)
      | (simp_all; done)
      | skip
    all_goals simp_all

theorem readLenX_mono (b : Bytes) (x : Len × Bytes) (h : readLenX b = some x) : readLenXM true b = some x := by
  unfold readLenX at h
  unfold readLenXM
  split at h
  · exact h
  · rename_i hne
    cases hl : readLen b with
    | none => simp [hl] at h
    | some p =>
      rw [hl] at h
      rw [readLen_mono b p hl]
      split
      · rename_i r0
        exact absurd rfl (hne r0)
      · exact h

theorem skipLoop_mono : ∀ (fuel : Nat) (cur : Bytes) (st : List Frame) (rest : Bytes),
    skipLoop fuel cur st = some rest → skipLoopM true fuel cur st = some rest := by
  intro fuel
  induction fuel with
  | zero => intro cur st rest h; simp [skipLoop] at h
  | succ n ih =>
    intro cur st rest h
    simp only [skipLoop] at h
    simp only [skipLoopM]
    cases ht : takeTagAny cur with
    | none => simp [ht] at h
    | some p =>
      obtain ⟨t, r⟩ := p
      simp only [ht] at h ⊢
      cases hl : readLenX r with
      | none => simp [hl] at h
      | some q =>
        obtain ⟨len, r'⟩ := q
        rw [readLenX_mono r _ hl]
        simp only [hl] at h ⊢
        -- the two sides now differ only in the recursive calls
        repeat' split at h
        all_goals first
          | (cases h; done)
          | (simp_all; done)
          | (have := ih _ _ _ h; simp_all; done)

theorem skipOne_mono (b rest : Bytes) (h : skipOne b = some rest) : skipOneM true b = some rest :=
  skipLoop_mono _ b [] rest h

theorem readTlv_mono (b : Bytes) (x : Nat × Bytes × Bytes) (h : readTlv b = some x) : readTlvM true b = some x := by
  unfold readTlv at h
  unfold readTlvM readTlvIM
  cases b with
  | nil => cases h
  | cons t r =>
    simp only at h ⊢
    split at h
    · cases h
    · rename_i ht
      simp only [ht, if_false]
      cases hl : readLen r with
      | none => simp [hl] at h
      | some p =>
        obtain ⟨l, r'⟩ := p
        simp only [hl] at h
        have hx : readLenX r = some (.definite l, r') := by
          unfold readLenX
          split
          · rename_i r0; rw [readLen_indef] at hl; cases hl
          · rw [hl]; rfl
        rw [readLenX_mono r _ hx]
        split at h
        · cases h
        · rename_i hlen
          injection h with h
          subst h
          simp [hlen]

theorem takeOptCons_mono (tag : Nat) (b c rest : Bytes) (h : takeOptCons tag b = .ok c rest) :
    takeOptConsM true tag b = .ok c rest := by
  unfold takeOptCons at h
  unfold takeOptConsM takeOptConsIM
  cases b with
  | nil => cases h
  | cons t r =>
    simp only at h ⊢
    repeat' split at h
    all_goals first
      | (cases h; done)
      | skip
    rename_i hr
    injection h with hc hrest
    subst hc hrest
    have := readTlv_mono _ _ hr
    unfold readTlvM at this
    cases hi : readTlvIM true (t :: r) with
    | none => rw [hi] at this; cases this
    | some q =>
      obtain ⟨a, c1, r1, i⟩ := q
      rw [hi] at this
      simp only [Option.map_some, Option.some.injEq, Prod.mk.injEq] at this
      obtain ⟨_, rfl, rfl⟩ := this
      simp_all

theorem takeOptCons_absent_mono (tag : Nat) (b : Bytes) (h : takeOptCons tag b = .absent) :
    takeOptConsM true tag b = .absent := by
  unfold takeOptCons at h
  unfold takeOptConsM takeOptConsIM
  cases b with
  | nil => rfl
  | cons t r =>
    simp only at h ⊢
    repeat' split at h
    all_goals first
      | (cases h; done)
      | (simp_all; done)

theorem takeOptPrim_mono (tag : Nat) (b c rest : Bytes) (h : takeOptPrim tag b = .ok c rest) :
    takeOptPrimM true tag b = .ok c rest := by
  unfold takeOptPrim at h
  unfold takeOptPrimM
  cases b with
  | nil => cases h
  | cons t r =>
    simp only at h ⊢
    repeat' split at h
    all_goals first
      | (cases h; done)
      | skip
    rename_i hr
    injection h with hc hrest
    subst hc hrest
    have := readTlv_mono _ _ hr
    simp_all

theorem takeOptPrim_absent_mono (tag : Nat) (b : Bytes) (h : takeOptPrim tag b = .absent) :
    takeOptPrimM true tag b = .absent := by
  unfold takeOptPrim at h
  unfold takeOptPrimM
  cases b with
  | nil => rfl
  | cons t r =>
    simp only at h ⊢
    repeat' split at h
    all_goals first
      | (cases h; done)
      | (simp_all; done)

theorem takeOptBool_mono (b : Bytes) (x : Bool) (rest : Bytes) (h : takeOptBool b = .ok x rest) :
    takeOptBoolM true b = .ok x rest := by
  unfold takeOptBool at h
  unfold takeOptBoolM
  cases hp : takeOptPrim tagBool b with
  | absent => simp [hp] at h
  | bad => simp [hp] at h
  | ok c r =>
    rw [takeOptPrim_mono _ _ _ _ hp]
    simp only [hp] at h
    split at h
    · rename_i hc; subst hc; injection h with h1 h2; subst h1 h2; rfl
    · split at h
      · rename_i hc; subst hc; injection h with h1 h2; subst h1 h2; rfl
      · cases h

theorem bitStringTake_mono (c : Bytes) (x : Nat × Bytes) (h : Manifest.bitStringTake c = some x) :
    Manifest.bitStringTakeM true c = some x := by
  unfold Manifest.bitStringTake at h
  unfold Manifest.bitStringTakeM
  cases c with
  | nil => cases h
  | cons u bits =>
    simp only at h ⊢
    repeat' split at h
    all_goals first
      | (cases h; done)
      | (simp_all; done)

end Rpki
