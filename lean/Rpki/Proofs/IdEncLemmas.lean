/-
  `SigMsgDer.decodeTbsId` / `decodeIdCert` read back what `IdEnc.encodeTbsId` / `encodeIdCert` write
  (`TbsIdCert::encode_ref`, `IdCert::encode_ref` / `TbsIdCert::from_constructed`, `IdCert::decode`).
-/
import Rpki.Model.IdEnc
import Rpki.Proofs.CertEncLemmas
import Rpki.Proofs.CertEncCert
namespace Rpki.IdEnc
open Rpki.Der Rpki.CertDer Rpki.SigMsgDer Rpki.CertEnc Rpki.Consts

theorem takeOptBool_octet (v : Bytes) : takeOptBool (tlv tagOctetString v) = .absent := by
  unfold takeOptBool
  have := takeOptPrim_other tagBool tagOctetString v [] (by decide) (by decide)
  rw [List.append_nil] at this
  rw [this]

theorem idExtension_bc (e : IdExts) (ca : Bool) (he : e.basicCa = none) :
    idExtension e (bcBody ca) = some { e with basicCa := some ca } := by
  unfold idExtension idExtValue bcBody extBody
  rw [List.append_assoc, takeOid_tlv oidBasicConstraints _ (by decide)]
  simp only [if_true, takeOptBool_true, takePrim_tlv_nil tagOctetString _ (by decide) (by decide)]
  simp only [he, takeCons_tlv_nil tagSeq _ (by decide) (by decide), ne_eq, not_true_eq_false, if_false, if_true,
    Option.isSome_none, Bool.false_eq_true]
  cases ca with
  | true =>
    have := takeOptBool_true []
    rw [List.append_nil] at this
    simp [this, takeOptPrim]
  | false => simp [takeOptBool, takeOptPrim]

theorem idExtension_ski (e : IdExts) (k : Bytes) (hk : k.length = 20) (he : e.ski = none) :
    idExtension e (skiBody k) = some { e with ski := some k } := by
  unfold idExtension idExtValue skiBody extBody
  rw [List.append_assoc, takeOid_tlv oidSubjectKeyId _ (by decide)]
  have h1 : ¬ oidSubjectKeyId = oidBasicConstraints := by decide
  simp only [Bool.false_eq_true, if_false, List.nil_append, takeOptBool_octet,
    takePrim_tlv_nil tagOctetString _ (by decide) (by decide)]
  simp [he, h1, keyIdOk, hk]

theorem idExtension_aki (e : IdExts) (k : Bytes) (hk : k.length = 20) :
    idExtension e (akiBody k) = some { e with aki := some k } := by
  unfold idExtension idExtValue akiBody extBody
  rw [List.append_assoc, takeOid_tlv oidAuthorityKeyId _ (by decide)]
  have h1 : ¬ oidAuthorityKeyId = oidBasicConstraints := by decide
  have h2 : ¬ oidAuthorityKeyId = oidSubjectKeyId := by decide
  have h3 : takeOptPrim 0x80 (tlv 0x80 k) = .ok k [] := by
    have := takeOptPrim_tlv' 0x80 k [] (by decide) (by decide)
    rwa [List.append_nil] at this
  simp only [Bool.false_eq_true, if_false, List.nil_append, takeOptBool_octet,
    takePrim_tlv_nil tagOctetString _ (by decide) (by decide)]
  simp [h1, h2, h3, takeCons_tlv_nil tagSeq _ (by decide) (by decide), keyIdOk, hk, skipAll]

/-- the fields of an identity certificate are in the profile -/
structure WF (d : IdCertD) : Prop where
  serial : X509.VS d.serial
  issuer : NameOk d.issuer
  subject : NameOk d.subject
  nb : X509.validCivil d.notBefore = true ∧ d.notBefore.y ≤ 9999
  na : X509.validCivil d.notAfter = true ∧ d.notAfter.y ≤ 9999
  key : Manifest.bitStringTake (d.keyUnused :: d.keyBits) = some (d.keyUnused, d.keyBits)
  ski : d.ski.length = 20
  aki : ∀ k, d.aki = some k → k.length = 20

/-- what the reader returns for the written fields: the same fields, the validity as instants, and the
octets and signature it was given -/
def readBack (d : IdCertD) (raw signature : Bytes) : IdCertD :=
  { d with validity := ⟨civilToEpoch d.notBefore, civilToEpoch d.notAfter⟩, tbs := raw, signature := signature }

theorem idExtItems_fold (d : IdCertD) (h : WF d) :
    (idExtItems d).foldlM idExtension {} = some { basicCa := d.basicCa, ski := some d.ski, aki := d.aki } := by
  obtain ⟨serial, issuer, subject, validity, notBefore, notAfter, keyAlg, keyUnused, keyBits, basicCa, ski, aki, tbs,
    signature⟩ := d
  have hski := h.ski; have haki := h.aki
  simp only at hski haki
  unfold idExtItems
  simp only [List.foldlM_append]
  cases basicCa with
  | none =>
    cases aki with
    | none => simp [idExtension_ski {} ski hski rfl]
    | some k => simp [idExtension_ski {} ski hski rfl, idExtension_aki _ k (haki k rfl)]
  | some ca =>
    cases aki with
    | none => simp [idExtension_bc {} ca rfl, idExtension_ski { basicCa := some ca } ski hski rfl]
    | some k => simp [idExtension_bc {} ca rfl, idExtension_ski { basicCa := some ca } ski hski rfl, idExtension_aki _ k (haki k rfl)]

/-- **`TbsIdCert::from_constructed` reads back what `TbsIdCert::encode_ref` writes.** -/
theorem decodeTbsId_encodeTbsId (d : IdCertD) (h : WF d) (sig : Bytes) :
    decodeTbsId (encodeTbsId d) sig = some (readBack d (encodeTbsId d) sig) := by
  have hfold := idExtItems_fold d h
  have hser := (C17.serial_der_roundtrip d.serial h.serial).1
  unfold decodeTbsId
  have e0 : encodeTbsId d =
      tlv tagSeq (tlv 0xA0 (tlv tagInt [2]) ++ (tlv tagInt (X509.encodeContent d.serial) ++ (sigAlgEnc ++ (d.issuer ++ (tlv tagSeq (timeTlv d.notBefore ++ timeTlv d.notAfter) ++ (d.subject ++ (publicKeyEnc d.keyAlg d.keyUnused d.keyBits ++ tlv 0xA3 (tlv tagSeq (seqs (idExtItems d)))))))))) := by
    unfold encodeTbsId; simp only [List.append_assoc]
  rw [e0, takeCons_tlv_nil tagSeq _ (by decide) (by decide)]
  dsimp only
  rw [AsDer.takeCons_tlv' 0xA0 _ _ (by decide) (by decide)]
  dsimp only
  rw [takePrim_tlv_nil tagInt [2] (by decide) (by decide)]
  dsimp only
  simp only [ne_eq, not_true_eq_false, or_self, if_false]
  rw [IpDer.takePrim_tlv' tagInt _ _ (by decide) (by decide)]
  dsimp only
  rw [hser]
  dsimp only
  rw [takeSigAlg_enc]
  dsimp only
  rw [h.issuer]
  dsimp only
  rw [takeValidityCivil_enc _ _ _ h.nb h.na]
  dsimp only
  rw [h.subject]
  dsimp only
  rw [takePublicKey_enc _ _ _ _ h.key]
  dsimp only
  have hx : takeOptCons 0xA3 (tlv 0xA3 (tlv tagSeq (seqs (idExtItems d)))) = .ok (tlv tagSeq (seqs (idExtItems d))) [] := by
    have := takeOptCons_tlv' 0xA3 (tlv tagSeq (seqs (idExtItems d))) [] (by decide) (by decide)
    rwa [List.append_nil] at this
  unfold idExtsOf
  rw [hx]
  dsimp only
  try simp only [ne_eq, not_true_eq_false, if_false]
  rw [takeCons_tlv_nil tagSeq _ (by decide) (by decide)]
  dsimp only
  simp only [not_true_eq_false, if_false]
  unfold seqs at e0 ⊢
  rw [foldCons_items' tagSeq (by decide) (by decide) idExtension (idExtItems d) {}, hfold]
  dsimp only
  rw [← e0]
  rfl

end Rpki.IdEnc

namespace Rpki.IdEnc
open Rpki.Der Rpki.CertDer Rpki.SigMsgDer Rpki.CertEnc Rpki.Consts

theorem idExtItems_forest (d : IdCertD) : ∀ x ∈ idExtItems d, Forest x := by
  intro x hx
  unfold idExtItems at hx
  simp only [List.mem_append, List.mem_cons, List.mem_nil_iff, or_false, Option.mem_toList, Option.map_eq_some_iff] at hx
  rcases hx with (⟨a, _, rfl⟩ | rfl) | ⟨a, _, rfl⟩
  · exact forest_extBody _ _ _
  · exact forest_extBody _ _ _
  · exact forest_extBody _ _ _

theorem encodeTbsId_forest (d : IdCertD) (hi : Forest d.issuer) (hs : Forest d.subject) :
    ∃ body, encodeTbsId d = tlv tagSeq body ∧ Forest body := by
  refine ⟨_, rfl, ?_⟩
  refine forest_append (forest_append (forest_append (forest_append (forest_append (forest_append (forest_append ?_ ?_) ?_) ?_) ?_) ?_) ?_) ?_
  · exact forest_cons1 0xA0 _ (by decide) (by decide) (forest_prim1 tagInt [2] (by decide) (by decide) (by decide))
  · exact forest_prim1 tagInt _ (by decide) (by decide) (by decide)
  · exact forest_sigAlg
  · exact hi
  · exact forest_cons1 tagSeq _ (by decide) (by decide) (forest_append (forest_timeTlv _) (forest_timeTlv _))
  · exact hs
  · exact forest_publicKey _ _ _
  · exact forest_cons1 0xA3 _ (by decide) (by decide)
      (forest_cons1 tagSeq _ (by decide) (by decide) (forest_seqs _ (idExtItems_forest d)))

/-- **`IdCert::decode` reads back what `IdCert::to_captured` writes** (trailing octets after the certificate are
ignored by `decode`, as bcder's `Mode::decode` … `take_from` on a `Constructed` does for this entry point). -/
theorem decodeIdCert_encodeIdCert (d : IdCertD) (h : WF d) (hi : Forest d.issuer) (hs : Forest d.subject)
    (signature rest : Bytes) :
    decodeIdCert (encodeIdCert d signature ++ rest) = some (readBack d (encodeTbsId d) signature) := by
  obtain ⟨body, hb, hf⟩ := encodeTbsId_forest d hi hs
  unfold decodeIdCert encodeIdCert
  rw [AsDer.takeCons_tlv' tagSeq _ rest (by decide) (by decide)]
  dsimp only
  unfold idCertBody
  have hne : encodeTbsId d ++ sigAlgEnc ++ tlv tagBitString (0 :: signature) ≠ [] := by
    rw [hb]; simp [tlv]
  simp only [hne, if_false]
  have hskip : skipOne (encodeTbsId d ++ sigAlgEnc ++ tlv tagBitString (0 :: signature)) =
      some (sigAlgEnc ++ tlv tagBitString (0 :: signature)) := by
    rw [List.append_assoc, hb]
    exact skipOne_cons tagSeq body _ (by decide) (by decide) hf
  rw [hskip]
  dsimp only
  have hraw : List.take ((encodeTbsId d ++ sigAlgEnc ++ tlv tagBitString (0 :: signature)).length -
      (sigAlgEnc ++ tlv tagBitString (0 :: signature)).length)
      (encodeTbsId d ++ sigAlgEnc ++ tlv tagBitString (0 :: signature)) = encodeTbsId d := by
    rw [List.append_assoc, List.length_append, Nat.add_sub_cancel]
    exact List.take_left' rfl
  rw [hraw, takeSigAlg_enc]
  dsimp only
  have hbs := takeBitString_enc 0 signature [] (by simp [Manifest.bitStringTake])
  rw [List.append_nil] at hbs
  rw [hbs]
  dsimp only
  simp [decodeTbsId_encodeTbsId d h signature]

end Rpki.IdEnc
