import Rpki.Model.X509
namespace Rpki.X509
open Rpki.Consts

theorem digitsOnly : timeDigitsOnly = true := rfl

theorem rustU32_digits (s : Bytes) : rustU32 s = if s ≠ [] ∧ s.all isDigit then some (digitsVal s 0) else none := by
  unfold rustU32; simp [digitsOnly]

theorem isDigit_iff (b : Nat) : isDigit b = true ↔ 48 ≤ b ∧ b ≤ 57 := by
  unfold isDigit; simp

theorem pad2_digits (n : Nat) : (pad2 n).all isDigit = true := by
  unfold pad2
  simp only [List.all_cons, List.all_nil, Bool.and_true, Bool.and_eq_true, isDigit_iff]
  omega

theorem pad4_digits (n : Nat) : (pad4 n).all isDigit = true := by
  unfold pad4
  simp only [List.all_cons, List.all_nil, Bool.and_true, Bool.and_eq_true, isDigit_iff]
  omega

theorem digitsVal_pad2 (n : Nat) (h : n < 100) : digitsVal (pad2 n) 0 = n := by
  unfold pad2; simp only [digitsVal]; omega

theorem digitsVal_pad4 (n : Nat) (h : n < 10000) : digitsVal (pad4 n) 0 = n := by
  unfold pad4; simp only [digitsVal]; omega

theorem readChars_pad2 (n : Nat) (rest : Bytes) (h : n < 100) :
    readChars 2 (pad2 n ++ rest) = some (n, rest) := by
  unfold readChars
  have hl : ¬ (pad2 n ++ rest).length < 2 := by simp [pad2]
  have ht : (pad2 n ++ rest).take 2 = pad2 n := by simp [pad2]
  have hd : (pad2 n ++ rest).drop 2 = rest := by simp [pad2]
  simp only [hl, if_false, ht, hd, rustU32_digits, pad2_digits, digitsVal_pad2 n h]
  simp [pad2]

theorem readChars_pad4 (n : Nat) (rest : Bytes) (h : n < 10000) :
    readChars 4 (pad4 n ++ rest) = some (n, rest) := by
  unfold readChars
  have hl : ¬ (pad4 n ++ rest).length < 4 := by simp [pad4]
  have ht : (pad4 n ++ rest).take 4 = pad4 n := by simp [pad4]
  have hd : (pad4 n ++ rest).drop 4 = rest := by simp [pad4]
  simp only [hl, if_false, ht, hd, rustU32_digits, pad4_digits, digitsVal_pad4 n h]
  simp [pad4]

theorem daysIn_le (y m : Nat) : daysIn y m ≤ 31 := by
  unfold daysIn; split
  · omega
  · split
    · omega
    · split
      · split <;> omega
      · omega

theorem validCivil_bounds {c : Civil} (h : validCivil c = true) :
    1 ≤ c.m ∧ c.m ≤ 12 ∧ 1 ≤ c.d ∧ c.d ≤ daysIn c.y c.m ∧ c.h < 24 ∧ c.mi < 60 ∧ c.s < 60 := by
  unfold validCivil at h
  simp only [Bool.and_eq_true, decide_eq_true_eq] at h
  omega

theorem readRest_render (c : Civil) (hv : validCivil c = true) :
    readRest c.y (pad2 c.m ++ pad2 c.d ++ pad2 c.h ++ pad2 c.mi ++ pad2 c.s ++ [90]) = some c := by
  have ⟨_, h1, _, h2, h3, h4, h5⟩ := validCivil_bounds hv
  have hd := daysIn_le c.y c.m
  unfold readRest
  simp only [List.append_assoc]
  rw [readChars_pad2 _ _ (by omega)]; simp only
  rw [readChars_pad2 _ _ (by omega)]; simp only
  rw [readChars_pad2 _ _ (by omega)]; simp only
  rw [readChars_pad2 _ _ (by omega)]; simp only
  rw [readChars_pad2 _ _ (by omega)]; simp only
  simp [hv]

/-- Every calendar second of the years 0–9999 encodes and decodes back to the same civil time
(for both decoders, which carry their own pivot constant). -/
theorem time_roundtrip_with (pivot : Nat) (hp : pivot = 50) (c : Civil) (hv : validCivil c = true) (hy : c.y ≤ 9999) :
    decodeTimeWith pivot (encodeVaried c).1 (encodeVaried c).2 = some c := by
  subst hp
  unfold encodeVaried utcYearMin utcYearMax
  by_cases hw : c.y < 1950 ∨ c.y > 2049
  · simp only [hw, if_true]
    unfold decodeTimeWith
    simp only
    rw [List.append_assoc, readChars_pad4 _ _ (by omega)]
    simp only
    have := readRest_render c hv
    simp only [List.append_assoc] at this ⊢
    exact this
  · simp only [hw, if_false]
    unfold decodeTimeWith
    simp only
    rw [List.append_assoc, readChars_pad2 _ _ (Nat.mod_lt _ (by decide))]
    simp only
    have hyy : (if c.y % 100 ≥ 50 then c.y % 100 + 1900 else c.y % 100 + 2000) = c.y := by
      split <;> omega
    rw [hyy]
    have := readRest_render c hv
    simp only [List.append_assoc] at this ⊢
    exact this

/-! ### soundness of decoding -/

theorem two_digits (a b : Nat) (ha : isDigit a = true) (hb : isDigit b = true) :
    digitsVal [a, b] 0 < 100 ∧ pad2 (digitsVal [a, b] 0) = [a, b] := by
  rw [isDigit_iff] at ha hb
  simp only [digitsVal, pad2]
  refine ⟨by omega, ?_⟩
  congr 1
  · omega
  · congr 1; omega

theorem four_digits (a b c d : Nat) (ha : isDigit a = true) (hb : isDigit b = true)
    (hc : isDigit c = true) (hd : isDigit d = true) :
    digitsVal [a, b, c, d] 0 < 10000 ∧ pad4 (digitsVal [a, b, c, d] 0) = [a, b, c, d] := by
  rw [isDigit_iff] at ha hb hc hd
  simp only [digitsVal, pad4]
  refine ⟨by omega, ?_⟩
  congr 1
  · omega
  · congr 1
    · omega
    · congr 1
      · omega
      · congr 1; omega

theorem readChars2_inv (src : Bytes) (v : Nat) (rest : Bytes) (h : readChars 2 src = some (v, rest)) :
    src = pad2 v ++ rest ∧ v < 100 := by
  unfold readChars at h
  match src with
  | [] => simp at h
  | [_] => simp at h
  | a :: b :: tl =>
    simp only [List.length_cons, rustU32_digits, List.take_succ_cons, List.take_zero,
      List.drop_succ_cons, List.drop_zero] at h
    have hl : ¬ (tl.length + 1 + 1 < 2) := by omega
    simp only [hl, if_false] at h
    by_cases hd : isDigit a = true ∧ isDigit b = true
    · have hc : ([a, b] ≠ [] ∧ [a, b].all isDigit = true) := by simp [hd.1, hd.2]
      simp only [hc, and_self, if_true] at h
      injection h with h; injection h with h1 h2
      have := two_digits a b hd.1 hd.2
      subst h1; subst h2
      exact ⟨by rw [this.2]; rfl, this.1⟩
    · have hc : ¬ ([a, b] ≠ [] ∧ [a, b].all isDigit = true) := by
        simp only [List.all_cons, List.all_nil, Bool.and_true, Bool.and_eq_true]
        intro hh; exact hd hh.2
      simp [hd] at h

theorem readChars4_inv (src : Bytes) (v : Nat) (rest : Bytes) (h : readChars 4 src = some (v, rest)) :
    src = pad4 v ++ rest ∧ v < 10000 := by
  unfold readChars at h
  match src with
  | [] => simp at h
  | [_] => simp at h
  | [_, _] => simp at h
  | [_, _, _] => simp at h
  | a :: b :: c :: d :: tl =>
    simp only [List.length_cons, rustU32_digits, List.take_succ_cons, List.take_zero,
      List.drop_succ_cons, List.drop_zero] at h
    have hl : ¬ (tl.length + 1 + 1 + 1 + 1 < 4) := by omega
    simp only [hl, if_false] at h
    by_cases hd : isDigit a = true ∧ isDigit b = true ∧ isDigit c = true ∧ isDigit d = true
    · have hc : ([a, b, c, d] ≠ [] ∧ [a, b, c, d].all isDigit = true) := by
        simp [hd.1, hd.2.1, hd.2.2.1, hd.2.2.2]
      simp only [hc, and_self, if_true] at h
      injection h with h; injection h with h1 h2
      have := four_digits a b c d hd.1 hd.2.1 hd.2.2.1 hd.2.2.2
      subst h1; subst h2
      exact ⟨by rw [this.2]; rfl, this.1⟩
    · have hc : ¬ ([a, b, c, d] ≠ [] ∧ [a, b, c, d].all isDigit = true) := by
        simp only [List.all_cons, List.all_nil, Bool.and_true, Bool.and_eq_true]
        intro hh; exact hd hh.2
      simp [hd] at h

theorem readRest_inv (y : Nat) (src : Bytes) (c : Civil) (h : readRest y src = some c) :
    validCivil c = true ∧ c.y = y ∧
    src = pad2 c.m ++ pad2 c.d ++ pad2 c.h ++ pad2 c.mi ++ pad2 c.s ++ [90] := by
  unfold readRest at h
  cases h1 : readChars 2 src with
  | none => simp [h1] at h
  | some p1 =>
    obtain ⟨m, r1⟩ := p1
    simp only [h1] at h
    cases h2 : readChars 2 r1 with
    | none => simp [h2] at h
    | some p2 =>
      obtain ⟨d, r2⟩ := p2
      simp only [h2] at h
      cases h3 : readChars 2 r2 with
      | none => simp [h3] at h
      | some p3 =>
        obtain ⟨hh, r3⟩ := p3
        simp only [h3] at h
        cases h4 : readChars 2 r3 with
        | none => simp [h4] at h
        | some p4 =>
          obtain ⟨mi, r4⟩ := p4
          simp only [h4] at h
          cases h5 : readChars 2 r4 with
          | none => simp [h5] at h
          | some p5 =>
            obtain ⟨s, r5⟩ := p5
            simp only [h5] at h
            by_cases hz : r5 = [90]
            · simp only [hz, if_true] at h
              by_cases hv : validCivil ⟨y, m, d, hh, mi, s⟩ = true
              · simp only [hv, if_true] at h
                injection h with h
                subst h
                have e1 := (readChars2_inv _ _ _ h1).1
                have e2 := (readChars2_inv _ _ _ h2).1
                have e3 := (readChars2_inv _ _ _ h3).1
                have e4 := (readChars2_inv _ _ _ h4).1
                have e5 := (readChars2_inv _ _ _ h5).1
                refine ⟨hv, rfl, ?_⟩
                simp only
                rw [e1, e2, e3, e4, e5, hz]
                simp
              · simp [hv] at h
            · simp [hz] at h

end Rpki.X509
