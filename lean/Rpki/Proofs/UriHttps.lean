import Rpki.Proofs.UriRsync5
namespace Rpki.Uri
open Rpki.Consts

/-- The representation invariant of `Https`. -/
def Https.Inv (u : Https) : Prop :=
  checkUriAscii u.uri = true ∧ startsWithIgnoreCase u.uri httpsScheme = true ∧
  u.pathIdx = findSlashFrom u.uri 8

theorem Https.fromBytes_ok_iff (b : Bytes) (u : Https) :
    Https.fromBytes b = .ok u ↔ u.uri = b ∧ u.Inv := by
  unfold Https.fromBytes Https.Inv
  by_cases hc : checkUriAscii b = true
  · by_cases hs : startsWithIgnoreCase b httpsScheme = true
    · simp only [hc, hs, Bool.not_true, Bool.false_eq_true, if_false, if_true]
      constructor
      · intro h; injection h with h; subst h; exact ⟨rfl, hc, hs, rfl⟩
      · rintro ⟨e, _, _, hp⟩
        obtain ⟨uu, pi⟩ := u
        simp only at e hp; subst e; subst hp; rfl
    · simp only [hc, hs, Bool.not_true, Bool.false_eq_true, if_false]
      constructor
      · intro h; cases h
      · rintro ⟨e, _, hs', _⟩; rw [e] at hs'; exact absurd hs' hs
  · simp only [hc, Bool.not_false, if_true]
    constructor
    · intro h; cases h
    · rintro ⟨e, hc', _⟩; rw [e] at hc'; exact absurd hc' (by simpa using hc)

theorem Https.Inv.length_ge {u : Https} (h : u.Inv) : 8 ≤ u.uri.length := by
  have := startsWith_length h.2.1
  simpa [httpsScheme] using this

theorem findSlashFrom_le (b : Bytes) (s : Nat) (hs : s ≤ b.length) :
    s ≤ findSlashFrom b s ∧ findSlashFrom b s ≤ b.length := by
  unfold findSlashFrom
  cases h : (b.drop s).findIdx? (· = slash) with
  | none => simp; exact hs
  | some i =>
    have := (List.findIdx?_eq_some_iff_getElem.1 h).1
    simp at this ⊢; omega

/-- the path is empty exactly when there is no slash after the scheme -/
theorem Https.path_eq_nil_iff {u : Https} (h : u.Inv) :
    u.path = [] ↔ (u.uri.drop 8).findIdx? (· = slash) = none := by
  unfold Https.path
  rw [h.2.2]
  unfold findSlashFrom
  have hl := h.length_ge
  cases hf : (u.uri.drop 8).findIdx? (· = slash) with
  | none => simp
  | some i =>
    have := (List.findIdx?_eq_some_iff_getElem.1 hf).1
    simp at this ⊢; omega

/-- `join` keeps the invariant (this needs the separating slash also for a path-less base). -/
theorem Https.join_inv (u v : Https) (p : Bytes) (h : u.Inv) (hj : u.join p = .ok v) : v.Inv := by
  have hflag : httpsJoinSlashWhenEmpty = true := rfl
  unfold Https.join at hj
  have hc : checkUriAscii p = true := by
    by_cases hc : checkUriAscii p = true
    · exact hc
    · simp [hc] at hj
  simp only [hc, Bool.not_true, Bool.false_eq_true, if_false, hflag, if_true] at hj
  injection hj with hj
  subst hj
  have hl := h.length_ge
  obtain ⟨hch, hs, hpi⟩ := h
  refine ⟨?_, ?_, ?_⟩
  · simp only
    unfold checkUriAscii at *
    rw [List.all_append, List.all_append, hch, hc]
    split <;> simp [isUriAscii, inRanges, uriAsciiRanges, slash]
  · simp only
    rw [List.append_assoc]; exact startsWith_append _ hs
  · simp only
    rw [hpi]
    unfold findSlashFrom
    rw [List.append_assoc, List.drop_append_of_le_length hl, List.findIdx?_append]
    cases hf : (u.uri.drop 8).findIdx? (· = slash) with
    | some i => simp
    | none =>
      -- no slash so far: the path is empty, so a slash is inserted right at the end
      have hpe : u.path = [] := (Https.path_eq_nil_iff ⟨hch, hs, hpi⟩).2 hf
      have : (!endsWithSlash u.path) = true := by rw [hpe]; simp [endsWithSlash]
      simp only [this, if_true, Option.none_or]
      simp [List.findIdx?_cons, slash]
      omega

/-- `==` for HTTPS URIs is an equivalence (no invariant needed: the definition is symmetric). -/
theorem Https.eq_refl' (u : Https) : u.eq u = true := by
  unfold Https.eq; simp [eqIgnoreCase]

theorem Https.eq_symm' (u o : Https) (h : u.eq o = true) : o.eq u = true := by
  unfold Https.eq at *
  simp only [Bool.and_eq_true, beq_iff_eq, eqIgnoreCase_iff] at *
  obtain ⟨⟨a, b⟩, c⟩ := h
  rw [a] at c
  exact ⟨⟨a.symm, b.symm⟩, c.symm⟩

theorem Https.eq_trans' (u o w : Https) (h1 : u.eq o = true) (h2 : o.eq w = true) : u.eq w = true := by
  unfold Https.eq at *
  simp only [Bool.and_eq_true, beq_iff_eq, eqIgnoreCase_iff] at *
  obtain ⟨⟨a, b⟩, c⟩ := h1
  obtain ⟨⟨a', b'⟩, c'⟩ := h2
  rw [a] at c
  exact ⟨⟨a.trans a', b.trans b'⟩, by rw [a]; exact c.trans c'⟩

theorem Https.hash_of_eq' (u o : Https) (h : u.eq o = true) : u.hashKey = o.hashKey := by
  unfold Https.eq at h
  simp only [Bool.and_eq_true, beq_iff_eq, eqIgnoreCase_iff] at h
  obtain ⟨⟨a, b⟩, c⟩ := h
  unfold Https.hashKey
  rw [b, c, a]

/-- accessors recompose -/
theorem Https.recompose_of_inv {u : Https} (h : u.Inv) :
    u.uri = u.uri.take 8 ++ (u.authority ++ u.path) := by
  have hl := h.length_ge
  have := findSlashFrom_le u.uri 8 hl
  rw [← h.2.2] at this
  unfold Https.authority Https.path slice
  rw [List.drop_take]
  have e : u.uri.drop u.pathIdx = (u.uri.drop 8).drop (u.pathIdx - 8) := by
    rw [List.drop_drop]; congr 1; omega
  rw [e, List.take_append_drop, List.take_append_drop]

end Rpki.Uri
