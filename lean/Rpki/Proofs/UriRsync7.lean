import Rpki.Proofs.UriRsync6
namespace Rpki.Uri
open Rpki.Consts

/-! ### values sharing the module prefix -/

/-- a value whose text agrees with `u` up to the start of the path, with the same offsets,
is in the same module -/
theorem Rsync.eqModule_of_prefix (u v : Rsync) (hu : u.Inv) (hms : v.moduleStart = u.moduleStart)
    (hps : v.pathStart = u.pathStart) (hb : v.bytes.take u.pathStart = u.bytes.take u.pathStart) :
    v.eqModule u = true := by
  have hle := hu.ms_le
  rw [Rsync.eqModule_iff]
  refine ⟨hps, hms, ?_, ?_⟩
  · rw [hms]
    have : ∀ b : Bytes, b.take u.moduleStart = (b.take u.pathStart).take u.moduleStart := by
      intro b; rw [List.take_take, Nat.min_eq_left hle.2.1]
    rw [this v.bytes, this u.bytes, hb]
  · unfold slice
    rw [hms, hps, hb]

/-! ### 5. the result of `join` lies beneath the base -/

theorem Rsync.endsWithSlash_bytes {u : Rsync} (hu : u.Inv) :
    endsWithSlash u.bytes = (endsWithSlash u.path || decide (u.path = [])) := by
  have ⟨he, _⟩ := hu.module_ends
  by_cases hp : u.path = []
  · have : u.bytes = u.bytes.take u.pathStart := by
      conv => lhs; rw [u.bytes_split, hp]
      simp
    rw [this, he]; simp [hp]
  · conv => lhs; rw [u.bytes_split, endsWithSlash_append_of_ne hp]
    simp [hp]

/-- the text of a successful non-trivial `join`: module prefix, directory form of the base path, then `p` -/
theorem Rsync.join_bytes (u v : Rsync) (p : Bytes) (hu : u.Inv) (hj : u.join p = .ok v) (hp : p ≠ []) :
    v.bytes = u.bytes.take u.pathStart ++ (dirPath u.path ++ p) ∧ v.moduleStart = u.moduleStart ∧
      v.pathStart = u.pathStart := by
  unfold Rsync.join at hj
  simp only [hp, if_false] at hj
  split at hj
  · cases hj
  · split at hj
    · cases hj
    · injection hj with hj
      subst hj
      refine ⟨?_, rfl, rfl⟩
      simp only
      rw [Rsync.endsWithSlash_bytes hu, dirPath_eq]
      by_cases he : endsWithSlash u.path = true ∨ u.path = []
      · have : (endsWithSlash u.path || decide (u.path = [])) = true := by
          rcases he with e | e <;> simp [e]
        simp only [this, if_true, he]
        conv => lhs; rw [u.bytes_split]
        rw [List.append_assoc]
      · have : (endsWithSlash u.path || decide (u.path = [])) = false := by
          simp only [not_or] at he; simp [he.1, he.2]
        simp only [this, Bool.false_eq_true, if_false, he]
        conv => lhs; rw [u.bytes_split]
        simp [List.append_assoc]

theorem Rsync.join_path (u v : Rsync) (p : Bytes) (hu : u.Inv) (hj : u.join p = .ok v) (hp : p ≠ []) :
    v.path = dirPath u.path ++ p ∧ v.eqModule u = true := by
  obtain ⟨hb, hms, hps⟩ := Rsync.join_bytes u v p hu hj hp
  have ⟨_, hl⟩ := hu.module_ends
  constructor
  · unfold Rsync.path
    rw [hps]
    conv => lhs; rw [hb]
    exact List.drop_left' hl
  · apply Rsync.eqModule_of_prefix u v hu hms hps
    rw [hb]
    exact List.take_left' hl

theorem Rsync.relativeTo_self (u : Rsync) : u.relativeTo u = some [] := by
  rw [Rsync.relativeTo_empty_iff']
  refine ⟨Rsync.eqModule_refl u, ?_⟩
  rcases stripSlash_cases u.path with ⟨_, h2⟩ | ⟨h1, h2⟩
  · exact Or.inl h2.symm
  · right
    refine ⟨?_, h2⟩
    intro e; rw [e] at h1; simp [endsWithSlash] at h1

/-- `join(base, p)` lies beneath `base`: relative to the base it is exactly `p`, and for a non-empty `p`
the base is a parent of the result. -/
theorem Rsync.join_beneath (u v : Rsync) (p : Bytes) (hu : u.Inv) (hj : u.join p = .ok v) :
    v.relativeTo u = some p ∧ (p ≠ [] → u.isParentOf v = true) := by
  by_cases hp : p = []
  · subst hp
    have : v = u := by unfold Rsync.join at hj; simp at hj; exact hj.symm
    subst this
    exact ⟨Rsync.relativeTo_self v, fun h => absurd rfl h⟩
  · obtain ⟨e, hm⟩ := Rsync.join_path u v p hu hj hp
    exact ⟨Rsync.relativeTo_of_dirPath u v p hm e,
      fun _ => (Rsync.isParentOf_iff u v).2 ⟨hm, p, hp, e⟩⟩

/-! ### 6. a parent is a parent of its child -/

/-- the shape of `parent`: the text cut somewhere at or after the start of the path -/
theorem Rsync.parent_shape (u v : Rsync) (hp : u.parent = some v) :
    stripSlash u.path ≠ [] ∧
    ∃ k, v = { u with bytes := u.bytes.take (u.pathStart + k) } ∧
      (match rfindSlash (stripSlash u.path) with | some idx => k = idx + 1 | none => k = 0) := by
  have hp' : (if stripSlash u.path = [] then none else
      some ({ u with bytes := u.bytes.take (match rfindSlash (stripSlash u.path) with
        | some idx => u.pathStart + idx + 1
        | none => u.pathStart) } : Rsync)) = some v := hp
  by_cases hne : stripSlash u.path = []
  · simp [hne] at hp'
  · simp only [hne, if_false] at hp'
    injection hp' with hp'
    refine ⟨hne, ?_⟩
    cases hr : rfindSlash (stripSlash u.path) with
    | none => rw [hr] at hp'; simp only at hp'; exact ⟨0, by rw [← hp']; rfl, rfl⟩
    | some idx => rw [hr] at hp'; simp only at hp'; exact ⟨idx + 1, by rw [← hp', Nat.add_assoc], rfl⟩

theorem Rsync.parent_isParentOf (u v : Rsync) (hu : u.Inv) (hp : u.parent = some v) :
    v.isParentOf u = true := by
  obtain ⟨hne, k, hv, hk⟩ := Rsync.parent_shape u v hp
  have hle := hu.ms_le
  have hvp : v.path = u.path.take k := by
    subst hv
    unfold Rsync.path
    simp only
    rw [List.drop_take]; congr 1; omega
  have hm : u.eqModule v = true := by
    apply Rsync.eqModule_symm
    subst hv
    refine Rsync.eqModule_of_prefix u { u with bytes := u.bytes.take (u.pathStart + k) } hu rfl rfl ?_
    simp only
    rw [List.take_take, Nat.min_eq_left (by omega)]
  rw [Rsync.isParentOf_iff]
  refine ⟨hm, ?_⟩
  rw [hvp]
  cases hr : rfindSlash (stripSlash u.path) with
  | none =>
    rw [hr] at hk; subst hk
    refine ⟨u.path, ?_, by simp [dirPath]⟩
    intro e; rw [e, stripSlash_nil] at hne; exact hne rfl
  | some idx =>
    rw [hr] at hk; subst hk
    have hs := rfindSlash_spec _ idx hr
    generalize hsp : stripSlash u.path = sp at hs hne
    have hidx : idx < sp.length := by
      rcases Nat.lt_or_ge idx sp.length with h | h
      · exact h
      · rw [List.getElem?_eq_none h] at hs; cases hs
    have hq : sp = sp.take idx ++ slash :: sp.drop (idx + 1) := by
      have hd : sp.drop idx = slash :: sp.drop (idx + 1) := by
        rw [List.drop_eq_getElem_cons hidx]
        congr
        exact (List.getElem?_eq_some_iff.1 hs).2
      rw [← hd, List.take_append_drop]
    have htk : sp.take (idx + 1) = sp.take idx ++ [slash] := by
      rw [List.take_add_one, hs]; rfl
    -- u.path = sp ++ t
    obtain ⟨t, ht, htn⟩ : ∃ t, u.path = sp ++ t ∧ (t = [] → endsWithSlash sp = false) := by
      rcases stripSlash_cases u.path with ⟨h1, h2⟩ | ⟨_, h2⟩
      · exact ⟨[], by rw [← hsp, h2]; simp, fun _ => by rw [← hsp, h2]; exact h1⟩
      · exact ⟨[slash], by rw [← hsp]; exact h2, fun e => by cases e⟩
    have hpre : u.path.take (idx + 1) = sp.take idx ++ [slash] := by
      rw [ht, List.take_append_of_le_length (by omega), htk]
    refine ⟨sp.drop (idx + 1) ++ t, ?_, ?_⟩
    · intro e
      have e1 : sp.drop (idx + 1) = [] := (List.append_eq_nil_iff.1 e).1
      have e2 : t = [] := (List.append_eq_nil_iff.1 e).2
      have := htn e2
      rw [hq, e1] at this
      simp [endsWithSlash] at this
    · rw [hpre]
      have : dirPath (sp.take idx ++ [slash]) = sp.take idx ++ [slash] := by
        unfold dirPath; simp [stripSlash_snoc]
      rw [this, ht]
      conv => lhs; rw [hq]
      simp

/-! ### 4. `is_parent_of` agrees with URI equality -/

/-- from the module name on, the text is `moduleName/path` -/
theorem Rsync.Inv.drop_ms {u : Rsync} (h : u.Inv) :
    ∃ md, u.bytes.drop u.moduleStart = md ++ slash :: u.path ∧ slash ∉ md ∧
      u.pathStart = u.moduleStart + md.length + 1 := by
  obtain ⟨auth, md, path, hb, _, _, hpa, _, _, _, nm, h1, h2, _, h8⟩ := h.parts
  refine ⟨md, ?_, nm, by omega⟩
  have e : u.bytes = (u.bytes.take 8 ++ auth ++ [slash]) ++ (md ++ slash :: path) := by
    conv => lhs; rw [hb]
    simp
  rw [hpa, e]
  exact List.drop_left' (by simp [h8]; omega)

/-- equal URIs have the same path offset, the same path and the same module name -/
theorem Rsync.eq_parts (u o : Rsync) (hu : u.Inv) (ho : o.Inv) (h : u.eq o = true) :
    u.pathStart = o.pathStart ∧ u.path = o.path ∧
      slice u.bytes u.moduleStart u.pathStart = slice o.bytes o.moduleStart o.pathStart := by
  have ⟨hms, _, hd⟩ := (Rsync.eq_iff' u o hu ho).1 h
  obtain ⟨mu, eu, nu, pu⟩ := hu.drop_ms
  obtain ⟨mo, eo, no, po⟩ := ho.drop_ms
  have hmp : mu ++ slash :: u.path = mo ++ slash :: o.path := by rw [← eu, ← eo, hd]
  have hl : mu.length = mo.length := lower_first_slash _ _ _ _ nu no (congrArg (List.map toLower) hmp)
  have hps : u.pathStart = o.pathStart := by omega
  have ⟨_, e2⟩ := List.append_inj hmp hl
  refine ⟨hps, by injection e2, ?_⟩
  unfold slice
  rw [List.drop_take, List.drop_take, hd, hps, hms]

theorem Rsync.eqModule_congr_left (u u' o : Rsync) (hu : u.Inv) (hu' : u'.Inv) (h : u.eq u' = true)
    (hm : u.eqModule o = true) : u'.eqModule o = true := by
  have ⟨hms, hA, _⟩ := (Rsync.eq_iff' u u' hu hu').1 h
  have ⟨hps, _, hS⟩ := Rsync.eq_parts u u' hu hu' h
  have ⟨a, b, c, d⟩ := (Rsync.eqModule_iff u o).1 hm
  exact (Rsync.eqModule_iff u' o).2 ⟨hps.symm.trans a, hms.symm.trans b, hA.symm.trans c, hS.symm.trans d⟩

theorem Rsync.eqModule_congr (u u' o o' : Rsync) (hu : u.Inv) (hu' : u'.Inv) (ho : o.Inv) (ho' : o'.Inv)
    (h1 : u.eq u' = true) (h2 : o.eq o' = true) (hm : u.eqModule o = true) : u'.eqModule o' = true := by
  have s1 := Rsync.eqModule_congr_left u u' o hu hu' h1 hm
  have s2 := Rsync.eqModule_congr_left o o' u' ho ho' h2 (Rsync.eqModule_symm _ _ s1)
  exact Rsync.eqModule_symm _ _ s2

/-- `relative_to` gives the same answer on equal URIs -/
theorem Rsync.relativeTo_congr (u u' o o' : Rsync) (hu : u.Inv) (hu' : u'.Inv) (ho : o.Inv) (ho' : o'.Inv)
    (h1 : u.eq u' = true) (h2 : o.eq o' = true) : u.relativeTo o = u'.relativeTo o' := by
  have key : ∀ (a a' b b' : Rsync), a.Inv → a'.Inv → b.Inv → b'.Inv → a.eq a' = true → b.eq b' = true →
      ∀ p, a.relativeTo b = some p → a'.relativeTo b' = some p := by
    intro a a' b b' ha ha' hb hb' e1 e2 p hr
    rw [Rsync.relativeTo_eq_some_iff] at hr ⊢
    have ⟨_, pa, _⟩ := Rsync.eq_parts a a' ha ha' e1
    have ⟨_, pb, _⟩ := Rsync.eq_parts b b' hb hb' e2
    rw [← pa, ← pb]
    exact ⟨Rsync.eqModule_congr a a' b b' ha ha' hb hb' e1 e2 hr.1, hr.2⟩
  cases hr : u.relativeTo o with
  | some p => exact (key u u' o o' hu hu' ho ho' h1 h2 p hr).symm
  | none =>
    cases hr' : u'.relativeTo o' with
    | none => rfl
    | some p =>
      have := key u' u o' o hu' hu ho' ho (Rsync.eq_symm' _ _ hu hu' h1) (Rsync.eq_symm' _ _ ho ho' h2) p hr'
      rw [hr] at this; cases this

/-- the parent-of relation agrees with URI equality -/
theorem Rsync.isParentOf_congr (u u' o o' : Rsync) (hu : u.Inv) (hu' : u'.Inv) (ho : o.Inv) (ho' : o'.Inv)
    (h1 : u.eq u' = true) (h2 : o.eq o' = true) : u.isParentOf o = u'.isParentOf o' := by
  unfold Rsync.isParentOf
  rw [Rsync.relativeTo_congr o o' u u' ho ho' hu hu' h2 h1]

/-! ### concrete checks -/

def exA : Bytes := [114, 115, 121, 110, 99, 58, 47, 47, 104, 47, 109, 47, 97]   -- "rsync://h/m/a"
def exAs : Bytes := exA ++ [47]                                                    -- "rsync://h/m/a/"
def exAb : Bytes := exA ++ [47, 98]                                                -- "rsync://h/m/a/b"

example : (Rsync.fromBytes exA).toOption = some ⟨exA, 10, 12⟩ := by decide
example : (Rsync.fromBytes exAs).toOption = some ⟨exAs, 10, 12⟩ := by decide

/-- `relative_to` also reports the empty path when `self` has one trailing slash *more* than `other`:
"rsync://h/m/a/" relative to "rsync://h/m/a" is `Some("")`, although the path "a/" is not the stripped
path "a" of the other.  So "`u.path = stripSlash o.path`" alone is not the exact condition; the exact
one is `stripSlash u.path = stripSlash o.path` (`Rsync.relativeTo_empty_iff`). -/
example : (Rsync.mk exAs 10 12).relativeTo ⟨exA, 10, 12⟩ = some [] ∧
    (Rsync.mk exAs 10 12).path ≠ stripSlash (Rsync.mk exA 10 12).path := by decide

example : (Rsync.mk exA 10 12).relativeTo ⟨exAs, 10, 12⟩ = some [] := by decide
example : (Rsync.mk exA 10 12).isParentOf ⟨exAb, 10, 12⟩ = true ∧
    (Rsync.mk exAs 10 12).isParentOf ⟨exAb, 10, 12⟩ = true ∧
    (Rsync.mk exA 10 12).isParentOf ⟨exAs, 10, 12⟩ = false ∧
    (Rsync.mk exAs 10 12).isParentOf ⟨exA, 10, 12⟩ = false := by decide
example : (Rsync.mk exAb 10 12).parent = some ⟨exAs, 10, 12⟩ := by decide
example : ((Rsync.mk exA 10 12).join [98]).toOption = some ⟨exAb, 10, 12⟩ := by decide

end Rpki.Uri
