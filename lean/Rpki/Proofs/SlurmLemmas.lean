import Rpki.Model.Slurm
namespace Rpki.Slurm
open Rpki.Consts Rpki.Prefix

theorem mapM_map_roundtrip {α β} (f : β → Option α) (g : α → β) :
    ∀ (l : List α), (∀ x ∈ l, f (g x) = some x) → (l.map g).mapM f = some l := by
  intro l
  induction l with
  | nil => intro _; rfl
  | cons x xs ih =>
    intro h
    simp only [List.map_cons, List.mapM_cons]
    rw [h x (by simp), ih (fun y hy => h y (by simp [hy]))]
    rfl

/-! well-formedness of values (what the constructors / deserialiser guarantee) -/

def okU32 (n : Nat) : Prop := n < U32
def okOptU32 : Option Nat → Prop | some n => n < U32 | none => True

def PrefixFilter.WF (f : PrefixFilter) : Prop := okOptU32 f.asn
def BgpsecFilter.WF (f : BgpsecFilter) : Prop := okOptU32 f.asn ∧ (∀ s, f.ski = some s → s.length = 20)
def AspaFilter.WF (f : AspaFilter) : Prop := okOptU32 f.customer
def Filters.WF (f : Filters) : Prop :=
  (∀ x ∈ f.pfs, x.WF) ∧ (∀ x ∈ f.bgpsec, x.WF) ∧ (∀ l, f.aspa = some l → ∀ x ∈ l, x.WF)

def PrefixAssertion.WF (a : PrefixAssertion) : Prop :=
  a.asn < U32 ∧ mlpNew a.mlp.pfx a.mlp.ml = .ok a.mlp ∧ (∀ m, a.mlp.ml = some m → m < 256)
def BgpsecAssertion.WF (a : BgpsecAssertion) : Prop := a.asn < U32 ∧ a.ski.length = 20
def AspaAssertion.WF (a : AspaAssertion) : Prop :=
  a.customer < U32 ∧ (∀ p ∈ a.providers, p < U32) ∧ a.providers.length ≤ aspaMaxCount
def Assertions.WF (a : Assertions) : Prop :=
  (∀ x ∈ a.pas, x.WF) ∧ (∀ x ∈ a.bgpsec, x.WF) ∧ (∀ l, a.aspa = some l → ∀ x ∈ l, x.WF)
def SlurmFile.WF (f : SlurmFile) : Prop := (f.version = 1 ∨ f.version = 2) ∧ f.filters.WF ∧ f.assertions.WF

theorem PrefixFilter.roundtrip (f : PrefixFilter) (h : f.WF) : PrefixFilter.fromJson f.toJson = some f := by
  obtain ⟨p, a, c⟩ := f
  unfold PrefixFilter.WF okOptU32 at h
  cases p <;> cases a <;> cases c <;>
    simp_all [PrefixFilter.toJson, PrefixFilter.fromJson, optField, keysOk, countKey, lookup, optPfx, optU32, optStr]

theorem BgpsecFilter.roundtrip (f : BgpsecFilter) (h : f.WF) : BgpsecFilter.fromJson f.toJson = some f := by
  obtain ⟨s, a, c⟩ := f
  unfold BgpsecFilter.WF okOptU32 at h
  cases s <;> cases a <;> cases c <;>
    simp_all [BgpsecFilter.toJson, BgpsecFilter.fromJson, optField, keysOk, countKey, lookup, optSki, reqSki, optU32, optStr]

theorem AspaFilter.roundtrip (f : AspaFilter) (h : f.WF) : AspaFilter.fromJson f.toJson = some f := by
  obtain ⟨a, c⟩ := f
  unfold AspaFilter.WF okOptU32 at h
  cases a <;> cases c <;>
    simp_all [AspaFilter.toJson, AspaFilter.fromJson, optField, keysOk, countKey, lookup, optU32, optStr]

theorem Filters.roundtrip (f : Filters) (h : f.WF) : Filters.fromJson f.toJson = some f := by
  obtain ⟨p, b, a⟩ := f
  obtain ⟨h1, h2, h3⟩ := h
  simp only at h1 h2 h3
  have e1 := mapM_map_roundtrip PrefixFilter.fromJson PrefixFilter.toJson p (fun x hx => x.roundtrip (h1 x hx))
  have e2 := mapM_map_roundtrip BgpsecFilter.fromJson BgpsecFilter.toJson b (fun x hx => x.roundtrip (h2 x hx))
  cases a with
  | none =>
    simp [Filters.toJson, Filters.fromJson, keysOk, countKey, lookup, reqArr, optArr, optArrFrom, e1, e2]
  | some l =>
    have e3 := mapM_map_roundtrip AspaFilter.fromJson AspaFilter.toJson l (fun x hx => x.roundtrip (h3 l rfl x hx))
    simp [Filters.toJson, Filters.fromJson, keysOk, countKey, lookup, reqArr, optArr, optArrFrom, e1, e2, e3]

theorem PrefixAssertion.roundtrip (a : PrefixAssertion) (h : a.WF) : PrefixAssertion.fromJson a.toJson = some a := by
  obtain ⟨⟨p, ml⟩, asn, c⟩ := a
  obtain ⟨h1, h2, h3⟩ := h
  simp only at h1 h2 h3
  cases ml with
  | none =>
    cases c <;>
      simp_all [PrefixAssertion.toJson, PrefixAssertion.fromJson, optField, keysOk, countKey, lookup, reqU32]
  | some m =>
    have hm := h3 m rfl
    cases c <;>
      simp_all [PrefixAssertion.toJson, PrefixAssertion.fromJson, optField, keysOk, countKey, lookup, reqU32]

theorem BgpsecAssertion.roundtrip (a : BgpsecAssertion) (h : a.WF) : BgpsecAssertion.fromJson a.toJson = some a := by
  obtain ⟨asn, s, k, c⟩ := a
  obtain ⟨h1, h2⟩ := h
  simp only at h1 h2
  cases c <;>
    simp_all [BgpsecAssertion.toJson, BgpsecAssertion.fromJson, optField, keysOk, countKey, lookup, reqU32, reqSki, optStr]

theorem AspaAssertion.roundtrip (a : AspaAssertion) (h : a.WF) : AspaAssertion.fromJson a.toJson = some a := by
  obtain ⟨cu, ps, c⟩ := a
  obtain ⟨h1, h2, h3⟩ := h
  simp only at h1 h2 h3
  have e := mapM_map_roundtrip (fun j => reqU32 (some j)) Json.num ps (fun x hx => by simp [reqU32, h2 x hx])
  cases c <;>
    simp_all [AspaAssertion.toJson, AspaAssertion.fromJson, optField, keysOk, countKey, lookup, reqU32, reqArr]

theorem Assertions.roundtrip (f : Assertions) (h : f.WF) : Assertions.fromJson f.toJson = some f := by
  obtain ⟨p, b, a⟩ := f
  obtain ⟨h1, h2, h3⟩ := h
  simp only at h1 h2 h3
  have e1 := mapM_map_roundtrip PrefixAssertion.fromJson PrefixAssertion.toJson p (fun x hx => x.roundtrip (h1 x hx))
  have e2 := mapM_map_roundtrip BgpsecAssertion.fromJson BgpsecAssertion.toJson b (fun x hx => x.roundtrip (h2 x hx))
  cases a with
  | none =>
    simp [Assertions.toJson, Assertions.fromJson, keysOk, countKey, lookup, reqArr, optArr, optArrFrom, e1, e2]
  | some l =>
    have e3 := mapM_map_roundtrip AspaAssertion.fromJson AspaAssertion.toJson l (fun x hx => x.roundtrip (h3 l rfl x hx))
    simp [Assertions.toJson, Assertions.fromJson, keysOk, countKey, lookup, reqArr, optArr, optArrFrom, e1, e2, e3]

theorem SlurmFile.roundtrip (f : SlurmFile) (h : f.WF) : SlurmFile.fromJson f.toJson = some f := by
  obtain ⟨v, fl, a⟩ := f
  obtain ⟨h1, h2, h3⟩ := h
  simp only at h1 h2 h3
  have e1 := fl.roundtrip h2
  have e2 := a.roundtrip h3
  simp [SlurmFile.toJson, SlurmFile.fromJson, keysOk, countKey, lookup, e1, e2, h1]

end Rpki.Slurm
