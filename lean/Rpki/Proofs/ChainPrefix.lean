import Rpki.Proofs.ChainOps
namespace Rpki.Chain

/-! ### bit-level helpers -/

theorem xor_eq_zero_imp {a b : Nat} (h : a ^^^ b = 0) : a = b := by
  have h1 : (a ^^^ b) ^^^ b = a := by rw [Nat.xor_assoc, Nat.xor_self, Nat.xor_zero]
  rw [h, Nat.zero_xor] at h1
  exact h1.symm

/-- an aligned block xor an offset inside the block is the offset -/
theorem xor_aligned_add (k q r : Nat) (hr : r < 2 ^ k) : (2 ^ k * q) ^^^ (2 ^ k * q + r) = r := by
  apply Nat.eq_of_testBit_eq
  intro j
  rw [Nat.testBit_xor]
  have h0 : 2 ^ k * q = 2 ^ k * q + 0 := rfl
  rw [Nat.testBit_two_pow_mul_add q hr j]
  conv => lhs; lhs; rw [h0, Nat.testBit_two_pow_mul_add q (Nat.pow_pos (by decide)) j]
  by_cases hj : j < k
  · simp [hj]
  · have hkj : k ≤ j := by omega
    have : r.testBit j = false :=
      Nat.testBit_lt_two_pow (Nat.lt_of_lt_of_le hr (Nat.pow_le_pow_right (by decide) hkj))
    simp [hj, this]

theorem log2_two_pow_sub_one (k : Nat) (hk : 0 < k) : Nat.log2 (2 ^ k - 1) = k - 1 := by
  have hp : 2 ^ k = 2 * 2 ^ (k - 1) := by
    rw [← Nat.pow_succ']; congr 1; omega
  have hpos : 0 < 2 ^ (k - 1) := Nat.pow_pos (by decide)
  have hne : 2 ^ k - 1 ≠ 0 := by omega
  have h1 : Nat.log2 (2 ^ k - 1) < k := (Nat.log2_lt hne).2 (by omega)
  have h2 : k - 1 ≤ Nat.log2 (2 ^ k - 1) := (Nat.le_log2 hne).2 (by omega)
  omega

/-- **Completeness of `into_prefix`**: an aligned block of size `2^k` inside the `W`-bit space is
recognised as the prefix of length `W - k`. -/
theorem intoPrefix_complete (W k lo : Nat) (hk : k ≤ W) (hal : lo % 2 ^ k = 0)
    (hhi : lo + 2 ^ k - 1 < 2 ^ W) :
    intoPrefix W lo (lo + 2 ^ k - 1) = some (W - k) := by
  have hpos : 0 < 2 ^ k := Nat.pow_pos (by decide)
  have hlo : lo = 2 ^ k * (lo / 2 ^ k) := by
    have := Nat.div_add_mod lo (2 ^ k); omega
  have hx : Nat.xor lo (lo + 2 ^ k - 1) = 2 ^ k - 1 := by
    show lo ^^^ (lo + 2 ^ k - 1) = 2 ^ k - 1
    have h := xor_aligned_add k (lo / 2 ^ k) (2 ^ k - 1) (by omega)
    rw [← hlo] at h
    have e : lo + 2 ^ k - 1 = lo + (2 ^ k - 1) := by omega
    rw [e]; exact h
  have hlz : leadingZeros W (Nat.xor lo (lo + 2 ^ k - 1)) = W - k := by
    rw [hx]; unfold leadingZeros
    by_cases h0 : k = 0
    · subst h0; simp
    · have hp : 2 ^ k = 2 * 2 ^ (k - 1) := by
        rw [← Nat.pow_succ']; congr 1; omega
      have : 0 < 2 ^ (k - 1) := Nat.pow_pos (by decide)
      rw [if_neg (by omega), log2_two_pow_sub_one k (by omega)]
      omega
  unfold intoPrefix
  simp only [hlz]
  have e : W - (W - k) = k := by omega
  rw [e]
  have hd : lo / 2 ^ k * 2 ^ k = lo := by rw [Nat.mul_comm]; exact hlo.symm
  rw [if_pos]
  exact ⟨hd, by rw [hd]; omega⟩

/-! ### `to_prefixes`: one step -/

theorem two_pow_pred {m : Nat} (hm : 1 ≤ m) : 2 ^ m = 2 * 2 ^ (m - 1) := by
  rw [← Nat.pow_succ']; congr 1; omega

/-- for `start < stop` in the `W`-bit space, `m = W - leading_zeros (start ^ stop)` is the number of
bits up to and including the highest differing bit: the two agree above bit `m - 1` and differ at it -/
theorem diffBits_spec (W start stop : Nat) (h1 : start < stop) (h2 : stop < 2 ^ W) :
    ∃ m, 1 ≤ m ∧ m ≤ W ∧ W - leadingZeros W (Nat.xor start stop) = m ∧
      start / 2 ^ m = stop / 2 ^ m ∧ start / 2 ^ (m - 1) < stop / 2 ^ (m - 1) := by
  have hx0 : start ^^^ stop ≠ 0 := fun h => by have := xor_eq_zero_imp h; omega
  have hxW : start ^^^ stop < 2 ^ W := Nat.xor_lt_two_pow (by omega) h2
  have hlW : Nat.log2 (start ^^^ stop) < W := (Nat.log2_lt hx0).2 hxW
  refine ⟨Nat.log2 (start ^^^ stop) + 1, by omega, by omega, ?_, ?_, ?_⟩
  · show W - leadingZeros W (start ^^^ stop) = _
    unfold leadingZeros; rw [if_neg hx0]; omega
  · have hd : (start ^^^ stop) / 2 ^ (Nat.log2 (start ^^^ stop) + 1) = 0 :=
      Nat.div_eq_of_lt Nat.lt_log2_self
    rw [← Nat.shiftRight_eq_div_pow, Nat.shiftRight_xor_distrib,
      Nat.shiftRight_eq_div_pow, Nat.shiftRight_eq_div_pow] at hd
    exact xor_eq_zero_imp hd
  · rw [Nat.add_sub_cancel]
    have hd : 0 < (start ^^^ stop) / 2 ^ Nat.log2 (start ^^^ stop) :=
      Nat.div_pos (Nat.log2_self_le hx0) (Nat.pow_pos (by decide))
    rw [← Nat.shiftRight_eq_div_pow, Nat.shiftRight_xor_distrib,
      Nat.shiftRight_eq_div_pow, Nat.shiftRight_eq_div_pow] at hd
    have hle : start / 2 ^ Nat.log2 (start ^^^ stop) ≤ stop / 2 ^ Nat.log2 (start ^^^ stop) :=
      Nat.div_le_div_right (by omega)
    rcases Nat.lt_or_ge (start / 2 ^ Nat.log2 (start ^^^ stop))
      (stop / 2 ^ Nat.log2 (start ^^^ stop)) with h | h
    · exact h
    · have e : start / 2 ^ Nat.log2 (start ^^^ stop) = stop / 2 ^ Nat.log2 (start ^^^ stop) := by omega
      rw [e, Nat.xor_self] at hd
      omega

/-- `trailing_ones x ≥ m` iff the low `m` bits of `x` are all ones -/
theorem trailingOnesAux_ge : ∀ (f m x : Nat), m ≤ f →
    (m ≤ trailingOnesAux f x ↔ x % 2 ^ m = 2 ^ m - 1) := by
  intro f
  induction f with
  | zero => intro m x hm; have : m = 0 := by omega
            subst this; simp [trailingOnesAux, Nat.mod_one]
  | succ f ih =>
    intro m x hm
    cases m with
    | zero => simp [Nat.mod_one]
    | succ m =>
      have hpos : 0 < 2 ^ m := Nat.pow_pos (by decide)
      have hp : 2 ^ (m + 1) = 2 * 2 ^ m := Nat.pow_succ'
      have hmod : x % (2 * 2 ^ m) = x % 2 + 2 * (x / 2 % 2 ^ m) := Nat.mod_mul
      have hlt : x / 2 % 2 ^ m < 2 ^ m := Nat.mod_lt _ hpos
      rw [trailingOnesAux, hp, hmod]
      by_cases h : x % 2 = 0
      · rw [if_pos h]; omega
      · rw [if_neg h]
        have := ih m (x / 2) (by omega)
        omega

/-- `trailing_zeros` is the largest power of two dividing a non-zero `f`-bit word -/
theorem trailingZerosAux_max : ∀ (f k x : Nat), x ≠ 0 → x < 2 ^ f → x % 2 ^ k = 0 →
    k ≤ trailingZerosAux f x := by
  intro f
  induction f with
  | zero => intro k x h0 hx _; simp at hx; omega
  | succ f ih =>
    intro k x h0 hx hk
    cases k with
    | zero => omega
    | succ k =>
      have hp : 2 ^ (k + 1) = 2 * 2 ^ k := Nat.pow_succ'
      have hpf : 2 ^ (f + 1) = 2 * 2 ^ f := Nat.pow_succ'
      have hmod : x % (2 * 2 ^ k) = x % 2 + 2 * (x / 2 % 2 ^ k) := Nat.mod_mul
      rw [hp, hmod] at hk
      rw [trailingZerosAux, if_neg (by omega)]
      have := ih k (x / 2) (by omega) (by omega) (by omega)
      omega

theorem add_le_of_dvd_lt {d a b : Nat} (ha : d ∣ a) (hb : d ∣ b) (h : a < b) : a + d ≤ b := by
  obtain ⟨x, rfl⟩ := ha
  obtain ⟨y, rfl⟩ := hb
  have hd : 0 < d := by
    rcases Nat.eq_zero_or_pos d with h0 | h0
    · subst h0; simp at h
    · exact h0
  have hxy : x < y := Nat.lt_of_mul_lt_mul_left h
  calc d * x + d = d * (x + 1) := by rw [Nat.mul_succ]
    _ ≤ d * y := Nat.mul_le_mul_left d hxy

/-- a block of `2^s` addresses aligned at `a` stays inside the enclosing aligned `2^n` block -/
theorem aligned_fit (a s n : Nat) (ha : a % 2 ^ s = 0) (hs : s ≤ n) :
    a + 2 ^ s ≤ (a / 2 ^ n + 1) * 2 ^ n := by
  apply add_le_of_dvd_lt (Nat.dvd_of_mod_eq_zero ha)
  · exact Nat.dvd_trans (Nat.pow_dvd_pow 2 hs) (Nat.dvd_mul_left _ _)
  · have hpos : 0 < 2 ^ n := Nat.pow_pos (by decide)
    have h1 := Nat.div_add_mod a (2 ^ n)
    have h2 := Nat.mod_lt a hpos
    rw [Nat.add_mul, Nat.one_mul, Nat.mul_comm]
    omega

/-- the host-bit count chosen by one iteration of `to_prefixes` -/
def stepBits (W start stop : Nat) : Nat :=
  let hostBits := trailingZeros W start
  let maxAllowed0 := W - leadingZeros W (Nat.xor start stop)
  let maxAllowed := if trailingOnes W stop < maxAllowed0 then maxAllowed0 - 1 else maxAllowed0
  min hostBits maxAllowed

theorem toPrefixes_succ (W fuel start stop : Nat) :
    toPrefixes W (fuel + 1) start stop =
      if start > stop then [] else
        (start, W - stepBits W start stop) ::
          (if start / 2 ^ stepBits W start stop * 2 ^ stepBits W start stop
                + (2 ^ stepBits W start stop - 1) = stop then []
           else toPrefixes W fuel (start + 2 ^ stepBits W start stop) stop) := rfl

/-- the cap `maxAllowed` of one iteration: a block of `2^k` addresses aligned at `start` ends at or
before `stop` exactly when `k ≤ maxAllowed` -/
theorem maxAllowed_spec (W start stop : Nat) (h1 : start ≤ stop) (h2 : stop < 2 ^ W) :
    ∃ ma, (if trailingOnes W stop < W - leadingZeros W (Nat.xor start stop)
            then W - leadingZeros W (Nat.xor start stop) - 1
            else W - leadingZeros W (Nat.xor start stop)) = ma ∧ ma ≤ W ∧
      (∀ k, k ≤ ma → start % 2 ^ k = 0 → start + 2 ^ k - 1 ≤ stop) ∧
      (∀ k, start % 2 ^ k = 0 → start + 2 ^ k - 1 ≤ stop → k ≤ ma) := by
  rcases Nat.lt_or_ge start stop with hlt | hge
  · obtain ⟨m, hm1, hmW, hm, heq, hne⟩ := diffBits_spec W start stop hlt h2
    rw [hm]
    have hto := trailingOnesAux_ge W m stop hmW
    have hA : 0 < 2 ^ m := Nat.pow_pos (by decide)
    have hB : 0 < 2 ^ (m - 1) := Nat.pow_pos (by decide)
    have hAB : 2 ^ m = 2 * 2 ^ (m - 1) := two_pow_pred hm1
    have hsA := Nat.div_add_mod stop (2 ^ m)
    have hsAlt := Nat.mod_lt stop hA
    -- no aligned block of more than `2^m` addresses fits
    have hbig : ∀ k, start % 2 ^ k = 0 → start + 2 ^ k - 1 ≤ stop → k ≤ m := by
      intro k hk hfit
      rcases Nat.lt_or_ge m k with hmk | hmk
      · exfalso
        have hdv : 2 ^ m ∣ start :=
          Nat.dvd_trans (Nat.pow_dvd_pow 2 (by omega)) (Nat.dvd_of_mod_eq_zero hk)
        have hst := Nat.div_add_mod start (2 ^ m)
        rw [Nat.mod_eq_zero_of_dvd hdv, heq] at hst
        have hkm : 2 ^ (m + 1) ≤ 2 ^ k := Nat.pow_le_pow_right (by decide) hmk
        rw [Nat.pow_succ'] at hkm
        omega
      · exact hmk
    by_cases hc : trailingOnes W stop < m
    · rw [if_pos hc]
      have hnot : ¬ stop % 2 ^ m = 2 ^ m - 1 := fun h => by
        have := hto.2 h; unfold trailingOnes at hc; omega
      refine ⟨m - 1, rfl, by omega, ?_, ?_⟩
      · intro k hk hal
        have hf := aligned_fit start k (m - 1) hal hk
        have hstep : (start / 2 ^ (m - 1) + 1) * 2 ^ (m - 1) ≤ stop / 2 ^ (m - 1) * 2 ^ (m - 1) :=
          Nat.mul_le_mul_right _ hne
        have := Nat.div_mul_le_self stop (2 ^ (m - 1))
        omega
      · intro k hal hfit
        have hkm := hbig k hal hfit
        rcases Nat.lt_or_ge k m with h | h
        · omega
        · exfalso
          have hk : k = m := by omega
          subst hk
          have hst := Nat.div_add_mod start (2 ^ k)
          rw [hal, heq] at hst
          omega
    · rw [if_neg hc]
      have hall : stop % 2 ^ m = 2 ^ m - 1 := hto.1 (by unfold trailingOnes at hc; omega)
      refine ⟨m, rfl, hmW, ?_, hbig⟩
      intro k hk hal
      have hf := aligned_fit start k m hal hk
      rw [heq, Nat.add_mul, Nat.one_mul, Nat.mul_comm] at hf
      omega
  · have he : start = stop := by omega
    subst he
    have hx : Nat.xor start start = 0 := Nat.xor_self start
    have hlz : leadingZeros W (Nat.xor start start) = W := by rw [hx]; simp [leadingZeros]
    rw [hlz, Nat.sub_self, if_neg (by omega)]
    refine ⟨0, rfl, by omega, ?_, ?_⟩
    · intro k hk _; have : k = 0 := by omega
      subst this; simp
    · intro k _ hfit
      rcases Nat.eq_zero_or_pos k with h | h
      · omega
      · have : 2 ^ 1 ≤ 2 ^ k := Nat.pow_le_pow_right (by decide) h
        omega

/-- **one iteration of `to_prefixes`** picks the largest aligned block at `start` inside the range -/
theorem stepBits_spec (W start stop : Nat) (h1 : start ≤ stop) (h2 : stop < 2 ^ W) :
    stepBits W start stop ≤ W ∧ start % 2 ^ stepBits W start stop = 0 ∧
    start + 2 ^ stepBits W start stop - 1 ≤ stop ∧
    (∀ k, start % 2 ^ k = 0 → start + 2 ^ k - 1 ≤ stop → k ≤ stepBits W start stop) := by
  obtain ⟨ma, hma, hmaW, hfit, hmax⟩ := maxAllowed_spec W start stop h1 h2
  have hsb : stepBits W start stop = min (trailingZeros W start) ma := by
    unfold stepBits; simp only [hma]
  have htz : start % 2 ^ trailingZeros W start = 0 := trailingZeros_dvd W start (by omega)
  have hal : start % 2 ^ min (trailingZeros W start) ma = 0 := by
    apply Nat.mod_eq_zero_of_dvd
    exact Nat.dvd_trans (Nat.pow_dvd_pow 2 (Nat.min_le_left _ _)) (Nat.dvd_of_mod_eq_zero htz)
  rw [hsb]
  refine ⟨Nat.le_trans (Nat.min_le_right _ _) hmaW, hal, hfit _ (Nat.min_le_right _ _) hal, ?_⟩
  intro k hk hkfit
  apply Nat.le_min.2
  refine ⟨?_, hmax k hk hkfit⟩
  unfold trailingZeros
  by_cases h0 : start = 0
  · rw [if_pos h0]
    subst h0
    rcases Nat.lt_or_ge W k with h | h
    · have : 2 ^ (W + 1) ≤ 2 ^ k := Nat.pow_le_pow_right (by decide) h
      rw [Nat.pow_succ'] at this
      have : 0 < 2 ^ W := Nat.pow_pos (by decide)
      omega
    · exact h
  · rw [if_neg h0]
    exact trailingZerosAux_max W k start h0 (by omega) hk

/-! ### `to_prefixes` tiles the range -/

/-- the inclusive range covered by prefix `(a, len)` in a `W`-bit space -/
def pfxLo (_W : Nat) (p : Nat × Nat) : Nat := p.1
def pfxHi (W : Nat) (p : Nat × Nat) : Nat := p.1 + 2 ^ (W - p.2) - 1

/-- `l` tiles `[start, stop]`: consecutive aligned blocks, each a valid prefix (`len ≤ W`, address
aligned to its size), the first starting at `start`, each next one starting right after the previous
one ends, the last ending exactly at `stop`; the empty list tiles only the empty range -/
def Tiles (W : Nat) : List (Nat × Nat) → Nat → Nat → Prop
  | [], start, stop => start > stop
  | [p], start, stop => p.1 = start ∧ p.2 ≤ W ∧ p.1 % 2 ^ (W - p.2) = 0 ∧ pfxHi W p = stop
  | p :: q :: rest, start, stop =>
      p.1 = start ∧ p.2 ≤ W ∧ p.1 % 2 ^ (W - p.2) = 0 ∧ pfxHi W p < stop ∧
        Tiles W (q :: rest) (pfxHi W p + 1) stop

theorem tiles_cons (W : Nat) (p : Nat × Nat) (l : List (Nat × Nat)) (start stop : Nat)
    (h1 : p.1 = start) (h2 : p.2 ≤ W) (h3 : p.1 % 2 ^ (W - p.2) = 0) (h4 : pfxHi W p < stop)
    (h5 : Tiles W l (pfxHi W p + 1) stop) : Tiles W (p :: l) start stop := by
  cases l with
  | nil => simp only [Tiles] at h5; omega
  | cons q rest => exact ⟨h1, h2, h3, h4, h5⟩

/-- one unfolding of `to_prefixes` preserves tiling -/
theorem tiles_step (W fuel start stop : Nat) (h1 : start ≤ stop) (h2 : stop < 2 ^ W)
    (ih : start + 2 ^ stepBits W start stop - 1 < stop →
      Tiles W (toPrefixes W fuel (start + 2 ^ stepBits W start stop) stop)
        (start + 2 ^ stepBits W start stop) stop) :
    Tiles W (toPrefixes W (fuel + 1) start stop) start stop := by
  obtain ⟨hsW, hal, hfit, _⟩ := stepBits_spec W start stop h1 h2
  have hpos : 0 < 2 ^ stepBits W start stop := Nat.pow_pos (by decide)
  have hpm : start / 2 ^ stepBits W start stop * 2 ^ stepBits W start stop
      + (2 ^ stepBits W start stop - 1) = start + 2 ^ stepBits W start stop - 1 := by
    have := Nat.div_add_mod start (2 ^ stepBits W start stop)
    rw [Nat.mul_comm] at this
    omega
  have hWs : W - (W - stepBits W start stop) = stepBits W start stop := by omega
  rw [toPrefixes_succ, if_neg (by omega), hpm]
  by_cases he : start + 2 ^ stepBits W start stop - 1 = stop
  · rw [if_pos he]
    refine ⟨rfl, Nat.sub_le _ _, ?_, ?_⟩
    · show start % 2 ^ (W - (W - stepBits W start stop)) = 0
      rw [hWs]; exact hal
    · show start + 2 ^ (W - (W - stepBits W start stop)) - 1 = stop
      rw [hWs]; exact he
  · rw [if_neg he]
    have hhi : pfxHi W (start, W - stepBits W start stop) = start + 2 ^ stepBits W start stop - 1 := by
      show start + 2 ^ (W - (W - stepBits W start stop)) - 1 = _
      rw [hWs]
    apply tiles_cons
    · rfl
    · exact Nat.sub_le _ _
    · show start % 2 ^ (W - (W - stepBits W start stop)) = 0
      rw [hWs]; exact hal
    · rw [hhi]; omega
    · rw [hhi]
      have e : start + 2 ^ stepBits W start stop - 1 + 1 = start + 2 ^ stepBits W start stop := by omega
      rw [e]
      exact ih (by omega)

/-- **Correctness of `to_prefixes`, crude fuel bound** (one unit of fuel per address) -/
theorem toPrefixes_tiles_crude (W : Nat) : ∀ (fuel start stop : Nat), start ≤ stop → stop < 2 ^ W →
    stop - start + 1 ≤ fuel → Tiles W (toPrefixes W fuel start stop) start stop := by
  intro fuel
  induction fuel with
  | zero => intro start stop _ _ hf; omega
  | succ fuel ih =>
    intro start stop h1 h2 hf
    apply tiles_step W fuel start stop h1 h2
    intro hlt
    have hpos : 0 < 2 ^ stepBits W start stop := Nat.pow_pos (by decide)
    exact ih _ _ (by omega) h2 (by omega)

/-- shrinking phase: once the remaining range is shorter than `2^j` and starts `2^j`-aligned, every
block is smaller than the previous one, so `j` iterations suffice -/
theorem toPrefixes_tiles_shrink (W : Nat) : ∀ (n j fuel start stop : Nat), j ≤ n → start ≤ stop →
    stop < 2 ^ W → start % 2 ^ j = 0 → stop + 1 - start < 2 ^ j → j ≤ fuel →
    Tiles W (toPrefixes W fuel start stop) start stop := by
  intro n
  induction n with
  | zero =>
    intro j fuel start stop hj h1 _ _ hlen _
    have : j = 0 := by omega
    subst this; simp at hlen; omega
  | succ n ih =>
    intro j fuel start stop hjn h1 h2 hal hlen hf
    cases fuel with
    | zero =>
      have : j = 0 := by omega
      subst this; simp at hlen; omega
    | succ fuel =>
      apply tiles_step W fuel start stop h1 h2
      intro hlt
      obtain ⟨hsW, hsal, hfit, hmax⟩ := stepBits_spec W start stop h1 h2
      have hpos : 0 < 2 ^ stepBits W start stop := Nat.pow_pos (by decide)
      -- the block is no longer than the range, hence `stepBits < j`
      have hsj : stepBits W start stop < j := by
        rcases Nat.lt_or_ge (stepBits W start stop) j with h | h
        · exact h
        · have : 2 ^ j ≤ 2 ^ stepBits W start stop := Nat.pow_le_pow_right (by decide) h
          omega
      -- by maximality the next larger aligned block overshoots
      have hover : stop < start + 2 ^ (stepBits W start stop + 1) - 1 := by
        rcases Nat.lt_or_ge stop (start + 2 ^ (stepBits W start stop + 1) - 1) with h | h
        · exact h
        · have hal' : start % 2 ^ (stepBits W start stop + 1) = 0 :=
            Nat.mod_eq_zero_of_dvd (Nat.dvd_trans (Nat.pow_dvd_pow 2 (by omega))
              (Nat.dvd_of_mod_eq_zero hal))
          have := hmax _ hal' h
          omega
      rw [Nat.pow_succ'] at hover
      have hal2 : (start + 2 ^ stepBits W start stop) % 2 ^ stepBits W start stop = 0 := by
        rw [Nat.add_mod, hsal, Nat.mod_self]; simp
      exact ih (stepBits W start stop) fuel _ _ (by omega) (by omega) h2 hal2 (by omega) (by omega)

/-- growing phase: while the block size is limited by the alignment of `start`, the alignment of the
next `start` is strictly larger; as soon as it is limited by the range instead, the shrinking phase
begins.  With `start` aligned to `2^i`, `2 * W + 1 - i` iterations suffice. -/
theorem toPrefixes_tiles_grow (W : Nat) : ∀ (n i fuel start stop : Nat), W - i ≤ n → i ≤ W →
    start ≤ stop → stop < 2 ^ W → start % 2 ^ i = 0 → 2 * W + 1 - i ≤ fuel →
    Tiles W (toPrefixes W fuel start stop) start stop := by
  intro n
  induction n with
  | zero =>
    intro i fuel start stop hn hiW h1 h2 hal hf
    -- `i = W`, so `start = 0`... handled uniformly below via one step + shrinking phase
    cases fuel with
    | zero => omega
    | succ fuel =>
      apply tiles_step W fuel start stop h1 h2
      intro hlt
      obtain ⟨hsW, hsal, hfit, hmax⟩ := stepBits_spec W start stop h1 h2
      have hpos : 0 < 2 ^ stepBits W start stop := Nat.pow_pos (by decide)
      have hi : i = W := by omega
      have hs0 : start = 0 := by
        rw [hi, Nat.mod_eq_of_lt (by omega)] at hal
        exact hal
      have hal' : start % 2 ^ (stepBits W start stop + 1) = 0 := by rw [hs0]; simp
      have hover : stop < start + 2 ^ (stepBits W start stop + 1) - 1 := by
        rcases Nat.lt_or_ge stop (start + 2 ^ (stepBits W start stop + 1) - 1) with h | h
        · exact h
        · have := hmax _ hal' h
          omega
      rw [Nat.pow_succ'] at hover
      have hal2 : (start + 2 ^ stepBits W start stop) % 2 ^ stepBits W start stop = 0 := by
        rw [Nat.add_mod, hsal, Nat.mod_self]; simp
      exact toPrefixes_tiles_shrink W _ (stepBits W start stop) fuel _ _ (Nat.le_refl _) (by omega) h2
        hal2 (by omega) (by omega)
  | succ n ih =>
    intro i fuel start stop hn hiW h1 h2 hal hf
    cases fuel with
    | zero => omega
    | succ fuel =>
      apply tiles_step W fuel start stop h1 h2
      intro hlt
      obtain ⟨hsW, hsal, hfit, hmax⟩ := stepBits_spec W start stop h1 h2
      have hpos : 0 < 2 ^ stepBits W start stop := Nat.pow_pos (by decide)
      have hal2 : (start + 2 ^ stepBits W start stop) % 2 ^ stepBits W start stop = 0 := by
        rw [Nat.add_mod, hsal, Nat.mod_self]; simp
      by_cases hal' : start % 2 ^ (stepBits W start stop + 1) = 0
      · -- limited by the range: shrinking phase from here
        have hover : stop < start + 2 ^ (stepBits W start stop + 1) - 1 := by
          rcases Nat.lt_or_ge stop (start + 2 ^ (stepBits W start stop + 1) - 1) with h | h
          · exact h
          · have := hmax _ hal' h
            omega
        rw [Nat.pow_succ'] at hover
        exact toPrefixes_tiles_shrink W _ (stepBits W start stop) fuel _ _ (Nat.le_refl _) (by omega) h2
          hal2 (by omega) (by omega)
      · -- limited by alignment: the next start is aligned to `2^(stepBits+1)`
        have his : i ≤ stepBits W start stop := by
          rcases Nat.lt_or_ge (stepBits W start stop) i with h | h
          · exact absurd (Nat.mod_eq_zero_of_dvd (Nat.dvd_trans (Nat.pow_dvd_pow 2 (by omega))
              (Nat.dvd_of_mod_eq_zero hal))) hal'
          · exact h
        have hmm : start % (2 ^ stepBits W start stop * 2)
            = start % 2 ^ stepBits W start stop
              + 2 ^ stepBits W start stop * (start / 2 ^ stepBits W start stop % 2) := Nat.mod_mul
        rw [Nat.pow_succ] at hal'
        have hbit : start / 2 ^ stepBits W start stop % 2 = 1 := by
          rcases Nat.mod_two_eq_zero_or_one (start / 2 ^ stepBits W start stop) with h | h
          · rw [hsal, h] at hmm; omega
          · exact h
        rw [hsal, hbit, Nat.mul_one, Nat.zero_add] at hmm
        have hal3 : (start + 2 ^ stepBits W start stop) % 2 ^ (stepBits W start stop + 1) = 0 := by
          rw [Nat.pow_succ, Nat.add_mod, hmm, Nat.mod_eq_of_lt (a := 2 ^ stepBits W start stop) (by omega)]
          have : 2 ^ stepBits W start stop + 2 ^ stepBits W start stop = 2 ^ stepBits W start stop * 2 := by
            omega
          rw [this, Nat.mod_self]
        have hsW' : stepBits W start stop + 1 < W := by
          have hle : 2 ^ (stepBits W start stop + 1) ≤ start + 2 ^ stepBits W start stop :=
            Nat.le_of_dvd (by omega) (Nat.dvd_of_mod_eq_zero hal3)
          exact (Nat.pow_lt_pow_iff_right (a := 2) (by decide)).1 (by omega)
        exact ih (stepBits W start stop + 1) fuel _ _ (by omega) (by omega) (by omega) h2 hal3 (by omega)

/-- what `Tiles` means for membership: an address is in some listed prefix iff it is in the range -/
theorem tiles_mem (W : Nat) : ∀ (l : List (Nat × Nat)) (start stop : Nat), l ≠ [] → Tiles W l start stop →
    ∀ x, (∃ p ∈ l, pfxLo W p ≤ x ∧ x ≤ pfxHi W p) ↔ (start ≤ x ∧ x ≤ stop) := by
  intro l
  induction l with
  | nil => intro _ _ h; exact absurd rfl h
  | cons p l ih =>
    intro start stop _ ht x
    have hpos : 0 < 2 ^ (W - p.2) := Nat.pow_pos (by decide)
    cases l with
    | nil =>
      obtain ⟨h1, _, _, h4⟩ := ht
      unfold pfxHi at h4
      simp only [List.mem_singleton, exists_eq_left, pfxLo, pfxHi]
      omega
    | cons q rest =>
      obtain ⟨h1, _, _, h4, h5⟩ := ht
      have hq := ih (pfxHi W p + 1) stop (by simp) h5 x
      have hlo : p.1 ≤ pfxHi W p := by unfold pfxHi; omega
      constructor
      · rintro ⟨r, hr, hx⟩
        rcases List.mem_cons.1 hr with e | e
        · subst e; unfold pfxLo at hx; omega
        · have := hq.1 ⟨r, e, hx⟩; omega
      · intro hx
        rcases Nat.lt_or_ge (pfxHi W p) x with h | h
        · obtain ⟨r, hr, hr2⟩ := hq.2 (by omega)
          exact ⟨r, List.mem_cons_of_mem _ hr, hr2⟩
        · exact ⟨p, List.mem_cons_self, by unfold pfxLo; omega, h⟩

/-- **Correctness of `to_prefixes`** (`AddressRange::to_v4_prefixes` / `to_v6_prefixes`): for a
non-empty range inside the `W`-bit space and `2 * W + 1` units of fuel (the Rust loop is unbounded;
the model is run with `2 * W + 2`), the result is a list of valid aligned prefixes tiling
`[start, stop]` exactly, in ascending order, without gaps or overlaps. -/
theorem toPrefixes_tiles (W fuel start stop : Nat) (h1 : start ≤ stop) (h2 : stop < 2 ^ W)
    (hf : 2 * W + 1 ≤ fuel) : Tiles W (toPrefixes W fuel start stop) start stop :=
  toPrefixes_tiles_grow W W 0 fuel start stop (by omega) (by omega) h1 h2 (by simp [Nat.mod_one])
    (by omega)

/-- the instance used by the callers of the model -/
theorem toPrefixes_tiles_caller (W start stop : Nat) (h1 : start ≤ stop) (h2 : stop < 2 ^ W) :
    Tiles W (toPrefixes W (2 * W + 2) start stop) start stop :=
  toPrefixes_tiles W _ start stop h1 h2 (by omega)

end Rpki.Chain
