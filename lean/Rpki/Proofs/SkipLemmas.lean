/-
  bcder's `skip_opt` stack machine (`CertDer.skipLoop`): whatever it accepts, what it leaves is a proper
  suffix of what it was given — it consumes at least the two octets of one header and never looks past
  the enclosing value.
-/
import Rpki.Model.CertDer
namespace Rpki.CertDer
open Rpki.Der

/-- the octets still ahead of the machine: the current limit, then what follows every enclosing
definite-length value -/
def flat (cur : Bytes) (st : List Frame) : Bytes :=
  cur ++ (st.map fun f => match f with | .definite a => a | .indefinite => []).flatten

theorem post_flat : ∀ (st : List Frame) (cur : Bytes),
    (∀ rest, post cur st = .done rest → flat cur st = rest) ∧
    (∀ c s, post cur st = .more c s → flat c s = flat cur st) := by
  intro st
  induction st with
  | nil =>
    intro cur
    refine ⟨?_, ?_⟩
    · intro rest h; simp only [post] at h; injection h with h; subst h; simp [flat]
    · intro c s h; simp [post] at h
  | cons f st ih =>
    intro cur
    cases cur with
    | nil =>
      cases f with
      | definite after =>
        have := ih after
        refine ⟨?_, ?_⟩
        · intro rest h; simp only [post] at h; rw [← this.1 rest h]; simp [flat]
        · intro c s h; simp only [post] at h; rw [this.2 c s h]; simp [flat]
      | indefinite =>
        refine ⟨?_, ?_⟩ <;> · intros; simp [post] at *
    | cons c cur =>
      refine ⟨?_, ?_⟩
      · intro rest h; simp [post] at h
      · intro c' s h; simp only [post] at h; injection h with h1 h2; subst h1 h2; rfl

theorem tagCont_suffix : ∀ (n : Nat) (r r' : Bytes), tagCont n r = some r' → r' <:+ r ∧ r'.length < r.length := by
  intro n
  induction n with
  | zero => intro r r' h; simp [tagCont] at h
  | succ n ih =>
    intro r r' h
    cases r with
    | nil => simp [tagCont] at h
    | cons x r =>
      simp only [tagCont] at h
      split at h
      · injection h with h; subst h; exact ⟨List.suffix_cons _ _, by simp⟩
      · obtain ⟨h1, h2⟩ := ih r r' h
        exact ⟨h1.trans (List.suffix_cons _ _), by simp; omega⟩

theorem takeTagAny_suffix (b : Bytes) (t : Nat) (r : Bytes) (h : takeTagAny b = some (t, r)) :
    r <:+ b ∧ r.length < b.length := by
  unfold takeTagAny at h
  cases b with
  | nil => cases h
  | cons t0 r0 =>
    simp only at h
    split at h
    · rw [Option.map_eq_some_iff] at h
      obtain ⟨r', hr, e⟩ := h
      injection e with _ e2; subst e2
      obtain ⟨h1, h2⟩ := tagCont_suffix 3 r0 r' hr
      exact ⟨h1.trans (List.suffix_cons _ _), by simp; omega⟩
    · injection h with h; injection h with _ e2; subst e2
      exact ⟨List.suffix_cons _ _, by simp⟩

theorem readLen_suffix (r : Bytes) (l : Nat) (r' : Bytes) (h : readLen r = some (l, r')) :
    r' <:+ r ∧ r'.length < r.length := by
  unfold readLen at h
  cases r with
  | nil => cases h
  | cons n rr =>
    simp only at h
    split at h
    · injection h with h; injection h with _ e; subst e; exact ⟨List.suffix_cons _ _, by simp⟩
    · split at h
      · match rr, h with
        | a :: r2, h =>
          simp only at h; split at h
          · injection h with h; injection h with _ e; subst e
            exact ⟨⟨[n, a], rfl⟩, by simp; omega⟩
          · cases h
        | [], h => cases h
      · split at h
        · match rr, h with
          | a :: b2 :: r2, h =>
            simp only at h; split at h
            · injection h with h; injection h with _ e; subst e
              exact ⟨⟨[n, a, b2], rfl⟩, by simp; omega⟩
            · cases h
          | [], h => cases h
          | [_], h => cases h
        · split at h
          · match rr, h with
            | a :: b2 :: c2 :: r2, h =>
              simp only at h; split at h
              · injection h with h; injection h with _ e; subst e
                exact ⟨⟨[n, a, b2, c2], rfl⟩, by simp; omega⟩
              · cases h
            | [], h => cases h
            | [_], h => cases h
            | [_, _], h => cases h
          · split at h
            · match rr, h with
              | a :: b2 :: c2 :: d2 :: r2, h =>
                simp only at h; split at h
                · injection h with h; injection h with _ e; subst e
                  exact ⟨⟨[n, a, b2, c2, d2], rfl⟩, by simp; omega⟩
                · cases h
              | [], h => cases h
              | [_], h => cases h
              | [_, _], h => cases h
              | [_, _, _], h => cases h
            · cases h

theorem readLenX_suffix (r : Bytes) (len : Len) (r' : Bytes) (h : readLenX r = some (len, r')) :
    r' <:+ r ∧ r'.length < r.length := by
  unfold readLenX at h
  split at h
  · injection h with h; injection h with _ e; subst e; exact ⟨List.suffix_cons _ _, by simp⟩
  · rw [Option.map_eq_some_iff] at h
    obtain ⟨⟨n, r2⟩, hr, e⟩ := h
    injection e with _ e2; subst e2
    exact readLen_suffix r n r2 hr

end Rpki.CertDer

namespace Rpki.CertDer
open Rpki.Der

theorem suffix_append_right {a b : Bytes} (c : Bytes) (h : a <:+ b) : a ++ c <:+ b ++ c := by
  obtain ⟨t, rfl⟩ := h
  exact ⟨t, by simp⟩

def tailOf (st : List Frame) : Bytes :=
  (st.map fun f => match f with | .definite a => a | .indefinite => []).flatten

theorem flat_eq (cur : Bytes) (st : List Frame) : flat cur st = cur ++ tailOf st := rfl

theorem tailOf_definite (a : Bytes) (st : List Frame) : tailOf (.definite a :: st) = a ++ tailOf st := by
  simp [tailOf]

theorem tailOf_indefinite (st : List Frame) : tailOf (.indefinite :: st) = tailOf st := by
  simp [tailOf]

/-- **Bounded consumption of the skip machine.** What `skipLoop` returns is a suffix of the octets ahead
of it, at least two octets (one header) shorter. -/
theorem skipLoop_suffix : ∀ (fuel : Nat) (cur : Bytes) (st : List Frame) (rest : Bytes),
    skipLoop fuel cur st = some rest →
    rest <:+ flat cur st ∧ rest.length + 2 ≤ (flat cur st).length := by
  intro fuel
  induction fuel with
  | zero => intro cur st rest h; simp [skipLoop] at h
  | succ fuel ih =>
    intro cur st rest h
    -- what follows a header
    have nextOk : ∀ (c : Bytes) (s : List Frame),
        (match post c s with
          | .done r => some r
          | .more c' s' => skipLoop fuel c' s'
          | .fail => none) = some rest →
        rest <:+ flat c s ∧ rest.length ≤ (flat c s).length := by
      intro c s hn
      cases hp : post c s with
      | done r =>
        simp only [hp] at hn; injection hn with hn; subst hn
        have := (post_flat s c).1 r hp
        rw [this]; exact ⟨List.suffix_refl _, Nat.le_refl _⟩
      | more c' s' =>
        simp only [hp] at hn
        obtain ⟨h1, h2⟩ := ih c' s' rest hn
        have := (post_flat s c).2 c' s' hp
        rw [this] at h1 h2
        exact ⟨h1, by omega⟩
      | fail => simp [hp] at hn
    rw [skipLoop] at h
    cases ht : takeTagAny cur with
    | none => simp [ht] at h
    | some p =>
      obtain ⟨t, r⟩ := p
      obtain ⟨ts, tl⟩ := takeTagAny_suffix cur t r ht
      simp only [ht] at h
      cases hl : readLenX r with
      | none => simp [hl] at h
      | some q =>
        obtain ⟨len, r'⟩ := q
        obtain ⟨ls, ll⟩ := readLenX_suffix r len r' hl
        have hs : r' <:+ cur := ls.trans ts
        have hlen : r'.length + 2 ≤ cur.length := by omega
        simp only [hl] at h
        -- a state whose pending octets are a suffix of `r' ++ tailOf st`
        have close : ∀ (c : Bytes) (s : List Frame), flat c s <:+ r' ++ tailOf st →
            (match post c s with
              | .done r => some r
              | .more c' s' => skipLoop fuel c' s'
              | .fail => none) = some rest →
            rest <:+ flat cur st ∧ rest.length + 2 ≤ (flat cur st).length := by
          intro c s hsub hn
          obtain ⟨h1, h2⟩ := nextOk c s hn
          have big : r' ++ tailOf st <:+ flat cur st := by
            rw [flat_eq]; exact suffix_append_right _ hs
          refine ⟨(h1.trans hsub).trans big, ?_⟩
          have l1 := hsub.length_le
          rw [flat_eq, List.length_append] at *
          rw [List.length_append] at l1
          omega
        split at h
        · -- primitive
          split at h
          · -- end of contents
            split at h
            · rename_i st' _ _
              refine close r' _ ?_ h
              rw [flat_eq, tailOf_indefinite]; exact List.suffix_refl _
            · cases h
          · split at h
            · rename_i n
              split at h
              · cases h
              · refine close (r'.drop n) st ?_ h
                rw [flat_eq]; exact suffix_append_right _ (List.drop_suffix n r')
            · cases h
        · -- constructed
          split at h
          · rename_i n
            split at h
            · cases h
            · refine close (r'.take n) (.definite (r'.drop n) :: st) ?_ h
              rw [flat_eq, tailOf_definite, ← List.append_assoc, List.take_append_drop]
              exact List.suffix_refl _
          · obtain ⟨h1, h2⟩ := ih r' (.indefinite :: st) rest h
            rw [flat_eq, tailOf_indefinite] at h1 h2
            have big : r' ++ tailOf st <:+ flat cur st := by
              rw [flat_eq]; exact suffix_append_right _ hs
            refine ⟨h1.trans big, ?_⟩
            rw [flat_eq, List.length_append] at *
            omega

/-- `skip_one` leaves a proper suffix of the content it was given -/
theorem skipOne_suffix (b rest : Bytes) (h : skipOne b = some rest) : rest <:+ b ∧ rest.length + 2 ≤ b.length := by
  have := skipLoop_suffix (b.length + 1) b [] rest h
  simpa [flat] using this

end Rpki.CertDer

namespace Rpki.CertDer
open Rpki.Der

/-- **The fuel of the skip machine is never what stops it.** Every turn of the loop consumes a header of
at least two octets, so with more fuel than half the octets ahead the result does not depend on the fuel:
a `none` of `skipOne` is always a refusal of the input, never an exhausted counter. -/
theorem skipLoop_fuel : ∀ (fuel : Nat) (cur : Bytes) (st : List Frame) (k : Nat),
    (flat cur st).length < 2 * fuel → skipLoop (fuel + k) cur st = skipLoop fuel cur st := by
  intro fuel
  induction fuel with
  | zero => intro cur st k h; omega
  | succ fuel ih =>
    intro cur st k hlen
    have e : fuel + 1 + k = (fuel + k) + 1 := by omega
    rw [e, skipLoop, skipLoop]
    cases ht : takeTagAny cur with
    | none => rfl
    | some p =>
      obtain ⟨t, r⟩ := p
      obtain ⟨ts, tl⟩ := takeTagAny_suffix cur t r ht
      simp only
      cases hl : readLenX r with
      | none => rfl
      | some q =>
        obtain ⟨len, r'⟩ := q
        obtain ⟨ls, ll⟩ := readLenX_suffix r len r' hl
        have hs : r' <:+ cur := ls.trans ts
        simp only
        have big : (r' ++ tailOf st).length + 2 ≤ (flat cur st).length := by
          rw [flat_eq, List.length_append, List.length_append]; omega
        -- the continuation after a header does not depend on the extra fuel
        have close : ∀ (c : Bytes) (s : List Frame), flat c s <:+ r' ++ tailOf st →
            (match post c s with
              | .done r => some r
              | .more c' s' => skipLoop (fuel + k) c' s'
              | .fail => none) =
            (match post c s with
              | .done r => some r
              | .more c' s' => skipLoop fuel c' s'
              | .fail => none) := by
          intro c s hsub
          cases hp : post c s with
          | done r => rfl
          | fail => rfl
          | more c' s' =>
            simp only
            apply ih
            have := (post_flat s c).2 c' s' hp
            rw [this]
            have := hsub.length_le
            omega
        split
        · split
          · split
            · rename_i st' _ _
              apply close
              rw [flat_eq, tailOf_indefinite]; exact List.suffix_refl _
            · rfl
          · split
            · rename_i n
              split
              · rfl
              · apply close
                rw [flat_eq]; exact suffix_append_right _ (List.drop_suffix n r')
            · rfl
        · split
          · rename_i n
            split
            · rfl
            · apply close
              rw [flat_eq, tailOf_definite, ← List.append_assoc, List.take_append_drop]
              exact List.suffix_refl _
          · apply ih
            rw [flat_eq, tailOf_indefinite]
            omega

/-- in particular for `skipOne`, whose fuel is the length of its input plus one -/
theorem skipOne_fuel (b : Bytes) (k : Nat) : skipLoop (b.length + 1 + k) b [] = skipOne b := by
  unfold skipOne
  apply skipLoop_fuel
  simp [flat]; omega

end Rpki.CertDer
