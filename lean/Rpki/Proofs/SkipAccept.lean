/-
  The skip machine accepts every well-formed definite-length DER forest: what `capture_one` / `skip_one`
  do on the encodings the library's writers produce.
-/
import Rpki.Proofs.SkipLemmas
import Rpki.Proofs.DerLemmas
import Rpki.Proofs.AsDerCodec
namespace Rpki.CertDer
open Rpki.Der

/-- the machine with enough fuel for whatever is ahead of it -/
def run (cur : Bytes) (st : List Frame) : Option Bytes := skipLoop ((flat cur st).length + 1) cur st

theorem skipLoop_eq_run (fuel : Nat) (cur : Bytes) (st : List Frame) (h : (flat cur st).length < 2 * fuel) :
    skipLoop fuel cur st = run cur st := by
  unfold run
  by_cases hle : fuel ≤ (flat cur st).length + 1
  · have := skipLoop_fuel fuel cur st ((flat cur st).length + 1 - fuel) h
    rw [← this]; congr 1; omega
  · have := skipLoop_fuel ((flat cur st).length + 1) cur st (fuel - ((flat cur st).length + 1)) (by omega)
    rw [← this]; congr 1; omega

/-- what follows a header, with enough fuel -/
def contR (c : Bytes) (s : List Frame) : Option Bytes :=
  match post c s with
  | .done r => some r
  | .more c' s' => run c' s'
  | .fail => none

/-- one turn of the loop on a primitive value (not the end-of-contents octets) -/
theorem run_prim (t : Nat) (c more : Bytes) (st : List Frame) (ht : t % 32 ≠ 31) (hp : isCons t = false)
    (h0 : t ≠ 0) : run (tlv t c ++ more) st = contR more st := by
  unfold run
  rw [skipLoop]
  have e : tlv t c ++ more = t :: (encLen c.length ++ (c ++ more)) := by simp [tlv]
  have htag : takeTagAny (tlv t c ++ more) = some (t, encLen c.length ++ (c ++ more)) := by
    rw [e]; simp [takeTagAny, ht]
  have hlen : readLenX (encLen c.length ++ (c ++ more)) = some (.definite c.length, c ++ more) := by
    unfold readLenX
    have hr := AsDer.readLen_encLen' c.length (c ++ more)
    have hh : ∀ r, encLen c.length ++ (c ++ more) = 0x80 :: r → False := by
      intro r e
      unfold encLen at e
      split at e
      · simp at e; omega
      · split at e <;> [skip; split at e <;> [skip; split at e]] <;> simp at e
    split
    · rename_i r heq; exact absurd heq (fun e => hh r e)
    · simp [hr]
  simp only [htag, hlen, hp, Bool.not_false, if_true, h0, if_false]
  have hl : ¬ (c ++ more).length < c.length := by simp
  simp only [hl, if_false, List.drop_left']
  unfold contR
  cases hpost : post more st with
  | done r => rfl
  | fail => rfl
  | more c' s' =>
    simp only
    apply skipLoop_eq_run
    have h1 := (post_flat st more).2 c' s' hpost
    rw [h1]
    have : (flat more st).length + 2 ≤ (flat (tlv t c ++ more) st).length := by
      rw [flat_eq, flat_eq, List.length_append, List.length_append, List.length_append]
      have : 2 ≤ (tlv t c).length := by simp [tlv]; have := (by unfold encLen; split <;> [simp; (split <;> [simp; (split <;> [simp; (split <;> simp)])])] : 1 ≤ (encLen c.length).length); omega
      omega
    omega

end Rpki.CertDer

namespace Rpki.CertDer
open Rpki.Der

theorem encLen_length_pos (n : Nat) : 1 ≤ (encLen n).length := by
  unfold encLen; split <;> [simp; (split <;> [simp; (split <;> [simp; (split <;> simp)])])]

theorem tlv_length_ge (t : Nat) (c : Bytes) : c.length + 2 ≤ (tlv t c).length := by
  have := encLen_length_pos c.length
  simp [tlv]; omega

/-- one turn of the loop on a constructed value of definite length: its content becomes the current limit -/
theorem run_cons (t : Nat) (c more : Bytes) (st : List Frame) (ht : t % 32 ≠ 31) (hp : isCons t = true) :
    run (tlv t c ++ more) st = contR c (.definite more :: st) := by
  unfold run
  rw [skipLoop]
  have e : tlv t c ++ more = t :: (encLen c.length ++ (c ++ more)) := by simp [tlv]
  have htag : takeTagAny (tlv t c ++ more) = some (t, encLen c.length ++ (c ++ more)) := by
    rw [e]; simp [takeTagAny, ht]
  have hlen : readLenX (encLen c.length ++ (c ++ more)) = some (.definite c.length, c ++ more) := by
    unfold readLenX
    have hr := AsDer.readLen_encLen' c.length (c ++ more)
    have hh : ∀ r, encLen c.length ++ (c ++ more) = 0x80 :: r → False := by
      intro r e
      unfold encLen at e
      split at e
      · simp at e; omega
      · split at e <;> [skip; split at e <;> [skip; split at e]] <;> simp at e
    split
    · rename_i r heq; exact absurd heq (fun e => hh r e)
    · simp [hr]
  simp only [htag, hlen, hp, Bool.not_true, Bool.false_eq_true, if_false]
  have hl : ¬ (c ++ more).length < c.length := by simp
  simp only [hl, if_false, List.drop_left', List.take_left']
  unfold contR
  cases hpost : post c (.definite more :: st) with
  | done r => rfl
  | fail => rfl
  | more c' s' =>
    simp only
    apply skipLoop_eq_run
    have h1 := (post_flat (.definite more :: st) c).2 c' s' hpost
    rw [h1]
    have : (flat c (.definite more :: st)).length + 2 ≤ (flat (tlv t c ++ more) st).length := by
      rw [flat_eq, flat_eq, tailOf_definite, List.length_append, List.length_append, List.length_append,
        List.length_append]
      have := tlv_length_ge t c
      omega
    omega

/-- a concatenation of well-formed definite-length values (single-octet tags; a primitive value is not the
end-of-contents marker) -/
inductive Forest : Bytes → Prop
  | nil : Forest []
  | prim (t : Nat) (c rest : Bytes) : t % 32 ≠ 31 → isCons t = false → t ≠ 0 → Forest rest →
      Forest (tlv t c ++ rest)
  | cons (t : Nat) (c rest : Bytes) : t % 32 ≠ 31 → isCons t = true → Forest c → Forest rest →
      Forest (tlv t c ++ rest)

theorem tlv_append_ne_nil (t : Nat) (c rest : Bytes) : tlv t c ++ rest ≠ [] := by simp [tlv]

theorem contR_nonempty (b : Bytes) (f : Frame) (st : List Frame) (h : b ≠ []) :
    contR b (f :: st) = run b (f :: st) := by
  cases b with
  | nil => exact absurd rfl h
  | cons x xs => simp [contR, post]

/-- the machine walks through a forest that fills a definite-length value and comes out behind it -/
theorem forest_accept (b : Bytes) (hb : Forest b) :
    ∀ (after : Bytes) (st : List Frame), contR b (.definite after :: st) = contR after st := by
  induction hb with
  | nil => intro after st; simp [contR, post]
  | prim t c rest ht hp h0 _ ih =>
    intro after st
    rw [contR_nonempty _ _ _ (tlv_append_ne_nil t c rest), run_prim t c rest _ ht hp h0]
    exact ih after st
  | cons t c rest ht hp _ _ ihc ihr =>
    intro after st
    rw [contR_nonempty _ _ _ (tlv_append_ne_nil t c rest), run_cons t c rest _ ht hp, ihc rest _]
    exact ihr after st

/-- **`skip_one` accepts a constructed value whose content is a well-formed forest** and leaves exactly what
follows it -/
theorem skipOne_cons (t : Nat) (c rest : Bytes) (ht : t % 32 ≠ 31) (hp : isCons t = true) (hc : Forest c) :
    skipOne (tlv t c ++ rest) = some rest := by
  have h1 : skipOne (tlv t c ++ rest) = run (tlv t c ++ rest) [] := by
    unfold skipOne run; simp [flat]
  rw [h1, run_cons t c rest [] ht hp, forest_accept c hc rest []]
  simp [contR, post]

end Rpki.CertDer
